(* Property C19 — dense matrix storage keeps rows aligned and contents intact
   across operations.  This file contains only the property theorems (closed by
   [exact] of lemmas from DenseProofs), statement pins and assumption audits. *)
From Coq Require Import List Arith Bool Lia Permutation ZArith.
From LMBase Require Import Res ListX.
From LMDense Require Import DenseModel DenseProofs DenseReg DenseRegProofs DenseCheck DenseCheckProofs.
From LMDense Require Import DenseSteps DenseStepsProofs DenseF32 DenseF32Proofs GenDense.
Import ListNotations.

(* Stride: at least the column count, a whole number of alignment units, minimal. *)
Theorem C19_stride_spec : forall size C align,
  0 < size -> 0 < align -> align mod size = 0 ->
  C <= stride size C align /\
  (stride size C align * size) mod align = 0 /\
  stride size C align * size < C * size + align.
Proof.
  intros size C align Hs Ha Hd. repeat split.
  - exact (stride_ge size C align Hs Ha).
  - exact (stride_mod_align size C align Hs Ha Hd).
  - rewrite (stride_bytes size C align Hs Ha Hd). exact (row_bytes_minimal size C align Ha).
Qed.

(* Every row starts on an alignment boundary and rows do not overlap. *)
Theorem C19_rows_aligned_disjoint : forall base size C align r r',
  0 < align -> base mod align = 0 ->
  row_addr base size C align r mod align = 0 /\
  (r < r' -> row_addr base size C align r + C * size <= row_addr base size C align r').
Proof.
  intros base size C align r r' Ha Hb. split.
  - exact (row_addr_aligned base size C align r Ha Hb).
  - exact (rows_disjoint base size C align r r' Ha).
Qed.

(* Any operation sequence on the storage (rows with padding holding arbitrary,
   per-step different junk) behaves like the same sequence on a rows x columns
   table; it panics exactly when the table does, with the same site. *)
Theorem C19_storage_refines_table :
  forall (T : Type) (dflt : T) (C S : nat), C <= S ->
  forall (pads : nat -> nat -> T) (ops : list (op T)) (k : nat) (st : storage),
    s_wf C S st ->
    match s_run_pads dflt C S pads k st ops, t_run dflt C (abs st) ops with
    | Ok st', Ok t' => abs st' = t' /\ s_wf C S st'
    | Panic a, Panic b => a = b
    | _, _ => False
    end.
Proof. intros T dflt C S H pads ops k st Hwf. exact (s_run_refines dflt C S H pads ops k st Hwf). Qed.

(* The flat view: length rows*stride, logical cell (r,c) at offset r*stride+c,
   and re-chunking the flat view gives back the rows. *)
Theorem C19_ravel_layout :
  forall (T : Type) (C S : nat), C <= S -> forall (st : @storage T), s_wf C S st ->
    length (ravel st) = length st * S /\
    (forall r c d, r < length st -> c < C ->
       nth (r * S + c) (ravel st) d = nth c (nth r (abs st) []) d) /\
    unravel C S (length st) (ravel st) = st.
Proof.
  intros T C S H st Hwf. repeat split.
  - exact (ravel_length C S H st Hwf).
  - intros r c d Hr Hc. rewrite (ravel_index C S H st r c d Hwf Hr Hc).
    unfold abs. change (@nil T) with (ra (@srow0 T)). rewrite map_nth. reflexivity.
  - exact (unravel_ravel C S H st Hwf).
Qed.

(* fill() writes every storage cell (padding included) and the logical view is the filled table. *)
Theorem C19_fill :
  forall (T : Type) (C S : nat), C <= S -> forall (st : @storage T) (v : T), s_wf C S st ->
    (forall x, In x (ravel (s_fill C S st v)) -> x = v) /\
    abs (s_fill C S st v) = t_fill C (abs st) v.
Proof.
  intros T C S H st v Hwf. split.
  - intros x. exact (s_fill_all C S H st v x Hwf).
  - pose proof (abs_step v C S H (fun _ => v) st (OFill v) Hwf) as A. exact A.
Qed.

(* resize: reports the requested row count, keeps existing rows, new rows are default. *)
Theorem C19_resize :
  forall (T : Type) (dflt : T) (C : nat) (t : @table T) (rows : nat),
    t_rows (t_resize dflt C t rows) = rows /\
    (forall r, r < rows -> r < length t -> nth r (t_resize dflt C t rows) [] = nth r t []) /\
    (forall r, length t <= r -> r < rows -> nth r (t_resize dflt C t rows) [] = repeat dflt C).
Proof.
  intros T dflt C t rows. repeat split.
  - exact (t_resize_rows dflt C C (le_n C) t rows).
  - intros r. exact (t_resize_keeps dflt C C (le_n C) t rows r).
  - intros r. exact (t_resize_new dflt C C (le_n C) t rows r).
Qed.

(* Shrink, then grow again (any amounts): the rows that were cut off and are exposed again hold
   the default value, not what they held before the shrink; the surviving rows are untouched.
   (Vec::resize_with truncates, then pushes fresh default rows; through
   C19_regfile_refines_table the struct does the same whatever its capacity.) *)
Theorem C19_shrink_then_grow :
  forall (T : Type) (dflt : T) (C : nat) (t : @table T) (r1 r2 : nat),
    r1 <= length t -> r1 <= r2 ->
    t_resize dflt C (t_resize dflt C t r1) r2 = firstn r1 t ++ repeat (repeat dflt C) (r2 - r1) /\
    (forall r, r1 <= r -> r < r2 -> nth r (t_resize dflt C (t_resize dflt C t r1) r2) [] = repeat dflt C) /\
    (forall r, r < r1 -> nth r (t_resize dflt C (t_resize dflt C t r1) r2) [] = nth r t []).
Proof.
  intros T dflt C t r1 r2 H1 H2.
  assert (L1 : length (t_resize dflt C t r1) = r1) by exact (t_resize_rows dflt C C (le_n C) t r1).
  split; [|split].
  - unfold t_resize at 1. rewrite L1.
    assert (E : t_resize dflt C t r1 = firstn r1 t).
    { unfold t_resize. replace (r1 - length t) with 0 by lia. cbn [repeat]. apply app_nil_r. }
    rewrite E. rewrite firstn_all2 by (rewrite firstn_length; lia). reflexivity.
  - intros r Ha Hb. apply (t_resize_new dflt C C (le_n C) (t_resize dflt C t r1) r2 r); lia.
  - intros r Hr.
    rewrite (t_resize_keeps dflt C C (le_n C) (t_resize dflt C t r1) r2 r) by lia.
    apply (t_resize_keeps dflt C C (le_n C) t r1 r); lia.
Qed.

(* Equality and clone depend on the logical cells only. *)
Theorem C19_eq_clone_logical :
  forall (T : Type) (C S : nat) (eqT : T -> T -> bool) (a b : @storage T) (pad : nat -> T),
    s_eqb eqT a b = table_eqb eqT (abs a) (abs b) /\
    abs (s_clone C S pad a) = abs a /\
    ((forall x, eqT x x = true) -> s_eqb eqT (s_clone C S pad a) a = true).
Proof.
  intros T C S eqT a b pad. repeat split.
  - exact (s_eqb_abs eqT a b).
  - exact (abs_clone C S pad a).
  - intros Hr. exact (clone_eq C S eqT Hr pad a).
Qed.

(* Forward / reverse / interleaved double-ended iteration visits exactly the rows:
   all-front = the rows in order, all-back = the rows in reverse order, any
   interleaving of next() / next_back() of total length rows = every row once. *)
Theorem C19_iteration :
  forall (T : Type) (t : @table T),
    take_mixed (repeat true (length t)) t = t /\
    take_mixed (repeat false (length t)) t = rev t /\
    (forall pat, length pat = length t -> Permutation (take_mixed pat t) t).
Proof.
  intros T t. repeat split.
  - exact (take_mixed_front t).
  - exact (take_mixed_back (length t) t eq_refl).
  - intros pat. exact (take_mixed_perm pat t).
Qed.

(* ---------- several matrices with different histories (register file) ---------- *)

(* The struct as it is (data vector, SEPARATE rows field, capacity) refines the
   rows x columns tables for every operation sequence over a register file of
   matrices: single-matrix operations on any register, from_rows with an iterator
   whose len() is wrong, reserve, clone_from / clone between registers, swap, move.
   The struct invariant rows == data.len() <= capacity is preserved, rows() of every
   register is the row count of its table, and a panic happens exactly where the
   tables panic (same site). *)
Theorem C19_regfile_refines_table :
  forall (T : Type) (dflt : T) (C S : nat), C <= S ->
  forall (pads : nat -> nat -> T) (ops : list (rop T)) (k : nat) (regs : list (@smat T)),
    Forall (m_wf C S) regs ->
    match rs_run_pads dflt C S pads k regs ops, rt_run dflt C (map mabs regs) ops with
    | Ok rs', Ok ts' =>
        map mabs rs' = ts' /\ Forall (m_wf C S) rs' /\ map (@m_rows T) rs' = map (@length _) ts'
    | Panic a, Panic b => a = b
    | _, _ => False
    end.
Proof. intros T dflt C S H pads ops k regs Hwf. exact (rs_run_refines dflt C S H pads ops k regs Hwf). Qed.

(* In every reachable (well-formed) state the observers that read DIFFERENT fields
   agree: rows() (the rows field) is the number of rows Index/iter() see (the data
   vector), ravel() (rows*stride cells) is the whole buffer, and the derived ==
   (data and rows field) between two matrices with any capacities / paddings /
   histories is equality of the logical cells. *)
Theorem C19_struct_observers_agree :
  forall (T : Type) (C S : nat) (eqT : T -> T -> bool), C <= S ->
  forall a b : @smat T, m_wf C S a -> m_wf C S b ->
    m_rows a = length (mabs a) /\
    m_ravel S a = ravel (sd a) /\ length (m_ravel S a) = m_rows a * S /\
    m_eqb eqT a b = table_eqb eqT (mabs a) (mabs b).
Proof.
  intros T C S eqT H a b Ha Hb. split; [|split; [|split]].
  - exact (m_rows_abs C S a Ha).
  - exact (m_ravel_whole C S H a Ha).
  - rewrite (m_ravel_whole C S H a Ha). destruct Ha as [H1 [H2 _]].
    rewrite (ravel_length C S H (sd a) H1). unfold m_rows. rewrite H2. reflexivity.
  - exact (m_eqb_abs C S H eqT a b Ha Hb).
Qed.

(* from_rows does not trust ExactSizeIterator::len(): the result holds exactly the rows
   the iterator yielded (never an unwritten row) when it yields at most len() rows, all
   of C cells; it panics when a row has another length or when more rows than len()
   arrive; with an honest len() it is from_rows of the single-matrix model.  The
   struct-level execution (uninitialized buffer, indexed writes, resize(written))
   refines it and re-establishes the invariant. *)
Theorem C19_from_rows_untrusted_len :
  forall (T : Type) (dflt : T) (C S : nat), C <= S ->
  forall (pad : nat -> T) (claimed : nat) (rows : list (list T)),
    match m_from_rows_len dflt C S pad claimed rows, t_from_rows_len C claimed rows with
    | Ok m', Ok t' => mabs m' = t' /\ m_wf C S m'
    | Panic a, Panic b => a = b
    | _, _ => False
    end /\
    (forall t', t_from_rows_len C claimed rows = Ok t' ->
       t' = rows /\ length rows <= claimed /\ Forall (fun r => length r = C) rows) /\
    (claimed < length rows -> exists site, t_from_rows_len C claimed rows = Panic site) /\
    t_from_rows_len C (length rows) rows = t_from_rows C rows.
Proof.
  intros T dflt C S H pad claimed rows. split; [|split; [|split]].
  - exact (m_from_rows_len_spec dflt C S H pad claimed rows).
  - intros t'. unfold t_from_rows_len.
    destruct (from_rows_scan C claimed 0 rows) as [u| | |] eqn:E; simpl; intros K; try discriminate.
    injection K as K'. subst t'.
    apply (from_rows_scan_ok C S H) in E. destruct E as [H1 H2]. simpl in H1. auto.
  - intros Hlt.
    assert (X : exists site, from_rows_scan C claimed 0 rows = Panic site)
      by (apply (from_rows_scan_more C S H); [lia | exact Hlt]).
    destruct X as [site E].
    exists site. unfold t_from_rows_len. rewrite E. reflexivity.
  - apply (t_from_rows_len_honest C S H).
Qed.

(* Double-ended iteration continued past exhaustion: the first rows() calls of any
   next()/next_back() pattern hand out every row exactly once, every later call
   returns None (the iterator is fused). *)
Theorem C19_iteration_fused :
  forall (T : Type) (pat : list bool) (t : @table T), length t <= length pat ->
    take_mixed_o pat t =
      map Some (take_mixed (firstn (length t) pat) t) ++ repeat None (length pat - length t) /\
    Permutation (take_mixed (firstn (length t) pat) t) t.
Proof.
  intros T pat t H. split.
  - exact (take_mixed_o_spec pat t).
  - apply take_mixed_perm. rewrite firstn_length. lia.
Qed.

(* Positional iteration (next / next_back / nth / nth_back, i.e. what skip, step_by, rev().skip,
   rev().step_by are made of), for any interleaving of the four calls, continued past exhaustion:
   call j hands out exactly the row whose index the shrinking window [lo, hi) of all rows
   designates (front calls take lo + k and move lo past it, back calls take hi - 1 - k and
   move hi down to it), every index lies inside the table, no row is handed out twice, and
   len() after each call is the size of the window. *)
Theorem C19_iteration_steps :
  forall (T : Type) (pat : list istep) (t : list (list T)),
    take_steps pat t = map (pick t) (steps_idx pat 0 (length t)) /\
    (forall i, In (Some i) (steps_idx pat 0 (length t)) -> i < length t) /\
    NoDup (somes (steps_idx pat 0 (length t))) /\
    steps_lens pat (length t) = steps_idx_lens pat 0 (length t).
Proof.
  intros T pat t. split; [exact (take_steps_idx pat t)|]. split; [|split].
  - intros i Hi. apply (steps_idx_in_range pat 0 (length t) i (Nat.le_0_l _)) in Hi. lia.
  - exact (steps_idx_nodup pat 0 (length t) (Nat.le_0_l _)).
  - rewrite <- (steps_lens_idx pat 0 (length t) (Nat.le_0_l _)). now rewrite Nat.sub_0_r.
Qed.

(* skip(k) and rev().skip(k) as std implements them (one nth(k) / nth_back(k) call, then plain
   next() / next_back()): the rows from k on, in forward respectively reverse order. *)
Theorem C19_iteration_skip_adaptors :
  forall (T : Type) (k : nat) (t : list (list T)),
    somes (take_steps (SNth k :: repeat SNext (length t)) t) = skipn k t /\
    somes (take_steps (SNthBack k :: repeat SBack (length t)) t) = skipn k (rev t).
Proof. intros T k t. split; [exact (take_steps_skip k t)|exact (take_steps_rev_skip k t)]. Qed.

Example C19_iteration_steps_nonvacuous :
  take_steps [SNthBack 1; SNth 1; SBack; SNext; SNext] [[1]; [2]; [3]; [4]; [5]; [6]]
  = [Some [5]; Some [2]; Some [4]; Some [3]; None].
Proof. reflexivity. Qed.

(* step_by(k+1) and rev().step_by(k+1) as std implements them (next() then nth(k) repeatedly,
   next_back() then nth_back(k) repeatedly): the rows of index 0, k+1, 2(k+1), ... of the
   rows, respectively of the reversed rows - exactly the multiples of k+1 below rows();
   rev() in general: the mirrored calls on the reversed rows; last() = row rows-1. *)
Theorem C19_iteration_step_by_adaptors :
  forall (T : Type) (k : nat) (t : list (list T)),
    map Some (somes (take_steps (SNext :: repeat (SNth k) (length t)) t))
      = map (nth_error t) (stepby_idx k (S (length t)) 0 (length t)) /\
    map Some (somes (take_steps (SBack :: repeat (SNthBack k) (length t)) t))
      = map (nth_error (rev t)) (stepby_idx k (S (length t)) 0 (length t)) /\
    (forall j, In j (stepby_idx k (S (length t)) 0 (length t)) <-> j < length t /\ exists q, j = q * (k + 1)) /\
    (forall pat, take_steps (mirror pat) t = take_steps pat (rev t)) /\
    hd None (take_steps [SBack] t) = nth_error t (length t - 1).
Proof.
  intros T k t. split; [exact (take_steps_step_by k t)|]. split; [exact (take_steps_rev_step_by k t)|].
  split; [|split; [intros pat; exact (take_steps_mirror pat t)|exact (take_steps_last t)]].
  intros j. split.
  - intros H. apply stepby_idx_in in H. destruct H as [H1 [q Hq]]. split; [assumption|]. exists q. lia.
  - intros [H1 [q Hq]]. subst j. apply (stepby_idx_complete k (S (length t)) 0 (length t) q); lia.
Qed.

(* The extracted checker used by the driver for PROPFAIL decides exactly the
   specification relation trace_ok (DenseCheck.v): it is sound and complete.
   idT decides identity of cell values; eqR is the element type's `==` and may be ANY
   function (for f32 it is neither reflexive nor identity): the matrix `==` demanded by
   trace_ok is the lifting rel_tab of eqR to tables of logical cells.  The positional
   iteration (f_steps: nth / nth_back / skip / step_by / last / count) is part of
   trace_ok, stated on row indices (sobs_ok: steps_idx, stepby_idx), and is decided by
   check_steps (list surgery take_steps) inside check_C19. *)
Theorem C19_check_sound :
  forall (T : Type) (dflt : T) (C S size align : nat) (idT eqR : T -> T -> bool),
    (forall x y, idT x y = true <-> x = y) ->
  forall pat steps regs ops ob fin,
    check_C19 dflt C S size align idT eqR pat steps regs ops ob fin = true ->
    trace_ok dflt C S size align eqR pat steps regs ops ob fin.
Proof. intros T dflt C S size align idT eqR He pat steps regs ops ob fin. apply (check_C19_iff dflt C S size align idT eqR He pat steps ops). Qed.

Theorem C19_check_complete :
  forall (T : Type) (dflt : T) (C S size align : nat) (idT eqR : T -> T -> bool),
    (forall x y, idT x y = true <-> x = y) ->
  forall pat steps regs ops ob fin,
    trace_ok dflt C S size align eqR pat steps regs ops ob fin ->
    check_C19 dflt C S size align idT eqR pat steps regs ops ob fin = true.
Proof. intros T dflt C S size align idT eqR He pat steps regs ops ob fin. apply (check_C19_iff dflt C S size align idT eqR He pat steps ops). Qed.

(* the positional part alone: checker (take_steps / steps_lens) <-> index-level specification *)
Theorem C19_check_steps_sound_complete :
  forall (T : Type) (idT : T -> T -> bool), (forall x y, idT x y = true <-> x = y) ->
  forall steps (t : @table T) (o : sobs T),
    check_steps idT steps t o = true <-> sobs_ok steps t o.
Proof. intros T idT He steps t o. exact (check_steps_spec idT He steps t o). Qed.

(* an observation in which an observer panicked after the operation returned is rejected *)
Theorem C19_check_rejects_observer_panic :
  forall (T : Type) (dflt : T) (C S size align : nat) (idT eqR : T -> T -> bool) pat steps regs ops pre rest fin,
    check_C19 dflt C S size align idT eqR pat steps regs ops (pre ++ ObsBroken :: rest) fin = false.
Proof. intros. apply check_C19_broken. Qed.

(* The two instances that are extracted and run by the driver: cells as Z.
   u8 / u32 / i64: the value itself, == is identity (Z.eqb).
   f32: the code of DenseF32.v, identity is Z.eqb on codes, == is f32c_eqb. *)
Theorem C19_check_extracted_instance :
  forall (C S size align : nat) pat steps regs ops ob fin,
    check_C19 0%Z C S size align Z.eqb Z.eqb pat steps regs ops ob fin = true
    <-> trace_ok 0%Z C S size align Z.eqb pat steps regs ops ob fin.
Proof. intros C S size align pat steps regs ops ob fin. apply (check_C19_iff 0%Z C S size align Z.eqb Z.eqb Z.eqb_eq pat steps ops). Qed.

Theorem C19_check_extracted_instance_f32 :
  forall (C S size align : nat) pat steps regs ops ob fin,
    check_C19 0%Z C S size align Z.eqb f32c_eqb pat steps regs ops ob fin = true
    <-> trace_ok 0%Z C S size align f32c_eqb pat steps regs ops ob fin.
Proof. intros C S size align pat steps regs ops ob fin. apply (check_C19_iff 0%Z C S size align Z.eqb f32c_eqb Z.eqb_eq pat steps ops). Qed.

(* What "equality depends only on the logical cells" means for an element type whose == is
   not identity: matrix == is the cell-wise lifting of the element ==.  It is identity of the
   tables exactly when the element == is identity (u8/u32/i64); a matrix equals its own clone
   iff every cell equals itself (no NaN); and it is a partial equivalence when the element ==
   is (f32: symmetric, transitive; irreflexive at NaN; 0.0 == -0.0 although the cells differ). *)
Theorem C19_eq_lifts_element_eq :
  forall (T : Type) (eqR : T -> T -> bool),
    ((forall x y, eqR x y = true <-> x = y) -> forall a b : @table T, rel_tab eqR a b <-> a = b) /\
    (forall t : @table T, rel_tab eqR t t <-> Forall (Forall (fun x => eqR x x = true)) t) /\
    ((forall x y, eqR x y = eqR y x) -> forall a b : @table T, rel_tab eqR a b -> rel_tab eqR b a) /\
    ((forall x y z, eqR x y = true -> eqR y z = true -> eqR x z = true) ->
       forall a b c : @table T, rel_tab eqR a b -> rel_tab eqR b c -> rel_tab eqR a c).
Proof.
  intros T eqR. split; [|split; [|split]].
  - intros He a b. exact (rel_tab_leibniz eqR He a b).
  - exact (rel_tab_refl_iff eqR).
  - exact (rel_tab_sym eqR).
  - exact (rel_tab_trans eqR).
Qed.

Theorem C19_f32_eq_is_partial_equivalence :
  (forall a b, f32c_eqb a b = f32c_eqb b a) /\
  (forall a b c, f32c_eqb a b = true -> f32c_eqb b c = true -> f32c_eqb a c = true) /\
  (forall a, f32c_eqb a a = true <-> f32c_is_nan a = false) /\
  f32c_eqb (F32_BASE + 2143289344) (F32_BASE + 2143289344) = false /\
  (f32c_eqb 0 (F32_BASE + 2147483648) = true /\ 0%Z <> (F32_BASE + 2147483648)%Z).
Proof.
  split; [exact f32c_eqb_sym|]. split; [exact f32c_eqb_trans|]. split; [exact f32c_eqb_refl_iff|].
  split; [exact f32c_eqb_nan_irrefl|exact f32c_eqb_zeros].
Qed.

Theorem C19_f32_eq_agrees_with_ieee_on_grid :
  forallb (fun a => forallb (fun b => Bool.eqb (f32c_eqb a b) (IEEE.F32.eq (f32c_decode a) (f32c_decode b)))
                            f32c_grid) f32c_grid = true.
Proof. exact f32c_eqb_agrees_with_ieee_on_grid. Qed.

(* The specification is met by the struct-level model: in every well-formed state, and
   whatever addresses the allocator returned for the buffers (any multiples of the alignment),
   the observations the model's own observers make (each reading the field the code reads;
   row addresses and stride DERIVED with Rust's layout rule size_of::<Row>() = C*size rounded
   up to the alignment) are accepted by the property: every row on an alignment boundary,
   consecutive rows one stride apart. *)
Theorem C19_struct_model_meets_spec :
  forall (T : Type) (C S size align : nat) (idT eqR : T -> T -> bool),
    (forall x y, idT x y = true <-> x = y) ->
    0 < size -> 0 < align -> align mod size = 0 -> S = stride size C align ->
  forall (bases : list Z) (regs : list (@smat T)),
    length bases = length regs ->
    Forall (fun b => (b mod Z.of_nat align = 0)%Z) bases ->
    Forall (m_wf C S) regs ->
    robs_ok S size align eqR (map mabs regs) (m_observe C S size align idT eqR bases regs).
Proof.
  intros T C S size align idT eqR He Hs Ha Hd HS bases regs Hl Hb Hwf.
  exact (m_observe_ok C S size align idT eqR He Hs Ha Hd HS bases regs Hl Hb Hwf).
Qed.

(* Every state the struct-level model reaches, from well-formed registers and by any
   operation sequence (hence after every prefix of it), corresponds to the tables the
   same sequence produces and is observed as the property demands. *)
Theorem C19_every_reachable_state_meets_spec :
  forall (T : Type) (dflt : T) (C S size align : nat) (idT eqR : T -> T -> bool),
    (forall x y, idT x y = true <-> x = y) ->
    0 < size -> 0 < align -> align mod size = 0 -> S = stride size C align ->
  forall (pads : nat -> nat -> T) (ops : list (rop T)) (k : nat) (regs rs' : list (@smat T)) (bases : list Z),
    Forall (m_wf C S) regs ->
    rs_run_pads dflt C S pads k regs ops = Ok rs' ->
    length bases = length rs' ->
    Forall (fun b => (b mod Z.of_nat align = 0)%Z) bases ->
    rt_run dflt C (map mabs regs) ops = Ok (map mabs rs') /\
    robs_ok S size align eqR (map mabs rs') (m_observe C S size align idT eqR bases rs').
Proof.
  intros T dflt C S size align idT eqR He Hs Ha Hd HS pads ops k regs rs' bases Hwf E Hl Hb.
  assert (H : C <= S) by (rewrite HS; apply stride_ge; assumption).
  pose proof (rs_run_refines dflt C S H pads ops k regs Hwf) as R. rewrite E in R.
  destruct (rt_run dflt C (map mabs regs) ops) as [ts'| | |]; try contradiction.
  destruct R as [R1 [R2 _]]. subst ts'. split; [reflexivity|].
  exact (m_observe_ok C S size align idT eqR He Hs Ha Hd HS bases rs' Hl Hb R2).
Qed.

(* The alignment conjunct is not satisfied by a layout rule that does not round the row size:
   with rows of C*size bytes (no padding) the second row of a u8 x 5 matrix is off the boundary. *)
Example C19_alignment_needs_the_rounding :
  ((4096 + Z.of_nat (1 * (5 * 1))) mod 32 <> 0)%Z /\
  ((4096 + Z.of_nat (row_addr 0 1 5 32 1)) mod 32 = 0)%Z.
Proof. split; [vm_compute; discriminate|reflexivity]. Qed.

(* The layout facts the model takes from dense.rs, re-extracted from the source text on every run
   (translate/dense_layout.py -> GenDense.v): `struct Row` is repr(align(32)) on x86_64 and
   repr(align(16)) on every other architecture, has the single array field (so its size is
   C*size_of::<T>() rounded up to the alignment: row_bytes), and stride() is
   size_of::<Row<T,C>>() / size_of::<T>().  With these alignments the hypotheses of the layout
   theorems hold for the element sizes 1, 4, 8 of u8 / u32, f32 / i64. *)
Theorem C19_model_matches_source :
  gen_row_align_x86_64 = 32 /\ gen_row_align_other = 16 /\ gen_row_fields = 1 /\
  gen_stride_is_sizeof_ratio = true /\
  (forall size, In size [1; 4; 8] ->
     0 < size /\ gen_row_align_x86_64 mod size = 0 /\ gen_row_align_other mod size = 0).
Proof.
  repeat split; try reflexivity;
    destruct H as [<-|[<-|[<-|[]]]]; try reflexivity; auto with arith.
Qed.

(* Non-vacuity of the register-file theorems: three fresh matrices are well formed; a
   clone_from into a shrunk matrix of larger capacity reports the source's rows; the
   checker accepts the right observation of that sequence and rejects the one with a
   stale row count. *)
Definition ex_ops : list (rop nat) :=
  [RLocal 0 (ONew 8); RLocal 0 (OResize 2); RLocal 1 (OFromRows [[1]; [2]; [3]; [4]; [5]]); RCloneFrom 0 1].

Example C19_nonvacuous_regfile :
  Forall (m_wf 1 32) (repeat (m_resize 0 1 32 (fun i => i) (m_empty 0) 0) 3) /\
  match rs_run_pads 0 1 32 (fun k i => k + i) 0 (repeat (m_resize 0 1 32 (fun i => i) (m_empty 0) 0) 3) ex_ops with
  | Ok rs => map (@m_rows nat) rs = [5; 5; 0] /\
             m_eqb Nat.eqb (nth 0 rs (m_empty 0)) (nth 1 rs (m_empty 0)) = true /\
             scap (nth 0 rs (m_empty 0)) = 5
  | _ => False
  end.
Proof.
  split.
  - repeat constructor.
  - vm_compute. repeat split.
Qed.

Definition ex_obs (rows0 : nat) : list (obs nat) :=
  let mk r cells := {| ob_rows := r; ob_stride := 32;
                       ob_addrs := map (fun i => (4096 + 32 * Z.of_nat i)%Z) (seq 0 r);
                       ob_ravel := true; ob_cells := cells |} in
  let z8 := repeat [0] 8 in let z2 := repeat [0] 2 in let f5 := [[1]; [2]; [3]; [4]; [5]] in
  let eqs (a b c : bool) := [true; a; b; a; true; c; b; c; true] in
  let ob m0 m1 a b c := ObsOk {| ob_regs := [m0; m1; mk 0 []]; ob_eq := eqs a b c; ob_ne := map negb (eqs a b c) |} in
  [ob (mk 8 z8) (mk 0 []) false false true;
   ob (mk 2 z2) (mk 0 []) false false true;
   ob (mk 2 z2) (mk 5 f5) false false false;
   ob (mk rows0 f5) (mk 5 f5) true false false].

Definition ex_steps : list istep := [SNthBack 1; SNext; SNth 1; SBack; SBack].

Definition ex_sobs (last_row : option (list nat)) (t : list (list nat)) : sobs nat :=
  {| so_walk := take_steps ex_steps t; so_walk_mut := take_steps ex_steps t; so_walk_into := take_steps ex_steps t;
     so_lens := steps_lens ex_steps (length t);
     so_skip := skipn 1 t; so_rev_skip := skipn 1 (rev t);
     so_step_by := match t with [] => [] | _ => [[1]; [3]; [5]] end;
     so_rev_step_by := match t with [] => [] | _ => [[5]; [3]; [1]] end;
     so_mut_rev_skip := skipn 1 (rev t);
     so_last := last_row; so_count := length t |}.

Definition ex_fin' (last5 : option (list nat)) : list (fobs nat) :=
  let mk l t := {| f_iter := t; f_rev := rev t; f_into := t; f_into_mut := t;
                 f_mixed := take_mixed_o [true; false] t; f_mixed_mut := take_mixed_o [true; false] t;
                 f_mixed_into := take_mixed_o [true; false] t; f_lens := mixed_lens [true; false] (length t);
                 f_eqclone := true; f_neclone := false; f_eqpad := true; f_eqpad' := true; f_nepad := false;
                 f_eqmod := match t with [] => true | _ => false end;
                 f_steps := ex_sobs l t |} in
  [mk last5 [[1]; [2]; [3]; [4]; [5]]; mk last5 [[1]; [2]; [3]; [4]; [5]]; mk None []].
Definition ex_fin := ex_fin' (Some [5]).

Example C19_check_nonvacuous :
  check_C19 0 1 32 1 32 Nat.eqb Nat.eqb [true; false] ex_steps [[]; []; []] ex_ops (ex_obs 5) (Some ex_fin) = true /\
  check_C19 0 1 32 1 32 Nat.eqb Nat.eqb [true; false] ex_steps [[]; []; []] ex_ops (ex_obs 2) (Some ex_fin) = false /\
  (* last() answering the first row (nth_back copy-pasted from nth) is rejected *)
  check_C19 0 1 32 1 32 Nat.eqb Nat.eqb [true; false] ex_steps [[]; []; []] ex_ops (ex_obs 5) (Some (ex_fin' (Some [1]))) = false /\
  (* a row 16 bytes off the boundary is rejected *)
  check_mobs 32 1 32 Nat.eqb [[7]; [8]]
    {| ob_rows := 2; ob_stride := 32; ob_addrs := [4112; 4144]%Z; ob_ravel := true; ob_cells := [[7]; [8]] |} = false /\
  (* a NaN cell: m == m.clone() must be false, and true is rejected *)
  check_eq f32c_eqb ([[F32_BASE + 2143289344]], [[F32_BASE + 2143289344]])%Z false = true /\
  check_eq f32c_eqb ([[F32_BASE + 2143289344]], [[F32_BASE + 2143289344]])%Z true = false /\
  check_eq f32c_eqb ([[0]], [[F32_BASE + 2147483648]])%Z true = true.
Proof. vm_compute. repeat split; reflexivity. Qed.

(* Non-vacuity: the hypotheses are met by the matrices the code builds, and the
   layout of the element types / column counts named by the property. *)
Example C19_nonvacuous_wf :
  s_wf 5 32 (s_new 0 5 32 (fun i => i) 3) /\ 5 <= stride 1 5 32.
Proof. split; [apply s_new_wf | vm_compute; lia]. Qed.

Example C19_strides_x86 :
  map (fun C => (stride 1 C 32, stride 4 C 32, stride 8 C 32)) [1; 5; 7; 16; 21; 32; 43]
  = [(32, 8, 4); (32, 8, 8); (32, 8, 8); (32, 16, 16); (32, 24, 24); (32, 32, 32); (64, 48, 44)].
Proof. vm_compute. reflexivity. Qed.

Check C19_stride_spec : forall size C align,
  0 < size -> 0 < align -> align mod size = 0 ->
  C <= stride size C align /\
  (stride size C align * size) mod align = 0 /\
  stride size C align * size < C * size + align.
Check C19_storage_refines_table :
  forall (T : Type) (dflt : T) (C S : nat), C <= S ->
  forall (pads : nat -> nat -> T) (ops : list (op T)) (k : nat) (st : storage),
    s_wf C S st ->
    match s_run_pads dflt C S pads k st ops, t_run dflt C (abs st) ops with
    | Ok st', Ok t' => abs st' = t' /\ s_wf C S st'
    | Panic a, Panic b => a = b
    | _, _ => False
    end.
Check C19_regfile_refines_table :
  forall (T : Type) (dflt : T) (C S : nat), C <= S ->
  forall (pads : nat -> nat -> T) (ops : list (rop T)) (k : nat) (regs : list (@smat T)),
    Forall (m_wf C S) regs ->
    match rs_run_pads dflt C S pads k regs ops, rt_run dflt C (map mabs regs) ops with
    | Ok rs', Ok ts' =>
        map mabs rs' = ts' /\ Forall (m_wf C S) rs' /\ map (@m_rows T) rs' = map (@length _) ts'
    | Panic a, Panic b => a = b
    | _, _ => False
    end.
Check C19_check_sound :
  forall (T : Type) (dflt : T) (C S size align : nat) (idT eqR : T -> T -> bool),
    (forall x y, idT x y = true <-> x = y) ->
  forall pat steps regs ops ob fin,
    check_C19 dflt C S size align idT eqR pat steps regs ops ob fin = true ->
    trace_ok dflt C S size align eqR pat steps regs ops ob fin.
Check C19_check_complete :
  forall (T : Type) (dflt : T) (C S size align : nat) (idT eqR : T -> T -> bool),
    (forall x y, idT x y = true <-> x = y) ->
  forall pat steps regs ops ob fin,
    trace_ok dflt C S size align eqR pat steps regs ops ob fin ->
    check_C19 dflt C S size align idT eqR pat steps regs ops ob fin = true.
Check C19_check_steps_sound_complete :
  forall (T : Type) (idT : T -> T -> bool), (forall x y, idT x y = true <-> x = y) ->
  forall steps (t : @table T) (o : sobs T),
    check_steps idT steps t o = true <-> sobs_ok steps t o.
Check C19_struct_model_meets_spec :
  forall (T : Type) (C S size align : nat) (idT eqR : T -> T -> bool),
    (forall x y, idT x y = true <-> x = y) ->
    0 < size -> 0 < align -> align mod size = 0 -> S = stride size C align ->
  forall (bases : list Z) (regs : list (@smat T)),
    length bases = length regs ->
    Forall (fun b => (b mod Z.of_nat align = 0)%Z) bases ->
    Forall (m_wf C S) regs ->
    robs_ok S size align eqR (map mabs regs) (m_observe C S size align idT eqR bases regs).
