(* Register-file model of lightmotif/src/dense.rs: operation sequences acting on
   SEVERAL DenseMatrix values with different histories (executable definitions only).

   DenseModel.v models one matrix as a list of rows (with padding).  The Rust struct
   is `DenseMatrix { data: Vec<Row<T,C>>, rows: usize }`: the row count reported by
   rows() (and used by ravel()/ravel_mut()/fill() and by the derived ==) is a field
   SEPARATE from the vector length used by Index/IndexMut/iter()/iter_mut().  This
   file models the struct as it is ([smat]: data, the rows field, a lower bound of the
   Vec capacity), each method with the field it really reads or writes, and the
   operations involving two matrices: clone(), clone_from(), ==, !=, mem::swap,
   mem::replace.  It also models from_rows() as the code performs it (uninitialized
   buffer of `it.len()` rows, indexed writes, final resize(written)) for iterators
   whose ExactSizeIterator::len() is wrong.

   Table level  : a register file is a list of tables (DenseModel.table).
   Storage level: a register file is a list of [smat]. *)
From Coq Require Import List Arith Bool Lia.
From LMBase Require Import Res ListX.
From LMDense Require Import DenseModel.
Import ListNotations.

Inductive rop (T : Type) : Type :=
| RLocal (d : nat) (o : op T)                 (* regs[d].<o> : any single-matrix op of DenseModel *)
| RFromRowsLen (d claimed : nat) (rows : list (list T))
      (* regs[d] = from_rows(it) where it.len() == claimed and it yields `rows` *)
| RReserve (d n : nat)                        (* regs[d].reserve(n) *)
| RCloneFrom (d s : nat)                      (* regs[d].clone_from(&regs[s]) *)
| RCloneTo (d s : nat)                        (* regs[d] = regs[s].clone() *)
| RSwap (a b : nat)                           (* mem::swap(&mut regs[a], &mut regs[b]) *)
| RMove (d s : nat).                          (* regs[d] = mem::replace(&mut regs[s], new(0)) *)

Arguments RLocal {T}. Arguments RFromRowsLen {T}. Arguments RReserve {T}.
Arguments RCloneFrom {T}. Arguments RCloneTo {T}. Arguments RSwap {T}. Arguments RMove {T}.

Section DenseReg.
  Context {T : Type}.
  Variable dflt : T.
  Variable C : nat.
  Variable S : nat.

  (* ---------- from_rows with an untrusted len() ---------- *)

  (* the loop `for (i,row) in it.enumerate() { dense[i].copy_from_slice(row) }` over a
     buffer of [claimed] rows: dense[i] panics (site 5) when i >= claimed,
     copy_from_slice panics (site 2) when the row has not exactly C cells *)
  Fixpoint from_rows_scan (claimed i : nat) (rows : list (list T)) : res unit :=
    match rows with
    | [] => Ok tt
    | r :: rest =>
        if i <? claimed
        then if length r =? C then from_rows_scan claimed (i + 1) rest else Panic 2
        else Panic 5
    end.

  Definition t_from_rows_len (claimed : nat) (rows : list (list T)) : res (@table T) :=
    _ <- from_rows_scan claimed 0 rows ;; Ok rows.

  (* ---------- Table level register file ---------- *)

  Definition tregs := list (@table T).

  Definition rt_get (regs : tregs) (d : nat) : res (@table T) :=
    match nth_error regs d with Some t => Ok t | None => Panic 9 end.

  Definition rt_step (regs : tregs) (o : rop T) : res tregs :=
    match o with
    | RLocal d o => t <- rt_get regs d ;; t' <- t_step dflt C t o ;; Ok (upd d t' regs)
    | RFromRowsLen d cl rows =>
        _ <- rt_get regs d ;; t' <- t_from_rows_len cl rows ;; Ok (upd d t' regs)
    | RReserve d _ => _ <- rt_get regs d ;; Ok regs
    | RCloneFrom d s => _ <- rt_get regs d ;; ts <- rt_get regs s ;; Ok (upd d ts regs)
    | RCloneTo d s => _ <- rt_get regs d ;; ts <- rt_get regs s ;; Ok (upd d ts regs)
    | RSwap a b => ta <- rt_get regs a ;; tb <- rt_get regs b ;; Ok (upd b ta (upd a tb regs))
    | RMove d s => _ <- rt_get regs d ;; ts <- rt_get regs s ;; Ok (upd d ts (upd s [] regs))
    end.

  Fixpoint rt_run (regs : tregs) (ops : list (rop T)) : res tregs :=
    match ops with
    | [] => Ok regs
    | o :: rest => rbind (rt_step regs o) (fun regs' => rt_run regs' rest)
    end.

  (* ---------- Storage level: the struct ---------- *)

  Record smat := { sd : @storage T;   (* data: Vec<Row<T,C>>, its len() is [length sd] *)
                   srows : nat;       (* the `rows` field *)
                   scap : nat }.      (* a lower bound of data.capacity() *)

  Definition m_empty (cap : nat) : smat := {| sd := []; srows := 0; scap := cap |}.
  Definition m_with (m : smat) (st : @storage T) : smat :=
    {| sd := st; srows := srows m; scap := scap m |}.

  (* resize(): data.resize_with(rows, Default::default); self.rows = rows *)
  Definition m_resize (pad : nat -> T) (m : smat) (rows : nat) : smat :=
    {| sd := s_resize dflt C S pad (sd m) rows; srows := rows; scap := Nat.max (scap m) rows |}.

  (* fill(): ravel_mut() is from_raw_parts_mut(ptr, rows()*stride): the first [srows]
     rows of the buffer.  A rows field larger than the vector is an out-of-bounds raw
     slice (undefined behaviour), made explicit as site 7. *)
  Definition m_fill (m : smat) (v : T) : res smat :=
    if srows m <=? length (sd m)
    then Ok (m_with m (s_fill C S (firstn (srows m) (sd m)) v ++ skipn (srows m) (sd m)))
    else Panic 7.

  (* derive(Clone): data.clone() (capacity = len), rows copied *)
  Definition m_clone (pad : nat -> T) (m : smat) : smat :=
    {| sd := s_clone C S pad (sd m); srows := srows m; scap := length (sd m) |}.

  (* uninitialized(n): n rows of arbitrary content *)
  Definition s_junk (pad : nat -> T) (r : nat) : @srow T :=
    {| ra := map pad (seq (r * S) C); rp := padrow C S pad r |}.

  (* the write loop of from_rows on the buffer itself; returns the buffer and `written` *)
  Fixpoint s_write_rows (st : @storage T) (i : nat) (rows : list (list T))
    : res (@storage T * nat) :=
    match rows with
    | [] => Ok (st, i)
    | r :: rest =>
        if i <? length st
        then if length r =? C
             then s_write_rows (upd i {| ra := r; rp := rp (nth i st srow0) |} st) (i + 1) rest
             else Panic 2
        else Panic 5
    end.

  Definition m_from_rows_len (pad : nat -> T) (claimed : nat) (rows : list (list T)) : res smat :=
    let m0 := {| sd := map (s_junk pad) (seq 0 claimed); srows := claimed; scap := claimed |} in
    p <- s_write_rows (sd m0) 0 rows ;;
    Ok (m_resize pad (m_with m0 (fst p)) (snd p)).

  Definition m_step (pad : nat -> T) (m : smat) (o : op T) : res smat :=
    match o with
    | ONew rows => Ok (m_resize pad (m_empty 0) rows)
    | OWithCap rows cap => Ok (m_resize pad (m_empty cap) rows)
    | OResize rows => Ok (m_resize pad m rows)
    | OFill v => m_fill m v
    | OSet r c v => st' <- s_set C (sd m) r c v ;; Ok (m_with m st')
    | OSetMc r c v => st' <- s_set C (sd m) r c v ;; Ok (m_with m st')
    | OFromRows rows =>
        st' <- s_from_rows C S pad rows ;;
        Ok {| sd := st'; srows := length rows; scap := length rows |}
    | OClone => Ok (m_clone pad m)
    | OIterMutCol c v => st' <- s_iter_mut_col C (sd m) c v ;; Ok (m_with m st')
    end.

  Definition sregs := list smat.

  Definition rs_get (regs : sregs) (d : nat) : res smat :=
    match nth_error regs d with Some m => Ok m | None => Panic 9 end.

  Definition rs_step (pad : nat -> T) (regs : sregs) (o : rop T) : res sregs :=
    match o with
    | RLocal d o => m <- rs_get regs d ;; m' <- m_step pad m o ;; Ok (upd d m' regs)
    | RFromRowsLen d cl rows =>
        _ <- rs_get regs d ;; m' <- m_from_rows_len pad cl rows ;; Ok (upd d m' regs)
    | RReserve d n =>
        m <- rs_get regs d ;;
        Ok (upd d {| sd := sd m; srows := srows m; scap := Nat.max (scap m) (length (sd m) + n) |} regs)
    (* derive(Clone) has no clone_from of its own: the default is *self = source.clone() *)
    | RCloneFrom d s => _ <- rs_get regs d ;; ms <- rs_get regs s ;; Ok (upd d (m_clone pad ms) regs)
    | RCloneTo d s => _ <- rs_get regs d ;; ms <- rs_get regs s ;; Ok (upd d (m_clone pad ms) regs)
    | RSwap a b => ma <- rs_get regs a ;; mb <- rs_get regs b ;; Ok (upd b ma (upd a mb regs))
    | RMove d s =>
        _ <- rs_get regs d ;; ms <- rs_get regs s ;;
        Ok (upd d ms (upd s (m_resize pad (m_empty 0) 0) regs))
    end.

  Fixpoint rs_run_pads (pads : nat -> nat -> T) (k : nat) (regs : sregs) (ops : list (rop T))
    : res sregs :=
    match ops with
    | [] => Ok regs
    | o :: rest => rbind (rs_step (pads k) regs o) (fun regs' => rs_run_pads pads (k + 1) regs' rest)
    end.

  (* ---------- observers, each with the field the code reads ---------- *)

  Definition mabs (m : smat) : @table T := abs (sd m).          (* Index / iter(): over data *)
  Definition m_rows (m : smat) : nat := srows m.                (* rows() *)
  Definition m_ravel (m : smat) : list T := firstn (srows m * S) (ravel (sd m)).   (* ravel() *)
  Definition m_capacity_lb (m : smat) : nat := scap m.

  Variable eqT : T -> T -> bool.
  (* derive(PartialEq): self.data == other.data && self.rows == other.rows *)
  Definition m_eqb (a b : smat) : bool := s_eqb eqT (sd a) (sd b) && (srows a =? srows b).

  (* invariant of the struct *)
  Definition m_wf (m : smat) : Prop :=
    s_wf C S (sd m) /\ srows m = length (sd m) /\ length (sd m) <= scap m.

  (* ---------- double-ended iteration continued past exhaustion (FusedIterator) ---------- *)

  Fixpoint take_mixed_o (pat : list bool) (t : @table T) : list (option (list T)) :=
    match pat with
    | [] => []
    | true :: p => match t with
                   | [] => None :: take_mixed_o p []
                   | x :: r => Some x :: take_mixed_o p r
                   end
    | false :: p => match rev t with
                    | [] => None :: take_mixed_o p []
                    | x :: r => Some x :: take_mixed_o p (rev r)
                    end
    end.

  (* ExactSizeIterator::len() after each call of the pattern *)
  Fixpoint mixed_lens (pat : list bool) (n : nat) : list nat :=
    match pat with
    | [] => []
    | _ :: p => (n - 1) :: mixed_lens p (n - 1)
    end.

End DenseReg.
