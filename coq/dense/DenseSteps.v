(* The positional part of the Iterator / DoubleEndedIterator surface of DenseMatrix's row
   iterators (dense.rs `iterator!` macro: Iter, IterMut; IntoIterator for &DenseMatrix):
   next, next_back, nth, nth_back, and what len() reports after each call.  std's adaptors
   skip / step_by / rev().skip / rev().step_by are implemented through nth / nth_back, so an
   iterator that overrides (forwards) these methods is observed through them.

   Executable definitions only.  [take_steps] follows the list surgery of a slice iterator
   (what is left to iterate is a list); [steps_idx] is the specification in terms of row
   indices of a window [lo, hi) that only ever shrinks. *)
From Coq Require Import List Arith Bool.
Import ListNotations.

Inductive istep := SNext | SBack | SNth (k : nat) | SNthBack (k : nat).

Section Steps.
  Context {T : Type}.

  Fixpoint take_steps (pat : list istep) (t : list (list T)) : list (option (list T)) :=
    match pat with
    | [] => []
    | SNext :: p =>
        match t with [] => None :: take_steps p [] | x :: r => Some x :: take_steps p r end
    | SBack :: p =>
        match rev t with [] => None :: take_steps p [] | x :: r => Some x :: take_steps p (rev r) end
    | SNth k :: p =>
        match skipn k t with [] => None :: take_steps p [] | x :: r => Some x :: take_steps p r end
    | SNthBack k :: p =>
        match skipn k (rev t) with
        | [] => None :: take_steps p []
        | x :: r => Some x :: take_steps p (rev r)
        end
    end.
End Steps.

(* it.len() after each call *)
Fixpoint steps_lens (pat : list istep) (n : nat) : list nat :=
  match pat with
  | [] => []
  | SNext :: p => (n - 1) :: steps_lens p (n - 1)
  | SBack :: p => (n - 1) :: steps_lens p (n - 1)
  | SNth k :: p => (n - (k + 1)) :: steps_lens p (n - (k + 1))
  | SNthBack k :: p => (n - (k + 1)) :: steps_lens p (n - (k + 1))
  end.

(* specification: indices of the rows handed out, for a window [lo, hi) of the rows *)
Fixpoint steps_idx (pat : list istep) (lo hi : nat) : list (option nat) :=
  match pat with
  | [] => []
  | SNext :: p =>
      if lo <? hi then Some lo :: steps_idx p (lo + 1) hi else None :: steps_idx p lo lo
  | SBack :: p =>
      if lo <? hi then Some (hi - 1) :: steps_idx p lo (hi - 1) else None :: steps_idx p lo lo
  | SNth k :: p =>
      if lo + k <? hi then Some (lo + k) :: steps_idx p (lo + k + 1) hi else None :: steps_idx p lo lo
  | SNthBack k :: p =>
      if lo + k <? hi then Some (hi - 1 - k) :: steps_idx p lo (hi - 1 - k) else None :: steps_idx p lo lo
  end.

(* remaining length of the window after each call *)
Fixpoint steps_idx_lens (pat : list istep) (lo hi : nat) : list nat :=
  match pat with
  | [] => []
  | SNext :: p =>
      if lo <? hi then (hi - (lo + 1)) :: steps_idx_lens p (lo + 1) hi else 0 :: steps_idx_lens p lo lo
  | SBack :: p =>
      if lo <? hi then (hi - 1 - lo) :: steps_idx_lens p lo (hi - 1) else 0 :: steps_idx_lens p lo lo
  | SNth k :: p =>
      if lo + k <? hi then (hi - (lo + k + 1)) :: steps_idx_lens p (lo + k + 1) hi
      else 0 :: steps_idx_lens p lo lo
  | SNthBack k :: p =>
      if lo + k <? hi then (hi - 1 - k - lo) :: steps_idx_lens p lo (hi - 1 - k)
      else 0 :: steps_idx_lens p lo lo
  end.


(* ---------- row selection by index, used by the specification ---------- *)

Definition pick {T} (t : list (list T)) (oi : option nat) : option (list T) :=
  match oi with Some i => nth_error t i | None => None end.

Fixpoint somes {A} (l : list (option A)) : list A :=
  match l with [] => [] | Some x :: r => x :: somes r | None :: r => somes r end.

(* the argument of the first nth / nth_back call of a pattern (0 when there is none): the k the
   harness uses for skip(k) / step_by(k+1) / rev().skip(k) / rev().step_by(k+1) *)
Fixpoint steps_k (pat : list istep) : nat :=
  match pat with
  | [] => 0
  | SNth k :: _ => k
  | SNthBack k :: _ => k
  | _ :: p => steps_k p
  end.

(* the same calls seen from the other end: rev() of a double-ended iterator *)
Definition mirror1 (s : istep) : istep :=
  match s with SNext => SBack | SBack => SNext | SNth k => SNthBack k | SNthBack k => SNth k end.
Definition mirror (pat : list istep) : list istep := map mirror1 pat.

(* specification of step_by(k+1) on n rows: the indices i, i+(k+1), i+2(k+1), ... below n
   (fuel = an upper bound of their number; n+1 is always enough from i = 0) *)
Fixpoint stepby_idx (k fuel i n : nat) : list nat :=
  match fuel with
  | 0 => []
  | S f => if i <? n then i :: stepby_idx k f (i + k + 1) n else []
  end.

(* the observation compared by the driver: rows handed out and len() after each call *)
Definition steps_obs_eqb {T} (eqb : T -> T -> bool)
    (a b : list (option (list T))) : bool :=
  (length a =? length b) &&
  forallb (fun p => match p with
                    | (None, None) => true
                    | (Some x, Some y) => (length x =? length y) &&
                                          forallb (fun q => eqb (fst q) (snd q)) (combine x y)
                    | _ => false
                    end) (combine a b).
