(* Extraction of the executable DenseMatrix model for the correspondence check.
   Only ExtrOcamlBasic is used: nat, Z stay the extracted inductive types. *)
From Coq Require Import List ZArith Extraction ExtrOcamlBasic.
From LMBase Require Import Res ListX.
From LMDense Require Import DenseModel DenseProofs DenseReg DenseSteps DenseCheck DenseF32.

Definition z_t_run := @t_run Z 0%Z.
Definition z_s_run := @s_run_pads Z 0%Z.
Definition z_abs := @abs Z.
Definition z_ravel := @ravel Z.
Definition z_s_eqb := @s_eqb Z Z.eqb.
Definition z_s_fill := @s_fill Z.
Definition z_s_set := @s_set Z.
Definition z_s_clone := @s_clone Z.
Definition z_take_mixed := @take_mixed Z.

(* register file of matrices (DenseReg) and the property checker (DenseCheck) *)
Definition z_rt_step := @rt_step Z 0%Z.
Definition z_rs_step := @rs_step Z 0%Z.
Definition z_mabs := @mabs Z.
Definition z_new0 (C S : nat) (pad : nat -> Z) : @smat Z := m_resize 0%Z C S pad (m_empty 0) 0.
(* the element == of the instance: identity for u8/u32/i64, f32c_eqb (DenseF32.v) for f32 codes *)
Definition z_eqR (f32 : bool) : Z -> Z -> bool := if f32 then f32c_eqb else Z.eqb.
Definition z_check_C19 (f32 : bool) (C S size align : nat) (pat : list bool) (steps : list istep) :=
  @check_C19 Z 0%Z C S size align Z.eqb (z_eqR f32) pat steps.
Definition z_check_robs (f32 : bool) (S size align : nat) := @check_robs Z S size align Z.eqb (z_eqR f32).
Definition z_check_mobs (S size align : nat) := @check_mobs Z S size align Z.eqb.
Definition z_check_fobs (f32 : bool) (C : nat) (pat : list bool) (steps : list istep) :=
  @check_fobs Z C Z.eqb (z_eqR f32) pat steps.
Definition z_check_steps (steps : list istep) := @check_steps Z Z.eqb steps.
Definition z_treqb (f32 : bool) := @treqb Z (z_eqR f32).
Definition z_first_bad (f32 : bool) (C S size align : nat) := @first_bad Z 0%Z C S size align Z.eqb (z_eqR f32).
Definition z_m_observe (f32 : bool) (C S size align : nat) := @m_observe Z C S size align Z.eqb (z_eqR f32).
Definition z_take_mixed_o := @take_mixed_o Z.
Definition z_take_steps := @take_steps Z.

Extraction Language OCaml.
Extraction "dense_model.ml" z_t_run z_s_run z_abs z_ravel z_s_eqb z_s_fill z_s_set z_s_clone z_take_mixed
  stride row_bytes row_addr
  z_rt_step z_rs_step z_mabs z_new0 z_check_C19 z_check_robs z_check_mobs z_check_fobs z_first_bad
  z_m_observe z_take_mixed_o mixed_lens z_take_steps steps_lens z_check_steps z_treqb steps_k z_eqR.
