(* Extraction of the executable DenseMatrix model for the correspondence check.
   Only ExtrOcamlBasic is used: nat, Z stay the extracted inductive types. *)
From Coq Require Import List ZArith Extraction ExtrOcamlBasic.
From LMBase Require Import Res ListX.
From LMDense Require Import DenseModel DenseProofs.

Definition z_t_run := @t_run Z 0%Z.
Definition z_s_run := @s_run_pads Z 0%Z.
Definition z_abs := @abs Z.
Definition z_ravel := @ravel Z.
Definition z_s_eqb := @s_eqb Z Z.eqb.
Definition z_s_fill := @s_fill Z.
Definition z_s_set := @s_set Z.
Definition z_s_clone := @s_clone Z.
Definition z_take_mixed := @take_mixed Z.

Extraction Language OCaml.
Extraction "dense_model.ml" z_t_run z_s_run z_abs z_ravel z_s_eqb z_s_fill z_s_set z_s_clone z_take_mixed
  stride row_bytes row_addr.
