(* Extraction of the executable DenseMatrix model for the correspondence check.
   Only ExtrOcamlBasic is used: nat, Z stay the extracted inductive types. *)
From Coq Require Import List ZArith Extraction ExtrOcamlBasic.
From LMBase Require Import Res ListX.
From LMDense Require Import DenseModel DenseProofs DenseReg DenseCheck DenseSteps.

Definition z_t_run := @t_run Z 0%Z.
Definition z_s_run := @s_run_pads Z 0%Z.
Definition z_abs := @abs Z.
Definition z_ravel := @ravel Z.
Definition z_s_eqb := @s_eqb Z Z.eqb.
Definition z_s_fill := @s_fill Z.
Definition z_s_set := @s_set Z.
Definition z_s_clone := @s_clone Z.
Definition z_take_mixed := @take_mixed Z.

(* register file of matrices (DenseReg) and the property checker (DenseCheck) *)
Definition z_rt_step := @rt_step Z 0%Z.
Definition z_rs_step := @rs_step Z 0%Z.
Definition z_mabs := @mabs Z.
Definition z_new0 (C S : nat) (pad : nat -> Z) : @smat Z := m_resize 0%Z C S pad (m_empty 0) 0.
Definition z_check_C19 (C S : nat) (pat : list bool) := @check_C19 Z 0%Z C S Z.eqb pat.
Definition z_check_robs (S : nat) := @check_robs Z S Z.eqb.
Definition z_check_mobs (S : nat) := @check_mobs Z S Z.eqb.
Definition z_check_fobs (C : nat) (pat : list bool) := @check_fobs Z C Z.eqb pat.
Definition z_first_bad (C S : nat) := @first_bad Z 0%Z C S Z.eqb.
Definition z_m_observe (S : nat) := @m_observe Z S Z.eqb.
Definition z_take_mixed_o := @take_mixed_o Z.
Definition z_take_steps := @take_steps Z.

Extraction Language OCaml.
Extraction "dense_model.ml" z_t_run z_s_run z_abs z_ravel z_s_eqb z_s_fill z_s_set z_s_clone z_take_mixed
  stride row_bytes row_addr
  z_rt_step z_rs_step z_mabs z_new0 z_check_C19 z_check_robs z_check_mobs z_check_fobs z_first_bad
  z_m_observe z_take_mixed_o mixed_lens z_take_steps steps_lens.
