(* Property C19 as a relation between an operation sequence on a register file of
   matrices and the observations made on the implementation, and the executable
   checker [check_C19] that decides it (extracted; the driver uses it for PROPFAIL).
   Executable definitions and the specification relation only; the proofs that the
   checker is sound and complete are in DenseCheckProofs.v. *)
From Coq Require Import List Arith Bool Lia ZArith.
From LMBase Require Import Res ListX.
From LMDense Require Import DenseModel DenseReg DenseSteps.
Import ListNotations.

(* ---------- observations ---------- *)

(* one matrix after one operation *)
Record mobs (T : Type) : Type := {
  ob_rows : nat;                 (* rows() *)
  ob_stride : nat;               (* stride() *)
  ob_addrs : list Z;             (* m[r].as_ptr() as usize for r < rows(): the address of every row *)
  ob_ravel : bool;               (* ravel().len() == rows*stride and ravel()[r*stride+c] == m[r][c] *)
  ob_cells : list (list T)       (* m[r][c] for r < rows(), c < columns() *)
}.
Arguments ob_rows {T}. Arguments ob_stride {T}. Arguments ob_addrs {T}.
Arguments ob_ravel {T}. Arguments ob_cells {T}.

(* the register file after one operation *)
Record robs (T : Type) : Type := {
  ob_regs : list (mobs T);
  ob_eq : list bool;             (* regs[a] == regs[b] for all (a,b), a-major *)
  ob_ne : list bool              (* regs[a] != regs[b] *)
}.
Arguments ob_regs {T}. Arguments ob_eq {T}. Arguments ob_ne {T}.

Inductive obs (T : Type) : Type :=
| ObsPanic                        (* the operation panicked: the case ends *)
| ObsBroken                       (* the operation returned but an observer panicked: never accepted *)
| ObsOk (o : robs T).
Arguments ObsPanic {T}. Arguments ObsBroken {T}. Arguments ObsOk {T}.

(* positional iteration over one matrix at the end of the case (input field steps=):
   a list of calls next / next_back / nth(k) / nth_back(k), and the std adaptors that are
   built on these calls, with k = steps_k of the call list *)
Record sobs (T : Type) : Type := {
  so_walk : list (option (list T));      (* the calls on m.iter() *)
  so_walk_mut : list (option (list T));  (* the calls on m.iter_mut() *)
  so_walk_into : list (option (list T)); (* the calls on (&m).into_iter() *)
  so_lens : list nat;                    (* m.iter(): len() after each call *)
  so_skip : list (list T);               (* m.iter().skip(k).collect() *)
  so_rev_skip : list (list T);           (* m.iter().rev().skip(k).collect() *)
  so_step_by : list (list T);            (* m.iter().step_by(k+1).collect() *)
  so_rev_step_by : list (list T);        (* m.iter().rev().step_by(k+1).collect() *)
  so_mut_rev_skip : list (list T);       (* m.iter_mut().rev().skip(k).collect() *)
  so_last : option (list T);             (* m.iter().last() *)
  so_count : nat                         (* m.iter().count() *)
}.
Arguments so_walk {T}. Arguments so_walk_mut {T}. Arguments so_walk_into {T}. Arguments so_lens {T}.
Arguments so_skip {T}. Arguments so_rev_skip {T}. Arguments so_step_by {T}. Arguments so_rev_step_by {T}.
Arguments so_mut_rev_skip {T}. Arguments so_last {T}. Arguments so_count {T}.

(* one matrix at the end of the case *)
Record fobs (T : Type) : Type := {
  f_iter : list (list T);                (* m.iter().collect() *)
  f_rev : list (list T);                 (* m.iter().rev().collect() *)
  f_into : list (list T);                (* (&m).into_iter().collect() *)
  f_into_mut : list (list T);            (* (&mut m.clone()).into_iter().collect() *)
  f_mixed : list (option (list T));      (* next()/next_back() on iter() following the pattern *)
  f_mixed_mut : list (option (list T));  (* the same on iter_mut() *)
  f_mixed_into : list (option (list T)); (* the same on (&m).into_iter() *)
  f_lens : list nat;                     (* iter().len() after each call of the pattern *)
  f_eqclone : bool;                      (* m == m.clone() *)
  f_neclone : bool;                      (* m != m.clone() *)
  f_eqpad : bool;                        (* copy == m, copy = same cells, different history/padding/capacity *)
  f_eqpad' : bool;                       (* m == copy *)
  f_nepad : bool;                        (* copy != m *)
  f_eqmod : bool;                        (* m == copy with cell (0,0) changed *)
  f_steps : sobs T                       (* positional iteration *)
}.
Arguments f_iter {T}. Arguments f_rev {T}. Arguments f_into {T}. Arguments f_into_mut {T}.
Arguments f_mixed {T}. Arguments f_mixed_mut {T}. Arguments f_mixed_into {T}. Arguments f_lens {T}.
Arguments f_eqclone {T}. Arguments f_neclone {T}. Arguments f_eqpad {T}. Arguments f_eqpad' {T}.
Arguments f_nepad {T}. Arguments f_eqmod {T}. Arguments f_steps {T}.

(* ---------- generic boolean deciders ---------- *)

Fixpoint leqb {A} (e : A -> A -> bool) (a b : list A) : bool :=
  match a, b with
  | [], [] => true
  | x :: a', y :: b' => e x y && leqb e a' b'
  | _, _ => false
  end.

Definition oeqb {A} (e : A -> A -> bool) (a b : option A) : bool :=
  match a, b with
  | None, None => true
  | Some x, Some y => e x y
  | _, _ => false
  end.

Fixpoint forall2b {A B} (p : A -> B -> bool) (a : list A) (b : list B) : bool :=
  match a, b with
  | [], [] => true
  | x :: a', y :: b' => p x y && forall2b p a' b'
  | _, _ => false
  end.

Section Check.
  Context {T : Type}.
  Variable dflt : T.
  Variable C : nat.        (* columns *)
  Variable S : nat.        (* the stride Rust's layout rule gives: DenseModel.stride size C align *)
  Variable size align : nat.  (* size_of::<T>() and the alignment of Row (32 on x86-64, 16 elsewhere) *)
  Variable idT : T -> T -> bool.   (* identity of two cell values (same bit pattern) *)
  Variable eqR : T -> T -> bool.   (* <T as PartialEq>::eq - NOT identity for f32: NaN != NaN, 0.0 == -0.0 *)
  Variable pat : list bool.   (* the next()/next_back() pattern used for the final observation *)
  Variable steps : list istep. (* the positional calls of the final observation *)

  (* ---------- the property, as a relation (specification) ---------- *)

  (* row r of a matrix whose first row is at address a0: on an alignment boundary,
     r strides after the first row *)
  Definition addr_ok (a0 : Z) (r : nat) (a : Z) : Prop :=
    (a mod Z.of_nat align = 0 /\ a = a0 + Z.of_nat r * Z.of_nat (S * size))%Z.

  (* what the property demands of one matrix whose logical content is the table t *)
  Definition mobs_ok (t : @table T) (o : mobs T) : Prop :=
    ob_rows o = length t /\ ob_stride o = S /\
    Forall2 (addr_ok (hd 0%Z (ob_addrs o))) (seq 0 (length t)) (ob_addrs o) /\
    ob_ravel o = true /\
    ob_cells o = t.

  (* == between two matrices, as derive(PartialEq) gives it from the element type's eq:
     same number of rows and every pair of corresponding logical cells is eq.  It depends
     on the logical cells only; it is Leibniz equality exactly when eqR is. *)
  Definition rel_tab (a b : @table T) : Prop :=
    Forall2 (Forall2 (fun x y => eqR x y = true)) a b.
  Definition eq_ok (p : @table T * @table T) (b : bool) : Prop := b = true <-> rel_tab (fst p) (snd p).
  Definition ne_ok (p : @table T * @table T) (b : bool) : Prop := b = true <-> ~ rel_tab (fst p) (snd p).

  Definition robs_ok (regs : list (@table T)) (o : robs T) : Prop :=
    Forall2 mobs_ok regs (ob_regs o) /\
    Forall2 eq_ok (list_prod regs regs) (ob_eq o) /\
    Forall2 ne_ok (list_prod regs regs) (ob_ne o).

  (* positional iteration, stated on row INDICES: call j of the list hands out the row the
     shrinking window [lo, hi) designates (steps_idx), len() is the size of the window,
     skip(k) drops k rows, step_by(k+1) keeps the rows 0, k+1, 2(k+1), ...; rev() is the
     same on the reversed rows; last() is row rows-1; count() is rows *)
  Definition sobs_ok (t : @table T) (o : sobs T) : Prop :=
    let n := length t in let k := steps_k steps in
    so_walk o = map (pick t) (steps_idx steps 0 n) /\
    so_walk_mut o = map (pick t) (steps_idx steps 0 n) /\
    so_walk_into o = map (pick t) (steps_idx steps 0 n) /\
    so_lens o = steps_idx_lens steps 0 n /\
    so_skip o = skipn k t /\
    so_rev_skip o = skipn k (rev t) /\
    map Some (so_step_by o) = map (nth_error t) (stepby_idx k (Datatypes.S n) 0 n) /\
    map Some (so_rev_step_by o) = map (nth_error (rev t)) (stepby_idx k (Datatypes.S n) 0 n) /\
    so_mut_rev_skip o = skipn k (rev t) /\
    so_last o = nth_error t (n - 1) /\
    so_count o = n.

  Definition fobs_ok (t : @table T) (f : fobs T) : Prop :=
    f_iter f = t /\ f_rev f = rev t /\ f_into f = t /\ f_into_mut f = t /\
    f_mixed f = take_mixed_o pat t /\ f_mixed_mut f = take_mixed_o pat t /\
    f_mixed_into f = take_mixed_o pat t /\
    f_lens f = mixed_lens pat (length t) /\
    (* a clone, and a copy with the same cells and another history, compare like the matrix with itself *)
    (f_eqclone f = true <-> rel_tab t t) /\ (f_neclone f = true <-> ~ rel_tab t t) /\
    (f_eqpad f = true <-> rel_tab t t) /\ (f_eqpad' f = true <-> rel_tab t t) /\
    (f_nepad f = true <-> ~ rel_tab t t) /\
    (f_eqmod f = true <-> (t = [] \/ C = 0)) /\
    sobs_ok t (f_steps f).

  (* the observed trace of a case is the trace of the table-level register file:
     after every operation the observation is the one the tables dictate, a panic is
     observed exactly where the tables panic (and ends the case), and the final
     observations are made on the final tables *)
  Inductive trace_ok : list (@table T) -> list (rop T) -> list (obs T) -> option (list (fobs T)) -> Prop :=
  | tr_end regs fin :
      Forall2 fobs_ok regs fin -> trace_ok regs [] [] (Some fin)
  | tr_step regs o regs' ops ob rest fin :
      rt_step dflt C regs o = Ok regs' -> robs_ok regs' ob ->
      trace_ok regs' ops rest fin ->
      trace_ok regs (o :: ops) (ObsOk ob :: rest) fin
  | tr_panic regs o ops site :
      rt_step dflt C regs o = Panic site ->
      trace_ok regs (o :: ops) [ObsPanic] None.

  (* ---------- the checker ---------- *)

  Definition teqb : @table T -> @table T -> bool := leqb (leqb idT).   (* identity of tables *)
  Definition treqb : @table T -> @table T -> bool := leqb (leqb eqR).  (* == of tables *)

  Definition check_addr (a0 : Z) (r : nat) (a : Z) : bool :=
    ((a mod Z.of_nat align =? 0) && (a =? a0 + Z.of_nat r * Z.of_nat (S * size)))%Z.

  Definition check_mobs (t : @table T) (o : mobs T) : bool :=
    (ob_rows o =? length t) && (ob_stride o =? S) &&
    forall2b (check_addr (hd 0%Z (ob_addrs o))) (seq 0 (length t)) (ob_addrs o) &&
    ob_ravel o && teqb (ob_cells o) t.

  Definition check_eq (p : @table T * @table T) (b : bool) : bool := Bool.eqb b (treqb (fst p) (snd p)).
  Definition check_ne (p : @table T * @table T) (b : bool) : bool := Bool.eqb b (negb (treqb (fst p) (snd p))).

  Definition check_robs (regs : list (@table T)) (o : robs T) : bool :=
    forall2b check_mobs regs (ob_regs o) &&
    forall2b check_eq (list_prod regs regs) (ob_eq o) &&
    forall2b check_ne (list_prod regs regs) (ob_ne o).

  Definition mixeqb : list (option (list T)) -> list (option (list T)) -> bool :=
    leqb (oeqb (leqb idT)).

  Definition is_nil {A} (l : list A) : bool := match l with [] => true | _ => false end.

  (* positional iteration: computed with the list surgery of a slice iterator (take_steps);
     StepBy = next() then nth(k) repeatedly, Skip = nth(k) then next(), as std implements them *)
  Definition check_steps (t : @table T) (o : sobs T) : bool :=
    let n := length t in let k := steps_k steps in
    mixeqb (so_walk o) (take_steps steps t) &&
    mixeqb (so_walk_mut o) (take_steps steps t) &&
    mixeqb (so_walk_into o) (take_steps steps t) &&
    leqb Nat.eqb (so_lens o) (steps_lens steps n) &&
    teqb (so_skip o) (somes (take_steps (SNth k :: repeat SNext n) t)) &&
    teqb (so_rev_skip o) (somes (take_steps (SNthBack k :: repeat SBack n) t)) &&
    teqb (so_step_by o) (somes (take_steps (SNext :: repeat (SNth k) n) t)) &&
    teqb (so_rev_step_by o) (somes (take_steps (SBack :: repeat (SNthBack k) n) t)) &&
    teqb (so_mut_rev_skip o) (somes (take_steps (SNthBack k :: repeat SBack n) t)) &&
    oeqb (leqb idT) (so_last o) (hd None (take_steps [SBack] t)) &&
    (so_count o =? n).

  Definition check_fobs (t : @table T) (f : fobs T) : bool :=
    teqb (f_iter f) t && teqb (f_rev f) (rev t) && teqb (f_into f) t && teqb (f_into_mut f) t &&
    mixeqb (f_mixed f) (take_mixed_o pat t) && mixeqb (f_mixed_mut f) (take_mixed_o pat t) &&
    mixeqb (f_mixed_into f) (take_mixed_o pat t) &&
    leqb Nat.eqb (f_lens f) (mixed_lens pat (length t)) &&
    Bool.eqb (f_eqclone f) (treqb t t) && Bool.eqb (f_neclone f) (negb (treqb t t)) &&
    Bool.eqb (f_eqpad f) (treqb t t) && Bool.eqb (f_eqpad' f) (treqb t t) &&
    Bool.eqb (f_nepad f) (negb (treqb t t)) &&
    Bool.eqb (f_eqmod f) (is_nil t || (C =? 0)) &&
    check_steps t (f_steps f).

  Fixpoint check_C19 (regs : list (@table T)) (ops : list (rop T)) (ob : list (obs T))
                     (fin : option (list (fobs T))) : bool :=
    match ops with
    | [] => match ob, fin with
            | [], Some f => forall2b check_fobs regs f
            | _, _ => false
            end
    | o :: ops' =>
        match rt_step dflt C regs o with
        | Ok regs' => match ob with
                      | ObsOk x :: rest => check_robs regs' x && check_C19 regs' ops' rest fin
                      | _ => false
                      end
        | Panic _ => match ob, fin with
                     | [ObsPanic], None => true
                     | _, _ => false
                     end
        | _ => false
        end
    end.

  (* the observation the struct-level model (DenseReg.smat: data vector, rows field)
     makes of itself, each observer reading the field the code reads.  The Vec buffer of
     the matrix starts at [base] (whatever the allocator returned for this buffer); the
     address of row r is DERIVED with the layout rule: base + r * size_of::<Row<T,C>>()
     (DenseModel.row_addr / row_bytes), and so is the stride. *)
  Definition m_observe1 (base : Z) (m : @smat T) : mobs T :=
    {| ob_rows := m_rows m;
       ob_stride := stride size C align;
       ob_addrs := map (fun r => (base + Z.of_nat (row_addr 0 size C align r))%Z) (seq 0 (length (sd m)));
       ob_ravel := (length (m_ravel S m) =? m_rows m * S) && leqb idT (m_ravel S m) (ravel (sd m));
       ob_cells := mabs m |}.

  Definition m_observe (bases : list Z) (regs : list (@smat T)) : robs T :=
    {| ob_regs := map (fun bm => m_observe1 (fst bm) (snd bm)) (combine bases regs);
       ob_eq := map (fun p => m_eqb eqR (fst p) (snd p)) (list_prod regs regs);
       ob_ne := map (fun p => negb (m_eqb eqR (fst p) (snd p))) (list_prod regs regs) |}.

  (* index of the first operation whose observation is rejected (for the report only) *)
  Fixpoint first_bad (regs : list (@table T)) (ops : list (rop T)) (ob : list (obs T)) (i : nat) : nat :=
    match ops with
    | [] => i
    | o :: ops' =>
        match rt_step dflt C regs o, ob with
        | Ok regs', ObsOk x :: rest => if check_robs regs' x then first_bad regs' ops' rest (i + 1) else i
        | _, _ => i
        end
    end.

End Check.
