(* Property C19 as a relation between an operation sequence on a register file of
   matrices and the observations made on the implementation, and the executable
   checker [check_C19] that decides it (extracted; the driver uses it for PROPFAIL).
   Executable definitions and the specification relation only; the proofs that the
   checker is sound and complete are in DenseCheckProofs.v. *)
From Coq Require Import List Arith Bool Lia.
From LMBase Require Import Res ListX.
From LMDense Require Import DenseModel DenseReg.
Import ListNotations.

(* ---------- observations ---------- *)

(* one matrix after one operation *)
Record mobs (T : Type) : Type := {
  ob_rows : nat;                 (* rows() *)
  ob_stride : nat;               (* stride() *)
  ob_aligned : bool;             (* every row address is a multiple of the alignment and
                                    row r sits r*stride*size_of::<T>() bytes after row 0 *)
  ob_ravel : bool;               (* ravel().len() == rows*stride and ravel()[r*stride+c] == m[r][c] *)
  ob_cells : list (list T)       (* m[r][c] for r < rows(), c < columns() *)
}.
Arguments ob_rows {T}. Arguments ob_stride {T}. Arguments ob_aligned {T}.
Arguments ob_ravel {T}. Arguments ob_cells {T}.

(* the register file after one operation *)
Record robs (T : Type) : Type := {
  ob_regs : list (mobs T);
  ob_eq : list bool;             (* regs[a] == regs[b] for all (a,b), a-major *)
  ob_ne : list bool              (* regs[a] != regs[b] *)
}.
Arguments ob_regs {T}. Arguments ob_eq {T}. Arguments ob_ne {T}.

Inductive obs (T : Type) : Type :=
| ObsPanic                        (* the operation panicked: the case ends *)
| ObsOk (o : robs T).
Arguments ObsPanic {T}. Arguments ObsOk {T}.

(* one matrix at the end of the case *)
Record fobs (T : Type) : Type := {
  f_iter : list (list T);                (* m.iter().collect() *)
  f_rev : list (list T);                 (* m.iter().rev().collect() *)
  f_into : list (list T);                (* (&m).into_iter().collect() *)
  f_into_mut : list (list T);            (* (&mut m.clone()).into_iter().collect() *)
  f_mixed : list (option (list T));      (* next()/next_back() on iter() following the pattern *)
  f_mixed_mut : list (option (list T));  (* the same on iter_mut() *)
  f_mixed_into : list (option (list T)); (* the same on (&m).into_iter() *)
  f_lens : list nat;                     (* iter().len() after each call of the pattern *)
  f_eqclone : bool;                      (* m == m.clone() *)
  f_eqpad : bool;                        (* m == copy with the same cells and different padding/capacity *)
  f_eqmod : bool                         (* m == copy with cell (0,0) changed *)
}.
Arguments f_iter {T}. Arguments f_rev {T}. Arguments f_into {T}. Arguments f_into_mut {T}.
Arguments f_mixed {T}. Arguments f_mixed_mut {T}. Arguments f_mixed_into {T}. Arguments f_lens {T}.
Arguments f_eqclone {T}. Arguments f_eqpad {T}. Arguments f_eqmod {T}.

(* ---------- generic boolean deciders ---------- *)

Fixpoint leqb {A} (e : A -> A -> bool) (a b : list A) : bool :=
  match a, b with
  | [], [] => true
  | x :: a', y :: b' => e x y && leqb e a' b'
  | _, _ => false
  end.

Definition oeqb {A} (e : A -> A -> bool) (a b : option A) : bool :=
  match a, b with
  | None, None => true
  | Some x, Some y => e x y
  | _, _ => false
  end.

Fixpoint forall2b {A B} (p : A -> B -> bool) (a : list A) (b : list B) : bool :=
  match a, b with
  | [], [] => true
  | x :: a', y :: b' => p x y && forall2b p a' b'
  | _, _ => false
  end.

Section Check.
  Context {T : Type}.
  Variable dflt : T.
  Variable C : nat.        (* columns *)
  Variable S : nat.        (* the stride Rust's layout rule gives: DenseModel.stride size C align *)
  Variable eqT : T -> T -> bool.
  Variable pat : list bool.   (* the next()/next_back() pattern used for the final observation *)

  (* ---------- the property, as a relation (specification) ---------- *)

  (* what the property demands of one matrix whose logical content is the table t *)
  Definition mobs_ok (t : @table T) (o : mobs T) : Prop :=
    ob_rows o = length t /\ ob_stride o = S /\ ob_aligned o = true /\ ob_ravel o = true /\
    ob_cells o = t.

  (* == and != depend on the logical cells only *)
  Definition eq_ok (p : @table T * @table T) (b : bool) : Prop := b = true <-> fst p = snd p.
  Definition ne_ok (p : @table T * @table T) (b : bool) : Prop := b = true <-> fst p <> snd p.

  Definition robs_ok (regs : list (@table T)) (o : robs T) : Prop :=
    Forall2 mobs_ok regs (ob_regs o) /\
    Forall2 eq_ok (list_prod regs regs) (ob_eq o) /\
    Forall2 ne_ok (list_prod regs regs) (ob_ne o).

  Definition fobs_ok (t : @table T) (f : fobs T) : Prop :=
    f_iter f = t /\ f_rev f = rev t /\ f_into f = t /\ f_into_mut f = t /\
    f_mixed f = take_mixed_o pat t /\ f_mixed_mut f = take_mixed_o pat t /\
    f_mixed_into f = take_mixed_o pat t /\
    f_lens f = mixed_lens pat (length t) /\
    f_eqclone f = true /\ f_eqpad f = true /\
    (f_eqmod f = true <-> (t = [] \/ C = 0)).

  (* the observed trace of a case is the trace of the table-level register file:
     after every operation the observation is the one the tables dictate, a panic is
     observed exactly where the tables panic (and ends the case), and the final
     observations are made on the final tables *)
  Inductive trace_ok : list (@table T) -> list (rop T) -> list (obs T) -> option (list (fobs T)) -> Prop :=
  | tr_end regs fin :
      Forall2 fobs_ok regs fin -> trace_ok regs [] [] (Some fin)
  | tr_step regs o regs' ops ob rest fin :
      rt_step dflt C regs o = Ok regs' -> robs_ok regs' ob ->
      trace_ok regs' ops rest fin ->
      trace_ok regs (o :: ops) (ObsOk ob :: rest) fin
  | tr_panic regs o ops site :
      rt_step dflt C regs o = Panic site ->
      trace_ok regs (o :: ops) [ObsPanic] None.

  (* ---------- the checker ---------- *)

  Definition teqb : @table T -> @table T -> bool := leqb (leqb eqT).

  Definition check_mobs (t : @table T) (o : mobs T) : bool :=
    (ob_rows o =? length t) && (ob_stride o =? S) && ob_aligned o && ob_ravel o &&
    teqb (ob_cells o) t.

  Definition check_eq (p : @table T * @table T) (b : bool) : bool := Bool.eqb b (teqb (fst p) (snd p)).
  Definition check_ne (p : @table T * @table T) (b : bool) : bool := Bool.eqb b (negb (teqb (fst p) (snd p))).

  Definition check_robs (regs : list (@table T)) (o : robs T) : bool :=
    forall2b check_mobs regs (ob_regs o) &&
    forall2b check_eq (list_prod regs regs) (ob_eq o) &&
    forall2b check_ne (list_prod regs regs) (ob_ne o).

  Definition mixeqb : list (option (list T)) -> list (option (list T)) -> bool :=
    leqb (oeqb (leqb eqT)).

  Definition is_nil {A} (l : list A) : bool := match l with [] => true | _ => false end.

  Definition check_fobs (t : @table T) (f : fobs T) : bool :=
    teqb (f_iter f) t && teqb (f_rev f) (rev t) && teqb (f_into f) t && teqb (f_into_mut f) t &&
    mixeqb (f_mixed f) (take_mixed_o pat t) && mixeqb (f_mixed_mut f) (take_mixed_o pat t) &&
    mixeqb (f_mixed_into f) (take_mixed_o pat t) &&
    leqb Nat.eqb (f_lens f) (mixed_lens pat (length t)) &&
    f_eqclone f && f_eqpad f &&
    Bool.eqb (f_eqmod f) (is_nil t || (C =? 0)).

  Fixpoint check_C19 (regs : list (@table T)) (ops : list (rop T)) (ob : list (obs T))
                     (fin : option (list (fobs T))) : bool :=
    match ops with
    | [] => match ob, fin with
            | [], Some f => forall2b check_fobs regs f
            | _, _ => false
            end
    | o :: ops' =>
        match rt_step dflt C regs o with
        | Ok regs' => match ob with
                      | ObsOk x :: rest => check_robs regs' x && check_C19 regs' ops' rest fin
                      | _ => false
                      end
        | Panic _ => match ob, fin with
                     | [ObsPanic], None => true
                     | _, _ => false
                     end
        | _ => false
        end
    end.

  (* the observation the struct-level model (DenseReg.smat: data vector, rows field)
     makes of itself, each observer reading the field the code reads *)
  Definition m_observe1 (m : @smat T) : mobs T :=
    {| ob_rows := m_rows m;
       ob_stride := S;
       ob_aligned := true;
       ob_ravel := (length (m_ravel S m) =? m_rows m * S) && leqb eqT (m_ravel S m) (ravel (sd m));
       ob_cells := mabs m |}.

  Definition m_observe (regs : list (@smat T)) : robs T :=
    {| ob_regs := map m_observe1 regs;
       ob_eq := map (fun p => m_eqb eqT (fst p) (snd p)) (list_prod regs regs);
       ob_ne := map (fun p => negb (m_eqb eqT (fst p) (snd p))) (list_prod regs regs) |}.

  (* index of the first operation whose observation is rejected (for the report only) *)
  Fixpoint first_bad (regs : list (@table T)) (ops : list (rop T)) (ob : list (obs T)) (i : nat) : nat :=
    match ops with
    | [] => i
    | o :: ops' =>
        match rt_step dflt C regs o, ob with
        | Ok regs', ObsOk x :: rest => if check_robs regs' x then first_bad regs' ops' rest (i + 1) else i
        | _, _ => i
        end
    end.

End Check.
