(* Model of lightmotif/src/dense.rs (DenseMatrix / Row), executable definitions only.

   Two levels:
   - Table : the logical view, a list of rows of exactly C cells (what a user of
     the matrix sees through rows(), Index, iter(), ==, clone()).
   - Flat  : the storage view, one list of nrows*S cells (S = stride), logical cell
     (r,c) at offset r*S+c, cells r*S+C .. r*S+S-1 being the alignment padding of
     `Row` (repr(align(32))).  This is what ravel()/ravel_mut()/fill() see.

   The stride and the row addresses are computed as Rust computes them:
   size_of::<Row<T,C>>() = C*size_of::<T>() rounded up to a multiple of the
   alignment (repr(align(N)) on a struct whose only field needs alignment <= N). *)
From Coq Require Import List Arith Bool Lia.
From LMBase Require Import Res ListX.
Import ListNotations.

(* ---------- layout arithmetic ---------- *)

(* size of Row<T,C> in bytes: C*size rounded up to a multiple of align *)
Definition row_bytes (size C align : nat) : nat :=
  ((C * size + (align - 1)) / align) * align.

(* DenseMatrix::stride(): size_of::<Row>() / size_of::<T>() *)
Definition stride (size C align : nat) : nat := row_bytes size C align / size.

(* byte address of row r when the Vec buffer starts at base *)
Definition row_addr (base size C align r : nat) : nat := base + r * row_bytes size C align.

(* ---------- operations ---------- *)

Inductive op (T : Type) : Type :=
| ONew (rows : nat)                 (* m = DenseMatrix::new(rows) *)
| OWithCap (rows cap : nat)         (* m = DenseMatrix::with_capacity(rows, cap) *)
| OResize (rows : nat)              (* m.resize(rows) *)
| OFill (v : T)                     (* m.fill(v) : through ravel_mut, padding included *)
| OSet (r c : nat) (v : T)          (* m[r][c] = v *)
| OSetMc (r c : nat) (v : T)        (* m[MatrixCoordinates::new(r,c)] = v *)
| OFromRows (rows : list (list T))  (* m = DenseMatrix::from_rows(rows) *)
| OClone                            (* m = m.clone() *)
| OIterMutCol (c : nat) (v : T).    (* for row in m.iter_mut() { row[c] = v } *)

Arguments ONew {T}. Arguments OWithCap {T}. Arguments OResize {T}. Arguments OFill {T}.
Arguments OSet {T}. Arguments OSetMc {T}. Arguments OFromRows {T}. Arguments OClone {T}.
Arguments OIterMutCol {T}.

Section Dense.
  Context {T : Type}.
  Variable dflt : T.            (* T::default() *)
  Variable C : nat.             (* columns *)
  Variable S : nat.             (* stride, in elements *)

  (* ---------- Table level ---------- *)

  Definition table := list (list T).

  Definition t_row0 : list T := repeat dflt C.

  Definition t_new (rows : nat) : table := repeat t_row0 rows.

  Definition t_resize (t : table) (rows : nat) : table :=
    firstn rows t ++ repeat t_row0 (rows - length t).

  Definition t_fill (t : table) (v : T) : table := map (fun _ => repeat v C) t.

  Definition t_set (t : table) (r c : nat) (v : T) : res table :=
    if (r <? length t) && (c <? C) then Ok (upd r (upd c v (nth r t [])) t) else Panic 1.

  Definition t_from_rows (rows : list (list T)) : res table :=
    if forallb (fun r => length r =? C) rows then Ok rows else Panic 2.

  Definition t_iter_mut_col (t : table) (c : nat) (v : T) : res table :=
    match t with
    | [] => Ok []
    | _ => if c <? C then Ok (map (upd c v) t) else Panic 3
    end.

  Definition t_step (t : table) (o : op T) : res table :=
    match o with
    | ONew rows => Ok (t_new rows)
    | OWithCap rows _ => Ok (t_new rows)
    | OResize rows => Ok (t_resize t rows)
    | OFill v => Ok (t_fill t v)
    | OSet r c v => t_set t r c v
    | OSetMc r c v => t_set t r c v
    | OFromRows rows => t_from_rows rows
    | OClone => Ok t
    | OIterMutCol c v => t_iter_mut_col t c v
    end.

  Fixpoint t_run (t : table) (ops : list (op T)) : res table :=
    match ops with
    | [] => Ok t
    | o :: rest => rbind (t_step t o) (fun t' => t_run t' rest)
    end.

  (* observations at the table level *)
  Definition t_rows (t : table) : nat := length t.
  Definition t_get (t : table) (r c : nat) : res T :=
    if (r <? length t) && (c <? C) then Ok (nth c (nth r t []) dflt) else Panic 4.
  Definition t_iter (t : table) : list (list T) := t.
  Definition t_iter_rev (t : table) : list (list T) := rev t.

  (* double-ended iteration: [true] = next(), [false] = next_back(); the rows handed
     out, in call order (iter() and iter_mut() share the macro that implements both) *)
  Fixpoint take_mixed (pat : list bool) (t : table) : list (list T) :=
    match pat with
    | [] => []
    | true :: p => match t with [] => [] | x :: r => x :: take_mixed p r end
    | false :: p => match rev t with [] => [] | x :: r => x :: take_mixed p (rev r) end
    end.

  (* ---------- Storage level ---------- *)

  (* One Row<T,C>: the C logical cells and the S-C cells of alignment padding. *)
  Record srow := { ra : list T; rp : list T }.
  Definition storage := list srow.

  Definition srow_wf (r : srow) : Prop := length (ra r) = C /\ length (rp r) = S - C.
  Definition s_wf (st : storage) : Prop := Forall srow_wf st.

  (* ravel(): the whole buffer as one flat slice, padding included *)
  Definition ravel (st : storage) : list T := concat (map (fun r => ra r ++ rp r) st).

  (* re-chunk a flat slice of n*S cells into n rows (inverse of ravel) *)
  Fixpoint unravel (n : nat) (l : list T) : storage :=
    match n with
    | O => []
    | Datatypes.S n' =>
        {| ra := firstn C l; rp := firstn (S - C) (skipn C l) |} :: unravel n' (skipn S l)
    end.

  (* padding content is arbitrary: [pad i] is whatever sits in storage cell i *)
  Definition padrow (pad : nat -> T) (r : nat) : list T := map pad (seq (r * S + C) (S - C)).

  Definition s_fresh (pad : nat -> T) (r : nat) : srow :=
    {| ra := repeat dflt C; rp := padrow pad r |}.

  Definition s_new (pad : nat -> T) (rows : nat) : storage := map (s_fresh pad) (seq 0 rows).

  (* Vec::resize_with(rows, Default::default) *)
  Definition s_resize (pad : nat -> T) (st : storage) (rows : nat) : storage :=
    firstn rows st ++ map (s_fresh pad) (seq (length st) (rows - length st)).

  (* fill(): ravel_mut().fill(v) *)
  Definition s_fill (st : storage) (v : T) : storage :=
    unravel (length st) (map (fun _ => v) (ravel st)).

  Definition srow0 : srow := {| ra := []; rp := [] |}.

  Definition s_set (st : storage) (r c : nat) (v : T) : res storage :=
    if (r <? length st) && (c <? C)
    then Ok (upd r {| ra := upd c v (ra (nth r st srow0)); rp := rp (nth r st srow0) |} st)
    else Panic 1.

  Definition s_from_rows (pad : nat -> T) (rows : list (list T)) : res storage :=
    if forallb (fun r => length r =? C) rows
    then Ok (map (fun ir => {| ra := snd ir; rp := padrow pad (fst ir) |})
                 (combine (seq 0 (length rows)) rows))
    else Panic 2.

  (* derive(Clone) on Row copies the array only: the padding of the copy is arbitrary *)
  Definition s_clone (pad : nat -> T) (st : storage) : storage :=
    map (fun ir => {| ra := ra (snd ir); rp := padrow pad (fst ir) |})
        (combine (seq 0 (length st)) st).

  Definition s_iter_mut_col (st : storage) (c : nat) (v : T) : res storage :=
    match st with
    | [] => Ok []
    | _ => if c <? C
           then Ok (map (fun r => {| ra := upd c v (ra r); rp := rp r |}) st)
           else Panic 3
    end.

  Definition s_step (pad : nat -> T) (st : storage) (o : op T) : res storage :=
    match o with
    | ONew rows => Ok (s_new pad rows)
    | OWithCap rows _ => Ok (s_new pad rows)
    | OResize rows => Ok (s_resize pad st rows)
    | OFill v => Ok (s_fill st v)
    | OSet r c v => s_set st r c v
    | OSetMc r c v => s_set st r c v
    | OFromRows rows => s_from_rows pad rows
    | OClone => Ok (s_clone pad st)
    | OIterMutCol c v => s_iter_mut_col st c v
    end.

  Fixpoint s_run (pad : nat -> T) (st : storage) (ops : list (op T)) : res storage :=
    match ops with
    | [] => Ok st
    | o :: rest => rbind (s_step pad st o) (fun st' => s_run pad st' rest)
    end.

  (* abstraction function Storage -> Table *)
  Definition abs (st : storage) : table := map ra st.

  (* derived PartialEq (Vec<Row> and Row compare the arrays only) *)
  Variable eqT : T -> T -> bool.
  Fixpoint list_eqb (a b : list T) : bool :=
    match a, b with
    | [], [] => true
    | x :: a', y :: b' => eqT x y && list_eqb a' b'
    | _, _ => false
    end.
  Fixpoint table_eqb (a b : table) : bool :=
    match a, b with
    | [], [] => true
    | x :: a', y :: b' => list_eqb x y && table_eqb a' b'
    | _, _ => false
    end.
  Fixpoint s_eqb (a b : storage) : bool :=
    match a, b with
    | [], [] => true
    | x :: a', y :: b' => list_eqb (ra x) (ra y) && s_eqb a' b'
    | _, _ => false
    end.

End Dense.
