(* Proofs about DenseSteps: the list-surgery model of next / next_back / nth / nth_back hands out
   exactly the rows whose indices the shrinking-window specification names, and len() is the
   size of the window. *)
From Coq Require Import List Arith Bool Lia.
From LMDense Require Import DenseSteps.
Import ListNotations.

Lemma nth_error_mid {A} (a : list A) x b : nth_error (a ++ x :: b) (length a) = Some x.
Proof. rewrite nth_error_app2 by lia. now rewrite Nat.sub_diag. Qed.

Lemma skipn_cons_split {A} k (w : list A) x r :
  skipn k w = x :: r -> w = firstn k w ++ x :: r /\ length (firstn k w) = k.
Proof.
  intros H. split.
  - rewrite <- H. symmetry. apply firstn_skipn.
  - apply firstn_length_le. assert (Hl : length (skipn k w) = S (length r)) by now rewrite H.
    rewrite skipn_length in Hl. lia.
Qed.

Lemma skipn_nil_len {A} k (w : list A) : skipn k w = [] -> length w <= k.
Proof. intros H. assert (Hl : length (skipn k w) = 0) by now rewrite H. rewrite skipn_length in Hl. lia. Qed.

Lemma take_steps_nil {T} (pat : list istep) :
  @take_steps T pat [] = repeat None (length pat).
Proof.
  induction pat as [|s p IH]; [reflexivity|].
  destruct s as [| |k|k]; cbn [take_steps rev length repeat].
  - now rewrite IH.
  - now rewrite IH.
  - rewrite skipn_nil. now rewrite IH.
  - rewrite skipn_nil. now rewrite IH.
Qed.

Lemma steps_idx_empty (pat : list istep) lo :
  steps_idx pat lo lo = repeat None (length pat).
Proof.
  induction pat as [|s p IH]; [reflexivity|].
  destruct s as [| |k|k]; cbn [steps_idx length repeat].
  - rewrite Nat.ltb_irrefl. now rewrite IH.
  - rewrite Nat.ltb_irrefl. now rewrite IH.
  - replace (lo + k <? lo) with false by (symmetry; apply Nat.ltb_ge; lia). now rewrite IH.
  - replace (lo + k <? lo) with false by (symmetry; apply Nat.ltb_ge; lia). now rewrite IH.
Qed.

Lemma map_pick_none {T} (t : list (list T)) n : map (pick t) (repeat None n) = repeat None n.
Proof. induction n as [|n IH]; [reflexivity|]. cbn. now rewrite IH. Qed.

(* the window is the middle part [w] of the rows a ++ w ++ b *)
Lemma take_steps_idx_gen {T} (pat : list istep) : forall (a w b : list (list T)),
  take_steps pat w = map (pick (a ++ w ++ b)) (steps_idx pat (length a) (length a + length w)).
Proof.
  induction pat as [|s p IH]; intros a w b; [reflexivity|].
  destruct s as [| |k|k]; cbn [take_steps steps_idx].
  - (* next *)
    destruct w as [|x r].
    + cbn [length]. rewrite Nat.add_0_r, Nat.ltb_irrefl. cbn [map pick]. f_equal.
      rewrite take_steps_nil, steps_idx_empty. now rewrite map_pick_none.
    + cbn [length]. replace (length a <? length a + S (length r)) with true by (symmetry; apply Nat.ltb_lt; lia).
      cbn [map pick]. f_equal.
      * cbn [app]. now rewrite nth_error_mid.
      * specialize (IH (a ++ [x]) r b). rewrite app_length in IH. cbn [length] in IH.
        replace (length a + 1 + length r) with (length a + S (length r)) in IH by lia.
        rewrite IH. f_equal. rewrite <- app_assoc. reflexivity.
  - (* next_back *)
    destruct (rev w) as [|x r] eqn:Hr.
    + assert (Hw : w = []) by (rewrite <- (rev_involutive w), Hr; reflexivity). subst w.
      cbn [length]. rewrite Nat.add_0_r, Nat.ltb_irrefl. cbn [map pick]. f_equal.
      rewrite take_steps_nil, steps_idx_empty. now rewrite map_pick_none.
    + assert (Hw : w = rev r ++ [x]) by (rewrite <- (rev_involutive w), Hr; reflexivity). subst w.
      rewrite app_length, rev_length. cbn [length].
      replace (length a <? length a + (length r + 1)) with true by (symmetry; apply Nat.ltb_lt; lia).
      cbn [map pick]. f_equal.
      * replace (length a + (length r + 1) - 1) with (length (a ++ rev r)) by (rewrite app_length, rev_length; lia).
        replace (a ++ (rev r ++ [x]) ++ b) with ((a ++ rev r) ++ x :: b) by (rewrite <- !app_assoc; reflexivity).
        now rewrite nth_error_mid.
      * specialize (IH a (rev r) (x :: b)). rewrite rev_length in IH.
        replace (length a + (length r + 1) - 1) with (length a + length r) by lia.
        rewrite IH. f_equal. rewrite <- !app_assoc. reflexivity.
  - (* nth k *)
    destruct (skipn k w) as [|x r] eqn:Hs.
    + apply skipn_nil_len in Hs.
      replace (length a + k <? length a + length w) with false by (symmetry; apply Nat.ltb_ge; lia).
      cbn [map pick]. f_equal.
      rewrite take_steps_nil, steps_idx_empty. now rewrite map_pick_none.
    + destruct (skipn_cons_split k w x r Hs) as (Hw & Hk).
      assert (Hlen : length w = k + S (length r)).
      { rewrite Hw at 1. rewrite app_length, Hk. reflexivity. }
      replace (length a + k <? length a + length w) with true by (symmetry; apply Nat.ltb_lt; lia).
      cbn [map pick]. f_equal.
      * rewrite Hw. replace (a ++ (firstn k w ++ x :: r) ++ b) with ((a ++ firstn k w) ++ x :: (r ++ b))
          by (rewrite <- !app_assoc; reflexivity).
        replace (length a + k) with (length (a ++ firstn k w)) by (rewrite app_length, Hk; reflexivity).
        now rewrite nth_error_mid.
      * specialize (IH (a ++ firstn k w ++ [x]) r b).
        rewrite !app_length, Hk in IH. cbn [length] in IH.
        replace (length a + (k + 1) + length r) with (length a + length w) in IH by lia.
        replace (length a + (k + 1)) with (length a + k + 1) in IH by lia.
        rewrite IH. f_equal. rewrite Hw at 2. rewrite <- !app_assoc. reflexivity.
  - (* nth_back k *)
    destruct (skipn k (rev w)) as [|x r] eqn:Hs.
    + apply skipn_nil_len in Hs. rewrite rev_length in Hs.
      replace (length a + k <? length a + length w) with false by (symmetry; apply Nat.ltb_ge; lia).
      cbn [map pick]. f_equal.
      rewrite take_steps_nil, steps_idx_empty. now rewrite map_pick_none.
    + destruct (skipn_cons_split k (rev w) x r Hs) as (Hw & Hk).
      set (f := firstn k (rev w)) in *.
      assert (Hw2 : w = rev r ++ x :: rev f).
      { rewrite <- (rev_involutive w), Hw, rev_app_distr. cbn [rev]. rewrite <- app_assoc. reflexivity. }
      assert (Hlen : length w = length r + S k).
      { rewrite Hw2 at 1. rewrite app_length, rev_length. cbn [length]. rewrite rev_length, Hk. reflexivity. }
      replace (length a + k <? length a + length w) with true by (symmetry; apply Nat.ltb_lt; lia).
      cbn [map pick]. f_equal.
      * rewrite Hw2. replace (a ++ (rev r ++ x :: rev f) ++ b) with ((a ++ rev r) ++ x :: (rev f ++ b))
          by (rewrite <- !app_assoc; reflexivity).
        replace (length a + length (rev r ++ x :: rev f) - 1 - k) with (length (a ++ rev r)).
        2:{ rewrite !app_length, !rev_length. cbn [length]. rewrite rev_length, Hk. lia. }
        now rewrite nth_error_mid.
      * specialize (IH a (rev r) (x :: rev f ++ b)). rewrite rev_length in IH.
        replace (length a + length w - 1 - k) with (length a + length r) by lia.
        rewrite IH. f_equal. rewrite Hw2. rewrite <- !app_assoc. reflexivity.
Qed.

Lemma take_steps_idx {T} (pat : list istep) (t : list (list T)) :
  take_steps pat t = map (pick t) (steps_idx pat 0 (length t)).
Proof.
  pose proof (take_steps_idx_gen pat [] t []) as H. cbn [app length Nat.add] in H.
  now rewrite app_nil_r in H.
Qed.

(* every index handed out lies in the current window, and the window only shrinks: consequences *)
Lemma steps_idx_in_range (pat : list istep) : forall lo hi i,
  lo <= hi -> In (Some i) (steps_idx pat lo hi) -> lo <= i < hi.
Proof.
  induction pat as [|s p IH]; intros lo hi i Hle Hin; [contradiction|].
  destruct s as [| |k|k]; cbn [steps_idx] in Hin.
  - destruct (lo <? hi) eqn:E.
    + apply Nat.ltb_lt in E. destruct Hin as [Hin|Hin]; [injection Hin as <-; lia|].
      apply IH in Hin; lia.
    + destruct Hin as [Hin|Hin]; [discriminate|]. apply IH in Hin; lia.
  - destruct (lo <? hi) eqn:E.
    + apply Nat.ltb_lt in E. destruct Hin as [Hin|Hin]; [injection Hin as <-; lia|].
      apply IH in Hin; lia.
    + destruct Hin as [Hin|Hin]; [discriminate|]. apply IH in Hin; lia.
  - destruct (lo + k <? hi) eqn:E.
    + apply Nat.ltb_lt in E. destruct Hin as [Hin|Hin]; [injection Hin as <-; lia|].
      apply IH in Hin; lia.
    + destruct Hin as [Hin|Hin]; [discriminate|]. apply IH in Hin; lia.
  - destruct (lo + k <? hi) eqn:E.
    + apply Nat.ltb_lt in E. destruct Hin as [Hin|Hin]; [injection Hin as <-; lia|].
      apply IH in Hin; lia.
    + destruct Hin as [Hin|Hin]; [discriminate|]. apply IH in Hin; lia.
Qed.

(* no row is handed out twice *)
Lemma in_somes {A} (l : list (option A)) x : In x (somes l) <-> In (Some x) l.
Proof.
  induction l as [|[y|] l IH]; cbn; [tauto| |].
  - rewrite IH. split; intros [H|H]; auto; [left; now f_equal|injection H as ->; now left].
  - rewrite IH. split; [auto|intros [H|H]; [discriminate|assumption]].
Qed.

Lemma steps_idx_nodup (pat : list istep) : forall lo hi, lo <= hi -> NoDup (somes (steps_idx pat lo hi)).
Proof.
  induction pat as [|s p IH]; intros lo hi Hle; [constructor|].
  destruct s as [| |k|k]; cbn [steps_idx].
  - destruct (lo <? hi) eqn:E; cbn [somes]; [|apply IH; lia].
    apply Nat.ltb_lt in E. constructor; [|apply IH; lia].
    intros Hin. apply in_somes, steps_idx_in_range in Hin; lia.
  - destruct (lo <? hi) eqn:E; cbn [somes]; [|apply IH; lia].
    apply Nat.ltb_lt in E. constructor; [|apply IH; lia].
    intros Hin. apply in_somes, steps_idx_in_range in Hin; lia.
  - destruct (lo + k <? hi) eqn:E; cbn [somes]; [|apply IH; lia].
    apply Nat.ltb_lt in E. constructor; [|apply IH; lia].
    intros Hin. apply in_somes, steps_idx_in_range in Hin; lia.
  - destruct (lo + k <? hi) eqn:E; cbn [somes]; [|apply IH; lia].
    apply Nat.ltb_lt in E. constructor; [|apply IH; lia].
    intros Hin. apply in_somes, steps_idx_in_range in Hin; lia.
Qed.

(* len() after each call = size of the window *)
Lemma steps_lens_idx (pat : list istep) : forall lo hi, lo <= hi ->
  steps_lens pat (hi - lo) = steps_idx_lens pat lo hi.
Proof.
  induction pat as [|s p IH]; intros lo hi Hle; [reflexivity|].
  destruct s as [| |k|k]; cbn [steps_lens steps_idx_lens].
  - destruct (lo <? hi) eqn:E.
    + apply Nat.ltb_lt in E. f_equal; [lia|]. rewrite <- IH by lia. f_equal. lia.
    + apply Nat.ltb_ge in E. f_equal; [lia|]. rewrite <- IH by lia. f_equal. lia.
  - destruct (lo <? hi) eqn:E.
    + apply Nat.ltb_lt in E. f_equal; [lia|]. rewrite <- IH by lia. f_equal. lia.
    + apply Nat.ltb_ge in E. f_equal; [lia|]. rewrite <- IH by lia. f_equal. lia.
  - destruct (lo + k <? hi) eqn:E.
    + apply Nat.ltb_lt in E. f_equal; [lia|]. rewrite <- IH by lia. f_equal. lia.
    + apply Nat.ltb_ge in E. f_equal; [lia|]. rewrite <- IH by lia. f_equal. lia.
  - destruct (lo + k <? hi) eqn:E.
    + apply Nat.ltb_lt in E. f_equal; [lia|]. rewrite <- IH by lia. f_equal. lia.
    + apply Nat.ltb_ge in E. f_equal; [lia|]. rewrite <- IH by lia. f_equal. lia.
Qed.

(* rev().skip(k) and skip(k) as users write them: nth_back(k-1) / nth(k-1) once, then plain steps *)
Lemma take_steps_skip {T} k (t : list (list T)) :
  somes (take_steps (SNth k :: repeat SNext (length t)) t) = skipn k t.
Proof.
  cbn [take_steps]. destruct (skipn k t) as [|x r] eqn:Hs.
  - cbn [somes]. rewrite take_steps_nil. clear. induction (length t); [reflexivity|assumption].
  - cbn [somes]. f_equal.
    assert (Hl : length r <= length t).
    { assert (H : length (skipn k t) = S (length r)) by now rewrite Hs. rewrite skipn_length in H. lia. }
    clear Hs. revert r Hl. generalize (length t) as n. intros n. induction n as [|n IH]; intros r Hl.
    + destruct r; [reflexivity|cbn in Hl; lia].
    + cbn [repeat take_steps]. destruct r as [|y r]; [cbn [somes]; rewrite take_steps_nil; clear; induction n; [reflexivity|assumption]|].
      cbn [somes]. f_equal. apply IH. cbn in Hl. lia.
Qed.

Lemma take_steps_rev_skip {T} k (t : list (list T)) :
  somes (take_steps (SNthBack k :: repeat SBack (length t)) t) = skipn k (rev t).
Proof.
  cbn [take_steps]. destruct (skipn k (rev t)) as [|x r] eqn:Hs.
  - cbn [somes]. rewrite take_steps_nil. clear. induction (length t); [reflexivity|assumption].
  - cbn [somes]. f_equal.
    assert (Hl : length r <= length t).
    { assert (H : length (skipn k (rev t)) = S (length r)) by now rewrite Hs.
      rewrite skipn_length, rev_length in H. lia. }
    clear Hs. revert r Hl. generalize (length t) as n. intros n. induction n as [|n IH]; intros r Hl.
    + destruct r; [reflexivity|cbn in Hl; lia].
    + cbn [repeat take_steps]. rewrite rev_involutive.
      destruct r as [|y r]; [cbn [somes]; rewrite take_steps_nil; clear; induction n; [reflexivity|assumption]|].
      cbn [somes]. f_equal. apply IH. cbn in Hl. lia.
Qed.

(* ---------- the std adaptors built on the positional calls ---------- *)

Lemma somes_repeat_none {A} n : somes (repeat (@None A) n) = [].
Proof. induction n; [reflexivity|assumption]. Qed.

(* step_by(k+1) after the first element: nth(k) repeatedly = the indices lo+k, lo+k+(k+1), ... *)
Lemma steps_idx_nth_repeat k : forall m lo hi, lo <= hi ->
  somes (steps_idx (repeat (SNth k) m) lo hi) = stepby_idx k m (lo + k) hi.
Proof.
  induction m as [|m IH]; intros lo hi Hle; [reflexivity|].
  cbn [repeat steps_idx stepby_idx].
  destruct (lo + k <? hi) eqn:E.
  - apply Nat.ltb_lt in E. cbn [somes]. f_equal.
    rewrite IH by lia. f_equal. lia.
  - cbn [somes]. rewrite steps_idx_empty. apply somes_repeat_none.
Qed.

Lemma steps_idx_step_by k n :
  somes (steps_idx (SNext :: repeat (SNth k) n) 0 n) = stepby_idx k (S n) 0 n.
Proof.
  cbn [steps_idx stepby_idx]. destruct (0 <? n) eqn:E.
  - apply Nat.ltb_lt in E. cbn [somes]. f_equal.
    rewrite steps_idx_nth_repeat by lia. f_equal; lia.
  - cbn [somes]. rewrite steps_idx_empty. apply somes_repeat_none.
Qed.

(* picking rows commutes with dropping the None results, for indices inside the table *)
Lemma somes_map_pick {T} (t : list (list T)) (l : list (option nat)) :
  (forall i, In (Some i) l -> i < length t) ->
  map Some (somes (map (pick t) l)) = map (nth_error t) (somes l).
Proof.
  induction l as [|[i|] l IH]; intros H; [reflexivity| |].
  - cbn [map pick]. assert (Hi : i < length t) by (apply H; left; reflexivity).
    destruct (nth_error t i) as [x|] eqn:E; [|apply nth_error_None in E; lia].
    cbn [somes map]. rewrite E. f_equal. apply IH. intros j Hj. apply H. right; assumption.
  - cbn [map pick somes]. apply IH. intros j Hj. apply H. right; assumption.
Qed.

Lemma take_steps_step_by {T} k (t : list (list T)) :
  map Some (somes (take_steps (SNext :: repeat (SNth k) (length t)) t))
  = map (nth_error t) (stepby_idx k (S (length t)) 0 (length t)).
Proof.
  rewrite take_steps_idx. rewrite somes_map_pick.
  - now rewrite steps_idx_step_by.
  - intros i Hi. apply (steps_idx_in_range _ 0 (length t) i (Nat.le_0_l _)) in Hi. lia.
Qed.

(* rev(): the calls seen from the other end are the mirrored calls on the reversed rows *)
Lemma take_steps_mirror {T} (pat : list istep) : forall t : list (list T),
  take_steps (mirror pat) t = take_steps pat (rev t).
Proof.
  induction pat as [|s p IH]; intros t; [reflexivity|].
  destruct s as [| |k|k]; cbn [mirror map mirror1 take_steps]; fold (mirror p).
  - (* pat has next: mirrored = next_back on t *)
    destruct (rev t) as [|x r]; [apply f_equal, IH|]. f_equal. rewrite IH. now rewrite rev_involutive.
  - rewrite rev_involutive. destruct t as [|x r]; [apply f_equal, (IH [])|]. f_equal. apply IH.
  - destruct (skipn k (rev t)) as [|x r]; [apply f_equal, IH|]. f_equal. rewrite IH. now rewrite rev_involutive.
  - rewrite rev_involutive. destruct (skipn k t) as [|x r]; [apply f_equal, (IH [])|]. f_equal. apply IH.
Qed.

Lemma mirror_step_by k n : SBack :: repeat (SNthBack k) n = mirror (SNext :: repeat (SNth k) n).
Proof. unfold mirror. cbn [map mirror1]. f_equal. induction n; [reflexivity|]. cbn. now f_equal. Qed.

Lemma take_steps_rev_step_by {T} k (t : list (list T)) :
  map Some (somes (take_steps (SBack :: repeat (SNthBack k) (length t)) t))
  = map (nth_error (rev t)) (stepby_idx k (S (length t)) 0 (length t)).
Proof.
  rewrite mirror_step_by, take_steps_mirror.
  rewrite <- (rev_length t). apply take_steps_step_by.
Qed.

(* last() = one next_back() = the row of index rows-1 (None for an empty matrix) *)
Lemma take_steps_last {T} (t : list (list T)) :
  hd None (take_steps [SBack] t) = nth_error t (length t - 1).
Proof.
  rewrite take_steps_idx. cbn [steps_idx]. destruct (0 <? length t) eqn:E; cbn [map pick hd].
  - reflexivity.
  - apply Nat.ltb_ge in E. destruct t; [reflexivity|cbn in E; lia].
Qed.

(* the indices step_by designates: exactly the multiples of k+1 below n *)
Lemma stepby_idx_in k : forall fuel i n j,
  In j (stepby_idx k fuel i n) -> j < n /\ exists q, j = i + q * (k + 1).
Proof.
  induction fuel as [|f IH]; intros i n j H; [contradiction|].
  cbn [stepby_idx] in H. destruct (i <? n) eqn:E; [|contradiction].
  apply Nat.ltb_lt in E. destruct H as [<-|H].
  - split; [assumption|]. exists 0. lia.
  - apply IH in H. destruct H as [H1 [q Hq]]. split; [assumption|]. exists (S q). lia.
Qed.

Lemma stepby_idx_complete k : forall fuel i n q,
  n <= i + fuel -> i + q * (k + 1) < n -> In (i + q * (k + 1)) (stepby_idx k fuel i n).
Proof.
  induction fuel as [|f IH]; intros i n q Hf Hq; [lia|].
  cbn [stepby_idx]. replace (i <? n) with true by (symmetry; apply Nat.ltb_lt; nia).
  destruct q as [|q]; [left; lia|]. right.
  replace (i + S q * (k + 1)) with ((i + k + 1) + q * (k + 1)) by lia.
  apply IH; lia.
Qed.
