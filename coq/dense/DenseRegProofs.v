(* Proofs about the register-file model (DenseReg.v): the struct-level model
   (data vector + separate rows field + capacity bound) refines the table level for
   every operation on one or two matrices and every operation sequence; the
   invariant rows == data.len() <= capacity is preserved; the observers that read
   different fields (rows(), Index, ravel(), ==) agree with the table. *)
From Coq Require Import List Arith Bool Lia Permutation.
From LMBase Require Import Res ListX.
From LMDense Require Import DenseModel DenseProofs DenseReg.
Import ListNotations.

Lemma nth_error_map' {A B} (f : A -> B) (l : list A) n :
  nth_error (map f l) n = option_map f (nth_error l n).
Proof. revert n; induction l as [|x l IH]; intros [|n]; simpl; auto. Qed.

Lemma firstn_succ_upd {A} (l : list A) i v :
  i < length l -> firstn (i + 1) (upd i v l) = firstn i l ++ [v].
Proof.
  revert i; induction l as [|x l IH]; intros [|i] H; simpl in *; try lia; auto.
  f_equal. apply IH. lia.
Qed.

Lemma upd_nth_error_same {A} (l : list A) d x : nth_error l d = Some x -> upd d x l = l.
Proof.
  revert d; induction l as [|y l IH]; intros [|d] H; simpl in *; try discriminate; auto.
  - congruence.
  - f_equal; auto.
Qed.

Lemma table_eqb_length {T} (eqT : T -> T -> bool) (a b : @table T) :
  table_eqb eqT a b = true -> length a = length b.
Proof.
  revert b; induction a as [|x a IH]; intros [|y b]; simpl; intros H; try discriminate; auto.
  apply andb_true_iff in H. destruct H as [_ H]. f_equal; auto.
Qed.

Section DenseRegProofs.
  Context {T : Type}.
  Variable dflt : T.
  Variable C S : nat.
  Hypothesis HCS : C <= S.

  Notation s_wf := (@s_wf T C S).
  Notation srow_wf := (@srow_wf T C S).
  Notation m_wf := (@m_wf T C S).
  Notation mabs := (@mabs T).
  Implicit Types (pad : nat -> T) (m : @smat T) (st : @storage T).

  Lemma s_resize_length pad st rows : length (s_resize dflt C S pad st rows) = rows.
  Proof. unfold s_resize. rewrite app_length, firstn_length, map_length, seq_length. lia. Qed.

  Lemma s_resize_nil pad rows : s_resize dflt C S pad [] rows = s_new dflt C S pad rows.
  Proof. unfold s_resize, s_new. rewrite firstn_nil. simpl. rewrite Nat.sub_0_r. reflexivity. Qed.

  Lemma s_fill_length st v : s_wf st -> length (s_fill C S st v) = length st.
  Proof. intros H. rewrite (s_fill_repeat C S HCS) by auto. apply repeat_length. Qed.

  (* --- the struct-level step is the storage-level step of DenseModel on the data
         vector, keeps rows == data.len() and len <= capacity --- *)
  Lemma m_step_sd pad m o :
    m_wf m ->
    match m_step dflt C S pad m o, s_step dflt C S pad (sd m) o with
    | Ok m', Ok st' => sd m' = st' /\ srows m' = length st' /\ length st' <= scap m'
    | Panic a, Panic b => a = b
    | _, _ => False
    end.
  Proof.
    intros [Hwf [Hr Hc]]. destruct o; simpl.
    - rewrite s_resize_nil. unfold s_new. rewrite map_length, seq_length. repeat split; lia.
    - rewrite s_resize_nil. unfold s_new. rewrite map_length, seq_length. repeat split; lia.
    - rewrite s_resize_length. repeat split; lia.
    - unfold m_fill. rewrite Hr. rewrite Nat.leb_refl. simpl.
      rewrite firstn_all, skipn_all, app_nil_r. rewrite s_fill_length by auto.
      repeat split; auto.
    - unfold s_set. destruct ((r <? length (sd m)) && (c <? C)); simpl; auto.
      rewrite upd_length. repeat split; auto.
    - unfold s_set. destruct ((r <? length (sd m)) && (c <? C)); simpl; auto.
      rewrite upd_length. repeat split; auto.
    - unfold s_from_rows. destruct (forallb (fun r => length r =? C) rows); simpl; auto.
      rewrite map_length, combine_length, seq_length. repeat split; lia.
    - unfold s_clone. rewrite map_length, combine_length, seq_length. repeat split; lia.
    - unfold s_iter_mut_col. destruct (sd m) as [|x st0] eqn:E; simpl.
      + repeat split; simpl in *; auto.
      + destruct (c <? C); simpl; auto. rewrite map_length. simpl in *. repeat split; auto.
  Qed.

  Lemma m_step_wf pad m o m' :
    m_wf m -> m_step dflt C S pad m o = Ok m' -> m_wf m'.
  Proof.
    intros Hwf E. pose proof (m_step_sd pad m o Hwf) as H. rewrite E in H.
    destruct (s_step dflt C S pad (sd m) o) as [st'| | |] eqn:E2; try contradiction.
    destruct H as [H1 [H2 H3]]. subst st'. split; [|split]; auto.
    destruct Hwf as [Hwf _]. eapply (s_step_wf dflt C S HCS); eauto.
  Qed.

  Lemma m_step_abs pad m o :
    m_wf m ->
    match m_step dflt C S pad m o, t_step dflt C (mabs m) o with
    | Ok m', Ok t' => mabs m' = t'
    | Panic a, Panic b => a = b
    | _, _ => False
    end.
  Proof.
    intros Hwf. pose proof (m_step_sd pad m o Hwf) as H.
    destruct Hwf as [Hs _].
    pose proof (abs_step dflt C S HCS pad (sd m) o Hs) as A.
    unfold DenseReg.mabs.
    destruct (m_step dflt C S pad m o) as [m'| | |];
      destruct (s_step dflt C S pad (sd m) o) as [st'| | |]; try contradiction;
      destruct (t_step dflt C (abs (sd m)) o) as [t'| | |]; try contradiction; auto.
    - destruct H as [H _]. rewrite H. exact A.
    - congruence.
  Qed.

  (* --- from_rows with an untrusted len() --- *)

  Lemma s_junk_wf pad r : srow_wf (s_junk C S pad r).
  Proof. split; simpl; [rewrite map_length, seq_length; auto | apply (padrow_length C S)]. Qed.

  Lemma s_write_rows_spec rows : forall st i,
    s_wf st -> i <= length st ->
    match s_write_rows C st i rows, from_rows_scan C (length st) i rows with
    | Ok p, Ok _ =>
        s_wf (fst p) /\ length (fst p) = length st /\ snd p = i + length rows /\
        snd p <= length st /\ firstn (snd p) (abs (fst p)) = firstn i (abs st) ++ rows
    | Panic a, Panic b => a = b
    | _, _ => False
    end.
  Proof.
    induction rows as [|r rest IH]; intros st i Hwf Hi; simpl.
    - repeat split; auto; try lia. rewrite app_nil_r. auto.
    - destruct (i <? length st) eqn:Ei; auto.
      apply Nat.ltb_lt in Ei.
      destruct (length r =? C) eqn:Er; auto.
      apply Nat.eqb_eq in Er.
      set (x := {| ra := r; rp := rp (nth i st srow0) |}).
      assert (Hx : srow_wf x).
      { split; simpl; auto.
        assert (Hn : srow_wf (nth i st srow0)).
        { apply (s_wf_in C S st); auto. apply nth_In; auto. }
        destruct Hn; auto. }
      assert (Hwf' : s_wf (upd i x st)) by (apply Forall_upd; auto).
      assert (Hi' : i + 1 <= length (upd i x st)) by (rewrite upd_length; lia).
      specialize (IH (upd i x st) (i + 1) Hwf' Hi').
      rewrite upd_length in IH.
      destruct (s_write_rows C (upd i x st) (i + 1) rest) as [p| | |];
        destruct (from_rows_scan C (length st) (i + 1) rest) as [u| | |]; try contradiction; auto.
      destruct IH as [H1 [H2 [H3 [H4 H5]]]].
      repeat split; auto; try lia.
      rewrite H5. unfold abs at 1. rewrite map_upd. simpl.
      rewrite firstn_succ_upd by (rewrite map_length; auto).
      rewrite <- app_assoc. reflexivity.
  Qed.

  Lemma m_from_rows_len_spec pad claimed rows :
    match m_from_rows_len dflt C S pad claimed rows, t_from_rows_len C claimed rows with
    | Ok m', Ok t' => mabs m' = t' /\ m_wf m'
    | Panic a, Panic b => a = b
    | _, _ => False
    end.
  Proof.
    unfold m_from_rows_len, t_from_rows_len. simpl.
    set (st0 := map (s_junk C S pad) (seq 0 claimed)).
    assert (Hwf0 : s_wf st0).
    { apply Forall_forall. intros x Hx. apply in_map_iff in Hx.
      destruct Hx as [r [<- _]]. apply s_junk_wf. }
    assert (Hl0 : length st0 = claimed) by (unfold st0; rewrite map_length, seq_length; auto).
    pose proof (s_write_rows_spec rows st0 0 Hwf0 ltac:(lia)) as H.
    rewrite Hl0 in H.
    destruct (s_write_rows C st0 0 rows) as [p| | |];
      destruct (from_rows_scan C claimed 0 rows) as [u| | |]; simpl; try contradiction; auto.
    destruct H as [H1 [H2 [H3 [H4 H5]]]]. simpl in H5.
    assert (Hsd : s_resize dflt C S pad (fst p) (snd p) = firstn (snd p) (fst p)).
    { unfold s_resize. replace (snd p - length (fst p)) with 0 by lia. simpl. apply app_nil_r. }
    split.
    - unfold DenseReg.mabs, m_resize. simpl. rewrite Hsd. unfold abs. rewrite <- firstn_map. exact H5.
    - unfold DenseReg.m_wf, m_resize. simpl. rewrite Hsd. split; [|split].
      + apply Forall_firstn; auto.
      + rewrite firstn_length. lia.
      + rewrite firstn_length. lia.
  Qed.

  (* an honest len() gives from_rows of DenseModel *)
  Lemma from_rows_scan_honest (rows : list (list T)) : forall i n,
    n = i + length rows ->
    from_rows_scan C n i rows =
      if forallb (fun r : list T => length r =? C) rows then Ok tt else Panic 2.
  Proof.
    induction rows as [|r rest IH]; intros i n Hn; simpl; auto.
    simpl in Hn. replace (i <? n) with true by (symmetry; apply Nat.ltb_lt; lia).
    destruct (length r =? C); simpl; auto. apply IH. lia.
  Qed.

  Lemma t_from_rows_len_honest (rows : list (list T)) :
    t_from_rows_len C (length rows) rows = t_from_rows C rows.
  Proof.
    unfold t_from_rows_len, t_from_rows. rewrite (from_rows_scan_honest rows 0 (length rows)) by lia.
    destruct (forallb (fun r : list T => length r =? C) rows); auto.
  Qed.

  Lemma from_rows_scan_ok (rows : list (list T)) : forall claimed i u,
    from_rows_scan C claimed i rows = Ok u ->
    i + length rows <= Nat.max i claimed /\ Forall (fun r => length r = C) rows.
  Proof.
    induction rows as [|r rest IH]; intros claimed i u H; simpl in *.
    - split; [lia | constructor].
    - destruct (i <? claimed) eqn:Ei; try discriminate. apply Nat.ltb_lt in Ei.
      destruct (length r =? C) eqn:Er; try discriminate. apply Nat.eqb_eq in Er.
      apply IH in H. destruct H as [H1 H2]. split; [| constructor; auto].
      pose proof (Nat.max_spec (i + 1) claimed). pose proof (Nat.max_spec i claimed). lia.
  Qed.

  Lemma from_rows_scan_more (rows : list (list T)) : forall claimed i,
    i <= claimed -> claimed < i + length rows ->
    exists site, from_rows_scan C claimed i rows = Panic site.
  Proof.
    induction rows as [|r rest IH]; intros claimed i Hi H; simpl in *; [lia|].
    destruct (i <? claimed) eqn:Ei; [|eauto]. apply Nat.ltb_lt in Ei.
    destruct (length r =? C); [|eauto]. apply IH; lia.
  Qed.

  (* --- register file --- *)

  Lemma rs_get_abs (regs : list (@smat T)) d :
    Forall m_wf regs ->
    match rs_get regs d, rt_get (map mabs regs) d with
    | Ok m, Ok t => mabs m = t /\ m_wf m /\ d < length regs
    | Panic a, Panic b => a = b
    | _, _ => False
    end.
  Proof.
    intros Hwf. unfold rs_get, rt_get. rewrite nth_error_map'.
    destruct (nth_error regs d) as [m|] eqn:E; simpl; auto.
    split; [reflexivity | split].
    - rewrite Forall_forall in Hwf. apply Hwf. eapply nth_error_In; eauto.
    - apply nth_error_Some. congruence.
  Qed.

  Lemma m_new0_wf pad : m_wf (m_resize dflt C S pad (m_empty 0) 0).
  Proof. split; [|split]; simpl; auto. constructor. Qed.

  Lemma m_clone_wf pad m : m_wf m -> m_wf (m_clone C S pad m).
  Proof.
    intros [H1 [H2 H3]]. unfold m_clone. split; [|split]; simpl.
    - apply (s_step_wf dflt C S HCS pad (sd m) OClone); auto.
    - unfold s_clone. rewrite map_length, combine_length, seq_length. lia.
    - unfold s_clone. rewrite map_length, combine_length, seq_length. lia.
  Qed.

  Lemma mabs_clone pad m : mabs (m_clone C S pad m) = mabs m.
  Proof. unfold DenseReg.mabs, m_clone. simpl. apply abs_clone. Qed.

  Lemma rs_step_refines pad (regs : list (@smat T)) o :
    Forall m_wf regs ->
    match rs_step dflt C S pad regs o, rt_step dflt C (map mabs regs) o with
    | Ok rs', Ok ts' => map mabs rs' = ts' /\ Forall m_wf rs'
    | Panic a, Panic b => a = b
    | _, _ => False
    end.
  Proof.
    intros Hwf. destruct o; simpl.
    - pose proof (rs_get_abs regs d Hwf) as G.
      destruct (rs_get regs d) as [m| | |]; destruct (rt_get (map mabs regs) d) as [t| | |];
        simpl; try contradiction; auto.
      destruct G as [G1 [G2 G3]]. subst t.
      pose proof (m_step_abs pad m o G2) as A. pose proof (m_step_wf pad m o) as W.
      destruct (m_step dflt C S pad m o) as [m'| | |];
        destruct (t_step dflt C (mabs m) o) as [t'| | |]; simpl; try contradiction; auto.
      subst t'. split; [apply map_upd | apply Forall_upd; auto].
    - pose proof (rs_get_abs regs d Hwf) as G.
      destruct (rs_get regs d) as [m| | |]; destruct (rt_get (map mabs regs) d) as [t| | |];
        simpl; try contradiction; auto.
      pose proof (m_from_rows_len_spec pad claimed rows) as A.
      destruct (m_from_rows_len dflt C S pad claimed rows) as [m'| | |];
        destruct (t_from_rows_len C claimed rows) as [t'| | |]; simpl; try contradiction; auto.
      destruct A as [A1 A2]. subst t'. split; [apply map_upd | apply Forall_upd; auto].
    - pose proof (rs_get_abs regs d Hwf) as G.
      destruct (rs_get regs d) as [m| | |]; destruct (rt_get (map mabs regs) d) as [t| | |] eqn:E2;
        simpl; try contradiction; auto.
      destruct G as [G1 [[W1 [W2 W3]] G3]]. split.
      + rewrite map_upd. unfold DenseReg.mabs at 1. simpl. fold (mabs m). rewrite G1.
        apply upd_nth_error_same. unfold rt_get in E2.
        destruct (nth_error (map mabs regs) d); congruence.
      + apply Forall_upd; auto. split; [|split]; simpl; auto. lia.
    - pose proof (rs_get_abs regs d Hwf) as G. pose proof (rs_get_abs regs s Hwf) as G'.
      destruct (rs_get regs d) as [m| | |]; destruct (rt_get (map mabs regs) d) as [t| | |];
        simpl; try contradiction; auto.
      destruct (rs_get regs s) as [ms| | |]; destruct (rt_get (map mabs regs) s) as [ts| | |];
        simpl; try contradiction; auto.
      destruct G' as [G1 [G2 G3]]. subst ts. split.
      + rewrite map_upd, mabs_clone. auto.
      + apply Forall_upd; auto. apply m_clone_wf; auto.
    - pose proof (rs_get_abs regs d Hwf) as G. pose proof (rs_get_abs regs s Hwf) as G'.
      destruct (rs_get regs d) as [m| | |]; destruct (rt_get (map mabs regs) d) as [t| | |];
        simpl; try contradiction; auto.
      destruct (rs_get regs s) as [ms| | |]; destruct (rt_get (map mabs regs) s) as [ts| | |];
        simpl; try contradiction; auto.
      destruct G' as [G1 [G2 G3]]. subst ts. split.
      + rewrite map_upd, mabs_clone. auto.
      + apply Forall_upd; auto. apply m_clone_wf; auto.
    - pose proof (rs_get_abs regs a Hwf) as G. pose proof (rs_get_abs regs b Hwf) as G'.
      destruct (rs_get regs a) as [ma| | |]; destruct (rt_get (map mabs regs) a) as [ta| | |];
        simpl; try contradiction; auto.
      destruct (rs_get regs b) as [mb| | |]; destruct (rt_get (map mabs regs) b) as [tb| | |];
        simpl; try contradiction; auto.
      destruct G as [G1 [G2 G3]]. destruct G' as [G1' [G2' G3']]. subst ta tb. split.
      + rewrite !map_upd. auto.
      + apply Forall_upd; auto. apply Forall_upd; auto.
    - pose proof (rs_get_abs regs d Hwf) as G. pose proof (rs_get_abs regs s Hwf) as G'.
      destruct (rs_get regs d) as [m| | |]; destruct (rt_get (map mabs regs) d) as [t| | |];
        simpl; try contradiction; auto.
      destruct (rs_get regs s) as [ms| | |]; destruct (rt_get (map mabs regs) s) as [ts| | |];
        simpl; try contradiction; auto.
      destruct G' as [G1 [G2 G3]]. subst ts. split.
      + rewrite !map_upd. auto.
      + apply Forall_upd; auto. apply Forall_upd; auto. apply m_new0_wf.
  Qed.

  Lemma rs_run_refines pads ops : forall k (regs : list (@smat T)),
    Forall m_wf regs ->
    match rs_run_pads dflt C S pads k regs ops, rt_run dflt C (map mabs regs) ops with
    | Ok rs', Ok ts' =>
        map mabs rs' = ts' /\ Forall m_wf rs' /\ map (@m_rows T) rs' = map (@length _) ts'
    | Panic a, Panic b => a = b
    | _, _ => False
    end.
  Proof.
    induction ops as [|o ops IH]; intros k regs Hwf; simpl.
    - repeat split; auto. rewrite map_map. apply map_ext_in. intros m Hm.
      rewrite Forall_forall in Hwf. destruct (Hwf m Hm) as [_ [H _]].
      unfold m_rows, DenseReg.mabs. rewrite abs_length. auto.
    - pose proof (rs_step_refines (pads k) regs o Hwf) as Hs.
      destruct (rs_step dflt C S (pads k) regs o) as [rs'| | |];
        destruct (rt_step dflt C (map mabs regs) o) as [ts'| | |]; simpl; try contradiction; auto.
      destruct Hs as [H1 H2]. subst ts'. apply IH; auto.
  Qed.

  (* --- the observers that read different fields agree --- *)

  Lemma m_rows_abs m : m_wf m -> m_rows m = length (mabs m).
  Proof. intros [_ [H _]]. unfold m_rows, DenseReg.mabs. rewrite abs_length. auto. Qed.

  Lemma m_ravel_whole m : m_wf m -> m_ravel S m = ravel (sd m).
  Proof.
    intros [H1 [H2 _]]. unfold m_ravel. rewrite H2.
    rewrite <- (ravel_length C S HCS) by auto. apply firstn_all.
  Qed.

  Variable eqT : T -> T -> bool.

  Lemma m_eqb_abs a b :
    m_wf a -> m_wf b -> m_eqb eqT a b = table_eqb eqT (mabs a) (mabs b).
  Proof.
    intros [_ [Ha _]] [_ [Hb _]]. unfold m_eqb, DenseReg.mabs.
    rewrite (s_eqb_abs eqT).
    destruct (table_eqb eqT (abs (sd a)) (abs (sd b))) eqn:E; simpl; auto.
    apply table_eqb_length in E. rewrite !abs_length in E.
    apply Nat.eqb_eq. lia.
  Qed.

End DenseRegProofs.

(* --- double-ended iteration continued past exhaustion --- *)

Lemma take_mixed_o_nil {T} (pat : list bool) :
  @take_mixed_o T pat [] = repeat None (length pat).
Proof. induction pat as [|[|] p IH]; simpl; auto; f_equal; auto. Qed.

Lemma take_mixed_o_spec {T} (pat : list bool) : forall t : @table T,
  take_mixed_o pat t =
    map Some (take_mixed (firstn (length t) pat) t) ++ repeat None (length pat - length t).
Proof.
  induction pat as [|b p IH]; intros t.
  - simpl. rewrite firstn_nil. simpl. auto.
  - destruct b.
    + destruct t as [|x r].
      * rewrite take_mixed_o_nil. simpl. auto.
      * simpl. f_equal. apply IH.
    + destruct (rev t) as [|x r] eqn:E.
      * assert (t = []) as ->.
        { destruct t; auto. simpl in E. apply (f_equal (@length _)) in E.
          rewrite app_length in E. simpl in E. lia. }
        rewrite take_mixed_o_nil. simpl. auto.
      * assert (Ht : t = rev r ++ [x]).
        { rewrite <- (rev_involutive t), E. reflexivity. }
        assert (Hl : length t = Datatypes.S (length r)).
        { rewrite Ht, app_length, rev_length. simpl. lia. }
        rewrite Hl. simpl. rewrite E. simpl. f_equal.
        rewrite IH. rewrite rev_length. auto.
Qed.
