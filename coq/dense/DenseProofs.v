(* Proofs about the DenseMatrix model: layout arithmetic, refinement of the
   storage level (rows with alignment padding, flat ravel view) to the logical
   table, for every operation and every operation sequence. *)
From Coq Require Import List Arith Bool Lia Permutation.
From LMBase Require Import Res ListX.
From LMDense Require Import DenseModel.
Import ListNotations.

(* ---------- layout arithmetic ---------- *)

Lemma row_bytes_mod size C align : 0 < align -> row_bytes size C align mod align = 0.
Proof. intros H; unfold row_bytes. apply Nat.mod_mul; lia. Qed.

Lemma row_bytes_ge size C align : 0 < align -> C * size <= row_bytes size C align.
Proof.
  intros H; unfold row_bytes.
  pose proof (Nat.div_mod (C * size + (align - 1)) align ltac:(lia)) as E.
  pose proof (Nat.mod_upper_bound (C * size + (align - 1)) align ltac:(lia)) as B.
  nia.
Qed.

Lemma row_bytes_minimal size C align :
  0 < align -> row_bytes size C align < C * size + align.
Proof.
  intros H; unfold row_bytes.
  pose proof (Nat.div_mod (C * size + (align - 1)) align ltac:(lia)) as E.
  nia.
Qed.

(* size_of::<T>() divides the alignment for the element types used (1,2,4,8 | 32 or 16) *)
Lemma stride_bytes size C align :
  0 < size -> 0 < align -> align mod size = 0 ->
  stride size C align * size = row_bytes size C align.
Proof.
  intros Hs Ha Hd; unfold stride.
  assert (Hm : row_bytes size C align mod size = 0).
  { unfold row_bytes.
    apply Nat.mod_divides in Hd; try lia. destruct Hd as [k Hk].
    rewrite Hk. rewrite (Nat.mul_comm size k), Nat.mul_assoc.
    apply Nat.mod_mul; lia. }
  pose proof (Nat.div_mod (row_bytes size C align) size ltac:(lia)) as E.
  rewrite Hm in E. lia.
Qed.

Lemma stride_ge size C align :
  0 < size -> 0 < align -> C <= stride size C align.
Proof.
  intros Hs Ha; unfold stride.
  apply Nat.div_le_lower_bound; try lia.
  pose proof (row_bytes_ge size C align Ha). lia.
Qed.

Lemma stride_mod_align size C align :
  0 < size -> 0 < align -> align mod size = 0 ->
  (stride size C align * size) mod align = 0.
Proof. intros; rewrite stride_bytes; auto using row_bytes_mod. Qed.

Lemma row_addr_aligned base size C align r :
  0 < align -> base mod align = 0 -> row_addr base size C align r mod align = 0.
Proof.
  intros Ha Hb; unfold row_addr.
  rewrite Nat.add_mod by lia. rewrite Hb.
  rewrite Nat.mul_mod by lia. rewrite row_bytes_mod by lia.
  rewrite Nat.mul_0_r. rewrite Nat.mod_0_l by lia. simpl. apply Nat.mod_0_l; lia.
Qed.

Lemma rows_disjoint base size C align r r' :
  0 < align -> r < r' ->
  row_addr base size C align r + C * size <= row_addr base size C align r'.
Proof.
  intros Ha Hr; unfold row_addr.
  pose proof (row_bytes_ge size C align Ha). nia.
Qed.

(* ---------- generic list facts ---------- *)

Lemma map_upd {A B} (f : A -> B) n v (l : list A) : map f (upd n v l) = upd n (f v) (map f l).
Proof. revert n; induction l as [|h t IH]; intros [|n]; simpl; auto. f_equal; auto. Qed.

Lemma map_snd_combine {A B} (l1 : list A) (l2 : list B) :
  length l1 = length l2 -> map snd (combine l1 l2) = l2.
Proof.
  revert l2; induction l1 as [|a l1 IH]; intros [|b l2] H; simpl in *; try discriminate; auto.
  f_equal; auto.
Qed.

Lemma map_fst_combine {A B} (l1 : list A) (l2 : list B) :
  length l1 = length l2 -> map fst (combine l1 l2) = l1.
Proof.
  revert l2; induction l1 as [|a l1 IH]; intros [|b l2] H; simpl in *; try discriminate; auto.
  f_equal; auto.
Qed.

(* double-ended iteration hands out every row exactly once, whatever the interleaving
   of next() and next_back(); all-front is the row order, all-back its reverse *)
Lemma take_mixed_perm {T} (pat : list bool) : forall t : @table T,
  length pat = length t -> Permutation (take_mixed pat t) t.
Proof.
  induction pat as [|b p IH]; intros t H.
  - destruct t; simpl in *; try discriminate. constructor.
  - destruct b; simpl.
    + destruct t as [|x r]; simpl in *; try discriminate.
      constructor. apply IH. lia.
    + destruct (rev t) as [|x r] eqn:E.
      * destruct t; simpl in *; try discriminate.
        apply (f_equal (@length _)) in E. rewrite app_length in E. simpl in E. lia.
      * assert (Ht : t = rev r ++ [x]).
        { rewrite <- (rev_involutive t), E. reflexivity. }
        subst t. rewrite app_length in H. simpl in H.
        eapply perm_trans; [| apply Permutation_cons_append].
        constructor. apply IH. rewrite rev_length in *. lia.
Qed.

Lemma take_mixed_front {T} : forall t : @table T, take_mixed (repeat true (length t)) t = t.
Proof. induction t; simpl; auto. f_equal; auto. Qed.

Lemma take_mixed_back {T} : forall n (t : @table T), n = length t ->
  take_mixed (repeat false n) t = rev t.
Proof.
  induction n as [|n IH]; intros t H.
  - destruct t; simpl in *; try discriminate; auto.
  - simpl. destruct (rev t) as [|x r] eqn:E.
    + destruct t; simpl in *; try discriminate.
      apply (f_equal (@length _)) in E. rewrite app_length in E. simpl in E. lia.
    + f_equal. rewrite IH.
      * apply rev_involutive.
      * apply (f_equal (@length _)) in E. rewrite rev_length in *. simpl in E. lia.
Qed.

Section DenseProofs.
  Context {T : Type}.
  Variable dflt : T.
  Variable C S : nat.
  Hypothesis HCS : C <= S.

  Notation srow_wf := (@srow_wf T C S).
  Notation s_wf := (@s_wf T C S).
  Notation abs := (@abs T).
  Notation ravel := (@ravel T).
  Implicit Types (pad : nat -> T) (st : @storage T) (v : T).

  Lemma padrow_length pad r : length (padrow C S pad r) = S - C.
  Proof. unfold padrow; rewrite map_length, seq_length; auto. Qed.

  Lemma s_fresh_wf pad r : srow_wf (s_fresh dflt C S pad r).
  Proof. split; simpl; [apply repeat_length | apply padrow_length]. Qed.

  (* --- ravel / unravel --- *)

  Lemma srow_block_length r : srow_wf r -> length (ra r ++ rp r) = S.
  Proof. intros [Ha Hp]; rewrite app_length; lia. Qed.

  Lemma ravel_length st : s_wf st -> length (ravel st) = length st * S.
  Proof.
    induction 1 as [|x st Hx Hst IH]; simpl; auto.
    unfold DenseModel.ravel in *; simpl. rewrite app_length, IH, srow_block_length; auto.
  Qed.

  Lemma ravel_index st r c d :
    s_wf st -> r < length st -> c < C ->
    nth (r * S + c) (ravel st) d = nth c (ra (nth r st srow0)) d.
  Proof.
    intros Hwf; revert r; induction Hwf as [|x st Hx Hst IH]; intros r Hr Hc; simpl in Hr; try lia.
    unfold DenseModel.ravel; simpl. fold (ravel st).
    destruct Hx as [Ha Hp].
    destruct r as [|r].
    - simpl. rewrite app_nth1 by (rewrite app_length; lia). rewrite app_nth1 by lia. auto.
    - rewrite app_nth2 by (rewrite app_length; simpl; lia).
      rewrite app_length, Ha, Hp.
      replace (Datatypes.S r * S + c - (C + (S - C))) with (r * S + c) by (simpl; lia).
      simpl. apply IH; auto; lia.
  Qed.

  Lemma unravel_ravel st : s_wf st -> unravel C S (length st) (ravel st) = st.
  Proof.
    induction 1 as [|x st Hx Hst IH]; simpl; auto.
    unfold DenseModel.ravel; simpl. fold (ravel st).
    destruct Hx as [Ha Hp].
    destruct x as [a p]; simpl in *.
    f_equal.
    - f_equal.
      + rewrite <- app_assoc. apply firstn_app_exact; auto.
      + rewrite <- app_assoc. rewrite (skipn_app_exact a) by auto.
        apply firstn_app_exact; auto.
    - rewrite (skipn_app_exact (a ++ p)) by (rewrite app_length; lia). exact IH.
  Qed.

  Lemma unravel_repeat v n :
    unravel C S n (repeat v (n * S)) = repeat {| ra := repeat v C; rp := repeat v (S - C) |} n.
  Proof.
    induction n as [|n IH]; simpl; auto.
    f_equal.
    - f_equal.
      + rewrite firstn_repeat. f_equal. lia.
      + rewrite skipn_repeat, firstn_repeat. f_equal. nia.
    - rewrite skipn_repeat. replace (S + n * S - S) with (n * S) by lia. exact IH.
  Qed.

  Lemma s_fill_repeat st v :
    s_wf st ->
    s_fill C S st v = repeat {| ra := repeat v C; rp := repeat v (S - C) |} (length st).
  Proof.
    intros Hwf; unfold s_fill.
    rewrite (map_const_repeat (fun _ => v) v) by auto.
    rewrite ravel_length by auto. apply unravel_repeat.
  Qed.

  (* fill() overwrites every storage cell, padding included *)
  Lemma s_fill_all st v x : s_wf st -> In x (ravel (s_fill C S st v)) -> x = v.
  Proof.
    intros Hwf. rewrite s_fill_repeat by auto.
    generalize (length st) as n. induction n as [|n IH]; simpl; [tauto|].
    unfold DenseModel.ravel; simpl. fold (ravel (repeat {| ra := repeat v C; rp := repeat v (S - C) |} n)).
    rewrite !in_app_iff. intros [[H|H]|H]; auto; eapply repeat_spec; eauto.
  Qed.

  (* --- well-formedness is preserved --- *)

  Lemma s_new_wf pad rows : s_wf (s_new dflt C S pad rows).
  Proof.
    unfold s_new, DenseModel.s_wf. apply Forall_forall. intros x Hx.
    apply in_map_iff in Hx. destruct Hx as [r [<- _]]. apply s_fresh_wf.
  Qed.

  Lemma s_wf_in st x : s_wf st -> In x st -> srow_wf x.
  Proof. intros H Hin. unfold DenseModel.s_wf in H. rewrite Forall_forall in H. auto. Qed.

  Lemma s_map_col_wf st c v :
    s_wf st -> s_wf (map (fun r => {| ra := upd c v (ra r); rp := rp r |}) st).
  Proof.
    intros Hwf. apply Forall_forall. intros y Hy. apply in_map_iff in Hy.
    destruct Hy as [z [<- Hz]]. destruct (s_wf_in st z Hwf Hz) as [Ha Hp].
    split; simpl; auto. rewrite upd_length; auto.
  Qed.

  Lemma s_step_wf pad st o st' :
    s_wf st -> s_step dflt C S pad st o = Ok st' -> s_wf st'.
  Proof.
    intros Hwf; destruct o; simpl; intros H.
    - inversion H; subst; apply s_new_wf.
    - inversion H; subst; apply s_new_wf.
    - inversion H; subst. unfold s_resize. apply Forall_app; split.
      + apply Forall_firstn; auto.
      + apply Forall_forall. intros x Hx. apply in_map_iff in Hx.
        destruct Hx as [r [<- _]]. apply s_fresh_wf.
    - inversion H; subst. rewrite s_fill_repeat by auto.
      apply Forall_repeat. split; simpl; apply repeat_length.
    - unfold s_set in H. destruct ((r <? length st) && (c <? C)) eqn:E; inversion H; subst.
      apply andb_true_iff in E. destruct E as [Er Ec]. apply Nat.ltb_lt in Er.
      apply Forall_upd; auto.
      assert (Hn : srow_wf (nth r st srow0)).
      { apply (s_wf_in st); auto. apply nth_In; auto. }
      destruct Hn as [Ha Hp]. split; simpl; auto. rewrite upd_length; auto.
    - unfold s_set in H. destruct ((r <? length st) && (c <? C)) eqn:E; inversion H; subst.
      apply andb_true_iff in E. destruct E as [Er Ec]. apply Nat.ltb_lt in Er.
      apply Forall_upd; auto.
      assert (Hn : srow_wf (nth r st srow0)).
      { apply (s_wf_in st); auto. apply nth_In; auto. }
      destruct Hn as [Ha Hp]. split; simpl; auto. rewrite upd_length; auto.
    - unfold s_from_rows in H.
      destruct (forallb (fun r => length r =? C) rows) eqn:E; inversion H; subst.
      apply Forall_forall. intros x Hx. apply in_map_iff in Hx.
      destruct Hx as [[i row] [<- Hin]]. split; simpl; [|apply padrow_length].
      apply in_combine_r in Hin. rewrite forallb_forall in E.
      apply Nat.eqb_eq. apply E; auto.
    - inversion H; subst. unfold s_clone. apply Forall_forall. intros x Hx.
      apply in_map_iff in Hx. destruct Hx as [[i row] [<- Hin]]. split; simpl; [|apply padrow_length].
      apply in_combine_r in Hin. apply (s_wf_in st row Hwf Hin).
    - unfold s_iter_mut_col in H. destruct st as [|x st0]; [inversion H; subst; constructor|].
      destruct (c <? C); inversion H; subst.
      apply (s_map_col_wf (x :: st0)); auto.
  Qed.

  (* --- refinement: every storage-level step is the table-level step --- *)

  Lemma abs_length st : length (abs st) = length st.
  Proof. apply map_length. Qed.

  Lemma abs_new pad rows : abs (s_new dflt C S pad rows) = t_new dflt C rows.
  Proof.
    unfold DenseModel.abs, s_new, t_new. rewrite map_map. simpl.
    rewrite (map_const_repeat _ (repeat dflt C)) by auto. rewrite seq_length; auto.
  Qed.

  Lemma abs_step pad st o :
    s_wf st ->
    match s_step dflt C S pad st o, t_step dflt C (abs st) o with
    | Ok st', Ok t' => abs st' = t'
    | Panic a, Panic b => a = b
    | _, _ => False
    end.
  Proof.
    intros Hwf; destruct o; simpl.
    - apply abs_new.
    - apply abs_new.
    - unfold s_resize, t_resize, DenseModel.abs. rewrite map_app, firstn_map, map_map, map_length.
      simpl. f_equal. rewrite (map_const_repeat _ (repeat dflt C)) by auto.
      rewrite seq_length; auto.
    - rewrite s_fill_repeat by auto. unfold t_fill, DenseModel.abs.
      rewrite map_map. rewrite (map_const_repeat (fun _ : srow => repeat v C) (repeat v C) st) by auto.
      generalize (length st) as n. induction n; simpl; auto. f_equal; auto.
    - unfold s_set, t_set. rewrite abs_length.
      destruct ((r <? length st) && (c <? C)); auto.
      unfold DenseModel.abs. rewrite map_upd. simpl. f_equal. f_equal.
      change (@nil T) with (ra (@srow0 T)). rewrite map_nth. auto.
    - unfold s_set, t_set. rewrite abs_length.
      destruct ((r <? length st) && (c <? C)); auto.
      unfold DenseModel.abs. rewrite map_upd. simpl. f_equal. f_equal.
      change (@nil T) with (ra (@srow0 T)). rewrite map_nth. auto.
    - unfold s_from_rows, t_from_rows.
      destruct (forallb (fun r => length r =? C) rows); auto.
      unfold DenseModel.abs. rewrite map_map. simpl.
      apply map_snd_combine. apply seq_length.
    - unfold s_clone, DenseModel.abs. rewrite map_map. simpl.
      rewrite <- (map_map snd ra). rewrite map_snd_combine by apply seq_length. auto.
    - unfold s_iter_mut_col, t_iter_mut_col.
      destruct st as [|x st0]; simpl; auto.
      destruct (c <? C); auto. simpl. f_equal. unfold DenseModel.abs.
      rewrite !map_map. simpl. auto.
  Qed.

  (* --- every operation sequence: by induction on the op list --- *)

  Fixpoint s_run_pads (pads : nat -> nat -> T) (k : nat) (st : storage) (ops : list (op T))
    : res storage :=
    match ops with
    | [] => Ok st
    | o :: rest => rbind (s_step dflt C S (pads k) st o)
                         (fun st' => s_run_pads pads (k + 1) st' rest)
    end.

  Lemma s_run_refines pads ops : forall k st,
    s_wf st ->
    match s_run_pads pads k st ops, t_run dflt C (abs st) ops with
    | Ok st', Ok t' => abs st' = t' /\ s_wf st'
    | Panic a, Panic b => a = b
    | _, _ => False
    end.
  Proof.
    induction ops as [|o ops IH]; intros k st Hwf; simpl; auto.
    pose proof (abs_step (pads k) st o Hwf) as Hs.
    pose proof (s_step_wf (pads k) st o) as Hw.
    destruct (s_step dflt C S (pads k) st o) as [st'| | |] eqn:E1;
      destruct (t_step dflt C (abs st) o) as [t'| | |] eqn:E2; simpl; try contradiction; auto.
    subst t'. apply IH. eapply Hw; eauto.
  Qed.

  (* --- consequences at the logical level --- *)

  Lemma t_resize_rows t rows : t_rows (t_resize dflt C t rows) = rows.
  Proof.
    unfold t_rows, t_resize. rewrite app_length, firstn_length, repeat_length. lia.
  Qed.

  Lemma t_resize_keeps t rows r :
    r < rows -> r < length t -> nth r (t_resize dflt C t rows) [] = nth r t [].
  Proof.
    intros H1 H2; unfold t_resize.
    rewrite app_nth1 by (rewrite firstn_length; lia).
    rewrite <- (firstn_skipn rows t) at 2.
    rewrite app_nth1 by (rewrite firstn_length; lia). auto.
  Qed.

  Lemma t_resize_new t rows r :
    length t <= r -> r < rows -> nth r (t_resize dflt C t rows) [] = repeat dflt C.
  Proof.
    intros H1 H2; unfold t_resize.
    rewrite app_nth2 by (rewrite firstn_length; lia).
    rewrite firstn_length. apply nth_repeat_lt. lia.
  Qed.

  Definition table_wf (t : @table T) : Prop := Forall (fun r => length r = C) t.

  Lemma abs_wf st : s_wf st -> table_wf (abs st).
  Proof.
    intros H. unfold table_wf, DenseModel.abs. apply Forall_forall. intros x Hx.
    apply in_map_iff in Hx. destruct Hx as [r [<- Hr]].
    apply (s_wf_in st r H Hr).
  Qed.

  (* equality and clone depend on the logical cells only *)
  Variable eqT : T -> T -> bool.

  Lemma s_eqb_abs a b : s_eqb eqT a b = table_eqb eqT (abs a) (abs b).
  Proof.
    revert b; induction a as [|x a IH]; intros [|y b]; simpl; auto. rewrite IH; auto.
  Qed.

  Lemma abs_clone pad st : abs (s_clone C S pad st) = abs st.
  Proof.
    unfold s_clone, DenseModel.abs. rewrite map_map. simpl.
    rewrite <- (map_map snd ra). rewrite map_snd_combine by apply seq_length. auto.
  Qed.

  Lemma list_eqb_refl (Hrefl : forall x, eqT x x = true) l : list_eqb eqT l l = true.
  Proof. induction l; simpl; auto. rewrite Hrefl, IHl; auto. Qed.

  Lemma table_eqb_refl (Hrefl : forall x, eqT x x = true) t : table_eqb eqT t t = true.
  Proof. induction t; simpl; auto. rewrite list_eqb_refl, IHt; auto. Qed.

  Lemma clone_eq (Hrefl : forall x, eqT x x = true) pad st :
    s_eqb eqT (s_clone C S pad st) st = true.
  Proof. rewrite s_eqb_abs, abs_clone. apply table_eqb_refl; auto. Qed.

End DenseProofs.
