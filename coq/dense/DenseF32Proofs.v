(* f32 `==` on cell codes is a partial equivalence (symmetric, transitive), not reflexive
   (NaN) and coarser than identity (0.0 == -0.0); it agrees with the IEEE-754 comparison of
   LMBase.IEEE (Flocq binary32) on the decoded values for a grid of representative codes. *)
From Coq Require Import ZArith Bool List Lia.
From LMBase Require Import IEEE.
From LMDense Require Import DenseF32.
Import ListNotations.
Local Open Scope Z_scope.

Lemma f32c_eqb_sym a b : f32c_eqb a b = f32c_eqb b a.
Proof.
  unfold f32c_eqb. rewrite (orb_comm (f32c_is_nan a)), (andb_comm (f32c_is_zero a)), (Z.eqb_sym a b).
  reflexivity.
Qed.

Lemma f32c_eqb_trans a b c : f32c_eqb a b = true -> f32c_eqb b c = true -> f32c_eqb a c = true.
Proof.
  unfold f32c_eqb. intros H1 H2.
  destruct (f32c_is_nan a) eqn:Na; [discriminate|].
  destruct (f32c_is_nan b) eqn:Nb; [discriminate|].
  destruct (f32c_is_nan c) eqn:Nc; [discriminate|]. cbn [orb] in *.
  destruct (f32c_is_zero a) eqn:Za; destruct (f32c_is_zero b) eqn:Zb; destruct (f32c_is_zero c) eqn:Zc;
    cbn [andb] in *; try reflexivity;
    try (apply Z.eqb_eq in H1); try (apply Z.eqb_eq in H2); subst; try congruence;
    try (apply Z.eqb_refl).
Qed.

(* not reflexive: the quiet NaN 0x7fc00000; not identity: 0.0 and -0.0 *)
Lemma f32c_eqb_nan_irrefl : f32c_eqb (F32_BASE + 2143289344) (F32_BASE + 2143289344) = false.
Proof. reflexivity. Qed.

Lemma f32c_eqb_zeros : f32c_eqb 0 (F32_BASE + 2147483648) = true /\ 0 <> F32_BASE + 2147483648.
Proof. split; [reflexivity|discriminate]. Qed.

(* reflexive exactly off the NaN codes *)
Lemma f32c_eqb_refl_iff a : f32c_eqb a a = true <-> f32c_is_nan a = false.
Proof.
  unfold f32c_eqb. destruct (f32c_is_nan a); cbn [orb]; split; intros H; try discriminate; auto.
  destruct (f32c_is_zero a); cbn [andb]; auto. apply Z.eqb_refl.
Qed.

(* decoding of a code into a binary32 value of LMBase.IEEE *)
Definition f32c_decode (c : Z) : F32.t :=
  match f32c_bits c with Some b => F32.of_bits b | None => F32.of_Z c end.

Definition f32c_grid : list Z :=
  [0; 1; -1; 2; 77; 16777216; -16777216; F32_BASE + 2147483648; F32_BASE + 2143289344;
   F32_BASE + 4290772992; F32_BASE + 2143289345; F32_BASE + 2139095040; F32_BASE + 4286578688;
   F32_BASE + 1056964608; F32_BASE + 1; F32_BASE + 2147483649].

Lemma f32c_eqb_agrees_with_ieee_on_grid :
  forallb (fun a => forallb (fun b => Bool.eqb (f32c_eqb a b) (F32.eq (f32c_decode a) (f32c_decode b)))
                            f32c_grid) f32c_grid = true.
Proof. vm_compute. reflexivity. Qed.
