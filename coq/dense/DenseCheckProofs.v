(* The extracted checker check_C19 decides exactly the specification relation
   trace_ok (DenseCheck.v): sound (accepts only traces of the table-level register
   file) and complete (accepts every such trace). *)
From Coq Require Import List Arith Bool Lia.
From LMBase Require Import Res ListX.
From LMDense Require Import DenseModel DenseProofs DenseReg DenseRegProofs DenseCheck.
Import ListNotations.

Lemma leqb_spec {A} (e : A -> A -> bool) :
  (forall x y, e x y = true <-> x = y) -> forall a b, leqb e a b = true <-> a = b.
Proof.
  intros He. induction a as [|x a IH]; intros [|y b]; simpl; split; intros H;
    try discriminate; auto.
  - apply andb_true_iff in H. destruct H as [H1 H2]. apply He in H1. apply IH in H2. congruence.
  - inversion H; subst. apply andb_true_iff. split; [apply He | apply IH]; auto.
Qed.

Lemma oeqb_spec {A} (e : A -> A -> bool) :
  (forall x y, e x y = true <-> x = y) -> forall a b, oeqb e a b = true <-> a = b.
Proof.
  intros He [x|] [y|]; simpl; split; intros H; try discriminate; auto.
  - apply He in H. congruence.
  - inversion H; subst. apply He. auto.
Qed.

Lemma forall2b_spec {A B} (p : A -> B -> bool) (P : A -> B -> Prop) :
  (forall a b, p a b = true <-> P a b) ->
  forall l1 l2, forall2b p l1 l2 = true <-> Forall2 P l1 l2.
Proof.
  intros Hp. induction l1 as [|x l1 IH]; intros [|y l2]; simpl; split; intros H;
    try discriminate; try (inversion H; fail); auto.
  - apply andb_true_iff in H. destruct H as [H1 H2]. constructor; [apply Hp | apply IH]; auto.
  - inversion H; subst. apply andb_true_iff. split; [apply Hp | apply IH]; auto.
Qed.

Lemma eqb_iff (b c : bool) (P : Prop) :
  (c = true <-> P) -> (Bool.eqb b c = true <-> (b = true <-> P)).
Proof.
  intros [H1 H2]. destruct b, c; simpl.
  - split; intros K; [split; auto | reflexivity].
  - split; intros K; [discriminate | apply H2, K; reflexivity].
  - split; intros K; [discriminate | apply K, H1; reflexivity].
  - split; intros K; [split; [discriminate | auto] | reflexivity].
Qed.

Lemma eqb_negb_iff (b c : bool) (P : Prop) :
  (c = true <-> P) -> (Bool.eqb b (negb c) = true <-> (b = true <-> ~ P)).
Proof.
  intros [H1 H2]. destruct b, c; simpl.
  - split; intros K; [discriminate |]. exfalso. apply K; auto.
  - split; intros K; [| reflexivity]. split; auto. intros _ p. apply H2 in p. discriminate.
  - split; intros K; [| reflexivity]. split; [discriminate |]. intros np. exfalso. apply np; auto.
  - split; intros K; [discriminate |]. apply K. intros p. apply H2 in p. discriminate.
Qed.

Lemma list_prod_map {A B} (f : A -> B) (a b : list A) :
  list_prod (map f a) (map f b) = map (fun p => (f (fst p), f (snd p))) (list_prod a b).
Proof.
  induction a as [|x a IH]; simpl; auto.
  rewrite map_app, IH. f_equal. rewrite !map_map. reflexivity.
Qed.

Lemma Forall2_map_in {A B D} (P : B -> D -> Prop) (f : A -> B) (g : A -> D) (l : list A) :
  (forall x, In x l -> P (f x) (g x)) -> Forall2 P (map f l) (map g l).
Proof.
  induction l as [|x l IH]; intros H; simpl; constructor.
  - apply H. left; auto.
  - apply IH. intros y Hy. apply H. right; auto.
Qed.

Section CheckProofs.
  Context {T : Type}.
  Variable dflt : T.
  Variable C S : nat.
  Variable eqT : T -> T -> bool.
  Hypothesis eqT_spec : forall x y, eqT x y = true <-> x = y.
  Variable pat : list bool.

  Lemma teqb_spec (a b : @table T) : teqb eqT a b = true <-> a = b.
  Proof. apply leqb_spec. apply leqb_spec. exact eqT_spec. Qed.

  Lemma mixeqb_spec (a b : list (option (list T))) : mixeqb eqT a b = true <-> a = b.
  Proof. apply leqb_spec. apply oeqb_spec. apply leqb_spec. exact eqT_spec. Qed.

  Lemma check_mobs_spec t o : check_mobs S eqT t o = true <-> mobs_ok S t o.
  Proof.
    unfold check_mobs, mobs_ok. rewrite !andb_true_iff, !Nat.eqb_eq, teqb_spec. tauto.
  Qed.

  Lemma check_eq_spec p b : check_eq eqT p b = true <-> eq_ok p b.
  Proof. unfold check_eq, eq_ok. apply eqb_iff. apply teqb_spec. Qed.

  Lemma check_ne_spec p b : check_ne eqT p b = true <-> ne_ok p b.
  Proof. unfold check_ne, ne_ok. apply eqb_negb_iff. apply teqb_spec. Qed.

  Lemma check_robs_spec regs o : check_robs S eqT regs o = true <-> robs_ok S regs o.
  Proof.
    unfold check_robs, robs_ok. rewrite !andb_true_iff.
    rewrite (forall2b_spec _ _ check_mobs_spec).
    rewrite (forall2b_spec _ _ check_eq_spec).
    rewrite (forall2b_spec _ _ check_ne_spec). tauto.
  Qed.

  Lemma is_nil_spec {A} (l : list A) : is_nil l = true <-> l = [].
  Proof. destruct l; simpl; split; intros H; try discriminate; auto. Qed.

  Lemma check_fobs_spec t f : check_fobs C eqT pat t f = true <-> fobs_ok C pat t f.
  Proof.
    unfold check_fobs, fobs_ok. rewrite !andb_true_iff, !teqb_spec, !mixeqb_spec.
    rewrite (leqb_spec Nat.eqb Nat.eqb_eq).
    assert (E : (is_nil t || (C =? 0)) = true <-> (t = [] \/ C = 0)).
    { rewrite orb_true_iff, is_nil_spec, Nat.eqb_eq. tauto. }
    rewrite (eqb_iff _ _ _ E). tauto.
  Qed.

  (* soundness and completeness of the extracted checker *)
  Lemma check_C19_iff ops : forall regs ob fin,
    check_C19 dflt C S eqT pat regs ops ob fin = true <-> trace_ok dflt C S pat regs ops ob fin.
  Proof.
    induction ops as [|o ops IH]; intros regs ob fin; simpl.
    - split.
      + intros H. destruct ob; try discriminate. destruct fin as [f|]; try discriminate.
        constructor. apply (forall2b_spec _ _ check_fobs_spec). exact H.
      + intros H. inversion H; subst. apply (forall2b_spec _ _ check_fobs_spec). assumption.
    - split.
      + intros H. destruct (rt_step dflt C regs o) as [regs'| |site|] eqn:E; try discriminate.
        * destruct ob as [|[|x] rest]; try discriminate.
          apply andb_true_iff in H. destruct H as [H1 H2].
          eapply tr_step; eauto.
          -- apply check_robs_spec. exact H1.
          -- apply IH. exact H2.
        * destruct ob as [|[|x] [|y rest]]; try discriminate.
          destruct fin; try discriminate.
          eapply tr_panic; eauto.
      + intros H. inversion H; subst.
        * match goal with K : rt_step _ _ _ _ = Ok _ |- _ => rewrite K end.
          apply andb_true_iff. split.
          -- apply check_robs_spec. assumption.
          -- apply IH. assumption.
        * match goal with K : rt_step _ _ _ _ = Panic _ |- _ => rewrite K end. reflexivity.
  Qed.

  (* --- the struct-level model satisfies the specification: its own observers
         (rows field, data vector, ravel over rows*stride cells, derived ==) give
         observations that the property accepts, in every well-formed state --- *)
  Hypothesis HCS : C <= S.

  Lemma list_eqb_spec (a b : list T) : list_eqb eqT a b = true <-> a = b.
  Proof.
    revert b; induction a as [|x a IH]; intros [|y b]; simpl; split; intros H;
      try discriminate; auto.
    - apply andb_true_iff in H. destruct H as [H1 H2]. apply eqT_spec in H1. apply IH in H2. congruence.
    - inversion H; subst. apply andb_true_iff. split; [apply eqT_spec | apply IH]; auto.
  Qed.

  Lemma table_eqb_spec (a b : @table T) : table_eqb eqT a b = true <-> a = b.
  Proof.
    revert b; induction a as [|x a IH]; intros [|y b]; simpl; split; intros H;
      try discriminate; auto.
    - apply andb_true_iff in H. destruct H as [H1 H2]. apply list_eqb_spec in H1. apply IH in H2. congruence.
    - inversion H; subst. apply andb_true_iff. split; [apply list_eqb_spec | apply IH]; auto.
  Qed.

  Lemma m_observe1_ok m : m_wf C S m -> mobs_ok S (mabs m) (m_observe1 S eqT m).
  Proof.
    intros Hwf. unfold mobs_ok, m_observe1. simpl. repeat split; auto.
    - apply (m_rows_abs C S); auto.
    - apply andb_true_iff. split.
      + rewrite (m_ravel_whole C S HCS) by auto. destruct Hwf as [H1 [H2 _]].
        rewrite (ravel_length C S HCS) by auto. unfold m_rows. rewrite H2. apply Nat.eqb_refl.
      + rewrite (m_ravel_whole C S HCS) by auto. apply (leqb_spec eqT eqT_spec). reflexivity.
  Qed.

  Lemma m_observe_ok (regs : list (@smat T)) :
    Forall (m_wf C S) regs -> robs_ok S (map mabs regs) (m_observe S eqT regs).
  Proof.
    intros Hwf. rewrite Forall_forall in Hwf. unfold robs_ok, m_observe. simpl.
    split; [|split].
    - apply Forall2_map_in. intros m Hm. apply m_observe1_ok. auto.
    - rewrite list_prod_map. apply Forall2_map_in. intros [a b] Hp.
      apply in_prod_iff in Hp. destruct Hp as [Ha Hb]. unfold eq_ok. simpl.
      rewrite (m_eqb_abs C S HCS eqT a b) by auto. apply table_eqb_spec.
    - rewrite list_prod_map. apply Forall2_map_in. intros [a b] Hp.
      apply in_prod_iff in Hp. destruct Hp as [Ha Hb]. unfold ne_ok. simpl.
      rewrite (m_eqb_abs C S HCS eqT a b) by auto.
      rewrite negb_true_iff. rewrite <- not_true_iff_false. rewrite table_eqb_spec. tauto.
  Qed.

End CheckProofs.
