(* The extracted checker check_C19 decides exactly the specification relation
   trace_ok (DenseCheck.v): sound (accepts only traces of the table-level register
   file) and complete (accepts every such trace). *)
From Coq Require Import List Arith Bool Lia ZArith.
From LMBase Require Import Res ListX.
From LMDense Require Import DenseModel DenseProofs DenseReg DenseRegProofs DenseSteps DenseStepsProofs DenseCheck.
Import ListNotations.

Lemma leqb_spec {A} (e : A -> A -> bool) :
  (forall x y, e x y = true <-> x = y) -> forall a b, leqb e a b = true <-> a = b.
Proof.
  intros He. induction a as [|x a IH]; intros [|y b]; simpl; split; intros H;
    try discriminate; auto.
  - apply andb_true_iff in H. destruct H as [H1 H2]. apply He in H1. apply IH in H2. congruence.
  - inversion H; subst. apply andb_true_iff. split; [apply He | apply IH]; auto.
Qed.

Lemma oeqb_spec {A} (e : A -> A -> bool) :
  (forall x y, e x y = true <-> x = y) -> forall a b, oeqb e a b = true <-> a = b.
Proof.
  intros He [x|] [y|]; simpl; split; intros H; try discriminate; auto.
  - apply He in H. congruence.
  - inversion H; subst. apply He. auto.
Qed.

Lemma forall2b_spec {A B} (p : A -> B -> bool) (P : A -> B -> Prop) :
  (forall a b, p a b = true <-> P a b) ->
  forall l1 l2, forall2b p l1 l2 = true <-> Forall2 P l1 l2.
Proof.
  intros Hp. induction l1 as [|x l1 IH]; intros [|y l2]; simpl; split; intros H;
    try discriminate; try (inversion H; fail); auto.
  - apply andb_true_iff in H. destruct H as [H1 H2]. constructor; [apply Hp | apply IH]; auto.
  - inversion H; subst. apply andb_true_iff. split; [apply Hp | apply IH]; auto.
Qed.

Lemma eqb_iff (b c : bool) (P : Prop) :
  (c = true <-> P) -> (Bool.eqb b c = true <-> (b = true <-> P)).
Proof.
  intros [H1 H2]. destruct b, c; simpl.
  - split; intros K; [split; auto | reflexivity].
  - split; intros K; [discriminate | apply H2, K; reflexivity].
  - split; intros K; [discriminate | apply K, H1; reflexivity].
  - split; intros K; [split; [discriminate | auto] | reflexivity].
Qed.

Lemma eqb_negb_iff (b c : bool) (P : Prop) :
  (c = true <-> P) -> (Bool.eqb b (negb c) = true <-> (b = true <-> ~ P)).
Proof.
  intros [H1 H2]. destruct b, c; simpl.
  - split; intros K; [discriminate |]. exfalso. apply K; auto.
  - split; intros K; [| reflexivity]. split; auto. intros _ p. apply H2 in p. discriminate.
  - split; intros K; [| reflexivity]. split; [discriminate |]. intros np. exfalso. apply np; auto.
  - split; intros K; [discriminate |]. apply K. intros p. apply H2 in p. discriminate.
Qed.

Lemma list_prod_map {A B} (f : A -> B) (a b : list A) :
  list_prod (map f a) (map f b) = map (fun p => (f (fst p), f (snd p))) (list_prod a b).
Proof.
  induction a as [|x a IH]; simpl; auto.
  rewrite map_app, IH. f_equal. rewrite !map_map. reflexivity.
Qed.

Lemma Forall2_map_in {A B D} (P : B -> D -> Prop) (f : A -> B) (g : A -> D) (l : list A) :
  (forall x, In x l -> P (f x) (g x)) -> Forall2 P (map f l) (map g l).
Proof.
  induction l as [|x l IH]; intros H; simpl; constructor.
  - apply H. left; auto.
  - apply IH. intros y Hy. apply H. right; auto.
Qed.


(* deciders of relations that are not Leibniz equality (the element type's PartialEq) *)
Lemma leqb_rel {A} (e : A -> A -> bool) (R : A -> A -> Prop) :
  (forall x y, e x y = true <-> R x y) -> forall a b, leqb e a b = true <-> Forall2 R a b.
Proof.
  intros He. induction a as [|x a IH]; intros [|y b]; simpl; split; intros H;
    try discriminate; try (inversion H; fail); auto.
  - apply andb_true_iff in H. destruct H as [H1 H2]. constructor; [apply He | apply IH]; auto.
  - inversion H; subst. apply andb_true_iff. split; [apply He | apply IH]; auto.
Qed.

Lemma table_eqb_leqb {T} (e : T -> T -> bool) (a b : @table T) : table_eqb e a b = leqb (leqb e) a b.
Proof.
  revert b; induction a as [|x a IH]; intros [|y b]; simpl; auto. f_equal; [|apply IH].
  revert y; induction x as [|u x IHx]; intros [|v y]; simpl; auto. f_equal. apply IHx.
Qed.

Lemma map_some_inj {A} (a b : list A) : map Some a = map Some b -> a = b.
Proof.
  revert b; induction a as [|x a IH]; intros [|y b] H; try discriminate; auto.
  simpl in H. injection H as H1 H2. subst. f_equal. auto.
Qed.

Lemma Forall2_seq_map {B} (P : nat -> B -> Prop) (f : nat -> B) (l : list nat) :
  (forall x, In x l -> P x (f x)) -> Forall2 P l (map f l).
Proof.
  induction l as [|x l IH]; intros H; simpl; constructor.
  - apply H. left; auto.
  - apply IH. intros y Hy. apply H. right; auto.
Qed.


(* ---------- matrix == as the lifting of the element == ---------- *)
Section RelTab.
  Context {T : Type}.
  Variable eqR : T -> T -> bool.

  Lemma Forall2_eq_iff {A} (a b : list A) : Forall2 eq a b <-> a = b.
  Proof.
    split.
    - induction 1; subst; auto.
    - intros ->. induction b; constructor; auto.
  Qed.

  Lemma Forall2_iff {A} (P Q : A -> A -> Prop) :
    (forall x y, P x y <-> Q x y) -> forall a b, Forall2 P a b <-> Forall2 Q a b.
  Proof.
    intros H a b. split; induction 1; constructor; auto; apply H; auto.
  Qed.

  Lemma rel_tab_leibniz : (forall x y, eqR x y = true <-> x = y) ->
    forall a b : @table T, rel_tab eqR a b <-> a = b.
  Proof.
    intros He a b. unfold rel_tab. etransitivity; [|apply Forall2_eq_iff]. apply Forall2_iff.
    intros x y. etransitivity; [|apply Forall2_eq_iff]. apply Forall2_iff. exact He.
  Qed.

  Lemma Forall2_diag {A} (P : A -> A -> Prop) (l : list A) : Forall2 P l l <-> Forall (fun x => P x x) l.
  Proof.
    induction l as [|x l IH]; split; intros H; constructor; inversion H; subst; auto; apply IH; auto.
  Qed.

  Lemma rel_tab_refl_iff (t : @table T) :
    rel_tab eqR t t <-> Forall (Forall (fun x => eqR x x = true)) t.
  Proof.
    unfold rel_tab. rewrite Forall2_diag. split; intros H; rewrite Forall_forall in *; intros r Hr;
      specialize (H r Hr).
    - apply (proj1 (Forall2_diag (fun x y => eqR x y = true) r)). exact H.
    - apply (proj2 (Forall2_diag (fun x y => eqR x y = true) r)). exact H.
  Qed.

  Lemma Forall2_sym' {A} (P : A -> A -> Prop) : (forall x y, P x y -> P y x) ->
    forall a b, Forall2 P a b -> Forall2 P b a.
  Proof. intros H a b. induction 1; constructor; auto. Qed.

  Lemma Forall2_trans' {A} (P : A -> A -> Prop) : (forall x y z, P x y -> P y z -> P x z) ->
    forall a b c, Forall2 P a b -> Forall2 P b c -> Forall2 P a c.
  Proof.
    intros H a b c Hab. revert c. induction Hab; intros c Hbc; inversion Hbc; subst; constructor; eauto.
  Qed.

  Lemma rel_tab_sym : (forall x y, eqR x y = eqR y x) ->
    forall a b : @table T, rel_tab eqR a b -> rel_tab eqR b a.
  Proof.
    intros Hs. apply Forall2_sym'. intros x y. apply Forall2_sym'. intros u v K. rewrite Hs. exact K.
  Qed.

  Lemma rel_tab_trans : (forall x y z, eqR x y = true -> eqR y z = true -> eqR x z = true) ->
    forall a b c : @table T, rel_tab eqR a b -> rel_tab eqR b c -> rel_tab eqR a c.
  Proof. intros Ht. apply Forall2_trans'. intros x y z. apply Forall2_trans'. exact Ht. Qed.
End RelTab.

Section CheckProofs.
  Context {T : Type}.
  Variable dflt : T.
  Variable C S size align : nat.
  Variable idT eqR : T -> T -> bool.
  Hypothesis idT_spec : forall x y, idT x y = true <-> x = y.
  Variable pat : list bool.
  Variable steps : list istep.

  Lemma teqb_spec (a b : @table T) : teqb idT a b = true <-> a = b.
  Proof. apply leqb_spec. apply leqb_spec. exact idT_spec. Qed.

  Lemma mixeqb_spec (a b : list (option (list T))) : mixeqb idT a b = true <-> a = b.
  Proof. apply leqb_spec. apply oeqb_spec. apply leqb_spec. exact idT_spec. Qed.

  (* == of tables decides the lifted element relation, whatever eqR is *)
  Lemma treqb_spec (a b : @table T) : treqb eqR a b = true <-> rel_tab eqR a b.
  Proof.
    unfold treqb, rel_tab. apply leqb_rel. intros x y. apply leqb_rel. intros u v. tauto.
  Qed.

  Lemma check_addr_spec a0 r a : check_addr S size align a0 r a = true <-> addr_ok S size align a0 r a.
  Proof. unfold check_addr, addr_ok. rewrite andb_true_iff, !Z.eqb_eq. tauto. Qed.

  Lemma check_mobs_spec t o : check_mobs S size align idT t o = true <-> mobs_ok S size align t o.
  Proof.
    unfold check_mobs, mobs_ok. rewrite !andb_true_iff, !Nat.eqb_eq, teqb_spec.
    rewrite (forall2b_spec _ _ (check_addr_spec (hd 0%Z (ob_addrs o)))). tauto.
  Qed.

  Lemma check_eq_spec p b : check_eq eqR p b = true <-> eq_ok eqR p b.
  Proof. unfold check_eq, eq_ok. apply eqb_iff. apply treqb_spec. Qed.

  Lemma check_ne_spec p b : check_ne eqR p b = true <-> ne_ok eqR p b.
  Proof. unfold check_ne, ne_ok. apply eqb_negb_iff. apply treqb_spec. Qed.

  Lemma check_robs_spec regs o :
    check_robs S size align idT eqR regs o = true <-> robs_ok S size align eqR regs o.
  Proof.
    unfold check_robs, robs_ok. rewrite !andb_true_iff.
    rewrite (forall2b_spec _ _ check_mobs_spec).
    rewrite (forall2b_spec _ _ check_eq_spec).
    rewrite (forall2b_spec _ _ check_ne_spec). tauto.
  Qed.

  Lemma is_nil_spec {A} (l : list A) : is_nil l = true <-> l = [].
  Proof. destruct l; simpl; split; intros H; try discriminate; auto. Qed.

  (* the positional-iteration checker (list surgery: take_steps) decides the index-level
     specification (steps_idx / stepby_idx) *)
  Lemma check_steps_spec t o : check_steps idT steps t o = true <-> sobs_ok steps t o.
  Proof.
    clear dflt eqR C S size align pat.
    unfold check_steps, sobs_ok. cbv zeta.
    rewrite !andb_true_iff, !teqb_spec, !mixeqb_spec.
    rewrite (leqb_spec Nat.eqb Nat.eqb_eq).
    rewrite (oeqb_spec _ (leqb_spec idT idT_spec)).
    rewrite Nat.eqb_eq.
    rewrite take_steps_idx, take_steps_skip, take_steps_rev_skip, take_steps_last.
    rewrite <- (steps_lens_idx steps 0 (length t) (Nat.le_0_l _)), Nat.sub_0_r.
    assert (E1 : so_step_by o = somes (take_steps (SNext :: repeat (SNth (steps_k steps)) (length t)) t)
                 <-> map Some (so_step_by o) = map (nth_error t) (stepby_idx (steps_k steps) (Datatypes.S (length t)) 0 (length t))).
    { rewrite <- take_steps_step_by. split; [intros ->; reflexivity|apply map_some_inj]. }
    assert (E2 : so_rev_step_by o = somes (take_steps (SBack :: repeat (SNthBack (steps_k steps)) (length t)) t)
                 <-> map Some (so_rev_step_by o) = map (nth_error (rev t)) (stepby_idx (steps_k steps) (Datatypes.S (length t)) 0 (length t))).
    { rewrite <- take_steps_rev_step_by. split; [intros ->; reflexivity|apply map_some_inj]. }
    rewrite E1, E2. tauto.
  Qed.

  Lemma check_fobs_spec t f :
    check_fobs C idT eqR pat steps t f = true <-> fobs_ok C eqR pat steps t f.
  Proof.
    unfold check_fobs, fobs_ok. rewrite !andb_true_iff, !teqb_spec, !mixeqb_spec.
    rewrite (leqb_spec Nat.eqb Nat.eqb_eq).
    assert (E : (is_nil t || (C =? 0)) = true <-> (t = [] \/ C = 0)).
    { rewrite orb_true_iff, is_nil_spec, Nat.eqb_eq. tauto. }
    rewrite (eqb_iff _ _ _ E).
    rewrite !(eqb_iff _ _ _ (treqb_spec t t)), !(eqb_negb_iff _ _ _ (treqb_spec t t)).
    rewrite check_steps_spec. tauto.
  Qed.

  (* soundness and completeness of the extracted checker *)
  Lemma check_C19_iff ops : forall regs ob fin,
    check_C19 dflt C S size align idT eqR pat steps regs ops ob fin = true
    <-> trace_ok dflt C S size align eqR pat steps regs ops ob fin.
  Proof.
    induction ops as [|o ops IH]; intros regs ob fin; simpl.
    - split.
      + intros H. destruct ob; try discriminate. destruct fin as [f|]; try discriminate.
        constructor. apply (forall2b_spec _ _ check_fobs_spec). exact H.
      + intros H. inversion H; subst. apply (forall2b_spec _ _ check_fobs_spec). assumption.
    - split.
      + intros H. destruct (rt_step dflt C regs o) as [regs'| |site|] eqn:E; try discriminate.
        * destruct ob as [|[| |x] rest]; try discriminate.
          apply andb_true_iff in H. destruct H as [H1 H2].
          eapply tr_step; eauto.
          -- apply check_robs_spec. exact H1.
          -- apply IH. exact H2.
        * destruct ob as [|[| |x] [|y rest]]; try discriminate.
          destruct fin; try discriminate.
          eapply tr_panic; eauto.
      + intros H. inversion H; subst.
        * match goal with K : rt_step _ _ _ _ = Ok _ |- _ => rewrite K end.
          apply andb_true_iff. split.
          -- apply check_robs_spec. assumption.
          -- apply IH. assumption.
        * match goal with K : rt_step _ _ _ _ = Panic _ |- _ => rewrite K end. reflexivity.
  Qed.

  (* an observer panic is never accepted *)
  Lemma check_C19_broken regs ops pre rest fin :
    check_C19 dflt C S size align idT eqR pat steps regs ops (pre ++ ObsBroken :: rest) fin = false.
  Proof.
    revert regs pre. induction ops as [|o ops IH]; intros regs pre; simpl.
    - destruct pre; reflexivity.
    - destruct (rt_step dflt C regs o) as [regs'| |site|]; auto.
      + destruct pre as [|[| |x] pre]; simpl; auto. rewrite IH. apply andb_false_r.
      + destruct pre as [|[| |x] pre]; simpl; auto. destruct pre; reflexivity.
  Qed.

  (* --- the struct-level model satisfies the specification: its own observers
         (rows field, data vector, ravel over rows*stride cells, derived ==, row addresses
         derived from the buffer address with the layout rule) give observations that the
         property accepts, in every well-formed state and for every aligned buffer address --- *)
  Hypothesis Hsize : 0 < size.
  Hypothesis Halign : 0 < align.
  Hypothesis Hdiv : align mod size = 0.
  Hypothesis HS : S = stride size C align.

  Lemma HCS : C <= S.
  Proof. rewrite HS. apply stride_ge; assumption. Qed.

  Lemma row_addr_z base r :
    (base mod Z.of_nat align = 0)%Z ->
    addr_ok S size align base r (base + Z.of_nat (row_addr 0 size C align r))%Z.
  Proof.
    intros Hb. unfold addr_ok, row_addr. cbn [Nat.add]. split.
    - pose proof (row_bytes_mod size C align Halign) as Hm.
      apply Nat.mod_divides in Hm; [|lia]. destruct Hm as [q Hq]. rewrite Hq.
      replace (r * (align * q)) with (r * q * align) by lia.
      rewrite Nat2Z.inj_mul. rewrite Z_mod_plus_full. exact Hb.
    - rewrite HS, (stride_bytes size C align Hsize Halign Hdiv). rewrite Nat2Z.inj_mul. reflexivity.
  Qed.

  Lemma m_observe1_ok base m :
    (base mod Z.of_nat align = 0)%Z -> m_wf C S m ->
    mobs_ok S size align (mabs m) (m_observe1 C S size align idT base m).
  Proof.
    intros Hb Hwf. pose proof HCS as HCS'. unfold mobs_ok, m_observe1. cbn [ob_rows ob_stride ob_addrs ob_ravel ob_cells].
    split; [apply (m_rows_abs C S); auto|]. split; [auto|]. split; [|split; [|reflexivity]].
    - unfold mabs. rewrite abs_length.
      assert (Hhd : forall n, 0 < n ->
                hd 0%Z (map (fun r => (base + Z.of_nat (row_addr 0 size C align r))%Z) (seq 0 n)) = base).
      { intros [|n] Hn; [lia|]. cbn [seq map hd]. unfold row_addr. cbn. lia. }
      apply Forall2_seq_map. intros r Hr. apply in_seq in Hr.
      rewrite Hhd by lia. apply row_addr_z. exact Hb.
    - apply andb_true_iff. split.
      + rewrite (m_ravel_whole C S HCS') by auto. destruct Hwf as [H1 [H2 _]].
        rewrite (ravel_length C S HCS') by auto. unfold m_rows. rewrite H2. apply Nat.eqb_refl.
      + rewrite (m_ravel_whole C S HCS') by auto. apply (leqb_spec idT idT_spec). reflexivity.
  Qed.

  Lemma m_observe_ok (bases : list Z) (regs : list (@smat T)) :
    length bases = length regs ->
    Forall (fun b => (b mod Z.of_nat align = 0)%Z) bases ->
    Forall (m_wf C S) regs ->
    robs_ok S size align eqR (map mabs regs) (m_observe C S size align idT eqR bases regs).
  Proof.
    intros Hlen Hb Hwf. pose proof HCS as HCS'. unfold robs_ok, m_observe. cbn [ob_regs ob_eq ob_ne].
    split; [|split].
    - revert bases Hlen Hb. induction regs as [|m regs IH]; intros [|b bases] Hlen Hb;
        try discriminate; cbn [combine map]; constructor.
      + cbn [fst snd]. apply m_observe1_ok; [exact (Forall_inv Hb)|exact (Forall_inv Hwf)].
      + apply IH; [exact (Forall_inv_tail Hwf)|simpl in Hlen; lia|exact (Forall_inv_tail Hb)].
    - rewrite Forall_forall in Hwf. rewrite list_prod_map. apply Forall2_map_in. intros [a b] Hp.
      apply in_prod_iff in Hp. destruct Hp as [Ha Hb']. unfold eq_ok. cbn [fst snd].
      rewrite (m_eqb_abs C S HCS' eqR a b) by auto. rewrite table_eqb_leqb. apply treqb_spec.
    - rewrite Forall_forall in Hwf. rewrite list_prod_map. apply Forall2_map_in. intros [a b] Hp.
      apply in_prod_iff in Hp. destruct Hp as [Ha Hb']. unfold ne_ok. cbn [fst snd].
      rewrite (m_eqb_abs C S HCS' eqR a b) by auto. rewrite table_eqb_leqb.
      rewrite negb_true_iff. rewrite <- not_true_iff_false.
      pose proof (treqb_spec (mabs a) (mabs b)) as K. unfold treqb in K. tauto.
  Qed.

End CheckProofs.
