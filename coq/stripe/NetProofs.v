(* The translated AVX2 network (GenStripeNet.v) transposes a 32x32 block.

   Proof by reflection: every intrinsic is a gather with a constant index list, so
   running the network commutes with mapping a function over the lanes
   ([net_block_map]); running it once, by [vm_compute], on the matrix of
   coordinates shows which input lane ends up where ([net_coords]); any block of
   data is the image of the coordinate matrix under "look up that coordinate". *)
From Coq Require Import List Arith Bool Lia.
From LMBase Require Import Res ListX.
From LMStripe Require Import NetModel GenStripeNet.
Import ListNotations.

Section MapCommute.
  Context {A B : Type}.
  Variable f : A -> B.
  Variable d : A.

  Lemma gather_map idx v : gather (f d) idx (map f v) = map f (gather d idx v).
  Proof.
    unfold gather. rewrite map_map. apply map_ext. intros i. apply map_nth.
  Qed.

  Lemma apply_intr_map i a b :
    apply_intr (f d) i (map f a) (map f b) = map f (apply_intr d i a b).
  Proof. unfold apply_intr. rewrite <- map_app. apply gather_map. Qed.

  Lemma nth_map_nil (regs : list (list A)) i : nth i (map (map f) regs) [] = map f (nth i regs []).
  Proof. change (@nil B) with (map f []). apply map_nth. Qed.

  Lemma upd_map {X Y} (g : X -> Y) i v (l : list X) : upd i (g v) (map g l) = map g (upd i v l).
  Proof.
    revert i; induction l as [|h t IH]; intros [|i]; simpl; auto. f_equal. apply IH.
  Qed.

  Lemma net_step_map regs o :
    net_step (f d) (map (map f) regs) o = map (map f) (net_step d regs o).
  Proof.
    destruct o as [f1 f2 a b]. unfold net_step.
    rewrite !nth_map_nil, apply_intr_map, upd_map, nth_map_nil, apply_intr_map, upd_map. reflexivity.
  Qed.

  Lemma run_net_map ops : forall regs,
    run_net (f d) ops (map (map f) regs) = map (map f) (run_net d ops regs).
  Proof.
    unfold run_net. induction ops as [|o ops IH]; intros regs; simpl; [reflexivity|].
    rewrite net_step_map. apply IH.
  Qed.

  Lemma net_load_map loads (ld : nat -> list A) :
    net_load loads (fun k => map f (ld k)) = map (map f) (net_load loads ld).
  Proof.
    unfold net_load.
    assert (G : forall acc,
      fold_left (fun regs p => upd (fst p) (map f (ld (snd p))) regs) loads (map (map f) acc) =
      map (map f) (fold_left (fun regs p => upd (fst p) (ld (snd p)) regs) loads acc)).
    { induction loads as [|p t IH]; intros acc; simpl; [reflexivity|]. rewrite upd_map. apply IH. }
    rewrite <- G. reflexivity.
  Qed.

  Lemma net_store_map stores regs : forall out,
    net_store stores (map (map f) regs) (map (map f) out) = map (map f) (net_store stores regs out).
  Proof.
    unfold net_store. induction stores as [|p t IH]; intros out; simpl; [reflexivity|].
    rewrite nth_map_nil, upd_map. apply IH.
  Qed.

  Lemma net_block_map loads ops stores (ld : nat -> list A) :
    net_block (f d) loads ops stores (fun k => map f (ld k)) =
    map (map f) (net_block d loads ops stores ld).
  Proof.
    unfold net_block. rewrite net_load_map, run_net_map.
    change (repeat (@nil B) 32) with (map (map f) (repeat (@nil A) 32)).
    apply net_store_map.
  Qed.
End MapCommute.

(* net_load only looks at the vectors named by the load list *)
Lemma net_load_ext {A} loads (ld1 ld2 : nat -> list A) :
  (forall p, In p loads -> ld1 (snd p) = ld2 (snd p)) -> net_load loads ld1 = net_load loads ld2.
Proof.
  unfold net_load. generalize (repeat (@nil A) 32).
  induction loads as [|p t IH]; intros acc H; simpl; [reflexivity|].
  rewrite (H p) by (left; reflexivity). apply IH. intros q Hq. apply H. right. assumption.
Qed.

(* ---------- reflection on the coordinate matrix ---------- *)

Definition coords : list (list (option (nat * nat))) :=
  map (fun r => map (fun c => Some (r, c)) (seq 0 32)) (seq 0 32).

Definition tcoords : list (list (option (nat * nat))) :=
  map (fun r => map (fun c => Some (c, r)) (seq 0 32)) (seq 0 32).

(* out row r, lane c = input row c, lane r; no lane ever comes from the default *)
Lemma net_coords :
  net_block None net_loads net_ops net_stores (fun k => nth k coords []) = tcoords.
Proof. vm_compute. reflexivity. Qed.

Lemma net_loads_lt32 : forallb (fun p => snd p <? 32) net_loads = true.
Proof. vm_compute. reflexivity. Qed.

Lemma map_nth_seq_id {A} (l : list A) d n : length l = n -> map (fun c => nth c l d) (seq 0 n) = l.
Proof.
  intros <-. induction l as [|x t IH]; simpl; [reflexivity|].
  f_equal. rewrite <- seq_shift, map_map. apply IH.
Qed.

Lemma coords_row k : k < 32 -> nth k coords [] = map (fun c => Some (k, c)) (seq 0 32).
Proof.
  intros Hk. unfold coords.
  rewrite (nth_indep _ [] ((fun r => map (fun c => Some (r, c)) (seq 0 32)) 0))
    by (rewrite map_length, seq_length; assumption).
  rewrite (map_nth (fun r => map (fun c => Some (r, c)) (seq 0 32)) (seq 0 32) 0 k).
  rewrite seq_nth by assumption. reflexivity.
Qed.

(* The network on arbitrary contents: 32 vectors of 32 lanes in, their transpose out. *)
Lemma transpose_net_lemma (A : Type) (d : A) (ld : nat -> list A) :
  (forall k, k < 32 -> length (ld k) = 32) ->
  net_block d net_loads net_ops net_stores ld =
  map (fun r => map (fun c => nth r (ld c) d) (seq 0 32)) (seq 0 32).
Proof.
  intros Hlen.
  set (f := fun o : option (nat * nat) => match o with Some (r, c) => nth c (ld r) d | None => d end).
  assert (E : net_block d net_loads net_ops net_stores ld =
              net_block (f None) net_loads net_ops net_stores (fun k => map f (nth k coords []))).
  { unfold net_block. f_equal. f_equal. apply net_load_ext. intros p Hp.
    pose proof net_loads_lt32 as H32. rewrite forallb_forall in H32.
    specialize (H32 p Hp). apply Nat.ltb_lt in H32.
    rewrite coords_row by assumption. rewrite map_map. unfold f. cbv beta iota.
    symmetry. apply map_nth_seq_id. apply Hlen. assumption. }
  rewrite E, net_block_map, net_coords. unfold tcoords.
  rewrite map_map. apply map_ext. intros r. rewrite map_map. reflexivity.
Qed.

(* ---------- facts about the store list used by the AVX2 kernel proof ---------- *)

(* register stored last at out + k*out_stride *)
Fixpoint last_store (stores : list (nat * nat)) (k : nat) : option nat :=
  match stores with
  | [] => None
  | p :: t => match last_store t k with
              | Some x => Some x
              | None => if fst p =? k then Some (snd p) else None
              end
  end.

Lemma net_stores_lt32 : forallb (fun p => fst p <? 32) net_stores = true.
Proof. vm_compute. reflexivity. Qed.

Lemma net_stores_cover :
  forallb (fun k => match last_store net_stores k with Some _ => true | None => false end) (seq 0 32) = true.
Proof. vm_compute. reflexivity. Qed.

Lemma last_store_none stores k : (forall p, In p stores -> fst p < 32) -> 32 <= k -> last_store stores k = None.
Proof.
  induction stores as [|p t IH]; intros H Hk; simpl; [reflexivity|].
  rewrite IH; [| intros q Hq; apply H; right; assumption | assumption ].
  pose proof (H p (or_introl eq_refl)). destruct (Nat.eqb_spec (fst p) k); [lia|reflexivity].
Qed.

Section Stores.
  Context {A : Type}.
  Variable regs : list (list A).

  Definition store_at (off : nat) (stores : list (nat * nat)) (m : list (list A)) : list (list A) :=
    fold_left (fun o p => upd (off + fst p) (nth (snd p) regs []) o) stores m.

  Lemma store_at_length off stores : forall m, length (store_at off stores m) = length m.
  Proof.
    unfold store_at. induction stores as [|p t IH]; intros m; simpl; [reflexivity|].
    rewrite IH, upd_length. reflexivity.
  Qed.

  Lemma store_at_nth off stores : forall m,
    (forall p, In p stores -> off + fst p < length m) ->
    forall r, nth r (store_at off stores m) [] =
      if off <=? r then match last_store stores (r - off) with
                        | Some reg => nth reg regs []
                        | None => nth r m []
                        end
      else nth r m [].
  Proof.
    unfold store_at. induction stores as [|p t IH]; intros m H r; simpl.
    - destruct (off <=? r); reflexivity.
    - rewrite IH.
      2:{ intros q Hq. rewrite upd_length. apply H. right. assumption. }
      pose proof (H p (or_introl eq_refl)) as Hp.
      rewrite nth_upd. destruct (Nat.ltb_spec (off + fst p) (length m)) as [_|Hbad]; [|lia].
      destruct (Nat.leb_spec off r).
      + destruct (last_store t (r - off)); [reflexivity|].
        destruct (Nat.eqb_spec (off + fst p) r); destruct (Nat.eqb_spec (fst p) (r - off)); try reflexivity; lia.
      + destruct (Nat.eqb_spec (off + fst p) r); [lia|reflexivity].
  Qed.

  Lemma net_store_is_store_at stores out : net_store stores regs out = store_at 0 stores out.
  Proof. reflexivity. Qed.
End Stores.
