(* Lemmas about the generic striping model (StripeModel.v) for property C04. *)
From Coq Require Import List Arith Bool Lia Permutation.
From LMBase Require Import Res ListX.
From LMStripe Require Import StripeModel StripeSpec.
Import ListNotations.

(* ---------- index arithmetic ---------- *)

Lemma idx_mod r c R : r < R -> (c * R + r) mod R = r.
Proof.
  intros H. rewrite Nat.add_comm, Nat.mod_add by lia. apply Nat.mod_small; assumption.
Qed.

Lemma idx_div r c R : r < R -> (c * R + r) / R = c.
Proof.
  intros H. rewrite Nat.add_comm, Nat.div_add by lia. rewrite Nat.div_small by assumption. lia.
Qed.

Lemma div_mod_idx a R : 0 < R -> (a / R) * R + a mod R = a.
Proof.
  intros H. pose proof (Nat.div_mod a R ltac:(lia)) as E. lia.
Qed.

Lemma div_lt_cols a R C : a < R * C -> a / R < C.
Proof.
  intros H. apply Nat.div_lt_upper_bound; [ destruct R; simpl in *; lia | assumption ].
Qed.

Lemma idx_lt r c R C : r < R -> c < C -> c * R + r < R * C.
Proof. intros Hr Hc. nia. Qed.

Lemma seq_rows_ge C L : 0 < C -> L <= seq_rows C L * C.
Proof.
  intros HC. unfold seq_rows.
  pose proof (Nat.div_mod (L + (C - 1)) C ltac:(lia)) as E.
  pose proof (Nat.mod_upper_bound (L + (C - 1)) C ltac:(lia)) as B.
  remember ((L + (C - 1)) / C) as q. remember ((L + (C - 1)) mod C) as m. nia.
Qed.

Lemma seq_rows_lt C L : 0 < C -> 0 < L -> (seq_rows C L - 1) * C < L.
Proof.
  intros HC HL. unfold seq_rows.
  pose proof (Nat.div_mod (L + (C - 1)) C ltac:(lia)) as E.
  pose proof (Nat.mod_upper_bound (L + (C - 1)) C ltac:(lia)) as B.
  remember ((L + (C - 1)) / C) as q. remember ((L + (C - 1)) mod C) as m. nia.
Qed.

Lemma seq_rows_0 C : 0 < C -> seq_rows C 0 = 0.
Proof. intros HC. unfold seq_rows. simpl. apply Nat.div_small. lia. Qed.

Lemma seq_rows_pos C L : 0 < C -> 0 < L -> 0 < seq_rows C L.
Proof.
  intros HC HL. pose proof (seq_rows_ge C L HC). destruct (seq_rows C L); simpl in *; lia.
Qed.

Lemma seq_rows_zero_len C L : 0 < C -> seq_rows C L = 0 -> L = 0.
Proof. intros HC H. pose proof (seq_rows_ge C L HC). rewrite H in *. simpl in *. lia. Qed.

(* the other way Stripe::stripe computes the row count *)
Lemma rows_fresh_eq C L : 0 < C ->
  L / C + (if 0 <? L mod C then 1 else 0) = seq_rows C L.
Proof.
  intros HC. unfold seq_rows.
  pose proof (Nat.div_mod L C ltac:(lia)) as E.
  pose proof (Nat.mod_upper_bound L C ltac:(lia)) as B.
  destruct (Nat.ltb_spec 0 (L mod C)) as [Hp|Hz].
  - apply (Nat.div_unique _ _ _ (L mod C - 1)); lia.
  - apply (Nat.div_unique _ _ _ (C - 1)); lia.
Qed.

(* ---------- for_res ---------- *)

Lemma for_res_app {St} (l1 l2 : list nat) (body : nat -> St -> res St) st :
  for_res (l1 ++ l2) body st = rbind (for_res l1 body st) (fun st' => for_res l2 body st').
Proof.
  revert st; induction l1 as [|x t IH]; intros st; simpl.
  - reflexivity.
  - destruct (body x st); simpl; auto.
Qed.

Lemma for_res_ext {St} (l : list nat) (b1 b2 : nat -> St -> res St) st :
  (forall i st', In i l -> b1 i st' = b2 i st') -> for_res l b1 st = for_res l b2 st.
Proof.
  revert st; induction l as [|x t IH]; intros st H; simpl.
  - reflexivity.
  - rewrite (H x st) by (left; reflexivity). destruct (b2 x st); simpl; auto.
    apply IH. intros i st' Hi. apply H. right. assumption.
Qed.

(* ---------- matrices ---------- *)

Definition mset (m : matrix) (r c v : nat) : matrix := upd r (upd c v (nth r m [])) m.

Section Mat.
  Variable K C : nat.

  Lemma wf_nth m r : wf_matrix C m -> r < length m -> length (nth r m []) = C.
  Proof.
    intros H Hr. unfold wf_matrix in H. rewrite Forall_forall in H. apply H. apply nth_In. assumption.
  Qed.

  Lemma mset_length m r c v : length (mset m r c v) = length m.
  Proof. unfold mset. apply upd_length. Qed.

  Lemma mset_wf m r c v : wf_matrix C m -> wf_matrix C (mset m r c v).
  Proof.
    intros H. unfold mset, wf_matrix.
    destruct (Nat.lt_ge_cases r (length m)) as [Hr|Hr].
    - apply Forall_upd; [assumption|]. rewrite upd_length. apply wf_nth; assumption.
    - rewrite upd_out by assumption. assumption.
  Qed.

  Lemma cell_mset_same m r c v : wf_matrix C m -> r < length m -> c < C ->
    cell K (mset m r c v) r c = v.
  Proof.
    intros H Hr Hc. unfold cell, mset. rewrite nth_upd_same by assumption.
    apply nth_upd_same. rewrite (wf_nth m r); assumption.
  Qed.

  Lemma cell_mset_other m r c v r' c' : (r, c) <> (r', c') ->
    cell K (mset m r c v) r' c' = cell K m r' c'.
  Proof.
    intros Hne. unfold cell, mset.
    destruct (Nat.eq_dec r r') as [->|Hr].
    - destruct (Nat.lt_ge_cases r' (length m)) as [Hl|Hl].
      + rewrite nth_upd_same by assumption. apply nth_upd_other. congruence.
      + rewrite upd_out by assumption. reflexivity.
    - rewrite nth_upd_other by assumption. reflexivity.
  Qed.

  Lemma m_set_ok m r c v : r < length m -> c < C -> m_set C m r c v = Ok (mset m r c v).
  Proof.
    intros Hr Hc. unfold m_set.
    destruct (Nat.ltb_spec r (length m)); [|lia]. destruct (Nat.ltb_spec c C); [|lia]. reflexivity.
  Qed.

  Lemma m_get_ok m r c : r < length m -> c < C -> m_get K C m r c = Ok (cell K m r c).
  Proof.
    intros Hr Hc. unfold m_get.
    destruct (Nat.ltb_spec r (length m)); [|lia]. destruct (Nat.ltb_spec c C); [|lia]. reflexivity.
  Qed.

  Lemma row0_length : length (row0 K C) = C.
  Proof. unfold row0. apply repeat_length. Qed.

  Lemma m_resize_length m rows : length (m_resize K C m rows) = rows.
  Proof.
    unfold m_resize. rewrite app_length, firstn_length, repeat_length. lia.
  Qed.

  Lemma m_resize_wf m rows : wf_matrix C m -> wf_matrix C (m_resize K C m rows).
  Proof.
    intros H. unfold m_resize, wf_matrix. apply Forall_app. split.
    - apply Forall_firstn. assumption.
    - apply Forall_repeat. apply row0_length.
  Qed.

  Lemma m_new_wf rows : wf_matrix C (m_new K C rows).
  Proof. unfold m_new, wf_matrix. apply Forall_repeat. apply row0_length. Qed.

  Lemma m_new_length rows : length (m_new K C rows) = rows.
  Proof. unfold m_new. apply repeat_length. Qed.

  (* growing keeps the old rows and appends default rows *)
  Lemma m_resize_grow m rows : length m <= rows ->
    m_resize K C m rows = m ++ repeat (row0 K C) (rows - length m).
  Proof.
    intros H. unfold m_resize. rewrite firstn_all2 by assumption. reflexivity.
  Qed.

  Lemma cell_row0 rows r c : r < rows -> c < C -> cell K (repeat (row0 K C) rows) r c = wild K.
  Proof.
    intros Hr Hc. unfold cell. rewrite nth_repeat_lt by assumption. unfold row0.
    apply nth_repeat_lt. assumption.
  Qed.

  (* ---------- the write loops ---------- *)

  (* for i in a..a+n { data[i % rows][i / rows] = f i }: no panic, cell (r,c) with
     linear index k = c*rows + r in [a, a+n) becomes f k, the others are untouched *)
  Lemma put_loop_spec rows (f : nat -> nat) : forall n a m,
    wf_matrix C m -> length m = rows -> a + n <= rows * C ->
    exists m',
      for_res (seq a n) (fun i m0 => put_striped C rows i (f i) m0) m = Ok m' /\
      wf_matrix C m' /\ length m' = rows /\
      forall r c, r < rows -> c < C ->
        cell K m' r c = if (a <=? c * rows + r) && (c * rows + r <? a + n)
                        then f (c * rows + r) else cell K m r c.
  Proof.
    induction n as [|n IH]; intros a m Hwf Hlen Hb.
    - exists m. simpl. repeat split; auto. intros r c Hr Hc.
      destruct (Nat.leb_spec a (c * rows + r)); destruct (Nat.ltb_spec (c * rows + r) (a + 0)); simpl; auto; lia.
    - assert (Hrows : 0 < rows) by (destruct rows; simpl in *; lia).
      assert (Ha : a < rows * C) by lia.
      simpl. unfold put_striped at 1.
      destruct (Nat.eqb_spec rows 0) as [E|_]; [lia|].
      rewrite m_set_ok; [| rewrite Hlen; apply Nat.mod_upper_bound; lia | apply div_lt_cols; assumption ].
      simpl.
      destruct (IH (S a) (mset m (a mod rows) (a / rows) (f a))) as (m' & Hrun & Hwf' & Hlen' & Hcells).
      + apply mset_wf. assumption.
      + rewrite mset_length. assumption.
      + lia.
      + exists m'. repeat split; auto.
        intros r c Hr Hc. rewrite (Hcells r c Hr Hc).
        destruct (Nat.eq_dec (c * rows + r) a) as [E|Hne].
        * (* the cell written at this iteration *)
          assert (Er : a mod rows = r) by (rewrite <- E; apply idx_mod; assumption).
          assert (Ec : a / rows = c) by (rewrite <- E; apply idx_div; assumption).
          rewrite Er, Ec, E.
          destruct (Nat.leb_spec (S a) a); [lia|]. simpl.
          destruct (Nat.leb_spec a a); [|lia]. destruct (Nat.ltb_spec a (a + S n)); [|lia]. simpl.
          apply cell_mset_same; auto. lia.
        * rewrite cell_mset_other.
          2:{ intros Hq. inversion Hq as [[Hq1 Hq2]]. apply Hne.
              rewrite <- Hq1, <- Hq2. apply div_mod_idx. assumption. }
          destruct (Nat.leb_spec (S a) (c * rows + r)); destruct (Nat.leb_spec a (c * rows + r));
            destruct (Nat.ltb_spec (c * rows + r) (S a + n)); destruct (Nat.ltb_spec (c * rows + r) (a + S n));
            simpl; auto; lia.
  Qed.

  Lemma write_seq_for rows : forall s i m,
    write_seq C rows i s m =
    for_res (seq i (length s)) (fun k m0 => put_striped C rows k (nth (k - i) s (wild K)) m0) m.
  Proof.
    induction s as [|x t IH]; intros i m; simpl.
    - reflexivity.
    - rewrite Nat.sub_diag. destruct (put_striped C rows i x m); simpl; auto.
      rewrite IH. apply for_res_ext. intros k st' Hk. apply in_seq in Hk.
      replace (k - i) with (S (k - S i)) by lia. reflexivity.
  Qed.

End Mat.

(* ---------- stripe_into (generic) ---------- *)

Lemma striped_cell_value K (s : list nat) k : length s <= k -> nth k s (wild K) = wild K.
Proof. intros H. apply nth_overflow. assumption. Qed.

Lemma stripe_into_generic_spec K C (s : list nat) (old : sseq) :
  0 < C -> wf_matrix C (mat old) ->
  exists st, stripe_into_generic K C s old = Ok st /\ Striped K C s st /\ swrap st = 0.
Proof.
  intros HC Hwf. unfold stripe_into_generic, Striped.
  fold (seq_rows C (length s)).
  pose proof (seq_rows_ge C (length s) HC) as HL.
  remember (seq_rows C (length s)) as R eqn:ER. remember (length s) as L eqn:EL.
  rewrite write_seq_for with (K := K). rewrite <- EL.
  destruct (put_loop_spec K C R (fun k => nth (k - 0) s (wild K)) L 0 (m_resize K C (mat old) R))
    as (m1 & Hrun1 & Hwf1 & Hlen1 & Hc1).
  { apply m_resize_wf. assumption. }
  { apply m_resize_length. }
  { simpl. exact HL. }
  rewrite Hrun1. simpl.
  unfold fill_tail. rewrite Hlen1.
  assert (HL2 : L + (R * C - L) <= R * C) by lia.
  destruct (put_loop_spec K C R (fun _ => wild K) (R * C - L) L m1 Hwf1 Hlen1 HL2)
    as (m2 & Hrun2 & Hwf2 & Hlen2 & Hc2).
  rewrite Hrun2. simpl.
  unfold s_new. rewrite Hlen2. destruct (Nat.ltb_spec (R * C) L) as [Hbad|_]; [lia|].
  eexists. split; [reflexivity|]. split; [|reflexivity].
  simpl. repeat split; auto; try lia.
  intros r c Hr Hc. rewrite Nat.add_0_r in Hr.
  rewrite (Hc2 r c Hr Hc), (Hc1 r c Hr Hc).
  pose proof (idx_lt r c R C Hr Hc) as Hk.
  destruct (Nat.leb_spec L (c * R + r)) as [H1|H1];
    destruct (Nat.ltb_spec (c * R + r) (L + (R * C - L))) as [H2|H2]; simpl; try lia.
  - symmetry. apply striped_cell_value. lia.
  - destruct (Nat.ltb_spec (c * R + r) L) as [H3|H3]; [|lia]. simpl. rewrite Nat.sub_0_r. reflexivity.
Qed.

(* ---------- configure_wrap ---------- *)

Lemma rbind_ret {A} (x : res A) : rbind x (fun a => Ok a) = x.
Proof. destruct x; reflexivity. Qed.

Lemma cell_app K (m1 m2 : matrix) r c :
  cell K (m1 ++ m2) r c = if r <? length m1 then cell K m1 r c else cell K m2 (r - length m1) c.
Proof.
  unfold cell. destruct (Nat.ltb_spec r (length m1)).
  - rewrite app_nth1 by assumption. reflexivity.
  - rewrite app_nth2 by assumption. reflexivity.
Qed.

Lemma last_col_idx C R L n : 0 < C -> L <= R * C -> L <= (C - 1) * R + (R + n).
Proof. intros HC H. destruct C; [lia|]. simpl. rewrite Nat.sub_0_r. nia. Qed.

Section Wrap.
  Variable K C : nat.
  Hypothesis HC : 0 < C.

  Definition wrap_inner (src dst : nat) (j : nat) (m0 : matrix) : res matrix :=
    rbind (m_get K C m0 src (j + 1)) (fun v => m_set C m0 dst j v).

  Definition wrap_body (rows : nat) (i : nat) (m : matrix) : res matrix :=
    rbind (for_res (seq 0 (C - 1)) (wrap_inner i (rows + i)) m)
          (fun m1 => m_set C m1 (rows + i) (C - 1) (wild K)).

  Lemma wrap_inner_spec m src dst : wf_matrix C m -> src < length m -> dst < length m ->
    forall n, n <= C - 1 ->
    exists m', for_res (seq 0 n) (wrap_inner src dst) m = Ok m' /\
      wf_matrix C m' /\ length m' = length m /\
      forall r c, c < C ->
        cell K m' r c = if (r =? dst) && (c <? n) then cell K m src (c + 1) else cell K m r c.
  Proof.
    intros Hwf Hsrc Hdst. induction n as [|n IH]; intros Hn.
    - exists m. simpl. repeat split; auto. intros r c Hc.
      rewrite andb_false_r. reflexivity.
    - destruct (IH ltac:(lia)) as (m1 & Hrun & Hwf1 & Hlen1 & Hc1).
      rewrite seq_S, for_res_app, Hrun. simpl. rewrite rbind_ret.
      unfold wrap_inner at 1.
      rewrite m_get_ok by lia. simpl. rewrite m_set_ok by lia.
      eexists. split; [reflexivity|]. split; [apply mset_wf; assumption|].
      split; [rewrite mset_length; assumption|].
      intros r c Hc.
      rewrite (Hc1 src (n + 1)) by lia.
      replace ((src =? dst) && (n + 1 <? n)) with false.
      2:{ destruct (Nat.ltb_spec (n + 1) n); [lia|]. rewrite andb_false_r. reflexivity. }
      destruct (Nat.eq_dec r dst) as [->|Hr].
      + destruct (Nat.eq_dec c n) as [->|Hcn].
        * rewrite (cell_mset_same K C) by (auto; lia).
          rewrite Nat.eqb_refl. destruct (Nat.ltb_spec n (S n)); [|lia]. reflexivity.
        * rewrite cell_mset_other by congruence. rewrite (Hc1 dst c Hc).
          rewrite Nat.eqb_refl. simpl.
          destruct (Nat.ltb_spec c n); destruct (Nat.ltb_spec c (S n)); auto; lia.
      + rewrite cell_mset_other by congruence. rewrite (Hc1 r c Hc).
        destruct (Nat.eqb_spec r dst); [contradiction|]. reflexivity.
  Qed.

  Lemma wrap_body_spec m rows i : wf_matrix C m -> i < length m -> rows + i < length m ->
    exists m', wrap_body rows i m = Ok m' /\ wf_matrix C m' /\ length m' = length m /\
      forall r c, c < C ->
        cell K m' r c = if r =? rows + i
                        then (if c <? C - 1 then cell K m i (c + 1) else wild K)
                        else cell K m r c.
  Proof.
    intros Hwf Hi Hd.
    destruct (wrap_inner_spec m i (rows + i) Hwf Hi Hd (C - 1) (le_n _)) as (m1 & Hrun & Hwf1 & Hlen1 & Hc1).
    unfold wrap_body. rewrite Hrun. simpl. rewrite m_set_ok by lia.
    eexists. split; [reflexivity|]. split; [apply mset_wf; assumption|].
    split; [rewrite mset_length; assumption|].
    intros r c Hc.
    destruct (Nat.eq_dec r (rows + i)) as [->|Hr].
    - rewrite Nat.eqb_refl. destruct (Nat.eq_dec c (C - 1)) as [->|Hcn].
      + rewrite (cell_mset_same K C) by (auto; lia). destruct (Nat.ltb_spec (C - 1) (C - 1)); [lia|]. reflexivity.
      + rewrite cell_mset_other by congruence. rewrite (Hc1 _ c Hc). rewrite Nat.eqb_refl. simpl.
        destruct (Nat.ltb_spec c (C - 1)); [reflexivity|lia].
    - rewrite cell_mset_other by congruence. rewrite (Hc1 r c Hc).
      destruct (Nat.eqb_spec r (rows + i)); [contradiction|]. reflexivity.
  Qed.

  (* invariant of the outer loop after n look-ahead rows have been rebuilt *)
  Definition wrap_inv (s : list nat) (w k n : nat) (m : matrix) : Prop :=
    wf_matrix C m /\ length m = seq_rows C (length s) + k /\
    forall r c, r < seq_rows C (length s) + k -> c < C ->
      (r < seq_rows C (length s) + Nat.max n w \/ length s = 0) ->
      cell K m r c = nth (c * seq_rows C (length s) + r) s (wild K).

  Lemma wrap_step s w k n m : n < k -> wrap_inv s w k n m ->
    exists m', wrap_body (seq_rows C (length s)) n m = Ok m' /\ wrap_inv s w k (S n) m'.
  Proof.
    unfold wrap_inv. intros Hn (Hwf & Hlen & Hcells).
    remember (seq_rows C (length s)) as R eqn:ER.
    destruct (wrap_body_spec m R n Hwf ltac:(lia) ltac:(lia)) as (m' & Hrun & Hwf' & Hlen' & Hc').
    exists m'. split; [assumption|]. split; [assumption|]. split; [lia|].
    intros r c Hr Hc Hv. rewrite (Hc' r c Hc).
    destruct (Nat.eqb_spec r (R + n)) as [->|Hne].
    - destruct (Nat.ltb_spec c (C - 1)) as [Hlt|Hge].
      + rewrite Hcells; try lia.
        * f_equal. lia.
        * destruct (Nat.eq_dec R 0) as [E0|E0].
          -- right. apply (seq_rows_zero_len C); [assumption|]. rewrite <- ER. assumption.
          -- left. lia.
      + assert (c = C - 1) by lia. subst c. symmetry. apply nth_overflow.
        apply last_col_idx; [assumption|]. rewrite ER. apply seq_rows_ge. assumption.
    - apply Hcells; auto. destruct Hv as [Hv|Hv]; [left; lia|right; assumption].
  Qed.

  Lemma wrap_outer s w k : forall n, n <= k -> forall m, wrap_inv s w k 0 m ->
    exists m', for_res (seq 0 n) (wrap_body (seq_rows C (length s))) m = Ok m' /\ wrap_inv s w k n m'.
  Proof.
    induction n as [|n IH]; intros Hn m Hinv.
    - exists m. split; [reflexivity|assumption].
    - destruct (IH ltac:(lia) m Hinv) as (m1 & Hrun & Hinv1).
      destruct (wrap_step s w k n m1 ltac:(lia) Hinv1) as (m2 & Hrun2 & Hinv2).
      exists m2. split; [|assumption].
      rewrite seq_S, for_res_app, Hrun. simpl. rewrite Hrun2. reflexivity.
  Qed.

  Lemma configure_wrap_spec s st k : Striped K C s st ->
    exists st', configure_wrap K C k st = Ok st' /\ Striped K C s st' /\
                swrap st' = Nat.max (swrap st) k.
  Proof.
    intros (Hwf & Hlen & Hsl & Hcells). unfold configure_wrap.
    destruct (Nat.ltb_spec (swrap st) k) as [Hk|Hk].
    2:{ exists st. split; [reflexivity|]. split; [repeat split; assumption|lia]. }
    destruct (Nat.ltb_spec (length (mat st)) (swrap st)) as [Hbad|_]; [lia|].
    remember (seq_rows C (length s)) as R eqn:ER.
    replace (length (mat st) - swrap st) with R by lia.
    replace (length (mat st) + k - swrap st) with (R + k) by lia.
    assert (Hinv0 : wrap_inv s (swrap st) k 0 (m_resize K C (mat st) (R + k))).
    { split; [apply m_resize_wf; assumption|]. split; [rewrite m_resize_length; lia|].
      rewrite <- ER. intros r c Hr Hc Hv.
      rewrite m_resize_grow by lia. rewrite cell_app.
      destruct (Nat.ltb_spec r (length (mat st))) as [Hin|Hout].
      - apply Hcells; lia.
      - destruct Hv as [Hv|Hv]; [lia|].
        rewrite cell_row0 by lia. symmetry. apply nth_overflow. lia. }
    destruct (wrap_outer s (swrap st) k k (le_n _) _ Hinv0) as (m' & Hrun & (Hwf' & Hlen' & Hc')).
    rewrite <- ER in Hrun.
    change (fun (i : nat) (m : matrix) =>
              rbind (for_res (seq 0 (C - 1))
                       (fun (j : nat) (m'0 : matrix) =>
                          rbind (m_get K C m'0 i (j + 1)) (fun v : nat => m_set C m'0 (R + i) j v)) m)
                    (fun m1 : matrix => m_set C m1 (R + i) (C - 1) (wild K)))
      with (wrap_body R).
    rewrite Hrun. simpl.
    eexists. split; [reflexivity|]. split; [|simpl; lia].
    unfold Striped. simpl. rewrite <- ER in *. repeat split; auto.
    intros r c Hr Hc. apply Hc'; auto. left. lia.
  Qed.

  Lemma configure_spec s st M : Striped K C s st ->
    exists st', configure K C M st = Ok st' /\ Striped K C s st' /\
                swrap st' = if M =? 0 then swrap st else Nat.max (swrap st) (M - 1).
  Proof.
    intros H. unfold configure. destruct (Nat.eqb_spec M 0).
    - exists st. auto.
    - apply configure_wrap_spec. assumption.
  Qed.
End Wrap.

(* ---------- Index ---------- *)

Lemma s_index_spec K C s st i : 0 < C -> Striped K C s st ->
  (i < seq_rows C (length s) * C -> s_index K C st i = Ok (nth i s (wild K))) /\
  (seq_rows C (length s) * C <= i -> exists site, s_index K C st i = Panic site).
Proof.
  intros HC (Hwf & Hlen & Hsl & Hcells). unfold s_index.
  destruct (Nat.ltb_spec (length (mat st)) (swrap st)) as [Hbad|_]; [lia|].
  remember (seq_rows C (length s)) as R eqn:ER.
  replace (length (mat st) - swrap st) with R by lia.
  split.
  - intros Hi. destruct (Nat.eqb_spec R 0) as [E|E]; [subst R; rewrite E in Hi; simpl in Hi; lia|].
    rewrite m_get_ok.
    + rewrite Hcells.
      * rewrite div_mod_idx by lia. reflexivity.
      * pose proof (Nat.mod_upper_bound i R E). lia.
      * apply div_lt_cols. assumption.
    + pose proof (Nat.mod_upper_bound i R E). lia.
    + apply div_lt_cols. assumption.
  - intros Hi. destruct (Nat.eqb_spec R 0) as [E|E]; [eexists; reflexivity|].
    unfold m_get. destruct (Nat.ltb_spec (i mod R) (length (mat st))).
    + destruct (Nat.ltb_spec (i / R) C) as [Hlt|Hge]; [|eexists; reflexivity].
      exfalso. pose proof (div_mod_idx i R ltac:(lia)). pose proof (Nat.mod_upper_bound i R E). nia.
    + eexists; reflexivity.
Qed.

(* ---------- look-ahead rows ---------- *)

Lemma map_seq_nth {A} (f : nat -> A) a n i d : i < n -> nth i (map f (seq a n)) d = f (a + i).
Proof.
  intros Hi. rewrite (nth_indep (map f (seq a n)) d (f 0)) by (rewrite map_length, seq_length; assumption).
  rewrite (map_nth f (seq a n) 0 i). rewrite seq_nth by assumption. reflexivity.
Qed.

Lemma row_of_cells K C (m : matrix) r : wf_matrix C m -> r < length m ->
  nth r m [] = map (fun c => cell K m r c) (seq 0 C).
Proof.
  intros Hwf Hr. apply (nth_ext_len _ _ (wild K)).
  - rewrite map_length, seq_length. apply wf_nth; assumption.
  - intros i Hi. rewrite (wf_nth C m r Hwf Hr) in Hi.
    rewrite map_seq_nth by assumption. reflexivity.
Qed.

Lemma striped_row_eq K C s st r : Striped K C s st -> r < seq_rows C (length s) + swrap st ->
  nth r (mat st) [] = striped_row K C (seq_rows C (length s)) s r.
Proof.
  intros (Hwf & Hlen & Hsl & Hcells) Hr. rewrite (row_of_cells K C) by (auto; lia).
  unfold striped_row. apply map_ext_in. intros c Hc. apply in_seq in Hc. apply Hcells; lia.
Qed.

Lemma shift_row_nth K (row : list nat) c : c < length row ->
  nth c (shift_row K row) (wild K) = if c <? length row - 1 then nth (c + 1) row (wild K) else wild K.
Proof.
  intros Hc. unfold shift_row. destruct row as [|x t]; simpl in *; [lia|].
  rewrite Nat.sub_0_r. destruct (Nat.ltb_spec c (length t)).
  - rewrite app_nth1 by assumption. rewrite Nat.add_1_r. reflexivity.
  - rewrite app_nth2 by assumption. replace (c - length t) with 0 by lia. reflexivity.
Qed.

Lemma shift_row_length K (row : list nat) : 0 < length row -> length (shift_row K row) = length row.
Proof. unfold shift_row. destruct row; simpl; [lia|]. rewrite app_length. simpl. lia. Qed.

Lemma wrap_row_shift_lemma K C s st k : 0 < C -> Striped K C s st -> k < swrap st ->
  nth (seq_rows C (length s) + k) (mat st) [] = shift_row K (nth k (mat st) []).
Proof.
  intros HC HS Hk. pose proof HS as (Hwf & Hlen & Hsl & Hcells).
  remember (seq_rows C (length s)) as R eqn:ER.
  assert (Hlk : length (nth k (mat st) []) = C) by (apply wf_nth; [assumption|lia]).
  apply (nth_ext_len _ _ (wild K)).
  - rewrite shift_row_length by lia. rewrite Hlk. apply wf_nth; [assumption|lia].
  - intros c Hc. rewrite (wf_nth C) in Hc by (auto; lia).
    rewrite shift_row_nth by lia. rewrite Hlk.
    change (nth c (nth (R + k) (mat st) []) (wild K)) with (cell K (mat st) (R + k) c).
    rewrite Hcells by lia.
    destruct (Nat.ltb_spec c (C - 1)).
    + change (nth (c + 1) (nth k (mat st) []) (wild K)) with (cell K (mat st) k (c + 1)).
      rewrite Hcells by lia. f_equal. lia.
    + apply nth_overflow. assert (c = C - 1) by lia. subst c.
      apply last_col_idx; [assumption|]. rewrite ER. apply seq_rows_ge. assumption.
Qed.

(* ---------- the executable checker ---------- *)

Lemma list_eqb_eq a : forall b, list_eqb a b = true <-> a = b.
Proof.
  induction a as [|x a IH]; intros [|y b]; simpl; split; intros H; try reflexivity; try discriminate.
  - apply andb_true_iff in H. destruct H as [H1 H2]. apply Nat.eqb_eq in H1. apply IH in H2. congruence.
  - inversion H; subst. rewrite Nat.eqb_refl. simpl. apply IH. reflexivity.
Qed.

Lemma striped_row_length K C R s r : length (striped_row K C R s r) = C.
Proof. unfold striped_row. rewrite map_length, seq_length. reflexivity. Qed.

Lemma striped_row_nth K C R s r c : c < C ->
  nth c (striped_row K C R s r) (wild K) = nth (c * R + r) s (wild K).
Proof.
  intros Hc. unfold striped_row.
  rewrite map_seq_nth by assumption. reflexivity.
Qed.

Lemma check_striped_sound_lemma K C s st : check_striped K C s st = true -> Striped K C s st.
Proof.
  unfold check_striped. intros H.
  apply andb_true_iff in H. destruct H as [H H3]. apply andb_true_iff in H. destruct H as [H1 H2].
  apply Nat.eqb_eq in H1. apply Nat.eqb_eq in H2. rewrite forallb_forall in H3.
  assert (Hrow : forall r, r < seq_rows C (length s) + swrap st ->
                 nth r (mat st) [] = striped_row K C (seq_rows C (length s)) s r).
  { intros r Hr. apply list_eqb_eq. apply H3. apply in_seq. lia. }
  unfold Striped. repeat split; auto.
  - unfold wf_matrix. apply Forall_forall. intros row Hin.
    destruct (In_nth _ _ [] Hin) as (r & Hr & <-). rewrite Hrow by lia. apply striped_row_length.
  - intros r c Hr Hc. unfold cell. rewrite Hrow by assumption. apply striped_row_nth. assumption.
Qed.

Lemma check_striped_complete_lemma K C s st : Striped K C s st -> check_striped K C s st = true.
Proof.
  intros HS. pose proof HS as (Hwf & Hlen & Hsl & Hcells). unfold check_striped.
  rewrite Hsl, Hlen, !Nat.eqb_refl. simpl. apply forallb_forall. intros r Hr. apply in_seq in Hr.
  apply list_eqb_eq. apply striped_row_eq; [assumption|lia].
Qed.

(* Striped determines the state *)
Lemma Striped_unique K C s st1 st2 : Striped K C s st1 -> Striped K C s st2 ->
  swrap st1 = swrap st2 -> st1 = st2.
Proof.
  intros H1 H2 Hw. pose proof H1 as (Hwf1 & Hlen1 & Hsl1 & _). pose proof H2 as (Hwf2 & Hlen2 & Hsl2 & _).
  destruct st1 as [m1 l1 w1], st2 as [m2 l2 w2]. simpl in *. subst w2.
  f_equal; [|congruence].
  apply (nth_ext_len _ _ []); [congruence|].
  intros r Hr.
  pose proof (striped_row_eq K C s _ r H1) as E1. pose proof (striped_row_eq K C s _ r H2) as E2.
  simpl in E1, E2. rewrite E1, E2 by lia. reflexivity.
Qed.

(* ---------- counting symbols ---------- *)

Lemma flat_map_length_const {A B} (g : A -> list B) n (l : list A) :
  (forall x, length (g x) = n) -> length (flat_map g l) = length l * n.
Proof.
  intros H. induction l as [|x t IH]; simpl; [reflexivity|]. rewrite app_length, H, IH. reflexivity.
Qed.

Lemma visit_in C rows t : In t (visit C rows) ->
  exists i j, t = (i, j, j * rows + i) /\ i < rows /\ j < C.
Proof.
  unfold visit. intros H. apply in_flat_map in H. destruct H as (i & Hi & H).
  apply in_map_iff in H. destruct H as (j & <- & Hj). apply in_seq in Hi. apply in_seq in Hj.
  exists i, j. repeat split; lia.
Qed.

Lemma visit_length C rows : length (visit C rows) = rows * C.
Proof.
  unfold visit. rewrite (flat_map_length_const _ C).
  - rewrite seq_length. reflexivity.
  - intros x. rewrite map_length, seq_length. reflexivity.
Qed.

Lemma visit_covers C rows k : k < rows * C -> In k (map snd (visit C rows)).
Proof.
  intros Hk. assert (Hr : 0 < rows) by (destruct rows; simpl in *; lia).
  apply in_map_iff. exists (k mod rows, k / rows, (k / rows) * rows + k mod rows). split.
  - simpl. apply div_mod_idx. assumption.
  - unfold visit. apply in_flat_map. exists (k mod rows). split.
    + apply in_seq. pose proof (Nat.mod_upper_bound k rows). lia.
    + apply in_map_iff. exists (k / rows). split; [reflexivity|].
      apply in_seq. pose proof (div_lt_cols k rows C Hk). lia.
Qed.

Lemma visit_perm C rows : Permutation (seq 0 (rows * C)) (map snd (visit C rows)).
Proof.
  apply NoDup_Permutation_bis.
  - apply seq_NoDup.
  - rewrite map_length, visit_length, seq_length. apply le_n.
  - intros k Hk. apply in_seq in Hk. apply visit_covers. lia.
Qed.

Lemma filter_length_perm {A} (p : A -> bool) l l' :
  Permutation l l' -> length (filter p l) = length (filter p l').
Proof.
  induction 1; simpl.
  - reflexivity.
  - destruct (p x); simpl; congruence.
  - destruct (p x), (p y); simpl; reflexivity.
  - congruence.
Qed.

Lemma filter_none {A} (p : A -> bool) l : (forall x, In x l -> p x = false) -> filter p l = [].
Proof.
  induction l as [|x t IH]; intros H; simpl; [reflexivity|].
  rewrite (H x) by (left; reflexivity). apply IH. intros y Hy. apply H. right. assumption.
Qed.

Lemma filter_nth_seq (p : nat -> bool) d : forall s,
  length (filter (fun k => p (nth k s d)) (seq 0 (length s))) = length (filter p s).
Proof.
  induction s as [|a s IH] using rev_ind; [reflexivity|].
  rewrite app_length. simpl length. rewrite Nat.add_1_r, seq_S, !filter_app, !app_length. simpl.
  rewrite app_nth2 by lia. rewrite Nat.sub_diag. simpl. f_equal.
  - rewrite <- IH. f_equal. apply filter_ext_in. intros k Hk. apply in_seq in Hk.
    rewrite app_nth1 by lia. reflexivity.
  - destruct (p a); reflexivity.
Qed.

(* counting, over the positions 0..n-1 (n >= L), the positions below L holding x
   is counting x in the linear sequence *)
Lemma count_positions s d x n : length s <= n ->
  length (filter (fun k => (k <? length s) && (nth k s d =? x)) (seq 0 n)) = lin_count s x.
Proof.
  intros Hn. replace n with (length s + (n - length s)) by lia.
  rewrite seq_app, filter_app, app_length. simpl.
  rewrite (filter_none _ (seq (length s) (n - length s))).
  2:{ intros k Hk. apply in_seq in Hk. destruct (Nat.ltb_spec k (length s)); [lia|]. reflexivity. }
  simpl. rewrite Nat.add_0_r. unfold lin_count.
  rewrite <- (filter_nth_seq (fun y => y =? x) d s). f_equal.
  apply filter_ext_in. intros k Hk. apply in_seq in Hk.
  destruct (Nat.ltb_spec k (length s)); [|lia]. reflexivity.
Qed.

Section Count.
  Variable K C : nat.
  Hypothesis HC : 0 < C.
  Variable s : list nat.
  Variable st : sseq.
  Hypothesis HS : Striped K C s st.

  Let R := seq_rows C (length s).

  Definition cells_ok (cells : list (nat * nat * nat)) : Prop :=
    forall t, In t cells -> exists i j, t = (i, j, j * R + i) /\ i < R /\ j < C.

  Definition hits (x : nat) (cells : list (nat * nat * nat)) : nat :=
    length (filter (fun k => (k <? length s) && (nth k s (wild K) =? x)) (map snd cells)).

  Lemma count_loop_spec x : forall cells, cells_ok cells -> forall acc,
    count_loop K C (mat st) (slen st) x cells acc = Ok (acc + hits x cells).
  Proof.
    destruct HS as (Hwf & Hlen & Hsl & Hcells). fold R in Hlen, Hcells.
    induction cells as [|t cells IH]; intros Hok acc.
    - simpl. unfold hits. simpl. rewrite Nat.add_0_r. reflexivity.
    - destruct (Hok t (or_introl eq_refl)) as (i & j & -> & Hi & Hj).
      simpl. rewrite m_get_ok by lia. simpl. rewrite Hcells by lia.
      rewrite IH by (intros t' Ht'; apply Hok; right; assumption).
      unfold hits. simpl. rewrite Hsl.
      destruct ((j * R + i <? length s) && (nth (j * R + i) s (wild K) =? x)); simpl; f_equal; lia.
  Qed.

  Lemma hits_visit x : hits x (visit C R) = lin_count s x.
  Proof.
    unfold hits. rewrite <- (filter_length_perm _ _ _ (visit_perm C R)).
    apply count_positions. unfold R. apply seq_rows_ge. assumption.
  Qed.

  Lemma visit_ok : cells_ok (visit C R).
  Proof. intros t Ht. apply visit_in. assumption. Qed.

  Lemma count_symbol_lemma x : count_symbol K C st x = Ok (lin_count s x).
  Proof.
    unfold count_symbol. pose proof HS as (Hwf & Hlen & Hsl & Hcells). fold R in Hlen.
    destruct (Nat.ltb_spec (length (mat st)) (swrap st)) as [Hbad|_]; [lia|].
    replace (length (mat st) - swrap st) with R by lia.
    rewrite count_loop_spec by apply visit_ok. rewrite hits_visit. reflexivity.
  Qed.

  Hypothesis Hsym : Forall (fun y => y < K) s.

  Lemma counts_loop_spec : forall cells, cells_ok cells -> forall counts, length counts = K ->
    exists counts', counts_loop K C (mat st) (slen st) cells counts = Ok counts' /\
      length counts' = K /\
      forall x, x < K -> nth x counts' 0 = nth x counts 0 + hits x cells.
  Proof.
    destruct HS as (Hwf & Hlen & Hsl & Hcells). fold R in Hlen, Hcells.
    induction cells as [|t cells IH]; intros Hok counts Hc.
    - exists counts. simpl. split; [reflexivity|]. split; [assumption|].
      intros x Hx. unfold hits. simpl. lia.
    - destruct (Hok t (or_introl eq_refl)) as (i & j & -> & Hi & Hj).
      assert (Hok' : cells_ok cells) by (intros t' Ht'; apply Hok; right; assumption).
      simpl. rewrite m_get_ok by lia. simpl. rewrite Hcells by lia. rewrite Hsl.
      destruct (Nat.ltb_spec (j * R + i) (length s)) as [Hin|Hout].
      + assert (Hv : nth (j * R + i) s (wild K) < K).
        { rewrite Forall_forall in Hsym. apply Hsym. apply nth_In. assumption. }
        rewrite Hc. destruct (Nat.ltb_spec (nth (j * R + i) s (wild K)) K) as [_|Hbad]; [|lia].
        destruct (IH Hok' (upd (nth (j * R + i) s (wild K)) (S (nth (nth (j * R + i) s (wild K)) counts 0)) counts))
          as (counts' & Hrun & Hlen' & Hn).
        { rewrite upd_length. assumption. }
        exists counts'. split; [rewrite <- Hsl; exact Hrun|]. split; [exact Hlen'|].
        intros x Hx. rewrite (Hn x Hx).
        rewrite nth_upd. rewrite Hc. unfold hits. simpl.
        destruct (Nat.ltb_spec (j * R + i) (length s)) as [_|Hbad]; [|lia]. simpl.
        destruct (Nat.eqb_spec (nth (j * R + i) s (wild K)) x) as [E|E].
        * destruct (Nat.ltb_spec (nth (j * R + i) s (wild K)) K) as [_|Hbad]; [|lia].
          rewrite E. simpl. lia.
        * simpl. reflexivity.
      + destruct (IH Hok' counts Hc) as (counts' & Hrun & Hlen' & Hn).
        exists counts'. split; [rewrite <- Hsl; exact Hrun|]. split; [exact Hlen'|].
        intros x Hx. rewrite (Hn x Hx). unfold hits. simpl.
        destruct (Nat.ltb_spec (j * R + i) (length s)) as [Hbad|_]; [lia|]. reflexivity.
  Qed.

  Lemma count_symbols_lemma : count_symbols K C st = Ok (lin_counts K s).
  Proof.
    unfold count_symbols. pose proof HS as (Hwf & Hlen & Hsl & Hcells). fold R in Hlen.
    destruct (Nat.ltb_spec (length (mat st)) (swrap st)) as [Hbad|_]; [lia|].
    replace (length (mat st) - swrap st) with R by lia.
    destruct (counts_loop_spec (visit C R) visit_ok (repeat 0 K) (repeat_length 0 K))
      as (counts' & Hrun & Hlen' & Hn).
    rewrite Hrun. f_equal. apply (nth_ext_len _ _ 0).
    - unfold lin_counts. rewrite map_length, seq_length. assumption.
    - intros x Hx. rewrite Hlen' in Hx. rewrite (Hn x Hx). rewrite nth_repeat_lt by assumption.
      rewrite hits_visit. unfold lin_counts. rewrite map_seq_nth by assumption. reflexivity.
  Qed.
End Count.
