(* The translated provided methods of trait Stripe (PliT.v over GenPli.v) are the hand-written
   model functions; histories with Clone / From conversions. *)
From Coq Require Import List Arith Bool Lia.
From LMBase Require Import Res ListX.
From LMStripe Require Import StripeModel NetModel GenStripeNet StripeAvx2 StripeSpec StripeProofs SpecProofs
  NetProofs Avx2Proofs HistoryProofs GenSeq SeqT SeqTProofs GenPli PadModel PadProofs PadHistory PadHistoryProofs PliT.
Import ListNotations.

Lemma for_res_ext {St : Type} (l : list nat) (f g : nat -> St -> res St) st :
  (forall i x, In i l -> f i x = g i x) -> for_res l f st = for_res l g st.
Proof.
  revert st. induction l as [|i t IH]; intros st H; [reflexivity|].
  cbn [for_res]. rewrite (H i st) by (left; reflexivity).
  destruct (g i st); cbn [rbind]; try reflexivity.
  apply IH. intros j x Hj. apply H. right. assumption.
Qed.

Lemma tx_true v : tx true [] v = Ok v.
Proof. reflexivity. Qed.

Lemma tx_div1 d v : tx true [d] v = if d =? 0 then Panic 3 else Ok v.
Proof. unfold tx, divs_ok. cbn [negb forallb]. destruct (d =? 0); reflexivity. Qed.

Section PliFacts.
  Variable K C : nat.
  Hypothesis HC : 0 < C.

  (* ---------- the meaning of the translated expressions ---------- *)

  (* proved through arithmetic facts, not syntactically: an equivalent rewrite of the row
     formulas in the source (e.g. `(length + C::USIZE - 1) / C::USIZE`) keeps them *)
  Ltac guard_true :=
    repeat (apply andb_true_iff; split); try reflexivity; try (apply Nat.leb_le; lia).
  Ltac divs_true :=
    unfold divs_ok; cbn [forallb]; repeat (apply andb_true_iff; split); try reflexivity;
    apply negb_true_iff, Nat.eqb_neq; lia.

  Lemma si_rows_val len : tx (si_rows_ok len C (xr)) (si_rows_div len C xr) (si_rows len C xr) = Ok ((len + (C - 1)) / C).
  Proof.
    assert (si_rows_ok len C xr = true) as Hok by (unfold si_rows_ok; guard_true).
    assert (divs_ok (si_rows_div len C xr) = true) as Hdiv by (unfold si_rows_div; divs_true).
    unfold tx. rewrite Hok, Hdiv. cbn [negb]. unfold si_rows.
    first [ reflexivity | apply (f_equal (@Ok nat)); apply (f_equal (fun x => Nat.div x C)); lia ].
  Qed.

  Lemma st_rows_val len : tx (st_rows_ok len C xr) (st_rows_div len C xr) (st_rows len C xr) =
                          Ok (len / C + (if 0 <? len mod C then 1 else 0)).
  Proof.
    assert (st_rows_ok len C xr = true) as Hok by (unfold st_rows_ok; guard_true).
    assert (divs_ok (st_rows_div len C xr) = true) as Hdiv by (unfold st_rows_div; divs_true).
    unfold tx. rewrite Hok, Hdiv. cbn [negb]. unfold st_rows.
    first [ reflexivity
          | apply (f_equal (@Ok nat)); rewrite (rows_fresh_eq C len HC);
            first [ apply (rows_fresh_eq C len HC) | unfold seq_rows; apply (f_equal (fun x => Nat.div x C)); lia ] ].
  Qed.

  Lemma write_seq_t_eq s : forall len rows cap i m,
    write_seq_t C len rows cap i s m = write_seq C rows i s m.
  Proof.
    induction s as [|v t IH]; intros len rows cap i m; [reflexivity|].
    cbn [write_seq_t write_seq]. unfold put_striped.
    unfold si_w_row_ok, si_w_row_div, si_w_row, si_w_col_ok, si_w_col_div, si_w_col.
    rewrite !tx_div1.
    destruct (rows =? 0); cbn [rbind]; [reflexivity|].
    destruct (m_set C m (i mod rows) (i / rows) v); cbn [rbind]; try reflexivity.
    apply IH.
  Qed.

  Lemma fill_tail_t_eq len rows cap m : fill_tail_t K C len rows cap m = fill_tail K C rows len m.
  Proof.
    unfold fill_tail_t, fill_tail.
    unfold si_f_lo_ok, si_f_lo_div, si_f_lo, si_f_hi_ok, si_f_hi_div, si_f_hi.
    rewrite !tx_true. cbn [rbind]. unfold range.
    match goal with |- for_res ?l1 _ _ = for_res ?l2 _ _ =>
      replace l1 with l2 by first [ reflexivity | f_equal; lia ] end.
    apply for_res_ext. intros i x _.
    unfold put_striped, si_f_row_ok, si_f_row_div, si_f_row, si_f_col_ok, si_f_col_div, si_f_col.
    rewrite !tx_div1. destruct (rows =? 0); reflexivity.
  Qed.

  Lemma unwrap_new_eq data len : unwrap_new (s_new_t C data len) = s_new C data len.
  Proof. rewrite (s_new_t_eq C data len). unfold unwrap_new. destruct (s_new_t C data len); reflexivity. Qed.

  (* Stripe::stripe_into as translated = the hand model *)
  Lemma stripe_into_generic_t_eq s old : stripe_into_generic_t K C s old = stripe_into_generic K C s old.
  Proof.
    unfold stripe_into_generic_t, stripe_into_generic.
    rewrite si_rows_val. cbn [rbind].
    unfold si_capacity_ok, si_capacity_div, si_capacity, si_reserve_ok, si_reserve_div, si_reserve,
      si_resize_ok, si_resize_div, si_resize, si_newlen_ok, si_newlen_div, si_newlen.
    rewrite !tx_true. cbn [rbind].
    rewrite write_seq_t_eq.
    destruct (write_seq C ((length s + (C - 1)) / C) 0 s (m_resize K C (mat old) ((length s + (C - 1)) / C))) as [d1| | |];
      cbn [rbind]; try reflexivity.
    rewrite fill_tail_t_eq.
    destruct (fill_tail K C ((length s + (C - 1)) / C) (length s) d1) as [d2| | |]; cbn [rbind]; try reflexivity.
    apply unwrap_new_eq.
  Qed.

  (* Stripe::stripe as translated = the hand model *)
  Lemma stripe_fresh_t_eq (into into' : list nat -> sseq -> res sseq) s :
    (forall q st, into q st = into' q st) -> stripe_fresh_t K C into s = stripe_fresh K C into' s.
  Proof.
    intros Hinto. unfold stripe_fresh_t, stripe_fresh.
    rewrite st_rows_val. cbn [rbind].
    unfold st_capacity_ok, st_capacity_div, st_capacity, st_mrows_ok, st_mrows_div, st_mrows,
      st_mcap_ok, st_mcap_div, st_mcap, st_newlen_ok, st_newlen_div, st_newlen.
    rewrite !tx_true. cbn [rbind]. rewrite unwrap_new_eq.
    destruct (s_new C (m_new K C (length s / C + (if 0 <? length s mod C then 1 else 0))) (length s)); cbn [rbind];
      try reflexivity.
    apply Hinto.
  Qed.

  Lemma stripe_into_t_eq b s old : stripe_into_t K C b s old = stripe_into K C b s old.
  Proof.
    unfold stripe_into_t, stripe_into. destruct (backend_typed C b); [|reflexivity].
    unfold kernel_into_t, kernel_into. destruct (backend_kernel b); [apply stripe_into_generic_t_eq|reflexivity].
  Qed.

  (* except for sample: step2's OSample is the function before the repair of /repo 740d563 *)
  Lemma step2_t_eq st o : (forall draws len, o <> OSample draws len) -> step2_t K C st o = step2 K C st o.
  Proof.
    intros Hns.
    destruct o as [o|draws len|m len]; [|exfalso; apply (Hns draws len); reflexivity|reflexivity].
    destruct o as [b q|b q|M|k]; cbn [step2_t step2 step_t step]; try reflexivity.
    - apply stripe_into_t_eq.
    - destruct (backend_typed C b); [|reflexivity].
      apply stripe_fresh_t_eq. intros q' st'. apply stripe_into_t_eq.
  Qed.

  (* ---------- the repaired StripedSequence::sample ---------- *)

  Lemma sm_rows_val len : tx (sm_rows_ok len C xr) (sm_rows_div len C xr) (sm_rows len C xr) = Ok (seq_rows C len).
  Proof.
    assert (sm_rows_ok len C xr = true) as Hok by (unfold sm_rows_ok; guard_true).
    assert (divs_ok (sm_rows_div len C xr) = true) as Hdiv by (unfold sm_rows_div; divs_true).
    unfold tx. rewrite Hok, Hdiv. cbn [negb]. unfold sm_rows, seq_rows.
    first [ reflexivity | apply (f_equal (@Ok nat)); apply (f_equal (fun x => Nat.div x C)); lia ].
  Qed.

  Lemma sample_fill_t_eq len m : sample_fill_t K C len m = fill_tail K C (length m) len m.
  Proof.
    unfold sample_fill_t, fill_tail.
    unfold sm_f_lo_ok, sm_f_lo_div, sm_f_lo, sm_f_hi_ok, sm_f_hi_div, sm_f_hi.
    rewrite !tx_true. cbn [rbind]. unfold range.
    match goal with |- for_res ?l1 _ _ = for_res ?l2 _ _ =>
      replace l1 with l2 by first [ reflexivity | f_equal; lia ] end.
    apply for_res_ext. intros i x _.
    unfold put_striped, sm_f_row_ok, sm_f_row_div, sm_f_row, sm_f_col_ok, sm_f_col_div, sm_f_col.
    rewrite !tx_div1. destruct (length m =? 0); reflexivity.
  Qed.

  Lemma nth_sample_seq stream len i : i < len ->
    nth i (sample_seq C stream len) (wild K) = stream ((i mod seq_rows C len) * C + i / seq_rows C len).
  Proof.
    intros Hi. unfold sample_seq. rewrite (sample_rows_eq C HC len).
    rewrite (nth_indep _ (wild K) ((fun j => stream (j mod seq_rows C len * C + j / seq_rows C len)) 0))
      by (rewrite map_length, seq_length; assumption).
    rewrite (map_nth (fun j => stream (j mod seq_rows C len * C + j / seq_rows C len))).
    rewrite seq_nth by assumption. reflexivity.
  Qed.

  (* the repaired sample never fails and gives the striped form -- wildcard padding -- of the
     sampled sequence; cell (r, c) is draw r*C + c when its linear index c*R + r is inside the
     sequence, the wildcard otherwise *)
  Lemma sample_fix_spec stream len :
    exists st, striped_sample_fix K C stream len = Ok st /\
      Striped K C (sample_seq C stream len) st /\ swrap st = 0 /\ slen st = len /\
      forall r c, r < seq_rows C len -> c < C ->
        nth c (nth r (mat st) []) (wild K) =
        if c * seq_rows C len + r <? len then stream (r * C + c) else wild K.
  Proof.
    unfold striped_sample_fix. rewrite sm_rows_val. cbn [rbind].
    fold (sample_matrix C stream len) || idtac.
    replace (map (fun r => map (fun c => stream (r * C + c)) (seq 0 C)) (seq 0 (seq_rows C len)))
      with (sample_matrix C stream len) by (unfold sample_matrix; rewrite (sample_rows_eq C HC len); reflexivity).
    pose proof (sample_matrix_wf C stream len) as Hwf.
    pose proof (sample_matrix_length C HC stream len) as Hlen.
    pose proof (seq_rows_ge C len HC) as Hge.
    rewrite sample_fill_t_eq, Hlen. unfold fill_tail. rewrite Hlen.
    assert (HL2 : len + (seq_rows C len * C - len) <= seq_rows C len * C) by lia.
    destruct (put_loop_spec K C (seq_rows C len) (fun _ => wild K) (seq_rows C len * C - len) len
                (sample_matrix C stream len) Hwf Hlen HL2) as (m2 & Hrun & Hwf2 & Hlen2 & Hc2).
    rewrite Hrun. cbn [rbind].
    unfold sm_newlen_ok, sm_newlen_div, sm_newlen. rewrite tx_true. cbn [rbind].
    unfold s_new_t, new_guard, new_wrap. rewrite Hlen2.
    destruct (Nat.ltb_spec (seq_rows C len * C) len) as [Hbad|_]; [lia|].
    assert (Hcells : forall r c, r < seq_rows C len -> c < C ->
              nth c (nth r m2 []) (wild K) = if c * seq_rows C len + r <? len then stream (r * C + c) else wild K).
    { intros r c Hr Hc. pose proof (Hc2 r c Hr Hc) as E. unfold cell in E. rewrite E.
      pose proof (idx_lt r c (seq_rows C len) C Hr Hc) as Hk.
      destruct (Nat.ltb_spec (c * seq_rows C len + r) len) as [Hin|Hout].
      - destruct (Nat.leb_spec len (c * seq_rows C len + r)); [lia|]. cbn [andb].
        apply (sample_matrix_cell K C HC stream len r c Hr Hc).
      - destruct (Nat.leb_spec len (c * seq_rows C len + r)); [|lia].
        destruct (Nat.ltb_spec (c * seq_rows C len + r) (len + (seq_rows C len * C - len))); [|lia]. reflexivity. }
    eexists. split; [reflexivity|]. split; [|split; [reflexivity|split; [reflexivity|exact Hcells]]].
    assert (Hsl : length (sample_seq C stream len) = len) by (unfold sample_seq; rewrite map_length, seq_length; reflexivity).
    unfold Striped. cbn [mat slen swrap]. rewrite Hsl.
    split; [exact Hwf2|]. split; [lia|]. split; [reflexivity|].
    intros r c Hr Hc. rewrite Nat.add_0_r in Hr. unfold cell. rewrite (Hcells r c Hr Hc).
    destruct (Nat.ltb_spec (c * seq_rows C len + r) len) as [Hin|Hout].
    - rewrite (nth_sample_seq stream len _ Hin). rewrite idx_mod, idx_div by assumption. reflexivity.
    - symmetry. apply nth_overflow. lia.
  Qed.

  (* ---------- the destination is overwritten completely ---------- *)

  (* whatever the reused buffer held (any matrix of C-cell rows, any stale len / wrap), the result
     is the same, has exactly R = ceil(L/C) rows, and EVERY cell of them is determined by the
     sequence alone: the symbol with linear index c*R + r, or the wildcard beyond the end *)
  Lemma stripe_into_overwrites b s old1 old2 :
    backend_typed C b = true -> wf_matrix C (mat old1) -> wf_matrix C (mat old2) ->
    stripe_into_t K C b s old1 = stripe_into_t K C b s old2 /\
    exists st, stripe_into_t K C b s old1 = Ok st /\
      length (mat st) = seq_rows C (length s) /\ swrap st = 0 /\ slen st = length s /\
      forall r c, r < seq_rows C (length s) -> c < C ->
        nth c (nth r (mat st) []) (wild K) =
        if c * seq_rows C (length s) + r <? length s then nth (c * seq_rows C (length s) + r) s (wild K) else wild K.
  Proof.
    intros Hb H1 H2. rewrite !stripe_into_t_eq.
    destruct (stripe_into_spec K C HC b s old1 Hb H1) as (st1 & A1 & S1 & W1).
    destruct (stripe_into_spec K C HC b s old2 Hb H2) as (st2 & A2 & S2 & W2).
    assert (st1 = st2) as E by (apply (Striped_unique K C s); [assumption|assumption|lia]).
    split; [rewrite A1, A2, E; reflexivity|].
    exists st1. split; [exact A1|].
    destruct S1 as (Hwf & Hrows & Hlen & Hcell).
    split; [lia|]. split; [exact W1|]. split; [exact Hlen|].
    intros r c Hr Hc. specialize (Hcell r c). unfold cell in Hcell. rewrite Hcell by lia.
    destruct (Nat.ltb_spec (c * seq_rows C (length s) + r) (length s)); [reflexivity|].
    apply nth_overflow. lia.
  Qed.

  (* ---------- Clone and the From conversions in histories ---------- *)

  Lemma StripedPad_new_ok s st : StripedPad K C s st -> op2_ok C (ONew (mat st) (slen st)) = true.
  Proof.
    intros HP. pose proof (StripedPad_wf K C s st HP) as Hwf.
    destruct HP as (Hl & pad & _ & Hlen).
    cbn [op2_ok]. apply andb_true_iff. split.
    - apply forallb_forall. intros row Hin. apply Nat.eqb_eq.
      unfold wf_matrix in Hwf. rewrite Forall_forall in Hwf. apply Hwf. assumption.
    - apply Nat.leb_le. rewrite Hl. rewrite app_length in Hlen.
      assert ((length (mat st) - swrap st) * C <= length (mat st) * C) by (apply Nat.mul_le_mono_r; lia).
      lia.
  Qed.

  Lemma step3_spec s st o : StripedPad K C s st -> op3_ok C o = true ->
    exists st', step3 K C st o = Ok st' /\ StripedPad K C (seq_after3_1 K C s st o) st'.
  Proof.
    intros HP Hok. unfold step3, seq_after3_1.
    destruct o as [o|  |a q|]; cbn [lower op3_ok] in *.
    - destruct o as [o1|draws len|m len].
      + rewrite step2_t_eq by (intros; discriminate). apply (step2_spec K C HC); assumption.
      + cbn [step2_t seq_after1].
        destruct (sample_fix_spec (stream_of draws) len) as (st' & A & B & _).
        exists st'. split; [exact A|]. apply Striped_StripedPad; assumption.
      + rewrite step2_t_eq by (intros; discriminate). apply (step2_spec K C HC); assumption.
    - exists st. split; [reflexivity|assumption].
    - rewrite step2_t_eq by (intros; discriminate). apply (step2_spec K C HC); [assumption|]. cbn [op2_ok op_typed backend_typed]. assumption.
    - rewrite step2_t_eq by (intros; discriminate). apply (step2_spec K C HC); [assumption|]. apply (StripedPad_new_ok s); assumption.
  Qed.

  Lemma run3_spec : forall ops s st, StripedPad K C s st -> forallb (op3_ok C) ops = true ->
    exists st', run3 K C st ops = Ok st' /\ StripedPad K C (seq_after3 K C s st ops) st'.
  Proof.
    induction ops as [|o t IH]; intros s st HP Hok.
    - exists st. split; [reflexivity|exact HP].
    - cbn [forallb] in Hok. apply andb_true_iff in Hok. destruct Hok as [Ho Ht].
      destruct (step3_spec s st o HP Ho) as (st1 & A & B).
      destruct (IH _ st1 B Ht) as (st2 & A2 & B2).
      exists st2. cbn [run3 seq_after3]. rewrite A. cbn [rbind]. split; [exact A2|exact B2].
  Qed.

  (* clone: the copy is the same state, so everything proved of the original holds of the copy;
     from(EncodedSequence): the striped form with wildcard padding; via DenseMatrix::from + new:
     the same matrix, wrap 0, and the sequence is re-read with ALL rows as sequence rows *)
  Lemma conversions_spec s st : StripedPad K C s st ->
    step3 K C st OClone = Ok st /\
    (forall a q, C = 32 -> exists st', step3 K C st (OFromEnc a q) = Ok st' /\ Striped K C q st' /\ swrap st' = 0) /\
    step3 K C st OViaMatrix = Ok (mkS (mat st) (slen st) 0) /\
    (swrap st = 0 -> step3 K C st OViaMatrix = Ok st /\ seq_after3_1 K C s st OViaMatrix = s).
  Proof.
    intros HP. split; [reflexivity|]. split.
    { intros a q HC32. unfold step3. cbn [lower]. rewrite step2_t_eq by (intros; discriminate). cbn [step2 step_t step].
      assert (backend_typed C (BDispatch a) = true) as Hb by (cbn [backend_typed]; apply Nat.eqb_eq; assumption).
      rewrite Hb. apply (stripe_fresh_spec K C HC). intros old Hwf. apply stripe_into_spec; assumption. }
    assert (step3 K C st OViaMatrix = Ok (mkS (mat st) (slen st) 0)) as Hv.
    { unfold step3. cbn [lower]. rewrite step2_t_eq by (intros; discriminate). cbn [step2].
      pose proof (StripedPad_new_ok s st HP) as Hok. cbn [op2_ok] in Hok.
      apply andb_true_iff in Hok. destruct Hok as [Hw Hl]. rewrite Hw.
      unfold s_new_t, new_guard, new_wrap. apply Nat.leb_le in Hl.
      destruct (Nat.ltb_spec (length (mat st) * C) (slen st)); [lia|reflexivity]. }
    split; [exact Hv|].
    intros Hw0. split.
    - rewrite Hv. destruct st as [m l w]. cbn [swrap] in Hw0. subst w. reflexivity.
    - unfold seq_after3_1. cbn [lower seq_after1].
      destruct st as [m l w]. cbn [swrap mat slen] in *. subst w.
      symmetry. apply (pad_lossless K C HC s (logical_seq K C (mkS m l 0)) (mkS m l 0)); [assumption|].
      pose proof (StripedPad_new_ok s _ HP) as Hok. cbn [op2_ok mat slen] in Hok.
      apply andb_true_iff in Hok. destruct Hok as [Hw Hl]. apply Nat.leb_le in Hl.
      destruct (new_pad K C HC m l (forallb_wf C m Hw)) as [A _]. destruct (A Hl) as [_ A2]. exact A2.
  Qed.
End PliFacts.
