(* The closed form [Striped] is exactly the wording of property C04:
     R = ceil(L/C) sequence rows, symbol i at row i mod R, column i / R, every other
     cell of the sequence rows holds the wildcard, and look-ahead row k is matrix row
     k shifted left by one column with the wildcard in the last column. *)
From Coq Require Import List Arith Bool Lia.
From LMBase Require Import Res ListX.
From LMStripe Require Import StripeModel StripeSpec StripeProofs.
Import ListNotations.

(* R is the least row count that holds the sequence *)
Lemma seq_rows_ceil C L : 0 < C ->
  L <= seq_rows C L * C /\ (0 < L -> (seq_rows C L - 1) * C < L).
Proof. intros HC. split; [apply seq_rows_ge; assumption|apply seq_rows_lt; assumption]. Qed.

Lemma Striped_Placed K C s st : 0 < C -> Striped K C s st -> Placed K C s st.
Proof.
  intros HC HS. pose proof HS as (Hwf & Hlen & Hsl & Hcells).
  unfold Placed. cbv zeta. repeat split; auto.
  - intros i Hi.
    assert (HR : 0 < seq_rows C (length s)) by (apply seq_rows_pos; lia).
    rewrite Hcells.
    + rewrite div_mod_idx by assumption. reflexivity.
    + pose proof (Nat.mod_upper_bound i (seq_rows C (length s))). lia.
    + apply div_lt_cols. pose proof (seq_rows_ge C (length s) HC). lia.
  - intros r c Hr Hc Hi. rewrite Hcells by (auto; lia). apply nth_overflow. assumption.
  - intros k Hk. apply (wrap_row_shift_lemma K C s st k HC HS Hk).
Qed.

(* a row that is its own left shift holds only wildcards *)
Lemma self_shift_wild K C (row : list nat) : length row = C -> row = shift_row K row ->
  forall c, c < C -> nth c row (wild K) = wild K.
Proof.
  intros Hlen Heq.
  assert (Hstep : forall c, c < C -> nth c row (wild K) =
                   if c <? C - 1 then nth (c + 1) row (wild K) else wild K).
  { intros c Hc. rewrite Heq at 1. rewrite shift_row_nth by lia. rewrite Hlen. reflexivity. }
  assert (G : forall n c, C - 1 - c = n -> c < C -> nth c row (wild K) = wild K).
  { induction n as [|n IH]; intros c Hn Hc; rewrite Hstep by assumption.
    - destruct (Nat.ltb_spec c (C - 1)); [lia|reflexivity].
    - destruct (Nat.ltb_spec c (C - 1)); [|reflexivity]. apply IH; lia. }
  intros c Hc. apply (G (C - 1 - c)); auto.
Qed.

(* sequence rows in closed form + every look-ahead row a shifted copy = Striped *)
Lemma rows_shift_Striped K C s st : 0 < C ->
  wf_matrix C (mat st) ->
  length (mat st) = seq_rows C (length s) + swrap st ->
  slen st = length s ->
  (forall r c, r < seq_rows C (length s) -> c < C ->
     cell K (mat st) r c = nth (c * seq_rows C (length s) + r) s (wild K)) ->
  (forall k, k < swrap st ->
     nth (seq_rows C (length s) + k) (mat st) [] = shift_row K (nth k (mat st) [])) ->
  Striped K C s st.
Proof.
  intros HC Hwf Hlen Hsl Hseq Hsh.
  remember (seq_rows C (length s)) as R eqn:ER.
  pose proof (seq_rows_ge C (length s) HC) as HL. rewrite <- ER in HL.
  unfold Striped. rewrite <- ER. repeat split; auto.
  (* all rows, by strong induction on the row number *)
  intros r. induction r as [r IH] using lt_wf_ind. intros c Hr Hc.
  destruct (Nat.lt_ge_cases r R) as [Hlt|Hge]; [apply Hseq; assumption|].
  set (k := r - R). assert (Er : r = R + k) by (unfold k; lia).
  assert (Hk : k < swrap st) by lia.
  assert (Hrow : length (nth k (mat st) []) = C) by (apply wf_nth; [assumption|lia]).
  unfold cell. rewrite Er, (Hsh k Hk). rewrite shift_row_nth by lia. rewrite Hrow.
  destruct (Nat.eq_dec R 0) as [E0|E0].
  - (* empty sequence: row k is its own shift *)
    assert (s = []) by (destruct s; [reflexivity|exfalso; simpl in HL; lia]). subst s.
    assert (Hself : nth k (mat st) [] = shift_row K (nth k (mat st) [])).
    { rewrite <- (Hsh k Hk) at 1. rewrite E0. reflexivity. }
    pose proof (self_shift_wild K C _ Hrow Hself) as Hw.
    replace (nth (c * R + (R + k)) [] (wild K)) with (wild K) by (destruct (c * R + (R + k)); reflexivity).
    destruct (Nat.ltb_spec c (C - 1)); [apply Hw; lia|reflexivity].
  - destruct (Nat.ltb_spec c (C - 1)) as [Hc1|Hc1].
    + change (nth (c + 1) (nth k (mat st) []) (wild K)) with (cell K (mat st) k (c + 1)).
      rewrite (IH k) by lia. f_equal. lia.
    + symmetry. apply nth_overflow. assert (c = C - 1) by lia. subst c.
      apply last_col_idx; assumption.
Qed.

Lemma Placed_Striped K C s st : 0 < C -> Placed K C s st -> Striped K C s st.
Proof.
  intros HC (Hwf & Hlen & Hsl & Hpl & Hpad & Hsh).
  apply rows_shift_Striped; auto.
  intros r c Hr Hc. destruct (Nat.lt_ge_cases (c * seq_rows C (length s) + r) (length s)) as [Hin|Hout].
  - rewrite <- (Hpl _ Hin). rewrite idx_mod, idx_div by assumption. reflexivity.
  - rewrite Hpad by assumption. symmetry. apply nth_overflow. assumption.
Qed.

(* ---------- the fast executable check ---------- *)

Lemma nth_skipn_y {A} (l : list A) : forall n i d, nth i (skipn n l) d = nth (n + i) l d.
Proof.
  induction l as [|x t IH]; intros n i d.
  - rewrite skipn_nil. assert (N : forall j, nth j (@nil A) d = d) by (intros [|j]; reflexivity).
    rewrite !N. reflexivity.
  - destruct n; simpl; [reflexivity|]. apply IH.
Qed.

Lemma nth_firstn_y {A} (l : list A) : forall n i d, i < n -> nth i (firstn n l) d = nth i l d.
Proof.
  induction l as [|x t IH]; intros n i d H.
  - rewrite firstn_nil. reflexivity.
  - destruct n; [lia|]. destruct i; simpl; [reflexivity|]. apply IH. lia.
Qed.

Lemma chunks_length R : forall n s, length (chunks R n s) = n.
Proof. induction n as [|n IH]; intros s; simpl; [reflexivity|]. rewrite IH. reflexivity. Qed.

Lemma chunks_nth R d : forall n s c r, c < n -> r < R ->
  nth r (nth c (chunks R n s) []) d = nth (c * R + r) s d.
Proof.
  induction n as [|n IH]; intros s c r Hc Hr; [lia|].
  destruct c as [|c]; cbn [chunks nth].
  - rewrite nth_firstn_y by assumption. reflexivity.
  - rewrite IH by lia. rewrite nth_skipn_y. f_equal. lia.
Qed.

Lemma fast_row_eq K C R s r : r < R ->
  fast_row K (chunks R C s) r = striped_row K C R s r.
Proof.
  intros Hr. unfold fast_row. apply (nth_ext_len _ _ (wild K)).
  - rewrite map_length, chunks_length, striped_row_length. reflexivity.
  - intros c Hc. rewrite map_length, chunks_length in Hc.
    rewrite striped_row_nth by assumption.
    rewrite (nth_indep _ (wild K) ((fun col => nth r col (wild K)) [])) by (rewrite map_length, chunks_length; assumption).
    rewrite (map_nth (fun col => nth r col (wild K))).
    apply chunks_nth; assumption.
Qed.

Lemma check_fast_sound K C s st : 0 < C -> check_striped_fast K C s st = true -> Striped K C s st.
Proof.
  intros HC H. unfold check_striped_fast in H.
  apply andb_true_iff in H. destruct H as [H H5].
  apply andb_true_iff in H. destruct H as [H H4].
  apply andb_true_iff in H. destruct H as [H H3].
  apply andb_true_iff in H. destruct H as [H1 H2].
  apply Nat.eqb_eq in H1. apply Nat.eqb_eq in H2.
  unfold check_wrap_rows in H5. rewrite forallb_forall in H3, H4, H5.
  assert (Hwf : wf_matrix C (mat st)).
  { apply Forall_forall. intros row Hin. apply Nat.eqb_eq. apply H3. assumption. }
  apply rows_shift_Striped; auto.
  - intros r c Hr Hc. unfold cell.
    assert (E : nth r (mat st) [] = striped_row K C (seq_rows C (length s)) s r).
    { rewrite <- fast_row_eq by assumption. apply list_eqb_eq. apply H4. apply in_seq. lia. }
    rewrite E. apply striped_row_nth. assumption.
  - intros k Hk. replace (seq_rows C (length s)) with (length (mat st) - swrap st) by lia.
    apply list_eqb_eq. apply H5. apply in_seq. lia.
Qed.

Lemma check_fast_complete K C s st : 0 < C -> Striped K C s st -> check_striped_fast K C s st = true.
Proof.
  intros HC HS. pose proof HS as (Hwf & Hlen & Hsl & Hcells). unfold check_striped_fast.
  rewrite Hsl, Hlen, !Nat.eqb_refl. cbn [andb].
  apply andb_true_iff. split; [apply andb_true_iff; split|].
  - apply forallb_forall. intros row Hin. apply Nat.eqb_eq.
    unfold wf_matrix in Hwf. rewrite Forall_forall in Hwf. apply Hwf. assumption.
  - apply forallb_forall. intros r Hr. apply in_seq in Hr. apply list_eqb_eq.
    rewrite fast_row_eq by lia. apply striped_row_eq; [assumption|lia].
  - apply forallb_forall. intros k Hk. apply in_seq in Hk. apply list_eqb_eq.
    replace (length (mat st) - swrap st) with (seq_rows C (length s)) by lia.
    apply (wrap_row_shift_lemma K C s st k HC HS). lia.
Qed.
