(* Extraction of the executable striping model and of the property checkers for
   the correspondence check of C04.  Only ExtrOcamlBasic: nat stays the extracted
   inductive type (converted in ocaml/stripe/driver.ml). *)
From Coq Require Import List Arith Extraction ExtrOcamlBasic.
From LMBase Require Import Res ListX.
From LMStripe Require Import StripeModel NetModel GenStripeNet StripeAvx2 GenSeq SeqT PadModel PadHistory GenPli PliT FullCheck Mode.

Extraction Language OCaml.
Extraction "stripe_model.ml"
  step run s_default s_index count_symbol count_symbols lin_count lin_counts
  step2 run2 op2_ok seq_after1 check_C04_pad check_pad logical_seq sample_seq enc_sample striped_sample
  s_new_t configure_wrap_t configure_t s_index_t count_symbol_t count_symbols_t disp_stripe_arm disp_lanes_arm
  disp_lanes_x86 default_extra_rows
  check_C04_full check_index_beyond check_agree pad_after1 pad_after check_mode striped_sample_fix
  step2_t step3 run3 op3_ok lower seq_after3_1 seq_after3 stripe_into_generic_t stripe_fresh_t stripe_into_t
  check_C04 observe op_typed generic_op last_seq wrap_after
  check_striped_fast check_striped check_wrap_rows striped_row seq_rows
  stripe_into_generic stripe_into_avx2 net_block net_loads net_ops net_stores disp_stripe.
