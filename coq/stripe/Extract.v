(* Extraction of the executable striping model and of the property checkers for
   the correspondence check of C04.  Only ExtrOcamlBasic: nat stays the extracted
   inductive type (converted in ocaml/stripe/driver.ml). *)
From Coq Require Import List Arith Extraction ExtrOcamlBasic.
From LMBase Require Import Res ListX.
From LMStripe Require Import StripeModel NetModel GenStripeNet StripeAvx2.

Extraction Language OCaml.
Extraction "stripe_model.ml"
  step run s_default s_index count_symbol count_symbols lin_count lin_counts
  check_C04 observe op_typed generic_op last_seq wrap_after
  check_striped_fast check_striped check_wrap_rows striped_row seq_rows
  stripe_into_generic stripe_into_avx2 net_block net_loads net_ops net_stores disp_stripe.
