(* The AVX2 striping kernel (StripeAvx2.stripe_into_avx2: 32-row blocks through the
   translated transposition network, scalar tail rows, wildcard fill) produces the
   striped form of the sequence, for every sequence and every (stale) old buffer;
   hence it is equal to the generic kernel. *)
From Coq Require Import List Arith Bool Lia.
From LMBase Require Import Res ListX.
From LMStripe Require Import StripeModel NetModel GenStripeNet StripeAvx2 StripeSpec StripeProofs NetProofs.
Import ListNotations.

(* ---------- lists ---------- *)

Lemma nth_skipn_x {A} (l : list A) : forall n i d, nth i (skipn n l) d = nth (n + i) l d.
Proof.
  induction l as [|x t IH]; intros n i d.
  - rewrite skipn_nil. assert (N : forall j, nth j (@nil A) d = d) by (intros [|j]; reflexivity).
    rewrite !N. reflexivity.
  - destruct n; simpl; [reflexivity|]. apply IH.
Qed.

Lemma nth_firstn_x {A} (l : list A) : forall n i d, i < n -> nth i (firstn n l) d = nth i l d.
Proof.
  induction l as [|x t IH]; intros n i d H.
  - rewrite firstn_nil. reflexivity.
  - destruct n; [lia|]. destruct i; simpl; [reflexivity|]. apply IH. lia.
Qed.

Lemma load32_length (s : list nat) off : off + 32 <= length s -> length (load32 s off) = 32.
Proof. intros H. unfold load32. rewrite firstn_length, skipn_length. lia. Qed.

Lemma load32_nth (s : list nat) off k d : k < 32 -> nth k (load32 s off) d = nth (off + k) s d.
Proof. intros H. unfold load32. rewrite nth_firstn_x by assumption. apply nth_skipn_x. Qed.

(* ---------- one block ---------- *)

Section Block.
  Variable K : nat.
  Variable s : list nat.
  Variable R : nat.

  Lemma store_rows_ok (regs : list (list nat)) i stores : forall m,
    (forall p, In p stores -> i + fst p < length m) ->
    store_rows regs i stores m = Ok (store_at regs i stores m).
  Proof.
    unfold store_at. induction stores as [|[k reg] t IH]; intros m H; simpl; [reflexivity|].
    pose proof (H (k, reg) (or_introl eq_refl)) as Hk. simpl in Hk.
    unfold store_row. destruct (Nat.ltb_spec (i + k) (length m)); [|lia]. simpl.
    apply IH. intros p Hp. rewrite upd_length. apply H. right. assumption.
  Qed.

  (* the registers after the network, read through the store list: what is stored
     at out + k*out_stride is lane k of the 32 loaded vectors *)
  Lemma regs_row (ld : nat -> list nat) k :
    (forall c, c < 32 -> length (ld c) = 32) -> k < 32 ->
    exists reg, last_store net_stores k = Some reg /\
      nth reg (run_net 0 net_ops (net_load net_loads ld)) [] = map (fun c => nth k (ld c) 0) (seq 0 32).
  Proof.
    intros Hld Hk.
    pose proof (transpose_net_lemma nat 0 ld Hld) as T.
    unfold net_block in T. rewrite net_store_is_store_at in T.
    assert (E := f_equal (fun l => nth k l []) T). cbv beta in E.
    rewrite store_at_nth in E.
    2:{ intros p Hp. pose proof net_stores_lt32 as H32. rewrite forallb_forall in H32.
        specialize (H32 p Hp). apply Nat.ltb_lt in H32. rewrite repeat_length. lia. }
    rewrite Nat.sub_0_r in E. cbn [Nat.leb] in E.
    pose proof net_stores_cover as Hc. rewrite forallb_forall in Hc.
    specialize (Hc k ltac:(apply in_seq; lia)).
    destruct (last_store net_stores k) as [reg|]; [|discriminate].
    exists reg. split; [reflexivity|]. rewrite E.
    rewrite (map_seq_nth (fun r => map (fun c => nth r (ld c) 0) (seq 0 32)) 0 32 k []) by assumption.
    reflexivity.
  Qed.

  Lemma block_row i k : k < 32 -> 31 * R + i + 32 <= length s ->
    map (fun c => nth k (load32 s (c * R + i)) 0) (seq 0 32) = striped_row K 32 R s (i + k).
  Proof.
    intros Hk Hb. unfold striped_row. apply map_ext_in. intros c Hc. apply in_seq in Hc.
    rewrite load32_nth by assumption.
    replace (c * R + i + k) with (c * R + (i + k)) by lia.
    apply nth_indep. nia.
  Qed.

  Lemma do_block_spec i m : i + 32 <= length m -> 31 * R + i + 32 <= length s ->
    wf_matrix 32 m ->
    exists m', do_block s R i i m = Ok m' /\ wf_matrix 32 m' /\ length m' = length m /\
      forall r, nth r m' [] = if (i <=? r) && (r <? i + 32) then striped_row K 32 R s r else nth r m [].
  Proof.
    intros Hi Hb Hwf. unfold do_block.
    assert (Hl : forallb (fun p => snd p * R + i + 32 <=? length s) net_loads = true).
    { apply forallb_forall. intros p Hp. pose proof net_loads_lt32 as H32. rewrite forallb_forall in H32.
      specialize (H32 p Hp). apply Nat.ltb_lt in H32. apply Nat.leb_le. nia. }
    rewrite Hl.
    set (ld := fun k => load32 s (k * R + i)).
    set (regs := run_net 0 net_ops (net_load net_loads ld)).
    assert (Hst : forall p, In p net_stores -> i + fst p < length m).
    { intros p Hp. pose proof net_stores_lt32 as H32. rewrite forallb_forall in H32.
      specialize (H32 p Hp). apply Nat.ltb_lt in H32. lia. }
    rewrite store_rows_ok by assumption.
    assert (Hld : forall c, c < 32 -> length (ld c) = 32).
    { intros c Hc. unfold ld. apply load32_length. nia. }
    assert (Hrows : forall r, nth r (store_at regs i net_stores m) [] =
              if (i <=? r) && (r <? i + 32) then striped_row K 32 R s r else nth r m []).
    { intros r. rewrite store_at_nth by assumption.
      destruct (Nat.leb_spec i r) as [Hle|Hgt]; [|reflexivity].
      destruct (Nat.ltb_spec r (i + 32)) as [Hlt|Hge]; cbn [andb].
      - destruct (regs_row ld (r - i) Hld ltac:(lia)) as (reg & Hls & Hreg).
        rewrite Hls. fold regs in Hreg. rewrite Hreg. unfold ld.
        rewrite block_row by (assumption || lia). f_equal. lia.
      - rewrite last_store_none; [reflexivity| |lia].
        intros p Hp. pose proof net_stores_lt32 as H32. rewrite forallb_forall in H32.
        specialize (H32 p Hp). apply Nat.ltb_lt in H32. assumption. }
    eexists. split; [reflexivity|]. split; [|split; [apply store_at_length|exact Hrows]].
    unfold wf_matrix. apply Forall_forall. intros row Hin.
    destruct (In_nth _ _ [] Hin) as (r & Hr & <-). rewrite store_at_length in Hr.
    rewrite Hrows. destruct ((i <=? r) && (r <? i + 32)).
    - apply striped_row_length.
    - apply wf_nth; assumption.
  Qed.

  (* ---------- the block loop ---------- *)

  (* the translated loop condition guarantees that a whole 32-row block exists and that
     the last of its 32 vector loads ends inside the sequence *)
  Lemma blk_cond_true i L : blk_cond i R L = true -> i + 32 <= R /\ 31 * R + i + 32 <= L.
  Proof.
    unfold blk_cond. rewrite ?andb_true_iff, ?Nat.leb_le, ?Nat.ltb_lt. lia.
  Qed.

  (* i, the source offset and the output row advance together, by one block *)
  Lemma blk_steps : blk_i_step = 32 /\ blk_src_step = 32 /\ blk_out_step = 32.
  Proof. repeat split; reflexivity. Qed.

  Lemma block_loop_spec : forall fuel i m,
    R <= i + fuel -> i <= R -> wf_matrix 32 m -> length m = R ->
    (forall r, r < i -> nth r m [] = striped_row K 32 R s r) ->
    exists i' m', block_loop fuel s R i i i m = Ok (i', m') /\ wf_matrix 32 m' /\ length m' = R /\ i' <= R /\
      forall r, r < i' -> nth r m' [] = striped_row K 32 R s r.
  Proof.
    destruct blk_steps as (Ei & Es & Eo).
    induction fuel as [|f IH]; intros i m Hf Hi Hwf Hlen Hinv.
    - cbn [block_loop]. destruct (blk_cond i R (length s)) eqn:Ec.
      + apply blk_cond_true in Ec. lia.
      + exists i, m. repeat split; auto.
    - cbn [block_loop]. destruct (blk_cond i R (length s)) eqn:Ec.
      2:{ exists i, m. repeat split; auto. }
      apply blk_cond_true in Ec. destruct Ec as [H1 H2].
      destruct (do_block_spec i m ltac:(lia) H2 Hwf) as (m1 & Hrun & Hwf1 & Hlen1 & Hrows).
      rewrite Hrun. cbn [rbind]. rewrite Ei, Es, Eo.
      apply IH; try lia; auto.
      intros r Hr. rewrite Hrows.
      destruct (Nat.leb_spec i r); destruct (Nat.ltb_spec r (i + 32)); simpl; try reflexivity; try lia.
      apply Hinv. lia.
  Qed.

  (* ---------- the scalar tail rows ---------- *)

  Definition tail_inner (r j : nat) (m2 : matrix) : res matrix :=
    if j * R + r <? length s then m_set 32 m2 r j (nth (j * R + r) s (wild K)) else Ok m2.

  Definition tail_outer (r : nat) (m1 : matrix) : res matrix :=
    for_res (seq 0 32) (tail_inner r) m1.

  Lemma tail_inner_spec m r : wf_matrix 32 m -> r < length m ->
    forall n, n <= 32 ->
    exists m', for_res (seq 0 n) (tail_inner r) m = Ok m' /\ wf_matrix 32 m' /\ length m' = length m /\
      forall r' c, c < 32 ->
        cell K m' r' c = if (r' =? r) && (c <? n) && (c * R + r <? length s)
                         then nth (c * R + r) s (wild K) else cell K m r' c.
  Proof.
    intros Hwf Hr. induction n as [|n IH]; intros Hn.
    - exists m. simpl. repeat split; auto. intros r' c Hc.
      rewrite andb_false_r. reflexivity.
    - destruct (IH ltac:(lia)) as (m1 & Hrun & Hwf1 & Hlen1 & Hc1).
      rewrite seq_S, for_res_app, Hrun. simpl. rewrite rbind_ret.
      unfold tail_inner at 1.
      destruct (Nat.ltb_spec (n * R + r) (length s)) as [Hin|Hout].
      + rewrite m_set_ok by lia.
        eexists. split; [reflexivity|]. split; [apply mset_wf; assumption|].
        split; [rewrite mset_length; assumption|].
        intros r' c Hc.
        destruct (Nat.eq_dec r' r) as [->|Hr'].
        * destruct (Nat.eq_dec c n) as [->|Hcn].
          -- rewrite (cell_mset_same K 32) by (auto; lia).
             rewrite Nat.eqb_refl. destruct (Nat.ltb_spec n (S n)); [|lia].
             destruct (Nat.ltb_spec (n * R + r) (length s)); [|lia]. reflexivity.
          -- rewrite cell_mset_other by congruence. rewrite (Hc1 r c Hc).
             rewrite Nat.eqb_refl.
             destruct (Nat.ltb_spec c n); destruct (Nat.ltb_spec c (S n)); auto; lia.
        * rewrite cell_mset_other by congruence. rewrite (Hc1 r' c Hc).
          destruct (Nat.eqb_spec r' r); [contradiction|]. reflexivity.
      + exists m1. split; [reflexivity|]. split; [assumption|]. split; [assumption|].
        intros r' c Hc. rewrite (Hc1 r' c Hc).
        destruct (Nat.eqb_spec r' r) as [->|]; [|reflexivity]. simpl.
        destruct (Nat.ltb_spec c n); destruct (Nat.ltb_spec c (S n)); simpl; auto; try lia.
        assert (c = n) by lia. subst c.
        destruct (Nat.ltb_spec (n * R + r) (length s)); [lia|reflexivity].
  Qed.

  Lemma tail_outer_spec : forall n i m, wf_matrix 32 m -> i + n <= length m ->
    exists m', for_res (seq i n) tail_outer m = Ok m' /\ wf_matrix 32 m' /\ length m' = length m /\
      forall r c, c < 32 ->
        cell K m' r c = if (i <=? r) && (r <? i + n) && (c * R + r <? length s)
                        then nth (c * R + r) s (wild K) else cell K m r c.
  Proof.
    induction n as [|n IH]; intros i m Hwf Hb.
    - exists m. simpl. repeat split; auto. intros r c Hc.
      destruct (Nat.leb_spec i r); destruct (Nat.ltb_spec r (i + 0)); simpl; auto; lia.
    - simpl. unfold tail_outer at 1.
      destruct (tail_inner_spec m i Hwf ltac:(lia) 32 (le_n _)) as (m1 & Hrun & Hwf1 & Hlen1 & Hc1).
      rewrite Hrun. simpl.
      destruct (IH (S i) m1 Hwf1 ltac:(lia)) as (m2 & Hrun2 & Hwf2 & Hlen2 & Hc2).
      exists m2. split; [assumption|]. split; [assumption|]. split; [lia|].
      intros r c Hc. rewrite (Hc2 r c Hc), (Hc1 r c Hc).
      destruct (Nat.ltb_spec c 32); [|lia].
      destruct (Nat.eqb_spec r i) as [->|Hne].
      + destruct (Nat.ltb_spec (c * R + i) (length s)); destruct (Nat.leb_spec (S i) i); destruct (Nat.leb_spec i i);
          destruct (Nat.ltb_spec i (S i + n)); destruct (Nat.ltb_spec i (i + S n));
          cbn [andb]; try reflexivity; try lia.
      + destruct (Nat.ltb_spec (c * R + r) (length s)); destruct (Nat.leb_spec (S i) r); destruct (Nat.leb_spec i r);
          destruct (Nat.ltb_spec r (S i + n)); destruct (Nat.ltb_spec r (i + S n));
          cbn [andb]; try reflexivity; try lia.
  Qed.

  (* ---------- the translated tail loop is that loop ---------- *)

  Lemma tail_consts : tail_cols = 32 /\ tail_i_step = 1.
  Proof. split; reflexivity. Qed.

  Lemma tail_cond_iff i L rows : tail_cond i 0 R L rows = true <-> i < rows.
  Proof. unfold tail_cond. rewrite ?andb_true_iff, ?Nat.leb_le, ?Nat.ltb_lt. lia. Qed.

  Lemma tail_guard_iff i j L rows : tail_guard i j R L rows = true <-> j * R + i < L.
  Proof. unfold tail_guard. rewrite ?andb_true_iff, ?Nat.leb_le, ?Nat.ltb_lt. lia. Qed.

  Lemma tail_idx i j L rows :
    tail_row i j R L rows = i /\ tail_col i j R L rows = j /\ tail_src i j R L rows = j * R + i.
  Proof. unfold tail_row, tail_col, tail_src. repeat split; lia. Qed.

  Lemma tail_body_eq i j m2 : tail_body K s R i j m2 = tail_inner i j m2.
  Proof.
    unfold tail_body, tail_inner.
    destruct (tail_idx i j (length s) (length m2)) as (Er & Ec & Es).
    pose proof (tail_guard_iff i j (length s) (length m2)) as G.
    destruct (tail_guard i j R (length s) (length m2)); destruct (Nat.ltb_spec (j * R + i) (length s)) as [Hlt|Hge].
    - rewrite Er, Ec, Es. destruct (Nat.ltb_spec (j * R + i) (length s)); [reflexivity|lia].
    - exfalso. assert (j * R + i < length s) by (apply G; reflexivity). lia.
    - exfalso. assert (false = true) by (apply G; assumption). discriminate.
    - reflexivity.
  Qed.

  Lemma tail_outer_eq i m : for_res (seq 0 tail_cols) (tail_body K s R i) m = tail_outer i m.
  Proof.
    destruct tail_consts as [Ec _]. rewrite Ec. unfold tail_outer.
    apply for_res_ext. intros j st' _. apply tail_body_eq.
  Qed.

  Lemma tail_loop_for : forall fuel i m, wf_matrix 32 m -> i <= length m -> length m - i <= fuel ->
    tail_loop K fuel s R i m = for_res (seq i (length m - i)) tail_outer m.
  Proof.
    destruct tail_consts as [_ Es].
    induction fuel as [|f IH]; intros i m Hwf Hi Hf; cbn [tail_loop];
      pose proof (tail_cond_iff i (length s) (length m)) as Hc;
      destruct (tail_cond i 0 R (length s) (length m)).
    - assert (i < length m) by (apply Hc; reflexivity). lia.
    - assert (~ i < length m) by (intros H; apply Hc in H; discriminate).
      replace (length m - i) with 0 by lia. reflexivity.
    - assert (Hlt : i < length m) by (apply Hc; reflexivity).
      replace (length m - i) with (S (length m - S i)) by lia. cbn [seq for_res].
      rewrite tail_outer_eq. rewrite Es.
      destruct (tail_inner_spec m i Hwf Hlt 32 (le_n _)) as (m1 & Hrun & Hwf1 & Hlen1 & _).
      unfold tail_outer at 1 2. rewrite Hrun. cbn [rbind].
      replace (i + 1) with (S i) by lia. rewrite IH by (auto; lia). rewrite Hlen1. reflexivity.
    - assert (~ i < length m) by (intros H; apply Hc in H; discriminate).
      replace (length m - i) with 0 by lia. reflexivity.
  Qed.

  (* ---------- the translated fill loop is fill_tail ---------- *)

  Lemma fill_avx2_eq m : fill_avx2 K s R m = fill_tail K 32 R (length s) m.
  Proof.
    unfold fill_avx2, fill_tail.
    assert (Elo : fill_lo 0 R (length s) (length m) 32 = length s) by (unfold fill_lo; lia).
    assert (Ehi : fill_hi 0 R (length s) (length m) 32 = length m * 32) by (unfold fill_hi; lia).
    rewrite Elo, Ehi. apply for_res_ext. intros k m' _.
    unfold put_striped, fill_row, fill_col. reflexivity.
  Qed.

End Block.

(* ---------- the whole kernel ---------- *)

Lemma Striped_default K C : 0 < C -> Striped K C [] s_default.
Proof.
  intros HC. unfold Striped, s_default. simpl. rewrite seq_rows_0 by assumption.
  repeat split; auto.
  - constructor.
  - intros r c Hr. lia.
Qed.

Lemma stripe_into_avx2_spec K (s : list nat) (old : sseq) :
  wf_matrix 32 (mat old) ->
  exists st, stripe_into_avx2 K s old = Ok st /\ Striped K 32 s st /\ swrap st = 0.
Proof.
  intros Hwf. unfold stripe_into_avx2.
  change ((length s + 31) / 32) with (seq_rows 32 (length s)).
  remember (length s) as L eqn:EL. remember (seq_rows 32 L) as R eqn:ER.
  destruct (Nat.eqb_spec L 0) as [E0|E0].
  - exists s_default. split; [reflexivity|]. split; [|reflexivity].
    assert (s = []) by (destruct s; [reflexivity|simpl in EL; lia]). subst s.
    apply Striped_default. lia.
  - assert (HR : 0 < R) by (rewrite ER; apply seq_rows_pos; lia).
    pose proof (seq_rows_ge 32 L ltac:(lia)) as HL. rewrite <- ER in HL.
    rewrite m_resize_length.
    destruct (Nat.eqb_spec R 0) as [|_]; [lia|]. rewrite Nat.eqb_refl. simpl.
    destruct (block_loop_spec K s R R 0 (m_resize K 32 (mat old) R))
      as (i1 & m1 & Hrun1 & Hwf1 & Hlen1 & Hi1 & Hrows1); try lia.
    { apply m_resize_wf. assumption. }
    { apply m_resize_length. }
    rewrite Hrun1. simpl.
    rewrite (tail_loop_for K s R R i1 m1 Hwf1) by lia. rewrite Hlen1.
    destruct (tail_outer_spec K s R (R - i1) i1 m1 Hwf1 ltac:(lia)) as (m2 & Hrun2 & Hwf2 & Hlen2 & Hc2).
    rewrite Hrun2. simpl.
    rewrite fill_avx2_eq. unfold fill_tail. rewrite <- EL, Hlen2, Hlen1.
    assert (HL2 : L + (R * 32 - L) <= R * 32) by lia.
    destruct (put_loop_spec K 32 R (fun _ => wild K) (R * 32 - L) L m2 Hwf2 ltac:(lia) HL2)
      as (m3 & Hrun3 & Hwf3 & Hlen3 & Hc3).
    rewrite Hrun3. simpl.
    unfold s_new. rewrite Hlen3. destruct (Nat.ltb_spec (R * 32) L) as [Hbad|_]; [lia|].
    eexists. split; [reflexivity|]. split; [|reflexivity].
    unfold Striped. cbn [mat slen swrap]. rewrite <- EL, <- ER. repeat split; auto; try lia.
    intros r c Hr Hc. rewrite Nat.add_0_r in Hr.
    rewrite (Hc3 r c Hr Hc).
    destruct (Nat.leb_spec L (c * R + r)) as [H1|H1]; simpl.
    + pose proof (idx_lt r c R 32 Hr Hc).
      destruct (Nat.ltb_spec (c * R + r) (L + (R * 32 - L))); [|lia].
      symmetry. apply nth_overflow. lia.
    + rewrite (Hc2 r c Hc). rewrite <- EL.
      destruct (Nat.ltb_spec (c * R + r) L); [|lia]. rewrite andb_true_r.
      destruct (Nat.leb_spec i1 r); destruct (Nat.ltb_spec r (i1 + (R - i1))); simpl; try reflexivity; try lia.
      unfold cell. rewrite Hrows1 by assumption. apply striped_row_nth. assumption.
Qed.

Lemma stripe_avx2_eq_generic_lemma K (s : list nat) (old : sseq) :
  wf_matrix 32 (mat old) ->
  stripe_into_avx2 K s old = stripe_into_generic K 32 s old.
Proof.
  intros Hwf.
  destruct (stripe_into_avx2_spec K s old Hwf) as (st1 & H1 & HS1 & Hw1).
  destruct (stripe_into_generic_spec K 32 s old ltac:(lia) Hwf) as (st2 & H2 & HS2 & Hw2).
  rewrite H1, H2. f_equal. apply (Striped_unique K 32 s); auto. congruence.
Qed.
