(* Property C04 -- striping is a lossless, backend-independent rearrangement. *)
From Coq Require Import List Arith Bool Lia Permutation.
From LMBase Require Import Res ListX.
From LMStripe Require Import StripeModel NetModel GenStripeNet StripeAvx2 StripeSpec StripeProofs NetProofs.
Import ListNotations.

Theorem C04_stripe_generic_spec : forall K C (s : list nat) (old : sseq),
  0 < C -> wf_matrix C (mat old) ->
  exists st, stripe_into_generic K C s old = Ok st /\ Striped K C s st /\ swrap st = 0.
Proof. exact stripe_into_generic_spec. Qed.
