(* Property C04 -- striping is a lossless, backend-independent rearrangement of the
   sequence.  Only the property theorems (closed by [exact] of lemmas from
   StripeProofs / NetProofs / Avx2Proofs / HistoryProofs), statement pins and
   non-vacuity examples.

   Notation (DESIGN.md section 3): L = length s, C columns, R = seq_rows C L =
   ceil(L/C), N = wild K = K-1 the wildcard.
     Striped K C s st  :=  every row has C cells, rows st = R + wrap st, len st = L,
                           cell r c = nth (c*R + r) s N  for all r < R + wrap st, c < C
   (one closed form for sequence rows and look-ahead rows; cells whose linear index
   is >= L hold the wildcard).  [wf_matrix C m] (every row has C cells) is the type
   invariant of DenseMatrix<_, C>; it is the only thing assumed of a reused buffer. *)
From Coq Require Import List Arith Bool Lia.
From LMBase Require Import Res ListX.
From LMStripe Require Import StripeModel NetModel GenStripeNet StripeAvx2 StripeSpec
  StripeProofs SpecProofs NetProofs Avx2Proofs HistoryProofs
  GenSeq SeqT SeqTProofs PadModel PadProofs PadHistory PadHistoryProofs
  GenPli PliT PliTProofs FullCheck FullCheckProofs Mode ModeProofs.
Import ListNotations.

(* ---------- the closed form is the wording of the property ---------- *)

(* Striped <-> "symbol i sits at row i mod R, column i div R, every other cell holds
   the wildcard, look-ahead row k = row k shifted left by one column" *)
Theorem C04_striped_iff_placement : forall K C (s : list nat) (st : sseq),
  0 < C -> (Striped K C s st <-> Placed K C s st).
Proof.
  intros K C s st HC. split.
  - exact (Striped_Placed K C s st HC).
  - exact (Placed_Striped K C s st HC).
Qed.

(* R = seq_rows C L is ceil(L/C): the least row count whose R*C cells hold L symbols *)
Theorem C04_rows_ceil : forall C L, 0 < C ->
  L <= seq_rows C L * C /\ (0 < L -> (seq_rows C L - 1) * C < L).
Proof. exact seq_rows_ceil. Qed.

(* ---------- generic striping ---------- *)

(* Stripe::stripe_into (default implementation) into ANY reused buffer: no panic, the
   result is the striped form of s with no look-ahead rows. *)
Theorem C04_stripe_generic_spec : forall K C (s : list nat) (old : sseq),
  0 < C -> wf_matrix C (mat old) ->
  exists st, stripe_into_generic K C s old = Ok st /\ Striped K C s st /\ swrap st = 0.
Proof. exact stripe_into_generic_spec. Qed.

(* Stripe::stripe (fresh matrix, row count computed the other way) *)
Theorem C04_stripe_fresh_spec : forall K C (b : backend) (s : list nat),
  0 < C -> backend_typed C b = true ->
  exists st, stripe_fresh K C (stripe_into K C b) s = Ok st /\ Striped K C s st /\ swrap st = 0.
Proof.
  intros K C b s HC Hb. apply (stripe_fresh_spec K C HC). intros old Hwf.
  exact (stripe_into_spec K C HC b s old Hb Hwf).
Qed.

(* Striped determines the whole state: "the" striped form *)
Theorem C04_striped_unique : forall K C s st1 st2,
  Striped K C s st1 -> Striped K C s st2 -> swrap st1 = swrap st2 -> st1 = st2.
Proof. exact Striped_unique. Qed.

(* ---------- the AVX2 kernel ---------- *)

(* The network translated from avx2.rs (GenStripeNet.v: 32 loads, the unpack!
   invocations, 32 stores), run on 32 vectors of 32 lanes of ANY contents, stores
   their transpose: out row r, lane c = lane r of the vector loaded at src + c*stride.
   (Reflection: one vm_compute on the coordinate matrix, NetProofs.net_coords.) *)
Theorem C04_transpose_net_correct : forall (A : Type) (d : A) (ld : nat -> list A),
  (forall k, k < 32 -> length (ld k) = 32) ->
  net_block d net_loads net_ops net_stores ld =
  map (fun r => map (fun c => nth r (ld c) d) (seq 0 32)) (seq 0 32).
Proof. exact transpose_net_lemma. Qed.

(* stripe_avx2 (block loop through the network, scalar tail rows, wildcard fill,
   empty-sequence early return; the conditions, steps and index expressions of all
   three loops are translated from avx2.rs into GenStripeNet.v and enter the proof
   through Avx2Proofs.blk_cond_true / blk_steps / tail_*_iff / tail_idx /
   fill_avx2_eq) = generic stripe_into, for every sequence and every stale buffer.  In particular the model's UB sites are never reached: no vector
   load outside the sequence slice (Panic 90), no store outside the matrix (91). *)
Theorem C04_stripe_avx2_eq_generic : forall K (s : list nat) (old : sseq),
  wf_matrix 32 (mat old) ->
  stripe_into_avx2 K s old = stripe_into_generic K 32 s old.
Proof. exact stripe_avx2_eq_generic_lemma. Qed.

Theorem C04_stripe_avx2_spec : forall K (s : list nat) (old : sseq),
  wf_matrix 32 (mat old) ->
  exists st, stripe_into_avx2 K s old = Ok st /\ Striped K 32 s st /\ swrap st = 0.
Proof. exact stripe_into_avx2_spec. Qed.

(* in particular the kernel never reaches a model failure: no vector load outside the
   sequence slice (site 90 -- the condition of the block loop, translated from avx2.rs
   as GenStripeNet.blk_cond, keeps the last of the 32 loads inside), no store outside
   the matrix (91), no failed assert (92), no index panic, enough fuel *)
Theorem C04_stripe_avx2_no_failure : forall K (s : list nat) (old : sseq),
  wf_matrix 32 (mat old) ->
  (forall site, stripe_into_avx2 K s old <> Panic site) /\
  (forall e, stripe_into_avx2 K s old <> Err e) /\
  stripe_into_avx2 K s old <> OutOfFuel.
Proof.
  intros K s old Hwf.
  destruct (stripe_into_avx2_spec K s old Hwf) as (st & H & _).
  rewrite H. repeat split; intros; discriminate.
Qed.

(* the translated loop condition, as used by the proof: a whole 32-row block exists and
   the last vector load of the block ends inside the sequence *)
Theorem C04_block_condition : forall R i L,
  blk_cond i R L = true -> i + 32 <= R /\ 31 * R + i + 32 <= L.
Proof. intros R i L. exact (blk_cond_true R i L). Qed.

(* what the loop texts translated from avx2.rs (GenStripeNet.v) mean: the scalar loop
   visits rows i < rows one by one, 32 columns each, and copies s[j*R + i] into cell
   (i, j) when that index is inside the sequence; the fill loop runs over the linear
   indices L .. rows*columns and writes cell (k mod R, k / R); every block advances
   the row counter, the source and the output by 32 *)
Theorem C04_translated_loops : forall R i j k L rows columns,
  (tail_cond i 0 R L rows = true <-> i < rows) /\
  tail_cols = 32 /\ tail_i_step = 1 /\
  (tail_guard i j R L rows = true <-> j * R + i < L) /\
  (tail_row i j R L rows = i /\ tail_col i j R L rows = j /\ tail_src i j R L rows = j * R + i) /\
  fill_lo k R L rows columns = L /\ fill_hi k R L rows columns = rows * columns /\
  fill_row k R L rows columns = k mod R /\ fill_col k R L rows columns = k / R /\
  (blk_i_step = 32 /\ blk_src_step = 32 /\ blk_out_step = 32).
Proof.
  intros R i j k L rows columns.
  split; [exact (tail_cond_iff R i L rows)|].
  split; [exact (proj1 tail_consts)|]. split; [exact (proj2 tail_consts)|].
  split; [exact (tail_guard_iff R i j L rows)|].
  split; [exact (tail_idx R i j L rows)|].
  split; [unfold fill_lo; lia|]. split; [unfold fill_hi; lia|].
  split; [reflexivity|]. split; [reflexivity|exact blk_steps].
Qed.

(* Pipeline<A, Dispatch>::stripe_into: whichever arm runs (table translated from
   dispatch.rs), the result is the generic one *)
Theorem C04_stripe_dispatch_eq : forall K (a : arm) (s : list nat) (old : sseq),
  wf_matrix 32 (mat old) ->
  kernel_into K 32 (disp_stripe a) s old = stripe_into_generic K 32 s old.
Proof. exact stripe_dispatch_eq_lemma. Qed.

(* every pipeline that exists for the column count (generic: any C; avx2 and
   dispatch/any arm: C = 32) gives the generic result, into any buffer *)
Theorem C04_stripe_backend_independent : forall K C (b : backend) (s : list nat) (old : sseq),
  0 < C -> backend_typed C b = true -> wf_matrix C (mat old) ->
  stripe_into K C b s old = stripe_into_generic K C s old.
Proof. intros K C b s old HC. exact (stripe_into_backend_indep K C HC b s old). Qed.

(* ---------- look-ahead rows ---------- *)

(* configure_wrap(k), any k (also k > R, where look-ahead rows are copied from
   look-ahead rows built earlier in the same call): no panic, still the striped form
   of the same sequence, wrap' = max wrap k *)
Theorem C04_configure_wrap_spec : forall K C (s : list nat) (st : sseq) (k : nat),
  0 < C -> Striped K C s st ->
  exists st', configure_wrap K C k st = Ok st' /\ Striped K C s st' /\
              swrap st' = Nat.max (swrap st) k.
Proof. intros K C s st k HC. exact (configure_wrap_spec K C HC s st k). Qed.

Theorem C04_configure_spec : forall K C (s : list nat) (st : sseq) (M : nat),
  0 < C -> Striped K C s st ->
  exists st', configure K C M st = Ok st' /\ Striped K C s st' /\
              swrap st' = if M =? 0 then swrap st else Nat.max (swrap st) (M - 1).
Proof. intros K C s st M HC. exact (configure_spec K C HC s st M). Qed.

(* look-ahead row k (matrix row R+k) is matrix row k shifted left by one column,
   wildcard in the last column *)
Theorem C04_wrap_row_shift : forall K C (s : list nat) (st : sseq) (k : nat),
  0 < C -> Striped K C s st -> k < swrap st ->
  nth (seq_rows C (length s) + k) (mat st) [] = shift_row K (nth k (mat st) []).
Proof. exact wrap_row_shift_lemma. Qed.

(* ---------- histories ---------- *)

(* Any list of stripe_into / stripe / configure / configure_wrap calls (any
   pipelines that exist for C, any sequences, any widths, any order) on one buffer:
   no panic; the buffer is the striped form of the sequence striped LAST; its wrap is
   what the configure calls since then demand. *)
Theorem C04_striped_history : forall K C (ops : list op) (s : list nat) (st : sseq),
  0 < C -> Striped K C s st -> forallb (op_typed C) ops = true ->
  exists st', run K C st ops = Ok st' /\ Striped K C (last_seq s ops) st' /\
              swrap st' = wrap_after (swrap st) ops.
Proof. intros K C ops s st HC. exact (run_spec K C HC ops s st). Qed.

(* ... starting from ANY buffer (stale contents, stale len / wrap) when the history
   begins with a stripe_into *)
Theorem C04_history_stale_start : forall K C (b : backend) (s0 : list nat) (ops : list op) (old : sseq),
  0 < C -> wf_matrix C (mat old) -> forallb (op_typed C) (OStripeInto b s0 :: ops) = true ->
  exists st', run K C old (OStripeInto b s0 :: ops) = Ok st' /\
              Striped K C (last_seq s0 ops) st' /\ swrap st' = wrap_after 0 ops.
Proof.
  intros K C b s0 ops old HC Hwf Ht. cbn [forallb op_typed] in Ht.
  apply andb_true_iff in Ht. destruct Ht as [Hb Ht].
  destruct (stripe_into_spec K C HC b s0 old Hb Hwf) as (st1 & H1 & HS1 & Hw1).
  destruct (run_spec K C HC ops s0 st1 HS1 Ht) as (st2 & H2 & HS2 & Hw2).
  exists st2. cbn [run step]. rewrite H1. cbn [rbind]. rewrite <- Hw1. auto.
Qed.

(* ... starting from StripedSequence::default(), and after every prefix *)
Theorem C04_history_from_default : forall K C (ops : list op) (n : nat),
  0 < C -> forallb (op_typed C) ops = true ->
  exists st', run K C s_default (firstn n ops) = Ok st' /\
              Striped K C (last_seq [] (firstn n ops)) st' /\
              swrap st' = wrap_after 0 (firstn n ops).
Proof.
  intros K C ops n HC Ht.
  exact (run_prefix_spec K C HC ops [] s_default n (Striped_default K C HC) Ht).
Qed.

(* the whole history is backend independent *)
Theorem C04_history_backend_independent : forall K C (ops : list op) (s : list nat) (st : sseq),
  0 < C -> Striped K C s st -> forallb (op_typed C) ops = true ->
  run K C st ops = run K C st (map generic_op ops).
Proof. intros K C ops s st HC. exact (run_backend_indep K C HC ops s st). Qed.

(* ---------- Index and symbol counts ---------- *)

(* Index<usize>, with or without look-ahead rows: position i of the linear sequence
   (the wildcard for L <= i < R*C, a panic beyond) *)
Theorem C04_index_spec : forall K C (s : list nat) (st : sseq) (i : nat),
  0 < C -> Striped K C s st ->
  (i < seq_rows C (length s) * C -> s_index K C st i = Ok (nth i s (wild K))) /\
  (seq_rows C (length s) * C <= i -> exists site, s_index K C st i = Panic site).
Proof. exact s_index_spec. Qed.

(* lossless: the striped form determines the sequence (two sequences with the same
   striped form are equal), because indexing gives every symbol back *)
Theorem C04_lossless : forall K C (s s' : list nat) (st : sseq),
  0 < C -> Striped K C s st -> Striped K C s' st -> s = s'.
Proof. exact Striped_lossless. Qed.

(* count_symbols / count_symbol = those of the linear sequence *)
Theorem C04_count_symbols_spec : forall K C (s : list nat) (st : sseq),
  0 < C -> Striped K C s st -> Forall (fun y => y < K) s ->
  count_symbols K C st = Ok (lin_counts K s) /\
  forall x, count_symbol K C st x = Ok (lin_count s x).
Proof.
  intros K C s st HC HS Hsym. split.
  - exact (count_symbols_lemma K C HC s st HS Hsym).
  - exact (count_symbol_lemma K C HC s st HS).
Qed.

(* after any history: indexing and counting see the sequence striped last *)
Theorem C04_history_index_counts : forall K C (ops : list op) (s : list nat) (st : sseq) (i : nat),
  0 < C -> Striped K C s st -> forallb (op_typed C) ops = true ->
  Forall (fun y => y < K) (last_seq s ops) ->
  exists st', run K C st ops = Ok st' /\
    (i < length (last_seq s ops) -> s_index K C st' i = Ok (nth i (last_seq s ops) (wild K))) /\
    count_symbols K C st' = Ok (lin_counts K (last_seq s ops)).
Proof.
  intros K C ops s st i HC HS Ht Hsym.
  destruct (run_spec K C HC ops s st HS Ht) as (st' & Hrun & HS' & _).
  exists st'. split; [exact Hrun|]. split.
  - intros Hi. apply (s_index_spec K C _ st' i HC HS').
    pose proof (seq_rows_ge C (length (last_seq s ops)) HC). lia.
  - exact (count_symbols_lemma K C HC _ st' HS' Hsym).
Qed.

(* ---------- the extracted checker ---------- *)

(* what the checker accepts is what the property demands of an observation *)
Theorem C04_check_sound : forall K C (s : list nat) (ob : obs),
  0 < C -> check_C04 K C s ob = true -> Holds_C04 K C s ob.
Proof. exact check_C04_sound_lemma. Qed.

(* the check on the state alone is also complete *)
Theorem C04_check_striped_iff : forall K C (s : list nat) (st : sseq),
  check_striped K C s st = true <-> Striped K C s st.
Proof.
  intros K C s st. split.
  - exact (check_striped_sound_lemma K C s st).
  - exact (check_striped_complete_lemma K C s st).
Qed.

(* the state part of check_C04 is the fast check: sound and complete *)
Theorem C04_check_fast_iff : forall K C (s : list nat) (st : sseq),
  0 < C -> (check_striped_fast K C s st = true <-> Striped K C s st).
Proof.
  intros K C s st HC. split.
  - exact (check_fast_sound K C s st HC).
  - exact (check_fast_complete K C s st HC).
Qed.

(* the property in executable form: after any history the model's own observation
   passes the checker *)
Theorem C04_model_passes : forall K C (ops : list op) (s : list nat) (st : sseq) (idx : list nat),
  0 < C -> Striped K C s st -> forallb (op_typed C) ops = true ->
  Forall (fun y => y < K) (last_seq s ops) ->
  exists st', run K C st ops = Ok st' /\
              check_C04 K C (last_seq s ops) (observe K C st' idx) = true.
Proof.
  intros K C ops s st idx HC HS Ht Hsym.
  destruct (run_spec K C HC ops s st HS Ht) as (st' & Hrun & HS' & _).
  exists st'. split; [exact Hrun|].
  exact (model_passes_C04_lemma K C _ st' idx HC Hsym HS').
Qed.

(* ---------- seq.rs as translated text ---------- *)

(* The statement lists of StripedSequence::{new, configure, configure_wrap}, Index<usize>
   and count_symbol(s) regenerated from seq.rs (GenSeq.v: every condition, loop range,
   index expression, the constant DEFAULT_EXTRA_ROWS), assembled in SeqT.v, ARE the model
   functions all theorems above speak about.  (new: the Result of the translated text,
   the hand model is new(..).unwrap().) *)
Theorem C04_seq_translated : forall K C (st : sseq), 0 < C ->
  (forall k, configure_wrap_t K C k st = configure_wrap K C k st) /\
  (forall M, configure_t K C M st = configure K C M st) /\
  (forall i, s_index_t K C st i = s_index K C st i) /\
  (forall x, count_symbol_t K C st x = count_symbol K C st x) /\
  count_symbols_t K C st = count_symbols K C st /\
  (forall data len, s_new C data len = match s_new_t C data len with Err _ => Panic 4 | r => r end) /\
  default_extra_rows = 32.
Proof.
  intros K C st HC.
  split; [intros k; exact (configure_wrap_t_eq K C HC k st)|].
  split; [intros M; exact (configure_t_eq K C HC M st)|].
  split; [intros i; exact (s_index_t_eq K C st i)|].
  split; [intros x; exact (count_symbol_t_eq K C st x)|].
  split; [exact (count_symbols_t_eq K C st)|].
  split; [intros data len; exact (s_new_t_eq C data len)|exact default_extra_rows_value].
Qed.

(* the dispatcher compiled for arm / aarch64 (arm table and lane count regenerated from
   dispatch.rs / neon.rs): whichever arm runs, the result is the generic one at 16 columns *)
Theorem C04_stripe_dispatch_arm_eq : forall K (a : arm_neon) (s : list nat) (old : sseq),
  disp_lanes_arm = 16 /\
  kernel_into K disp_lanes_arm (disp_stripe_arm a) s old = stripe_into_generic K disp_lanes_arm s old.
Proof. intros K a s old. split; [reflexivity|]. destruct a; reflexivity. Qed.

(* ---------- arbitrary padding: StripedSequence::sample and ::new ---------- *)

(* StripedPad s st: st is the striped form of s followed by SOME padding filling the
   sequence rows, len() = |s|.  Wildcard padding is the special case. *)
Theorem C04_pad_generalises : forall K C s st, 0 < C -> Striped K C s st -> StripedPad K C s st.
Proof. intros K C s st HC. exact (Striped_StripedPad K C HC s st). Qed.

(* [BEFORE the repair of /repo 740d563; the repaired function is C04_sample_striped below]
   StripedSequence::sample on an explicit stream of draws: never fails; cell (r, c) is
   draw r*C + c (row-major, every cell of every row, padding included); len = length;
   position i of the logical sequence is draw (i mod R)*C + i/R; EncodedSequence::sample
   on the same stream is its first `len` draws *)
Theorem C04_sample_spec : forall K C (stream : nat -> nat) (len : nat), 0 < C ->
  (exists st, striped_sample C stream len = Ok st /\
     mat st = sample_matrix C stream len /\ slen st = len /\ swrap st = 0 /\
     logical_seq K C st = sample_seq C stream len /\
     StripedPad K C (sample_seq C stream len) st) /\
  (forall r c, r < seq_rows C len -> c < C ->
     nth c (nth r (sample_matrix C stream len) []) (wild K) = stream (r * C + c)) /\
  length (enc_sample stream len) = len /\
  (forall i, i < len -> nth i (enc_sample stream len) (wild K) = stream i).
Proof.
  intros K C stream len HC.
  split; [exact (sample_pad K C HC stream len)|].
  split; [intros r c; exact (sample_matrix_cell K C HC stream len r c)|].
  exact (enc_sample_spec K stream len).
Qed.

(* StripedSequence::new(matrix, length) with ANY contents: Ok iff rows*C >= length; the
   result holds its first `length` cells in linear order, the other cells are padding *)
Theorem C04_new_spec : forall K C (m : matrix) (l : nat), 0 < C -> wf_matrix C m ->
  (l <= length m * C -> s_new_t C m l = Ok (mkS m l 0) /\
                        StripedPad K C (logical_seq K C (mkS m l 0)) (mkS m l 0)) /\
  (length m * C < l -> s_new_t C m l = Err 2).
Proof. intros K C m l HC. exact (new_pad K C HC m l). Qed.

(* what SURVIVES arbitrary padding: configure_wrap / configure ... *)
Theorem C04_pad_configure_wrap : forall K C s st k, 0 < C -> StripedPad K C s st ->
  exists st', configure_wrap K C k st = Ok st' /\ StripedPad K C s st' /\
              swrap st' = Nat.max (swrap st) k.
Proof. intros K C s st k HC. exact (configure_wrap_pad K C HC s st k). Qed.

(* ... look-ahead rows as shifted copies ... *)
Theorem C04_pad_wrap_row_shift : forall K C s st k, 0 < C -> StripedPad K C s st -> k < swrap st ->
  nth (length (mat st) - swrap st + k) (mat st) [] = shift_row K (nth k (mat st) []).
Proof. intros K C s st k HC. exact (wrap_row_shift_pad K C HC s st k). Qed.

(* ... Index inside the sequence, losslessness ... *)
Theorem C04_pad_index : forall K C s st i, 0 < C -> StripedPad K C s st -> i < length s ->
  s_index K C st i = Ok (nth i s (wild K)).
Proof. intros K C s st i HC. exact (index_pad K C HC s st i). Qed.

Theorem C04_pad_lossless : forall K C s s' st, 0 < C ->
  StripedPad K C s st -> StripedPad K C s' st -> s = s'.
Proof. intros K C s s' st HC. exact (pad_lossless K C HC s s' st). Qed.

(* ... symbol counts (the padding is never counted, whatever it holds) ... *)
Theorem C04_pad_counts : forall K C s st, 0 < C -> StripedPad K C s st -> Forall (fun y => y < K) s ->
  count_symbols K C st = Ok (lin_counts K s) /\ forall x, count_symbol K C st x = Ok (lin_count s x).
Proof. intros K C s st HC. exact (counts_pad K C HC s st). Qed.

(* ... striping into such a buffer (back to wildcard padding) ... *)
Theorem C04_pad_stripe_into_restores : forall K C b q s st, 0 < C -> backend_typed C b = true ->
  StripedPad K C s st ->
  exists st', stripe_into K C b q st = Ok st' /\ Striped K C q st' /\ swrap st' = 0.
Proof.
  intros K C b q s st HC Hb HP.
  exact (stripe_into_spec K C HC b q st Hb (StripedPad_wf K C s st HP)).
Qed.

(* ... and whole histories mixing sample / new / stripe_into / stripe / configure /
   configure_wrap (the latter two as translated text): no failure, the buffer holds
   seq_after with some padding *)
Theorem C04_pad_history : forall K C (ops : list op2) s st, 0 < C ->
  StripedPad K C s st -> forallb (op2_ok C) ops = true ->
  exists st', run2 K C st ops = Ok st' /\ StripedPad K C (seq_after K C s ops) st'.
Proof. intros K C ops s st HC. exact (run2_spec K C HC ops s st). Qed.

(* what does NOT survive: in the padding Index returns the padding symbol, not the
   wildcard (C04_index_spec's value for L <= i < R*C); hence Striped, C04_striped_unique,
   the wildcard clause of Placed and check_C04 / check_striped(_fast) fail for such
   states -- see ex_pad_* below *)
Theorem C04_pad_index_in_padding : forall K C s st i, 0 < C -> StripedPad K C s st ->
  length s <= i -> i < (length (mat st) - swrap st) * C ->
  exists pad, length (s ++ pad) = (length (mat st) - swrap st) * C /\
              s_index K C st i = Ok (nth (i - length s) pad (wild K)).
Proof. intros K C s st i HC. exact (index_in_padding K C HC s st i). Qed.

(* the checker used for states built by sample / new *)
Theorem C04_check_pad_sound : forall K C s ob, 0 < C ->
  check_C04_pad K C s ob = true -> Holds_C04_pad K C s ob.
Proof. intros K C s ob HC. exact (check_C04_pad_sound K C HC s ob). Qed.

(* ---------- pli/mod.rs (trait Stripe, provided methods) as translated text ---------- *)

(* The statement lists of Stripe::stripe and Stripe::stripe_into regenerated from pli/mod.rs
   (GenPli.v: the two row-count formulas, capacity, reserve / resize arguments, the index
   expressions of the symbol loop and of the fill loop, the fill range, the arguments of
   StripedSequence::new), assembled in PliT.v, ARE the generic model functions all theorems
   above speak about; so are the pipelines and the history step built on them (except for
   sample: step2's OSample is the function BEFORE the repair of /repo 740d563, step2_t's the
   repaired one -- C04_sample_striped). *)
Theorem C04_pli_translated : forall K C, 0 < C ->
  (forall s old, stripe_into_generic_t K C s old = stripe_into_generic K C s old) /\
  (forall b s old, stripe_into_t K C b s old = stripe_into K C b s old) /\
  (forall b s, stripe_fresh_t K C (stripe_into_t K C b) s = stripe_fresh K C (stripe_into K C b) s) /\
  (forall st o, (forall draws len, o <> OSample draws len) -> step2_t K C st o = step2 K C st o).
Proof.
  intros K C HC.
  split; [intros s old; exact (stripe_into_generic_t_eq K C HC s old)|].
  split; [intros b s old; exact (stripe_into_t_eq K C HC b s old)|].
  split; [|intros st o; exact (step2_t_eq K C HC st o)].
  intros b s. apply (stripe_fresh_t_eq K C HC). intros q st. exact (stripe_into_t_eq K C HC b q st).
Qed.

(* what the translated expressions mean: both methods compute R = ceil(L/C) rows (by two
   different formulas), resize to R rows, reserve R + DEFAULT_EXTRA_ROWS; symbol i and fill
   index i go to cell (i mod R, i / R); the fill runs over L .. rows()*columns(); new gets L *)
Theorem C04_pli_expressions : forall L C rows cap dr i, 0 < C ->
  si_rows L C default_extra_rows = seq_rows C L /\ si_rows_ok L C default_extra_rows = true /\
  st_rows L C default_extra_rows = seq_rows C L /\
  si_capacity L C default_extra_rows rows = rows + default_extra_rows /\
  st_capacity L C default_extra_rows rows = rows + default_extra_rows /\
  si_reserve L C default_extra_rows rows cap = cap /\ si_resize L C default_extra_rows rows cap = rows /\
  st_mrows L C default_extra_rows rows cap = rows /\ st_mcap L C default_extra_rows rows cap = cap /\
  (si_w_row L C default_extra_rows rows cap dr i = i mod rows /\ si_w_col L C default_extra_rows rows cap dr i = i / rows) /\
  (si_f_lo L C default_extra_rows rows cap dr = L /\ si_f_hi L C default_extra_rows rows cap dr = dr * C) /\
  (si_f_row L C default_extra_rows rows cap dr i = i mod rows /\ si_f_col L C default_extra_rows rows cap dr i = i / rows) /\
  si_newlen L C default_extra_rows rows cap = L /\ st_newlen L C default_extra_rows rows cap = L.
Proof.
  intros L C rows cap dr i HC.
  split; [unfold si_rows, seq_rows; first [reflexivity | apply (f_equal (fun x => Nat.div x C)); lia]|].
  split; [unfold si_rows_ok; repeat (apply andb_true_iff; split); try reflexivity; apply Nat.leb_le; lia|].
  split; [first [exact (rows_fresh_eq C L HC)
                | unfold st_rows, seq_rows; apply (f_equal (fun x => Nat.div x C)); lia]|].
  split; [unfold si_capacity; lia|].
  split; [unfold st_capacity; lia|].
  repeat split; try reflexivity;
    unfold si_reserve, si_resize, st_mrows, st_mcap, si_f_lo, si_f_hi, si_newlen, st_newlen; lia.
Qed.

(* (seeded/C04/5) stripe_into OVERWRITES the destination completely: whatever the reused buffer
   held -- any matrix of C-cell rows, longer or shorter, any stale len / wrap -- the result is
   the same, has exactly R rows and no look-ahead rows, and every cell (r, c) of them is
   determined by the sequence alone: symbol c*R + r, or the wildcard when that is beyond the
   end.  In particular for L < C (R = 1) and for L a multiple of R but not of C, where whole
   columns after the end of the sequence are padding. *)
Theorem C04_stripe_into_overwrites_everything : forall K C (b : backend) (s : list nat) (old1 old2 : sseq),
  0 < C -> backend_typed C b = true -> wf_matrix C (mat old1) -> wf_matrix C (mat old2) ->
  stripe_into_t K C b s old1 = stripe_into_t K C b s old2 /\
  exists st, stripe_into_t K C b s old1 = Ok st /\
    length (mat st) = seq_rows C (length s) /\ swrap st = 0 /\ slen st = length s /\
    forall r c, r < seq_rows C (length s) -> c < C ->
      nth c (nth r (mat st) []) (wild K) =
      if c * seq_rows C (length s) + r <? length s then nth (c * seq_rows C (length s) + r) s (wild K) else wild K.
Proof. intros K C b s old1 old2 HC. exact (stripe_into_overwrites K C HC b s old1 old2). Qed.

(* seq.rs StripedSequence::sample / EncodedSequence::sample as translated text (GenPli.v): the row
   count of sample is the model's sample_rows = ceil(len / C) -- exactly the R rows of the property --,
   new gets len, EncodedSequence::sample takes len draws; the fill order (every row, left to right,
   the next C draws) is matched as a statement skeleton by the translator and replayed by `sm` ops *)
Theorem C04_sample_translated : forall len C, 0 < C ->
  sm_rows len C default_extra_rows = sample_rows C len /\ sm_rows_ok len C default_extra_rows = true /\
  sample_rows C len = seq_rows C len /\
  sm_newlen len C default_extra_rows = len /\ sm_take len C default_extra_rows = len /\
  (forall rows i, sm_f_lo len C default_extra_rows rows = len /\ sm_f_hi len C default_extra_rows rows = rows * C /\
                  sm_f_row len C default_extra_rows rows i = i mod rows /\ sm_f_col len C default_extra_rows rows i = i / rows).
Proof.
  intros len C HC.
  split; [unfold sm_rows, sample_rows; first [reflexivity | apply (f_equal (fun x => Nat.div x C)); lia]|].
  split; [unfold sm_rows_ok; repeat (apply andb_true_iff; split); try reflexivity; apply Nat.leb_le; lia|].
  split; [unfold sample_rows, seq_rows; apply (f_equal (fun x => Nat.div x C)); lia|].
  split; [unfold sm_newlen; first [reflexivity | lia]|].
  split; [unfold sm_take; first [reflexivity | lia]|].
  intros rows i. repeat split; try reflexivity; unfold sm_f_lo, sm_f_hi; lia.
Qed.

(* (/repo 740d563) StripedSequence::sample as repaired -- the translated text striped_sample_fix: rows*C
   draws fill the matrix row by row, then every cell past the end of the sequence is overwritten with
   the wildcard -- never fails and yields the FULL striped invariant of the sampled sequence
   (position i = draw (i mod R)*C + i/R): wildcard padding, so every C04 theorem above (uniqueness,
   Index in the padding, counts, configure, histories, scoring through C01) applies to a sampled
   sequence; no padded mode is needed for it. *)
Theorem C04_sample_striped : forall K C (stream : nat -> nat) (len : nat), 0 < C ->
  exists st, striped_sample_fix K C stream len = Ok st /\
    Striped K C (sample_seq C stream len) st /\ swrap st = 0 /\ slen st = len /\
    forall r c, r < seq_rows C len -> c < C ->
      nth c (nth r (mat st) []) (wild K) =
      if c * seq_rows C len + r <? len then stream (r * C + c) else wild K.
Proof. intros K C stream len HC. exact (sample_fix_spec K C HC stream len). Qed.

(* before the repair (PadModel.striped_sample: the padding keeps the further draws) the sampled state
   was only StripedPad (C04_sample_spec) and in general NOT Striped: *)
Theorem C04_sample_prefix_striped_refuted :
  exists K C stream len st, 0 < C /\ striped_sample C stream len = Ok st /\
    StripedPad K C (sample_seq C stream len) st /\ ~ Striped K C (sample_seq C stream len) st.
Proof.
  exists 5, 4, (stream_of [0; 1; 2; 3; 0; 1; 2; 3]), 6, (mkS [[0; 1; 2; 3]; [0; 1; 2; 3]] 6 0).
  split; [lia|]. split; [vm_compute; reflexivity|]. split.
  - apply (check_pad_sound 5 4); [lia|]. vm_compute. reflexivity.
  - intros H. apply (C04_check_fast_iff 5 4) in H; [|lia]. vm_compute in H. discriminate.
Qed.

(* ---------- Clone and the From conversions ---------- *)

(* histories that also clone the buffer (derived Clone: the copy is the same logical state;
   Vec capacity is not part of it), build it with From<EncodedSequence> (= to_striped) or
   send it through DenseMatrix::from(striped) and StripedSequence::new: no failure, the
   buffer holds seq_after3 with some padding *)
Theorem C04_conversions_history : forall K C (ops : list op3) s st, 0 < C ->
  StripedPad K C s st -> forallb (op3_ok C) ops = true ->
  exists st', run3 K C st ops = Ok st' /\ StripedPad K C (seq_after3 K C s st ops) st'.
Proof. intros K C ops s st HC. exact (run3_spec K C HC ops s st). Qed.

(* each of them: the clone is the same state; From<EncodedSequence> gives the striped form with
   wildcard padding and no look-ahead rows; DenseMatrix::from + new keeps the matrix and resets
   wrap -- the identity (same state, same logical sequence) exactly when there were no
   look-ahead rows (with look-ahead rows they become sequence rows: ex_via_matrix_with_wrap) *)
Theorem C04_conversions_spec : forall K C s st, 0 < C -> StripedPad K C s st ->
  step3 K C st OClone = Ok st /\
  (forall a q, C = 32 -> exists st', step3 K C st (OFromEnc a q) = Ok st' /\ Striped K C q st' /\ swrap st' = 0) /\
  step3 K C st OViaMatrix = Ok (mkS (mat st) (slen st) 0) /\
  (swrap st = 0 -> step3 K C st OViaMatrix = Ok st /\ seq_after3_1 K C s st OViaMatrix = s).
Proof. intros K C s st HC. exact (conversions_spec K C HC s st). Qed.

(* ---------- the checker, completed (review of round 3) ---------- *)

(* Index at sampled positions BEYOND the end of the sequence is decided by the extracted checker
   too: inside the matrix (L <= i < R*C) it is the wildcard, beyond it (R*C <= i) a panic *)
Theorem C04_check_full_sound : forall K C (s : list nat) (ob : obs),
  0 < C -> check_C04_full K C s ob = true ->
  Holds_C04 K C s ob /\
  forall i r, In (i, r) (o_index ob) ->
    (length s <= i -> i < seq_rows C (length s) * C -> r = Ok (wild K)) /\
    (seq_rows C (length s) * C <= i -> exists site, r = Panic site).
Proof. intros K C s ob HC. exact (check_C04_full_sound K C HC s ob). Qed.

(* after any history the model's own observation passes the completed checker *)
Theorem C04_model_passes_full : forall K C (ops : list op) (s : list nat) (st : sseq) (idx : list nat),
  0 < C -> Striped K C s st -> forallb (op_typed C) ops = true ->
  Forall (fun y => y < K) (last_seq s ops) ->
  exists st', run K C st ops = Ok st' /\
              check_C04_full K C (last_seq s ops) (observe K C st' idx) = true.
Proof.
  intros K C ops s st idx HC HS Ht Hsym.
  destruct (run_spec K C HC ops s st HS Ht) as (st' & Hrun & HS' & _).
  exists st'. split; [exact Hrun|].
  exact (model_passes_full K C HC _ st' idx Hsym HS').
Qed.

(* "generic and AVX2 striping agree", decided by extracted code from the two states the harness
   prints (not by a boolean computed in Rust): accepted only if the two states are EQUAL (and the
   striped form of s); and the two kernels of the model, run on any two well-formed buffers, are
   accepted *)
Theorem C04_check_agree_sound : forall K C (s : list nat) (g a : sseq),
  0 < C -> check_agree K C s g a = true -> g = a /\ Striped K C s g.
Proof. intros K C s g a HC. exact (check_agree_sound K C HC s g a). Qed.

Theorem C04_check_agree_complete : forall K (s : list nat) (old1 old2 : sseq),
  wf_matrix 32 (mat old1) -> wf_matrix 32 (mat old2) ->
  exists g a, stripe_into K 32 BGeneric s old1 = Ok g /\ stripe_into K 32 BAvx2 s old2 = Ok a /\
              check_agree K 32 s g a = true.
Proof. intros K s old1 old2. apply (check_agree_model K 32); [lia|reflexivity]. Qed.

(* a history that begins with Stripe::stripe / to_striped (a fresh matrix): the old buffer does
   not matter at all, not even its row width *)
Theorem C04_history_stale_start_stripe : forall K C (b : backend) (s0 : list nat) (ops : list op) (old : sseq),
  0 < C -> forallb (op_typed C) (OStripe b s0 :: ops) = true ->
  exists st', run K C old (OStripe b s0 :: ops) = Ok st' /\
              Striped K C (last_seq s0 ops) st' /\ swrap st' = wrap_after 0 ops.
Proof. intros K C b s0 ops old HC. exact (history_stale_start_stripe K C HC b s0 ops old). Qed.

(* ---------- the padding mode along a history ---------- *)

(* Which checker decides after each op (Mode.pad_after, extracted and used by the driver): any
   history over ALL modelled operations -- stripe_into / stripe / configure / configure_wrap,
   sample, new, clone, From<EncodedSequence>, DenseMatrix::from + new -- never fails, keeps the
   padded invariant, and keeps the wildcard-padded invariant `Striped` (uniqueness, Index in the
   padding = wildcard, check_C04_full) whenever the mode is "not padded": i.e. from the last stripe /
   to_striped / From<EncodedSequence> on, through clones, configure calls and matrix round trips
   without look-ahead rows *)
Theorem C04_mode_history : forall K C (ops : list op3) (s : list nat) (st : sseq) (pad : bool), 0 < C ->
  (pad = false -> Striped K C s st) -> StripedPad K C s st -> forallb (op3_ok C) ops = true ->
  exists st', run3 K C st ops = Ok st' /\
    StripedPad K C (seq_after3 K C s st ops) st' /\
    (pad_after K C pad st ops = false -> Striped K C (seq_after3 K C s st ops) st').
Proof. intros K C ops s st pad HC. exact (mode_history K C HC ops s st pad). Qed.

(* ... and in that mode the model's own observation passes the completed checker *)
Theorem C04_mode_model_passes : forall K C (ops : list op3) (s : list nat) (st : sseq) (idx : list nat), 0 < C ->
  Striped K C s st -> forallb (op3_ok C) ops = true ->
  Forall (fun y => y < K) (seq_after3 K C s st ops) ->
  pad_after K C false st ops = false ->
  exists st', run3 K C st ops = Ok st' /\
    check_mode K C (pad_after K C false st ops) (seq_after3 K C s st ops) (observe K C st' idx) = true.
Proof. intros K C ops s st idx HC. exact (mode_model_passes K C HC ops s st idx). Qed.

(* ---------- statement pins ---------- *)

Check C04_stripe_generic_spec : forall K C (s : list nat) (old : sseq),
  0 < C -> wf_matrix C (mat old) ->
  exists st, stripe_into_generic K C s old = Ok st /\ Striped K C s st /\ swrap st = 0.
Check C04_transpose_net_correct : forall (A : Type) (d : A) (ld : nat -> list A),
  (forall k, k < 32 -> length (ld k) = 32) ->
  net_block d net_loads net_ops net_stores ld =
  map (fun r => map (fun c => nth r (ld c) d) (seq 0 32)) (seq 0 32).
Check C04_stripe_avx2_eq_generic : forall K (s : list nat) (old : sseq),
  wf_matrix 32 (mat old) -> stripe_into_avx2 K s old = stripe_into_generic K 32 s old.
Check C04_stripe_dispatch_eq : forall K (a : arm) (s : list nat) (old : sseq),
  wf_matrix 32 (mat old) -> kernel_into K 32 (disp_stripe a) s old = stripe_into_generic K 32 s old.
Check C04_configure_wrap_spec : forall K C (s : list nat) (st : sseq) (k : nat),
  0 < C -> Striped K C s st ->
  exists st', configure_wrap K C k st = Ok st' /\ Striped K C s st' /\ swrap st' = Nat.max (swrap st) k.
Check C04_wrap_row_shift : forall K C (s : list nat) (st : sseq) (k : nat),
  0 < C -> Striped K C s st -> k < swrap st ->
  nth (seq_rows C (length s) + k) (mat st) [] = shift_row K (nth k (mat st) []).
Check C04_striped_history : forall K C (ops : list op) (s : list nat) (st : sseq),
  0 < C -> Striped K C s st -> forallb (op_typed C) ops = true ->
  exists st', run K C st ops = Ok st' /\ Striped K C (last_seq s ops) st' /\
              swrap st' = wrap_after (swrap st) ops.
Check C04_index_spec : forall K C (s : list nat) (st : sseq) (i : nat),
  0 < C -> Striped K C s st ->
  (i < seq_rows C (length s) * C -> s_index K C st i = Ok (nth i s (wild K))) /\
  (seq_rows C (length s) * C <= i -> exists site, s_index K C st i = Panic site).
Check C04_count_symbols_spec : forall K C (s : list nat) (st : sseq),
  0 < C -> Striped K C s st -> Forall (fun y => y < K) s ->
  count_symbols K C st = Ok (lin_counts K s) /\ forall x, count_symbol K C st x = Ok (lin_count s x).
Check C04_check_sound : forall K C (s : list nat) (ob : obs),
  0 < C -> check_C04 K C s ob = true -> Holds_C04 K C s ob.
Check C04_striped_iff_placement : forall K C (s : list nat) (st : sseq),
  0 < C -> (Striped K C s st <-> Placed K C s st).

Check C04_stripe_into_overwrites_everything : forall K C (b : backend) (s : list nat) (old1 old2 : sseq),
  0 < C -> backend_typed C b = true -> wf_matrix C (mat old1) -> wf_matrix C (mat old2) ->
  stripe_into_t K C b s old1 = stripe_into_t K C b s old2 /\
  exists st, stripe_into_t K C b s old1 = Ok st /\
    length (mat st) = seq_rows C (length s) /\ swrap st = 0 /\ slen st = length s /\
    forall r c, r < seq_rows C (length s) -> c < C ->
      nth c (nth r (mat st) []) (wild K) =
      if c * seq_rows C (length s) + r <? length s then nth (c * seq_rows C (length s) + r) s (wild K) else wild K.
Check C04_pli_translated : forall K C, 0 < C ->
  (forall s old, stripe_into_generic_t K C s old = stripe_into_generic K C s old) /\
  (forall b s old, stripe_into_t K C b s old = stripe_into K C b s old) /\
  (forall b s, stripe_fresh_t K C (stripe_into_t K C b) s = stripe_fresh K C (stripe_into K C b) s) /\
  (forall st o, (forall draws len, o <> OSample draws len) -> step2_t K C st o = step2 K C st o).

(* ---------- non-vacuity ---------- *)

(* a DNA sequence of 6 symbols in 4 columns: R = 2, two padding cells *)
Definition ex_s : list nat := [0; 1; 2; 3; 0; 1].
Definition ex_st : sseq := mkS [[0; 2; 0; 4]; [1; 3; 1; 4]] 6 0.

Example ex_striped : Striped 5 4 ex_s ex_st.
Proof. apply check_striped_sound_lemma. vm_compute. reflexivity. Qed.

Example ex_placed : Placed 5 4 ex_s ex_st.
Proof. apply (C04_striped_iff_placement 5 4 ex_s ex_st); [lia|exact ex_striped]. Qed.

Example ex_stripe_into_stale_buffer :
  stripe_into_generic 5 4 ex_s (mkS [[1; 1; 1; 1]; [2; 2; 2; 2]; [3; 3; 3; 3]] 12 1) = Ok ex_st.
Proof. vm_compute. reflexivity. Qed.

(* configure_wrap wider than the row count: look-ahead rows 2.. are built from
   look-ahead rows 0.. *)
Example ex_wrap_wider_than_rows :
  configure_wrap 5 4 5 ex_st =
  Ok (mkS [[0; 2; 0; 4]; [1; 3; 1; 4];
           [2; 0; 4; 4]; [3; 1; 4; 4]; [0; 4; 4; 4]; [1; 4; 4; 4]; [4; 4; 4; 4]] 6 5).
Proof. vm_compute. reflexivity. Qed.

(* a history with growing / shrinking widths, a second sequence and an empty one *)
Definition ex_ops : list op :=
  [OStripeInto BGeneric ex_s; OConfigureWrap 5; OConfigure 3; OStripe BGeneric [0; 1; 2];
   OConfigureWrap 1; OConfigure 0; OStripeInto BGeneric []; OConfigureWrap 2].

Example ex_history_typed : forallb (op_typed 4) ex_ops = true.
Proof. reflexivity. Qed.

Example ex_history_run :
  run 5 4 s_default (firstn 5 ex_ops) = Ok (mkS [[0; 1; 2; 4]; [1; 2; 4; 4]] 3 1) /\
  run 5 4 s_default ex_ops = Ok (mkS [[4; 4; 4; 4]; [4; 4; 4; 4]] 0 2) /\
  last_seq [] (firstn 5 ex_ops) = [0; 1; 2] /\ wrap_after 0 ex_ops = 2.
Proof. vm_compute. repeat split; reflexivity. Qed.

(* the AVX2 block loop really runs: 1056 symbols = 33 rows, one 32-row block through
   the network, one scalar tail row; the stale buffer is longer than needed *)
Definition ex_long : list nat := map (fun i => (i * i + i / 7) mod 5) (seq 0 1056).
Definition ex_stale : sseq := mkS (repeat (repeat 2 32) 40) 1280 3.

Example ex_avx2_block_runs :
  match block_loop 33 ex_long 33 0 0 0 (m_resize 5 32 (mat ex_stale) 33) with
  | Ok (i, _) => i = 32
  | _ => False
  end.
Proof. vm_compute. reflexivity. Qed.

(* (kept small: coqchk re-checks vm_compute proofs with the lazy machine) the AVX2
   kernel on a short sequence (scalar tail rows only) into the stale buffer *)
Definition ex_short : list nat := map (fun i => (i * i + i / 7) mod 5) (seq 0 40).

Example ex_avx2_eq_generic_computed :
  stripe_into_avx2 5 ex_short ex_stale = stripe_into_generic 5 32 ex_short ex_stale /\
  match stripe_into_avx2 5 ex_short ex_stale with
  | Ok st => check_C04 5 32 ex_short (observe 5 32 st [0; 39; 40; 63; 64]) = true
  | _ => False
  end.
Proof. vm_compute. split; reflexivity. Qed.

(* the dispatcher's AVX2 arm is typed for 32 columns only *)
Example ex_typed : op_typed 32 (OStripeInto (BDispatch AAvx2) ex_s) = true /\
                   op_typed 16 (OStripeInto (BDispatch AAvx2) ex_s) = false.
Proof. split; reflexivity. Qed.

(* the checker rejects a wrong wildcard fill, a misplaced symbol and a wrong count *)
Example ex_check_rejects :
  check_striped_fast 5 4 ex_s (mkS [[0; 2; 0; 4]; [1; 3; 1; 0]] 6 0) = false /\
  check_striped_fast 5 4 ex_s (mkS [[0; 2; 0; 4]; [1; 3; 1; 4]; [2; 0; 4; 0]] 6 1) = false /\
  check_striped_fast 5 4 ex_s (mkS [[0; 2; 0; 4]; [1; 3; 1; 4]; [2; 0; 4; 4]] 6 1) = true /\
  check_striped 5 4 ex_s (mkS [[0; 2; 0; 4]; [1; 3; 1; 0]] 6 0) = false /\
  check_striped 5 4 ex_s (mkS [[0; 1; 2; 3]; [0; 1; 4; 4]] 6 0) = false /\
  check_C04 5 4 ex_s (mkObs ex_st [] (Ok ex_s) (Ok [2; 2; 1; 1; 1]) (Ok [2; 2; 1; 1; 0]) true) = false /\
  check_C04 5 4 ex_s (mkObs ex_st [] (Ok [0; 1; 2; 3; 0; 4]) (Ok [2; 2; 1; 1; 0]) (Ok [2; 2; 1; 1; 0]) true) = false /\
  check_C04 5 4 ex_s (mkObs ex_st [(5, Ok 1); (6, Ok 4)] (Ok ex_s) (Ok [2; 2; 1; 1; 0]) (Ok [2; 2; 1; 1; 0]) true) = true.
Proof. vm_compute. repeat split; reflexivity. Qed.

(* ---------- arbitrary padding: examples ---------- *)

(* ex_s in a matrix whose two padding cells hold 1 and 2 instead of the wildcard 4 *)
Definition ex_pad_st : sseq := mkS [[0; 2; 0; 1]; [1; 3; 1; 2]] 6 0.

Example ex_pad_is_padded : StripedPad 5 4 ex_s ex_pad_st.
Proof. apply (check_pad_sound 5 4); [lia|]. vm_compute. reflexivity. Qed.

Example ex_pad_new : s_new_t 4 (mat ex_pad_st) 6 = Ok ex_pad_st /\ logical_seq 5 4 ex_pad_st = ex_s /\
                     s_new_t 4 (mat ex_pad_st) 9 = Err 2.
Proof. vm_compute. repeat split; reflexivity. Qed.

(* does not survive: Striped (so uniqueness / check_C04), and the wildcard beyond the end *)
Example ex_pad_not_striped : ~ Striped 5 4 ex_s ex_pad_st.
Proof. intros H. apply (C04_check_fast_iff 5 4 ex_s ex_pad_st) in H; [|lia]. vm_compute in H. discriminate. Qed.

Example ex_pad_not_unique :
  StripedPad 5 4 ex_s ex_pad_st /\ StripedPad 5 4 ex_s ex_st /\ ex_pad_st <> ex_st /\ swrap ex_pad_st = swrap ex_st.
Proof.
  split; [exact ex_pad_is_padded|]. split; [apply C04_pad_generalises; [lia|exact ex_striped]|].
  split; [discriminate|reflexivity].
Qed.

Example ex_pad_index_beyond_end :
  s_index 5 4 ex_pad_st 6 = Ok 1 /\ s_index 5 4 ex_st 6 = Ok 4 /\ s_index 5 4 ex_pad_st 5 = Ok 1.
Proof. vm_compute. repeat split; reflexivity. Qed.

(* survives: counts, configure_wrap (look-ahead rows copy the padding), history *)
Example ex_pad_survivors :
  count_symbols 5 4 ex_pad_st = Ok [2; 2; 1; 1; 0] /\
  configure_wrap_t 5 4 2 ex_pad_st = Ok (mkS [[0; 2; 0; 1]; [1; 3; 1; 2]; [2; 0; 1; 4]; [3; 1; 2; 4]] 6 2) /\
  check_C04_pad 5 4 ex_s (observe 5 4 (mkS [[0; 2; 0; 1]; [1; 3; 1; 2]; [2; 0; 1; 4]; [3; 1; 2; 4]] 6 2) [0; 5; 6]) = true.
Proof. vm_compute. repeat split; reflexivity. Qed.

(* sample on the stream 0,1,2,3,0,1,2,3: 6 symbols in 4 columns = 2 rows filled row by row *)
Example ex_sample :
  striped_sample 4 (stream_of [0; 1; 2; 3; 0; 1; 2; 3]) 6 = Ok (mkS [[0; 1; 2; 3]; [0; 1; 2; 3]] 6 0) /\
  sample_seq 4 (stream_of [0; 1; 2; 3; 0; 1; 2; 3]) 6 = [0; 0; 1; 1; 2; 2] /\
  enc_sample (stream_of [0; 1; 2; 3; 0; 1; 2; 3]) 6 = [0; 1; 2; 3; 0; 1].
Proof. vm_compute. repeat split; reflexivity. Qed.

Example ex_pad_history :
  run2 5 4 s_default [OSample [0; 1; 2; 3; 0; 1; 2; 3] 6; O1 (OConfigureWrap 1); ONew (mat ex_pad_st) 6;
                      O1 (OConfigure 3); O1 (OStripeInto BGeneric [3; 3])] =
  Ok (mkS [[3; 3; 4; 4]] 2 0).
Proof. vm_compute. reflexivity. Qed.

(* ---------- reused destination (seeded/C04/5 classes), conversions: examples ---------- *)

(* C = 4: L = 3 < C (R = 1) and L = 6 (R = 2, 6 mod 2 = 0, 6 mod 4 <> 0) after a longer sequence
   without any wildcard: the columns after the end are rewritten with the wildcard 4 *)
Example ex_reuse_overwrites :
  stripe_into_generic_t 5 4 [0; 1; 2] (mkS [[1; 1; 1; 1]; [2; 2; 2; 2]; [3; 3; 3; 3]] 12 1) = Ok (mkS [[0; 1; 2; 4]] 3 0) /\
  stripe_into_generic_t 5 4 [0; 1; 2; 3; 0; 1] (mkS [[1; 1; 1; 1]; [2; 2; 2; 2]; [3; 3; 3; 3]] 12 0) =
    Ok (mkS [[0; 2; 0; 4]; [1; 3; 1; 4]] 6 0) /\
  stripe_fresh_t 5 4 (stripe_into_t 5 4 BGeneric) [0; 1; 2; 3; 0; 1] = Ok ex_st.
Proof. vm_compute. repeat split; reflexivity. Qed.

(* DenseMatrix::from + new on a buffer WITH a look-ahead row: the three rows are now all
   sequence rows, the logical sequence is re-read column by column over 3 rows *)
Example ex_via_matrix_with_wrap :
  run3 5 4 s_default [O2 (O1 (OStripeInto BGeneric ex_s)); OClone; O2 (O1 (OConfigureWrap 1)); OViaMatrix] =
    Ok (mkS [[0; 2; 0; 4]; [1; 3; 1; 4]; [2; 0; 4; 4]] 6 0) /\
  seq_after3 5 4 [] s_default [O2 (O1 (OStripeInto BGeneric ex_s)); OClone; O2 (O1 (OConfigureWrap 1)); OViaMatrix] =
    [0; 1; 2; 2; 3; 0] /\
  forallb (op3_ok 4) [O2 (O1 (OStripeInto BGeneric ex_s)); OClone; O2 (O1 (OConfigureWrap 1)); OViaMatrix] = true /\
  op3_ok 4 (OFromEnc AAvx2 ex_s) = false /\ op3_ok 32 (OFromEnc AAvx2 ex_s) = true.
Proof. vm_compute. repeat split; reflexivity. Qed.

(* the completed checker rejects a non-wildcard answer in the padding, an answer instead of a panic
   beyond the matrix, and two kernels that disagree (or agree on a wrong matrix) *)
Example ex_check_full_rejects :
  check_C04_full 5 4 ex_s (mkObs ex_st [(5, Ok 1); (6, Ok 4); (7, Ok 4); (8, Panic 0)] (Ok ex_s) (Ok [2; 2; 1; 1; 0]) (Ok [2; 2; 1; 1; 0]) true) = true /\
  check_C04_full 5 4 ex_s (mkObs ex_st [(6, Ok 1)] (Ok ex_s) (Ok [2; 2; 1; 1; 0]) (Ok [2; 2; 1; 1; 0]) true) = false /\
  check_C04_full 5 4 ex_s (mkObs ex_st [(8, Ok 4)] (Ok ex_s) (Ok [2; 2; 1; 1; 0]) (Ok [2; 2; 1; 1; 0]) true) = false /\
  check_C04_full 5 4 ex_s (mkObs ex_st [(7, Panic 0)] (Ok ex_s) (Ok [2; 2; 1; 1; 0]) (Ok [2; 2; 1; 1; 0]) true) = false /\
  check_agree 5 4 ex_s ex_st ex_st = true /\
  check_agree 5 4 ex_s ex_st (mkS [[0; 2; 0; 4]; [1; 3; 1; 0]] 6 0) = false /\
  check_agree 5 4 ex_s ex_pad_st ex_pad_st = false.
Proof. vm_compute. repeat split; reflexivity. Qed.

(* modes along a history: stripe and (repaired) sample -> wildcard mode; new -> padded mode; clone / configure keep it; matrix round trip with a
   look-ahead row -> padded mode; From<EncodedSequence> -> wildcard mode again *)
Example ex_modes :
  pad_after 5 4 false s_default [O2 (O1 (OStripeInto BGeneric ex_s)); OClone; O2 (O1 (OConfigureWrap 1))] = false /\
  pad_after 5 4 false s_default [O2 (O1 (OStripeInto BGeneric ex_s)); OViaMatrix; OClone] = false /\
  pad_after 5 4 false s_default [O2 (O1 (OStripeInto BGeneric ex_s)); O2 (O1 (OConfigureWrap 1)); OViaMatrix] = true /\
  pad_after 5 4 false s_default [O2 (OSample [0; 1; 2; 3; 0; 1; 2; 3] 6); OClone; O2 (O1 (OConfigure 2))] = false /\
  pad_after 5 4 false s_default [O2 (ONew (mat ex_pad_st) 6); OClone; O2 (O1 (OConfigure 2))] = true /\
  run3 5 4 s_default [O2 (OSample [0; 1; 2; 3; 0; 1; 2; 3] 6); O2 (O1 (OConfigureWrap 1))] =
    Ok (mkS [[0; 1; 2; 4]; [0; 1; 2; 4]; [1; 2; 4; 4]] 6 1) /\
  pad_after 5 32 true s_default [O2 (OSample [0; 1; 2] 2); OFromEnc AGeneric ex_s; OClone] = false.
Proof. vm_compute. repeat split; reflexivity. Qed.
