(* The padding mode the driver keeps along a history (which checker decides PROPFAIL after each
   op): after a stripe / to_striped / From<EncodedSequence> the padding is the wildcard and
   check_C04_full applies -- also after StripedSequence::sample, which since /repo 740d563 overwrites
   its padding cells with the wildcard; after new, and after DenseMatrix::from + new on a buffer WITH
   look-ahead rows, the padding is arbitrary and check_C04_pad applies; Clone, configure,
   configure_wrap and DenseMatrix::from + new without look-ahead rows keep the mode.
   Executable definitions only. *)
From Coq Require Import List Arith Bool Lia.
From LMBase Require Import Res ListX.
From LMStripe Require Import StripeModel NetModel GenStripeNet StripeAvx2 GenSeq SeqT GenPli PadModel PadHistory PliT FullCheck.
Import ListNotations.

Section Mode.
  Variable K C : nat.

  Definition pad_after1 (pad : bool) (st : sseq) (o : op3) : bool :=
    match o with
    | O2 (O1 (OStripeInto _ _)) | O2 (O1 (OStripe _ _)) | OFromEnc _ _ => false
    | O2 (OSample _ _) => false          (* the repaired sample (/repo 740d563) pads with the wildcard *)
    | O2 (ONew _ _) => true
    | OViaMatrix => if swrap st =? 0 then pad else true
    | _ => pad
    end.

  Fixpoint pad_after (pad : bool) (st : sseq) (ops : list op3) : bool :=
    match ops with
    | [] => pad
    | o :: t => match step3 K C st o with
                | Ok st' => pad_after (pad_after1 pad st o) st' t
                | _ => pad
                end
    end.

  (* the checker applied in a mode *)
  Definition check_mode (pad : bool) (s : list nat) (ob : obs) : bool :=
    if pad then check_C04_pad K C s ob else check_C04_full K C s ob.
End Mode.
