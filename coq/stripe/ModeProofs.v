From Coq Require Import List Arith Bool Lia.
From LMBase Require Import Res ListX.
From LMStripe Require Import StripeModel NetModel GenStripeNet StripeAvx2 StripeSpec StripeProofs SpecProofs
  NetProofs Avx2Proofs HistoryProofs GenSeq SeqT SeqTProofs GenPli PadModel PadProofs PadHistory PadHistoryProofs
  PliT PliTProofs FullCheck FullCheckProofs Mode.
Import ListNotations.

Section ModeFacts.
  Variable K C : nat.
  Hypothesis HC : 0 < C.

  (* one op: the padded invariant always, the wildcard-padded one whenever the mode says so *)
  Lemma mode_step s st pad o :
    (pad = false -> Striped K C s st) -> StripedPad K C s st -> op3_ok C o = true ->
    exists st', step3 K C st o = Ok st' /\
      StripedPad K C (seq_after3_1 K C s st o) st' /\
      (pad_after1 pad st o = false -> Striped K C (seq_after3_1 K C s st o) st').
  Proof.
    intros Hstr HP Hok.
    destruct (step3_spec K C HC s st o HP Hok) as (st' & Hstep & HP').
    exists st'. split; [exact Hstep|]. split; [exact HP'|].
    intros Hmode.
    destruct o as [o2| |a q|].
    - destruct o2 as [o|draws len|m len]; [| |discriminate Hmode].
      2:{ unfold step3 in Hstep. cbn [lower step2_t] in Hstep.
          destruct (sample_fix_spec K C HC (stream_of draws) len) as (st1 & A & B & _).
          rewrite A in Hstep. injection Hstep as <-.
          unfold seq_after3_1. cbn [lower seq_after1]. exact B. }
      unfold step3 in Hstep. cbn [lower] in Hstep. rewrite (step2_t_eq K C HC) in Hstep by (intros; discriminate).
      cbn [step2] in Hstep. rewrite (step_t_eq K C HC) in Hstep.
      unfold seq_after3_1. cbn [lower seq_after1 last_seq fold_left].
      destruct o as [b q|b q|M|k]; cbn [step op3_ok op2_ok op_typed pad_after1] in *.
      + destruct (stripe_into_spec K C HC b q st Hok (StripedPad_wf K C s st HP)) as (st1 & A & B & _).
        rewrite A in Hstep. injection Hstep as <-. exact B.
      + rewrite Hok in Hstep.
        destruct (stripe_fresh_spec K C HC (stripe_into K C b) q) as (st1 & A & B & _).
        { intros old Hwf. apply stripe_into_spec; assumption. }
        rewrite A in Hstep. injection Hstep as <-. exact B.
      + destruct (configure_spec K C HC s st M (Hstr Hmode)) as (st1 & A & B & _).
        rewrite A in Hstep. injection Hstep as <-. exact B.
      + destruct (configure_wrap_spec K C HC s st k (Hstr Hmode)) as (st1 & A & B & _).
        rewrite A in Hstep. injection Hstep as <-. exact B.
    - cbn [pad_after1] in Hmode. unfold step3 in Hstep. cbn [lower] in Hstep. injection Hstep as <-.
      unfold seq_after3_1. cbn [lower]. exact (Hstr Hmode).
    - destruct (conversions_spec K C HC s st HP) as (_ & Hfe & _).
      cbn [op3_ok] in Hok. apply Nat.eqb_eq in Hok.
      destruct (Hfe a q Hok) as (st1 & A & B & _).
      rewrite A in Hstep. injection Hstep as <-.
      unfold seq_after3_1. cbn [lower seq_after1 last_seq fold_left]. exact B.
    - cbn [pad_after1] in Hmode.
      destruct (Nat.eqb_spec (swrap st) 0) as [Hw|Hw]; [|discriminate Hmode].
      destruct (conversions_spec K C HC s st HP) as (_ & _ & _ & Hvm).
      destruct (Hvm Hw) as [A B]. rewrite A in Hstep. injection Hstep as <-.
      rewrite B. exact (Hstr Hmode).
  Qed.

  Lemma mode_history : forall ops s st pad,
    (pad = false -> Striped K C s st) -> StripedPad K C s st -> forallb (op3_ok C) ops = true ->
    exists st', run3 K C st ops = Ok st' /\
      StripedPad K C (seq_after3 K C s st ops) st' /\
      (pad_after K C pad st ops = false -> Striped K C (seq_after3 K C s st ops) st').
  Proof.
    induction ops as [|o t IH]; intros s st pad Hstr HP Hok.
    - exists st. split; [reflexivity|]. split; [exact HP|exact Hstr].
    - cbn [forallb] in Hok. apply andb_true_iff in Hok. destruct Hok as [Ho Ht].
      destruct (mode_step s st pad o Hstr HP Ho) as (st1 & A & B & B').
      destruct (IH _ st1 (pad_after1 pad st o) B' B Ht) as (st2 & A2 & B2 & B2').
      exists st2. cbn [run3 seq_after3 pad_after]. rewrite A. cbn [rbind].
      split; [exact A2|]. split; [exact B2|exact B2'].
  Qed.

  (* in wildcard mode the model's observation passes the completed checker *)
  Lemma mode_model_passes ops s st idx :
    Striped K C s st -> forallb (op3_ok C) ops = true ->
    Forall (fun y => y < K) (seq_after3 K C s st ops) ->
    pad_after K C false st ops = false ->
    exists st', run3 K C st ops = Ok st' /\
      check_mode K C (pad_after K C false st ops) (seq_after3 K C s st ops) (observe K C st' idx) = true.
  Proof.
    intros HS Hok Hsym Hmode.
    destruct (mode_history ops s st false (fun _ => HS) (Striped_StripedPad K C HC s st HS) Hok) as (st' & A & _ & B).
    exists st'. split; [exact A|]. rewrite Hmode. unfold check_mode.
    apply (model_passes_full K C HC); [exact Hsym|exact (B Hmode)].
  Qed.
End ModeFacts.
