(* The translated statement lists (SeqT.v over GenSeq.v) are the hand-written model
   functions of StripeModel.v. *)
From Coq Require Import List Arith Bool Lia.
From LMBase Require Import Res ListX.
From LMStripe Require Import StripeModel StripeSpec StripeProofs GenSeq SeqT.
Import ListNotations.

Lemma range_0 n : range 0 n = seq 0 n.
Proof. unfold range. rewrite Nat.sub_0_r. reflexivity. Qed.

Lemma usub_ok a b : b <= a -> usub a b = Ok (a - b).
Proof. intros H. unfold usub. destruct (Nat.ltb_spec a b); [lia|reflexivity]. Qed.

Lemma usub_panic a b : a < b -> usub a b = Panic 5.
Proof. intros H. unfold usub. destruct (Nat.ltb_spec a b); [reflexivity|lia]. Qed.

Lemma default_extra_rows_value : default_extra_rows = 32.
Proof. reflexivity. Qed.

Section Eq.
  Variable K C : nat.
  Hypothesis HC : 0 < C.

  (* new(..).unwrap() of the hand model = the translated new, Err mapped to the unwrap panic *)
  Lemma s_new_t_eq data len :
    s_new C data len = match s_new_t C data len with Err _ => Panic 4 | r => r end.
  Proof.
    unfold s_new, s_new_t, new_guard, new_wrap. destruct (length data * C <? len); reflexivity.
  Qed.

  Lemma configure_wrap_t_eq k st : configure_wrap_t K C k st = configure_wrap K C k st.
  Proof.
    unfold configure_wrap_t, configure_wrap.
    unfold cw_cond, cw_rows_a, cw_rows_b, cw_resize_a, cw_resize_b, cw_outer_lo, cw_outer_hi,
      cw_inner_lo, cw_inner_hi_a, cw_inner_hi_b, cw_dst_row, cw_dst_col, cw_src_row, cw_src_col,
      cw_last_row, cw_last_col_a, cw_last_col_b, cw_new_wrap.
    destruct (Nat.ltb_spec (swrap st) k) as [Hk|Hk]; [|reflexivity].
    destruct (Nat.ltb_spec (length (mat st)) (swrap st)) as [Hu|Hu].
    - rewrite usub_panic by assumption. reflexivity.
    - rewrite usub_ok by assumption. cbn [rbind].
      rewrite usub_ok by lia. cbn [rbind]. rewrite range_0.
      f_equal. apply for_res_ext. intros i d _.
      rewrite usub_ok by lia. cbn [rbind]. rewrite range_0. reflexivity.
  Qed.

  Lemma configure_t_eq M st : configure_t K C M st = configure K C M st.
  Proof.
    unfold configure_t, configure, cf_arg_a, cf_arg_b.
    destruct (Nat.eqb_spec M 0); [reflexivity|].
    rewrite usub_ok by lia. cbn [rbind]. apply configure_wrap_t_eq.
  Qed.

  Lemma s_index_t_eq st i : s_index_t K C st i = s_index K C st i.
  Proof.
    unfold s_index_t, s_index, ix_rows_a, ix_rows_b, ix_row, ix_col.
    destruct (Nat.ltb_spec (length (mat st)) (swrap st)) as [Hu|Hu].
    - rewrite usub_panic by assumption. reflexivity.
    - rewrite usub_ok by assumption. reflexivity.
  Qed.

  (* the visited cells *)
  Lemma visit_cs_eq w dr len rows :
    map (fun t => match t with (i, j, idx, g) => (i, j, idx) end) (visit_cs C w dr len rows len) = visit C rows /\
    Forall (fun t => match t with (i, j, idx, g) => g = (idx <? len) end) (visit_cs C w dr len rows len).
  Proof.
    unfold visit_cs, visit, cs_outer_lo, cs_outer_hi, cs_inner_lo, cs_inner_hi, cs_row, cs_col, cs_index, cs_guard.
    rewrite !range_0. split.
    - induction (seq 0 rows) as [|i t IH]; [reflexivity|].
      cbn [flat_map]. rewrite map_app, IH, map_map. reflexivity.
    - induction (seq 0 rows) as [|i t IH]; [constructor|].
      cbn [flat_map]. apply Forall_app. split; [|exact IH].
      apply Forall_forall. intros x Hx. apply in_map_iff in Hx. destruct Hx as (j & <- & _). reflexivity.
  Qed.

  Lemma visit_ca_eq w dr len rows :
    map (fun t => match t with (i, j, idx, g) => (i, j, idx) end) (visit_ca C w dr len rows len) = visit C rows /\
    Forall (fun t => match t with (i, j, idx, g) => g = (idx <? len) end) (visit_ca C w dr len rows len).
  Proof.
    unfold visit_ca, visit, ca_outer_lo, ca_outer_hi, ca_inner_lo, ca_inner_hi, ca_row, ca_col, ca_index, ca_guard.
    rewrite !range_0. split.
    - induction (seq 0 rows) as [|i t IH]; [reflexivity|].
      cbn [flat_map]. rewrite map_app, IH, map_map. reflexivity.
    - induction (seq 0 rows) as [|i t IH]; [constructor|].
      cbn [flat_map]. apply Forall_app. split; [|exact IH].
      apply Forall_forall. intros x Hx. apply in_map_iff in Hx. destruct Hx as (j & <- & _). reflexivity.
  Qed.

  Lemma count_loop_t_eq m l x : forall cells acc,
    Forall (fun t => match t with (i, j, idx, g) => g = (idx <? l) end) cells ->
    count_loop_t K C m x cells acc =
    count_loop K C m l x (map (fun t => match t with (i, j, idx, g) => (i, j, idx) end) cells) acc.
  Proof.
    induction cells as [|[[[i j] idx] g] t IH]; intros acc H; [reflexivity|].
    inversion H as [|? ? Hg Ht]; subst. cbn [count_loop_t count_loop map].
    destruct (m_get K C m i j); cbn [rbind]; try reflexivity. apply IH. assumption.
  Qed.

  Lemma counts_loop_t_eq m l : forall cells counts,
    Forall (fun t => match t with (i, j, idx, g) => g = (idx <? l) end) cells ->
    counts_loop_t K C m cells counts =
    counts_loop K C m l (map (fun t => match t with (i, j, idx, g) => (i, j, idx) end) cells) counts.
  Proof.
    induction cells as [|[[[i j] idx] g] t IH]; intros counts H; [reflexivity|].
    inversion H as [|? ? Hg Ht]; subst. cbn [counts_loop_t counts_loop map].
    destruct (m_get K C m i j); cbn [rbind]; try reflexivity.
    destruct (idx <? l); [|apply IH; assumption].
    destruct (a <? length counts); [apply IH; assumption|reflexivity].
  Qed.

  Lemma count_symbol_t_eq st x : count_symbol_t K C st x = count_symbol K C st x.
  Proof.
    unfold count_symbol_t, count_symbol, cs_rows_a, cs_rows_b, cs_l.
    destruct (Nat.ltb_spec (length (mat st)) (swrap st)) as [Hu|Hu].
    - rewrite usub_panic by assumption. reflexivity.
    - rewrite usub_ok by assumption. cbn [rbind].
      destruct (visit_cs_eq (swrap st) (length (mat st)) (slen st) (length (mat st) - swrap st)) as [E F].
      rewrite (count_loop_t_eq _ (slen st)) by exact F. rewrite E. reflexivity.
  Qed.

  Lemma count_symbols_t_eq st : count_symbols_t K C st = count_symbols K C st.
  Proof.
    unfold count_symbols_t, count_symbols, ca_rows_a, ca_rows_b, ca_l.
    destruct (Nat.ltb_spec (length (mat st)) (swrap st)) as [Hu|Hu].
    - rewrite usub_panic by assumption. reflexivity.
    - rewrite usub_ok by assumption. cbn [rbind].
      destruct (visit_ca_eq (swrap st) (length (mat st)) (slen st) (length (mat st) - swrap st)) as [E F].
      rewrite (counts_loop_t_eq _ (slen st)) by exact F. rewrite E. reflexivity.
  Qed.
End Eq.
