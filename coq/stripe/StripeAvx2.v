(* Model of `stripe_avx2` (lightmotif/src/pli/platform/avx2.rs), of the dispatcher's
   Stripe arm table, and of operation histories on one StripedSequence buffer.
   Executable definitions only.

   Additional panic / undefined-behaviour sites:
     90  a 32-byte vector load is not inside the sequence slice   (UB: over-read)
     91  a 32-byte vector store is not inside the matrix          (UB: over-write)
     92  assert_eq!(matrix.rows(), src_stride)
      7  slice index s[..] out of range in the scalar tail loop
   Err 1: the call is not expressible in Rust (AVX2 / dispatch striping only exist
   for C = 32 columns). *)
From Coq Require Import List Arith Bool Lia.
From LMBase Require Import Res ListX.
From LMStripe Require Import StripeModel NetModel GenStripeNet.
Import ListNotations.

Section Avx2.
  Variable K : nat.

  (* _mm256_loadu_si256(src + off) *)
  Definition load32 (s : list nat) (off : nat) : list nat := firstn 32 (skipn off s).

  (* _mm256_stream_si256(out + k*out_stride, v) with out = row i of the matrix:
     one row of a DenseMatrix<u8-sized symbol, U32> is exactly 32 bytes *)
  Definition store_row (m : matrix) (r : nat) (v : list nat) : res matrix :=
    if r <? length m then Ok (upd r v m) else Panic 91.

  Fixpoint store_rows (regs : list (list nat)) (i : nat) (stores : list (nat * nat)) (m : matrix) : res matrix :=
    match stores with
    | [] => Ok m
    | (k, reg) :: t => rbind (store_row m (i + k) (nth reg regs [])) (fun m' => store_rows regs i t m')
    end.

  (* one iteration of the block loop: 32 loads at src + k*R (src = s.as_ptr() + src_off),
     the network, 32 stores at out + k*out_stride (out = row out_row of the matrix) *)
  Definition do_block (s : list nat) (R src_off out_row : nat) (m : matrix) : res matrix :=
    if forallb (fun p => snd p * R + src_off + 32 <=? length s) net_loads then
      let regs := run_net 0 net_ops (net_load net_loads (fun k => load32 s (k * R + src_off))) in
      store_rows regs out_row net_stores m
    else Panic 90.

  (* while <blk_cond i src_stride length> { block; out = out.add(blk_out_step * out_stride);
     src = src.add(blk_src_step); i += blk_i_step }   -- condition and steps are
     translated from avx2.rs (GenStripeNet.v) *)
  Fixpoint block_loop (fuel : nat) (s : list nat) (R i src_off out_row : nat) (m : matrix) : res (nat * matrix) :=
    if blk_cond i R (length s) then
      match fuel with
      | O => OutOfFuel
      | S f => rbind (do_block s R src_off out_row m) (fun m' =>
                 block_loop f s R (i + blk_i_step) (src_off + blk_src_step) (out_row + blk_out_step) m')
      end
    else Ok (i, m).

  (* The scalar loop over the remaining rows; condition, column count, guard, the three
     index expressions and the step are translated from avx2.rs (GenStripeNet.v):
       while <tail_cond> { for j in 0..<tail_cols> { if <tail_guard> {
           matrix[<tail_row>][<tail_col>] = s[<tail_src>] } } i += <tail_i_step> }
     s[..] out of range is a slice-index panic (site 7). *)
  Definition tail_body (s : list nat) (R i j : nat) (m2 : matrix) : res matrix :=
    let L := length s in
    let rows := length m2 in
    if tail_guard i j R L rows then
      let src := tail_src i j R L rows in
      if src <? L then m_set 32 m2 (tail_row i j R L rows) (tail_col i j R L rows) (nth src s (wild K))
      else Panic 7
    else Ok m2.

  Fixpoint tail_loop (fuel : nat) (s : list nat) (R i : nat) (m : matrix) : res matrix :=
    if tail_cond i 0 R (length s) (length m) then
      match fuel with
      | O => OutOfFuel
      | S f => rbind (for_res (seq 0 tail_cols) (tail_body s R i) m) (fun m' =>
                 tail_loop f s R (i + tail_i_step) m')
      end
    else Ok m.

  (* for k in <fill_lo>..<fill_hi> { matrix[<fill_row>][<fill_col>] = default }  (translated;
     `% src_stride` / `/ src_stride` panic when src_stride = 0) *)
  Definition fill_avx2 (s : list nat) (R : nat) (m : matrix) : res matrix :=
    let L := length s in
    let lo := fill_lo 0 R L (length m) 32 in
    let hi := fill_hi 0 R L (length m) 32 in
    for_res (seq lo (hi - lo)) (fun k m' =>
      if R =? 0 then Panic 3
      else m_set 32 m' (fill_row k R L (length m') 32) (fill_col k R L (length m') 32) (wild K)) m.

  Definition stripe_into_avx2 (s : list nat) (old : sseq) : res sseq :=
    let len := length s in
    let R := (len + 31) / 32 in
    let m := m_resize K 32 (mat old) R in
    if len =? 0 then Ok s_default                (* early return: *striped stays Default *)
    else if length m =? 0 then Panic 1           (* matrix[0].as_mut_ptr() *)
    else if negb (length m =? R) then Panic 92
    else
      rbind (block_loop R s R 0 0 0 m) (fun im =>
      rbind (tail_loop (length m) s R (fst im) (snd im)) (fun m2 =>
      rbind (fill_avx2 s R m2) (fun m3 =>
      s_new 32 m3 len))).
End Avx2.

(* ---------- pipelines and histories ---------- *)

Inductive backend : Type :=
| BGeneric                 (* Pipeline::generic() *)
| BAvx2                    (* Pipeline::avx2() *)
| BDispatch (a : arm).     (* Pipeline::dispatch() running arm a *)

Inductive op : Type :=
| OStripeInto (b : backend) (s : list nat)   (* pli.stripe_into(s, &mut buf) *)
| OStripe (b : backend) (s : list nat)       (* buf = pli.stripe(s)   (to_striped for BDispatch) *)
| OConfigure (M : nat)                       (* buf.configure(&motif), motif.len() = M *)
| OConfigureWrap (k : nat).                  (* buf.configure_wrap(k) *)

Definition backend_kernel (b : backend) : kernel :=
  match b with
  | BGeneric => KGeneric
  | BAvx2 => KAvx2
  | BDispatch a => disp_stripe a
  end.

Definition backend_typed (C : nat) (b : backend) : bool :=
  match b with BGeneric => true | _ => C =? 32 end.

Section Run.
  Variable K C : nat.

  Definition kernel_into (k : kernel) (s : list nat) (old : sseq) : res sseq :=
    match k with
    | KGeneric => stripe_into_generic K C s old
    | KAvx2 => stripe_into_avx2 K s old
    end.

  Definition stripe_into (b : backend) (s : list nat) (old : sseq) : res sseq :=
    if backend_typed C b then kernel_into (backend_kernel b) s old else Err 1.

  Definition step (st : sseq) (o : op) : res sseq :=
    match o with
    | OStripeInto b s => stripe_into b s st
    | OStripe b s => if backend_typed C b then stripe_fresh K C (stripe_into b) s else Err 1
    | OConfigure M => configure K C M st
    | OConfigureWrap k => configure_wrap K C k st
    end.

  Fixpoint run (st : sseq) (ops : list op) : res sseq :=
    match ops with
    | [] => Ok st
    | o :: t => rbind (step st o) (fun st' => run st' t)
    end.

  (* the sequence striped last, and the wrap the buffer must have, after a history *)
  Definition last_seq (s0 : list nat) (ops : list op) : list nat :=
    fold_left (fun s o => match o with OStripeInto _ s' | OStripe _ s' => s' | _ => s end) ops s0.

  Definition wrap_after (w0 : nat) (ops : list op) : nat :=
    fold_left (fun w o => match o with
                          | OStripeInto _ _ | OStripe _ _ => 0
                          | OConfigure M => if M =? 0 then w else Nat.max w (M - 1)
                          | OConfigureWrap k => Nat.max w k
                          end) ops w0.
End Run.

(* an operation that can be written in Rust for the column count C (the AVX2 and
   the dispatching pipelines implement Stripe only for 32 columns) *)
Definition op_typed (C : nat) (o : op) : bool :=
  match o with
  | OStripeInto b _ | OStripe b _ => backend_typed C b
  | _ => true
  end.

(* the same history through the generic pipeline only *)
Definition generic_op (o : op) : op :=
  match o with
  | OStripeInto _ s => OStripeInto BGeneric s
  | OStripe _ s => OStripe BGeneric s
  | o' => o'
  end.
