From Coq Require Import List Arith Bool Lia.
From LMBase Require Import Res ListX.
From LMStripe Require Import StripeModel NetModel GenStripeNet StripeAvx2 StripeSpec StripeProofs SpecProofs
  HistoryProofs FullCheck.
Import ListNotations.

Definition Holds_index_beyond (K C : nat) (s : list nat) (ob : obs) : Prop :=
  forall i r, In (i, r) (o_index ob) ->
    (length s <= i -> i < seq_rows C (length s) * C -> r = Ok (wild K)) /\
    (seq_rows C (length s) * C <= i -> exists site, r = Panic site).

Section FullFacts.
  Variable K C : nat.
  Hypothesis HC : 0 < C.

  Lemma is_panic_true r : is_panic r = true -> exists site, r = Panic site.
  Proof. destruct r; cbn; try discriminate. intros _. eexists. reflexivity. Qed.

  Lemma check_index_beyond_sound s ob : check_index_beyond K C s ob = true -> Holds_index_beyond K C s ob.
  Proof.
    intros H i r Hin. unfold check_index_beyond in H. rewrite forallb_forall in H.
    specialize (H _ Hin). cbn [fst snd] in H.
    pose proof (seq_rows_ge C (length s) HC) as Hge.
    split.
    - intros Hl Hu. destruct (Nat.ltb_spec i (length s)); [lia|].
      destruct (Nat.ltb_spec i (seq_rows C (length s) * C)); [|lia].
      apply is_ok_nat_true. assumption.
    - intros Hu. destruct (Nat.ltb_spec i (length s)); [lia|].
      destruct (Nat.ltb_spec i (seq_rows C (length s) * C)); [lia|].
      apply is_panic_true. assumption.
  Qed.

  Lemma check_C04_full_sound s ob : check_C04_full K C s ob = true ->
    Holds_C04 K C s ob /\ Holds_index_beyond K C s ob.
  Proof.
    intros H. apply andb_true_iff in H. destruct H as [H1 H2]. split.
    - apply check_C04_sound_lemma; assumption.
    - apply check_index_beyond_sound; assumption.
  Qed.

  (* the model's own observation of a striped state passes the full checker *)
  Lemma model_passes_full s st idx : Forall (fun y => y < K) s -> Striped K C s st ->
    check_C04_full K C s (observe K C st idx) = true.
  Proof.
    intros Hsym HS. unfold check_C04_full. rewrite (model_passes_C04_lemma K C s st idx HC Hsym HS). cbn [andb].
    unfold check_index_beyond, observe. cbn [o_index].
    apply forallb_forall. intros p Hp. apply in_map_iff in Hp. destruct Hp as (i & <- & _). cbn [fst snd].
    destruct (s_index_spec K C s st i HC HS) as [Hok Hpanic].
    destruct (Nat.ltb_spec i (length s)); [reflexivity|].
    destruct (Nat.ltb_spec i (seq_rows C (length s) * C)) as [Hi|Hi].
    - rewrite (Hok Hi). rewrite nth_overflow by lia. cbn [is_ok_nat]. apply Nat.eqb_refl.
    - destruct (Hpanic Hi) as (site & E). rewrite E. reflexivity.
  Qed.

  (* agreement of the two kernels, decided from their two states *)
  Lemma check_agree_sound s g a : check_agree K C s g a = true ->
    g = a /\ Striped K C s g.
  Proof.
    intros H. unfold check_agree in H.
    apply andb_true_iff in H. destruct H as [H Hw].
    apply andb_true_iff in H. destruct H as [Hg Ha].
    apply (check_fast_sound K C s _ HC) in Hg. apply (check_fast_sound K C s _ HC) in Ha.
    apply Nat.eqb_eq in Hw. split; [|assumption].
    apply (Striped_unique K C s); assumption.
  Qed.

  (* and it accepts what the two kernels of the model produce from any pair of well-formed buffers *)
  Lemma check_agree_model s old1 old2 : C = 32 -> wf_matrix C (mat old1) -> wf_matrix C (mat old2) ->
    exists g a, stripe_into K C BGeneric s old1 = Ok g /\ stripe_into K C BAvx2 s old2 = Ok a /\
                check_agree K C s g a = true.
  Proof.
    intros HC32 H1 H2.
    assert (backend_typed C BAvx2 = true) as Hb by (cbn [backend_typed]; apply Nat.eqb_eq; assumption).
    destruct (stripe_into_spec K C HC BGeneric s old1 eq_refl H1) as (g & A1 & S1 & W1).
    destruct (stripe_into_spec K C HC BAvx2 s old2 Hb H2) as (a & A2 & S2 & W2).
    exists g, a. split; [assumption|]. split; [assumption|].
    unfold check_agree. rewrite (check_fast_complete K C s g HC S1), (check_fast_complete K C s a HC S2).
    rewrite W1, W2. reflexivity.
  Qed.

  (* a history that begins with Stripe::stripe (a fresh matrix): the old buffer does not matter at all *)
  Lemma history_stale_start_stripe b s0 ops old :
    forallb (op_typed C) (OStripe b s0 :: ops) = true ->
    exists st', run K C old (OStripe b s0 :: ops) = Ok st' /\
                Striped K C (last_seq s0 ops) st' /\ swrap st' = wrap_after 0 ops.
  Proof.
    intros Ht. cbn [forallb op_typed] in Ht. apply andb_true_iff in Ht. destruct Ht as [Hb Ht].
    destruct (stripe_fresh_spec K C HC (stripe_into K C b) s0) as (st1 & H1 & HS1 & Hw1).
    { intros o Hwf. apply stripe_into_spec; assumption. }
    destruct (run_spec K C HC ops s0 st1 HS1 Ht) as (st2 & H2 & HS2 & Hw2).
    exists st2. cbn [run step]. rewrite Hb, H1. cbn [rbind]. rewrite <- Hw1. auto.
  Qed.
End FullFacts.
