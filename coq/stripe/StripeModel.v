(* Model of striping (property C04), executable definitions only.

   Code modelled (lightmotif/src):
     pli/mod.rs   Stripe::{stripe, stripe_into}            (generic, any column count C)
     seq.rs       StripedSequence::{new, configure, configure_wrap, Index<usize>,
                  count_symbol, count_symbols, len, wrap, matrix}, Default
     dense.rs     DenseMatrix::{new, resize, Index/IndexMut}  (table level, see C19)

   Symbols are naturals: a symbol of an alphabet with K letters is its index
   (< K); the wildcard / `Default` symbol is the last one, K-1 (Nucleotide::N = 4,
   AminoAcid::X = 20).  A DenseMatrix<Symbol, C> is a list of rows of C cells.
   A StripedSequence is (matrix, length, wrap).

   Every place where the Rust code can panic is a [Panic site]:
     1  Vec index: matrix row out of range          (data[row])
     2  slice index: column out of range            (row[col])
     3  division / remainder by zero                (i % rows, i / rows with rows = 0)
     4  StripedSequence::new(..).unwrap() on Err    (rows * C < length)
     5  usize underflow in `data.rows() - wrap`
     6  counts[symbol.as_index()] out of range      (symbol >= K; unreachable for real symbols)
   (90.. are used by the AVX2 model, see StripeAvx2.v) *)
From Coq Require Import List Arith Bool Lia.
From LMBase Require Import Res ListX.
Import ListNotations.

Definition matrix := list (list nat).

Record sseq := mkS { mat : matrix; slen : nat; swrap : nat }.

(* `for i in l { st = body(i, st)? }` *)
Fixpoint for_res {St : Type} (l : list nat) (body : nat -> St -> res St) (st : St) : res St :=
  match l with
  | [] => Ok st
  | i :: t => rbind (body i st) (fun st' => for_res t body st')
  end.

Section Stripe.
  Variable K : nat.             (* alphabet size *)
  Variable C : nat.             (* columns (C::USIZE, > 0 by type in Rust) *)

  Definition wild : nat := K - 1.               (* A::Symbol::default() *)
  Definition row0 : list nat := repeat wild C.  (* Row::default() *)

  (* ---------- DenseMatrix (table level) ---------- *)

  Definition m_new (rows : nat) : matrix := repeat row0 rows.

  (* Vec::resize_with(rows, Default::default): truncates or appends default rows;
     the rows that stay keep their (stale) contents *)
  Definition m_resize (m : matrix) (rows : nat) : matrix :=
    firstn rows m ++ repeat row0 (rows - length m).

  (* m[r][c] *)
  Definition m_get (m : matrix) (r c : nat) : res nat :=
    if r <? length m then
      if c <? C then Ok (nth c (nth r m []) wild) else Panic 2
    else Panic 1.

  (* m[r][c] = v *)
  Definition m_set (m : matrix) (r c v : nat) : res matrix :=
    if r <? length m then
      if c <? C then Ok (upd r (upd c v (nth r m [])) m) else Panic 2
    else Panic 1.

  (* ---------- StripedSequence ---------- *)

  (* StripedSequence::new(data, length).unwrap() *)
  Definition s_new (data : matrix) (len : nat) : res sseq :=
    if length data * C <? len then Panic 4 else Ok (mkS data len 0).

  (* StripedSequence::default() *)
  Definition s_default : sseq := mkS [] 0 0.

  (* data[i % rows][i / rows] = v *)
  Definition put_striped (rows i v : nat) (m : matrix) : res matrix :=
    if rows =? 0 then Panic 3 else m_set m (i mod rows) (i / rows) v.

  (* for (i, &x) in s.iter().enumerate() { data[i % rows][i / rows] = x } *)
  Fixpoint write_seq (rows i : nat) (s : list nat) (m : matrix) : res matrix :=
    match s with
    | [] => Ok m
    | x :: t => rbind (put_striped rows i x m) (fun m' => write_seq rows (S i) t m')
    end.

  (* for i in len..data.rows()*data.columns() { data[i % rows][i / rows] = default } *)
  Definition fill_tail (rows len : nat) (m : matrix) : res matrix :=
    for_res (seq len (length m * C - len)) (fun i m' => put_striped rows i wild m') m.

  (* Stripe::stripe_into (default implementation) on the buffer [old] *)
  Definition stripe_into_generic (s : list nat) (old : sseq) : res sseq :=
    let len := length s in
    let rows := (len + (C - 1)) / C in
    let data := m_resize (mat old) rows in          (* take(striped).into_matrix(); reserve; resize *)
    rbind (write_seq rows 0 s data) (fun data1 =>
    rbind (fill_tail rows len data1) (fun data2 =>
    s_new data2 len)).

  (* Stripe::stripe: fresh matrix, then stripe_into (whichever implementation
     [into] the pipeline has) *)
  Definition stripe_fresh (into : list nat -> sseq -> res sseq) (s : list nat) : res sseq :=
    let len := length s in
    let rows := len / C + (if 0 <? len mod C then 1 else 0) in
    rbind (s_new (m_new rows) len) (fun st => into s st).

  (* StripedSequence::configure_wrap(k) *)
  Definition configure_wrap (k : nat) (st : sseq) : res sseq :=
    if swrap st <? k then
      if length (mat st) <? swrap st then Panic 5 else
      let rows := length (mat st) - swrap st in
      let data := m_resize (mat st) (length (mat st) + k - swrap st) in
      rbind (for_res (seq 0 k) (fun i m =>
               rbind (for_res (seq 0 (C - 1)) (fun j m' =>
                        rbind (m_get m' i (j + 1)) (fun v => m_set m' (rows + i) j v)) m)
                     (fun m1 => m_set m1 (rows + i) (C - 1) wild))
             data)
            (fun data' => Ok (mkS data' (slen st) k))
    else Ok st.

  (* StripedSequence::configure(&motif) with motif.len() = M *)
  Definition configure (M : nat) (st : sseq) : res sseq :=
    if M =? 0 then Ok st else configure_wrap (M - 1) st.

  (* <StripedSequence as Index<usize>>::index *)
  Definition s_index (st : sseq) (i : nat) : res nat :=
    if length (mat st) <? swrap st then Panic 5 else
    let rows := length (mat st) - swrap st in
    if rows =? 0 then Panic 3 else m_get (mat st) (i mod rows) (i / rows).

  (* the cells visited by count_symbol / count_symbols, in visiting order, paired
     with their linear index j*rows+i *)
  Definition visit (rows : nat) : list (nat * nat * nat) :=
    flat_map (fun i => map (fun j => (i, j, j * rows + i)) (seq 0 C)) (seq 0 rows).

  Fixpoint count_loop (m : matrix) (l x : nat) (cells : list (nat * nat * nat)) (count : nat) : res nat :=
    match cells with
    | [] => Ok count
    | (i, j, index) :: t =>
        rbind (m_get m i j) (fun v =>
          count_loop m l x t (if (index <? l) && (v =? x) then S count else count))
    end.

  (* SymbolCount::count_symbol *)
  Definition count_symbol (st : sseq) (x : nat) : res nat :=
    if length (mat st) <? swrap st then Panic 5 else
    let rows := length (mat st) - swrap st in
    count_loop (mat st) (slen st) x (visit rows) 0.

  Fixpoint counts_loop (m : matrix) (l : nat) (cells : list (nat * nat * nat)) (counts : list nat) : res (list nat) :=
    match cells with
    | [] => Ok counts
    | (i, j, index) :: t =>
        rbind (m_get m i j) (fun v =>
          if index <? l then
            if v <? length counts then counts_loop m l t (upd v (S (nth v counts 0)) counts)
            else Panic 6
          else counts_loop m l t counts)
    end.

  (* SymbolCount::count_symbols (the override for StripedSequence) *)
  Definition count_symbols (st : sseq) : res (list nat) :=
    if length (mat st) <? swrap st then Panic 5 else
    let rows := length (mat st) - swrap st in
    counts_loop (mat st) (slen st) (visit rows) (repeat 0 K).

  (* ---------- the linear sequence (EncodedSequence / &[Symbol]) ---------- *)

  Definition lin_count (s : list nat) (x : nat) : nat := length (filter (fun y => y =? x) s).
  Definition lin_counts (s : list nat) : list nat := map (lin_count s) (seq 0 K).

  (* ---------- the property as an executable checker ---------- *)

  Definition seq_rows (len : nat) : nat := (len + (C - 1)) / C.

  Fixpoint list_eqb (a b : list nat) : bool :=
    match a, b with
    | [], [] => true
    | x :: a', y :: b' => (x =? y) && list_eqb a' b'
    | _, _ => false
    end.

  (* the row r of the striped form of s with R sequence rows: cell c = s[c*R + r] or wildcard *)
  Definition striped_row (R : nat) (s : list nat) (r : nat) : list nat :=
    map (fun c => nth (c * R + r) s wild) (seq 0 C).

  (* check_striped s st = true  ->  st is the striped form of s (see StripeProofs.check_striped_sound) *)
  Definition check_striped (s : list nat) (st : sseq) : bool :=
    let R := seq_rows (length s) in
    (slen st =? length s) && (length (mat st) =? R + swrap st) &&
    forallb (fun r => list_eqb (nth r (mat st) []) (striped_row R s r)) (seq 0 (R + swrap st)).

  (* look-ahead row k (= matrix row R+k) is row k shifted left by one column,
     wildcard in the last column *)
  Definition shift_row (row : list nat) : list nat := tl row ++ [wild].

  Definition check_wrap_rows (st : sseq) : bool :=
    let R := length (mat st) - swrap st in
    forallb (fun k => list_eqb (nth (R + k) (mat st) []) (shift_row (nth k (mat st) []))) (seq 0 (swrap st)).

  (* the same check without an index computation per cell (the extracted nat is unary):
     the sequence is cut into its C columns once, sequence row r is read off the
     columns, look-ahead rows are checked as shifted copies.
     check_striped_fast s st = true <-> Striped s st (SpecProofs.check_fast_sound / _complete) *)
  Fixpoint chunks (R n : nat) (s : list nat) : list (list nat) :=
    match n with
    | O => []
    | S n' => firstn R s :: chunks R n' (skipn R s)
    end.

  Definition fast_row (cols : list (list nat)) (r : nat) : list nat :=
    map (fun col => nth r col wild) cols.

  Definition check_striped_fast (s : list nat) (st : sseq) : bool :=
    let R := seq_rows (length s) in
    let cols := chunks R C s in
    (slen st =? length s) && (length (mat st) =? R + swrap st) &&
    forallb (fun row => length row =? C) (mat st) &&
    forallb (fun r => list_eqb (nth r (mat st) []) (fast_row cols r)) (seq 0 R) &&
    check_wrap_rows st.

End Stripe.

(* ---------- the property checker used by the correspondence check ---------- *)

(* What is observed of a StripedSequence through the public API after an operation:
   the state (matrix, len(), wrap()), the results of Index at sampled positions
   (any, also out of range) and at every position 0..len()-1 in order (o_all; a
   panic at any of them makes it a Panic), count_symbols(), count_symbol(x) for every symbol x in index order, and whether
   the generic and the AVX2 kernels, run on clones of the buffer, agreed. *)
Record obs := mkObs {
  o_st : sseq;
  o_index : list (nat * res nat);
  o_all : res (list nat);
  o_counts : res (list nat);
  o_count1 : res (list nat);
  o_agree : bool
}.

Fixpoint res_all {A : Type} (l : list (res A)) : res (list A) :=
  match l with
  | [] => Ok []
  | x :: t => rbind x (fun a => rbind (res_all t) (fun r => Ok (a :: r)))
  end.

Section Check.
  Variable K C : nat.

  Definition is_ok_nat (r : res nat) (v : nat) : bool :=
    match r with Ok v' => v' =? v | _ => false end.

  Definition is_ok_list (r : res (list nat)) (l : list nat) : bool :=
    match r with Ok l' => list_eqb l' l | _ => false end.

  (* count_symbol for every symbol *)
  Definition count_each (st : sseq) : res (list nat) :=
    res_all (map (count_symbol K C st) (seq 0 K)).

  (* Index at every position of the sequence *)
  Definition index_all (st : sseq) : res (list nat) :=
    res_all (map (s_index K C st) (seq 0 (slen st))).

  (* the model's observation of a state *)
  Definition observe (st : sseq) (idx : list nat) : obs :=
    mkObs st (map (fun i => (i, s_index K C st i)) idx) (index_all st)
          (count_symbols K C st) (count_each st) true.

  (* check_C04 s ob = true  ->  the observation ob is what property C04 demands of a
     buffer in which s was striped last (StripeProofs... C04.check_C04_sound) *)
  Definition check_C04 (s : list nat) (ob : obs) : bool :=
    check_striped_fast K C s (o_st ob) &&
    forallb (fun p => if fst p <? length s then is_ok_nat (snd p) (nth (fst p) s (wild K)) else true) (o_index ob) &&
    is_ok_list (o_all ob) s &&
    is_ok_list (o_counts ob) (lin_counts K s) &&
    is_ok_list (o_count1 ob) (lin_counts K s) &&
    o_agree ob.
End Check.
