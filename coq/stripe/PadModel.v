(* StripedSequence values whose padding cells are NOT the wildcard: what
   StripedSequence::sample and StripedSequence::new(matrix, length) produce.
   Executable definitions only.

   seq.rs  EncodedSequence::sample   rng.sample_iter(&dist).take(length).map(|i| symbols[i]).collect()
           StripedSequence::sample   data = uninitialized(ceil(length / C)); every row, left to right, takes the
                                     next C draws; Self::new(data, length).expect(..)
   The random number generator is an explicit stream of symbols (draw number -> symbol
   index): the model says which draw lands in which cell, not how draws are made.
   Panic 8: the `expect` of StripedSequence::sample. *)
From Coq Require Import List Arith Bool Lia.
From LMBase Require Import Res ListX.
From LMStripe Require Import StripeModel GenSeq SeqT.
Import ListNotations.

Definition set_len (l : nat) (st : sseq) : sseq := mkS (mat st) l (swrap st).

Section Pad.
  Variable K C : nat.

  (* the cells of the sequence rows in linear order 0 .. R*C-1 (column after column):
     what Index<usize> reads at 0, 1, 2, ... *)
  Definition lin_cells (st : sseq) : list nat :=
    let R := length (mat st) - swrap st in
    map (fun i => nth (i / R) (nth (i mod R) (mat st) []) (wild K)) (seq 0 (R * C)).

  (* the logical sequence of a state: its first len() cells in linear order *)
  Definition logical_seq (st : sseq) : list nat := firstn (slen st) (lin_cells st).

  (* EncodedSequence::sample *)
  Definition enc_sample (stream : nat -> nat) (len : nat) : list nat := map stream (seq 0 len).

  (* StripedSequence::sample *)
  Definition sample_rows (len : nat) : nat := (len + C - 1) / C.

  Definition striped_sample (stream : nat -> nat) (len : nat) : res sseq :=
    let data := map (fun r => map (fun c => stream (r * C + c)) (seq 0 C)) (seq 0 (sample_rows len)) in
    match s_new_t C data len with Err _ => Panic 8 | r => r end.

  (* position i of the sampled sequence is draw number (i mod R)*C + i/R *)
  Definition sample_seq (stream : nat -> nat) (len : nat) : list nat :=
    map (fun i => stream ((i mod sample_rows len) * C + i / sample_rows len)) (seq 0 len).

  (* check_pad s st = true -> st holds s with arbitrary (initialised) padding:
     PadProofs.check_pad_sound *)
  Definition check_pad (s : list nat) (st : sseq) : bool :=
    (slen st =? length s) && (swrap st <=? length (mat st)) &&
    (length s <=? (length (mat st) - swrap st) * C) &&
    forallb (fun row => length row =? C) (mat st) &&
    list_eqb (firstn (length s) (lin_cells st)) s &&
    check_wrap_rows K st.

  (* the observation checker for such states: as check_C04 with check_pad for the state *)
  Definition check_C04_pad (s : list nat) (ob : obs) : bool :=
    check_pad s (o_st ob) &&
    forallb (fun p => if fst p <? length s then is_ok_nat (snd p) (nth (fst p) s (wild K)) else true) (o_index ob) &&
    is_ok_list (o_all ob) s &&
    is_ok_list (o_counts ob) (lin_counts K s) &&
    is_ok_list (o_count1 ob) (lin_counts K s) &&
    o_agree ob.
End Pad.
