(* The StripedSequence methods of seq.rs as TRANSLATED statement lists: the same
   functions as in StripeModel.v (s_new, configure, configure_wrap, s_index,
   count_symbol, count_symbols), but every condition, loop range, index expression and
   constant is the one regenerated from the source into GenSeq.v.  SeqTProofs.v proves
   them equal to the hand-written model functions, so every C04 theorem is a theorem
   about the translated text; the extracted driver runs these versions.
   Executable definitions only.

   usize subtraction a - b panics on underflow (site 5).
   StripedSequence::new returns a Result: Err 2 = InvalidData. *)
From Coq Require Import List Arith Bool Lia.
From LMBase Require Import Res ListX.
From LMStripe Require Import StripeModel GenSeq.
Import ListNotations.

Definition usub (a b : nat) : res nat := if a <? b then Panic 5 else Ok (a - b).

(* for x in lo..hi *)
Definition range (lo hi : nat) : list nat := seq lo (hi - lo).

Section SeqT.
  Variable K C : nat.

  (* StripedSequence::new(data, length) *)
  Definition s_new_t (data : matrix) (len : nat) : res sseq :=
    if new_guard (length data) C len then Err 2 else Ok (mkS data len new_wrap).

  (* StripedSequence::configure_wrap(m) *)
  Definition configure_wrap_t (m : nat) (st : sseq) : res sseq :=
    let w := swrap st in
    let dr := length (mat st) in
    if cw_cond m w dr C then
      rbind (usub (cw_rows_a m w dr C) (cw_rows_b m w dr C)) (fun rows =>
      rbind (usub (cw_resize_a m w dr C) (cw_resize_b m w dr C)) (fun newrows =>
      let data := m_resize K C (mat st) newrows in
      rbind (for_res (range (cw_outer_lo m w dr C rows) (cw_outer_hi m w dr C rows)) (fun i d =>
               rbind (usub (cw_inner_hi_a m w dr C rows i) (cw_inner_hi_b m w dr C rows i)) (fun ihi =>
               rbind (for_res (range (cw_inner_lo m w dr C rows i) ihi) (fun j d' =>
                        rbind (m_get K C d' (cw_src_row m w dr C rows i j) (cw_src_col m w dr C rows i j)) (fun v =>
                        m_set C d' (cw_dst_row m w dr C rows i j) (cw_dst_col m w dr C rows i j) v)) d) (fun d1 =>
               rbind (usub (cw_last_col_a m w dr C rows i 0) (cw_last_col_b m w dr C rows i 0)) (fun lc =>
               m_set C d1 (cw_last_row m w dr C rows i 0) lc (wild K))))) data) (fun data' =>
      Ok (mkS data' (slen st) (cw_new_wrap m w dr C)))))
    else Ok st.

  (* StripedSequence::configure(&motif), motif.len() = M *)
  Definition configure_t (M : nat) (st : sseq) : res sseq :=
    if M =? 0 then Ok st
    else rbind (usub (cf_arg_a M) (cf_arg_b M)) (fun k => configure_wrap_t k st).

  (* Index<usize> *)
  Definition s_index_t (st : sseq) (index : nat) : res nat :=
    let w := swrap st in
    let dr := length (mat st) in
    rbind (usub (ix_rows_a index w dr C) (ix_rows_b index w dr C)) (fun rows =>
    if rows =? 0 then Panic 3
    else m_get K C (mat st) (ix_row index w dr C rows) (ix_col index w dr C rows)).

  (* the (row, column, linear index, guard) visited by the two counting loops *)
  Definition visit_cs (w dr len rows l : nat) : list (nat * nat * nat * bool) :=
    flat_map (fun i =>
      map (fun j => let index := cs_index w dr C len rows l i j in
                    (cs_row w dr C len rows l i j, cs_col w dr C len rows l i j index, index,
                     cs_guard w dr C len rows l i j index))
          (range (cs_inner_lo w dr C len rows l i 0) (cs_inner_hi w dr C len rows l i 0)))
      (range (cs_outer_lo w dr C len rows l) (cs_outer_hi w dr C len rows l)).

  Definition visit_ca (w dr len rows l : nat) : list (nat * nat * nat * bool) :=
    flat_map (fun i =>
      map (fun j => let index := ca_index w dr C len rows l i j in
                    (ca_row w dr C len rows l i j, ca_col w dr C len rows l i j index, index,
                     ca_guard w dr C len rows l i j index))
          (range (ca_inner_lo w dr C len rows l i 0) (ca_inner_hi w dr C len rows l i 0)))
      (range (ca_outer_lo w dr C len rows l) (ca_outer_hi w dr C len rows l)).

  Fixpoint count_loop_t (m : matrix) (x : nat) (cells : list (nat * nat * nat * bool)) (count : nat) : res nat :=
    match cells with
    | [] => Ok count
    | (i, j, _, g) :: t =>
        rbind (m_get K C m i j) (fun v =>
          count_loop_t m x t (if g && (v =? x) then S count else count))
    end.

  Definition count_symbol_t (st : sseq) (x : nat) : res nat :=
    let w := swrap st in
    let dr := length (mat st) in
    let len := slen st in
    rbind (usub (cs_rows_a w dr C len) (cs_rows_b w dr C len)) (fun rows =>
    count_loop_t (mat st) x (visit_cs w dr len rows (cs_l w dr C len)) 0).

  Fixpoint counts_loop_t (m : matrix) (cells : list (nat * nat * nat * bool)) (counts : list nat) : res (list nat) :=
    match cells with
    | [] => Ok counts
    | (i, j, _, g) :: t =>
        rbind (m_get K C m i j) (fun v =>
          if g then
            if v <? length counts then counts_loop_t m t (upd v (S (nth v counts 0)) counts)
            else Panic 6
          else counts_loop_t m t counts)
    end.

  Definition count_symbols_t (st : sseq) : res (list nat) :=
    let w := swrap st in
    let dr := length (mat st) in
    let len := slen st in
    rbind (usub (ca_rows_a w dr C len) (ca_rows_b w dr C len)) (fun rows =>
    counts_loop_t (mat st) (visit_ca w dr len rows (ca_l w dr C len)) (repeat 0 K)).
End SeqT.
