(* Specification-level definitions for property C04 (no executable model here):
   what it means for a StripedSequence state to be the striped form of a linear
   sequence.  Notation of DESIGN.md section 3: L = length s, R = ceil(L/C),
   N = wild K.

     Striped K C s st :=
       every row of the matrix has C cells,
       rows st = R + wrap st,  len st = L,
       for every row r < R + wrap st and column c < C:  cell r c = nth (c*R + r) s N

   One closed form for sequence rows and look-ahead rows; cells whose linear index
   is >= L hold the wildcard. *)
From Coq Require Import List Arith Bool Lia.
From LMBase Require Import Res ListX.
From LMStripe Require Import StripeModel.
Import ListNotations.

Definition wf_matrix (C : nat) (m : matrix) : Prop := Forall (fun row => length row = C) m.

Definition cell (K : nat) (m : matrix) (r c : nat) : nat := nth c (nth r m []) (wild K).

Definition Striped (K C : nat) (s : list nat) (st : sseq) : Prop :=
  wf_matrix C (mat st) /\
  length (mat st) = seq_rows C (length s) + swrap st /\
  slen st = length s /\
  forall r c, r < seq_rows C (length s) + swrap st -> c < C ->
    cell K (mat st) r c = nth (c * seq_rows C (length s) + r) s (wild K).

(* The wording of the property: R = ceil(L/C) sequence rows, symbol i sits at row
   i mod R, column i / R, every other cell of the sequence rows holds the wildcard,
   look-ahead row k is matrix row k shifted left by one column (wildcard in the last
   column).  Equivalent to Striped (SpecProofs.Striped_Placed / Placed_Striped). *)
Definition Placed (K C : nat) (s : list nat) (st : sseq) : Prop :=
  let R := seq_rows C (length s) in
  wf_matrix C (mat st) /\
  length (mat st) = R + swrap st /\
  slen st = length s /\
  (forall i, i < length s -> cell K (mat st) (i mod R) (i / R) = nth i s (wild K)) /\
  (forall r c, r < R -> c < C -> length s <= c * R + r -> cell K (mat st) r c = wild K) /\
  (forall k, k < swrap st -> nth (R + k) (mat st) [] = shift_row K (nth k (mat st) [])).

