(* States with arbitrary padding (StripedSequence::sample / ::new): which C04 facts
   survive.  StripedPad s st: st is the striped form of s followed by SOME padding
   that fills the sequence rows; i.e. Striped for the extended sequence s ++ pad, with
   len() = |s|. *)
From Coq Require Import List Arith Bool Lia.
From LMBase Require Import Res ListX.
From LMStripe Require Import StripeModel StripeSpec StripeProofs SpecProofs GenSeq SeqT SeqTProofs PadModel.
Import ListNotations.

Definition StripedPad (K C : nat) (s : list nat) (st : sseq) : Prop :=
  slen st = length s /\
  exists pad, Striped K C (s ++ pad) (set_len (length (s ++ pad)) st) /\
              length (s ++ pad) = (length (mat st) - swrap st) * C.

Lemma seq_rows_mul C R : 0 < C -> seq_rows C (R * C) = R.
Proof.
  intros HC. unfold seq_rows. symmetry. apply (Nat.div_unique _ _ _ (C - 1)); lia.
Qed.

Section PadFacts.
  Variable K C : nat.
  Hypothesis HC : 0 < C.

  (* ---------- the operations do not look at len(), or only carry it ---------- *)

  Lemma s_index_set_len l st i : s_index K C (set_len l st) i = s_index K C st i.
  Proof. reflexivity. Qed.

  Lemma configure_wrap_set_len l k st :
    configure_wrap K C k (set_len l st) =
    rbind (configure_wrap K C k st) (fun st' => Ok (set_len l st')).
  Proof.
    unfold configure_wrap, set_len. cbn [mat slen swrap].
    destruct (swrap st <? k); [|reflexivity].
    destruct (length (mat st) <? swrap st); [reflexivity|].
    match goal with |- rbind ?X _ = _ => destruct X end; reflexivity.
  Qed.

  Lemma configure_wrap_slen k st st' : configure_wrap K C k st = Ok st' -> slen st' = slen st.
  Proof.
    unfold configure_wrap.
    destruct (swrap st <? k); [|intros H; inversion H; reflexivity].
    destruct (length (mat st) <? swrap st); [discriminate|].
    match goal with |- rbind ?X _ = _ -> _ => destruct X end; cbn [rbind]; try discriminate.
    intros H; inversion H; reflexivity.
  Qed.

  Lemma Striped_rows e st : Striped K C e st -> length (mat st) - swrap st = seq_rows C (length e).
  Proof. intros (_ & Hlen & _). lia. Qed.

  (* ---------- wildcard padding is a special case ---------- *)

  Lemma Striped_StripedPad s st : Striped K C s st -> StripedPad K C s st.
  Proof.
    intros HS. pose proof HS as (Hwf & Hlen & Hsl & Hcells).
    set (R := seq_rows C (length s)) in *.
    pose proof (seq_rows_ge C (length s) HC) as HL. fold R in HL.
    split; [assumption|]. exists (repeat (wild K) (R * C - length s)).
    assert (El : length (s ++ repeat (wild K) (R * C - length s)) = R * C)
      by (rewrite app_length, repeat_length; lia).
    split; [|rewrite El; f_equal; lia].
    unfold Striped, set_len. cbn [mat slen swrap]. rewrite El, seq_rows_mul by assumption.
    repeat split; auto.
    intros r c Hr Hc. rewrite Hcells by assumption.
    destruct (Nat.lt_ge_cases (c * R + r) (length s)).
    - rewrite app_nth1 by assumption. reflexivity.
    - rewrite app_nth2 by assumption. rewrite nth_overflow by assumption.
      destruct (Nat.lt_ge_cases (c * R + r - length s) (R * C - length s)).
      + rewrite nth_repeat_lt by assumption. reflexivity.
      + rewrite nth_overflow by (rewrite repeat_length; assumption). reflexivity.
  Qed.

  (* ---------- what survives arbitrary padding ---------- *)

  (* configure_wrap: no panic, same sequence, same padding, wrap' = max *)
  Lemma configure_wrap_pad s st k : StripedPad K C s st ->
    exists st', configure_wrap K C k st = Ok st' /\ StripedPad K C s st' /\
                swrap st' = Nat.max (swrap st) k.
  Proof.
    intros (Hsl & pad & HS & Hfull).
    destruct (configure_wrap_spec K C HC _ _ k HS) as (st1 & Hrun & HS1 & Hw1).
    rewrite configure_wrap_set_len in Hrun.
    destruct (configure_wrap K C k st) as [st'| | |] eqn:E; cbn [rbind] in Hrun; try discriminate.
    inversion Hrun; subst st1. clear Hrun.
    exists st'. split; [reflexivity|]. cbn [set_len swrap] in Hw1.
    split; [|exact Hw1].
    split; [rewrite (configure_wrap_slen k st st' E); assumption|].
    exists pad. split; [exact HS1|].
    pose proof (Striped_rows _ _ HS1) as R1. pose proof (Striped_rows _ _ HS) as R0.
    cbn [set_len mat swrap] in R1, R0. rewrite R1, <- R0. exact Hfull.
  Qed.

  Lemma configure_pad s st M : StripedPad K C s st ->
    exists st', configure K C M st = Ok st' /\ StripedPad K C s st'.
  Proof.
    intros H. unfold configure. destruct (M =? 0).
    - exists st. auto.
    - destruct (configure_wrap_pad s st (M - 1) H) as (st' & A & B & _). exists st'. auto.
  Qed.

  (* Index inside the sequence *)
  Lemma index_pad s st i : StripedPad K C s st -> i < length s ->
    s_index K C st i = Ok (nth i s (wild K)).
  Proof.
    intros (Hsl & pad & HS & Hfull) Hi.
    rewrite <- (s_index_set_len (length (s ++ pad)) st i).
    destruct (s_index_spec K C _ _ i HC HS) as [A _]. rewrite A.
    - rewrite app_nth1 by assumption. reflexivity.
    - pose proof (seq_rows_ge C (length (s ++ pad)) HC). rewrite app_length in *. lia.
  Qed.

  (* ... and in the padding: the padding symbol, whatever it is (NOT the wildcard) *)
  Lemma index_in_padding s st i : StripedPad K C s st ->
    length s <= i -> i < (length (mat st) - swrap st) * C ->
    exists pad, length (s ++ pad) = (length (mat st) - swrap st) * C /\
                s_index K C st i = Ok (nth (i - length s) pad (wild K)).
  Proof.
    intros (Hsl & pad & HS & Hfull) Hi Hlt. exists pad. split; [assumption|].
    rewrite <- (s_index_set_len (length (s ++ pad)) st i).
    destruct (s_index_spec K C _ _ i HC HS) as [A _]. rewrite A.
    - rewrite app_nth2 by assumption. reflexivity.
    - pose proof (seq_rows_ge C (length (s ++ pad)) HC). lia.
  Qed.

  (* look-ahead rows are still shifted copies (of rows that may contain padding) *)
  Lemma wrap_row_shift_pad s st k : StripedPad K C s st -> k < swrap st ->
    nth (length (mat st) - swrap st + k) (mat st) [] = shift_row K (nth k (mat st) []).
  Proof.
    intros (Hsl & pad & HS & Hfull) Hk.
    pose proof (Striped_rows _ _ HS) as R0. cbn [set_len mat swrap] in R0. rewrite R0.
    exact (wrap_row_shift_lemma K C _ _ k HC HS Hk).
  Qed.

  (* the sequence is determined by the state *)
  Lemma pad_lossless s s' st : StripedPad K C s st -> StripedPad K C s' st -> s = s'.
  Proof.
    intros H1 H2. pose proof H1 as (L1 & _). pose proof H2 as (L2 & _).
    apply (nth_ext_len _ _ (wild K)); [congruence|].
    intros i Hi. pose proof (index_pad s st i H1 Hi) as A.
    pose proof (index_pad s' st i H2 ltac:(lia)) as B. congruence.
  Qed.

  (* ---------- counting ---------- *)

  Section CountPad.
    Variable s pad : list nat.
    Variable st : sseq.
    Hypothesis Hsl : slen st = length s.
    Hypothesis HS : Striped K C (s ++ pad) (set_len (length (s ++ pad)) st).

    Let R := seq_rows C (length (s ++ pad)).

    Definition cells_ok_p (cells : list (nat * nat * nat)) : Prop :=
      forall t, In t cells -> exists i j, t = (i, j, j * R + i) /\ i < R /\ j < C.

    Definition hits_p (x : nat) (cells : list (nat * nat * nat)) : nat :=
      length (filter (fun k => (k <? length s) && (nth k s (wild K) =? x)) (map snd cells)).

    Lemma guard_pad k x :
      (k <? length s) && (nth k (s ++ pad) (wild K) =? x) = (k <? length s) && (nth k s (wild K) =? x).
    Proof.
      destruct (Nat.ltb_spec k (length s)); [|reflexivity]. rewrite app_nth1 by assumption. reflexivity.
    Qed.

    Lemma count_loop_pad x : forall cells, cells_ok_p cells -> forall acc,
      count_loop K C (mat st) (slen st) x cells acc = Ok (acc + hits_p x cells).
    Proof.
      destruct HS as (Hwf & Hlen & _ & Hcells). cbn [set_len mat slen swrap] in *. fold R in Hlen, Hcells.
      induction cells as [|t cells IH]; intros Hok acc.
      - simpl. unfold hits_p. simpl. rewrite Nat.add_0_r. reflexivity.
      - destruct (Hok t (or_introl eq_refl)) as (i & j & -> & Hi & Hj).
        simpl. rewrite m_get_ok by lia. simpl. rewrite Hcells by lia.
        rewrite IH by (intros t' Ht'; apply Hok; right; assumption).
        unfold hits_p. simpl. rewrite Hsl, guard_pad.
        destruct ((j * R + i <? length s) && (nth (j * R + i) s (wild K) =? x)); simpl; f_equal; lia.
    Qed.

    Lemma hits_visit_p x : hits_p x (visit C R) = lin_count s x.
    Proof.
      unfold hits_p. rewrite <- (filter_length_perm _ _ _ (visit_perm C R)).
      apply count_positions. unfold R. pose proof (seq_rows_ge C (length (s ++ pad)) HC).
      rewrite app_length in *. lia.
    Qed.

    Lemma visit_ok_p : cells_ok_p (visit C R).
    Proof. intros t Ht. apply visit_in. assumption. Qed.

    Lemma rows_p : length (mat st) - swrap st = R.
    Proof. pose proof (Striped_rows _ _ HS) as E. cbn [set_len mat swrap] in E. exact E. Qed.

    Lemma wrap_le_p : swrap st <= length (mat st).
    Proof. destruct HS as (_ & Hlen & _). cbn [set_len mat swrap] in Hlen. lia. Qed.

    Lemma count_symbol_pad_lemma x : count_symbol K C st x = Ok (lin_count s x).
    Proof.
      unfold count_symbol. pose proof wrap_le_p.
      destruct (Nat.ltb_spec (length (mat st)) (swrap st)) as [Hbad|_]; [lia|].
      rewrite rows_p. rewrite count_loop_pad by apply visit_ok_p. rewrite hits_visit_p. reflexivity.
    Qed.

    Hypothesis Hsym : Forall (fun y => y < K) s.

    Lemma counts_loop_pad : forall cells, cells_ok_p cells -> forall counts, length counts = K ->
      exists counts', counts_loop K C (mat st) (slen st) cells counts = Ok counts' /\
        length counts' = K /\
        forall x, x < K -> nth x counts' 0 = nth x counts 0 + hits_p x cells.
    Proof.
      destruct HS as (Hwf & Hlen & _ & Hcells). cbn [set_len mat slen swrap] in *. fold R in Hlen, Hcells.
      induction cells as [|t cells IH]; intros Hok counts Hc.
      - exists counts. simpl. split; [reflexivity|]. split; [assumption|].
        intros x Hx. unfold hits_p. simpl. lia.
      - destruct (Hok t (or_introl eq_refl)) as (i & j & -> & Hi & Hj).
        assert (Hok' : cells_ok_p cells) by (intros t' Ht'; apply Hok; right; assumption).
        simpl. rewrite m_get_ok by lia. simpl. rewrite Hcells by lia. rewrite Hsl.
        destruct (Nat.ltb_spec (j * R + i) (length s)) as [Hin|Hout].
        + rewrite app_nth1 by assumption.
          assert (Hv : nth (j * R + i) s (wild K) < K).
          { rewrite Forall_forall in Hsym. apply Hsym. apply nth_In. assumption. }
          rewrite Hc. destruct (Nat.ltb_spec (nth (j * R + i) s (wild K)) K) as [_|Hbad]; [|lia].
          destruct (IH Hok' (upd (nth (j * R + i) s (wild K)) (S (nth (nth (j * R + i) s (wild K)) counts 0)) counts))
            as (counts' & Hrun & Hlen' & Hn).
          { rewrite upd_length. assumption. }
          exists counts'. split; [rewrite <- Hsl; exact Hrun|]. split; [exact Hlen'|].
          intros x Hx. rewrite (Hn x Hx).
          rewrite nth_upd. rewrite Hc. unfold hits_p. simpl.
          destruct (Nat.ltb_spec (j * R + i) (length s)) as [_|Hbad]; [|lia]. simpl.
          destruct (Nat.eqb_spec (nth (j * R + i) s (wild K)) x) as [E|E].
          * destruct (Nat.ltb_spec (nth (j * R + i) s (wild K)) K) as [_|Hbad]; [|lia].
            rewrite E. simpl. lia.
          * simpl. reflexivity.
        + destruct (IH Hok' counts Hc) as (counts' & Hrun & Hlen' & Hn).
          exists counts'. split; [rewrite <- Hsl; exact Hrun|]. split; [exact Hlen'|].
          intros x Hx. rewrite (Hn x Hx). unfold hits_p. simpl.
          destruct (Nat.ltb_spec (j * R + i) (length s)) as [Hbad|_]; [lia|]. reflexivity.
    Qed.

    Lemma count_symbols_pad_lemma : count_symbols K C st = Ok (lin_counts K s).
    Proof.
      unfold count_symbols. pose proof wrap_le_p.
      destruct (Nat.ltb_spec (length (mat st)) (swrap st)) as [Hbad|_]; [lia|].
      rewrite rows_p.
      destruct (counts_loop_pad (visit C R) visit_ok_p (repeat 0 K) (repeat_length 0 K))
        as (counts' & Hrun & Hlen' & Hn).
      rewrite Hrun. f_equal. apply (nth_ext_len _ _ 0).
      - unfold lin_counts. rewrite map_length, seq_length. assumption.
      - intros x Hx. rewrite Hlen' in Hx. rewrite (Hn x Hx). rewrite nth_repeat_lt by assumption.
        rewrite hits_visit_p. unfold lin_counts. rewrite map_seq_nth by assumption. reflexivity.
    Qed.
  End CountPad.

  Lemma counts_pad s st : StripedPad K C s st -> Forall (fun y => y < K) s ->
    count_symbols K C st = Ok (lin_counts K s) /\ forall x, count_symbol K C st x = Ok (lin_count s x).
  Proof.
    intros (Hsl & pad & HS & _) Hsym. split.
    - exact (count_symbols_pad_lemma s pad st Hsl HS Hsym).
    - intros x. exact (count_symbol_pad_lemma s pad st Hsl HS x).
  Qed.

  (* ---------- any matrix, read in linear order ---------- *)

  Lemma lin_cells_length st : length (lin_cells K C st) = (length (mat st) - swrap st) * C.
  Proof. unfold lin_cells. rewrite map_length, seq_length. reflexivity. Qed.

  (* a state without look-ahead rows is the striped form of its own cells *)
  Lemma lin_Striped m l : wf_matrix C m ->
    Striped K C (lin_cells K C (mkS m l 0)) (mkS m (length m * C) 0).
  Proof.
    intros Hwf. unfold Striped. cbn [mat slen swrap].
    rewrite lin_cells_length. cbn [mat swrap]. rewrite Nat.sub_0_r, seq_rows_mul by assumption.
    repeat split; auto. rewrite Nat.add_0_r.
    intros r c Hr Hc. unfold lin_cells. cbn [mat swrap]. rewrite Nat.sub_0_r.
    pose proof (idx_lt r c (length m) C Hr Hc).
    rewrite map_seq_nth by assumption. cbn [plus].
    rewrite idx_mod, idx_div by assumption. reflexivity.
  Qed.

  (* StripedSequence::new(matrix, length) with any contents: Ok iff the matrix is large
     enough; the result holds its first `length` cells (linear order), the rest is padding *)
  Lemma new_pad m l : wf_matrix C m ->
    (l <= length m * C -> s_new_t C m l = Ok (mkS m l 0) /\
                          StripedPad K C (logical_seq K C (mkS m l 0)) (mkS m l 0)) /\
    (length m * C < l -> s_new_t C m l = Err 2).
  Proof.
    intros Hwf. unfold s_new_t, new_guard, new_wrap. split; intros Hl.
    - destruct (Nat.ltb_spec (length m * C) l); [lia|]. split; [reflexivity|].
      unfold logical_seq. cbn [slen].
      set (e := lin_cells K C (mkS m l 0)).
      assert (Ee : length e = length m * C) by (unfold e; rewrite lin_cells_length; cbn [mat swrap]; lia).
      split; [cbn [slen]; rewrite firstn_length; lia|].
      exists (skipn l e). rewrite firstn_skipn. split.
      + unfold set_len. cbn [mat swrap]. rewrite Ee. apply lin_Striped. assumption.
      + cbn [mat swrap]. lia.
    - destruct (Nat.ltb_spec (length m * C) l); [reflexivity|lia].
  Qed.

  (* ---------- sample ---------- *)

  Lemma sample_rows_eq len : sample_rows C len = seq_rows C len.
  Proof. unfold sample_rows, seq_rows. f_equal. lia. Qed.

  Definition sample_matrix (stream : nat -> nat) (len : nat) : matrix :=
    map (fun r => map (fun c => stream (r * C + c)) (seq 0 C)) (seq 0 (sample_rows C len)).

  Lemma sample_matrix_wf stream len : wf_matrix C (sample_matrix stream len).
  Proof.
    apply Forall_forall. intros row Hin. apply in_map_iff in Hin. destruct Hin as (r & <- & _).
    rewrite map_length, seq_length. reflexivity.
  Qed.

  Lemma sample_matrix_length stream len : length (sample_matrix stream len) = seq_rows C len.
  Proof. unfold sample_matrix. rewrite map_length, seq_length. apply sample_rows_eq. Qed.

  Lemma sample_matrix_cell stream len r c : r < seq_rows C len -> c < C ->
    nth c (nth r (sample_matrix stream len) []) (wild K) = stream (r * C + c).
  Proof.
    intros Hr Hc. unfold sample_matrix. rewrite sample_rows_eq.
    rewrite (map_seq_nth (fun r => map (fun c => stream (r * C + c)) (seq 0 C)) 0 _ r []) by assumption.
    rewrite map_seq_nth by assumption. reflexivity.
  Qed.

  (* StripedSequence::sample: never fails; every cell is a draw (row-major); the logical
     sequence is sample_seq; the state is that sequence with arbitrary padding *)
  Lemma sample_pad stream len :
    exists st, striped_sample C stream len = Ok st /\
      mat st = sample_matrix stream len /\ slen st = len /\ swrap st = 0 /\
      logical_seq K C st = sample_seq C stream len /\
      StripedPad K C (sample_seq C stream len) st.
  Proof.
    pose proof (sample_matrix_wf stream len) as Hwf.
    pose proof (sample_matrix_length stream len) as Hlen.
    pose proof (seq_rows_ge C len HC) as HL.
    destruct (new_pad (sample_matrix stream len) len Hwf) as [Hok _].
    rewrite Hlen in Hok. destruct (Hok HL) as [Hnew HP].
    exists (mkS (sample_matrix stream len) len 0).
    unfold striped_sample. fold (sample_matrix stream len). rewrite Hnew.
    assert (E : logical_seq K C (mkS (sample_matrix stream len) len 0) = sample_seq C stream len).
    { unfold logical_seq, sample_seq. cbn [slen].
      apply (nth_ext_len _ _ (wild K)).
      - rewrite firstn_length, lin_cells_length, map_length, seq_length. cbn [mat swrap]. lia.
      - intros i Hi. rewrite firstn_length, lin_cells_length in Hi. cbn [mat swrap] in Hi.
        rewrite Nat.sub_0_r, Hlen in Hi.
        assert (Hil : i < len) by lia.
        assert (HR : 0 < seq_rows C len) by (apply seq_rows_pos; lia).
        rewrite nth_firstn_y by assumption.
        unfold lin_cells. cbn [mat swrap]. rewrite Nat.sub_0_r, Hlen.
        rewrite map_seq_nth by lia. cbn [plus].
        rewrite sample_matrix_cell.
        + rewrite (nth_indep _ (wild K) ((fun i => stream (i mod sample_rows C len * C + i / sample_rows C len)) 0))
            by (rewrite map_length, seq_length; assumption).
          rewrite (map_nth (fun i => stream (i mod sample_rows C len * C + i / sample_rows C len))).
          rewrite seq_nth by assumption. cbn [plus]. rewrite sample_rows_eq. reflexivity.
        + apply Nat.mod_upper_bound. lia.
        + apply div_lt_cols. lia. }
    split; [reflexivity|]. split; [reflexivity|]. split; [reflexivity|]. split; [reflexivity|].
    split; [exact E|]. rewrite <- E. exact HP.
  Qed.

  (* EncodedSequence::sample and StripedSequence::sample on the same stream: the encoded
     sample is a prefix of the draws, the striped cells are the same draws row by row *)
  Lemma enc_sample_spec stream len :
    length (enc_sample stream len) = len /\ forall i, i < len -> nth i (enc_sample stream len) (wild K) = stream i.
  Proof.
    unfold enc_sample. split; [rewrite map_length, seq_length; reflexivity|].
    intros i Hi. rewrite map_seq_nth by assumption. reflexivity.
  Qed.

  (* ---------- the checker ---------- *)

  Lemma check_pad_sound s st : check_pad K C s st = true -> StripedPad K C s st.
  Proof.
    unfold check_pad. intros H.
    apply andb_true_iff in H. destruct H as [H H6].
    apply andb_true_iff in H. destruct H as [H H5].
    apply andb_true_iff in H. destruct H as [H H4].
    apply andb_true_iff in H. destruct H as [H H3].
    apply andb_true_iff in H. destruct H as [H1 H2].
    apply Nat.eqb_eq in H1. apply Nat.leb_le in H2. apply Nat.leb_le in H3.
    apply list_eqb_eq in H5.
    assert (Hwf : wf_matrix C (mat st)).
    { apply Forall_forall. intros row Hin. apply Nat.eqb_eq. rewrite forallb_forall in H4. apply H4. assumption. }
    set (R := length (mat st) - swrap st) in *.
    set (e := lin_cells K C st).
    assert (Ee : length e = R * C) by (unfold e; apply lin_cells_length).
    split; [assumption|]. exists (skipn (length s) e).
    assert (Es : s ++ skipn (length s) e = e) by (rewrite <- H5 at 1; apply firstn_skipn).
    rewrite Es. split; [|assumption].
    apply (rows_shift_Striped K C e _ HC); unfold set_len; cbn [mat slen swrap]; rewrite ?Ee, ?seq_rows_mul by assumption; auto.
    - unfold R. lia.
    - intros r c Hr Hc. unfold e, lin_cells. fold R.
      pose proof (idx_lt r c R C Hr Hc).
      rewrite map_seq_nth by assumption. cbn [plus]. rewrite idx_mod, idx_div by assumption. reflexivity.
    - intros k Hk. unfold check_wrap_rows in H6. rewrite forallb_forall in H6.
      apply list_eqb_eq. apply H6. apply in_seq. lia.
  Qed.
End PadFacts.

Definition Holds_C04_pad (K C : nat) (s : list nat) (ob : obs) : Prop :=
  StripedPad K C s (o_st ob) /\
  (forall i r, In (i, r) (o_index ob) -> i < length s -> r = Ok (nth i s (wild K))) /\
  o_all ob = Ok s /\
  o_counts ob = Ok (lin_counts K s) /\
  o_count1 ob = Ok (lin_counts K s) /\
  o_agree ob = true.
