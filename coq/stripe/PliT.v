(* The provided methods of trait Stripe (pli/mod.rs: the generic stripe / stripe_into) as
   TRANSLATED statement lists: the same functions as StripeModel.stripe_into_generic /
   stripe_fresh, but every expression (row count, capacity, reserve / resize arguments, the
   index expressions of the two loops, the fill range, the arguments of StripedSequence::new)
   is the one regenerated from the source into GenPli.v.  PliTProofs.v proves them equal to
   the hand-written model functions (for C > 0), so every C04 theorem about generic striping
   is a theorem about the translated text; the extracted driver runs these versions.

   Also: histories with Clone and the From conversions (op3).

   Executable definitions only.
   Panic 5: usize underflow in a translated expression; Panic 3: division / remainder by 0;
   Panic 4: StripedSequence::new(..).unwrap() on Err. *)
From Coq Require Import List Arith Bool Lia.
From LMBase Require Import Res ListX.
From LMStripe Require Import StripeModel NetModel GenStripeNet StripeAvx2 GenSeq SeqT GenPli PadModel PadHistory.
Import ListNotations.

Definition divs_ok (l : list nat) : bool := forallb (fun d => negb (d =? 0)) l.

(* the value of a translated expression *)
Definition tx (ok : bool) (divs : list nat) (v : nat) : res nat :=
  if negb ok then Panic 5 else if negb (divs_ok divs) then Panic 3 else Ok v.

Definition unwrap_new (r : res sseq) : res sseq :=
  match r with Err _ => Panic 4 | r' => r' end.

Inductive op3 : Type :=
| O2 (o : op2)
| OClone                               (* buf = buf.clone()   (derived: field-wise copy; capacity is not a field of the model) *)
| OFromEnc (a : arm) (s : list nat)    (* buf = StripedSequence::from(EncodedSequence::new(s)) = to_striped, dispatcher arm a *)
| OViaMatrix.                          (* let l = buf.len(); let m = DenseMatrix::from(take(buf)); buf = StripedSequence::new(m, l)?
                                          (into_matrix = the data field: look-ahead rows become sequence rows, wrap = 0) *)


Section PliT.
  Variable K C : nat.

  Definition xr : nat := default_extra_rows.

  (* for (i, &x) in s.iter().enumerate() { data[<w_row>][<w_col>] = x; } *)
  Fixpoint write_seq_t (len rows cap i : nat) (s : list nat) (m : matrix) : res matrix :=
    match s with
    | [] => Ok m
    | v :: t =>
        rbind (tx (si_w_row_ok len C xr rows cap (length m) i) (si_w_row_div len C xr rows cap (length m) i)
                  (si_w_row len C xr rows cap (length m) i)) (fun r =>
        rbind (tx (si_w_col_ok len C xr rows cap (length m) i) (si_w_col_div len C xr rows cap (length m) i)
                  (si_w_col len C xr rows cap (length m) i)) (fun c =>
        rbind (m_set C m r c v) (fun m' => write_seq_t len rows cap (S i) t m')))
    end.

  (* for i in <f_lo>..<f_hi> { data[<f_row>][<f_col>] = A::Symbol::default(); }
     (the range is evaluated once, before the loop) *)
  Definition fill_tail_t (len rows cap : nat) (m : matrix) : res matrix :=
    let dr := length m in
    rbind (tx (si_f_lo_ok len C xr rows cap dr) (si_f_lo_div len C xr rows cap dr) (si_f_lo len C xr rows cap dr)) (fun lo =>
    rbind (tx (si_f_hi_ok len C xr rows cap dr) (si_f_hi_div len C xr rows cap dr) (si_f_hi len C xr rows cap dr)) (fun hi =>
    for_res (range lo hi) (fun i m' =>
      rbind (tx (si_f_row_ok len C xr rows cap (length m') i) (si_f_row_div len C xr rows cap (length m') i)
                (si_f_row len C xr rows cap (length m') i)) (fun r =>
      rbind (tx (si_f_col_ok len C xr rows cap (length m') i) (si_f_col_div len C xr rows cap (length m') i)
                (si_f_col len C xr rows cap (length m') i)) (fun c =>
      m_set C m' r c (wild K)))) m)).

  (* Stripe::stripe_into (provided method) on the buffer [old] *)
  Definition stripe_into_generic_t (s : list nat) (old : sseq) : res sseq :=
    let len := length s in
    rbind (tx (si_rows_ok len C xr) (si_rows_div len C xr) (si_rows len C xr)) (fun rows =>
    rbind (tx (si_capacity_ok len C xr rows) (si_capacity_div len C xr rows) (si_capacity len C xr rows)) (fun cap =>
    (* data.reserve(<reserve>): evaluated, no logical effect *)
    rbind (tx (si_reserve_ok len C xr rows cap) (si_reserve_div len C xr rows cap) (si_reserve len C xr rows cap)) (fun _ =>
    rbind (tx (si_resize_ok len C xr rows cap) (si_resize_div len C xr rows cap) (si_resize len C xr rows cap)) (fun rsz =>
    let data := m_resize K C (mat old) rsz in
    rbind (write_seq_t len rows cap 0 s data) (fun data1 =>
    rbind (fill_tail_t len rows cap data1) (fun data2 =>
    rbind (tx (si_newlen_ok len C xr rows cap) (si_newlen_div len C xr rows cap) (si_newlen len C xr rows cap)) (fun nl =>
    unwrap_new (s_new_t C data2 nl)))))))).

  (* Stripe::stripe (provided method) around the pipeline's stripe_into *)
  Definition stripe_fresh_t (into : list nat -> sseq -> res sseq) (s : list nat) : res sseq :=
    let len := length s in
    rbind (tx (st_rows_ok len C xr) (st_rows_div len C xr) (st_rows len C xr)) (fun rows =>
    rbind (tx (st_capacity_ok len C xr rows) (st_capacity_div len C xr rows) (st_capacity len C xr rows)) (fun cap =>
    rbind (tx (st_mrows_ok len C xr rows cap) (st_mrows_div len C xr rows cap) (st_mrows len C xr rows cap)) (fun mr =>
    (* with_capacity(_, <mcap>): evaluated, no logical effect *)
    rbind (tx (st_mcap_ok len C xr rows cap) (st_mcap_div len C xr rows cap) (st_mcap len C xr rows cap)) (fun _ =>
    rbind (tx (st_newlen_ok len C xr rows cap) (st_newlen_div len C xr rows cap) (st_newlen len C xr rows cap)) (fun nl =>
    rbind (unwrap_new (s_new_t C (m_new K C mr) nl)) (fun st => into s st)))))).

  Definition kernel_into_t (k : kernel) (s : list nat) (old : sseq) : res sseq :=
    match k with
    | KGeneric => stripe_into_generic_t s old
    | KAvx2 => stripe_into_avx2 K s old
    end.

  Definition stripe_into_t (b : backend) (s : list nat) (old : sseq) : res sseq :=
    if backend_typed C b then kernel_into_t (backend_kernel b) s old else Err 1.

  (* seq.rs StripedSequence::sample as REPAIRED (/repo 740d563), translated text (GenPli.v, names sm_...):
       let mut data = uninitialized(<rows>); every row, left to right, takes the next C draws;
       let rows = data.rows(); for i in <f_lo>..<f_hi> { data[<f_row>][<f_col>] = A::default_symbol(); }
       Self::new(data, <newlen>).expect(..)          (Panic 8 = the expect)
     The stream of draws is explicit (draw number -> symbol); rows*C draws are consumed as before the
     repair, the padding cells are then overwritten with the wildcard.
     (PadModel.striped_sample is the function BEFORE the repair: padding = further draws.) *)
  Definition sample_fill_t (len : nat) (m : matrix) : res matrix :=
    let rows := length m in
    rbind (tx (sm_f_lo_ok len C xr rows) (sm_f_lo_div len C xr rows) (sm_f_lo len C xr rows)) (fun lo =>
    rbind (tx (sm_f_hi_ok len C xr rows) (sm_f_hi_div len C xr rows) (sm_f_hi len C xr rows)) (fun hi =>
    for_res (range lo hi) (fun i m' =>
      rbind (tx (sm_f_row_ok len C xr rows i) (sm_f_row_div len C xr rows i) (sm_f_row len C xr rows i)) (fun r =>
      rbind (tx (sm_f_col_ok len C xr rows i) (sm_f_col_div len C xr rows i) (sm_f_col len C xr rows i)) (fun c =>
      m_set C m' r c (wild K)))) m)).

  Definition striped_sample_fix (stream : nat -> nat) (len : nat) : res sseq :=
    rbind (tx (sm_rows_ok len C xr) (sm_rows_div len C xr) (sm_rows len C xr)) (fun rows =>
    let data := map (fun r => map (fun c => stream (r * C + c)) (seq 0 C)) (seq 0 rows) in
    rbind (sample_fill_t len data) (fun data2 =>
    rbind (tx (sm_newlen_ok len C xr) (sm_newlen_div len C xr) (sm_newlen len C xr)) (fun nl =>
    match s_new_t C data2 nl with Err _ => Panic 8 | r => r end))).

  (* step2 with the translated provided methods and the repaired sample *)
  Definition step2_t (st : sseq) (o : op2) : res sseq :=
    match o with
    | O1 (OStripeInto b s) => stripe_into_t b s st
    | O1 (OStripe b s) => if backend_typed C b then stripe_fresh_t (stripe_into_t b) s else Err 1
    | OSample draws len => striped_sample_fix (stream_of draws) len
    | _ => step2 K C st o
    end.

  (* ---------- Clone and the From conversions ---------- *)

  (* the op2 an op3 amounts to in state st *)
  Definition lower (st : sseq) (o : op3) : option op2 :=
    match o with
    | O2 o' => Some o'
    | OClone => None
    | OFromEnc a s => Some (O1 (OStripe (BDispatch a) s))
    | OViaMatrix => Some (ONew (mat st) (slen st))
    end.

  Definition step3 (st : sseq) (o : op3) : res sseq :=
    match lower st o with
    | None => Ok st
    | Some o' => step2_t st o'
    end.

  Fixpoint run3 (st : sseq) (ops : list op3) : res sseq :=
    match ops with
    | [] => Ok st
    | o :: t => rbind (step3 st o) (fun st' => run3 st' t)
    end.

  Definition op3_ok (o : op3) : bool :=
    match o with
    | O2 o' => op2_ok C o'
    | OClone => true
    | OFromEnc _ _ => C =? 32
    | OViaMatrix => true
    end.

  (* the logical sequence held after one op / after a history (follows the states) *)
  Definition seq_after3_1 (s : list nat) (st : sseq) (o : op3) : list nat :=
    match lower st o with
    | None => s
    | Some o' => seq_after1 K C s o'
    end.

  Fixpoint seq_after3 (s : list nat) (st : sseq) (ops : list op3) : list nat :=
    match ops with
    | [] => s
    | o :: t => match step3 st o with
                | Ok st' => seq_after3 (seq_after3_1 s st o) st' t
                | _ => s
                end
    end.
End PliT.
