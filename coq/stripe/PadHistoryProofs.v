From Coq Require Import List Arith Bool Lia.
From LMBase Require Import Res ListX.
From LMStripe Require Import StripeModel NetModel GenStripeNet StripeAvx2 StripeSpec StripeProofs SpecProofs
  NetProofs Avx2Proofs HistoryProofs GenSeq SeqT SeqTProofs PadModel PadProofs PadHistory.
Import ListNotations.

Section H2.
  Variable K C : nat.
  Hypothesis HC : 0 < C.

  Lemma step_t_eq st o : step_t K C st o = step K C st o.
  Proof.
    destruct o; cbn [step_t step]; try reflexivity.
    - apply configure_t_eq. assumption.
    - apply configure_wrap_t_eq. assumption.
  Qed.

  Lemma StripedPad_wf s st : StripedPad K C s st -> wf_matrix C (mat st).
  Proof. intros (_ & pad & HS & _). apply HS. Qed.

  Lemma forallb_wf m : forallb (fun row => length row =? C) m = true -> wf_matrix C m.
  Proof.
    intros H. apply Forall_forall. intros row Hin. apply Nat.eqb_eq.
    rewrite forallb_forall in H. apply H. assumption.
  Qed.

  Lemma step2_spec s st o : StripedPad K C s st -> op2_ok C o = true ->
    exists st', step2 K C st o = Ok st' /\ StripedPad K C (seq_after1 K C s o) st'.
  Proof.
    intros HP Hok. destruct o as [o|draws len|m len]; cbn [step2 seq_after1 op2_ok] in *.
    - rewrite step_t_eq. destruct o as [b q|b q|M|k]; cbn [step last_seq fold_left op_typed] in *.
      + destruct (stripe_into_spec K C HC b q st Hok (StripedPad_wf s st HP)) as (st' & A & B & _).
        exists st'. split; [assumption|]. apply Striped_StripedPad; assumption.
      + rewrite Hok.
        destruct (stripe_fresh_spec K C HC (stripe_into K C b) q) as (st' & A & B & _).
        { intros old Hwf. apply stripe_into_spec; assumption. }
        exists st'. split; [assumption|]. apply Striped_StripedPad; assumption.
      + apply configure_pad; assumption.
      + destruct (configure_wrap_pad K C HC s st k HP) as (st' & A & B & _). exists st'. auto.
    - destruct (sample_pad K C HC (stream_of draws) len) as (st' & A & _ & _ & _ & _ & B).
      exists st'. auto.
    - apply andb_true_iff in Hok. destruct Hok as [Hw Hl]. rewrite Hw. apply Nat.leb_le in Hl.
      destruct (new_pad K C HC m len (forallb_wf m Hw)) as [A _]. destruct (A Hl) as [A1 A2].
      eexists. split; [exact A1|exact A2].
  Qed.

  Lemma run2_spec : forall ops s st, StripedPad K C s st -> forallb (op2_ok C) ops = true ->
    exists st', run2 K C st ops = Ok st' /\ StripedPad K C (seq_after K C s ops) st'.
  Proof.
    induction ops as [|o t IH]; intros s st HP Hok.
    - exists st. split; [reflexivity|exact HP].
    - cbn [forallb] in Hok. apply andb_true_iff in Hok. destruct Hok as [Ho Ht].
      destruct (step2_spec s st o HP Ho) as (st1 & A & B).
      destruct (IH _ st1 B Ht) as (st2 & A2 & B2).
      exists st2. cbn [run2]. rewrite A. cbn [rbind]. split; [exact A2|exact B2].
  Qed.

  (* the extracted checker for padded states *)
  Lemma check_C04_pad_sound s ob : check_C04_pad K C s ob = true -> Holds_C04_pad K C s ob.
  Proof.
    intros H. unfold check_C04_pad in H.
    apply andb_true_iff in H. destruct H as [H H6].
    apply andb_true_iff in H. destruct H as [H H5].
    apply andb_true_iff in H. destruct H as [H H7].
    apply andb_true_iff in H. destruct H as [H H4].
    apply andb_true_iff in H. destruct H as [H1 H3].
    apply (check_pad_sound K C HC) in H1.
    unfold Holds_C04_pad. split; [assumption|]. split.
    { intros i r Hin Hi. rewrite forallb_forall in H3. specialize (H3 _ Hin). cbn [fst snd] in H3.
      destruct (Nat.ltb_spec i (length s)); [|lia]. apply is_ok_nat_true. assumption. }
    split; [apply is_ok_list_true; assumption|].
    split; [apply is_ok_list_true; assumption|].
    split; [apply is_ok_list_true; assumption|assumption].
  Qed.
End H2.
