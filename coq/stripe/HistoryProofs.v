(* Operation histories on one StripedSequence buffer, backend independence, the
   dispatcher, and soundness / completeness of the extracted checker check_C04. *)
From Coq Require Import List Arith Bool Lia.
From LMBase Require Import Res ListX.
From LMStripe Require Import StripeModel NetModel GenStripeNet StripeAvx2 StripeSpec StripeProofs SpecProofs NetProofs Avx2Proofs.
Import ListNotations.

Section Hist.
  Variable K C : nat.
  Hypothesis HC : 0 < C.

  Lemma kernel_into_spec k (s : list nat) (old : sseq) :
    (k = KAvx2 -> C = 32) -> wf_matrix C (mat old) ->
    exists st, kernel_into K C k s old = Ok st /\ Striped K C s st /\ swrap st = 0.
  Proof.
    intros Hk Hwf. destruct k; simpl.
    - apply stripe_into_generic_spec; assumption.
    - specialize (Hk eq_refl). subst C. apply stripe_into_avx2_spec. assumption.
  Qed.

  Lemma backend_typed_kernel b : backend_typed C b = true -> backend_kernel b = KAvx2 -> C = 32.
  Proof.
    destruct b as [| |a]; simpl; intros H E; try discriminate; apply Nat.eqb_eq; assumption.
  Qed.

  Lemma stripe_into_spec b (s : list nat) (old : sseq) :
    backend_typed C b = true -> wf_matrix C (mat old) ->
    exists st, stripe_into K C b s old = Ok st /\ Striped K C s st /\ swrap st = 0.
  Proof.
    intros Hb Hwf. unfold stripe_into. rewrite Hb.
    apply kernel_into_spec; [|assumption]. apply backend_typed_kernel. assumption.
  Qed.

  Lemma stripe_fresh_spec (into : list nat -> sseq -> res sseq) (s : list nat) :
    (forall old, wf_matrix C (mat old) ->
       exists st, into s old = Ok st /\ Striped K C s st /\ swrap st = 0) ->
    exists st, stripe_fresh K C into s = Ok st /\ Striped K C s st /\ swrap st = 0.
  Proof.
    intros H. unfold stripe_fresh. rewrite rows_fresh_eq by assumption.
    unfold s_new. rewrite m_new_length.
    pose proof (seq_rows_ge C (length s) HC).
    destruct (Nat.ltb_spec (seq_rows C (length s) * C) (length s)); [lia|]. cbn [rbind].
    apply H. cbn [mat]. apply m_new_wf.
  Qed.

  Lemma Striped_wf s st : Striped K C s st -> wf_matrix C (mat st).
  Proof. intros H. apply H. Qed.

  Lemma step_spec s st o : Striped K C s st -> op_typed C o = true ->
    exists st', step K C st o = Ok st' /\ Striped K C (last_seq s [o]) st' /\
                swrap st' = wrap_after (swrap st) [o].
  Proof.
    intros HS Ht. destruct o as [b q|b q|M|k]; cbn [step last_seq wrap_after fold_left op_typed] in *.
    - apply stripe_into_spec; [assumption|]. apply (Striped_wf s). assumption.
    - rewrite Ht. apply stripe_fresh_spec. intros old Hwf. apply stripe_into_spec; assumption.
    - apply configure_spec; assumption.
    - apply configure_wrap_spec; assumption.
  Qed.

  Lemma last_seq_cons s o t : last_seq s (o :: t) = last_seq (last_seq s [o]) t.
  Proof. reflexivity. Qed.

  Lemma wrap_after_cons w o t : wrap_after w (o :: t) = wrap_after (wrap_after w [o]) t.
  Proof. reflexivity. Qed.

  Lemma run_spec : forall ops s st, Striped K C s st -> forallb (op_typed C) ops = true ->
    exists st', run K C st ops = Ok st' /\ Striped K C (last_seq s ops) st' /\
                swrap st' = wrap_after (swrap st) ops.
  Proof.
    induction ops as [|o t IH]; intros s st HS Ht.
    - exists st. split; [reflexivity|]. split; [exact HS|reflexivity].
    - cbn [forallb] in Ht. apply andb_true_iff in Ht. destruct Ht as [Ho Ht].
      destruct (step_spec s st o HS Ho) as (st1 & Hrun1 & HS1 & Hw1).
      destruct (IH _ st1 HS1 Ht) as (st2 & Hrun2 & HS2 & Hw2).
      exists st2. cbn [run]. rewrite Hrun1. cbn [rbind].
      rewrite last_seq_cons, wrap_after_cons, <- Hw1. auto.
  Qed.

  Lemma run_app : forall ops1 ops2 st,
    run K C st (ops1 ++ ops2) = rbind (run K C st ops1) (fun st1 => run K C st1 ops2).
  Proof.
    induction ops1 as [|o t IH]; intros ops2 st; cbn [run app rbind]; [reflexivity|].
    destruct (step K C st o); cbn [rbind]; auto.
  Qed.

  (* the invariant holds after every operation of the history, not only at its end *)
  Lemma run_prefix_spec ops s st n : Striped K C s st -> forallb (op_typed C) ops = true ->
    exists st1, run K C st (firstn n ops) = Ok st1 /\ Striped K C (last_seq s (firstn n ops)) st1 /\
                swrap st1 = wrap_after (swrap st) (firstn n ops).
  Proof.
    intros HS Ht. apply run_spec; [assumption|].
    rewrite <- (firstn_skipn n ops), forallb_app in Ht. apply andb_true_iff in Ht. apply Ht.
  Qed.

  (* ---------- backend independence ---------- *)

  Lemma stripe_into_backend_indep b (s : list nat) (old : sseq) :
    backend_typed C b = true -> wf_matrix C (mat old) ->
    stripe_into K C b s old = stripe_into_generic K C s old.
  Proof.
    intros Hb Hwf.
    destruct (stripe_into_spec b s old Hb Hwf) as (st1 & H1 & HS1 & Hw1).
    destruct (stripe_into_generic_spec K C s old HC Hwf) as (st2 & H2 & HS2 & Hw2).
    rewrite H1, H2. f_equal. apply (Striped_unique K C s); auto. congruence.
  Qed.

  Lemma generic_op_typed o : op_typed C (generic_op o) = true.
  Proof. destruct o; reflexivity. Qed.

  Lemma last_seq_generic : forall ops s, last_seq s (map generic_op ops) = last_seq s ops.
  Proof.
    induction ops as [|o t IH]; intros s; [reflexivity|].
    cbn [map]. rewrite (last_seq_cons s (generic_op o)), (last_seq_cons s o), IH. destruct o; reflexivity.
  Qed.

  Lemma wrap_after_generic : forall ops w, wrap_after w (map generic_op ops) = wrap_after w ops.
  Proof.
    induction ops as [|o t IH]; intros w; [reflexivity|].
    cbn [map]. rewrite (wrap_after_cons w (generic_op o)), (wrap_after_cons w o), IH. destruct o; reflexivity.
  Qed.

  Lemma run_backend_indep ops s st : Striped K C s st -> forallb (op_typed C) ops = true ->
    run K C st ops = run K C st (map generic_op ops).
  Proof.
    intros HS Ht.
    destruct (run_spec ops s st HS Ht) as (st1 & H1 & HS1 & Hw1).
    assert (Hg : forallb (op_typed C) (map generic_op ops) = true).
    { apply forallb_forall. intros o Ho. apply in_map_iff in Ho. destruct Ho as (o' & <- & _).
      apply generic_op_typed. }
    destruct (run_spec (map generic_op ops) s st HS Hg) as (st2 & H2 & HS2 & Hw2).
    rewrite last_seq_generic in HS2. rewrite wrap_after_generic in Hw2.
    rewrite H1, H2. f_equal. apply (Striped_unique K C (last_seq s ops)); auto. congruence.
  Qed.
End Hist.

(* the dispatcher: whichever arm runs, the result is the generic one *)
Lemma stripe_dispatch_eq_lemma K (a : arm) (s : list nat) (old : sseq) :
  wf_matrix 32 (mat old) ->
  kernel_into K 32 (disp_stripe a) s old = stripe_into_generic K 32 s old.
Proof.
  intros Hwf. destruct (disp_stripe a); cbn [kernel_into]; [reflexivity|].
  apply stripe_avx2_eq_generic_lemma. assumption.
Qed.

(* the striped form determines the sequence *)
Lemma Striped_lossless K C (s s' : list nat) (st : sseq) :
  0 < C -> Striped K C s st -> Striped K C s' st -> s = s'.
Proof.
  intros HC H1 H2.
  pose proof H1 as (_ & _ & Hl1 & _). pose proof H2 as (_ & _ & Hl2 & _).
  apply (nth_ext_len _ _ (wild K)); [congruence|].
  intros i Hi.
  destruct (s_index_spec K C s st i HC H1) as [A _].
  destruct (s_index_spec K C s' st i HC H2) as [B _].
  pose proof (seq_rows_ge C (length s) HC). pose proof (seq_rows_ge C (length s') HC).
  rewrite A in B by lia. specialize (B ltac:(lia)). congruence.
Qed.

(* ---------- the checker ---------- *)

Definition Holds_C04 (K C : nat) (s : list nat) (ob : obs) : Prop :=
  Striped K C s (o_st ob) /\
  (forall k, k < swrap (o_st ob) ->
     nth (seq_rows C (length s) + k) (mat (o_st ob)) [] = shift_row K (nth k (mat (o_st ob)) [])) /\
  (forall i r, In (i, r) (o_index ob) -> i < length s -> r = Ok (nth i s (wild K))) /\
  o_all ob = Ok s /\
  o_counts ob = Ok (lin_counts K s) /\
  o_count1 ob = Ok (lin_counts K s) /\
  o_agree ob = true.

Lemma is_ok_nat_true r v : is_ok_nat r v = true -> r = Ok v.
Proof. destruct r; simpl; try discriminate. intros H. apply Nat.eqb_eq in H. congruence. Qed.

Lemma is_ok_list_true r l : is_ok_list r l = true -> r = Ok l.
Proof. destruct r; simpl; try discriminate. intros H. apply list_eqb_eq in H. congruence. Qed.

Lemma list_eqb_refl l : list_eqb l l = true.
Proof. apply list_eqb_eq. reflexivity. Qed.

Lemma check_C04_sound_lemma K C s ob : 0 < C -> check_C04 K C s ob = true -> Holds_C04 K C s ob.
Proof.
  intros HC H. unfold check_C04 in H.
  apply andb_true_iff in H. destruct H as [H H6].
  apply andb_true_iff in H. destruct H as [H H5].
  apply andb_true_iff in H. destruct H as [H H7].
  apply andb_true_iff in H. destruct H as [H H4].
  apply andb_true_iff in H. destruct H as [H1 H3].
  (* H1 striped (fast check), H3 sampled Index, H4 all Index, H7 counts, H5 count1, H6 agree *)
  apply (check_fast_sound K C s _ HC) in H1.
  unfold Holds_C04. split; [assumption|]. split.
  { intros k Hk. apply (wrap_row_shift_lemma K C s _ k HC H1 Hk). }
  split.
  { intros i r Hin Hi. rewrite forallb_forall in H3. specialize (H3 _ Hin). cbn [fst snd] in H3.
    destruct (Nat.ltb_spec i (length s)); [|lia]. apply is_ok_nat_true. assumption. }
  split; [apply is_ok_list_true; assumption|].
  split; [apply is_ok_list_true; assumption|].
  split; [apply is_ok_list_true; assumption|assumption].
Qed.

Lemma res_all_ok {A B} (f : A -> B) (g : A -> res B) l :
  (forall x, In x l -> g x = Ok (f x)) -> res_all (map g l) = Ok (map f l).
Proof.
  induction l as [|x t IH]; intros H; [reflexivity|].
  cbn [map res_all]. rewrite (H x) by (left; reflexivity). cbn [rbind].
  rewrite IH by (intros y Hy; apply H; right; assumption). reflexivity.
Qed.

(* the model's own observation of a striped state passes the checker: with
   run_spec this is the property theorem in executable form *)
Lemma model_passes_C04_lemma K C s st idx : 0 < C -> Forall (fun y => y < K) s ->
  Striped K C s st -> check_C04 K C s (observe K C st idx) = true.
Proof.
  intros HC Hsym HS. unfold check_C04, observe. cbn [o_st o_index o_all o_counts o_count1 o_agree].
  assert (EA : index_all K C st = Ok s).
  { unfold index_all. pose proof HS as (_ & _ & Hsl & _). rewrite Hsl.
    rewrite (res_all_ok (fun i => nth i s (wild K))).
    - f_equal. apply map_nth_seq_id. reflexivity.
    - intros i Hi. apply in_seq in Hi. apply (s_index_spec K C s st i HC HS).
      pose proof (seq_rows_ge C (length s) HC). lia. }
  rewrite EA.
  rewrite (check_fast_complete K C s st HC HS).
  rewrite (count_symbols_lemma K C HC s st HS Hsym).
  assert (E : count_each K C st = Ok (lin_counts K s)).
  { unfold count_each, lin_counts. apply res_all_ok. intros x _. apply count_symbol_lemma; assumption. }
  rewrite E. cbn [is_ok_list]. rewrite !list_eqb_refl. cbn [andb]. rewrite !andb_true_r.
  apply forallb_forall. intros p Hp. apply in_map_iff in Hp. destruct Hp as (i & <- & _). cbn [fst snd].
  destruct (Nat.ltb_spec i (length s)) as [Hi|]; [|reflexivity].
  destruct (s_index_spec K C s st i HC HS) as [Hok _]. rewrite Hok.
  - cbn [is_ok_nat]. apply Nat.eqb_refl.
  - pose proof (seq_rows_ge C (length s) HC). lia.
Qed.
