(* Lane-wise model of the AVX2 intrinsics used by the 32x32 byte transposition of
   `stripe_avx2` (lightmotif/src/pli/platform/avx2.rs), executable definitions only.

   A 256-bit register holding 32 bytes is a list of 32 lanes (lane 0 = lowest
   byte).  Every intrinsic of the network is a data-independent permutation of
   the 64 lanes of its two operands: output lane j = lane idx[j] of (a ++ b).

     _mm256_unpack{lo,hi}_epi{8,16,32,64}(a,b): within each 128-bit half, the
        W-bit units of the low (lo) / high (hi) 64 bits of a and b interleaved
        a0,b0,a1,b1,...
     _mm256_permute2x128_si256(a,b,imm): low 128 bits selected by imm[1:0], high
        128 bits by imm[5:4] among 0 = a.lo, 1 = a.hi, 2 = b.lo, 3 = b.hi
        (the zeroing bits imm[3], imm[7] are not modelled: selector >= 4 selects
        nothing and the register comes out short, which the proofs reject).

   These index lists are part of the trusted base (intrinsic semantics); they are
   exercised on every run by the correspondence check. *)
From Coq Require Import List Arith Bool Lia.
From LMBase Require Import Res ListX.
Import ListNotations.

(* arms of the dispatching pipeline (pli/dispatch.rs) and the striping kernels *)
Inductive arm : Type := AGeneric | ASse2 | AAvx2.
Inductive kernel : Type := KGeneric | KAvx2.
(* arms of the dispatching pipeline on arm / aarch64 targets (Dispatch = Generic | Neon) *)
Inductive arm_neon : Type := NGeneric | NNeon.

Inductive intr : Type :=
| IUnpackLo (w : nat)        (* _mm256_unpacklo_epi<w> *)
| IUnpackHi (w : nat)        (* _mm256_unpackhi_epi<w> *)
| IPerm2x128 (imm : nat).    (* _mm256_permute2x128_si256(_, _, imm) *)

(* one `unpack!(kind, ra, rb)` invocation after macro expansion:
     let t = ra; ra = f1(t, rb); rb = f2(t, rb); *)
Inductive nop : Type :=
| NPair (f1 f2 : intr) (a b : nat).

(* unit of u bytes; half = 0 (lo) or 8 (hi) *)
Definition unpack_idx (u half : nat) : list nat :=
  flat_map (fun l =>
    flat_map (fun t =>
      map (fun e => 16 * l + half + t * u + e) (seq 0 u) ++
      map (fun e => 32 + 16 * l + half + t * u + e) (seq 0 u))
      (seq 0 (8 / u)))
    [0; 1].

Definition sel128 (n : nat) : list nat := if n <? 4 then seq (16 * n) 16 else [].

Definition intr_idx (f : intr) : list nat :=
  match f with
  | IUnpackLo w => unpack_idx (w / 8) 0
  | IUnpackHi w => unpack_idx (w / 8) 8
  | IPerm2x128 imm => sel128 (imm mod 16) ++ sel128 (imm / 16)
  end.

Section Lanes.
  Context {A : Type}.
  Variable d : A.     (* never selected when registers have 32 lanes and indices are < 64 *)

  Definition gather (idx : list nat) (v : list A) : list A := map (fun i => nth i v d) idx.

  Definition apply_intr (f : intr) (a b : list A) : list A := gather (intr_idx f) (a ++ b).

  Definition regfile := list (list A).

  Definition net_step (regs : regfile) (o : nop) : regfile :=
    match o with
    | NPair f1 f2 a b =>
        let t := nth a regs [] in
        let regs1 := upd a (apply_intr f1 t (nth b regs [])) regs in
        upd b (apply_intr f2 t (nth b regs1 [])) regs1
    end.

  Definition run_net (ops : list nop) (regs : regfile) : regfile := fold_left net_step ops regs.

  (* One block of the transposition: [loads] = (register, K) for
     `let mut r = loadu(src + K*src_stride)`, [stores] = (K, register) for
     `stream(out + K*out_stride, r)`.  [ld K] is the vector loaded at multiplier K.
     The result is the list of the 32 output rows (row K = what was stored at
     out + K*out_stride; [] if nothing was stored there). *)
  Definition net_load (loads : list (nat * nat)) (ld : nat -> list A) : regfile :=
    fold_left (fun regs p => upd (fst p) (ld (snd p)) regs) loads (repeat [] 32).

  Definition net_store (stores : list (nat * nat)) (regs : regfile) (out : list (list A)) : list (list A) :=
    fold_left (fun o p => upd (fst p) (nth (snd p) regs []) o) stores out.

  Definition net_block (loads : list (nat * nat)) (ops : list nop) (stores : list (nat * nat))
             (ld : nat -> list A) : list (list A) :=
    net_store stores (run_net ops (net_load loads ld)) (repeat [] 32).

End Lanes.
