(* Additions to the extracted property checker (review of round 3, findings 2 and 3):
   - Index beyond the end of the sequence: the wildcard inside the matrix (L <= i < R*C), a panic
     beyond it (R*C <= i) -- decided by the extracted checker instead of only by the comparison
     with the model;
   - "generic and AVX2 striping into clones of the buffer agree": decided here, from the two
     states printed by the harness, instead of by a boolean computed in Rust.
   Executable definitions only. *)
From Coq Require Import List Arith Bool Lia.
From LMBase Require Import Res ListX.
From LMStripe Require Import StripeModel.
Import ListNotations.

Definition is_panic (r : res nat) : bool := match r with Panic _ => true | _ => false end.

Section Full.
  Variable K C : nat.

  (* sampled Index results at positions >= L *)
  Definition check_index_beyond (s : list nat) (ob : obs) : bool :=
    forallb (fun p =>
      if fst p <? length s then true
      else if fst p <? seq_rows C (length s) * C then is_ok_nat (snd p) (wild K)
      else is_panic (snd p)) (o_index ob).

  (* both kernels left the striped form of s, with the same number of look-ahead rows, in
     their clone of the buffer (=> the two states are equal: FullCheckProofs.check_agree_sound) *)
  Definition check_agree (s : list nat) (g a : sseq) : bool :=
    check_striped_fast K C s g && check_striped_fast K C s a && (swrap g =? swrap a).

  Definition check_C04_full (s : list nat) (ob : obs) : bool :=
    check_C04 K C s ob && check_index_beyond s ob.
End Full.
