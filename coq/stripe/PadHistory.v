(* Operation histories that also build the buffer with StripedSequence::sample and
   StripedSequence::new (arbitrary padding), and run the TRANSLATED configure /
   configure_wrap (SeqT.v).  Executable definitions only. *)
From Coq Require Import List Arith Bool Lia.
From LMBase Require Import Res ListX.
From LMStripe Require Import StripeModel NetModel GenStripeNet StripeAvx2 GenSeq SeqT PadModel.
Import ListNotations.

Inductive op2 : Type :=
| O1 (o : op)                                  (* stripe_into / stripe / configure / configure_wrap *)
| OSample (draws : list nat) (len : nat)       (* buf = StripedSequence::sample(rng, background, len); draws = the stream *)
| ONew (m : matrix) (len : nat).               (* buf = StripedSequence::new(matrix, len)?  (Err leaves buf alone) *)

Section Run2.
  Variable K C : nat.

  (* step with the translated seq.rs methods *)
  Definition step_t (st : sseq) (o : op) : res sseq :=
    match o with
    | OConfigure M => configure_t K C M st
    | OConfigureWrap k => configure_wrap_t K C k st
    | _ => step K C st o
    end.

  Definition stream_of (draws : list nat) : nat -> nat := fun i => nth i draws 0.

  Definition step2 (st : sseq) (o : op2) : res sseq :=
    match o with
    | O1 o' => step_t st o'
    | OSample draws len => striped_sample C (stream_of draws) len
    | ONew m len => if forallb (fun row => length row =? C) m then s_new_t C m len else Err 1
    end.

  Fixpoint run2 (st : sseq) (ops : list op2) : res sseq :=
    match ops with
    | [] => Ok st
    | o :: t => rbind (step2 st o) (fun st' => run2 st' t)
    end.

  (* operations that can be written (typed backends, matrices of C columns) and succeed *)
  Definition op2_ok (o : op2) : bool :=
    match o with
    | O1 o' => op_typed C o'
    | OSample _ _ => true
    | ONew m len => forallb (fun row => length row =? C) m && (len <=? length m * C)
    end.

  (* the logical sequence held by the buffer after a history *)
  Definition seq_after1 (s : list nat) (o : op2) : list nat :=
    match o with
    | O1 o' => last_seq s [o']
    | OSample draws len => sample_seq C (stream_of draws) len
    | ONew m len => logical_seq K C (mkS m len 0)
    end.

  Definition seq_after (s0 : list nat) (ops : list op2) : list nat := fold_left seq_after1 ops s0.
End Run2.
