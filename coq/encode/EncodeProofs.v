(* Lemmas about the encoder models (property C05). *)
From Coq Require Import List NArith Arith Bool Lia.
From Coq.Strings Require Import Byte.
From LMBase Require Import Res ListX.
From LMEncode Require Import EncodeModel.
Import ListNotations.

(* ================================================================ lists *)

Section ListLemmas.
  Context {X : Type}.

  Lemma firstn_upd_S (l : list X) i v :
    i < length l -> firstn (S i) (upd i v l) = firstn i l ++ [v].
  Proof.
    revert i; induction l as [|h t IH]; intros [|i] H; simpl in *; try lia; auto.
    f_equal. apply IH. lia.
  Qed.

  Lemma skipn_upd_lt (l : list X) i j v : i < j -> skipn j (upd i v l) = skipn j l.
  Proof.
    revert i j; induction l as [|h t IH]; intros [|i] [|j] H; simpl in *; try lia; auto.
    apply IH; lia.
  Qed.

  Lemma firstn_add (l : list X) i n : firstn (i + n) l = firstn i l ++ firstn n (skipn i l).
  Proof.
    revert l; induction i as [|i IH]; intros l; simpl; auto.
    destruct l as [|h t]; simpl.
    - rewrite firstn_nil. reflexivity.
    - f_equal. apply IH.
  Qed.

  Lemma skipn_add (l : list X) i n : skipn (i + n) l = skipn n (skipn i l).
  Proof.
    revert l; induction i as [|i IH]; intros l; simpl; auto.
    destruct l as [|h t]; simpl; auto. rewrite skipn_nil. reflexivity.
  Qed.

  Lemma firstn_skipn_len (l : list X) i n : i + n <= length l -> length (firstn n (skipn i l)) = n.
  Proof. intros H. rewrite firstn_length, skipn_length. lia. Qed.
End ListLemmas.

Lemma map2_length {X Y Z} (f : X -> Y -> Z) a b : length (map2 f a b) = Nat.min (length a) (length b).
Proof. revert b; induction a as [|x a IH]; intros [|y b]; simpl; auto. Qed.

Lemma forallb_map2_lor a b :
  length a = length b ->
  forallb (N.eqb 0) (map2 N.lor a b) = forallb (N.eqb 0) a && forallb (N.eqb 0) b.
Proof.
  revert b; induction a as [|x a IH]; intros [|y b] H; simpl in *; try discriminate; auto.
  rewrite IH by lia.
  destruct x, y; simpl; auto; rewrite ?andb_false_r; auto.
Qed.

Lemma forallb_map2_land_diag a : forallb (N.eqb 0) (map2 N.land a a) = forallb (N.eqb 0) a.
Proof. induction a as [|x a IH]; simpl; auto. rewrite N.land_diag, IH. reflexivity. Qed.

Lemma existsb_nonzero a : existsb (fun x => negb (N.eqb x 0)) a = negb (forallb (N.eqb 0) a).
Proof.
  induction a as [|x a IH]; simpl; auto. rewrite IH, negb_andb, (N.eqb_sym x 0). reflexivity.
Qed.

Lemma forallb_zero_repeat n : forallb (N.eqb 0) (repeat 0%N n) = true.
Proof. induction n; simpl; auto. Qed.

(* ================================================================ bytes *)

Lemma all_bytes_complete : forall b : byte, In b all_bytes.
Proof.
  intros b.
  assert (H : existsb (Byte.eqb b) all_bytes = true) by (destruct b; vm_compute; reflexivity).
  apply existsb_exists in H. destruct H as [x [Hin Heq]].
  apply Byte.byte_dec_bl in Heq. subst x. exact Hin.
Qed.

(* a boolean predicate checked on the 256 bytes holds for every byte *)
Lemma byte_sweep (P : byte -> bool) : forallb P all_bytes = true -> forall b, P b = true.
Proof. intros H b. rewrite forallb_forall in H. apply H, all_bytes_complete. Qed.

(* ================================================================ tables *)

Definition res_sym_eqb (a b : res sym) : bool :=
  match a, b with
  | Ok x, Ok y => N.eqb x y
  | Err x, Err y => Nat.eqb x y
  | Panic x, Panic y => Nat.eqb x y
  | OutOfFuel, OutOfFuel => true
  | _, _ => false
  end.

Lemma res_sym_eqb_eq a b : res_sym_eqb a b = true -> a = b.
Proof.
  destruct a, b; simpl; intros H; try discriminate; auto.
  - apply N.eqb_eq in H; subst; auto.
  - apply Nat.eqb_eq in H; subst; auto.
  - apply Nat.eqb_eq in H; subst; auto.
Qed.

Definition is_upper (b : byte) : bool := (65 <=? Byte.to_N b)%N && (Byte.to_N b <=? 90)%N.
Definition is_lower_or_high (b : byte) : bool :=
  ((97 <=? Byte.to_N b)%N && (Byte.to_N b <=? 122)%N) || (128 <=? Byte.to_N b)%N.

(* The executable consistency check of the generated tables of one alphabet. *)
Definition tables_ok (A : abc) : bool :=
  (* from_ascii agrees, on every byte, with the position in the alphabet string *)
  forallb (fun b => res_sym_eqb (from_ascii A b) (spec_sym A b)) all_bytes
  (* position i of the string is accepted as index i (so the letters are distinct) *)
  && forallb (fun i => match nth_error (a_str A) i with
                       | Some b => res_sym_eqb (from_ascii A b) (Ok (N.of_nat i))
                       | None => false
                       end) (seq 0 (a_K A))
  && (length (a_str A) =? a_K A)
  (* as_ascii inverts from_ascii, and from_ascii inverts as_ascii *)
  && forallb (fun b => match from_ascii A b with
                       | Ok s => match as_ascii A s with Some b' => Byte.eqb b b' | None => false end
                       | _ => true
                       end) all_bytes
  && forallb (fun sb => res_sym_eqb (from_ascii A (snd sb)) (Ok (fst sb))) (a_as_ascii A)
  (* symbols() is index 0..K-1 in order; these are the declared discriminants *)
  && list_N_eqb (a_symbols A) (map N.of_nat (seq 0 (a_K A)))
  && forallb (fun s => existsb (N.eqb s) (a_discr A)) (a_symbols A)
  && (length (a_discr A) =? a_K A)
  (* upper-case ASCII alphabet; lower case and bytes >= 0x80 rejected with their own char *)
  && forallb is_upper (a_str A)
  && forallb (fun b => if is_lower_or_high b
                       then res_sym_eqb (from_ascii A b) (Err (Byte.to_nat b)) else true) all_bytes.

Record TablesConsistent (A : abc) : Prop := {
  tc_len : length (a_str A) = a_K A;
  tc_spec : forall b, from_ascii A b = spec_sym A b;
  tc_from_iff : forall b s, from_ascii A b = Ok s <-> nth_error (a_str A) (N.to_nat s) = Some b;
  tc_as_from : forall b s, from_ascii A b = Ok s -> as_ascii A s = Some b;
  tc_from_as : forall s b, as_ascii A s = Some b -> from_ascii A b = Ok s;
  tc_symbols : a_symbols A = map N.of_nat (seq 0 (a_K A));
  tc_discr : length (a_discr A) = a_K A /\ forall s, In s (a_symbols A) -> In s (a_discr A);
  tc_upper : forall b, In b (a_str A) -> (65 <= Byte.to_N b <= 90)%N;
  tc_reject : forall b, ((97 <= Byte.to_N b <= 122)%N \/ (128 <= Byte.to_N b)%N) ->
                        from_ascii A b = Err (Byte.to_nat b)
}.

Lemma list_N_eqb_eq a b : list_N_eqb a b = true -> a = b.
Proof.
  revert b; induction a as [|x a IH]; intros [|y b]; simpl; intros H; try discriminate; auto.
  apply andb_true_iff in H. destruct H as [H1 H2]. apply N.eqb_eq in H1. subst. f_equal. auto.
Qed.

Lemma list_N_eqb_refl a : list_N_eqb a a = true.
Proof. induction a; simpl; auto. rewrite N.eqb_refl. auto. Qed.

Lemma list_byte_eqb_eq a b : list_byte_eqb a b = true -> a = b.
Proof.
  revert b; induction a as [|x a IH]; intros [|y b]; simpl; intros H; try discriminate; auto.
  apply andb_true_iff in H. destruct H as [H1 H2]. apply Byte.byte_dec_bl in H1. subst. f_equal. auto.
Qed.

Lemma index_of_nth b l : forall i0 s,
  index_of b l i0 = Some s ->
  exists k, s = (i0 + N.of_nat k)%N /\ nth_error l k = Some b.
Proof.
  induction l as [|x r IH]; intros i0 s H; simpl in H; try discriminate.
  destruct (Byte.eqb b x) eqn:E.
  - inversion H; subst. exists 0. split; [simpl; lia|]. apply Byte.byte_dec_bl in E. subst. reflexivity.
  - apply IH in H. destruct H as [k [Hs Hk]]. exists (S k). split; auto. lia.
Qed.

Lemma index_of_none b l : forall i0, index_of b l i0 = None <-> ~ In b l.
Proof.
  induction l as [|x r IH]; intros i0; simpl.
  - tauto.
  - destruct (Byte.eqb b x) eqn:E.
    + apply Byte.byte_dec_bl in E. subst. split; [discriminate | intros H; exfalso; apply H; auto].
    + apply Byte.eqb_false in E. rewrite IH. split; intros H.
      * intros [H1|H1]; [congruence | auto].
      * intros H1. apply H. auto.
Qed.

Lemma from_ascii_cases A c : (exists s, from_ascii A c = Ok s) \/ from_ascii A c = Err (Byte.to_nat c).
Proof. unfold from_ascii. destruct (assoc_byte c (a_from_ascii A)); eauto. Qed.

Lemma assoc_sym_in s t b : assoc_sym s t = Some b -> In (s, b) t.
Proof.
  induction t as [|[k v] r IH]; simpl; try discriminate.
  destruct (N.eqb s k) eqn:E.
  - intros H. inversion H; subst. apply N.eqb_eq in E. subst. auto.
  - intros H. right. auto.
Qed.

Lemma tables_ok_sound A : tables_ok A = true -> TablesConsistent A.
Proof.
  unfold tables_ok. intros H.
  repeat rewrite andb_true_iff in H.
  destruct H as [[[[[[[[[K0 K1] K2] K3] K4] K5] K6] K7] K8] K9].
  pose proof (byte_sweep _ K0) as S0. pose proof (byte_sweep _ K3) as S3. pose proof (byte_sweep _ K9) as S9.
  apply Nat.eqb_eq in K2.
  assert (Hspec : forall b, from_ascii A b = spec_sym A b).
  { intros b. apply res_sym_eqb_eq, S0. }
  constructor; auto.
  - (* from_iff *)
    intros b s. split; intros Hb.
    + rewrite Hspec in Hb. unfold spec_sym in Hb.
      destruct (index_of b (a_str A) 0) eqn:E; try discriminate. inversion Hb; subst.
      apply index_of_nth in E. destruct E as [k [Hs Hk]]. subst. simpl. rewrite Nat2N.id. exact Hk.
    + assert (Hlt : N.to_nat s < a_K A).
      { rewrite <- K2. apply nth_error_Some. congruence. }
      rewrite forallb_forall in K1. specialize (K1 (N.to_nat s)).
      rewrite Hb in K1. rewrite N2Nat.id in K1. apply res_sym_eqb_eq, K1. apply in_seq. lia.
  - (* as_from *)
    intros b s Hb. specialize (S3 b). simpl in S3. rewrite Hb in S3.
    destruct (as_ascii A s) as [b'|]; try discriminate. apply Byte.byte_dec_bl in S3. subst. reflexivity.
  - (* from_as *)
    intros s b Hs. apply assoc_sym_in in Hs. rewrite forallb_forall in K4.
    apply res_sym_eqb_eq. apply (K4 (s, b)). exact Hs.
  - apply list_N_eqb_eq. exact K5.
  - split; [apply Nat.eqb_eq; exact K7|].
    intros s Hs. rewrite forallb_forall in K6. specialize (K6 s Hs).
    apply existsb_exists in K6. destruct K6 as [x [Hx Hx']]. apply N.eqb_eq in Hx'. subst. exact Hx.
  - intros b Hb. rewrite forallb_forall in K8. specialize (K8 b Hb). unfold is_upper in K8.
    apply andb_true_iff in K8. destruct K8 as [U1 U2]. apply N.leb_le in U1, U2. lia.
  - intros b Hb. specialize (S9 b). simpl in S9.
    assert (E : is_lower_or_high b = true).
    { unfold is_lower_or_high. apply orb_true_iff. destruct Hb as [[L1 L2]|L3].
      - left. apply andb_true_iff. split; apply N.leb_le; auto.
      - right. apply N.leb_le; auto. }
    rewrite E in S9. apply res_sym_eqb_eq. exact S9.
Qed.

(* ================================================================ generic encoder *)

(* the table-level outcome: symbols by from_ascii, or the first error *)
Fixpoint enc_tab (A : abc) (cs : list byte) : res (list sym) :=
  match cs with
  | [] => Ok []
  | c :: r =>
      match from_ascii A c with
      | Ok s => match enc_tab A r with Ok l => Ok (s :: l) | e => e end
      | Err e => Err e
      | Panic p => Panic p
      | OutOfFuel => OutOfFuel
      end
  end.

Lemma enc_tab_cases A cs : (exists l, enc_tab A cs = Ok l) \/ (exists e, enc_tab A cs = Err e).
Proof.
  induction cs as [|c r IH]; simpl; eauto.
  destruct (from_ascii_cases A c) as [[s Hs]|He]; rewrite ?Hs, ?He; eauto.
  destruct IH as [[l Hl]|[e He]]; rewrite ?Hl, ?He; eauto.
Qed.

Lemma enc_tab_length A cs l : enc_tab A cs = Ok l -> length l = length cs.
Proof.
  revert l; induction cs as [|c r IH]; simpl; intros l H.
  - inversion H; auto.
  - destruct (from_ascii A c); try discriminate.
    destruct (enc_tab A r); try discriminate. inversion H; subst. simpl. f_equal. auto.
Qed.

Lemma enc_tab_app A a b :
  enc_tab A (a ++ b) =
  match enc_tab A a with
  | Ok la => match enc_tab A b with Ok lb => Ok (la ++ lb) | e => e end
  | e => e
  end.
Proof.
  induction a as [|c r IH]; simpl.
  - destruct (enc_tab A b); auto.
  - destruct (from_ascii A c); auto. rewrite IH.
    destruct (enc_tab A r); auto. destruct (enc_tab A b); auto.
Qed.

Lemma enc_tab_err_mid A a b c e :
  enc_tab A b = Err e -> exists e', enc_tab A (a ++ b ++ c) = Err e'.
Proof.
  intros H. rewrite enc_tab_app.
  destruct (enc_tab_cases A a) as [[la Ha]|[ea Ha]]; rewrite Ha; eauto.
  rewrite enc_tab_app, H. eauto.
Qed.

Lemma enc_tab_spec A : (forall b, from_ascii A b = spec_sym A b) -> forall cs, enc_tab A cs = encode_spec A cs.
Proof.
  intros H cs. induction cs as [|c r IH]; simpl; auto. rewrite H, IH. reflexivity.
Qed.

Lemma rescan_enc_tab A cs :
  rescan A cs = match enc_tab A cs with Ok _ => Ok tt | Err e => Err e | Panic p => Panic p | OutOfFuel => OutOfFuel end.
Proof.
  induction cs as [|c r IH]; simpl; auto.
  destruct (from_ascii A c); auto. rewrite IH. destruct (enc_tab A r); auto.
Qed.

Lemma gen_loop_ok A : forall cs i dst syms,
  enc_tab A cs = Ok syms -> i + length cs <= length dst ->
  gen_loop A cs i dst = (firstn i dst ++ syms ++ skipn (i + length cs) dst, Ok tt).
Proof.
  induction cs as [|c r IH]; intros i dst syms H Hlen; simpl in *.
  - inversion H; subst. simpl. rewrite Nat.add_0_r, firstn_skipn. reflexivity.
  - destruct (from_ascii A c) as [s| | |] eqn:Hc; try discriminate.
    destruct (enc_tab A r) as [l| | |] eqn:Hr; try discriminate. inversion H; subst.
    assert (Hi : i < length dst) by lia.
    apply Nat.ltb_lt in Hi as Hi'. rewrite Hi'.
    rewrite (IH (S i) (upd i s dst) l eq_refl) by (rewrite upd_length; lia).
    rewrite firstn_upd_S by exact Hi. rewrite skipn_upd_lt by lia.
    replace (S i + length r) with (i + S (length r)) by lia.
    rewrite <- app_assoc. reflexivity.
Qed.

Lemma gen_loop_err A : forall cs i dst e,
  enc_tab A cs = Err e -> i + length cs <= length dst ->
  snd (gen_loop A cs i dst) = Err e.
Proof.
  induction cs as [|c r IH]; intros i dst e H Hlen; simpl in *; try discriminate.
  destruct (from_ascii A c) as [s| | |] eqn:Hc; try discriminate.
  - destruct (enc_tab A r) as [l| | |] eqn:Hr; try discriminate. inversion H; subst.
    assert (Hi : i < length dst) by lia. apply Nat.ltb_lt in Hi. rewrite Hi.
    apply IH; auto. rewrite upd_length. lia.
  - inversion H; subst. reflexivity.
Qed.

(* What it means for an encode_into implementation to be correct w.r.t. the table. *)
Definition into_correct (A : abc) (f : list byte -> buffer -> buffer * res unit) : Prop :=
  forall s dst,
    (length s = length dst ->
     match enc_tab A s with
     | Ok syms => f s dst = (syms, Ok tt)
     | Err e => snd (f s dst) = Err e
     | _ => False
     end) /\
    (length s <> length dst -> f s dst = (dst, Panic 1)).

Lemma generic_into_correct A : into_correct A (encode_into_generic A).
Proof.
  intros s dst. unfold encode_into_generic. split; intros H.
  - apply Nat.eqb_eq in H as H'. rewrite H'.
    destruct (enc_tab_cases A s) as [[l Hl]|[e He]].
    + rewrite Hl. rewrite (gen_loop_ok A s 0 dst l Hl) by lia. simpl.
      rewrite skipn_all2 by lia. rewrite app_nil_r. reflexivity.
    + rewrite He. apply gen_loop_err; auto. lia.
  - apply Nat.eqb_neq in H. rewrite H. reflexivity.
Qed.

Lemma encode_raw_correct A f junk s : into_correct A f -> encode_raw f junk s = enc_tab A s.
Proof.
  intros Hf. unfold encode_raw.
  destruct (Hf s (map junk (seq 0 (length s)))) as [H _].
  specialize (H ltac:(rewrite map_length, seq_length; reflexivity)).
  destruct (enc_tab A s) as [l|e| |]; try contradiction.
  - rewrite H. reflexivity.
  - destruct (f s (map junk (seq 0 (length s)))) as [buf st]. simpl in H. subst. reflexivity.
Qed.

(* ================================================================ SIMD kernels *)

(* one lane of the letter loop *)
Definition lane_blend (kp : kparams) (e idx m : N) : N :=
  if kp_blendv kp then lane_blendv e idx m else N.lor (lane_andnot m e) (N.land m idx).

Fixpoint lane_letters (kp : kparams) (al : list byte) (a n : nat) (x e u : N) : N * N :=
  match n with
  | O => (e, u)
  | S n' =>
      match nth_error al a with
      | None => (e, u)
      | Some ch =>
          let m := lane_cmpeq x (Byte.to_N ch) in
          lane_letters kp al (S a) n' x (lane_blend kp e (u8_of_nat a) m) (lane_andnot m u)
      end
  end.

Definition lane_fn (kp : kparams) (A : abc) (x : N) : N * N :=
  lane_letters kp (a_str A) 0 (a_K A) x (init_lane kp A) 255%N.

(* the 256-value sweep: a lane holding an alphabet byte ends as (its symbol, 0), any
   other lane ends with a non-zero unknown flag *)
Definition lanes_ok (kp : kparams) (A : abc) : bool :=
  forallb (fun b =>
             let r := lane_fn kp A (Byte.to_N b) in
             match from_ascii A b with
             | Ok s => N.eqb (fst r) s && N.eqb 0 (snd r)
             | _ => negb (N.eqb 0 (snd r))
             end) all_bytes.

Lemma set1_map {X} (lanes : nat) (c : N) (l : list X) :
  length l = lanes -> set1 lanes c = map (fun _ => c) l.
Proof. intros <-. unfold set1. induction l; simpl; auto. f_equal; auto. Qed.

Lemma blend_lanes kp (E : N -> N) idx c : forall letters lanes,
  length letters = lanes ->
  blend kp (map E letters) (set1 lanes idx) (cmpeq_epi8 letters (set1 lanes c))
  = map (fun x => lane_blend kp (E x) idx (lane_cmpeq x c)) letters.
Proof.
  unfold blend, lane_blend, blendv_epi8, or_si, andnot_si, and_si, cmpeq_epi8, set1.
  destruct (kp_blendv kp).
  - induction letters as [|x r IH]; intros [|lanes] H; simpl in *; try discriminate; auto.
    f_equal. apply IH. lia.
  - induction letters as [|x r IH]; intros [|lanes] H; simpl in *; try discriminate; auto.
    f_equal. apply IH. lia.
Qed.

Lemma andnot_lanes (U : N -> N) c : forall letters lanes,
  length letters = lanes ->
  andnot_si (cmpeq_epi8 letters (set1 lanes c)) (map U letters)
  = map (fun x => lane_andnot (lane_cmpeq x c) (U x)) letters.
Proof.
  unfold andnot_si, cmpeq_epi8, set1.
  induction letters as [|x r IH]; intros [|lanes] H; simpl in *; try discriminate; auto.
  f_equal. apply IH. lia.
Qed.

Lemma simd_letters_lanes kp al letters :
  length letters = kp_lanes kp ->
  forall n a (E U : N -> N), a + n <= length al ->
    simd_letters kp al a n letters (map E letters) (map U letters)
    = Ok (map (fun x => fst (lane_letters kp al a n x (E x) (U x))) letters,
          map (fun x => snd (lane_letters kp al a n x (E x) (U x))) letters).
Proof.
  intros Hlen. induction n as [|n IH]; intros a E U Ha; simpl.
  - reflexivity.
  - destruct (nth_error al a) as [ch|] eqn:Hch.
    2:{ apply nth_error_None in Hch. lia. }
    rewrite (blend_lanes kp E (u8_of_nat a) (Byte.to_N ch) letters (kp_lanes kp) Hlen).
    rewrite (andnot_lanes U (Byte.to_N ch) letters (kp_lanes kp) Hlen).
    rewrite (IH (S a)) by lia. reflexivity.
Qed.

Lemma block_result kp A bs :
  a_K A <= length (a_str A) ->
  length bs = kp_lanes kp ->
  simd_letters kp (a_str A) 0 (a_K A) (map Byte.to_N bs)
    (set1 (kp_lanes kp) (init_lane kp A)) (set1 (kp_lanes kp) 255%N)
  = Ok (map (fun b => fst (lane_fn kp A (Byte.to_N b))) bs,
        map (fun b => snd (lane_fn kp A (Byte.to_N b))) bs).
Proof.
  intros HK Hlen.
  assert (Hl : length (map Byte.to_N bs) = kp_lanes kp) by (rewrite map_length; exact Hlen).
  rewrite (set1_map (kp_lanes kp) (init_lane kp A) (map Byte.to_N bs) Hl).
  rewrite (set1_map (kp_lanes kp) 255%N (map Byte.to_N bs) Hl).
  rewrite (simd_letters_lanes kp (a_str A) (map Byte.to_N bs) Hl) by lia.
  rewrite !map_map. reflexivity.
Qed.

Lemma lanes_zero_ok kp A : lanes_ok kp A = true -> forall bs,
  forallb (N.eqb 0) (map (fun b => snd (lane_fn kp A (Byte.to_N b))) bs) = true ->
  enc_tab A bs = Ok (map (fun b => fst (lane_fn kp A (Byte.to_N b))) bs).
Proof.
  intros Hok. pose proof (byte_sweep _ Hok) as S. induction bs as [|b r IH]; simpl; intros H; auto.
  apply andb_true_iff in H. destruct H as [H1 H2].
  specialize (S b). simpl in S.
  destruct (from_ascii A b) as [s|e|p|] eqn:Hb.
  - apply andb_true_iff in S. destruct S as [S1 S2]. apply N.eqb_eq in S1.
    rewrite (IH H2). rewrite S1. reflexivity.
  - rewrite H1 in S. discriminate.
  - rewrite H1 in S. discriminate.
  - rewrite H1 in S. discriminate.
Qed.

Lemma lanes_nonzero_err kp A : lanes_ok kp A = true -> forall bs,
  forallb (N.eqb 0) (map (fun b => snd (lane_fn kp A (Byte.to_N b))) bs) = false ->
  exists e, enc_tab A bs = Err e.
Proof.
  intros Hok. pose proof (byte_sweep _ Hok) as S. induction bs as [|b r IH]; simpl; intros H; try discriminate.
  specialize (S b). simpl in S.
  destruct (from_ascii_cases A b) as [[s Hs]|He].
  - rewrite Hs in *. apply andb_true_iff in S. destruct S as [S1 S2]. rewrite S2 in H. simpl in H.
    destruct (IH H) as [e He]. rewrite He. eauto.
  - rewrite He. eauto.
Qed.

Lemma error_nonzero_spec kp error : error_nonzero kp error = negb (forallb (N.eqb 0) error).
Proof.
  unfold error_nonzero, testz_si. destruct (kp_testz kp).
  - rewrite forallb_map2_land_diag. destruct (forallb (N.eqb 0) error); reflexivity.
  - apply existsb_nonzero.
Qed.

Section Blocks.
  Variable kp : kparams.
  Variable A : abc.
  Hypothesis Hlanes : 0 < kp_lanes kp.
  Hypothesis HK : a_K A <= length (a_str A).
  Hypothesis Hok : lanes_ok kp A = true.
  Variable s : list byte.

  Definition blocks_inv (i : nat) (dst : buffer) (error : vec) : Prop :=
    i <= length s /\ length dst = length s /\ length error = kp_lanes kp /\
    (forallb (N.eqb 0) error = true -> enc_tab A (firstn i s) = Ok (firstn i dst)) /\
    (forallb (N.eqb 0) error = false -> exists e, enc_tab A s = Err e).

  Lemma simd_blocks_inv : forall fuel i dst error,
    length s - i < fuel -> blocks_inv i dst error ->
    exists i' dst' error',
      simd_blocks fuel kp A s (length s) i dst error = Ok (i', dst', error') /\
      blocks_inv i' dst' error'.
  Proof.
    induction fuel as [|fuel IH]; intros i dst error Hfuel Hinv; [lia|].
    simpl.
    destruct (if kp_strict kp then i + kp_lanes kp <? length s else i + kp_lanes kp <=? length s) eqn:Hcond.
    2:{ exists i, dst, error. split; auto. }
    assert (Hle : i + kp_lanes kp <= length s).
    { destruct (kp_strict kp); [apply Nat.ltb_lt in Hcond | apply Nat.leb_le in Hcond]; lia. }
    destruct Hinv as (Hi & Hdst & Herr & Hz & Hnz).
    set (bs := firstn (kp_lanes kp) (skipn i s)).
    assert (Hbs : length bs = kp_lanes kp) by (apply firstn_skipn_len; exact Hle).
    unfold loadu. fold bs. rewrite (block_result kp A bs HK Hbs).
    set (enc := map (fun b => fst (lane_fn kp A (Byte.to_N b))) bs).
    set (unk := map (fun b => snd (lane_fn kp A (Byte.to_N b))) bs).
    assert (Henc : length enc = kp_lanes kp) by (unfold enc; rewrite map_length; exact Hbs).
    assert (Hunk : length unk = kp_lanes kp) by (unfold unk; rewrite map_length; exact Hbs).
    apply IH; [lia|].
    unfold blocks_inv. repeat split.
    - lia.
    - unfold storeu. rewrite !app_length, firstn_length, skipn_length, Henc. lia.
    - unfold or_si. rewrite map2_length. lia.
    - intros Hzero. unfold or_si in Hzero. rewrite forallb_map2_lor in Hzero by lia.
      apply andb_true_iff in Hzero. destruct Hzero as [Z1 Z2].
      rewrite firstn_add. fold bs. rewrite enc_tab_app, (Hz Z1).
      rewrite (lanes_zero_ok kp A Hok bs Z2). fold enc.
      f_equal. unfold storeu. rewrite app_assoc. rewrite firstn_app_exact; auto.
      rewrite app_length, firstn_length, Henc. lia.
    - intros Hnzero. unfold or_si in Hnzero. rewrite forallb_map2_lor in Hnzero by lia.
      apply andb_false_iff in Hnzero. destruct Hnzero as [Z1|Z2]; auto.
      destruct (lanes_nonzero_err kp A Hok bs Z2) as [e He].
      rewrite <- (firstn_skipn i s). rewrite <- (firstn_skipn (kp_lanes kp) (skipn i s)). fold bs.
      eapply enc_tab_err_mid. exact He.
  Qed.

  Lemma simd_into_correct_len dst :
    length s = length dst ->
    match enc_tab A s with
    | Ok syms => encode_into_simd kp A s dst = (syms, Ok tt)
    | Err e => snd (encode_into_simd kp A s dst) = Err e
    | _ => False
    end.
  Proof.
    intros Hlen. unfold encode_into_simd.
    apply Nat.eqb_eq in Hlen as Hlen'. rewrite Hlen'.
    destruct (simd_blocks_inv (S (length s)) 0 dst (set1 (kp_lanes kp) 0%N)) as (i' & dst' & error' & Hrun & Hinv).
    { lia. }
    { unfold blocks_inv, set1. rewrite repeat_length. repeat split; auto; try lia.
      rewrite forallb_zero_repeat. discriminate. }
    rewrite Hrun. destruct Hinv as (Hi & Hdst & Herr & Hz & Hnz).
    rewrite error_nonzero_spec.
    destruct (forallb (N.eqb 0) error') eqn:Hzero; simpl.
    - specialize (Hz eq_refl).
      destruct (kp_tail_always kp || (i' <? length s))%bool eqn:Hi'.
      + destruct (generic_into_correct A (skipn i' s) (skipn i' dst')) as [Hg _].
        specialize (Hg ltac:(rewrite !skipn_length; lia)).
        assert (Hsplit : enc_tab A s = enc_tab A (firstn i' s ++ skipn i' s))
          by (rewrite firstn_skipn; reflexivity).
        rewrite Hsplit, enc_tab_app, Hz.
        destruct (enc_tab A (skipn i' s)) as [t|e| |]; try contradiction.
        * rewrite Hg. reflexivity.
        * simpl. exact Hg.
      + apply orb_false_iff in Hi'. destruct Hi' as [_ Hi'].
        apply Nat.ltb_ge in Hi'. assert (i' = length s) by lia. subst i'.
        rewrite firstn_all in Hz. rewrite <- Hdst in Hz. rewrite firstn_all in Hz. rewrite Hz. reflexivity.
    - destruct (Hnz eq_refl) as [e He]. rewrite rescan_enc_tab, He. reflexivity.
  Qed.

  Lemma simd_into_mismatch dst : length s <> length dst -> encode_into_simd kp A s dst = (dst, Panic 1).
  Proof. intros H. unfold encode_into_simd. apply Nat.eqb_neq in H. rewrite H. reflexivity. Qed.
End Blocks.

Lemma simd_into_correct kp A :
  0 < kp_lanes kp -> a_K A <= length (a_str A) -> lanes_ok kp A = true ->
  into_correct A (encode_into_simd kp A).
Proof.
  intros H1 H2 H3 s dst. split.
  - apply simd_into_correct_len; auto.
  - apply simd_into_mismatch.
Qed.

(* ================================================================ the property *)

Definition in_abc (A : abc) (b : byte) : Prop := In b (a_str A).

(* What C05 says about the outcome [o] of encoding the byte string [s]. *)
Definition Holds (A : abc) (s : list byte) (o : res (list sym)) : Prop :=
  (Forall (in_abc A) s ->
     exists syms, o = Ok syms /\ length syms = length s /\
       (forall i b, nth_error s i = Some b ->
          exists x, nth_error syms i = Some x /\
                    nth_error (a_str A) (N.to_nat x) = Some b /\ as_ascii A x = Some b) /\
       to_string A syms = Some s /\ display A syms = Some (map Byte.to_nat s))
  /\ (forall pre b post, s = pre ++ b :: post -> Forall (in_abc A) pre -> ~ in_abc A b ->
        o = Err (Byte.to_nat b)).

Lemma outcome_eqb_eq a b : outcome_eqb a b = true -> a = b.
Proof.
  destruct a, b; simpl; intros H; try discriminate; auto.
  - apply list_N_eqb_eq in H. subst; auto.
  - apply Nat.eqb_eq in H; subst; auto.
  - apply Nat.eqb_eq in H; subst; auto.
Qed.

Lemma outcome_eqb_refl a : outcome_eqb a a = true.
Proof. destruct a; simpl; auto using list_N_eqb_refl, Nat.eqb_refl. Qed.

Lemma spec_sym_in_ok A b : in_abc A b -> exists x, spec_sym A b = Ok x.
Proof.
  unfold in_abc, spec_sym. intros H. destruct (index_of b (a_str A) 0) eqn:E; eauto.
  apply index_of_none in E. contradiction.
Qed.

Lemma spec_sym_notin A b : ~ in_abc A b -> spec_sym A b = Err (Byte.to_nat b).
Proof. unfold in_abc, spec_sym. intros H. apply (index_of_none b (a_str A) 0%N) in H. rewrite H. reflexivity. Qed.

Definition sym_of_byte (A : abc) (b : byte) (x : sym) : Prop :=
  nth_error (a_str A) (N.to_nat x) = Some b /\ as_ascii A x = Some b /\ (Byte.to_N b < 128)%N.

Lemma spec_sym_in A b : TablesConsistent A -> in_abc A b ->
  exists x, spec_sym A b = Ok x /\ sym_of_byte A b x.
Proof.
  intros T H. destruct (spec_sym_in_ok A b H) as [x Hx]. exists x. split; auto.
  rewrite <- (tc_spec A T) in Hx. repeat split.
  - apply (tc_from_iff A T); auto.
  - apply (tc_as_from A T); auto.
  - pose proof (tc_upper A T b H). lia.
Qed.

Lemma spec_ok A s : TablesConsistent A -> Forall (in_abc A) s ->
  exists syms, encode_spec A s = Ok syms /\ Forall2 (sym_of_byte A) s syms.
Proof.
  intros T. induction s as [|b r IH]; intros H; simpl.
  - exists []. auto.
  - inversion H; subst. destruct (spec_sym_in A b T H2) as [x [Hx Hs]]. rewrite Hx.
    destruct (IH H3) as [syms [He HF]]. rewrite He. exists (x :: syms). auto.
Qed.

Lemma spec_err A : forall pre b post,
  Forall (in_abc A) pre -> ~ in_abc A b -> encode_spec A (pre ++ b :: post) = Err (Byte.to_nat b).
Proof.
  induction pre as [|c r IH]; intros b post H Hb; simpl.
  - rewrite (spec_sym_notin A b Hb). reflexivity.
  - inversion H; subst. destruct (spec_sym_in_ok A c H2) as [x Hx]. rewrite Hx.
    rewrite (IH b post H3 Hb). reflexivity.
Qed.

Lemma utf8_ascii b : (Byte.to_N b < 128)%N -> utf8_of_u8char b = [b].
Proof. intros H. unfold utf8_of_u8char. apply N.ltb_lt in H. rewrite H. reflexivity. Qed.

Lemma forall2_facts A s syms : Forall2 (sym_of_byte A) s syms ->
  length syms = length s /\
  (forall i b, nth_error s i = Some b ->
     exists x, nth_error syms i = Some x /\
               nth_error (a_str A) (N.to_nat x) = Some b /\ as_ascii A x = Some b) /\
  to_string A syms = Some s /\ display A syms = Some (map Byte.to_nat s).
Proof.
  unfold to_string, display, as_char.
  induction 1 as [|b x r l Hbx HF IH]; simpl.
  - repeat split; auto. intros [|i] b H; discriminate.
  - destruct IH as (L & P & TS & D). destruct Hbx as (N1 & N2 & N3).
    repeat split.
    + f_equal; auto.
    + intros [|i] b' H'; simpl in *.
      * inversion H'; subst. exists x. auto.
      * apply P; auto.
    + rewrite N2. destruct (opt_all (map (as_ascii A) l)) as [bs|]; simpl in *; try discriminate.
      inversion TS as [TS']. rewrite (utf8_ascii b N3). simpl. rewrite TS'. reflexivity.
    + rewrite N2. simpl.
      destruct (opt_all (map (fun s => option_map Byte.to_nat (as_ascii A s)) l)); simpl in *; try discriminate.
      inversion D; subst. reflexivity.
Qed.

Lemma spec_holds A s : TablesConsistent A -> Holds A s (encode_spec A s).
Proof.
  intros T. split.
  - intros H. destruct (spec_ok A s T H) as [syms [He HF]]. exists syms. split; auto.
    apply forall2_facts; auto.
  - intros pre b post -> H Hb. apply spec_err; auto.
Qed.

Lemma first_bad A s :
  Forall (in_abc A) s \/
  exists pre b post, s = pre ++ b :: post /\ Forall (in_abc A) pre /\ ~ in_abc A b.
Proof.
  induction s as [|c r IH].
  - left. constructor.
  - destruct (in_dec Byte.byte_eq_dec c (a_str A)) as [Hc|Hc].
    + destruct IH as [IH|(pre & b & post & E & F & Nb)].
      * left. constructor; auto.
      * right. exists (c :: pre), b, post. subst. repeat split; auto.
    + right. exists [], c, r. repeat split; auto.
Qed.

Lemma nth_error_ext {X} : forall (l l' : list X), (forall i, nth_error l i = nth_error l' i) -> l = l'.
Proof.
  induction l as [|x l IH]; intros [|y l'] H; auto.
  - specialize (H 0). discriminate.
  - specialize (H 0). discriminate.
  - pose proof (H 0) as H0. simpl in H0. inversion H0; subst. f_equal. apply IH.
    intros i. apply (H (S i)).
Qed.

(* the property determines the outcome: it is the one computed by encode_spec *)
Lemma holds_unique A s o : TablesConsistent A -> Holds A s o -> o = encode_spec A s.
Proof.
  intros T [H1 H2]. destruct (spec_holds A s T) as [S1 S2].
  destruct (first_bad A s) as [F|(pre & b & post & E & F & Nb)].
  - destruct (H1 F) as (syms & -> & L & P & _). destruct (S1 F) as (syms' & -> & L' & P' & _).
    f_equal. apply nth_error_ext. intros i.
    destruct (nth_error s i) as [b|] eqn:Hb.
    + destruct (P i b Hb) as (x & Hx & Nx & _). destruct (P' i b Hb) as (x' & Hx' & Nx' & _).
      rewrite Hx, Hx'. f_equal.
      apply (tc_from_iff A T) in Nx. apply (tc_from_iff A T) in Nx'. congruence.
    + apply nth_error_None in Hb.
      assert (E1 : nth_error syms i = None) by (apply nth_error_None; lia).
      assert (E2 : nth_error syms' i = None) by (apply nth_error_None; lia).
      congruence.
  - rewrite (H2 pre b post E F Nb), (S2 pre b post E F Nb). reflexivity.
Qed.

Lemma check_sound A s o : TablesConsistent A -> check_C05 A s o = true -> Holds A s o.
Proof.
  intros T H. unfold check_C05 in H. apply outcome_eqb_eq in H. subst. apply spec_holds; auto.
Qed.

Lemma check_complete A s o : TablesConsistent A -> Holds A s o -> check_C05 A s o = true.
Proof.
  intros T H. unfold check_C05. rewrite (holds_unique A s o T H). apply outcome_eqb_refl.
Qed.

Lemma check_display_sound A s o shown :
  check_C05_display A s o shown = true -> forall syms, o = Ok syms -> shown = s.
Proof. intros H syms ->. simpl in H. apply list_byte_eqb_eq; auto. Qed.

(* Ok exactly when every byte is in the alphabet *)
Lemma spec_ok_iff A s : TablesConsistent A ->
  ((exists syms, encode_spec A s = Ok syms) <-> Forall (in_abc A) s).
Proof.
  intros T. split.
  - intros [syms H]. destruct (first_bad A s) as [F|(pre & b & post & E & F & Nb)]; auto.
    subst. rewrite spec_err in H; auto. discriminate.
  - intros F. destruct (spec_ok A s T F) as [syms [H _]]. eauto.
Qed.

(* a text containing a lower-case letter or a byte >= 0x80 is rejected *)
Lemma spec_rejects A s b : TablesConsistent A -> In b s ->
  ((97 <= Byte.to_N b <= 122)%N \/ (128 <= Byte.to_N b)%N) ->
  exists e, encode_spec A s = Err e.
Proof.
  intros T Hin Hb.
  destruct (first_bad A s) as [F|(pre & c & post & E & F & Nb)].
  - rewrite Forall_forall in F. specialize (F b Hin).
    pose proof (tc_upper A T b F). lia.
  - subst. rewrite spec_err; eauto.
Qed.

(* ================================================================ further consequences *)

Lemma nth_error_map_seq K i : i < K -> nth_error (map N.of_nat (seq 0 K)) i = Some (N.of_nat i).
Proof.
  intros H. rewrite nth_error_map.
  rewrite (nth_error_nth' (seq 0 K) 0) by (rewrite seq_length; exact H).
  rewrite seq_nth by exact H. reflexivity.
Qed.

Lemma symbols_facts A : TablesConsistent A -> forall i, i < a_K A ->
  nth_error (a_symbols A) i = Some (N.of_nat i) /\ as_index (N.of_nat i) = N.of_nat i /\
  In (N.of_nat i) (a_discr A).
Proof.
  intros T i Hi.
  assert (E : nth_error (a_symbols A) i = Some (N.of_nat i)).
  { rewrite (tc_symbols A T). apply nth_error_map_seq; auto. }
  repeat split; auto.
  apply (proj2 (tc_discr A T)). eapply nth_error_In; eauto.
Qed.

Lemma from_char_spec A c i : TablesConsistent A ->
  (from_char A c = Ok i <-> exists b, Byte.to_nat b = c /\ from_ascii A b = Ok i).
Proof.
  intros T. unfold from_char. split.
  - destruct (c <? 128) eqn:Hc; try discriminate.
    destruct (Byte.of_nat c) as [b|] eqn:Hb; try discriminate.
    intros H. exists b. split; auto. apply Byte.to_of_nat; auto.
  - intros [b [Hb Hi]]. subst c.
    assert (Hin : In b (a_str A)).
    { apply (tc_from_iff A T) in Hi. eapply nth_error_In; eauto. }
    pose proof (tc_upper A T b Hin) as Hu.
    assert (Hlt : Byte.to_nat b < 128) by (rewrite Byte.to_nat_via_N; lia).
    apply Nat.ltb_lt in Hlt. rewrite Hlt, Byte.of_to_nat. exact Hi.
Qed.

Lemma as_char_from_ascii A b i : TablesConsistent A ->
  from_ascii A b = Ok i -> as_char A i = Some (Byte.to_nat b) /\ from_char A (Byte.to_nat b) = Ok i.
Proof.
  intros T H. split.
  - unfold as_char. rewrite (tc_as_from A T b i H). reflexivity.
  - apply from_char_spec; eauto.
Qed.

(* round trip, from the property: an accepted text is displayed as itself *)
Lemma holds_display A s syms : TablesConsistent A -> Holds A s (Ok syms) ->
  to_string A syms = Some s /\ display A syms = Some (map Byte.to_nat s).
Proof.
  intros T H. pose proof (holds_unique A s _ T H) as E.
  assert (F : Forall (in_abc A) s) by (apply (spec_ok_iff A s T); eauto).
  destruct H as [H1 _]. destruct (H1 F) as (syms' & E' & _ & _ & TS & D).
  inversion E'; subst. auto.
Qed.
