(* Placement of the two slices of an `encode_into` call inside larger allocations
   (property C05, "alignment is irrelevant").  Executable definitions only.

   The safe API lets a caller pass any sub-slices:
       p.encode_into(&text[so .. so + n], &mut mem[d .. d + m])
   where `text : Vec<u8>` and `mem : Vec<A::Symbol>` are allocations at arbitrary
   (in the harness: 64-byte aligned) addresses, so that `so` and `d` are the misalignments of the
   source and destination pointers the kernel receives.  The kernels of EncodeModel.v
   only use *unaligned* loads and stores (`_mm{,256}_loadu_si*`, `_mm{,256}_storeu_si*`;
   the translator checks that no aligned load/store, `align_offset` or `align_to`
   occurs in the encoders), whose result does not depend on the address: this is why the
   kernel model takes lists, and the call below is its composition with the slicing.

   Panic site 4 = slice index out of range in the *caller* (`&text[so..so+n]`).
   A store of the kernel model that ran over the end of the destination slice would make
   the returned buffer longer than the slice, and [splice] would then overwrite the
   guard elements behind the window: "stores stay inside the slice" is a theorem
   (EncodeMemProofs.into_in_bounds), not a convention. *)
From Coq Require Import List NArith Arith Bool.
From Coq.Strings Require Import Byte.
From LMBase Require Import Res ListX.
From LMEncode Require Import EncodeModel GenAbc EncodeInst.
Import ListNotations.

(* the elements [off, off+n) of an allocation *)
Definition window {X : Type} (l : list X) (off n : nat) : list X := firstn n (skipn off l).

(* &l[off .. off + n] *)
Definition slice {X : Type} (l : list X) (off n : nat) : res (list X) :=
  if off + n <=? length l then Ok (window l off n) else Panic 4.

(* the allocation after the callee has returned the (possibly rewritten) slice [w] *)
Definition splice {X : Type} (l : list X) (off : nat) (w : list X) : list X :=
  firstn off l ++ w ++ skipn (off + length w) l.

Definition encode_into_at (enc : list byte -> buffer -> buffer * res unit)
           (text : list byte) (so n : nat) (mem : buffer) (d m : nat) : res (buffer * res unit) :=
  match slice text so n with
  | Ok s =>
      match slice mem d m with
      | Ok dst => let r := enc s dst in Ok (splice mem d (fst r), snd r)
      | Err e => Err e
      | Panic q => Panic q
      | OutOfFuel => OutOfFuel
      end
  | Err e => Err e
  | Panic q => Panic q
  | OutOfFuel => OutOfFuel
  end.

Definition pipeline_encode_into_at (p : pipeline) (A : abc) :=
  encode_into_at (pipeline_encode_into p A).

(* p.encode_raw(&text[so .. so + n]): misaligned source, fresh destination *)
Definition pipeline_encode_raw_at (p : pipeline) (A : abc) (junk : nat -> sym)
           (text : list byte) (so n : nat) : res (list sym) :=
  match slice text so n with
  | Ok s => pipeline_encode_raw p A junk s
  | Err e => Err e
  | Panic q => Panic q
  | OutOfFuel => OutOfFuel
  end.

(* What the harness observes of such a call: the outcome (window content when Ok) and
   whether every element outside the window (on a length-mismatch panic: every element)
   still has its old value. *)
Definition window_outcome (r : res (buffer * res unit)) (d m : nat) : res (list sym) :=
  match r with
  | Ok (buf, Ok _) => Ok (window buf d m)
  | Ok (_, Err e) => Err e
  | Ok (_, Panic q) => Panic q
  | Ok (_, OutOfFuel) => OutOfFuel
  | Err e => Err e
  | Panic q => Panic q
  | OutOfFuel => OutOfFuel
  end.

Definition guards_unchanged (mem : buffer) (r : res (buffer * res unit)) (d m : nat) : bool :=
  match r with
  | Ok (buf, Panic _) => list_N_eqb buf mem
  | Ok (buf, _) =>
      Nat.eqb (length buf) (length mem) &&
      list_N_eqb (firstn d buf) (firstn d mem) && list_N_eqb (skipn (d + m) buf) (skipn (d + m) mem)
  | _ => true
  end.
