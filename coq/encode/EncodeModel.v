(* Model of the sequence encoders of lightmotif (property C05), executable
   definitions only.

   Code modelled (all in /repo/lightmotif/src):
     abc.rs            Symbol::{from_ascii, as_ascii, as_index, from_char, as_char} of
                       Nucleotide / AminoAcid, Alphabet::{symbols, as_str, K} of Dna / Protein
                       (the tables themselves are *generated* into GenAbc.v on every run)
     pli/mod.rs        Encode::{encode_raw, encode, encode_into} (generic per-byte loop)
     pli/platform/avx2.rs  encode_into_avx2  (32-byte blocks, unknown mask, rescan, scalar tail)
     pli/platform/sse2.rs  encode_into_sse2  (16-byte blocks, strict loop bound)
     pli/platform/neon.rs  encode_into_neon  (4 x 16-byte registers per iteration, strict loop bound,
                       `encoded` starts at 0, tail call not guarded by `if i < l`; compiled on
                       arm/aarch64 only: never run by the correspondence check, tied textually)
     pli/dispatch.rs   impl Encode for Pipeline<A, Dispatch> (arm -> kernel; table generated)
     seq.rs            EncodedSequence::{encode, from_str}, Display
     err.rs            InvalidSymbol(char)

   Conventions
     byte   = Coq.Strings.Byte.byte : exactly the 256 values of a u8.
     sym    = N : a symbol is identified with its enum discriminant, which is what
              `as_index` (`*self as usize`) returns.
     char   = nat : a Unicode code point; `b as char` for a u8 is the code point b.
     Result<_, InvalidSymbol(c)> = res with [Err c], c the code point.
     Panic sites: 1 = assert_eq!(seq.len(), dst.len()); 2 = dst[i] out of bounds in the
     generic loop (unreachable after site 1); 3 = alphabet[a] out of bounds in a SIMD
     kernel (as_str() shorter than K).
     A destination buffer is a list of sym; a SIMD store writes raw u8 lanes into it
     (the enums are repr(u8)), including values that are no valid discriminant: this
     is faithful to the code, the buffer is dropped by encode_raw when an error is
     returned.  encode_raw's buffer is *uninitialised* (with_capacity + set_len):
     its initial content is an arbitrary function [junk]. *)
From Coq Require Import List NArith Arith Bool.
From Coq.Strings Require Import Byte.
From LMBase Require Import Res ListX.
Import ListNotations.

Definition sym := N.

(* ---------- tables of one alphabet (filled by the translator) ---------- *)

Record abc := {
  a_K : nat;                          (* <A::K as Unsigned>::USIZE *)
  a_str : list byte;                  (* A::as_str().as_bytes() *)
  a_symbols : list sym;               (* A::symbols(), each variant as its discriminant *)
  a_discr : list sym;                 (* discriminants of the enum, declaration order *)
  a_default : sym;                    (* the #[default] variant *)
  a_from_ascii : list (byte * sym);   (* arms `b'X' => Ok(V)` of from_ascii, source order;
                                         the catch-all arm is Err(InvalidSymbol(c as char)) *)
  a_as_ascii : list (sym * byte)      (* arms `V => b'X'` of as_ascii *)
}.

(* arms of pli::dispatch::Dispatch on x86_64, and the three encoders *)
Inductive arm := DGeneric | DSse2 | DAvx2.
Inductive kernel := KGeneric | KSse2 | KAvx2.

Definition arm_eqb (a b : arm) : bool :=
  match a, b with
  | DGeneric, DGeneric | DSse2, DSse2 | DAvx2, DAvx2 => true
  | _, _ => false
  end.

(* ---------- Symbol ---------- *)

Fixpoint assoc_byte (b : byte) (t : list (byte * sym)) : option sym :=
  match t with
  | [] => None
  | (k, v) :: r => if Byte.eqb b k then Some v else assoc_byte b r
  end.

Fixpoint assoc_sym (s : sym) (t : list (sym * byte)) : option byte :=
  match t with
  | [] => None
  | (k, v) :: r => if N.eqb s k then Some v else assoc_sym s r
  end.

(* Symbol::from_ascii: a `match` (first arm wins) with a catch-all error arm *)
Definition from_ascii (A : abc) (c : byte) : res sym :=
  match assoc_byte c (a_from_ascii A) with
  | Some s => Ok s
  | None => Err (Byte.to_nat c)
  end.

(* Symbol::as_ascii: an exhaustive `match` over the variants; [None] only for a
   value that is no variant of the enum (not constructible in safe Rust). *)
Definition as_ascii (A : abc) (s : sym) : option byte := assoc_sym s (a_as_ascii A).

(* Symbol::as_index: `*self as usize` *)
Definition as_index (s : sym) : N := s.

(* Symbol::as_char (trait default): `self.as_ascii() as char` *)
Definition as_char (A : abc) (s : sym) : option nat := option_map Byte.to_nat (as_ascii A s).

(* Symbol::from_char (trait default) *)
Definition from_char (A : abc) (c : nat) : res sym :=
  if c <? 128 then
    match Byte.of_nat c with
    | Some b => from_ascii A b
    | None => Err c
    end
  else Err c.

(* ---------- generic encoder (pli/mod.rs, Encode::encode_into default) ---------- *)

Definition buffer := list sym.

Fixpoint gen_loop (A : abc) (cs : list byte) (i : nat) (dst : buffer) : buffer * res unit :=
  match cs with
  | [] => (dst, Ok tt)
  | c :: rest =>
      match from_ascii A c with
      | Ok s => if i <? length dst then gen_loop A rest (S i) (upd i s dst) else (dst, Panic 2)
      | Err e => (dst, Err e)
      | Panic p => (dst, Panic p)
      | OutOfFuel => (dst, OutOfFuel)
      end
  end.

Definition encode_into_generic (A : abc) (seq : list byte) (dst : buffer) : buffer * res unit :=
  if length seq =? length dst then gen_loop A seq 0 dst else (dst, Panic 1).

(* ---------- SIMD registers: lists of u8 lanes (as N), lane-wise intrinsics ---------- *)

Definition vec := list N.

Fixpoint map2 {X Y Z : Type} (f : X -> Y -> Z) (a : list X) (b : list Y) : list Z :=
  match a, b with
  | x :: a', y :: b' => f x y :: map2 f a' b'
  | _, _ => []
  end.

Fixpoint map3 {X Y Z W : Type} (f : X -> Y -> Z -> W) (a : list X) (b : list Y) (c : list Z) : list W :=
  match a, b, c with
  | x :: a', y :: b', z :: c' => f x y z :: map3 f a' b' c'
  | _, _, _ => []
  end.

(* _mm{,256}_set1_epi8 *)
Definition set1 (lanes : nat) (x : N) : vec := repeat x lanes.
(* _mm{,256}_loadu_si{128,256} at seq.as_ptr().add(i) (the caller guarantees i+lanes <= len) *)
Definition loadu (lanes : nat) (seq : list byte) (i : nat) : vec :=
  map Byte.to_N (firstn lanes (skipn i seq)).
(* _mm{,256}_cmpeq_epi8 : 0xFF where equal, 0 elsewhere *)
Definition lane_cmpeq (x y : N) : N := if N.eqb x y then 255%N else 0%N.
Definition cmpeq_epi8 : vec -> vec -> vec := map2 lane_cmpeq.
(* _mm256_blendv_epi8(a, b, mask) : b where the top bit of the mask lane is set *)
Definition lane_blendv (a b m : N) : N := if N.testbit m 7 then b else a.
Definition blendv_epi8 : vec -> vec -> vec -> vec := map3 lane_blendv.
(* _mm{,256}_andnot_si(a, b) : (!a) & b *)
Definition lane_andnot (a b : N) : N := N.land (N.lxor a 255) b.
Definition andnot_si : vec -> vec -> vec := map2 lane_andnot.
Definition or_si : vec -> vec -> vec := map2 N.lor.
Definition and_si : vec -> vec -> vec := map2 N.land.
(* _mm256_testz_si256(a, b) : 1 iff a & b is all zero *)
Definition testz_si (a b : vec) : N := if forallb (N.eqb 0) (map2 N.land a b) then 1%N else 0%N.
(* _mm{,256}_storeu_si at dst.as_mut_ptr().add(i) *)
Definition storeu (dst : buffer) (i : nat) (v : vec) : buffer :=
  firstn i dst ++ v ++ skipn (i + length v) dst.

(* What distinguishes the two x86 kernels. *)
Record kparams := {
  kp_lanes : nat;         (* STRIDE = size_of::<__m256i>() = 32 / size_of::<__m128i>() = 16 *)
  kp_strict : bool;       (* loop condition `i + STRIDE < l` (true) or `<=` (false) *)
  kp_init_km1 : bool;     (* encoded starts as set1(K - 1) (true) or set1(K) (false) *)
  kp_blendv : bool;       (* select with blendv (AVX2) or with or(andnot(m,e), and(m,idx)) (SSE2) *)
  kp_testz : bool;        (* error test with testz (AVX2) or store + any(!= 0) (SSE2) *)
  kp_init_zero : bool;    (* encoded starts as vdupq_n_u8(0x00) (NEON); overrides kp_init_km1 *)
  kp_tail_always : bool   (* the generic tail call is not guarded by `if i < l` (NEON) *)
}.

Definition blend (kp : kparams) (encoded index m : vec) : vec :=
  if kp_blendv kp then blendv_epi8 encoded index m
  else or_si (andnot_si m encoded) (and_si m index).

Definition u8_of_nat (n : nat) : N := (N.of_nat n mod 256)%N.      (* `n as i8` as a lane *)

Definition init_lane (kp : kparams) (A : abc) : N :=
  if kp_init_zero kp then 0%N
  else if kp_init_km1 kp then u8_of_nat (a_K A - 1) else u8_of_nat (a_K A).

(* for a in 0..K { index = set1(a); ascii = set1(alphabet[a]); m = cmpeq(letters, ascii);
                   encoded = blend(encoded, index, m); unknown = andnot(m, unknown) } *)
Fixpoint simd_letters (kp : kparams) (al : list byte) (a n : nat) (letters encoded unknown : vec)
  : res (vec * vec) :=
  match n with
  | O => Ok (encoded, unknown)
  | S n' =>
      match nth_error al a with
      | None => Panic 3
      | Some ch =>
          let index := set1 (kp_lanes kp) (u8_of_nat a) in
          let ascii := set1 (kp_lanes kp) (Byte.to_N ch) in
          let m := cmpeq_epi8 letters ascii in
          simd_letters kp al (S a) n' letters (blend kp encoded index m) (andnot_si m unknown)
      end
  end.

(* while i + STRIDE <= l (or <) { ... ; i += STRIDE }  -- fuel only makes the loop structural *)
Fixpoint simd_blocks (fuel : nat) (kp : kparams) (A : abc) (seq : list byte) (l i : nat)
         (dst : buffer) (error : vec) : res (nat * buffer * vec) :=
  match fuel with
  | O => OutOfFuel
  | S fuel' =>
      if (if kp_strict kp then i + kp_lanes kp <? l else i + kp_lanes kp <=? l) then
        let letters := loadu (kp_lanes kp) seq i in
        match simd_letters kp (a_str A) 0 (a_K A) letters
                (set1 (kp_lanes kp) (init_lane kp A)) (set1 (kp_lanes kp) 255%N) with
        | Ok (encoded, unknown) =>
            simd_blocks fuel' kp A seq l (i + kp_lanes kp) (storeu dst i encoded) (or_si error unknown)
        | Err e => Err e
        | Panic p => Panic p
        | OutOfFuel => OutOfFuel
        end
      else Ok (i, dst, error)
  end.

(* for s in seq.iter() { A::Symbol::from_ascii( *s )?; } *)
Fixpoint rescan (A : abc) (seq : list byte) : res unit :=
  match seq with
  | [] => Ok tt
  | c :: r =>
      match from_ascii A c with
      | Ok _ => rescan A r
      | Err e => Err e
      | Panic p => Panic p
      | OutOfFuel => OutOfFuel
      end
  end.

Definition error_nonzero (kp : kparams) (error : vec) : bool :=
  if kp_testz kp then negb (N.eqb (testz_si error error) 1)
  else existsb (fun x => negb (N.eqb x 0)) error.

Definition encode_into_simd (kp : kparams) (A : abc) (seq : list byte) (dst : buffer)
  : buffer * res unit :=
  let l := length seq in
  if l =? length dst then
    match simd_blocks (S l) kp A seq l 0 dst (set1 (kp_lanes kp) 0%N) with
    | Ok (i, dst1, error) =>
        match (if error_nonzero kp error then rescan A seq else Ok tt) with
        | Ok _ =>
            if (kp_tail_always kp || (i <? l))%bool then
              let r := encode_into_generic A (skipn i seq) (skipn i dst1) in
              (firstn i dst1 ++ fst r, snd r)
            else (dst1, Ok tt)
        | Err e => (dst1, Err e)
        | Panic p => (dst1, Panic p)
        | OutOfFuel => (dst1, OutOfFuel)
        end
    | Err e => (dst, Err e)
    | Panic p => (dst, Panic p)
    | OutOfFuel => (dst, OutOfFuel)
    end
  else (dst, Panic 1).

(* ---------- Encode::encode_raw (trait default, shared by every pipeline) ---------- *)

Definition encode_raw (enc_into : list byte -> buffer -> buffer * res unit)
           (junk : nat -> sym) (s : list byte) : res (list sym) :=
  let buffer := map junk (seq 0 (length s)) in
  match enc_into s buffer with
  | (buf, Ok _) => Ok buf
  | (_, Err e) => Err e
  | (_, Panic p) => Panic p
  | (_, OutOfFuel) => OutOfFuel
  end.

(* ---------- dispatcher: arm -> kernel by a `match` with a default arm ---------- *)

Fixpoint arm_kernel (a : arm) (t : list (arm * kernel)) (d : kernel) : kernel :=
  match t with
  | [] => d
  | (k, v) :: r => if arm_eqb a k then v else arm_kernel a r d
  end.

(* ---------- Display for EncodedSequence, to_string ---------- *)

Fixpoint opt_all {X : Type} (l : list (option X)) : option (list X) :=
  match l with
  | [] => Some []
  | None :: _ => None
  | Some x :: r => match opt_all r with Some r' => Some (x :: r') | None => None end
  end.

(* the chars written by fmt: c.as_char() for each symbol *)
Definition display (A : abc) (syms : list sym) : option (list nat) := opt_all (map (as_char A) syms).

(* UTF-8 encoding of `b as char` for a u8 b (code points 0..255: one or two bytes) *)
Definition byte_of_N (n : N) : byte := match Byte.of_N n with Some b => b | None => x00 end.
Definition utf8_of_u8char (b : byte) : list byte :=
  let n := Byte.to_N b in
  if (n <? 128)%N then [b]
  else [byte_of_N (192 + n / 64)%N; byte_of_N (128 + n mod 64)%N].

(* to_string(): the UTF-8 bytes of the displayed chars *)
Definition to_string (A : abc) (syms : list sym) : option (list byte) :=
  option_map (fun bs => concat (map utf8_of_u8char bs)) (opt_all (map (as_ascii A) syms)).

(* ---------- specification (what the property says the outcome is) ---------- *)

Fixpoint index_of (b : byte) (l : list byte) (i : N) : option N :=
  match l with
  | [] => None
  | x :: r => if Byte.eqb b x then Some i else index_of b r (N.succ i)
  end.

(* symbol of a byte according to the alphabet *string*: its position *)
Definition spec_sym (A : abc) (b : byte) : res sym :=
  match index_of b (a_str A) 0%N with
  | Some s => Ok s
  | None => Err (Byte.to_nat b)
  end.

(* Ok of all positions, or Err of the first byte that is not in the alphabet string *)
Fixpoint encode_spec (A : abc) (s : list byte) : res (list sym) :=
  match s with
  | [] => Ok []
  | b :: r =>
      match spec_sym A b with
      | Ok x => match encode_spec A r with Ok l => Ok (x :: l) | e => e end
      | Err e => Err e
      | Panic p => Panic p
      | OutOfFuel => OutOfFuel
      end
  end.

(* ---------- executable checkers ---------- *)

Fixpoint list_N_eqb (a b : list N) : bool :=
  match a, b with
  | [], [] => true
  | x :: a', y :: b' => N.eqb x y && list_N_eqb a' b'
  | _, _ => false
  end.

Fixpoint list_byte_eqb (a b : list byte) : bool :=
  match a, b with
  | [], [] => true
  | x :: a', y :: b' => Byte.eqb x y && list_byte_eqb a' b'
  | _, _ => false
  end.

Definition outcome_eqb (a b : res (list sym)) : bool :=
  match a, b with
  | Ok x, Ok y => list_N_eqb x y
  | Err x, Err y => Nat.eqb x y
  | Panic x, Panic y => Nat.eqb x y
  | OutOfFuel, OutOfFuel => true
  | _, _ => false
  end.

(* check_C05: the observed outcome of an encoder on [s] is the specified one, and
   (when it is Ok) the observed to_string() bytes are the input. *)
Definition check_C05 (A : abc) (s : list byte) (o : res (list sym)) : bool :=
  outcome_eqb o (encode_spec A s).

Definition check_C05_display (A : abc) (s : list byte) (o : res (list sym)) (shown : list byte) : bool :=
  match o with
  | Ok _ => list_byte_eqb shown s
  | _ => true
  end.

(* all 256 bytes, for the finite sweeps *)
Definition all_bytes : list byte :=
  flat_map (fun n => match Byte.of_nat n with Some b => [b] | None => [] end) (seq 0 256).
