(* Property C05 -- encoding accepts exactly the alphabet and is identical on every
   backend.  This file contains only the property theorems (closed by short proofs
   from EncodeProofs / EncodeInstProofs), statement pins and non-vacuity examples.

   Vocabulary (EncodeModel.v / EncodeInst.v / EncodeProofs.v):
     dna, protein      the alphabets, tables *generated* from abc.rs on every run
     abc_ok A          executable check of an alphabet's tables: the 256-byte table sweep
                       (tables_ok) and the 256-value per-lane sweep of both SIMD kernels
     Holds A s o       what C05 says of the outcome o of encoding the byte string s
     encode_spec A s   the outcome computed from the alphabet string alone
     pipeline_encode_raw p A junk s   Encode::encode_raw / encode on pipeline p, the
                       uninitialised destination buffer holding [junk]
     pipeline_encode_into_at p A text so n mem d m   (EncodeMem.v) encode_into on the sub-slices
                       &text[so..so+n], &mut mem[d..d+m] of two allocations; window l off n = the
                       elements [off, off+n) of l; window_outcome = what the harness prints of it
     encode_into_neon  (EncodeInst.v) the arm/aarch64 kernel, same generic SIMD model with
                       neon_params; abc_ok_neon adds its 256-value lane sweep *)
From Coq Require Import List NArith Arith Bool Lia.
From Coq.Strings Require Import Byte.
From LMBase Require Import Res ListX.
From LMEncode Require Import EncodeModel GenAbc EncodeInst EncodeProofs EncodeInstProofs EncodeMem EncodeMemProofs.
Import ListNotations.

(* The generated tables of both alphabets pass the finite sweeps (all 256 byte values;
   the bound is the domain).  Re-checked whenever abc.rs / the kernels change. *)
Theorem C05_alphabets_ok : abc_ok dna = true /\ abc_ok protein = true.
Proof. split; [exact dna_ok | exact protein_ok]. Qed.

(* from_ascii b = Ok i exactly when b is the i-th character of the alphabet string;
   as_ascii inverts it; as_index = discriminant = position in symbols(); the alphabet
   is upper-case ASCII; lower-case letters and bytes >= 0x80 are rejected with their
   own character. *)
Theorem C05_ascii_tables_consistent : forall A, A = dna \/ A = protein ->
  length (a_str A) = a_K A /\
  (forall (b : byte) (i : sym),
     from_ascii A b = Ok i <-> nth_error (a_str A) (N.to_nat i) = Some b) /\
  (forall b, (exists i, from_ascii A b = Ok i) \/ from_ascii A b = Err (Byte.to_nat b)) /\
  (forall b i, from_ascii A b = Ok i -> as_ascii A i = Some b) /\
  (forall i b, as_ascii A i = Some b -> from_ascii A b = Ok i) /\
  (forall i, i < a_K A ->
     nth_error (a_symbols A) i = Some (N.of_nat i) /\ as_index (N.of_nat i) = N.of_nat i /\
     In (N.of_nat i) (a_discr A)) /\
  (forall b, In b (a_str A) -> (65 <= Byte.to_N b <= 90)%N) /\
  (forall b, ((97 <= Byte.to_N b <= 122)%N \/ (128 <= Byte.to_N b)%N) ->
     from_ascii A b = Err (Byte.to_nat b)).
Proof.
  intros A HA.
  assert (T : TablesConsistent A) by (destruct HA; subst; apply abc_ok_tables; [exact dna_ok | exact protein_ok]).
  split; [exact (tc_len A T)|]. split; [exact (tc_from_iff A T)|].
  split; [exact (from_ascii_cases A)|]. split; [exact (tc_as_from A T)|].
  split; [exact (tc_from_as A T)|]. split; [exact (symbols_facts A T)|].
  split; [exact (tc_upper A T) | exact (tc_reject A T)].
Qed.

(* Symbol::from_char / as_char (trait defaults) *)
Theorem C05_char_conversions : forall A, abc_ok A = true ->
  (forall c i, from_char A c = Ok i <-> exists b, Byte.to_nat b = c /\ from_ascii A b = Ok i) /\
  (forall b i, from_ascii A b = Ok i ->
     as_char A i = Some (Byte.to_nat b) /\ from_char A (Byte.to_nat b) = Ok i).
Proof.
  intros A H. pose proof (abc_ok_tables A H) as T. split.
  - intros c i. exact (from_char_spec A c i T).
  - intros b i. exact (as_char_from_ascii A b i T).
Qed.

(* The specification function computes the outcome the property describes, and the
   property determines the outcome. *)
Theorem C05_spec_is_property : forall A, abc_ok A = true -> forall s o,
  Holds A s o <-> o = encode_spec A s.
Proof.
  intros A H s o. pose proof (abc_ok_tables A H) as T. split.
  - exact (holds_unique A s o T).
  - intros ->. exact (spec_holds A s T).
Qed.

(* Generic encoder: for every byte string, Ok of the symbols iff all bytes are in the
   alphabet (symbol i = index of byte i), else Err of the FIRST offending byte; whatever
   the uninitialised buffer held. *)
Theorem C05_encode_generic_spec : forall A, abc_ok A = true ->
  forall (junk : nat -> sym) (s : list byte), Holds A s (pipeline_encode_raw PGeneric A junk s).
Proof.
  intros A H junk s. rewrite (pipeline_raw_spec A PGeneric junk s H).
  exact (spec_holds A s (abc_ok_tables A H)).
Qed.

(* AVX2 and SSE2 kernels (block loop, unknown mask, rescan, scalar tail) = generic,
   for ALL byte strings, any buffer contents. *)
Theorem C05_encode_avx2_eq_generic : forall A, abc_ok A = true ->
  forall junk junk' s, pipeline_encode_raw PAvx2 A junk s = pipeline_encode_raw PGeneric A junk' s.
Proof. intros A H junk junk' s. rewrite !pipeline_raw_spec by exact H. reflexivity. Qed.

Theorem C05_encode_sse2_eq_generic : forall A, abc_ok A = true ->
  forall junk junk' s, pipeline_encode_raw PSse2 A junk s = pipeline_encode_raw PGeneric A junk' s.
Proof. intros A H junk junk' s. rewrite !pipeline_raw_spec by exact H. reflexivity. Qed.

(* Every arm of the dispatcher (whatever kernel the generated arm table selects), and
   EncodedSequence::encode / from_str through it, give the same outcome. *)
Theorem C05_encode_dispatch_eq : forall A, abc_ok A = true ->
  forall (a : arm) junk junk' s,
    pipeline_encode_raw (PDispatch a) A junk s = pipeline_encode_raw PGeneric A junk' s /\
    encoded_sequence_encode a A junk s = pipeline_encode_raw PGeneric A junk' s.
Proof.
  intros A H a junk junk' s. unfold encoded_sequence_encode.
  rewrite !pipeline_raw_spec by exact H. auto.
Qed.

(* Headline: on every pipeline, for DNA and protein, the outcome is the specified one. *)
Theorem C05_every_pipeline : forall A, A = dna \/ A = protein ->
  forall (p : pipeline) junk s,
    pipeline_encode_raw p A junk s = encode_spec A s /\ Holds A s (pipeline_encode_raw p A junk s).
Proof.
  intros A HA p junk s.
  assert (H : abc_ok A = true) by (destruct HA; subst; [exact dna_ok | exact protein_ok]).
  rewrite (pipeline_raw_spec A p junk s H). split; auto.
  exact (spec_holds A s (abc_ok_tables A H)).
Qed.

(* encode_into on every pipeline: with a destination of the right length the whole
   buffer holds the symbols (Ok) or the first offending char is reported; with any
   other length it panics (assert_eq!) before anything is written. *)
Theorem C05_encode_into : forall A, abc_ok A = true -> forall p s dst,
  (length s = length dst ->
   match encode_spec A s with
   | Ok syms => pipeline_encode_into p A s dst = (syms, Ok tt)
   | Err e => snd (pipeline_encode_into p A s dst) = Err e
   | _ => False
   end) /\
  (length s <> length dst -> pipeline_encode_into p A s dst = (dst, Panic 1)).
Proof. intros A H p s dst. exact (pipeline_into_spec A p s dst H). Qed.

(* ---------- encode_into on arbitrary sub-slices: placement / alignment is irrelevant ----------

   The safe API accepts p.encode_into(&text[so .. so+n], &mut mem[d .. d+m]) for any
   offsets into larger allocations, i.e. source and destination pointers of any
   alignment (EncodeMem.v).  The kernels are modelled on lists because they use
   unaligned loads/stores only (checked textually by the translator); the theorems below
   are what that abstraction has to deliver, and what the correspondence check observes
   on the implementation for every pair of offsets 0..31 (single offsets up to 63) from 64-byte
   aligned bases. *)

(* Every store of every kernel stays inside the destination slice -- on success, on the
   error exits (full blocks are stored before the error is looked at) and on a length
   mismatch: the returned buffer has the length of the slice it was given. *)
Theorem C05_encode_into_in_bounds : forall A, abc_ok A = true -> forall p s dst,
  length (fst (pipeline_encode_into p A s dst)) = length dst.
Proof. intros A H p s dst. exact (pipeline_in_bounds A p H s dst). Qed.

(* The call on windows of two allocations, for all offsets and all contents: it returns
   (no panic besides assert_eq!); the allocation keeps its length and every element
   before and behind the destination window keeps its value; with equal lengths the
   outcome is the specified one for the *content of the source window* and on success
   the destination window holds exactly the symbols; with different lengths it panics
   (site 1) and nothing at all was written. *)
Theorem C05_encode_into_window : forall A, abc_ok A = true ->
  forall p text so n mem d m, so + n <= length text -> d + m <= length mem ->
  exists buf st,
    pipeline_encode_into_at p A text so n mem d m = Ok (buf, st) /\
    length buf = length mem /\
    firstn d buf = firstn d mem /\
    skipn (d + m) buf = skipn (d + m) mem /\
    (n = m ->
     match encode_spec A (window text so n) with
     | Ok syms => st = Ok tt /\ window buf d m = syms
     | Err e => st = Err e
     | _ => False
     end) /\
    (n <> m -> st = Panic 1 /\ buf = mem).
Proof. intros A H p text so n mem d m Hs Hd. exact (into_at_spec A p text so n mem d m H Hs Hd). Qed.

(* Alignment is irrelevant: two calls -- on any two pipelines, with the source windows at
   any two offsets of any two allocations, the destination windows likewise -- whose
   source windows hold the same bytes have the same observable outcome (status, and the
   destination window when Ok). *)
Theorem C05_encode_into_alignment_irrelevant : forall A, abc_ok A = true ->
  forall p p' text text' so so' n mem mem' d d' m,
  so + n <= length text -> so' + n <= length text' ->
  d + m <= length mem -> d' + m <= length mem' ->
  window text so n = window text' so' n ->
  window_outcome (pipeline_encode_into_at p A text so n mem d m) d m =
  window_outcome (pipeline_encode_into_at p' A text' so' n mem' d' m) d' m.
Proof.
  intros A H p p' text text' so so' n mem mem' d d' m H1 H2 H3 H4 E.
  exact (into_at_placement_irrelevant A p p' text text' so so' n mem mem' d d' m H H1 H2 H3 H4 E).
Qed.

(* What the driver compares an observed window call with: the outcome is the specified
   one (so the extracted check_C05 on the window content decides the property), the
   guard elements are untouched, and encode_raw/encode on a misaligned source slice is
   the specified outcome too. *)
Theorem C05_window_observation : forall A, abc_ok A = true ->
  forall p junk text so n mem d m, so + n <= length text -> d + m <= length mem ->
  window_outcome (pipeline_encode_into_at p A text so n mem d m) d m =
    (if n =? m then encode_spec A (window text so n) else Panic 1) /\
  guards_unchanged mem (pipeline_encode_into_at p A text so n mem d m) d m = true /\
  pipeline_encode_raw_at p A junk text so n = encode_spec A (window text so n).
Proof.
  intros A H p junk text so n mem d m Hs Hd. split; [|split].
  - exact (into_at_outcome_any A p text so n mem d m H Hs Hd).
  - exact (into_at_guards A p text so n mem d m H Hs Hd).
  - exact (raw_at_spec A p junk text so n H Hs).
Qed.

(* The NEON kernel (arm / aarch64 builds: 4 x 16 lanes per iteration, strict loop bound,
   encoded initialised to 0, unguarded tail call) computes the same outcome as the generic
   encoder for ALL byte strings, its stores stay inside the destination, and with a
   destination of the wrong length it panics before writing.  This arm cannot be run on the
   x86_64 host of the correspondence check: the model is tied to neon.rs by the translator
   only (whole normalised body of encode_into_neon). *)
Theorem C05_encode_neon_eq_generic : forall A, A = dna \/ A = protein ->
  forall junk junk' s dst,
    encode_raw (encode_into_neon A) junk s = pipeline_encode_raw PGeneric A junk' s /\
    Holds A s (encode_raw (encode_into_neon A) junk s) /\
    length (fst (encode_into_neon A s dst)) = length dst /\
    (length s <> length dst -> encode_into_neon A s dst = (dst, Panic 1)).
Proof.
  intros A HA junk junk' s dst.
  assert (HN : abc_ok_neon A = true) by (destruct HA; subst; [exact dna_ok_neon | exact protein_ok_neon]).
  assert (H : abc_ok A = true) by (destruct HA; subst; [exact dna_ok | exact protein_ok]).
  rewrite (neon_raw_spec A junk s HN), (pipeline_raw_spec A PGeneric junk' s H).
  split; [reflexivity|]. split; [exact (spec_holds A s (abc_ok_tables A H))|].
  split; [exact (neon_in_bounds A HN s dst)|].
  exact (proj2 (neon_into_correct A HN s dst)).
Qed.

(* Round trip: displaying an accepted text reproduces it (chars and UTF-8 bytes). *)
Theorem C05_display_encode : forall A, abc_ok A = true -> forall p junk s syms,
  pipeline_encode_raw p A junk s = Ok syms ->
  to_string A syms = Some s /\ display A syms = Some (map Byte.to_nat s).
Proof.
  intros A H p junk s syms E. pose proof (abc_ok_tables A H) as T.
  apply (holds_display A s syms T). rewrite <- E, (pipeline_raw_spec A p junk s H).
  exact (spec_holds A s T).
Qed.

(* Acceptance is exactly membership of every byte; lower case / >= 0x80 are rejected. *)
Theorem C05_accepts_exactly_alphabet : forall A, abc_ok A = true -> forall p junk s,
  ((exists syms, pipeline_encode_raw p A junk s = Ok syms) <-> Forall (in_abc A) s) /\
  (forall b, In b s -> ((97 <= Byte.to_N b <= 122)%N \/ (128 <= Byte.to_N b)%N) ->
     exists e, pipeline_encode_raw p A junk s = Err e).
Proof.
  intros A H p junk s. pose proof (abc_ok_tables A H) as T.
  rewrite (pipeline_raw_spec A p junk s H). split.
  - exact (spec_ok_iff A s T).
  - intros b Hb Hc. exact (spec_rejects A s b T Hb Hc).
Qed.

(* The extracted checker used by the correspondence run is sound and complete for the
   property, and the display check means what it says. *)
Theorem C05_check_sound : forall A, abc_ok A = true -> forall s o,
  check_C05 A s o = true <-> Holds A s o.
Proof.
  intros A H s o. pose proof (abc_ok_tables A H) as T. split.
  - exact (check_sound A s o T).
  - exact (check_complete A s o T).
Qed.

Theorem C05_check_display_sound : forall A s o shown,
  check_C05_display A s o shown = true -> forall syms, o = Ok syms -> shown = s.
Proof. exact check_display_sound. Qed.

(* ---------- non-vacuity / concrete instances ---------- *)

Example C05_ex_dna_ok :
  pipeline_encode_raw PAvx2 dna (fun _ => 77%N) [x41; x43; x47; x54; x4e] = Ok [0; 1; 3; 2; 4]%N.
Proof. vm_compute. reflexivity. Qed.

(* 40 bytes: one AVX2 block + tail; lower-case 'a' in the tail (position 35), a second
   bad byte 0x80 behind it: the first one is reported on every pipeline *)
Example C05_ex_first_error :
  let s := repeat x41 35 ++ [x61; x41; x80; x41; x41] in
  map (fun p => pipeline_encode_raw p dna (fun _ => 77%N) s) all_pipelines = repeat (Err 97) 6.
Proof. vm_compute. reflexivity. Qed.

(* bad byte in lane 31 of the first block, text of exactly 32 bytes (no AVX2 tail, SSE2:
   one block + 16-byte tail) *)
Example C05_ex_block_edge :
  let s := repeat x58 31 ++ [xff] in
  map (fun p => pipeline_encode_raw p protein (fun _ => 77%N) s) all_pipelines = repeat (Err 255) 6.
Proof. vm_compute. reflexivity. Qed.

Example C05_ex_holds_satisfiable :
  Forall (in_abc dna) [x47; x41; x54] /\ ~ in_abc dna x67 /\
  to_string dna [3; 0; 2]%N = Some [x47; x41; x54].
Proof.
  split; [|split].
  - repeat constructor; vm_compute; tauto.
  - vm_compute. intuition discriminate.
  - vm_compute. reflexivity.
Qed.

(* SSE2, source window at offset 3 of a 64-byte allocation, destination window at offset 5
   of a 70-element one, 40 symbols (two 16-lane blocks + tail): the window holds the
   symbols, the guards (value 9) are untouched; with a foreign byte in the second block
   the status is Err and the guards are still untouched; a slice beyond the allocation
   panics in the caller (site 4) *)
Example C05_ex_window :
  let text := repeat x2e 3 ++ repeat x47 39 ++ [x54] ++ repeat x2e 21 in
  let mem := repeat 9%N 70 in
  pipeline_encode_into_at PSse2 dna text 3 40 mem 5 40 =
    Ok (repeat 9%N 5 ++ repeat 3%N 39 ++ [2%N] ++ repeat 9%N 25, Ok tt) /\
  pipeline_encode_into_at PSse2 dna text 2 40 mem 5 40 =
    Ok (repeat 9%N 5 ++ repeat 4%N 1 ++ repeat 3%N 31 ++ repeat 9%N 33, Err 46) /\
  pipeline_encode_into_at PSse2 dna text 30 40 mem 5 40 = Panic 4.
Proof. vm_compute. repeat split. Qed.

(* NEON model: 70 bytes = one 64-lane iteration + 6-byte tail; a foreign byte in lane 63,
   a second one in the tail: the first is reported; 64 bytes exactly: no vector iteration
   (strict bound), everything through the unguarded generic tail *)
Example C05_ex_neon :
  encode_raw (encode_into_neon protein) (fun _ => 77%N) (repeat x58 63 ++ [x62; x58; x2e; x58; x58; x58; x58]) = Err 98 /\
  encode_raw (encode_into_neon dna) (fun _ => 77%N) (repeat x54 64) = Ok (repeat 2%N 64) /\
  encode_raw (encode_into_neon dna) (fun _ => 77%N) [] = Ok [].
Proof. vm_compute. repeat split. Qed.

(* ---------- statement pins ---------- *)

Check C05_every_pipeline : forall A, A = dna \/ A = protein ->
  forall (p : pipeline) junk s,
    pipeline_encode_raw p A junk s = encode_spec A s /\ Holds A s (pipeline_encode_raw p A junk s).
Check C05_encode_avx2_eq_generic : forall A, abc_ok A = true ->
  forall junk junk' s, pipeline_encode_raw PAvx2 A junk s = pipeline_encode_raw PGeneric A junk' s.
Check C05_encode_sse2_eq_generic : forall A, abc_ok A = true ->
  forall junk junk' s, pipeline_encode_raw PSse2 A junk s = pipeline_encode_raw PGeneric A junk' s.
Check C05_check_sound : forall A, abc_ok A = true -> forall s o,
  check_C05 A s o = true <-> Holds A s o.
Check C05_encode_into_alignment_irrelevant : forall A, abc_ok A = true ->
  forall p p' text text' so so' n mem mem' d d' m,
  so + n <= length text -> so' + n <= length text' ->
  d + m <= length mem -> d' + m <= length mem' ->
  window text so n = window text' so' n ->
  window_outcome (pipeline_encode_into_at p A text so n mem d m) d m =
  window_outcome (pipeline_encode_into_at p' A text' so' n mem' d' m) d' m.
Check C05_encode_into_in_bounds : forall A, abc_ok A = true -> forall p s dst,
  length (fst (pipeline_encode_into p A s dst)) = length dst.
