(* Extraction of the executable encoder models, the specification function and the
   property checker for the correspondence check of C05.
   Only ExtrOcamlBasic is used: nat, N, positive, byte stay the extracted inductives. *)
From Coq Require Import List NArith Extraction ExtrOcamlBasic.
From Coq.Strings Require Import Byte.
From LMBase Require Import Res ListX.
From LMEncode Require Import EncodeModel GenAbc EncodeInst EncodeMem.

Definition byte_to_N := Byte.to_N.

Extraction Language OCaml.
Extraction "encode_model.ml"
  all_bytes byte_to_N dna protein
  a_K a_str a_symbols a_discr a_default
  from_ascii as_ascii as_index as_char from_char spec_sym
  encode_spec check_C05 check_C05_display outcome_eqb
  pipeline_encode_raw pipeline_encode_into encoded_sequence_encode all_pipelines
  pipeline_kernel dispatch_kernel
  display to_string
  pipeline_encode_into_at pipeline_encode_raw_at window_outcome guards_unchanged.
