(* Lemmas about the concrete encoders (generated tables and kernel parameters). *)
From Coq Require Import List NArith Arith Bool Lia.
From Coq.Strings Require Import Byte.
From LMBase Require Import Res ListX.
From LMEncode Require Import EncodeModel GenAbc EncodeInst EncodeProofs.
Import ListNotations.

(* Everything the proofs need of an alphabet, as one executable check: the table
   consistency sweep and the per-lane sweep of both SIMD kernels. *)
Definition abc_ok (A : abc) : bool :=
  tables_ok A && lanes_ok avx2_params A && lanes_ok sse2_params A.

Lemma abc_ok_tables A : abc_ok A = true -> TablesConsistent A.
Proof.
  unfold abc_ok. intros H. apply andb_true_iff in H. destruct H as [H _].
  apply andb_true_iff in H. destruct H as [H _]. apply tables_ok_sound; auto.
Qed.

Lemma kernel_into_correct A k : abc_ok A = true -> into_correct A (kernel_encode_into k A).
Proof.
  intros H. pose proof (abc_ok_tables A H) as T.
  unfold abc_ok in H. apply andb_true_iff in H. destruct H as [H H3].
  apply andb_true_iff in H. destruct H as [H1 H2].
  assert (HK : a_K A <= length (a_str A)) by (rewrite (tc_len A T); lia).
  destruct k; simpl.
  - apply generic_into_correct.
  - apply simd_into_correct; auto. simpl; lia.
  - apply simd_into_correct; auto. simpl; lia.
Qed.

Lemma pipeline_raw_spec A p junk s : abc_ok A = true ->
  pipeline_encode_raw p A junk s = encode_spec A s.
Proof.
  intros H. unfold pipeline_encode_raw, pipeline_encode_into.
  rewrite (encode_raw_correct A _ junk s (kernel_into_correct A (pipeline_kernel p) H)).
  apply enc_tab_spec. apply (tc_spec A (abc_ok_tables A H)).
Qed.

Lemma pipeline_into_spec A p s dst : abc_ok A = true ->
  (length s = length dst ->
   match encode_spec A s with
   | Ok syms => pipeline_encode_into p A s dst = (syms, Ok tt)
   | Err e => snd (pipeline_encode_into p A s dst) = Err e
   | _ => False
   end) /\
  (length s <> length dst -> pipeline_encode_into p A s dst = (dst, Panic 1)).
Proof.
  intros H. rewrite <- (enc_tab_spec A (tc_spec A (abc_ok_tables A H))).
  apply (kernel_into_correct A (pipeline_kernel p) H).
Qed.

Lemma dna_ok : abc_ok dna = true.
Proof. vm_compute. reflexivity. Qed.

Lemma protein_ok : abc_ok protein = true.
Proof. vm_compute. reflexivity. Qed.

(* ---------- NEON kernel (arm / aarch64; modelled, pinned textually, never run here) ---------- *)

Definition abc_ok_neon (A : abc) : bool := abc_ok A && lanes_ok neon_params A.

Lemma neon_into_correct A : abc_ok_neon A = true -> into_correct A (encode_into_neon A).
Proof.
  unfold abc_ok_neon. intros H. apply andb_true_iff in H. destruct H as [H HN].
  pose proof (abc_ok_tables A H) as T.
  assert (HK : a_K A <= length (a_str A)) by (rewrite (tc_len A T); lia).
  apply simd_into_correct; auto. simpl; lia.
Qed.

Lemma neon_raw_spec A junk s : abc_ok_neon A = true ->
  encode_raw (encode_into_neon A) junk s = encode_spec A s.
Proof.
  intros H. rewrite (encode_raw_correct A _ junk s (neon_into_correct A H)).
  unfold abc_ok_neon in H. apply andb_true_iff in H. destruct H as [H _].
  apply enc_tab_spec. apply (tc_spec A (abc_ok_tables A H)).
Qed.

Lemma dna_ok_neon : abc_ok_neon dna = true.
Proof. vm_compute. reflexivity. Qed.

Lemma protein_ok_neon : abc_ok_neon protein = true.
Proof. vm_compute. reflexivity. Qed.
