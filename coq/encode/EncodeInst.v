(* The concrete encoders: the generic SIMD kernel model instantiated with the
   parameters read from avx2.rs / sse2.rs, the dispatcher with the arm table read
   from dispatch.rs (all in the generated GenAbc.v), and the entry points.
   Executable definitions only. *)
From Coq Require Import List NArith Arith Bool.
From Coq.Strings Require Import Byte.
From LMBase Require Import Res ListX.
From LMEncode Require Import EncodeModel GenAbc.
Import ListNotations.

(* encode_into_avx2: __m256i, blendv select, testz error test *)
Definition avx2_params : kparams :=
  {| kp_lanes := 32; kp_strict := gen_avx2_strict; kp_init_km1 := gen_avx2_init_km1;
     kp_blendv := true; kp_testz := true; kp_init_zero := false; kp_tail_always := false |}.

(* encode_into_sse2: __m128i, or/andnot/and select, store + any(!= 0) error test *)
Definition sse2_params : kparams :=
  {| kp_lanes := 16; kp_strict := gen_sse2_strict; kp_init_km1 := gen_sse2_init_km1;
     kp_blendv := false; kp_testz := false; kp_init_zero := false; kp_tail_always := false |}.

(* encode_into_neon (arm / aarch64 only): uint8x16x4_t = 64 lanes per iteration, loop
   `while i + 64 < l`, encoded starts at 0, vbslq_u8(m, index, encoded) = (m & index) | (!m & encoded)
   (the SSE2 select), unknown = unknown & !m, error test: the OR of the four registers has a
   non-zero 64-bit half (= some lane non-zero), rescan `for i in 0..l { from_ascii(seq[i])? }`,
   then the generic tail call without the `if i < l` guard.  Not reachable on x86_64: the text of
   the kernel is pinned by the translator, nothing is run against it. *)
Definition neon_params : kparams :=
  {| kp_lanes := 64; kp_strict := true; kp_init_km1 := false;
     kp_blendv := false; kp_testz := false; kp_init_zero := true; kp_tail_always := true |}.
Definition encode_into_neon := encode_into_simd neon_params.

Definition encode_into_avx2 := encode_into_simd avx2_params.
Definition encode_into_sse2 := encode_into_simd sse2_params.

Definition kernel_encode_into (k : kernel) (A : abc) : list byte -> buffer -> buffer * res unit :=
  match k with
  | KGeneric => encode_into_generic A
  | KSse2 => encode_into_sse2 A
  | KAvx2 => encode_into_avx2 A
  end.

(* impl Encode<A> for Pipeline<A, Dispatch> *)
Definition dispatch_kernel (a : arm) : kernel := arm_kernel a gen_encode_arms gen_encode_default.

(* Pipeline::generic() / sse2() / avx2() / dispatch() with a given arm *)
Inductive pipeline := PGeneric | PSse2 | PAvx2 | PDispatch (a : arm).

Definition pipeline_kernel (p : pipeline) : kernel :=
  match p with
  | PGeneric => KGeneric
  | PSse2 => KSse2
  | PAvx2 => KAvx2
  | PDispatch a => dispatch_kernel a
  end.

Definition pipeline_encode_into (p : pipeline) (A : abc) := kernel_encode_into (pipeline_kernel p) A.

(* Encode::encode_raw / Encode::encode (encode = encode_raw + EncodedSequence::new) *)
Definition pipeline_encode_raw (p : pipeline) (A : abc) (junk : nat -> sym) (s : list byte)
  : res (list sym) := encode_raw (pipeline_encode_into p A) junk s.

(* EncodedSequence::encode(s) and from_str(s) (= encode(s.as_bytes())): the dispatch
   pipeline with the arm [a] chosen by the CPU detection (or forced by the hook) *)
Definition encoded_sequence_encode (a : arm) (A : abc) (junk : nat -> sym) (s : list byte)
  : res (list sym) := pipeline_encode_raw (PDispatch a) A junk s.

Definition all_pipelines : list pipeline :=
  [PGeneric; PSse2; PAvx2; PDispatch DGeneric; PDispatch DSse2; PDispatch DAvx2].
