(* Lemmas about encode_into called on sub-slices of larger allocations: every store of
   every kernel stays inside the destination slice (also on the error exits), the
   elements around the window keep their values, and the outcome only depends on the
   *content* of the source window -- not on where the two slices lie. *)
From Coq Require Import List NArith Arith Bool Lia.
From Coq.Strings Require Import Byte.
From LMBase Require Import Res ListX.
From LMEncode Require Import EncodeModel GenAbc EncodeInst EncodeProofs EncodeInstProofs EncodeMem.
Import ListNotations.

(* ---------------------------------------------------------------- stores in bounds *)

Definition in_bounds (f : list byte -> buffer -> buffer * res unit) : Prop :=
  forall s dst, length (fst (f s dst)) = length dst.

Lemma gen_loop_length A : forall cs i dst, length (fst (gen_loop A cs i dst)) = length dst.
Proof.
  induction cs as [|c r IH]; intros i dst; simpl; auto.
  destruct (from_ascii A c); simpl; auto.
  destruct (i <? length dst); simpl; auto.
  rewrite IH, upd_length. reflexivity.
Qed.

Lemma generic_in_bounds A : in_bounds (encode_into_generic A).
Proof.
  intros s dst. unfold encode_into_generic.
  destruct (length s =? length dst); simpl; auto. apply gen_loop_length.
Qed.

Lemma simd_in_bounds kp A :
  0 < kp_lanes kp -> a_K A <= length (a_str A) -> lanes_ok kp A = true ->
  in_bounds (encode_into_simd kp A).
Proof.
  intros Hl HK Hok s dst. unfold encode_into_simd.
  destruct (length s =? length dst) eqn:Hlen; [|reflexivity].
  apply Nat.eqb_eq in Hlen.
  destruct (simd_blocks_inv kp A Hl HK Hok s (S (length s)) 0 dst (set1 (kp_lanes kp) 0%N))
    as (i' & dst' & error' & Hrun & Hinv).
  { lia. }
  { unfold blocks_inv, set1. rewrite repeat_length. repeat split; auto; try lia.
    rewrite forallb_zero_repeat. discriminate. }
  rewrite Hrun. destruct Hinv as (Hi & Hdst & _).
  destruct (if error_nonzero kp error' then rescan A s else Ok tt); simpl; try lia.
  destruct (kp_tail_always kp || (i' <? length s))%bool; simpl; try lia.
  rewrite app_length, firstn_length, generic_in_bounds, skipn_length. lia.
Qed.

Lemma kernel_in_bounds A k : abc_ok A = true -> in_bounds (kernel_encode_into k A).
Proof.
  intros H. pose proof (abc_ok_tables A H) as T.
  unfold abc_ok in H. apply andb_true_iff in H. destruct H as [H H3].
  apply andb_true_iff in H. destruct H as [H1 H2].
  assert (HK : a_K A <= length (a_str A)) by (rewrite (tc_len A T); lia).
  destruct k; simpl.
  - apply generic_in_bounds.
  - apply simd_in_bounds; auto. simpl; lia.
  - apply simd_in_bounds; auto. simpl; lia.
Qed.

Lemma pipeline_in_bounds A p : abc_ok A = true -> in_bounds (pipeline_encode_into p A).
Proof. intros H. apply kernel_in_bounds. exact H. Qed.

(* ---------------------------------------------------------------- window / splice *)

Section Win.
  Context {X : Type}.
  Implicit Types l w : list X.

  Lemma window_length l off n : off + n <= length l -> length (window l off n) = n.
  Proof. intros H. unfold window. rewrite firstn_length, skipn_length. lia. Qed.

  Lemma slice_ok l off n : off + n <= length l -> slice l off n = Ok (window l off n).
  Proof. intros H. unfold slice. apply Nat.leb_le in H. rewrite H. reflexivity. Qed.

  Lemma slice_panic l off n : length l < off + n -> slice l off n = Panic 4.
  Proof. intros H. unfold slice. apply Nat.leb_gt in H. rewrite H. reflexivity. Qed.

  Lemma splice_length l off w : off + length w <= length l -> length (splice l off w) = length l.
  Proof.
    intros H. unfold splice. rewrite !app_length, firstn_length, skipn_length. lia.
  Qed.

  Lemma splice_before l off w : off <= length l -> firstn off (splice l off w) = firstn off l.
  Proof.
    intros H. unfold splice. apply firstn_app_exact. rewrite firstn_length. lia.
  Qed.

  Lemma splice_after l off w :
    off + length w <= length l -> skipn (off + length w) (splice l off w) = skipn (off + length w) l.
  Proof.
    intros H. unfold splice. rewrite app_assoc. apply skipn_app_exact.
    rewrite app_length, firstn_length. lia.
  Qed.

  Lemma splice_window l off w : off <= length l -> window (splice l off w) off (length w) = w.
  Proof.
    intros H. unfold window, splice.
    rewrite skipn_app_exact by (rewrite firstn_length; lia).
    apply firstn_app_exact. reflexivity.
  Qed.

  Lemma skipn_add l : forall off n, skipn (off + n) l = skipn n (skipn off l).
  Proof.
    induction l as [|x l IH]; intros off n.
    - rewrite !skipn_nil. reflexivity.
    - destruct off; simpl; auto.
  Qed.

  Lemma splice_same l off n : off + n <= length l -> splice l off (window l off n) = l.
  Proof.
    intros H. unfold splice. rewrite window_length by exact H. unfold window.
    rewrite <- (firstn_skipn off l) at 4.
    f_equal. rewrite <- (firstn_skipn n (skipn off l)) at 2. f_equal.
    apply skipn_add.
  Qed.
End Win.

(* ---------------------------------------------------------------- the call on sub-slices *)

Lemma into_at_spec A p text so n mem d m : abc_ok A = true ->
  so + n <= length text -> d + m <= length mem ->
  exists buf st,
    pipeline_encode_into_at p A text so n mem d m = Ok (buf, st) /\
    length buf = length mem /\
    firstn d buf = firstn d mem /\
    skipn (d + m) buf = skipn (d + m) mem /\
    (n = m ->
     match encode_spec A (window text so n) with
     | Ok syms => st = Ok tt /\ window buf d m = syms
     | Err e => st = Err e
     | _ => False
     end) /\
    (n <> m -> st = Panic 1 /\ buf = mem).
Proof.
  intros H Hs Hd. unfold pipeline_encode_into_at, encode_into_at.
  rewrite (slice_ok text so n Hs), (slice_ok mem d m Hd).
  set (s := window text so n). set (dst := window mem d m).
  assert (Ls : length s = n) by (apply window_length; exact Hs).
  assert (Ld : length dst = m) by (apply window_length; exact Hd).
  pose proof (pipeline_in_bounds A p H s dst) as Hb. rewrite Ld in Hb.
  destruct (pipeline_into_spec A p s dst H) as [Heq Hne].
  exists (splice mem d (fst (pipeline_encode_into p A s dst))), (snd (pipeline_encode_into p A s dst)).
  split; [reflexivity|].
  split; [apply splice_length; lia|].
  split; [apply splice_before; lia|].
  split.
  { pose proof (splice_after mem d (fst (pipeline_encode_into p A s dst)) ltac:(rewrite Hb; lia)) as Q.
    rewrite Hb in Q. exact Q. }
  split.
  - intros E. specialize (Heq ltac:(lia)).
    destruct (encode_spec A s) as [syms|e| |]; try contradiction.
    + rewrite Heq. simpl. split; auto.
      rewrite Heq in Hb. simpl in Hb. rewrite <- Hb. apply splice_window. lia.
    + exact Heq.
  - intros E. rewrite (Hne ltac:(lia)). simpl. split; auto.
    apply splice_same. exact Hd.
Qed.

(* the observation of the call, as the harness prints it *)
Lemma into_at_outcome A p text so n mem d : abc_ok A = true ->
  so + n <= length text -> d + n <= length mem ->
  window_outcome (pipeline_encode_into_at p A text so n mem d n) d n = encode_spec A (window text so n).
Proof.
  intros H Hs Hd.
  destruct (into_at_spec A p text so n mem d n H Hs Hd) as (buf & st & E & _ & _ & _ & Heq & _).
  rewrite E. specialize (Heq eq_refl). unfold window_outcome.
  destruct (encode_spec A (window text so n)) as [syms|e| |]; try contradiction.
  - destruct Heq as [-> ->]. reflexivity.
  - rewrite Heq. reflexivity.
Qed.

Lemma into_at_guards A p text so n mem d m : abc_ok A = true ->
  so + n <= length text -> d + m <= length mem ->
  guards_unchanged mem (pipeline_encode_into_at p A text so n mem d m) d m = true.
Proof.
  intros H Hs Hd.
  destruct (into_at_spec A p text so n mem d m H Hs Hd) as (buf & st & E & L & B & F & Heq & Hne).
  rewrite E. unfold guards_unchanged.
  assert (G : Nat.eqb (length buf) (length mem) && list_N_eqb (firstn d buf) (firstn d mem) &&
              list_N_eqb (skipn (d + m) buf) (skipn (d + m) mem) = true).
  { rewrite L, B, F, Nat.eqb_refl, !list_N_eqb_refl. reflexivity. }
  destruct st as [u|e|q|]; auto.
  destruct (Nat.eq_dec n m) as [Enm|Enm].
  - specialize (Heq Enm). destruct (encode_spec A (window text so n)); try contradiction.
    + destruct Heq; discriminate.
    + discriminate.
  - destruct (Hne Enm) as [_ ->]. apply list_N_eqb_refl.
Qed.

Lemma raw_at_spec A p junk text so n : abc_ok A = true -> so + n <= length text ->
  pipeline_encode_raw_at p A junk text so n = encode_spec A (window text so n).
Proof.
  intros H Hs. unfold pipeline_encode_raw_at. rewrite (slice_ok text so n Hs).
  apply pipeline_raw_spec. exact H.
Qed.

(* the observation does not depend on the placement of either slice, nor on the
   pipeline, nor on what the allocations hold around/inside the windows *)
Lemma into_at_outcome_any A p text so n mem d m : abc_ok A = true ->
  so + n <= length text -> d + m <= length mem ->
  window_outcome (pipeline_encode_into_at p A text so n mem d m) d m =
  if n =? m then encode_spec A (window text so n) else Panic 1.
Proof.
  intros H Hs Hd. destruct (n =? m) eqn:E.
  - apply Nat.eqb_eq in E. subst m. apply into_at_outcome; auto.
  - apply Nat.eqb_neq in E.
    destruct (into_at_spec A p text so n mem d m H Hs Hd) as (buf & st & R & _ & _ & _ & _ & Hne).
    rewrite R. destruct (Hne E) as [-> _]. reflexivity.
Qed.

Lemma into_at_placement_irrelevant A p p' text text' so so' n mem mem' d d' m : abc_ok A = true ->
  so + n <= length text -> so' + n <= length text' ->
  d + m <= length mem -> d' + m <= length mem' ->
  window text so n = window text' so' n ->
  window_outcome (pipeline_encode_into_at p A text so n mem d m) d m =
  window_outcome (pipeline_encode_into_at p' A text' so' n mem' d' m) d' m.
Proof.
  intros H Hs Hs' Hd Hd' E.
  rewrite !into_at_outcome_any by assumption. rewrite E. reflexivity.
Qed.

Lemma neon_in_bounds A : abc_ok_neon A = true -> in_bounds (encode_into_neon A).
Proof.
  unfold abc_ok_neon. intros H. apply andb_true_iff in H. destruct H as [H HN].
  pose proof (abc_ok_tables A H) as T.
  assert (HK : a_K A <= length (a_str A)) by (rewrite (tc_len A T); lia).
  apply simd_in_bounds; auto. simpl; lia.
Qed.
