(* Small list toolkit shared by the models: functional update, lemmas on
   firstn/skipn/repeat/nth that the standard library lacks in this form. *)
From Coq Require Import List Arith Lia.
Import ListNotations.

Section Upd.
  Context {A : Type}.

  Fixpoint upd (n : nat) (v : A) (l : list A) : list A :=
    match l, n with
    | [], _ => []
    | _ :: t, O => v :: t
    | h :: t, S n' => h :: upd n' v t
    end.

  Lemma upd_length n v l : length (upd n v l) = length l.
  Proof. revert n; induction l as [|h t IH]; intros [|n]; simpl; auto. Qed.

  Lemma nth_upd_same n v l d : n < length l -> nth n (upd n v l) d = v.
  Proof.
    revert n; induction l as [|h t IH]; intros [|n] H; simpl in *; try lia; auto.
    apply IH; lia.
  Qed.

  Lemma nth_upd_other n m v l d : n <> m -> nth m (upd n v l) d = nth m l d.
  Proof.
    revert n m; induction l as [|h t IH]; intros [|n] [|m] H; simpl; auto; try lia.
  Qed.

  Lemma nth_upd n m v l d :
    nth m (upd n v l) d = if Nat.eqb n m then (if Nat.ltb n (length l) then v else nth m l d) else nth m l d.
  Proof.
    destruct (Nat.eqb_spec n m) as [->|Hne].
    - destruct (Nat.ltb_spec m (length l)).
      + apply nth_upd_same; auto.
      + revert m H; induction l as [|h t IH]; intros [|m] H; simpl in *; auto; try lia.
        apply IH; lia.
    - apply nth_upd_other; auto.
  Qed.

  Lemma upd_out n v l : length l <= n -> upd n v l = l.
  Proof.
    revert n; induction l as [|h t IH]; intros [|n] H; simpl in *; auto; try lia.
    f_equal; apply IH; lia.
  Qed.
End Upd.

Section Misc.
  Context {A : Type}.

  Lemma nth_repeat_lt (x d : A) n i : i < n -> nth i (repeat x n) d = x.
  Proof. revert i; induction n; intros [|i] H; simpl; auto; try lia. apply IHn; lia. Qed.

  Lemma nth_ext_len (l1 l2 : list A) d :
    length l1 = length l2 ->
    (forall i, i < length l1 -> nth i l1 d = nth i l2 d) -> l1 = l2.
  Proof.
    intros Hl H. apply (nth_ext l1 l2 d d); auto.
  Qed.

  Lemma firstn_repeat (x : A) n m : firstn n (repeat x m) = repeat x (Nat.min n m).
  Proof.
    revert m; induction n; intros [|m]; simpl; auto. f_equal; apply IHn.
  Qed.

  Lemma skipn_repeat (x : A) n m : skipn n (repeat x m) = repeat x (m - n).
  Proof.
    revert m; induction n; intros [|m]; simpl; auto.
  Qed.

  Lemma firstn_app_exact (l1 l2 : list A) n : length l1 = n -> firstn n (l1 ++ l2) = l1.
  Proof.
    intros <-. rewrite firstn_app, Nat.sub_diag, firstn_all. simpl. apply app_nil_r.
  Qed.

  Lemma skipn_app_exact (l1 l2 : list A) n : length l1 = n -> skipn n (l1 ++ l2) = l2.
  Proof.
    intros <-. rewrite skipn_app, Nat.sub_diag, skipn_all. simpl. auto.
  Qed.

  Lemma map_const_repeat {B} (f : A -> B) (b : B) (l : list A) :
    (forall a, f a = b) -> map f l = repeat b (length l).
  Proof. intros H; induction l; simpl; auto. rewrite H, IHl; auto. Qed.

  Lemma Forall_repeat (P : A -> Prop) x n : P x -> Forall P (repeat x n).
  Proof. intros H; induction n; simpl; constructor; auto. Qed.

  Lemma Forall_firstn (P : A -> Prop) n l : Forall P l -> Forall P (firstn n l).
  Proof.
    revert l; induction n; intros [|h t] H; simpl; auto.
    inversion H; subst; constructor; auto.
  Qed.

  Lemma Forall_upd (P : A -> Prop) n v l : Forall P l -> P v -> Forall P (upd n v l).
  Proof.
    revert n; induction l as [|h t IH]; intros [|n] H Hv; simpl; auto;
      inversion H; subst; constructor; auto.
  Qed.

  Lemma Forall_nth_default (P : A -> Prop) l d n : Forall P l -> P d -> P (nth n l d).
  Proof.
    revert n; induction l as [|h t IH]; intros [|n] H Hd; simpl; auto;
      inversion H; subst; auto.
  Qed.
End Misc.
