(* IEEE-754 binary32 / binary64 arithmetic for bit-exact replay of the library's
   f32 / f64 computations, on top of Flocq 4.1 (BinarySingleNaN: one NaN, which is
   all the library's observable behaviour depends on).

   Everything here is executable (vm_compute and extraction).  Operations follow
   Rust's semantics for the corresponding expression on x86-64:
     a + b, a - b, a * b, a / b         round-to-nearest-even
     a < b, a <= b, a == b, a >= b      IEEE comparisons (false on NaN)
     x.floor(), x.ceil(), x.round()     (round = half away from zero)
     x as u8 / as i64 / as i32          saturating casts, NaN -> 0
     n as f32 / as f64                  nearest-even conversion of an integer
     x as f64 (from f32)                exact
     f32::max / f32::min                return the non-NaN operand
   Bit patterns: [of_bits]/[to_bits] (NaN is printed as the canonical quiet NaN). *)
From Coq Require Import ZArith Bool List.
From Flocq Require Import Core BinarySingleNaN Binary Bits.
Import ListNotations.


Section Fmt.
  Variable prec emax : Z.
  Context {Hprec : Prec_gt_0 prec} {Hmax : Prec_lt_emax prec emax}.

  Notation bf := (BinarySingleNaN.binary_float prec emax).

  Definition fzero : bf := BinarySingleNaN.B754_zero false.
  Definition fnzero : bf := BinarySingleNaN.B754_zero true.
  Definition finf : bf := BinarySingleNaN.B754_infinity false.
  Definition fninf : bf := BinarySingleNaN.B754_infinity true.
  Definition fnan : bf := BinarySingleNaN.B754_nan.

  Definition fadd (a b : bf) : bf := BinarySingleNaN.Bplus mode_NE a b.
  Definition fsub (a b : bf) : bf := BinarySingleNaN.Bminus mode_NE a b.
  Definition fmul (a b : bf) : bf := BinarySingleNaN.Bmult mode_NE a b.
  Definition fdiv (a b : bf) : bf := BinarySingleNaN.Bdiv mode_NE a b.
  Definition fneg (a : bf) : bf := BinarySingleNaN.Bopp a.
  Definition fabs (a : bf) : bf := BinarySingleNaN.Babs a.

  Definition fcmp (a b : bf) : option comparison := BinarySingleNaN.Bcompare a b.
  Definition flt (a b : bf) : bool := match fcmp a b with Some Lt => true | _ => false end.
  Definition fle (a b : bf) : bool := match fcmp a b with Some Lt | Some Eq => true | _ => false end.
  Definition feq (a b : bf) : bool := match fcmp a b with Some Eq => true | _ => false end.
  Definition fgt (a b : bf) : bool := flt b a.
  Definition fge (a b : bf) : bool := fle b a.

  Definition is_nan (a : bf) : bool := BinarySingleNaN.is_nan a.
  Definition is_finite (a : bf) : bool := BinarySingleNaN.is_finite a.
  Definition is_neg_inf (a : bf) : bool :=
    match a with BinarySingleNaN.B754_infinity true => true | _ => false end.
  Definition is_zero (a : bf) : bool :=
    match a with BinarySingleNaN.B754_zero _ => true | _ => false end.
  Definition sign (a : bf) : bool := BinarySingleNaN.Bsign a.

  Definition ffloor (a : bf) : bf := BinarySingleNaN.Bnearbyint mode_DN a.
  Definition fceil (a : bf) : bf := BinarySingleNaN.Bnearbyint mode_UP a.
  Definition ftrunc_f (a : bf) : bf := BinarySingleNaN.Bnearbyint mode_ZR a.
  (* f32::round / f64::round: half away from zero *)
  Definition fround (a : bf) : bf := BinarySingleNaN.Bnearbyint mode_NA a.

  (* integer part toward zero; 0 for NaN and infinities *)
  Definition ftruncZ (a : bf) : Z := BinarySingleNaN.Btrunc a.

  (* Rust's saturating float -> integer cast into [lo, hi] *)
  Definition cast_sat (lo hi : Z) (a : bf) : Z :=
    match a with
    | BinarySingleNaN.B754_nan => 0%Z
    | BinarySingleNaN.B754_infinity true => lo
    | BinarySingleNaN.B754_infinity false => hi
    | _ => Z.max lo (Z.min hi (ftruncZ a))
    end.
  Definition to_u8 := cast_sat 0 255.
  Definition to_i32 := cast_sat (-2147483648) 2147483647.
  Definition to_i64 := cast_sat (-9223372036854775808) 9223372036854775807.
  Definition to_u32 := cast_sat 0 4294967295.
  Definition to_usize := cast_sat 0 18446744073709551615.

  (* integer -> float, nearest even (n as f32 / n as f64) *)
  Definition of_Z (n : Z) : bf := BinarySingleNaN.binary_normalize prec emax _ _ mode_NE n 0 false.

  (* m * 2^e rounded to nearest even (used for decimal literals given as fractions) *)
  Definition of_Z_exp (m e : Z) : bf := BinarySingleNaN.binary_normalize prec emax _ _ mode_NE m e false.

  (* f32::max / f32::min: if one operand is NaN the other is returned *)
  Definition fmax (a b : bf) : bf :=
    if is_nan a then b else if is_nan b then a else if flt a b then b else a.
  Definition fmin (a b : bf) : bf :=
    if is_nan a then b else if is_nan b then a else if flt b a then b else a.

  (* x86 MAXPS/MAXSS (and _mm256_max_ps): returns the second operand when either
     operand is NaN or when both are zeros, otherwise the larger *)
  Definition fmax_x86 (a b : bf) : bf := if flt b a then a else b.
  Definition fmin_x86 (a b : bf) : bf := if flt a b then a else b.

  Fixpoint fsum_from (acc : bf) (l : list bf) : bf :=
    match l with
    | [] => acc
    | x :: r => fsum_from (fadd acc x) r
    end.
End Fmt.

(* ---------- binary32 ---------- *)

Definition f32 := BinarySingleNaN.binary_float 24 128.
#[global] Instance Hprec32 : Prec_gt_0 24 := eq_refl.
#[global] Instance Hmax32 : Prec_lt_emax 24 128 := eq_refl.

Definition nan_pl32 : { x : Binary.binary_float 24 128 | Binary.is_nan 24 128 x = true } :=
  exist _ (Binary.B754_nan 24 128 false 4194304 eq_refl) eq_refl.

Definition f32_of_bits (z : Z) : f32 := Binary.B2BSN 24 128 (b32_of_bits z).
Definition f32_to_bits (x : f32) : Z := bits_of_b32 (Binary.BSN2B 24 128 nan_pl32 x).

(* ---------- binary64 ---------- *)

Definition f64 := BinarySingleNaN.binary_float 53 1024.
#[global] Instance Hprec64 : Prec_gt_0 53 := eq_refl.
#[global] Instance Hmax64 : Prec_lt_emax 53 1024 := eq_refl.

Definition nan_pl64 : { x : Binary.binary_float 53 1024 | Binary.is_nan 53 1024 x = true } :=
  exist _ (Binary.B754_nan 53 1024 false 2251799813685248 eq_refl) eq_refl.

Definition f64_of_bits (z : Z) : f64 := Binary.B2BSN 53 1024 (b64_of_bits z).
Definition f64_to_bits (x : f64) : Z := bits_of_b64 (Binary.BSN2B 53 1024 nan_pl64 x).

(* ---------- conversions ---------- *)

(* x as f64 (exact) *)
Definition f32_to_f64 (x : f32) : f64 :=
  match x with
  | BinarySingleNaN.B754_nan => BinarySingleNaN.B754_nan
  | BinarySingleNaN.B754_zero s => BinarySingleNaN.B754_zero s
  | BinarySingleNaN.B754_infinity s => BinarySingleNaN.B754_infinity s
  | BinarySingleNaN.B754_finite s m e _ =>
      BinarySingleNaN.binary_normalize 53 1024 _ _ mode_NE (cond_Zopp s (Zpos m)) e s
  end.

(* x as f32 (nearest even) *)
Definition f64_to_f32 (x : f64) : f32 :=
  match x with
  | BinarySingleNaN.B754_nan => BinarySingleNaN.B754_nan
  | BinarySingleNaN.B754_zero s => BinarySingleNaN.B754_zero s
  | BinarySingleNaN.B754_infinity s => BinarySingleNaN.B754_infinity s
  | BinarySingleNaN.B754_finite s m e _ =>
      BinarySingleNaN.binary_normalize 24 128 _ _ mode_NE (cond_Zopp s (Zpos m)) e s
  end.

(* ---------- short names for the two formats ---------- *)

Module F32.
  Definition t := f32.
  Definition zero : t := fzero 24 128.
  Definition nzero : t := fnzero 24 128.
  Definition inf : t := finf 24 128.
  Definition ninf : t := fninf 24 128.
  Definition nan : t := fnan 24 128.
  Definition add : t -> t -> t := fadd 24 128.
  Definition sub : t -> t -> t := fsub 24 128.
  Definition mul : t -> t -> t := fmul 24 128.
  Definition div : t -> t -> t := fdiv 24 128.
  Definition neg : t -> t := fneg 24 128.
  Definition abs : t -> t := fabs 24 128.
  Definition cmp : t -> t -> option comparison := fcmp 24 128.
  Definition lt : t -> t -> bool := flt 24 128.
  Definition le : t -> t -> bool := fle 24 128.
  Definition eq : t -> t -> bool := feq 24 128.
  Definition gt : t -> t -> bool := fgt 24 128.
  Definition ge : t -> t -> bool := fge 24 128.
  Definition is_nan : t -> bool := is_nan 24 128.
  Definition is_finite : t -> bool := is_finite 24 128.
  Definition is_neg_inf : t -> bool := is_neg_inf 24 128.
  Definition floor : t -> t := ffloor 24 128.
  Definition ceil : t -> t := fceil 24 128.
  Definition round : t -> t := fround 24 128.
  Definition to_u8 : t -> Z := to_u8 24 128.
  Definition to_i32 : t -> Z := to_i32 24 128.
  Definition to_i64 : t -> Z := to_i64 24 128.
  Definition to_u32 : t -> Z := to_u32 24 128.
  Definition of_Z : Z -> t := of_Z 24 128.
  Definition of_Z_exp : Z -> Z -> t := of_Z_exp 24 128.
  Definition max : t -> t -> t := fmax 24 128.
  Definition min : t -> t -> t := fmin 24 128.
  Definition max_x86 : t -> t -> t := fmax_x86 24 128.
  Definition sum_from : t -> list t -> t := fsum_from 24 128.
  Definition of_bits : Z -> t := f32_of_bits.
  Definition to_bits : t -> Z := f32_to_bits.
End F32.

Module F64.
  Definition t := f64.
  Definition zero : t := fzero 53 1024.
  Definition nzero : t := fnzero 53 1024.
  Definition inf : t := finf 53 1024.
  Definition ninf : t := fninf 53 1024.
  Definition nan : t := fnan 53 1024.
  Definition add : t -> t -> t := fadd 53 1024.
  Definition sub : t -> t -> t := fsub 53 1024.
  Definition mul : t -> t -> t := fmul 53 1024.
  Definition div : t -> t -> t := fdiv 53 1024.
  Definition neg : t -> t := fneg 53 1024.
  Definition abs : t -> t := fabs 53 1024.
  Definition cmp : t -> t -> option comparison := fcmp 53 1024.
  Definition lt : t -> t -> bool := flt 53 1024.
  Definition le : t -> t -> bool := fle 53 1024.
  Definition eq : t -> t -> bool := feq 53 1024.
  Definition gt : t -> t -> bool := fgt 53 1024.
  Definition ge : t -> t -> bool := fge 53 1024.
  Definition is_nan : t -> bool := is_nan 53 1024.
  Definition is_finite : t -> bool := is_finite 53 1024.
  Definition is_neg_inf : t -> bool := is_neg_inf 53 1024.
  Definition floor : t -> t := ffloor 53 1024.
  Definition ceil : t -> t := fceil 53 1024.
  Definition round : t -> t := fround 53 1024.
  Definition to_u8 : t -> Z := to_u8 53 1024.
  Definition to_i32 : t -> Z := to_i32 53 1024.
  Definition to_i64 : t -> Z := to_i64 53 1024.
  Definition to_usize : t -> Z := to_usize 53 1024.
  Definition of_Z : Z -> t := of_Z 53 1024.
  Definition of_Z_exp : Z -> Z -> t := of_Z_exp 53 1024.
  Definition max : t -> t -> t := fmax 53 1024.
  Definition min : t -> t -> t := fmin 53 1024.
  Definition sum_from : t -> list t -> t := fsum_from 53 1024.
  Definition of_bits : Z -> t := f64_of_bits.
  Definition to_bits : t -> Z := f64_to_bits.
  Definition of_f32 : f32 -> t := f32_to_f64.
  Definition to_f32 : t -> f32 := f64_to_f32.
End F64.

(* ---------- sanity: a few bit patterns checked against hardware results ---------- *)

Example f32_add_example :
  F32.to_bits (F32.add (F32.of_bits 0x3FC00000) (F32.of_bits 0x3DCCCCCD)) = 0x3FCCCCCD%Z.
Proof. vm_compute. reflexivity. Qed.

Example f32_ceil_div_example :
  F32.to_bits (F32.ceil (F32.div (F32.of_bits 0x3FC00000) (F32.of_bits 0x3DCCCCCD))) = 0x41700000%Z.
Proof. vm_compute. reflexivity. Qed.

Example f32_neg_inf_absorbs :
  F32.to_bits (F32.add (F32.of_bits 0x3FC00000) F32.ninf) = 0xFF800000%Z.
Proof. vm_compute. reflexivity. Qed.

Example f32_cast_examples :
  (F32.to_u8 (F32.of_bits 0x43960000), F32.to_u8 (F32.of_bits 0xC0000000), F32.to_u8 F32.nan,
   F32.to_u8 (F32.of_bits 0x40533333)) = (255, 0, 0, 3)%Z.
Proof. vm_compute. reflexivity. Qed.

Example f64_of_f32_example :
  F64.to_bits (F64.of_f32 (F32.of_bits 0x3DCCCCCD)) = 0x3FB99999A0000000%Z.
Proof. vm_compute. reflexivity. Qed.

Example f32_of_Z_example : F32.to_bits (F32.of_Z 16777217) = 0x4B800000%Z.
Proof. vm_compute. reflexivity. Qed.

Example f64_round_example :
  (F64.to_i64 (F64.round (F64.of_bits 0x4004000000000000)),
   F64.to_i64 (F64.round (F64.of_bits 0xC004000000000000))) = (3, -3)%Z.
Proof. vm_compute. reflexivity. Qed.
