(* Outcome type shared by all models: a model function either returns a value,
   an (expected, documented) error, a Panic at exactly the places where the Rust
   code can panic, or OutOfFuel when a fuelled recursion is exhausted. *)
From Coq Require Import List.
Import ListNotations.

Inductive res (A : Type) : Type :=
| Ok (a : A)
| Err (code : nat)
| Panic (site : nat)
| OutOfFuel.

Arguments Ok {A} a.
Arguments Err {A} code.
Arguments Panic {A} site.
Arguments OutOfFuel {A}.

Definition rbind {A B} (x : res A) (f : A -> res B) : res B :=
  match x with
  | Ok a => f a
  | Err c => Err c
  | Panic s => Panic s
  | OutOfFuel => OutOfFuel
  end.

Definition rmap {A B} (f : A -> B) (x : res A) : res B :=
  rbind x (fun a => Ok (f a)).

Definition is_ok {A} (x : res A) : bool :=
  match x with Ok _ => true | _ => false end.

Definition is_panic {A} (x : res A) : bool :=
  match x with Panic _ => true | _ => false end.

Notation "x <- e ;; k" := (rbind e (fun x => k))
  (at level 61, e at next level, right associativity).

Lemma rbind_ok {A B} (x : res A) (f : A -> res B) b :
  rbind x f = Ok b -> exists a, x = Ok a /\ f a = Ok b.
Proof. destruct x; simpl; intros H; try discriminate. eauto. Qed.
