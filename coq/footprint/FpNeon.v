(* Footprints of the NEON kernels (lightmotif/src/pli/platform/neon.rs).

   These kernels do not compile on x86_64: there is no dynamic tie (no sanitizer run) for
   them, only the source tie (pinned statements, translate/footprint_src.py) and the
   source-derived footprints (translate/footprint_exec.py interprets their pointer
   arithmetic like that of the x86 kernels).  On non-x86_64 targets matrix rows are 16-byte
   aligned (dense.rs: `repr(align(16))`); NEON loads/stores (vld1q / vst1q) only need the
   alignment of their element type.

   Executable definitions only. *)
From Coq Require Import List ZArith Bool.
From LMBase Require Import Res.
From LMFootprint Require Import FpModel.
Import ListNotations.
Open Scope Z_scope.

(* `while i + size_of::<uint8x16_t>() * 4 < l { vld1q_u8_x4(src_ptr); ..; vst1q_u8_x4(dst_ptr, encoded);
      src_ptr = src_ptr.add(64); dst_ptr = dst_ptr.add(64); i += 64 }`, the error scan
   `for i in 0..l { from_ascii(seq[i])? }` and `g.encode_into(&seq[i..], &mut dst[i..])` (unconditional:
   an empty tail when i = l): the shape of the x86 encoders with 64-byte blocks and a strict bound *)
Definition fp_encode_into_neon (L : Z) : list access := fp_encode_simd 64 true L.

(* score_f32_neon: `for offset in (0..C/16).map(|i| i*16) { rowptr = data[0].as_mut_ptr().add(offset);
     for i in rows { dataptr = seq.matrix()[i].as_ptr().add(offset); pssmptr = pssm[0].as_ptr();
       for _ in 0..pssm.rows() { vld1q_u8(dataptr); for k in 0..K { vld1q_dup_f32(pssmptr.add(k)) }
          dataptr = dataptr.add(seq stride); pssmptr = pssmptr.add(pssm stride) }
       vst1q_f32_x4(rowptr, s); rowptr = rowptr.add(data.stride()) } }` *)
Definition fp_score_f32_neon (C : Z) (p : SP) : list access :=
  flat_map (fun q =>
    flat_map (fun i =>
      flat_map (fun j => rd B_SRC ((i + j) * psst p + 16 * q) 16 1
                         :: map (fun k => rd B_PSSM ((j * ppst p + k) * 4) 4 4) (zrange 0 (pK p)))
               (zrange 0 (pM p))
      ++ [wr B_DST (((i - pa p) * pdst p + 16 * q) * 4) 64 4])
    (zrange (pa p) (pb p)))
  (zrange 0 (C / 16)).

(* score_u8_neon: same loops; `vld1q_u8(seqptr)`, `vld1q_u8(pssmptr)` (16 bytes of the u8 PSSM row),
   `vst1q_u8(rowptr, s)` *)
Definition fp_score_u8_neon (C : Z) (p : SP) : list access :=
  flat_map (fun q =>
    flat_map (fun i =>
      flat_map (fun j => [rd B_SRC ((i + j) * psst p + 16 * q) 16 1;
                          rd B_PSSM (j * ppst p) 16 1]) (zrange 0 (pM p))
      ++ [wr B_DST ((i - pa p) * pdst p + 16 * q) 16 1])
    (zrange (pa p) (pb p)))
  (zrange 0 (C / 16)).

(* Neon::score_f32_rows_into / score_u8_rows_into: the guards of the x86 wrappers (score_guard).
   `ranged = true` is the code as it is since commit 9cd9b52 (row-range check added, finding F26);
   `ranged = false` the wrappers before it: wrap check and early return only — the repair of the x86
   wrappers (commit 38882ad) had not reached neon.rs *)
Definition wrap_score_f32_neon (ranged : bool) (C : Z) (p : SP) : res kernel_run :=
  score_guard ranged p (fun _ => fp_score_f32_neon C p).
Definition wrap_score_u8_neon (ranged : bool) (C : Z) (p : SP) : res kernel_run :=
  score_guard ranged p (fun _ => fp_score_u8_neon C p).

(* rows of a DenseMatrix are 16-byte aligned on Arm *)
Definition balign_mat16 (b : nat) : Z :=
  if Nat.eqb b B_SRC then 16 else if Nat.eqb b B_DST then 16 else if Nat.eqb b B_PSSM then 16 else 1.
Definition layout16_ok (es C st : Z) : Prop := 0 < es /\ 0 < C /\ C <= st /\ (st * es) mod 16 = 0.

(* the call that showed the missing guard (F26): 64 symbols in C = 16 columns (4 sequence rows), a motif of
   width 3 (2 look-ahead rows: 6 matrix rows), all 6 rows scored: K L SR wrap M a b sst pst dst *)
Definition neon_rows_witness : SP := mkSP 5 64 6 2 3 0 6 16 8 16.
