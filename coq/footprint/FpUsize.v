(* The guards of the SIMD scoring wrappers in `usize` arithmetic.

   FpModel.score_guard evaluates `rows.end + pssm.rows() - 1 > seq.matrix().rows()` in Z.  The code computes it
   in `usize`: with overflow checks (dev profile) `rows.end + pssm.rows()` panics when it does not fit, without
   them (release) it wraps and the comparison may PASS for a range near usize::MAX (`(usize::MAX-1)..usize::MAX`,
   M = 2).  What happens then: `scores.resize(rows.len(), ..)` (a `capacity overflow` panic when rows.len() rows do
   not fit in isize::MAX bytes) and the kernel, whose first statement per scored row is the CHECKED index
   `seq.matrix()[i]` (avx2.rs score_*_avx2_*, sse2.rs score_sse2): a panic for i >= rows(), before any raw access.

   `score_guard_usize` transcribes that order; FpUsizeProofs.v shows that it enters the kernel only when the Z
   guard does (with the same footprint) and panics whenever the Z guard panics, so the theorems about
   `score_guard` speak about the code.  (The last branch — entered with a wrapped sum — is unreachable under
   `usize_ok`; its footprint is therefore not truncated at the failing index.)

   Executable definitions only. *)
From Coq Require Import List ZArith Bool.
From LMBase Require Import Res.
From LMFootprint Require Import FpModel.
Import ListNotations.
Open Scope Z_scope.

Definition USIZE : Z := 18446744073709551616.        (* 2^64 *)
Definition ISIZE_MAX : Z := 9223372036854775807.     (* 2^63 - 1: no allocation is larger *)

(* release = false: overflow checks on (dev profile);  rb = bytes of one row of the score matrix *)
Definition score_guard_usize (release : bool) (rb : Z) (p : SP) (body : unit -> list access) : res kernel_run :=
  (* `seq.wrap() < pssm.rows() - 1`: M = 0 underflows: a panic with overflow checks, usize::MAX (and then the
     panic of the comparison) without *)
  if pM p =? 0 then Panic 2
  else if pwrap p <? pM p - 1 then Panic 3
  else if (pL p <? pM p) || (pb p <=? pa p) then Ok Skipped
  (* `rows.end + pssm.rows()`: attempt to add with overflow *)
  else if negb release && (USIZE <=? pb p + pM p) then Panic 11
  (* `... - 1 > seq.matrix().rows()` on the wrapped value *)
  else if pSR p <? (pb p + pM p - 1) mod USIZE then Panic 4
  (* `scores.resize(rows.len(), ..)`: capacity overflow *)
  else if ISIZE_MAX <? (pb p - pa p) * rb then Panic 12
  (* kernel: `for i in rows { seq.matrix()[i] ..`: the checked index of the first scored row *)
  else if pSR p <=? pa p then Panic 13
  else Ok (Entered (body tt)).

(* the checked add of the generic code: `seq.matrix()[seq_row + j]` (seq_row < rows.end, j < M) *)
Definition generic_index_overflows (p : SP) : bool := USIZE <=? pb p - 1 + (pM p - 1).
