(* Histories of safe API calls on one set of buffers (property C06 quantifies over "all op
   sequences that reuse / resize / clone buffers").

   One history owns: a symbol vector, a striped sequence with C = 32 columns, a motif (an
   f32 scoring matrix and its u8 discretisation, M rows each), an f32 and a u8 score matrix.
   The abstract state records exactly the quantities the guards of the safe wrappers read
   (lengths, row counts, wrap rows, max_index); an op updates them the way the code does and
   emits one footprint event per unsafe kernel it enters.  A call that panics in the guards of a SIMD
   wrapper or in `assert_eq!` leaves the state unchanged (the harness catches the unwind; these
   panic before touching their arguments); the generic scoring code panics AFTER resizing the scores.  Cloning a buffer copies its row count
   (and shrinks its capacity, which the model never counts as owned), so it is not an op.

   Executable definitions only (no proofs). *)
From Coq Require Import List ZArith Bool.
From LMBase Require Import Res.
From LMFootprint Require Import FpModel.
Import ListNotations.
Open Scope Z_scope.

Inductive arm := AGeneric | ASse2 | AAvx2.

Record hstate := mkH {
  hE : Z;      (* symbols in the symbol vector *)
  hL : Z;      (* striped.len() *)
  hSR : Z;     (* striped.matrix().rows() (sequence rows + wrap rows) *)
  hwrap : Z;   (* striped.wrap() *)
  hM : Z;      (* motif rows *)
  hFR : Z;     (* rows of the f32 score matrix *)
  hFI : Z;     (* its max_index *)
  hUR : Z      (* rows of the u8 score matrix *)
}.

Inductive hop :=
| HEncode (a : arm) (L Ld : Z)   (* encode_into: L letters into a buffer of Ld symbols (encode_raw: Ld = L) *)
| HStripe (a : arm)              (* stripe_into the striped buffer (the SSE2 pipeline stripes with the generic code) *)
| HSample (L : Z)                (* StripedSequence::sample *)
| HConfigure (m : Z)             (* configure_wrap(m) (configure(motif) = configure_wrap(M - 1) when M > 0) *)
| HMotif (M : Z)                 (* a new motif of M rows *)
| HScoreF32 (a : arm) (lo hi : Z)  (* score_rows_into(pssm, striped, lo..hi, f32 scores) *)
| HScoreU8 (a : arm) (lo hi : Z)
| HResize (n mi : Z)             (* StripedScores::resize(n, mi) on both score buffers *)
| HArgmaxF32 (a : arm) | HMaxF32 (a : arm) | HArgmaxU8 (a : arm) | HMaxU8 (a : arm).

(* one entered kernel: extents and alignment guarantees of its buffers, and its accesses *)
Record fp_event := mkEv { ev_ext : nat -> Z; ev_al : nat -> Z; ev_accs : list access }.

Definition balign_all32 (b : nat) : Z := 32.

Definition set_seq (s : hstate) (L SR wrap : Z) : hstate :=
  mkH (hE s) L SR wrap (hM s) (hFR s) (hFI s) (hUR s).

(* (seq.len() + 1).saturating_sub(pssm.rows()) *)
Definition sat_sub (a b : Z) : Z := if a <? b then 0 else a - b.

Section History.
  Variable K : Z.       (* alphabet size *)
  Variable pstF : Z.    (* stride of the f32 scoring matrix (DenseMatrix<f32, K>) *)
  Variable pstU : Z.    (* stride of the u8 scoring matrix *)

  Definition enc_kernel (a : arm) : Z -> list access :=
    match a with AAvx2 => fp_encode_into_avx2 | ASse2 => fp_encode_into_sse2 | AGeneric => fp_encode_generic end.

  Definition score_params (s : hstate) (pst lo hi : Z) : SP :=
    mkSP K (hL s) (hSR s) (hwrap s) (hM s) lo hi 32 pst 32.

  Definition hstep (s : hstate) (o : hop) : hstate * list fp_event :=
    match o with
    | HEncode a L Ld =>
        match wrap_encode (enc_kernel a) L Ld with
        | Ok (Entered accs) =>
            (mkH L (hL s) (hSR s) (hwrap s) (hM s) (hFR s) (hFI s) (hUR s),
             [mkEv (ext_encode L Ld) balign_slices accs])
        | _ => (s, [])
        end
    | HStripe AAvx2 =>
        let L := hE s in
        (set_seq s L (stripe_rows L) 0, [mkEv (ext_stripe L 32) balign_stripe (fp_stripe_avx2 L 32)])
    | HStripe _ =>
        let L := hE s in
        (set_seq s L (gstripe_rows 32 L) 0, [mkEv (ext_gstripe 32 L 32) balign_stripe (fp_stripe_generic 32 L 32)])
    | HSample L =>
        (set_seq s L (sample_rows 32 L) 0,
         [mkEv (ext_dense 1 32 (sample_rows 32 L)) balign_all32 (fp_sample 32 32 L)])
    | HConfigure m =>
        let '(r, w) := configure_wrap_model (hSR s) (hwrap s) m in (set_seq s (hL s) r w, [])
    | HMotif M => (mkH (hE s) (hL s) (hSR s) (hwrap s) M (hFR s) (hFI s) (hUR s), [])
    | HScoreF32 a lo hi =>
        let p := score_params s pstF lo hi in
        let g := match a with
                 | AAvx2 => wrap_score_f32_avx2 true p
                 | ASse2 => wrap_score_sse2 true 32 p
                 | AGeneric => wrap_score_generic p
                 end in
        match g with
        | Ok (Entered accs) =>
            (mkH (hE s) (hL s) (hSR s) (hwrap s) (hM s) (hi - lo) (sat_sub (hL s + 1) (hM s)) (hUR s),
             [mkEv (ext_score 4 p) balign_mat_src accs])
        | Ok Skipped => (mkH (hE s) (hL s) (hSR s) (hwrap s) (hM s) 0 0 (hUR s), [])
        | Panic _ =>
            (* the trait default (generic arm) resizes the scores to rows.len() BEFORE its checked index
               `seq.matrix()[seq_row + j]` panics (pli/mod.rs `score_rows_into`); the SIMD wrappers panic
               before they touch their arguments *)
            match a with
            | AGeneric => (mkH (hE s) (hL s) (hSR s) (hwrap s) (hM s) (hi - lo) (sat_sub (hL s + 1) (hM s)) (hUR s), [])
            | _ => (s, [])
            end
        | _ => (s, [])
        end
    | HScoreU8 a lo hi =>
        let p := score_params s pstU lo hi in
        let g := match a with
                 | AAvx2 => wrap_score_u8_avx2 true p
                 | _ => wrap_score_generic p     (* no 8-bit SSE2 kernel: trait default *)
                 end in
        match g with
        | Ok (Entered accs) =>
            (mkH (hE s) (hL s) (hSR s) (hwrap s) (hM s) (hFR s) (hFI s) (hi - lo),
             [mkEv (ext_score 1 p) balign_mat_src accs])
        | Ok Skipped => (mkH (hE s) (hL s) (hSR s) (hwrap s) (hM s) (hFR s) (hFI s) 0, [])
        | Panic _ =>
            match a with
            | AAvx2 => (s, [])
            | _ => (mkH (hE s) (hL s) (hSR s) (hwrap s) (hM s) (hFR s) (hFI s) (hi - lo), [])
            end
        | _ => (s, [])
        end
    | HResize n mi => (mkH (hE s) (hL s) (hSR s) (hwrap s) (hM s) n mi n, [])
    | HArgmaxF32 AAvx2 =>
        match wrap_argmax_f32_avx2 (hFR s) (hFI s) 32 with
        | Ok (Entered accs) => (s, [mkEv (ext_max 4 (hFR s) 32 128) balign_mat_src accs])
        | _ => (s, [])
        end
    | HMaxF32 AAvx2 =>
        match wrap_max_f32_avx2 (hFR s) 32 with
        | Ok (Entered accs) => (s, [mkEv (ext_max 4 (hFR s) 32 32) balign_mat_src accs])
        | _ => (s, [])
        end
    (* Pipeline<A, Sse2>::max is the trait default `argmax().map(..)`: the same kernel *)
    | HArgmaxF32 ASse2 | HMaxF32 ASse2 =>
        match wrap_argmax_sse2 32 (hFR s) (hFI s) 32 with
        | Ok (Entered accs) => (s, [mkEv (ext_max 4 (hFR s) 32 (4 * 32)) balign_mat_src accs])
        | _ => (s, [])
        end
    | HArgmaxU8 AAvx2 =>
        match wrap_argmax_u8_avx2 (hUR s) 32 with
        | Ok (Entered accs) => (s, [mkEv (ext_max 1 (hUR s) 32 64) balign_mat_src accs])
        | _ => (s, [])
        end
    | HMaxU8 AAvx2 =>
        match wrap_max_u8_avx2 (hUR s) 32 with
        | Ok (Entered accs) => (s, [mkEv (ext_max 1 (hUR s) 32 32) balign_mat_src accs])
        | _ => (s, [])
        end
    | HArgmaxF32 AGeneric | HMaxF32 AGeneric | HArgmaxU8 _ | HMaxU8 _ => (s, [])   (* safe code only *)
    end.

  Fixpoint htrace (s : hstate) (ops : list hop) : list fp_event :=
    match ops with
    | [] => []
    | o :: r => let '(s', ev) := hstep s o in ev ++ htrace s' r
    end.

  Fixpoint hfinal (s : hstate) (ops : list hop) : hstate :=
    match ops with
    | [] => s
    | o :: r => hfinal (fst (hstep s o)) r
    end.
End History.

Definition h0 : hstate := mkH 0 0 0 0 0 0 0 0.
