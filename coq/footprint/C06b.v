(* Property C06, round 3 additions (audited like C06.v through `more_props` of props/c06.py): statements only.
   PARTIAL as C06.v: statements about the footprint model.

   A. allocations: rows() versus capacity() (FpCap.v) — the kernels stay inside the ALLOCATION of the sequence
      matrix along every history with clones / caller-built matrices / any reallocation policy, a clone is an
      exact allocation, and the software-pipelined kernel of seeded change C06/5 is inside the allocation
      exactly when the Vec has a spare row (so only histories on exact allocations show it);
   B. initialisation (FpInit.v): every cell a safe caller can read of a buffer that starts uninitialised
      (`DenseMatrix::uninitialized` behind sample / from_rows, the set_len buffer of encode_raw, the rows a
      resize adds, the striped matrix) is covered by a write of the footprint — the model side of what the
      MemorySanitizer child observes (`cell_check` after every op);
   C. the raw pointers of the Python module (FpPy.v; the five `__getbuffer__` and the Scanner's transmute are
      pinned by translate/footprint_src.py): lifetimes (strong references keep the cells alive; a view of a
      StripedSequence does NOT survive a reallocating configure: finding F24 family) and extents — the extent a
      consumer walking the exported shape/strides can reach is inside rows * stride * itemsize, stated on the
      shape/strides formulas REGENERATED from lightmotif-py/lightmotif/lib.rs by translate/pyidx_slots.py
      (coq/footprint/GenPyViews.v, generated on every run by props/c06.py from the output of C18's translator: the
      bridge to C18 — same formulas, no dependency on the build of coq/pyidx). *)
From Coq Require Import List ZArith Bool Lia.
From LMBase Require Import Res.
From LMFootprint Require Import GenPyViews FpModel FpProofs FpNeon FpHistory FpHistoryProofs FpCap FpCapProofs FpInit FpPy FpPyProofs FpUsize FpUsizeProofs.
Import ListNotations.
Open Scope Z_scope.

(* ===================== A. allocations ===================== *)

(* Histories with the allocations of the matrices (FpCap.cstep: the state of FpHistory plus the capacity of the
   sequence matrix and of the two score matrices; ops: those of FpHistory with the capacity std chooses at a
   reallocation as an input, clone of the sequence / of the scores, `StripedSequence::new(DenseMatrix::new(n), L)`).

   INVARIANT over the whole op list (cinv): the components are usize values, every matrix lies inside its
   allocation (rows() <= capacity() for the sequence matrix and both score matrices) and the sequence matrix holds
   the rows of the sequence plus the wrap rows (ceil(len / 32) + wrap <= rows()).  It holds in EVERY state the history
   goes through, and for every kernel entered at every step: every access is inside the OWNED rows of the buffer it
   addresses and aligned (the statement of C06_histories_partial), and the owned rows are inside the allocation of
   that buffer AS IT IS AT THAT STEP (ce_alloc).  Unlike C06_histories_partial (which holds from any non-negative
   state: it is the conjunction of the per-kernel theorems and carries no invariant), this one is inductive: the
   transitions of the history model — configure_wrap, the resizes of the score matrices, clones — have to preserve
   rows <= capacity and the shape of the sequence.  PARTIAL as everything here: a statement about the model; its
   transitions are compared with the implementation per op by the driver (rows, wrap, capacities before/after). *)
Theorem C06_histories_invariant_partial : forall K pstF pstU ops s,
  layout_ok 4 K pstF -> layout_ok 1 K pstU ->
  cinv s -> Forall cop_wf ops ->
  Forall (fun ce => Forall (InBounds (ev_ext (ce_ev ce))) (ev_accs (ce_ev ce)) /\
                    Forall (Aligned (ev_al (ce_ev ce))) (ev_accs (ce_ev ce)) /\
                    (forall b, ev_ext (ce_ev ce) b <= ce_alloc ce b))
         (ctrace K pstF pstU s ops) /\
  Forall cinv (cstates K pstF pstU s ops).
Proof.
  intros K pstF pstU ops s HF HU Hs Ho.
  destruct (ctrace_safe K pstF pstU HF HU ops s Hs Ho) as [H Hc]. split; [|exact Hc].
  eapply Forall_impl; [|exact H]. intros ce [He Hle]. split; [|split].
  - exact (safe_in_bounds _ _ _ He).
  - exact (safe_aligned _ _ _ He).
  - exact Hle.
Qed.

(* ... in particular from the fresh state (empty buffers), for every list of well-formed ops: the reachable states *)
Theorem C06_histories_from_fresh_partial : forall K pstF pstU ops,
  layout_ok 4 K pstF -> layout_ok 1 K pstU -> Forall cop_wf ops ->
  Forall cinv (cstates K pstF pstU c0 ops) /\
  Forall (fun ce => Forall (InBounds (ev_ext (ce_ev ce))) (ev_accs (ce_ev ce))) (ctrace K pstF pstU c0 ops).
Proof.
  intros K pstF pstU ops HF HU Ho.
  assert (H0 : cinv c0) by (unfold cinv, hwf, seq_shape, c0, h0; simpl; lia).
  destruct (ctrace_safe K pstF pstU HF HU ops c0 H0 Ho) as [H Hc]. split; [exact Hc|].
  eapply Forall_impl; [|exact H]. intros ce [He _]. exact (safe_in_bounds _ _ _ He).
Qed.

(* Corollary (WEAKER than the owned-rows statement above, kept because it is what a sanitizer can observe): every
   access of every step is inside the allocation of its buffer as it is at that step *)
Theorem C06_histories_allocation_partial : forall K pstF pstU ops s,
  layout_ok 4 K pstF -> layout_ok 1 K pstU ->
  cinv s -> Forall cop_wf ops ->
  Forall (fun ce => Forall (InBounds (ce_alloc ce)) (ev_accs (ce_ev ce))) (ctrace K pstF pstU s ops).
Proof.
  intros K pstF pstU ops s HF HU Hs Ho.
  destruct (ctrace_safe K pstF pstU HF HU ops s Hs Ho) as [H _].
  eapply Forall_impl; [|exact H]. intros ce [He Hle].
  pose proof (safe_in_bounds _ _ _ He) as Hb. rewrite Forall_forall in *. intros a Ha.
  eapply in_bounds_mono; [apply Hle | apply Hb; exact Ha].
Qed.

(* totality companions of the `... = Ok (Entered accs)` premises: exactly when a SIMD scoring wrapper enters ... *)
Theorem fp_score_guard_enters_iff : forall ranged p body,
  score_guard ranged p body = Ok (Entered (body tt)) <->
  (pM p <> 0 /\ pM p - 1 <= pwrap p /\ pM p <= pL p /\ pa p < pb p /\
   (ranged = true -> pb p + pM p - 1 <= pSR p)).
Proof.
  intros ranged p body. split.
  - intros H. apply score_guard_entered in H. tauto.
  - intros (H0 & Hw & HL & Hab & Hr). destruct ranged.
    + apply score_guard_total; auto.
    + unfold score_guard.
      assert (E0 : (pM p =? 0) = false) by (apply Z.eqb_neq; exact H0). rewrite E0.
      assert (E1 : (pwrap p <? pM p - 1) = false) by (apply Z.ltb_ge; lia). rewrite E1.
      assert (E2 : ((pL p <? pM p) || (pb p <=? pa p)) = false).
      { apply orb_false_iff. split; [apply Z.ltb_ge | apply Z.leb_gt]; lia. }
      rewrite E2. reflexivity.
Qed.

(* ... and along a history: once the sequence was configured for the motif (wrap >= M - 1) and is at least as long,
   the full-range call (`score_into`: rows 0 .. rows() - wrap()) never panics: it enters the kernel *)
Theorem fp_configured_full_range_scoring_enters : forall K pstF pstU s,
  cinv s -> 0 < hM (c_h s) -> hM (c_h s) <= hL (c_h s) -> hM (c_h s) - 1 <= hwrap (c_h s) ->
  let h := c_h s in
  wrap_score_u8_avx2 true (score_params K h pstU 0 (hSR h - hwrap h)) =
    Ok (Entered (fp_score_u8_avx2_shuffle (score_params K h pstU 0 (hSR h - hwrap h)))) /\
  wrap_score_sse2 true 32 (score_params K h pstF 0 (hSR h - hwrap h)) =
    Ok (Entered (fp_score_sse2 32 (score_params K h pstF 0 (hSR h - hwrap h)))).
Proof.
  intros K pstF pstU s (Hw & _ & _ & _ & Hsh) HM HL Hwr.
  exact (configured_full_range_enters K pstF pstU (c_h s) Hw Hsh HM HL Hwr).
Qed.

(* ... the other wrappers: max / argmax enter exactly on a non-empty matrix within the index limits, the encoders
   exactly when the destination has the length of the text *)
Theorem fp_max_wrappers_enter_iff : forall rows mi st C,
  (wrap_argmax_f32_avx2 rows mi st = Ok (Entered (fp_argmax_f32_avx2 rows st)) <-> (mi <= 4294967295 /\ rows <> 0)) /\
  (wrap_max_f32_avx2 rows st = Ok (Entered (fp_max_f32_avx2 rows st)) <-> rows <> 0) /\
  (wrap_argmax_u8_avx2 rows st = Ok (Entered (fp_argmax_u8_avx2 rows st)) <-> (rows <= 65536 /\ rows <> 0)) /\
  (wrap_max_u8_avx2 rows st = Ok (Entered (fp_max_u8_avx2 rows st)) <-> rows <> 0) /\
  (wrap_argmax_sse2 C rows mi st = Ok (Entered (fp_argmax_sse2 C rows st)) <-> (mi <= 4294967295 /\ rows <> 0)).
Proof.
  intros rows mi st C.
  unfold wrap_argmax_f32_avx2, wrap_max_f32_avx2, wrap_argmax_u8_avx2, wrap_max_u8_avx2, wrap_argmax_sse2.
  destruct (4294967295 <? mi) eqn:E1; [apply Z.ltb_lt in E1 | apply Z.ltb_ge in E1];
  (destruct (rows =? 0) eqn:E2; [apply Z.eqb_eq in E2 | apply Z.eqb_neq in E2]);
  (destruct (65536 <? rows) eqn:E3; [apply Z.ltb_lt in E3 | apply Z.ltb_ge in E3]);
  (split; [|split; [|split; [|split]]]); (split; [intros H; try discriminate; try lia; try (split; lia) | intros H; try reflexivity; try lia; try (destruct H; lia)]).
Qed.

Theorem fp_encode_wrapper_enters_iff : forall kern L Ld,
  wrap_encode kern L Ld = Ok (Entered (kern L)) <-> L = Ld.
Proof.
  intros kern L Ld. unfold wrap_encode. destruct (L =? Ld) eqn:E.
  - apply Z.eqb_eq in E. tauto.
  - apply Z.eqb_neq in E. split; [discriminate | tauto].
Qed.

(* a clone is an exact allocation (capacity = rows), whatever the history before it ... *)
Theorem fp_clone_allocation_exact : forall K pstF pstU s,
  c_scap (fst (cstep K pstF pstU s CCloneSeq)) = hSR (c_h (fst (cstep K pstF pstU s CCloneSeq))) /\
  c_h (fst (cstep K pstF pstU s CCloneSeq)) = c_h s /\
  c_fcap (fst (cstep K pstF pstU s CCloneScores)) = hFR (c_h s) /\
  c_ucap (fst (cstep K pstF pstU s CCloneScores)) = hUR (c_h s).
Proof. intros. repeat split; reflexivity. Qed.

(* ... scoring does not change it, and a configure_wrap that fits into the capacity keeps the allocation *)
Theorem fp_score_keeps_allocation : forall K pstF pstU s a lo hi nc,
  c_scap (fst (cstep K pstF pstU s (CBase (HScoreU8 a lo hi) nc))) = c_scap s /\
  c_scap (fst (cstep K pstF pstU s (CBase (HScoreF32 a lo hi) nc))) = c_scap s.
Proof. exact score_keeps_cap. Qed.

Theorem fp_configure_within_capacity_keeps_allocation : forall K pstF pstU s m nc,
  hSR (fst (hstep K pstF pstU (c_h s) (HConfigure m))) <= c_scap s ->
  c_scap (fst (cstep K pstF pstU s (CBase (HConfigure m) nc))) = c_scap s.
Proof. exact configure_within_capacity. Qed.

(* owned rows are inside the allocation of each of the three matrices of a scoring call *)
Theorem fp_owned_inside_allocation : forall es p scap pcap dcap a,
  0 < es -> 0 <= psst p -> 0 <= ppst p -> 0 <= pdst p ->
  pSR p <= scap -> pM p <= pcap -> pb p - pa p <= dcap ->
  InBounds (ext_score es p) a -> InBounds (alloc_score es p scap pcap dcap) a.
Proof.
  intros es p scap pcap dcap a He Hs Hp Hd H1 H2 H3. apply in_bounds_mono.
  apply ext_score_le_alloc; assumption.
Qed.

(* Seeded change C06/5 (software-pipelined score_u8_avx2_shuffle): whenever the range ends at the last row
   whose look-ahead fits (the full-range call on a sequence configured for exactly this motif), the variant
   loads row rows() of the sequence matrix: outside the rows the matrix owns ... *)
Theorem fp_pipelined_load_refuted : forall p accs,
  sp_nonneg p -> 0 < psst p -> pb p + pM p - 1 = pSR p ->
  wrap_score_u8_avx2_pipelined p = Ok (Entered accs) ->
  exists a, In a accs /\ ~ InBounds (ext_score 1 p) a.
Proof.
  intros p accs Hn Hs Hr H. unfold wrap_score_u8_avx2_pipelined in H.
  apply score_guard_entered in H. destruct H as [-> [H0 [_ [_ [Hab _]]]]].
  destruct Hn as [_ [_ [_ [_ HM]]]].
  exists (pipelined_stray p). split; [apply pipelined_stray_in; lia | apply pipelined_stray_not_owned; lia].
Qed.

(* ... and inside the ALLOCATION exactly when the Vec has a spare row: no sanitizer / guard page can see it on
   a sequence with spare capacity (stripe() reserves 32 extra rows), every one sees it on an exact allocation *)
Theorem fp_pipelined_load_inside_allocation_iff_spare_row : forall p accs scap pcap dcap,
  sp_nonneg p -> layout_ok 1 32 (psst p) -> pb p + pM p - 1 = pSR p ->
  wrap_score_u8_avx2_pipelined p = Ok (Entered accs) ->
  exists a, In a accs /\ (InBounds (alloc_score 1 p scap pcap dcap) a <-> pSR p < scap).
Proof.
  intros p accs scap pcap dcap Hn Hl Hr H. unfold wrap_score_u8_avx2_pipelined in H.
  apply score_guard_entered in H. destruct H as [-> [H0 [_ [_ [Hab _]]]]].
  pose proof Hn as [_ [_ [_ [_ HM]]]].
  exists (pipelined_stray p). split; [apply pipelined_stray_in; lia | apply pipelined_stray_alloc; auto].
Qed.

(* the witness the corpus runs (x1): 100 symbols striped by AVX2 (4 rows, capacity 36), motif of 5 rows,
   configure (8 rows), clone (capacity 8), 8-bit scores of rows 0..4 *)
Example fp_exact_allocation_witness :
  let ops := [CBase (HEncode AAvx2 100 100) 0; CBase (HStripe AAvx2) 36; CBase (HMotif 5) 0; CBase (HConfigure 4) 0] in
  let s := cfinal 5 8 32 c0 ops in
  let s' := fst (cstep 5 8 32 s CCloneSeq) in
  let p := score_params 5 (c_h s') 32 0 4 in
  cinv c0 /\ Forall cop_wf (ops ++ [CCloneSeq; CBase (HScoreU8 AAvx2 0 4) 0]) /\
  (hSR (c_h s), c_scap s, c_scap s') = (8, 36, 8) /\
  wrap_score_u8_avx2_pipelined p = Ok (Entered (fp_score_u8_avx2_pipelined p)) /\
  check_C06 (alloc_score 1 p (c_scap s) 5 4) balign_mat_src (fp_score_u8_avx2_pipelined p) = true /\
  check_C06 (alloc_score 1 p (c_scap s') 5 4) balign_mat_src (fp_score_u8_avx2_pipelined p) = false /\
  check_C06 (alloc_score 1 p (c_scap s') 5 4) balign_mat_src (fp_score_u8_avx2_shuffle p) = true /\
  map (fun ce => check_C06 (ev_ext (ce_ev ce)) (ev_al (ce_ev ce)) (ev_accs (ce_ev ce)) &&
                 check_C06 (ce_alloc ce) (ev_al (ce_ev ce)) (ev_accs (ce_ev ce)))
      (ctrace 5 8 32 c0 (ops ++ [CCloneSeq; CBase (HScoreU8 AAvx2 0 4) 0])) = [true; true; true] /\
  c_ucap (cfinal 5 8 32 c0 (ops ++ [CCloneSeq; CBase (HScoreU8 AAvx2 0 4) 7])) = 7.
Proof.
  cbv zeta. split; [unfold cinv, hwf, seq_shape, c0, h0; simpl; lia|].
  split; [repeat constructor; simpl; lia|].
  repeat split; vm_compute; reflexivity.
Qed.

(* Seeded change C06/6 at the level of the Vec: an uninitialised resize that reserves `rows - capacity` (counted by
   `Vec::reserve` from len) leaves rows() ABOVE capacity() as soon as the buffer has slack and the request exceeds the
   capacity by no more than the slack — the reuse history N rows, fewer, more than N of the corpus (y1-y8) — whatever
   std would have chosen; reserving from len (and the `Vec::resize_with` of the code) keeps rows() <= capacity(). *)
Theorem fp_resize_reserve_from_capacity_refuted : forall b n nc,
  0 <= cb_rows b < cb_cap b -> cb_cap b < n <= cb_cap b + (cb_cap b - cb_rows b) ->
  cb_cap (cb_resize_uninit_seeded b n nc) < cb_rows (cb_resize_uninit_seeded b n nc).
Proof. exact cb_resize_uninit_seeded_overflows. Qed.

Theorem fp_resize_holds_rows : forall b n nc,
  cb_rows (cb_resize b n nc) = n /\ n <= cb_cap (cb_resize b n nc).
Proof.
  intros b n nc. pose proof (cb_resize_fits b n nc) as H. rewrite cb_resize_rows in H.
  split; [apply cb_resize_rows | exact H].
Qed.

Theorem fp_resize_uninit_from_len_holds_rows : forall b n nc,
  0 <= cb_rows b <= cb_cap b -> 0 <= n ->
  cb_rows (cb_resize_uninit b n nc) <= cb_cap (cb_resize_uninit b n nc).
Proof. exact cb_resize_uninit_fits. Qed.

Example fp_resize_reuse_witness :
  let b := cb_resize (cb_resize (mkCB 0 0) 40 40) 7 0 in
  (b = mkCB 7 40) /\ (cb_resize_uninit_seeded b 50 0 = mkCB 50 40) /\
  (cb_resize b 50 80 = mkCB 50 80) /\ (cb_resize_uninit b 50 80 = mkCB 50 80).
Proof. vm_compute. repeat split; reflexivity. Qed.

(* ===================== B. initialisation ===================== *)

(* `StripedSequence::sample`: every cell of every row of the uninitialised matrix is written *)
Theorem fp_init_sample : forall C st L r c,
  0 <= r < sample_rows C L -> 0 <= c < C -> written (fp_sample C st L) B_DST (r * st + c).
Proof. exact sample_cells_written. Qed.

(* `DenseMatrix::from_rows` (repaired, 3ef236a): every byte of every cell of every row it exposes *)
Theorem fp_init_from_rows : forall es C st n m r c,
  0 <= r < from_rows_rows true n m -> 0 <= c < C * es ->
  written (fp_from_rows_accs es C st n m (-1)) B_DST (r * st * es + c).
Proof. exact from_rows_cells_written. Qed.

(* `DenseMatrix::resize` growing from rows0 to rows1: every cell of every new row *)
Theorem fp_init_resize : forall es C st rows0 rows1 r c,
  rows0 <= r < rows1 -> 0 <= c < C * es ->
  written (fp_resize es C st rows0 rows1) B_DST (r * st * es + c).
Proof. exact resize_cells_written. Qed.

(* `encode_raw` (`Vec::with_capacity` + `set_len`): the generic, AVX2, SSE2 and NEON encoders write every symbol *)
Theorem fp_init_encode_raw : forall L j, 0 <= j < L ->
  written (fp_encode_into_avx2 L) B_DST j /\ written (fp_encode_into_sse2 L) B_DST j /\
  written (fp_encode_generic L) B_DST j /\ written (fp_encode_into_neon L) B_DST j.
Proof.
  intros L j Hj. split; [|split; [|split]].
  - apply (encode_cells_written 32 false L j); lia.
  - unfold fp_encode_into_sse2. destruct (encode_cells_written 16 true L j ltac:(lia) Hj) as [a [Ha Hc]].
    exists a. split; [apply in_or_app; left; exact Ha | exact Hc].
  - exists (wr B_DST j 1 1). split; [|apply covers_wr; lia].
    unfold fp_encode_generic. apply in_flat_map. exists j. split; [apply In_zrange; lia|]. right. left. reflexivity.
  - apply (encode_cells_written 64 true L j); lia.
Qed.

(* striping (generic code and stripe_avx2, whose `stripe()` starts from `with_capacity`): every cell of every row *)
Theorem fp_init_stripe_generic : forall C L ost r c,
  0 <= L -> 0 <= r < gstripe_rows C L -> 0 <= c < C ->
  written (fp_stripe_generic C L ost) B_DST (r * ost + c).
Proof. exact stripe_generic_cells_written. Qed.

Theorem fp_init_stripe_avx2 : forall L ost r c,
  0 <= L -> 0 <= r < stripe_rows L -> 0 <= c < 32 ->
  written (fp_stripe_avx2 L ost) B_DST (r * ost + c).
Proof. exact stripe_avx2_cells_written. Qed.

(* the checker is not vacuous: from_rows before the repair (rows() = len() = 4, one row yielded) exposes row 1,
   no byte of which is written *)
Theorem fp_init_from_rows_old_refuted :
  from_rows_rows false 4 1 = 4 /\
  forall c, 0 <= c < 5 * 4 -> ~ written (fp_from_rows_accs 4 5 8 4 1 (-1)) B_DST (1 * 8 * 4 + c).
Proof.
  split; [reflexivity|]. intros c Hc [a [Ha [_ [_ Hr]]]].
  vm_compute in Ha. destruct Ha as [<-|[]]. cbn [aoff awidth] in Hr. lia.
Qed.

(* ===================== C. raw pointers of the Python module ===================== *)

(* with both keep-alive fields (`pssm: Py<ScoringMatrix>`, `sequence: Py<StripedSequence>` — pinned as
   `struct Scanner`) the cells behind the Scanner's transmuted `'static` references are alive at every `next` *)
Theorem fp_py_scanner_cells_alive : forall ops s,
  Forall scan_ok (ptrace true true s ops).
Proof. exact ptrace_scan_ok. Qed.

(* without the `pssm` field (seeded change C17/4) the matrix cell dies with its last variable *)
Theorem fp_py_scanner_without_keepalive_refuted : forall rows cap m,
  ptrace false true (p0 rows cap) [PScannerNew m; PDelPssm; PScannerNext] = [EScan false true].
Proof. exact scanner_without_keepalive. Qed.

(* `view.obj = _Py_NewRef(slf)`: a view keeps its exporter alive, whatever the scanner keeps *)
Theorem fp_py_view_keeps_exporter : forall kp ks ops s,
  Forall view_owner_ok (ptrace kp ks s ops).
Proof. exact ptrace_view_owner_ok. Qed.

(* ... but nothing pins the Vec buffer inside the cell: a memoryview of a StripedSequence taken before a call that
   configures it beyond its capacity points into the previous buffer (finding F24 family, C18_stale_view_refuted) *)
Theorem fp_py_view_stale_after_configure_refuted : forall kp ks rows cap m,
  0 < m -> cap < rows + m ->
  ptrace kp ks (p0 rows cap) [PView; PConfigure m; PReadView 0] = [EView true 0 1].
Proof. exact view_stale_after_configure. Qed.

(* extents: the shape / strides the `__getbuffer__`s export — the formulas regenerated from lib.rs — let a consumer
   reach only bytes of the rows the matrix owns (R rows of stride S elements) *)
Theorem fp_py_striped_view_inside_rows : forall R C S,
  0 < C <= S -> 0 <= R ->
  view_reach2 (fst (gen_striped_shape R C S)) (snd (gen_striped_shape R C S))
              (fst (gen_striped_strides R C S)) (snd (gen_striped_strides R C S)) 1 <= R * S * 1.
Proof.
  intros R C S HC HR. unfold gen_striped_shape, gen_striped_strides, view_reach2. cbn [fst snd].
  destruct ((C <=? 0) || (R <=? 0)) eqn:E; [nia|].
  apply orb_false_iff in E. destruct E as [E1 E2]. apply Z.leb_gt in E1, E2. nia.
Qed.

Theorem fp_py_scoring_view_inside_rows : forall R K S,
  0 < K <= S -> 0 <= R ->
  view_reach2 (fst (gen_scoring_shape R K S)) (snd (gen_scoring_shape R K S))
              (fst (gen_scoring_strides R K S)) (snd (gen_scoring_strides R K S)) 4 <= R * S * 4.
Proof.
  intros R K S HK HR. unfold gen_scoring_shape, gen_scoring_strides, view_reach2. cbn [fst snd].
  destruct ((R <=? 0) || (K <=? 0)) eqn:E; [nia|].
  apply orb_false_iff in E. destruct E as [E1 E2]. apply Z.leb_gt in E1, E2. nia.
Qed.

Theorem fp_py_scores_view_inside_rows : forall R C S,
  0 < C <= S -> 0 <= R ->
  view_reach2 (fst (gen_scores_shape R C S)) (snd (gen_scores_shape R C S))
              (fst (gen_scores_strides R C S)) (snd (gen_scores_strides R C S)) 4 <= R * S * 4.
Proof.
  intros R C S HC HR. unfold gen_scores_shape, gen_scores_strides, view_reach2. cbn [fst snd].
  destruct ((C <=? 0) || (R <=? 0)) eqn:E; [nia|].
  apply orb_false_iff in E. destruct E as [E1 E2]. apply Z.leb_gt in E1, E2. nia.
Qed.

(* the bound is tight: one more row in the exported shape reaches past the owned rows *)
Theorem fp_py_view_extent_tight : forall R C S,
  0 < C <= S -> 0 <= R -> R * S * 1 < view_reach2 C (R + 1) 1 S 1.
Proof.
  intros R C S HC HR. unfold view_reach2.
  destruct ((C <=? 0) || (R + 1 <=? 0)) eqn:E.
  - apply orb_true_iff in E. destruct E as [E|E]; apply Z.leb_le in E; lia.
  - nia.
Qed.

(* ===================== D. the guards in usize arithmetic ===================== *)

(* The code computes `rows.end + pssm.rows() - 1 > seq.matrix().rows()` in usize (FpUsize.score_guard_usize:
   panic of the overflow check in the dev profile, wrap-around in release, then `scores.resize` and the checked index
   `seq.matrix()[i]` of the kernel).  For every call (usize_ok: usize arguments, wrap <= rows, the sequence matrix is
   one allocation) it enters the kernel only when the Z guard of FpModel.v does, with the same footprint ... *)
Theorem fp_usize_guard_enters_only_when_Z_guard_does : forall release rb p body accs,
  usize_ok rb p ->
  score_guard_usize release rb p body = Ok (Entered accs) ->
  score_guard true p body = Ok (Entered accs).
Proof. exact score_guard_usize_entered. Qed.

(* ... panics whenever the Z guard panics (possibly elsewhere: overflow check, capacity overflow, checked index) ... *)
Theorem fp_usize_guard_panics_when_Z_guard_panics : forall release rb p body n,
  usize_ok rb p -> score_guard true p body = Panic n ->
  exists n', score_guard_usize release rb p body = Panic n'.
Proof. exact score_guard_usize_panics. Qed.

(* ... returns early in exactly the same cases, and where the Z guard enters it enters too unless the score rows do
   not fit into one allocation (`capacity overflow` panic of resize) *)
Theorem fp_usize_guard_skips_iff : forall release rb p body,
  score_guard_usize release rb p body = Ok Skipped <-> score_guard true p body = Ok Skipped.
Proof. exact score_guard_usize_skipped. Qed.

Theorem fp_usize_guard_enters_unless_capacity_overflow : forall release rb p body accs,
  usize_ok rb p -> score_guard true p body = Ok (Entered accs) ->
  score_guard_usize release rb p body = Ok (Entered accs) \/
  (ISIZE_MAX < (pb p - pa p) * rb /\ score_guard_usize release rb p body = Panic 12).
Proof. exact score_guard_usize_enters. Qed.

(* hence the kernels are safe under the guards AS COMPUTED BY THE CODE, in both profiles (u8 and f32 AVX2, SSE2) *)
Theorem fp_score_kernels_safe_under_usize_guards : forall release rb p accs,
  usize_ok rb p -> sp_nonneg p -> layout_ok 1 32 (psst p) ->
  (layout_ok 1 (pK p) (ppst p) -> layout_ok 1 32 (pdst p) ->
   score_guard_usize release rb p (fun _ => fp_score_u8_avx2_shuffle p) = Ok (Entered accs) ->
   Forall (Safe (ext_score 1 p) balign_mat_src) accs) /\
  (layout_ok 4 (pK p) (ppst p) -> layout_ok 4 32 (pdst p) ->
   score_guard_usize release rb p (fun _ => fp_score_f32_avx2_permute p) = Ok (Entered accs) ->
   Forall (Safe (ext_score 4 p) balign_mat_src) accs) /\
  (layout_ok 4 (pK p) (ppst p) -> layout_ok 4 32 (pdst p) ->
   score_guard_usize release rb p (fun _ => fp_score_f32_avx2_gather p) = Ok (Entered accs) ->
   Forall (Safe (ext_score 4 p) balign_mat_src) accs) /\
  (layout_ok 4 (pK p) (ppst p) -> layout_ok 4 32 (pdst p) ->
   score_guard_usize release rb p (fun _ => fp_score_sse2 32 p) = Ok (Entered accs) ->
   Forall (Safe (ext_score 4 p) balign_mat_src) accs).
Proof.
  intros release rb p accs Hok Hn Hs. repeat split; intros Hp Hd H;
    apply (score_guard_usize_entered release rb p _ accs Hok) in H.
  - exact (wrap_score_u8_safe p accs Hn Hs Hp Hd H).
  - apply score_guard_entered in H. destruct H as [-> [_ [_ [_ [_ Hr]]]]].
    apply score_permute_body_safe; auto.
  - exact (wrap_score_gather_safe p accs Hn Hs Hp Hd H).
  - exact (wrap_score_sse2_safe 32 p accs Hn Hs Hp Hd H).
Qed.

(* the corner the Z guard hides: rows = (usize::MAX - 1)..usize::MAX, M = 2 on a sequence of 8 rows — overflow-check
   panic in the dev profile; in release the sum wraps to 0, the guard PASSES, resize(1), and the checked index of the
   kernel panics before any raw access (corpus u1-u5) *)
Example fp_usize_wrap_witness :
  let p := mkSP 5 100 8 4 2 18446744073709551614 18446744073709551615 32 32 32 in
  usize_ok 32 p /\
  score_guard true p (fun _ => fp_score_u8_avx2_shuffle p) = Panic 4 /\
  score_guard_usize false 32 p (fun _ => fp_score_u8_avx2_shuffle p) = Panic 11 /\
  score_guard_usize true 32 p (fun _ => fp_score_u8_avx2_shuffle p) = Panic 13 /\
  (pb p + pM p - 1) mod USIZE = 0.
Proof.
  cbv zeta. split; [unfold usize_ok, USIZE, ISIZE_MAX; simpl; lia|].
  repeat split; vm_compute; reflexivity.
Qed.

Check C06_histories_invariant_partial.
Check fp_pipelined_load_inside_allocation_iff_spare_row.
