(* Footprint-level model of the raw pointers of the Python module (lightmotif-py/lightmotif/lib.rs):
   what they may touch and for how long.

   Two kinds of raw pointers leave the borrow checker there (all pinned by translate/footprint_src.py):

   * the buffer protocol: the five `__getbuffer__` store in the `Py_buffer` a pointer into the Vec buffer
     of the exporting object (`as_ptr` / `ravel().as_ptr()` / `sf().as_ptr()`), the extent a consumer may
     walk (shape, strides, itemsize) and `view.obj = _Py_NewRef(slf)`: the view holds a STRONG reference
     to the exporter, so the PyCell outlives the view; nothing pins the Vec BUFFER inside the cell;
   * the Scanner: `Scanner::__init__` builds a `lightmotif::scan::Scanner` borrowing the contents of the
     ScoringMatrix cell and of the StripedSequence cell and transmutes the borrows to `'static`; the struct
     keeps `pssm: Py<ScoringMatrix>` and `sequence: Py<StripedSequence>` (strong references) next to it.
     The references point to the structs INSIDE the cells (stable addresses); the matrix buffer is reached
     through the struct at every use, so a reallocation by `configure` is followed, not dangled.

   A cell is freed exactly when its strong count reaches zero (CPython reference counting; holding the GIL).
   The model: one ScoringMatrix cell P, one StripedSequence cell S whose buffer has a generation number
   (incremented by every reallocation), views of S, at most one scanner.  `keep_p` / `keep_s` say which
   keep-alive fields the Scanner struct has (the code: both; seeded change C17/4 drops `pssm`).

   Executable definitions only. *)
From Coq Require Import List ZArith Bool Arith.
From LMFootprint Require Import FpModel.
Import ListNotations.
Open Scope Z_scope.

Record pstate := mkP {
  p_vars : nat;          (* Python variables (strong references) naming the ScoringMatrix *)
  s_vars : nat;          (* ... naming the StripedSequence *)
  views : list nat;      (* live memoryviews of S: the buffer generation each one points into *)
  scanner : bool;        (* a Scanner object is alive *)
  s_gen : nat;           (* generation of S's Vec buffer *)
  s_rows : Z; s_cap : Z; s_wrap : Z
}.

Inductive pop :=
| PDelPssm | PDelSeq               (* `del` of one variable naming the object *)
| PView | PRelease (k : nat)       (* memoryview(S) / release of the k-th view *)
| PReadView (k : nat)              (* the consumer reads through the k-th view *)
| PConfigure (m : Z)               (* any call that runs S.configure_wrap(m): calculate(), Scanner(), scan() *)
| PScannerNew (m : Z)              (* Scanner(P, S): configure_wrap(m) + transmute *)
| PScannerNext                     (* next(scanner): reads *P, *S and S's current buffer *)
| PDelScanner.

(* what an access touched: were the cells it goes through alive, is the buffer generation it points into
   the current one *)
Inductive pev :=
| EScan (p_live s_live : bool)
| EView (s_live : bool) (g_view g_now : nat).

Definition pev_ok (e : pev) : bool :=
  match e with
  | EScan p s => p && s
  | EView s g g' => s && Nat.eqb g g'
  end.

Section Py.
  Variables keep_p keep_s : bool.

  Definition p_count (s : pstate) : nat := p_vars s + (if scanner s && keep_p then 1 else 0)%nat.
  Definition s_count (s : pstate) : nat :=
    s_vars s + length (views s) + (if scanner s && keep_s then 1 else 0)%nat.
  Definition p_live (s : pstate) : bool := Nat.ltb 0 (p_count s).
  Definition s_live (s : pstate) : bool := Nat.ltb 0 (s_count s).

  (* configure_wrap(m): `if m > wrap { data.resize(rows + m - wrap) }`; Vec::resize beyond the capacity
     reallocates (new generation) *)
  Definition py_configure (s : pstate) (m : Z) : pstate :=
    let '(r, w) := configure_wrap_model (s_rows s) (s_wrap s) m in
    if s_cap s <? r
    then mkP (p_vars s) (s_vars s) (views s) (scanner s) (S (s_gen s)) r r w
    else mkP (p_vars s) (s_vars s) (views s) (scanner s) (s_gen s) r (s_cap s) w.

  Fixpoint remove_nth {A} (k : nat) (l : list A) : list A :=
    match l, k with
    | [], _ => []
    | _ :: r, O => r
    | x :: r, S k' => x :: remove_nth k' r
    end.

  (* an op that needs a reference to an object can only be issued while a variable names it *)
  Definition pstep (s : pstate) (o : pop) : pstate * list pev :=
    match o with
    | PDelPssm => (mkP (pred (p_vars s)) (s_vars s) (views s) (scanner s) (s_gen s) (s_rows s) (s_cap s) (s_wrap s), [])
    | PDelSeq => (mkP (p_vars s) (pred (s_vars s)) (views s) (scanner s) (s_gen s) (s_rows s) (s_cap s) (s_wrap s), [])
    | PView =>
        if Nat.ltb 0 (s_vars s)
        then (mkP (p_vars s) (s_vars s) (views s ++ [s_gen s]) (scanner s) (s_gen s) (s_rows s) (s_cap s) (s_wrap s), [])
        else (s, [])
    | PRelease k =>
        (mkP (p_vars s) (s_vars s) (remove_nth k (views s)) (scanner s) (s_gen s) (s_rows s) (s_cap s) (s_wrap s), [])
    | PReadView k =>
        match nth_error (views s) k with
        | Some g => (s, [EView (s_live s) g (s_gen s)])
        | None => (s, [])
        end
    | PConfigure m => if Nat.ltb 0 (s_vars s) then (py_configure s m, []) else (s, [])
    | PScannerNew m =>
        if Nat.ltb 0 (s_vars s) && Nat.ltb 0 (p_vars s) && negb (scanner s)
        then let s' := py_configure s m in
             (mkP (p_vars s') (s_vars s') (views s') true (s_gen s') (s_rows s') (s_cap s') (s_wrap s'), [])
        else (s, [])
    | PScannerNext => if scanner s then (s, [EScan (p_live s) (s_live s)]) else (s, [])
    | PDelScanner => (mkP (p_vars s) (s_vars s) (views s) false (s_gen s) (s_rows s) (s_cap s) (s_wrap s), [])
    end.

  Fixpoint ptrace (s : pstate) (ops : list pop) : list pev :=
    match ops with
    | [] => []
    | o :: r => let '(s', ev) := pstep s o in ev ++ ptrace s' r
    end.
End Py.

(* a fresh interpreter state: one variable for each object, a sequence of `rows` rows with `cap` capacity *)
Definition p0 (rows cap : Z) : pstate := mkP 1 1 [] false 0 rows cap 0.

(* ---------- the extent a consumer of a view may reach ----------
   2-d view: shape (n0, n1), strides (t0, t1) in bytes, items of `es` bytes; 1-d view: len bytes *)
Definition view_reach2 (n0 n1 t0 t1 es : Z) : Z :=
  if (n0 <=? 0) || (n1 <=? 0) then 0 else (n0 - 1) * t0 + (n1 - 1) * t1 + es.
