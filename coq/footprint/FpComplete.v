(* The executable checker is complete on the model: whenever the guards of the safe wrappers
   let a kernel run, check_C06 (= all_ok) ACCEPTS the kernel's footprint — the property theorem
   in executable form, along every history.  (Soundness of the checker is check_C06_sound.) *)
From Coq Require Import List ZArith Bool Lia.
From LMBase Require Import Res.
From LMFootprint Require Import FpModel FpProofs FpHistory FpHistoryProofs.
Import ListNotations.
Open Scope Z_scope.

(* every access of the model names a positive alignment requirement (1 = none) *)
Definition PosAl (l : list access) : Prop := Forall (fun a => 0 < aalign a) l.

Lemma acc_ok_complete ext balign a :
  Safe ext balign a -> 0 < aalign a -> 0 < balign (abuf a) -> acc_ok ext balign a = true.
Proof.
  intros [[H1 [H2 H3]] HA] Hal Hb. unfold acc_ok.
  apply Z.leb_le in H1. apply Z.leb_le in H2. apply Z.leb_le in H3.
  rewrite H1, H2, H3. cbn [andb].
  destruct (aalign a =? 1) eqn:E1; [reflexivity|]. cbn [orb].
  assert (Ho : aoff a mod aalign a = 0).
  { specialize (HA 0). rewrite Z.mod_0_l in HA by lia. rewrite Z.add_0_l in HA. apply HA. reflexivity. }
  assert (Hbm : balign (abuf a) mod aalign a = 0).
  { specialize (HA (balign (abuf a))). rewrite Z_mod_same_full in HA. specialize (HA eq_refl).
    apply Z.mod_divide in HA; [|lia]. apply Z.mod_divide in Ho; [|lia].
    apply Z.mod_divide; [lia|].
    replace (balign (abuf a)) with ((balign (abuf a) + aoff a) - aoff a) by ring.
    apply Z.divide_sub_r; assumption. }
  apply Z.ltb_lt in Hal. rewrite Hal. apply Z.eqb_eq in Ho. apply Z.eqb_eq in Hbm. rewrite Ho, Hbm. reflexivity.
Qed.

Lemma all_ok_complete ext balign l :
  Forall (Safe ext balign) l -> PosAl l -> (forall b, 0 < balign b) -> all_ok ext balign l = true.
Proof.
  intros HS HP Hb. unfold all_ok. apply forallb_forall. intros a Ha.
  unfold PosAl in HP. rewrite Forall_forall in HS, HP. apply acc_ok_complete; auto.
Qed.

(* ---------- alignment requirements of every footprint are positive ---------- *)

Ltac pos_al Ha :=
  apply Forall_forall; intros a Ha;
  repeat (cbv zeta in Ha); destr_in; subst; cbn [aalign rd wr]; try lia.

Lemma posal_encode_simd W strict L : PosAl (fp_encode_simd W strict L).
Proof. unfold PosAl, fp_encode_simd. pos_al Ha. Qed.

Lemma posal_encode_generic L : PosAl (fp_encode_generic L).
Proof. unfold PosAl, fp_encode_generic. pos_al Ha. Qed.

Lemma posal_enc_kernel a L : PosAl (enc_kernel a L).
Proof.
  destruct a; simpl.
  - apply posal_encode_generic.
  - unfold fp_encode_into_sse2. apply Forall_app. split; [apply posal_encode_simd|].
    constructor; [simpl; lia | constructor].
  - apply posal_encode_simd.
Qed.

Lemma posal_stripe_avx2 L ost : PosAl (fp_stripe_avx2 L ost).
Proof.
  unfold PosAl, fp_stripe_avx2, fp_stripe_avx2_gen, stripe_block, stripe_tail, stripe_fill. pos_al Ha.
Qed.

Lemma posal_stripe_generic C L ost : PosAl (fp_stripe_generic C L ost).
Proof. unfold PosAl, fp_stripe_generic. pos_al Ha. Qed.

Lemma posal_sample C st L : PosAl (fp_sample C st L).
Proof. unfold PosAl, fp_sample. pos_al Ha. Qed.

Lemma posal_permute p : PosAl (fp_score_f32_avx2_permute p).
Proof. unfold PosAl, fp_score_f32_avx2_permute. pos_al Ha. Qed.

Lemma posal_gather p : PosAl (fp_score_f32_avx2_gather p).
Proof. unfold PosAl, fp_score_f32_avx2_gather. pos_al Ha. Qed.

Lemma posal_u8 p : PosAl (fp_score_u8_avx2_shuffle p).
Proof. unfold PosAl, fp_score_u8_avx2_shuffle. pos_al Ha. Qed.

Lemma posal_sse2 C p : PosAl (fp_score_sse2 C p).
Proof. unfold PosAl, fp_score_sse2. pos_al Ha. Qed.

Lemma posal_argmax_f32 rows st : PosAl (fp_argmax_f32_avx2 rows st).
Proof. unfold PosAl, fp_argmax_f32_avx2, f32_row_loads. pos_al Ha. Qed.

Lemma posal_max_f32 rows st : PosAl (fp_max_f32_avx2 rows st).
Proof. unfold PosAl, fp_max_f32_avx2, f32_row_loads. pos_al Ha. Qed.

Lemma posal_argmax_u8 rows st : PosAl (fp_argmax_u8_avx2 rows st).
Proof. unfold PosAl, fp_argmax_u8_avx2. pos_al Ha. Qed.

Lemma posal_max_u8 rows st : PosAl (fp_max_u8_avx2 rows st).
Proof. unfold PosAl, fp_max_u8_avx2. pos_al Ha. Qed.

Lemma posal_argmax_sse2 C rows st : PosAl (fp_argmax_sse2 C rows st).
Proof. unfold PosAl, fp_argmax_sse2. pos_al Ha. Qed.

(* ---------- the accesses of whatever a wrapper enters ---------- *)

Definition kr_accs (r : res kernel_run) : list access :=
  match r with Ok (Entered l) => l | _ => [] end.

Lemma posal_nil : PosAl []. Proof. constructor. Qed.

Lemma posal_score_guard ranged p body :
  PosAl (body tt) -> PosAl (kr_accs (score_guard ranged p body)).
Proof.
  intros H. unfold score_guard.
  repeat match goal with |- context [if ?c then _ else _] => destruct c end; simpl; auto using posal_nil.
Qed.

Lemma posal_wrap_encode a L Ld : PosAl (kr_accs (wrap_encode (enc_kernel a) L Ld)).
Proof. unfold wrap_encode. destruct (L =? Ld); simpl; [apply posal_enc_kernel | apply posal_nil]. Qed.

Lemma posal_wrap_f32_avx2 p : PosAl (kr_accs (wrap_score_f32_avx2 true p)).
Proof.
  unfold wrap_score_f32_avx2, wrap_score_f32_avx2_permute, wrap_score_f32_avx2_gather.
  destruct (pK p <=? 8).
  - destruct (8 <? pK p); [apply posal_nil|]. apply posal_score_guard. apply posal_permute.
  - apply posal_score_guard. apply posal_gather.
Qed.

Lemma posal_wrap_u8_avx2 p : PosAl (kr_accs (wrap_score_u8_avx2 true p)).
Proof. apply posal_score_guard. apply posal_u8. Qed.

Lemma posal_wrap_sse2 C p : PosAl (kr_accs (wrap_score_sse2 true C p)).
Proof. apply posal_score_guard. apply posal_sse2. Qed.

Lemma posal_wrap_generic p : PosAl (kr_accs (wrap_score_generic p)).
Proof.
  unfold wrap_score_generic.
  repeat match goal with |- context [if ?c then _ else _] => destruct c end; simpl; apply posal_nil.
Qed.

Lemma posal_wrap_argmax_f32 rows mi st : PosAl (kr_accs (wrap_argmax_f32_avx2 rows mi st)).
Proof.
  unfold wrap_argmax_f32_avx2.
  repeat match goal with |- context [if ?c then _ else _] => destruct c end; simpl;
    auto using posal_nil, posal_argmax_f32.
Qed.

Lemma posal_wrap_max_f32 rows st : PosAl (kr_accs (wrap_max_f32_avx2 rows st)).
Proof.
  unfold wrap_max_f32_avx2.
  repeat match goal with |- context [if ?c then _ else _] => destruct c end; simpl;
    auto using posal_nil, posal_max_f32.
Qed.

Lemma posal_wrap_argmax_u8 rows st : PosAl (kr_accs (wrap_argmax_u8_avx2 rows st)).
Proof.
  unfold wrap_argmax_u8_avx2.
  repeat match goal with |- context [if ?c then _ else _] => destruct c end; simpl;
    auto using posal_nil, posal_argmax_u8.
Qed.

Lemma posal_wrap_max_u8 rows st : PosAl (kr_accs (wrap_max_u8_avx2 rows st)).
Proof.
  unfold wrap_max_u8_avx2.
  repeat match goal with |- context [if ?c then _ else _] => destruct c end; simpl;
    auto using posal_nil, posal_max_u8.
Qed.

Lemma posal_wrap_argmax_sse2 C rows mi st : PosAl (kr_accs (wrap_argmax_sse2 C rows mi st)).
Proof.
  unfold wrap_argmax_sse2.
  repeat match goal with |- context [if ?c then _ else _] => destruct c end; simpl;
    auto using posal_nil, posal_argmax_sse2.
Qed.

(* ---------- events ---------- *)

Definition ev_pos (e : fp_event) : Prop := PosAl (ev_accs e) /\ forall b, 0 < ev_al e b.

Lemma balign_slices_pos b : 0 < balign_slices b. Proof. unfold balign_slices. lia. Qed.
Lemma balign_stripe_pos b : 0 < balign_stripe b.
Proof. unfold balign_stripe. destruct (Nat.eqb b B_DST); lia. Qed.
Lemma balign_mat_pos b : 0 < balign_mat_src b.
Proof. unfold balign_mat_src. repeat match goal with |- context [if ?c then _ else _] => destruct c end; lia. Qed.
Lemma balign_all32_pos b : 0 < balign_all32 b. Proof. unfold balign_all32. lia. Qed.

(* an event list built from the result of a wrapper *)
Lemma ev_pos_of_kr (g : res kernel_run) ext al (s s0 s1 s2 : hstate) :
  PosAl (kr_accs g) -> (forall b, 0 < al b) ->
  Forall ev_pos (snd (match g with
                      | Ok (Entered accs) => (s1, [mkEv ext al accs])
                      | Ok Skipped => (s0, [])
                      | Panic _ => (s2, [])
                      | _ => (s, [])
                      end)).
Proof.
  intros HP Hal. destruct g as [[|accs]| | |]; simpl; try constructor.
  - split; simpl; auto.
  - constructor.
Qed.

Lemma hstep_pos K pstF pstU s o : Forall ev_pos (snd (hstep K pstF pstU s o)).
Proof.
  destruct o as [a L Ld | a | L | m | M | a lo hi | a lo hi | n mi | a | a | a | a]; unfold hstep.
  - (* encode *)
    pose proof (posal_wrap_encode a L Ld) as HP.
    destruct (wrap_encode (enc_kernel a) L Ld) as [[|accs]| | |]; simpl; try constructor.
    + split; simpl; [exact HP | exact balign_slices_pos].
    + constructor.
  - (* stripe *)
    destruct a; simpl; (constructor; [|constructor]); split; simpl;
      auto using posal_stripe_generic, posal_stripe_avx2, balign_stripe_pos.
  - (* sample *)
    simpl. constructor; [|constructor]. split; simpl; auto using posal_sample, balign_all32_pos.
  - (* configure *)
    destruct (configure_wrap_model (hSR s) (hwrap s) m). simpl. constructor.
  - simpl. constructor.
  - (* f32 scoring *)
    destruct a; apply ev_pos_of_kr;
      auto using posal_wrap_generic, posal_wrap_sse2, posal_wrap_f32_avx2, balign_mat_pos.
  - (* u8 scoring *)
    destruct a; apply ev_pos_of_kr; auto using posal_wrap_generic, posal_wrap_u8_avx2, balign_mat_pos.
  - simpl. constructor.
  - (* argmax f32 *)
    destruct a; simpl; try constructor.
    + pose proof (posal_wrap_argmax_sse2 32 (hFR s) (hFI s) 32) as HP.
      destruct (wrap_argmax_sse2 32 (hFR s) (hFI s) 32) as [[|accs]| | |]; simpl; try constructor.
      * split; simpl; [exact HP | exact balign_mat_pos].
      * constructor.
    + pose proof (posal_wrap_argmax_f32 (hFR s) (hFI s) 32) as HP.
      destruct (wrap_argmax_f32_avx2 (hFR s) (hFI s) 32) as [[|accs]| | |]; simpl; try constructor.
      * split; simpl; [exact HP | exact balign_mat_pos].
      * constructor.
  - (* max f32 *)
    destruct a; simpl; try constructor.
    + pose proof (posal_wrap_argmax_sse2 32 (hFR s) (hFI s) 32) as HP.
      destruct (wrap_argmax_sse2 32 (hFR s) (hFI s) 32) as [[|accs]| | |]; simpl; try constructor.
      * split; simpl; [exact HP | exact balign_mat_pos].
      * constructor.
    + pose proof (posal_wrap_max_f32 (hFR s) 32) as HP.
      destruct (wrap_max_f32_avx2 (hFR s) 32) as [[|accs]| | |]; simpl; try constructor.
      * split; simpl; [exact HP | exact balign_mat_pos].
      * constructor.
  - (* argmax u8 *)
    destruct a; simpl; try constructor.
    pose proof (posal_wrap_argmax_u8 (hUR s) 32) as HP.
    destruct (wrap_argmax_u8_avx2 (hUR s) 32) as [[|accs]| | |]; simpl; try constructor.
    + split; simpl; [exact HP | exact balign_mat_pos].
    + constructor.
  - (* max u8 *)
    destruct a; simpl; try constructor.
    pose proof (posal_wrap_max_u8 (hUR s) 32) as HP.
    destruct (wrap_max_u8_avx2 (hUR s) 32) as [[|accs]| | |]; simpl; try constructor.
    + split; simpl; [exact HP | exact balign_mat_pos].
    + constructor.
Qed.

Lemma htrace_pos K pstF pstU ops : forall s, Forall ev_pos (htrace K pstF pstU s ops).
Proof.
  induction ops as [|o r IH]; intros s; simpl; [constructor|].
  pose proof (hstep_pos K pstF pstU s o) as H.
  destruct (hstep K pstF pstU s o) as [s' ev]. simpl in H. apply Forall_app. split; auto.
Qed.

Lemma htrace_passes K pstF pstU ops s :
  layout_ok 4 K pstF -> layout_ok 1 K pstU -> hwf s -> Forall hop_wf ops ->
  Forall (fun e => check_C06 (ev_ext e) (ev_al e) (ev_accs e) = true) (htrace K pstF pstU s ops).
Proof.
  intros HF HU Hs Ho.
  destruct (htrace_safe K pstF pstU HF HU ops s Hs Ho) as [HS _].
  pose proof (htrace_pos K pstF pstU ops s) as HP.
  rewrite Forall_forall in *. intros e He.
  destruct (HP e He) as [H1 H2]. unfold check_C06. apply all_ok_complete; auto. apply HS; auto.
Qed.
