(* Allocations: rows() versus capacity().

   The extents of FpModel.v count the rows a matrix OWNS (rows() * stride); the allocation behind a
   DenseMatrix is a Vec of capacity() >= rows() rows.  An access to row rows() of a matrix with spare
   capacity stays inside the allocation (no sanitizer sees it unless the spare rows are poisoned); with
   capacity() = rows() it leaves it.  This file makes the capacity of the sequence matrix explicit:

   * `cbuf`: (rows, capacity) of a matrix; `cb_resize` (Vec::resize: the allocation is kept when the new
     row count fits, otherwise std chooses a new capacity >= the row count — amortised growth is a detail
     of std, the chosen capacity is an input of the model: `newcap`); `cb_clone` (Vec::clone allocates
     exactly len elements: the copy of a configured sequence has NO spare row);
   * `cstate`/`cop`/`cstep`/`cstates`: the histories of FpHistory.v with the capacity of the sequence matrix and of
     both score matrices, the ops `clone` (sequence / scores) and `StripedSequence::new(DenseMatrix::new(rows), L)`;
     every footprint event carries the extents of the ALLOCATIONS as they are at that step (`cev`, `ce_alloc`);
     `cb_reserve`, `cb_resize_uninit(_seeded)`: the Vec-level content of seeded change C06/6;
   * `fp_score_u8_avx2_pipelined`: the software-pipelined variant of score_u8_avx2_shuffle of seeded change
     C06/5 (fetches sequence row i + M per scored row i, value unused) — the reason the check runs histories on
     exact allocations (FpCapProofs.v: it is inside the allocation exactly when a spare row exists).

   Executable definitions only. *)
From Coq Require Import List ZArith Bool.
From LMBase Require Import Res.
From LMFootprint Require Import FpModel FpHistory.
Import ListNotations.
Open Scope Z_scope.

Record cbuf := mkCB { cb_rows : Z; cb_cap : Z }.

(* `DenseMatrix::resize(n)` = `Vec::resize_with(n, ..)` *)
Definition cb_resize (b : cbuf) (n newcap : Z) : cbuf :=
  if n <=? cb_cap b then mkCB n (cb_cap b) else mkCB n (Z.max n newcap).

(* `clone()`: `Vec::clone` -> `with_capacity(len)` *)
Definition cb_clone (b : cbuf) : cbuf := mkCB (cb_rows b) (cb_rows b).

(* `Vec::reserve(additional)`: afterwards capacity >= len + additional; nothing happens when that already holds,
   otherwise std reallocates to a capacity of its choice (`newcap`), at least len + additional *)
Definition cb_reserve (b : cbuf) (additional newcap : Z) : cbuf :=
  if cb_rows b + additional <=? cb_cap b then b
  else mkCB (cb_rows b) (Z.max (cb_rows b + additional) newcap).

(* seeded change C06/6: `resize_uninitialized(rows)`: `if rows > capacity { reserve(rows - capacity) } set_len(rows)`
   (`reserve` counts from len, not from capacity) *)
Definition cb_resize_uninit_seeded (b : cbuf) (n newcap : Z) : cbuf :=
  let b' := if cb_cap b <? n then cb_reserve b (n - cb_cap b) newcap else b in
  mkCB n (cb_cap b').

(* the same with the correct amount: `reserve(rows - len)` *)
Definition cb_resize_uninit (b : cbuf) (n newcap : Z) : cbuf :=
  let b' := if cb_cap b <? n then cb_reserve b (n - cb_rows b) newcap else b in
  mkCB n (cb_cap b').

(* allocated bytes of the three matrices of a scoring call *)
Definition alloc_score (es : Z) (p : SP) (scap pcap dcap : Z) (b : nat) : Z :=
  if Nat.eqb b B_SRC then scap * psst p
  else if Nat.eqb b B_PSSM then pcap * ppst p * es
  else if Nat.eqb b B_DST then dcap * pdst p * es
  else 0.

(* ---------- seeded change C06/5 ----------
   `let mut x = _mm256_load_si256(seqptr);
    for _ in 0..pssm.rows() { t = ..load_si128(pssmptr); y = shuffle(t, x); seqptr = seqptr.add(stride);
                              pssmptr = ..; x = _mm256_load_si256(seqptr); s = adds(s, y) }` *)
Definition fp_score_u8_avx2_pipelined (p : SP) : list access :=
  flat_map (fun i =>
    rd B_SRC (i * psst p) 32 32
    :: flat_map (fun j => [rd B_PSSM (j * ppst p) 16 16;
                           rd B_SRC ((i + j + 1) * psst p) 32 32]) (zrange 0 (pM p))
    ++ [wr B_DST ((i - pa p) * pdst p) 32 32])
  (zrange (pa p) (pb p)).

Definition wrap_score_u8_avx2_pipelined (p : SP) : res kernel_run :=
  score_guard true p (fun _ => fp_score_u8_avx2_pipelined p).

(* the stray access of the last scored row *)
Definition pipelined_stray (p : SP) : access := rd B_SRC ((pb p - 1 + pM p) * psst p) 32 32.

(* ---------- histories with the allocations of the matrices ----------
   The state of FpHistory plus the capacity of the three matrices a history resizes: the sequence matrix, the f32 and
   the u8 score matrix (the scoring matrices are built once per motif and never resized: their allocation is at
   least their rows).  Every event carries, next to the extents of the OWNED rows (FpHistory), the extents of the
   ALLOCATIONS as they are when the kernel runs. *)

Record cstate := mkC { c_h : hstate; c_scap : Z; c_fcap : Z; c_ucap : Z }.

Inductive cop :=
| CBase (o : hop) (newcap : Z)     (* an op of FpHistory; newcap: the capacity std chooses IF the op reallocates *)
| CCloneSeq                        (* striped = striped.clone() *)
| CCloneScores                     (* fs = fs.clone(); us = us.clone() *)
| CNewSeq (rows L newcap : Z).     (* StripedSequence::new(DenseMatrix::new(rows), L): Err when rows * 32 < L *)

(* an entered kernel with the allocated bytes of its buffers at that moment *)
Record cev := mkCE { ce_ev : fp_event; ce_alloc : nat -> Z }.

(* the extent of the sequence matrix (B_SRC of a scoring event) becomes its allocation *)
Definition widen_seq (scap sst : Z) (e : fp_event) : fp_event :=
  mkEv (fun b => if Nat.eqb b B_SRC then scap * sst else ev_ext e b) (ev_al e) (ev_accs e).

(* allocation of a scoring event: sequence matrix scap rows, score matrix dcap rows of 32 elements of es bytes *)
Definition alloc_of_score (scap dcap es : Z) (e : fp_event) (b : nat) : Z :=
  if Nat.eqb b B_SRC then scap * 32 else if Nat.eqb b B_DST then dcap * 32 * es else ev_ext e b.
(* allocation of a max / argmax event: the score matrix read has cap rows *)
Definition alloc_of_max (cap es : Z) (e : fp_event) (b : nat) : Z :=
  if Nat.eqb b B_SRC then cap * 32 * es else ev_ext e b.
(* allocation of a stripe / sample event: the destination has scap rows *)
Definition alloc_of_stripe (scap : Z) (e : fp_event) (b : nat) : Z :=
  if Nat.eqb b B_DST then scap * 32 else ev_ext e b.

(* the capacity after a matrix went from rows0 (capacity cap) to rows1 rows by `resize` *)
Definition cap_after (rows0 cap rows1 newcap : Z) : Z := cb_cap (cb_resize (mkCB rows0 cap) rows1 newcap).

Section Cap.
  Variables K pstF pstU : Z.

  Definition cstep (s : cstate) (o : cop) : cstate * list cev :=
    match o with
    | CCloneSeq => (mkC (c_h s) (hSR (c_h s)) (c_fcap s) (c_ucap s), [])
    | CCloneScores => (mkC (c_h s) (c_scap s) (hFR (c_h s)) (hUR (c_h s)), [])
    | CNewSeq rows L newcap =>
        if rows * 32 <? L then (s, [])
        else (mkC (set_seq (c_h s) L rows 0) (Z.max rows newcap) (c_fcap s) (c_ucap s), [])
    | CBase o newcap =>
        let h := c_h s in
        let '(h', evs) := hstep K pstF pstU h o in
        match o with
        (* a (re)striped or sampled sequence: whatever capacity the constructor / `reserve` left *)
        | HStripe _ | HSample _ =>
            let scap' := Z.max (hSR h') newcap in
            (mkC h' scap' (c_fcap s) (c_ucap s), map (fun e => mkCE e (alloc_of_stripe scap' e)) evs)
        (* configure_wrap: `data.resize(rows + m - wrap)` *)
        | HConfigure _ =>
            (mkC h' (cap_after (hSR h) (c_scap s) (hSR h') newcap) (c_fcap s) (c_ucap s),
             map (fun e => mkCE e (ev_ext e)) evs)
        (* scoring: `scores.resize(rows.len(), ..)` (or resize(0, 0)), then the kernel *)
        | HScoreF32 _ _ _ =>
            let fcap' := cap_after (hFR h) (c_fcap s) (hFR h') newcap in
            (mkC h' (c_scap s) fcap' (c_ucap s), map (fun e => mkCE e (alloc_of_score (c_scap s) fcap' 4 e)) evs)
        | HScoreU8 _ _ _ =>
            let ucap' := cap_after (hUR h) (c_ucap s) (hUR h') newcap in
            (mkC h' (c_scap s) (c_fcap s) ucap', map (fun e => mkCE e (alloc_of_score (c_scap s) ucap' 1 e)) evs)
        (* StripedScores::resize on both score buffers *)
        | HResize _ _ =>
            (mkC h' (c_scap s) (cap_after (hFR h) (c_fcap s) (hFR h') newcap) (cap_after (hUR h) (c_ucap s) (hUR h') newcap),
             map (fun e => mkCE e (ev_ext e)) evs)
        | HArgmaxF32 _ | HMaxF32 _ =>
            (mkC h' (c_scap s) (c_fcap s) (c_ucap s), map (fun e => mkCE e (alloc_of_max (c_fcap s) 4 e)) evs)
        | HArgmaxU8 _ | HMaxU8 _ =>
            (mkC h' (c_scap s) (c_fcap s) (c_ucap s), map (fun e => mkCE e (alloc_of_max (c_ucap s) 1 e)) evs)
        | _ => (mkC h' (c_scap s) (c_fcap s) (c_ucap s), map (fun e => mkCE e (ev_ext e)) evs)
        end
    end.

  Fixpoint ctrace (s : cstate) (ops : list cop) : list cev :=
    match ops with
    | [] => []
    | o :: r => let '(s', ev) := cstep s o in ev ++ ctrace s' r
    end.

  Fixpoint cfinal (s : cstate) (ops : list cop) : cstate :=
    match ops with
    | [] => s
    | o :: r => cfinal (fst (cstep s o)) r
    end.

  (* every state the history goes through, the first one included *)
  Fixpoint cstates (s : cstate) (ops : list cop) : list cstate :=
    match ops with
    | [] => [s]
    | o :: r => s :: cstates (fst (cstep s o)) r
    end.
End Cap.

Definition c0 : cstate := mkC h0 0 0 0.
