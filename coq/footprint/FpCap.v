(* Allocations: rows() versus capacity().

   The extents of FpModel.v count the rows a matrix OWNS (rows() * stride); the allocation behind a
   DenseMatrix is a Vec of capacity() >= rows() rows.  An access to row rows() of a matrix with spare
   capacity stays inside the allocation (no sanitizer sees it unless the spare rows are poisoned); with
   capacity() = rows() it leaves it.  This file makes the capacity of the sequence matrix explicit:

   * `cbuf`: (rows, capacity) of a matrix; `cb_resize` (Vec::resize: the allocation is kept when the new
     row count fits, otherwise std chooses a new capacity >= the row count — amortised growth is a detail
     of std, the chosen capacity is an input of the model: `newcap`); `cb_clone` (Vec::clone allocates
     exactly len elements: the copy of a configured sequence has NO spare row);
   * `cstate`/`cop`/`cstep`: the histories of FpHistory.v with the capacity of the sequence matrix, the
     ops `clone` and `StripedSequence::new(DenseMatrix::new(rows), L)`; the footprint events of the scoring
     kernels are emitted with the ALLOCATION of the sequence matrix as extent (`widen_seq`);
   * `fp_score_u8_avx2_pipelined`: the software-pipelined variant of score_u8_avx2_shuffle of seeded change
     C06/5 (fetches sequence row i + M per scored row i, value unused) — the reason the check runs histories on
     exact allocations (FpCapProofs.v: it is inside the allocation exactly when a spare row exists).

   Executable definitions only. *)
From Coq Require Import List ZArith Bool.
From LMBase Require Import Res.
From LMFootprint Require Import FpModel FpHistory.
Import ListNotations.
Open Scope Z_scope.

Record cbuf := mkCB { cb_rows : Z; cb_cap : Z }.

(* `DenseMatrix::resize(n)` = `Vec::resize_with(n, ..)` *)
Definition cb_resize (b : cbuf) (n newcap : Z) : cbuf :=
  if n <=? cb_cap b then mkCB n (cb_cap b) else mkCB n (Z.max n newcap).

(* `clone()`: `Vec::clone` -> `with_capacity(len)` *)
Definition cb_clone (b : cbuf) : cbuf := mkCB (cb_rows b) (cb_rows b).

(* `Vec::reserve(additional)`: afterwards capacity >= len + additional; nothing happens when that already holds,
   otherwise std reallocates to a capacity of its choice (`newcap`), at least len + additional *)
Definition cb_reserve (b : cbuf) (additional newcap : Z) : cbuf :=
  if cb_rows b + additional <=? cb_cap b then b
  else mkCB (cb_rows b) (Z.max (cb_rows b + additional) newcap).

(* seeded change C06/6: `resize_uninitialized(rows)`: `if rows > capacity { reserve(rows - capacity) } set_len(rows)`
   (`reserve` counts from len, not from capacity) *)
Definition cb_resize_uninit_seeded (b : cbuf) (n newcap : Z) : cbuf :=
  let b' := if cb_cap b <? n then cb_reserve b (n - cb_cap b) newcap else b in
  mkCB n (cb_cap b').

(* the same with the correct amount: `reserve(rows - len)` *)
Definition cb_resize_uninit (b : cbuf) (n newcap : Z) : cbuf :=
  let b' := if cb_cap b <? n then cb_reserve b (n - cb_rows b) newcap else b in
  mkCB n (cb_cap b').

(* allocated bytes of the three matrices of a scoring call *)
Definition alloc_score (es : Z) (p : SP) (scap pcap dcap : Z) (b : nat) : Z :=
  if Nat.eqb b B_SRC then scap * psst p
  else if Nat.eqb b B_PSSM then pcap * ppst p * es
  else if Nat.eqb b B_DST then dcap * pdst p * es
  else 0.

(* ---------- seeded change C06/5 ----------
   `let mut x = _mm256_load_si256(seqptr);
    for _ in 0..pssm.rows() { t = ..load_si128(pssmptr); y = shuffle(t, x); seqptr = seqptr.add(stride);
                              pssmptr = ..; x = _mm256_load_si256(seqptr); s = adds(s, y) }` *)
Definition fp_score_u8_avx2_pipelined (p : SP) : list access :=
  flat_map (fun i =>
    rd B_SRC (i * psst p) 32 32
    :: flat_map (fun j => [rd B_PSSM (j * ppst p) 16 16;
                           rd B_SRC ((i + j + 1) * psst p) 32 32]) (zrange 0 (pM p))
    ++ [wr B_DST ((i - pa p) * pdst p) 32 32])
  (zrange (pa p) (pb p)).

Definition wrap_score_u8_avx2_pipelined (p : SP) : res kernel_run :=
  score_guard true p (fun _ => fp_score_u8_avx2_pipelined p).

(* the stray access of the last scored row *)
Definition pipelined_stray (p : SP) : access := rd B_SRC ((pb p - 1 + pM p) * psst p) 32 32.

(* ---------- histories with the capacity of the sequence matrix ---------- *)

Record cstate := mkC { c_h : hstate; c_scap : Z }.

Inductive cop :=
| CBase (o : hop) (newcap : Z)     (* an op of FpHistory; newcap: the capacity std chooses IF the op reallocates *)
| CCloneSeq                        (* striped = striped.clone() *)
| CNewSeq (rows L newcap : Z).     (* StripedSequence::new(DenseMatrix::new(rows), L): Err when rows * 32 < L *)

(* the extent of the sequence matrix (B_SRC of a scoring event) becomes its allocation *)
Definition widen_seq (scap sst : Z) (e : fp_event) : fp_event :=
  mkEv (fun b => if Nat.eqb b B_SRC then scap * sst else ev_ext e b) (ev_al e) (ev_accs e).

Section Cap.
  Variables K pstF pstU : Z.

  Definition cstep (s : cstate) (o : cop) : cstate * list fp_event :=
    match o with
    | CCloneSeq => (mkC (c_h s) (hSR (c_h s)), [])
    | CNewSeq rows L newcap =>
        if rows * 32 <? L then (s, [])
        else (mkC (set_seq (c_h s) L rows 0) (Z.max rows newcap), [])
    | CBase o newcap =>
        let '(h', evs) := hstep K pstF pstU (c_h s) o in
        match o with
        (* a (re)striped or sampled sequence: whatever capacity the constructor / `reserve` left *)
        | HStripe _ | HSample _ => (mkC h' (Z.max (hSR h') newcap), evs)
        (* configure_wrap: `data.resize(rows + m - wrap)` *)
        | HConfigure _ =>
            (mkC h' (cb_cap (cb_resize (mkCB (hSR (c_h s)) (c_scap s)) (hSR h') newcap)), evs)
        | HScoreF32 _ _ _ | HScoreU8 _ _ _ => (mkC h' (c_scap s), map (widen_seq (c_scap s) 32) evs)
        | _ => (mkC h' (c_scap s), evs)
        end
    end.

  Fixpoint ctrace (s : cstate) (ops : list cop) : list fp_event :=
    match ops with
    | [] => []
    | o :: r => let '(s', ev) := cstep s o in ev ++ ctrace s' r
    end.

  Fixpoint cfinal (s : cstate) (ops : list cop) : cstate :=
    match ops with
    | [] => s
    | o :: r => cfinal (fst (cstep s o)) r
    end.
End Cap.

Definition c0 : cstate := mkC h0 0.
