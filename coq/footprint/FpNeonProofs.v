(* NEON kernels: safe under the row-range guard the x86 wrappers have; with the guards neon.rs
   actually has, a row range reaching into the look-ahead rows reads past the sequence matrix. *)
From Coq Require Import List ZArith Bool Lia.
From LMBase Require Import Res.
From LMFootprint Require Import FpModel FpProofs FpTight FpNeon.
Import ListNotations.
Open Scope Z_scope.

Lemma layout16_div es C st : layout16_ok es C st -> (16 | st * es).
Proof. intros [_ [_ [_ H]]]. apply Z.mod_divide; [lia|exact H]. Qed.

Lemma layout16_row_bytes_ge es C st : layout16_ok es C st -> 16 <= st * es.
Proof.
  intros [He [HC [Hle Hm]]]. assert (0 < st * es) by nia.
  apply Z.mod_divide in Hm; [|lia]. destruct Hm as [k Hk]. nia.
Qed.

Lemma balign_mat16_16 b : (b = B_SRC \/ b = B_DST \/ b = B_PSSM) -> balign_mat16 b = 16.
Proof. intros [-> | [-> | ->]]; reflexivity. Qed.

Lemma aligned16_4 b off w wrt :
  (b = B_SRC \/ b = B_DST \/ b = B_PSSM) -> (4 | off) -> Aligned balign_mat16 (mkAcc b off w wrt 4).
Proof.
  intros Hb Ho. apply aligned_div; [lia | rewrite balign_mat16_16 by auto; exists 4; reflexivity | exact Ho].
Qed.

Lemma q_bound C q : 0 < C -> 0 <= q < C / 16 -> 16 * q + 16 <= C.
Proof.
  intros HC Hq. pose proof (Z.div_mod C 16 ltac:(lia)). pose proof (Z.mod_pos_bound C 16 ltac:(lia)). lia.
Qed.

Lemma score_f32_neon_body_safe C p :
  sp_nonneg p -> layout16_ok 1 C (psst p) -> layout16_ok 4 (pK p) (ppst p) -> layout16_ok 4 C (pdst p) ->
  pb p + pM p - 1 <= pSR p ->
  Forall (Safe (ext_score 4 p) balign_mat16) (fp_score_f32_neon C p).
Proof.
  intros Hnn Hs Hp Hd Hr. apply Forall_forall. intros a Ha.
  unfold fp_score_f32_neon in Ha. destruct Hnn as [Ha0 _].
  assert (HC : 0 < C) by (destruct Hs as [_ [H _]]; exact H).
  destr_in; subst.
  - destruct Hs as [_ [_ [Hle _]]]. pose proof (q_bound C x HC Hx). split; [fp_unfold; nia | apply aligned_1].
  - destruct Hp as [_ [_ [Hle _]]]. split; [fp_unfold; nia |].
    apply aligned16_4; auto. apply Z.divide_factor_r.
  - destruct Hd as [_ [_ [Hle _]]]. pose proof (q_bound C x HC Hx). split; [fp_unfold; nia |].
    apply aligned16_4; auto. apply Z.divide_factor_r.
Qed.

Lemma score_u8_neon_body_safe C p :
  sp_nonneg p -> layout16_ok 1 C (psst p) -> layout16_ok 1 (pK p) (ppst p) -> layout16_ok 1 C (pdst p) ->
  pb p + pM p - 1 <= pSR p ->
  Forall (Safe (ext_score 1 p) balign_mat16) (fp_score_u8_neon C p).
Proof.
  intros Hnn Hs Hp Hd Hr. apply Forall_forall. intros a Ha.
  unfold fp_score_u8_neon in Ha. destruct Hnn as [Ha0 _].
  assert (HC : 0 < C) by (destruct Hs as [_ [H _]]; exact H).
  destr_in; subst.
  - destruct Hs as [_ [_ [Hle _]]]. pose proof (q_bound C x HC Hx). split; [fp_unfold; nia | apply aligned_1].
  - pose proof (layout16_row_bytes_ge _ _ _ Hp) as Hge. rewrite Z.mul_1_r in Hge.
    split; [fp_unfold; nia | apply aligned_1].
  - destruct Hd as [_ [_ [Hle _]]]. pose proof (q_bound C x HC Hx). split; [fp_unfold; nia | apply aligned_1].
Qed.

Lemma wrap_score_f32_neon_ranged_safe C p accs :
  sp_nonneg p -> layout16_ok 1 C (psst p) -> layout16_ok 4 (pK p) (ppst p) -> layout16_ok 4 C (pdst p) ->
  wrap_score_f32_neon true C p = Ok (Entered accs) ->
  Forall (Safe (ext_score 4 p) balign_mat16) accs.
Proof.
  intros Hn Hs Hp Hd H. apply score_guard_entered in H. destruct H as [-> [_ [_ [_ [_ Hr]]]]].
  apply score_f32_neon_body_safe; auto.
Qed.

Lemma wrap_score_u8_neon_ranged_safe C p accs :
  sp_nonneg p -> layout16_ok 1 C (psst p) -> layout16_ok 1 (pK p) (ppst p) -> layout16_ok 1 C (pdst p) ->
  wrap_score_u8_neon true C p = Ok (Entered accs) ->
  Forall (Safe (ext_score 1 p) balign_mat16) accs.
Proof.
  intros Hn Hs Hp Hd H. apply score_guard_entered in H. destruct H as [-> [_ [_ [_ [_ Hr]]]]].
  apply score_u8_neon_body_safe; auto.
Qed.

(* the last sequence-row load of the first 16-column group *)
Definition last_seq_load16 (p : SP) : access := rd B_SRC ((pb p - 1 + (pM p - 1)) * psst p + 16 * 0) 16 1.

Lemma last_seq_load16_oob es p :
  16 <= psst p -> pSR p < pb p + pM p - 1 -> ~ InBounds (ext_score es p) (last_seq_load16 p).
Proof. intros Hs Hr. unfold last_seq_load16. fp_unfold. intros [_ [_ H]]. nia. Qed.

Lemma last_seq_load16_in_f32 C p :
  16 <= C -> pa p < pb p -> 0 < pM p -> In (last_seq_load16 p) (fp_score_f32_neon C p).
Proof.
  intros HC Hab HM. unfold fp_score_f32_neon. apply in_flat_map. exists 0. split.
  - apply In_zrange. split; [lia|]. apply Z.div_str_pos. lia.
  - apply in_flat_map. exists (pb p - 1). split; [apply In_zrange; lia|].
    apply in_or_app. left. apply in_flat_map. exists (pM p - 1). split; [apply In_zrange; lia|].
    left. reflexivity.
Qed.

Lemma last_seq_load16_in_u8 C p :
  16 <= C -> pa p < pb p -> 0 < pM p -> In (last_seq_load16 p) (fp_score_u8_neon C p).
Proof.
  intros HC Hab HM. unfold fp_score_u8_neon. apply in_flat_map. exists 0. split.
  - apply In_zrange. split; [lia|]. apply Z.div_str_pos. lia.
  - apply in_flat_map. exists (pb p - 1). split; [apply In_zrange; lia|].
    apply in_or_app. left. apply in_flat_map. exists (pM p - 1). split; [apply In_zrange; lia|].
    left. reflexivity.
Qed.

(* the wrappers as they are (no range check): every call they let through with a range that
   reaches past the matrix has an out-of-bounds load *)
Lemma neon_unranged_oob C p accs :
  sp_nonneg p -> 16 <= C -> 16 <= psst p -> pSR p < pb p + pM p - 1 ->
  (wrap_score_f32_neon false C p = Ok (Entered accs) -> exists a, In a accs /\ ~ InBounds (ext_score 4 p) a) /\
  (wrap_score_u8_neon false C p = Ok (Entered accs) -> exists a, In a accs /\ ~ InBounds (ext_score 1 p) a).
Proof.
  intros Hn HC Hs Hr. split; intros H; exists (last_seq_load16 p);
    (split; [|apply last_seq_load16_oob; auto]);
    destruct (unranged_entered _ _ _ Hn H) as [-> [Hab HM]].
  - apply last_seq_load16_in_f32; auto.
  - apply last_seq_load16_in_u8; auto.
Qed.
