(* score_guard_usize (the guards as the code computes them, in usize) against score_guard (in Z). *)
From Coq Require Import List ZArith Bool Lia.
From LMBase Require Import Res.
From LMFootprint Require Import FpModel FpProofs FpUsize.
Import ListNotations.
Open Scope Z_scope.

(* what every call satisfies: the arguments are usize values, a StripedSequence has at most rows() wrap rows, its
   matrix is one allocation (at most isize::MAX bytes, rows of at least 32 bytes), score rows have at least 32 bytes *)
Definition usize_ok (rb : Z) (p : SP) : Prop :=
  0 <= pa p < USIZE /\ 0 <= pb p < USIZE /\ 0 <= pM p /\ 0 <= pL p /\
  0 <= pwrap p <= pSR p /\ pSR p * 32 <= ISIZE_MAX /\ 32 <= rb.

(* a wrapped sum never reaches the kernel: the range would have to start below rows() and end above
   usize::MAX - rows(), and that many score rows do not fit into an allocation *)
Lemma wrapped_sum_never_enters rb p :
  usize_ok rb p -> pM p - 1 <= pwrap p -> pa p < pb p ->
  USIZE <= pb p + pM p - 1 ->
  (pb p - pa p) * rb <= ISIZE_MAX -> pa p < pSR p -> False.
Proof.
  unfold usize_ok, USIZE, ISIZE_MAX. intros (Ha & Hb & HM & HL & Hw & HSR & Hrb) Hwm Hab Hwrap Hres Hidx.
  assert (H32 : (pb p - pa p) * 32 <= (pb p - pa p) * rb) by (apply Z.mul_le_mono_nonneg_l; lia).
  lia.
Qed.

Ltac guard_cases :=
  repeat match goal with
  | H : context [if ?c then _ else _] |- _ => let E := fresh "E" in destruct c eqn:E
  | |- context [if ?c then _ else _] => let E := fresh "E" in destruct c eqn:E
  end.

(* (i) the usize guard enters the kernel only when the Z guard does, with the same footprint *)
Lemma score_guard_usize_entered release rb p body accs :
  usize_ok rb p ->
  score_guard_usize release rb p body = Ok (Entered accs) ->
  score_guard true p body = Ok (Entered accs).
Proof.
  intros Hok H. pose proof Hok as (Ha & Hb & HM & HL & Hw & HSR & Hrb).
  unfold score_guard_usize in H. unfold score_guard.
  destruct (pM p =? 0) eqn:E0; [discriminate|].
  destruct (pwrap p <? pM p - 1) eqn:E1; [discriminate|].
  destruct ((pL p <? pM p) || (pb p <=? pa p)) eqn:E2; [discriminate|].
  destruct (negb release && (USIZE <=? pb p + pM p)) eqn:E3; [discriminate|].
  destruct (pSR p <? (pb p + pM p - 1) mod USIZE) eqn:E4; [discriminate|].
  destruct (ISIZE_MAX <? (pb p - pa p) * rb) eqn:E5; [discriminate|].
  destruct (pSR p <=? pa p) eqn:E6; [discriminate|].
  apply Z.ltb_ge in E1, E4, E5. apply Z.leb_gt in E6. apply Z.eqb_neq in E0.
  apply orb_false_iff in E2. destruct E2 as [_ E2]. apply Z.leb_gt in E2.
  destruct (Z_lt_ge_dec (pb p + pM p - 1) USIZE) as [Hno|Hwrap].
  - rewrite Z.mod_small in E4 by lia.
    assert (E : (pSR p <? pb p + pM p - 1) = false) by (apply Z.ltb_ge; lia).
    simpl. rewrite E. exact H.
  - exfalso. apply (wrapped_sum_never_enters rb p); auto; lia.
Qed.

(* (ii) whenever the Z guard panics, the code panics (possibly at another site: overflow check, capacity overflow,
   checked index) *)
Lemma score_guard_usize_panics release rb p body n :
  usize_ok rb p ->
  score_guard true p body = Panic n ->
  exists n', score_guard_usize release rb p body = Panic n'.
Proof.
  intros Hok H. pose proof Hok as (Ha & Hb & HM & HL & Hw & HSR & Hrb).
  unfold score_guard in H. unfold score_guard_usize.
  destruct (pM p =? 0) eqn:E0; [eexists; reflexivity|].
  destruct (pwrap p <? pM p - 1) eqn:E1; [eexists; reflexivity|].
  destruct ((pL p <? pM p) || (pb p <=? pa p)) eqn:E2; [discriminate|].
  simpl in H. destruct (pSR p <? pb p + pM p - 1) eqn:E; [|discriminate].
  apply Z.ltb_lt in E. apply Z.ltb_ge in E1. apply Z.eqb_neq in E0.
  apply orb_false_iff in E2. destruct E2 as [_ E2]. apply Z.leb_gt in E2.
  destruct (negb release && (USIZE <=? pb p + pM p)) eqn:E3; [eexists; reflexivity|].
  destruct (pSR p <? (pb p + pM p - 1) mod USIZE) eqn:E4; [eexists; reflexivity|].
  destruct (ISIZE_MAX <? (pb p - pa p) * rb) eqn:E5; [eexists; reflexivity|].
  destruct (pSR p <=? pa p) eqn:E6; [eexists; reflexivity|].
  exfalso. apply Z.ltb_ge in E4, E5. apply Z.leb_gt in E6.
  destruct (Z_lt_ge_dec (pb p + pM p - 1) USIZE) as [Hno|Hwrap].
  - rewrite Z.mod_small in E4 by lia. lia.
  - apply (wrapped_sum_never_enters rb p); auto; lia.
Qed.

(* (iii) early return in the same cases *)
Lemma score_guard_usize_skipped release rb p body :
  score_guard_usize release rb p body = Ok Skipped <-> score_guard true p body = Ok Skipped.
Proof.
  unfold score_guard_usize, score_guard.
  destruct (pM p =? 0); [split; discriminate|].
  destruct (pwrap p <? pM p - 1); [split; discriminate|].
  destruct ((pL p <? pM p) || (pb p <=? pa p)); [split; reflexivity|].
  split; intros H; exfalso; guard_cases; discriminate.
Qed.

(* (iv) where the Z guard enters, the code enters with the same footprint unless the score rows do not fit into an
   allocation (capacity overflow panic of `resize`; with overflow checks also when rows.end + M itself overflows,
   impossible here) *)
Lemma score_guard_usize_enters release rb p body accs :
  usize_ok rb p ->
  score_guard true p body = Ok (Entered accs) ->
  score_guard_usize release rb p body = Ok (Entered accs) \/
  (ISIZE_MAX < (pb p - pa p) * rb /\ score_guard_usize release rb p body = Panic 12).
Proof.
  intros Hok H. pose proof Hok as (Ha & Hb & HM & HL & Hw & HSR & Hrb).
  apply score_guard_entered in H. destruct H as [-> [H0 [Hwm [HLM [Hab Hr]]]]]. specialize (Hr eq_refl).
  unfold score_guard_usize, USIZE, ISIZE_MAX in *.
  assert (E0 : (pM p =? 0) = false) by (apply Z.eqb_neq; exact H0). rewrite E0.
  assert (E1 : (pwrap p <? pM p - 1) = false) by (apply Z.ltb_ge; lia). rewrite E1.
  assert (E2 : ((pL p <? pM p) || (pb p <=? pa p)) = false).
  { apply orb_false_iff. split; [apply Z.ltb_ge | apply Z.leb_gt]; lia. }
  rewrite E2.
  assert (E3 : (18446744073709551616 <=? pb p + pM p) = false) by (apply Z.leb_gt; lia).
  rewrite E3, andb_false_r.
  rewrite Z.mod_small by lia.
  assert (E4 : (pSR p <? pb p + pM p - 1) = false) by (apply Z.ltb_ge; lia). rewrite E4.
  destruct (9223372036854775807 <? (pb p - pa p) * rb) eqn:E5.
  - right. apply Z.ltb_lt in E5. split; [exact E5 | reflexivity].
  - left. assert (E6 : (pSR p <=? pa p) = false) by (apply Z.leb_gt; lia). rewrite E6. reflexivity.
Qed.
