(* Initialisation: the buffers that start uninitialised (`DenseMatrix::uninitialized` behind sample and
   from_rows, `Vec::with_capacity` + `set_len` in encode_raw, the rows a resize adds, the rows+32 rows of
   stripe) — every CELL a safe caller can read afterwards is covered by a write of the footprint. *)
From Coq Require Import List ZArith Bool Lia.
From LMBase Require Import Res.
From LMFootprint Require Import FpModel FpProofs.
Import ListNotations.
Open Scope Z_scope.

Definition covers (a : access) (b : nat) (off : Z) : Prop :=
  awrite a = true /\ abuf a = b /\ aoff a <= off < aoff a + awidth a.

(* byte `off` of buffer `b` is written by some access of the list *)
Definition written (l : list access) (b : nat) (off : Z) : Prop := exists a, In a l /\ covers a b off.

Lemma covers_wr b o w al off : o <= off < o + w -> covers (wr b o w al) b off.
Proof. intros H. unfold covers, wr. simpl. auto. Qed.

(* the loop indices of `while cond(i) { ..; i += step }` are i, i+step, i+2*step, ... *)
Lemma while_idx_nth fuel cond step : forall i k,
  (k < length (while_idx fuel cond step i))%nat ->
  In (i + step * Z.of_nat k) (while_idx fuel cond step i).
Proof.
  induction fuel as [|f IH]; intros i k Hk; simpl in *; [lia|].
  destruct (cond i); simpl in *; [|lia].
  destruct k as [|k'].
  - left. simpl. lia.
  - right. replace (i + step * Z.of_nat (S k')) with ((i + step) + step * Z.of_nat k') by lia.
    apply IH. lia.
Qed.

Lemma divmod_cell R r c : 0 <= r < R -> (c * R + r) mod R = r /\ (c * R + r) / R = c.
Proof.
  intros Hr. split.
  - rewrite Z.add_comm, Z_mod_plus_full. apply Z.mod_small. lia.
  - rewrite Z.div_add_l by lia. rewrite Z.div_small by lia. lia.
Qed.

Lemma cell_index_bound R C r c : 0 <= r < R -> 0 <= c < C -> 0 <= c * R + r < R * C.
Proof.
  intros Hr Hc.
  assert (H1 : c * R <= (C - 1) * R) by (apply Z.mul_le_mono_nonneg_r; lia).
  assert (H2 : (C - 1) * R = R * C - R) by ring.
  assert (H3 : 0 <= c * R) by (apply Z.mul_nonneg_nonneg; lia).
  lia.
Qed.

(* ---------- sample ---------- *)
Lemma sample_cells_written C st L r c :
  0 <= r < sample_rows C L -> 0 <= c < C ->
  written (fp_sample C st L) B_DST (r * st + c).
Proof.
  intros Hr Hc. exists (wr B_DST (r * st + c) 1 1). split; [|apply covers_wr; lia].
  unfold fp_sample. cbv zeta. apply in_or_app. left. apply in_flat_map. exists r. split; [apply In_zrange; lia|].
  apply in_map_iff. exists c. split; [reflexivity | apply In_zrange; lia].
Qed.

(* ---------- from_rows (repaired) ---------- *)
Lemma from_rows_cells_written es C st n m r c :
  0 <= r < from_rows_rows true n m -> 0 <= c < C * es ->
  written (fp_from_rows_accs es C st n m (-1)) B_DST (r * st * es + c).
Proof.
  intros Hr Hc. exists (wr B_DST (r * st * es) (C * es) es). split; [|apply covers_wr; lia].
  unfold from_rows_rows in Hr. unfold fp_from_rows_accs.
  replace ((0 <=? -1) && (-1 <? Z.min n m)) with false by reflexivity.
  apply in_map_iff. exists r. split; [reflexivity | apply In_zrange; lia].
Qed.

(* ---------- resize ---------- *)
Lemma resize_cells_written es C st rows0 rows1 r c :
  rows0 <= r < rows1 -> 0 <= c < C * es ->
  written (fp_resize es C st rows0 rows1) B_DST (r * st * es + c).
Proof.
  intros Hr Hc. exists (wr B_DST (r * st * es) (C * es) es). split; [|apply covers_wr; lia].
  unfold fp_resize. apply in_map_iff. exists r. split; [reflexivity | apply In_zrange; lia].
Qed.

(* ---------- encode_into into the set_len buffer of encode_raw ---------- *)
Lemma encode_cells_written W strict L j :
  0 < W -> 0 <= j < L -> written (fp_encode_simd W strict L) B_DST j.
Proof.
  intros HW Hj. unfold fp_encode_simd.
  set (idx := enc_simd_idx W strict L).
  destruct (Z_lt_ge_dec j (enc_tail_start W strict L)) as [Hlt|Hge].
  - (* inside a SIMD block *)
    unfold enc_tail_start in Hlt. fold idx in Hlt.
    exists (wr B_DST (W * (j / W)) W 1). split.
    + apply in_or_app. left. apply in_flat_map. exists (W * (j / W)). split.
      * assert (Hk : (Z.to_nat (j / W) < length idx)%nat).
        { apply Nat2Z.inj_lt. rewrite Z2Nat.id by (apply Z.div_pos; lia).
          apply Z.div_lt_upper_bound; lia. }
        pose proof (while_idx_nth _ _ _ 0 _ Hk) as H. fold (enc_simd_idx W strict L) in H.
        rewrite Z2Nat.id in H by (apply Z.div_pos; lia). simpl in H. exact H.
      * right. left. reflexivity.
    + apply covers_wr. pose proof (Z.mod_pos_bound j W HW). pose proof (Z.div_mod j W ltac:(lia)). lia.
  - (* scalar tail *)
    exists (wr B_DST j 1 1). split; [|apply covers_wr; lia].
    apply in_or_app. right. apply in_or_app. right. cbv zeta.
    assert (E : (enc_tail_start W strict L <? L) = true) by (apply Z.ltb_lt; lia). rewrite E.
    apply in_flat_map. exists j. split; [apply In_zrange; lia|]. right. left. reflexivity.
Qed.

(* ---------- generic striping ---------- *)
Lemma stripe_generic_cells_written C L ost r c :
  0 <= L -> 0 <= r < gstripe_rows C L -> 0 <= c < C ->
  written (fp_stripe_generic C L ost) B_DST (r * ost + c).
Proof.
  intros HL Hr Hc. set (R := gstripe_rows C L) in *.
  destruct (divmod_cell R r c Hr) as [Hm Hd].
  pose proof (cell_index_bound R C r c Hr Hc) as Hb.
  exists (wr B_DST (((c * R + r) mod R) * ost + (c * R + r) / R) 1 1).
  split; [|rewrite Hm, Hd; apply covers_wr; lia].
  unfold fp_stripe_generic. fold R. cbv zeta.
  destruct (Z_lt_ge_dec (c * R + r) L) as [Hlt|Hge].
  - apply in_or_app. left. apply in_flat_map. exists (c * R + r). split; [apply In_zrange; lia|].
    right. left. reflexivity.
  - apply in_or_app. right. apply in_map_iff. exists (c * R + r). split; [reflexivity|].
    apply In_zrange. lia.
Qed.

(* ---------- stripe_avx2 ---------- *)
Lemma stripe_avx2_cells_written L ost r c :
  0 <= L -> 0 <= r < stripe_rows L -> 0 <= c < 32 ->
  written (fp_stripe_avx2 L ost) B_DST (r * ost + c).
Proof.
  intros HL Hr Hc. set (R := stripe_rows L) in *.
  unfold fp_stripe_avx2, fp_stripe_avx2_gen. fold R. cbv zeta.
  assert (HLpos : 0 < L).
  { destruct (Z.eq_dec L 0) as [E|]; [|lia]. exfalso. subst L.
    assert (H0 : stripe_rows 0 = 0) by reflexivity. unfold R in Hr. rewrite H0 in Hr. lia. }
  assert (E0 : (L =? 0) = false) by (apply Z.eqb_neq; lia). rewrite E0.
  set (idx := stripe_block_idx false L).
  destruct (Z_lt_ge_dec r (32 * Z.of_nat (length idx))) as [Hblk|Htail].
  - (* a row of a 32x32 block: the 32-byte store of that row *)
    exists (wr B_DST ((32 * (r / 32) + r mod 32) * ost) 32 32). split.
    + apply in_or_app. left. apply in_flat_map. exists (32 * (r / 32)). split.
      * assert (Hk : (Z.to_nat (r / 32) < length idx)%nat).
        { apply Nat2Z.inj_lt. rewrite Z2Nat.id by (apply Z.div_pos; lia).
          apply Z.div_lt_upper_bound; lia. }
        unfold idx, stripe_block_idx in *. fold R in Hk |- *.
        pose proof (while_idx_nth _ _ _ 0 _ Hk) as H.
        rewrite Z2Nat.id in H by (apply Z.div_pos; lia). simpl in H. exact H.
      * unfold stripe_block. apply in_or_app. right. apply in_map_iff. exists (r mod 32).
        split; [reflexivity | apply In_zrange; pose proof (Z.mod_pos_bound r 32 ltac:(lia)); lia].
    + pose proof (Z.div_mod r 32 ltac:(lia)) as Hdm.
      replace (32 * (r / 32) + r mod 32) with r by lia. apply covers_wr. lia.
  - (* remaining rows: the scalar loop writes the cells below L, the fill loop the others *)
    destruct (divmod_cell R r c Hr) as [Hm Hd].
    destruct (Z_lt_ge_dec (c * R + r) L) as [Hlt|Hge].
    + exists (wr B_DST (r * ost + c) 1 1). split; [|apply covers_wr; lia].
      apply in_or_app. right. apply in_or_app. left.
      unfold stripe_tail. apply in_flat_map. exists r. split; [apply In_zrange; lia|].
      apply in_flat_map. exists c. split; [apply In_zrange; lia|].
      assert (E : (c * R + r <? L) = true) by (apply Z.ltb_lt; lia). rewrite E. right. left. reflexivity.
    + exists (wr B_DST (((c * R + r) mod R) * ost + (c * R + r) / R) 1 1).
      split; [|rewrite Hm, Hd; apply covers_wr; lia].
      apply in_or_app. right. apply in_or_app. right.
      unfold stripe_fill. apply in_map_iff. exists (c * R + r). split; [reflexivity|].
      pose proof (cell_index_bound R 32 r c Hr Hc) as Hb. apply In_zrange. lia.
Qed.
