(* Extraction of the executable footprint model for the correspondence check.
   ExtrOcamlBasic only: nat, Z, positive stay the extracted inductives. *)
From Coq Require Import List ZArith Extraction ExtrOcamlBasic.
From LMBase Require Import Res.
From LMDense Require Import DenseModel.
From LMFootprint Require Import FpModel FpNeon FpHistory FpCap FpUsize.

Extraction Language OCaml.
Extraction "footprint_model.ml"
  acc_ok all_ok check_C06 first_bad
  balign_mat_src balign_slices balign_stripe
  fp_encode_into_avx2 fp_encode_into_sse2 fp_encode_generic wrap_encode wrap_encode_raw ext_encode
  stripe_rows stripe_block_idx fp_stripe_avx2_gen fp_stripe_avx2 ext_stripe
  gstripe_rows fp_stripe_generic ext_gstripe
  wrap_score_f32_avx2 wrap_score_f32_avx2_permute wrap_score_f32_avx2_gather wrap_score_u8_avx2
  wrap_score_sse2 wrap_score_generic ext_score
  wrap_argmax_f32_avx2 wrap_max_f32_avx2 wrap_argmax_u8_avx2 wrap_max_u8_avx2 wrap_argmax_sse2 ext_max
  fp_from_rows from_rows_rows fp_ravel fp_fill fp_sample sample_rows ext_dense
  configure_wrap_model stride row_bytes
  hstep htrace hfinal h0
  cb_resize cb_clone cb_reserve cb_resize_uninit cb_resize_uninit_seeded alloc_score fp_score_u8_avx2_pipelined wrap_score_u8_avx2_pipelined cap_after alloc_of_score alloc_of_max alloc_of_stripe cstep ctrace cfinal cstates c0
  score_guard_usize generic_index_overflows
  fp_encode_into_neon fp_score_f32_neon fp_score_u8_neon wrap_score_f32_neon wrap_score_u8_neon balign_mat16.
