(* Every kernel entered along any history of safe API calls is safe (in bounds + aligned). *)
From Coq Require Import List ZArith Bool Lia.
From LMBase Require Import Res.
From LMFootprint Require Import FpModel FpProofs FpHistory.
Import ListNotations.
Open Scope Z_scope.

Definition ev_safe (e : fp_event) : Prop := Forall (Safe (ev_ext e) (ev_al e)) (ev_accs e).

(* all components are usize values *)
Definition hwf (s : hstate) : Prop :=
  0 <= hE s /\ 0 <= hL s /\ 0 <= hSR s /\ 0 <= hwrap s /\ 0 <= hM s /\ 0 <= hFR s /\ 0 <= hFI s /\ 0 <= hUR s.

Definition hop_wf (o : hop) : Prop :=
  match o with
  | HEncode _ L Ld => 0 <= L /\ 0 <= Ld
  | HSample L => 0 <= L
  | HConfigure m => 0 <= m
  | HMotif M => 0 <= M
  | HScoreF32 _ lo hi | HScoreU8 _ lo hi => 0 <= lo /\ 0 <= hi
  | HResize n mi => 0 <= n /\ 0 <= mi
  | _ => True
  end.

Lemma layout_u8_32 : layout_ok 1 32 32.
Proof. unfold layout_ok. repeat split; try lia. Qed.

Lemma layout_f32_32 : layout_ok 4 32 32.
Proof. unfold layout_ok. repeat split; try lia. Qed.

Lemma stripe_rows_nonneg L : 0 <= L -> 0 <= stripe_rows L.
Proof. intros H. unfold stripe_rows. apply Z.div_pos; lia. Qed.

Lemma gstripe_rows_nonneg L : 0 <= L -> 0 <= gstripe_rows 32 L.
Proof. intros H. unfold gstripe_rows. apply Z.div_pos; lia. Qed.

Lemma sample_rows_nonneg L : 0 <= L -> 0 <= sample_rows 32 L.
Proof. intros H. unfold sample_rows. apply Z.div_pos; lia. Qed.

Lemma sat_sub_nonneg a b : 0 <= sat_sub a b.
Proof. unfold sat_sub. destruct (a <? b) eqn:E; [lia|]. apply Z.ltb_ge in E. lia. Qed.

Lemma enc_kernel_safe a L : 0 <= L -> Forall (Safe (ext_encode L L) balign_slices) (enc_kernel a L).
Proof.
  intros HL. destruct a; simpl.
  - apply fp_encode_generic_safe; auto.
  - apply fp_encode_into_sse2_all_safe; auto.
  - apply (fp_encode_simd_safe 32 false L); [lia | auto].
Qed.

Lemma wrap_score_f32_avx2_safe p accs :
  sp_nonneg p -> layout_ok 1 32 (psst p) -> layout_ok 4 (pK p) (ppst p) -> layout_ok 4 32 (pdst p) ->
  wrap_score_f32_avx2 true p = Ok (Entered accs) ->
  Forall (Safe (ext_score 4 p) balign_mat_src) accs.
Proof.
  intros H1 H2 H3 H4. unfold wrap_score_f32_avx2. destruct (pK p <=? 8).
  - apply wrap_score_permute_safe; auto.
  - apply wrap_score_gather_safe; auto.
Qed.

Lemma wrap_score_generic_entered p accs : wrap_score_generic p = Ok (Entered accs) -> accs = [].
Proof.
  unfold wrap_score_generic.
  destruct ((pL p <? pM p) || (pb p <=? pa p)); [discriminate|].
  destruct ((0 <? pM p) && (pSR p <? pb p + pM p - 1)); [discriminate|].
  intros [= <-]. reflexivity.
Qed.

(* a score wrapper that enters its kernel was given a non-empty range *)
Lemma score_guard_range ranged p body accs :
  score_guard ranged p body = Ok (Entered accs) -> pa p < pb p.
Proof. intros H. apply score_guard_entered in H. tauto. Qed.

Lemma wrap_score_generic_range p accs : wrap_score_generic p = Ok (Entered accs) -> pa p < pb p.
Proof.
  unfold wrap_score_generic.
  destruct ((pL p <? pM p) || (pb p <=? pa p)) eqn:E; [discriminate|].
  intros _. apply orb_false_iff in E. destruct E as [_ E]. apply Z.leb_gt in E. exact E.
Qed.

(* the generic code panics (checked index) only on a non-empty range: after `scores.resize(rows.len(), ..)` *)
Lemma wrap_score_generic_panic_range p n : wrap_score_generic p = Panic n -> pa p < pb p.
Proof.
  unfold wrap_score_generic.
  destruct ((pL p <? pM p) || (pb p <=? pa p)) eqn:E; [discriminate|].
  intros _. apply orb_false_iff in E. destruct E as [_ E]. apply Z.leb_gt in E. exact E.
Qed.

Section HistoryProofs.
  Variables K pstF pstU : Z.
  Hypothesis HF : layout_ok 4 K pstF.
  Hypothesis HU : layout_ok 1 K pstU.

  Lemma score_params_nonneg s pst lo hi :
    hwf s -> 0 <= lo -> sp_nonneg (score_params K s pst lo hi).
  Proof. intros (?&?&?&?&?&?&?&?) Hlo. unfold sp_nonneg, score_params; simpl. lia. Qed.

  Lemma hstep_safe s o :
    hwf s -> hop_wf o ->
    hwf (fst (hstep K pstF pstU s o)) /\ Forall ev_safe (snd (hstep K pstF pstU s o)).
  Proof.
    intros Hs Ho. pose proof Hs as (HE & HL & HSR & Hw & HM & HFR & HFI & HUR).
    destruct o as [a L Ld | a | L | m | M | a lo hi | a lo hi | n mi | a | a | a | a]; simpl in Ho.
    - (* encode *)
      destruct Ho as [HL' HLd]. unfold hstep.
      destruct (wrap_encode (enc_kernel a) L Ld) as [[|accs]| | |] eqn:E; simpl; try (split; [exact Hs | apply Forall_nil]).
      split; [unfold hwf; simpl; lia|].
      constructor; [|constructor]. unfold ev_safe; simpl.
      eapply wrap_encode_safe; eauto. intros; apply enc_kernel_safe; auto.
    - (* stripe *)
      destruct a; simpl.
      + split; [unfold hwf, set_seq; simpl; pose proof (gstripe_rows_nonneg _ HE); lia|].
        constructor; [|constructor]. unfold ev_safe; simpl.
        apply fp_stripe_generic_safe; [auto | exact layout_u8_32].
      + split; [unfold hwf, set_seq; simpl; pose proof (gstripe_rows_nonneg _ HE); lia|].
        constructor; [|constructor]. unfold ev_safe; simpl.
        apply fp_stripe_generic_safe; [auto | exact layout_u8_32].
      + split; [unfold hwf, set_seq; simpl; pose proof (stripe_rows_nonneg _ HE); lia|].
        constructor; [|constructor]. unfold ev_safe; simpl.
        apply fp_stripe_avx2_safe; [auto | exact layout_u8_32].
    - (* sample *)
      simpl. split; [unfold hwf, set_seq; simpl; pose proof (sample_rows_nonneg _ Ho); lia|].
      constructor; [|constructor]. unfold ev_safe; simpl.
      exact (fp_sample_safe 32 32 L layout_u8_32 Ho).
    - (* configure_wrap *)
      simpl. unfold configure_wrap_model. destruct (hwrap s <? m) eqn:E; simpl.
      + apply Z.ltb_lt in E. split; [unfold hwf, set_seq; simpl; lia | constructor].
      + split; [unfold hwf, set_seq; simpl; lia | constructor].
    - (* motif *)
      simpl. split; [unfold hwf; simpl; lia | constructor].
    - (* f32 scoring *)
      destruct Ho as [Hlo Hhi]. unfold hstep.
      set (p := score_params K s pstF lo hi).
      assert (Hp : sp_nonneg p) by (apply score_params_nonneg; auto).
      destruct a.
      + destruct (wrap_score_generic p) as [[|accs]| |n|] eqn:E; simpl; try (split; [exact Hs | apply Forall_nil]).
        * split; [unfold hwf; simpl; lia | constructor].
        * pose proof (wrap_score_generic_range _ _ E) as Hr. apply wrap_score_generic_entered in E. subst accs.
          split; [unfold hwf; simpl; pose proof (sat_sub_nonneg (hL s + 1) (hM s)); unfold p, score_params in Hr; simpl in Hr; lia|].
          constructor; [|constructor]. unfold ev_safe; simpl. constructor.
        * pose proof (wrap_score_generic_panic_range _ _ E) as Hr.
          split; [unfold hwf; simpl; pose proof (sat_sub_nonneg (hL s + 1) (hM s)); unfold p, score_params in Hr; simpl in Hr; lia | constructor].
      + destruct (wrap_score_sse2 true 32 p) as [[|accs]| | |] eqn:E; simpl; try (split; [exact Hs | apply Forall_nil]).
        * split; [unfold hwf; simpl; lia | constructor].
        * pose proof (score_guard_range _ _ _ _ E) as Hr.
          split; [unfold hwf; simpl; pose proof (sat_sub_nonneg (hL s + 1) (hM s)); unfold p, score_params in Hr; simpl in Hr; lia|].
          constructor; [|constructor]. unfold ev_safe; simpl.
          apply (wrap_score_sse2_safe 32 p accs); auto; [exact layout_u8_32 | exact layout_f32_32].
      + destruct (wrap_score_f32_avx2 true p) as [[|accs]| | |] eqn:E; simpl; try (split; [exact Hs | apply Forall_nil]).
        * split; [unfold hwf; simpl; lia | constructor].
        * assert (Hr : pa p < pb p).
          { unfold wrap_score_f32_avx2, wrap_score_f32_avx2_permute, wrap_score_f32_avx2_gather in E.
            destruct (pK p <=? 8); [destruct (8 <? pK p); [discriminate|]|]; eapply score_guard_range; eauto. }
          split; [unfold hwf; simpl; pose proof (sat_sub_nonneg (hL s + 1) (hM s)); unfold p, score_params in Hr; simpl in Hr; lia|].
          constructor; [|constructor]. unfold ev_safe; simpl.
          apply (wrap_score_f32_avx2_safe p accs); auto; [exact layout_u8_32 | exact layout_f32_32].
    - (* u8 scoring *)
      destruct Ho as [Hlo Hhi]. unfold hstep.
      set (p := score_params K s pstU lo hi).
      assert (Hp : sp_nonneg p) by (apply score_params_nonneg; auto).
      assert (Hgen : forall g, g = wrap_score_generic p ->
                hwf (fst (match g with
                          | Ok (Entered accs) =>
                              (mkH (hE s) (hL s) (hSR s) (hwrap s) (hM s) (hFR s) (hFI s) (hi - lo),
                               [mkEv (ext_score 1 p) balign_mat_src accs])
                          | Ok Skipped => (mkH (hE s) (hL s) (hSR s) (hwrap s) (hM s) (hFR s) (hFI s) 0, [])
                          | Panic _ => (mkH (hE s) (hL s) (hSR s) (hwrap s) (hM s) (hFR s) (hFI s) (hi - lo), [])
                          | _ => (s, [])
                          end)) /\
                Forall ev_safe (snd (match g with
                          | Ok (Entered accs) =>
                              (mkH (hE s) (hL s) (hSR s) (hwrap s) (hM s) (hFR s) (hFI s) (hi - lo),
                               [mkEv (ext_score 1 p) balign_mat_src accs])
                          | Ok Skipped => (mkH (hE s) (hL s) (hSR s) (hwrap s) (hM s) (hFR s) (hFI s) 0, [])
                          | Panic _ => (mkH (hE s) (hL s) (hSR s) (hwrap s) (hM s) (hFR s) (hFI s) (hi - lo), [])
                          | _ => (s, [])
                          end))).
      { intros g Hg. destruct g as [[|accs]| |n|] eqn:E; simpl; try (split; [exact Hs | apply Forall_nil]).
        - split; [unfold hwf; simpl; lia | constructor].
        - symmetry in Hg. pose proof (wrap_score_generic_range _ _ Hg) as Hr.
          apply wrap_score_generic_entered in Hg. subst accs.
          split; [unfold hwf; simpl; unfold p, score_params in Hr; simpl in Hr; lia|].
          constructor; [|constructor]. unfold ev_safe; simpl. constructor.
        - symmetry in Hg. pose proof (wrap_score_generic_panic_range _ _ Hg) as Hr.
          split; [unfold hwf; simpl; unfold p, score_params in Hr; simpl in Hr; lia | constructor]. }
      destruct a; try (apply Hgen; reflexivity).
      destruct (wrap_score_u8_avx2 true p) as [[|accs]| | |] eqn:E; simpl; try (split; [exact Hs | apply Forall_nil]).
      + split; [unfold hwf; simpl; lia | constructor].
      + pose proof (score_guard_range _ _ _ _ E) as Hr.
        split; [unfold hwf; simpl; unfold p, score_params in Hr; simpl in Hr; lia|].
        constructor; [|constructor]. unfold ev_safe; simpl.
        apply (wrap_score_u8_safe p accs); auto; exact layout_u8_32.
    - (* resize *)
      simpl. split; [unfold hwf; simpl; lia | constructor].
    - (* argmax f32 *)
      destruct a; simpl; try (split; [exact Hs | apply Forall_nil]).
      + destruct (wrap_argmax_sse2 32 (hFR s) (hFI s) 32) as [[|accs]| | |] eqn:E; simpl; try (split; [exact Hs | apply Forall_nil]).
        split; [exact Hs|]. constructor; [|constructor]. unfold ev_safe; simpl.
        exact (wrap_argmax_sse2_safe 32 (hFR s) (hFI s) 32 accs layout_f32_32 HFR E).
      + destruct (wrap_argmax_f32_avx2 (hFR s) (hFI s) 32) as [[|accs]| | |] eqn:E; simpl; try (split; [exact Hs | apply Forall_nil]).
        split; [exact Hs|]. constructor; [|constructor]. unfold ev_safe; simpl.
        eapply wrap_argmax_f32_avx2_safe; eauto. exact layout_f32_32.
    - (* max f32 *)
      destruct a; simpl; try (split; [exact Hs | apply Forall_nil]).
      + destruct (wrap_argmax_sse2 32 (hFR s) (hFI s) 32) as [[|accs]| | |] eqn:E; simpl; try (split; [exact Hs | apply Forall_nil]).
        split; [exact Hs|]. constructor; [|constructor]. unfold ev_safe; simpl.
        exact (wrap_argmax_sse2_safe 32 (hFR s) (hFI s) 32 accs layout_f32_32 HFR E).
      + destruct (wrap_max_f32_avx2 (hFR s) 32) as [[|accs]| | |] eqn:E; simpl; try (split; [exact Hs | apply Forall_nil]).
        split; [exact Hs|]. constructor; [|constructor]. unfold ev_safe; simpl.
        eapply wrap_max_f32_avx2_safe; eauto. exact layout_f32_32.
    - (* argmax u8 *)
      destruct a; simpl; try (split; [exact Hs | apply Forall_nil]).
      destruct (wrap_argmax_u8_avx2 (hUR s) 32) as [[|accs]| | |] eqn:E; simpl; try (split; [exact Hs | apply Forall_nil]).
      split; [exact Hs|]. constructor; [|constructor]. unfold ev_safe; simpl.
      eapply wrap_argmax_u8_avx2_safe; eauto. exact layout_u8_32.
    - (* max u8 *)
      destruct a; simpl; try (split; [exact Hs | apply Forall_nil]).
      destruct (wrap_max_u8_avx2 (hUR s) 32) as [[|accs]| | |] eqn:E; simpl; try (split; [exact Hs | apply Forall_nil]).
      split; [exact Hs|]. constructor; [|constructor]. unfold ev_safe; simpl.
      eapply wrap_max_u8_avx2_safe; eauto. exact layout_u8_32.
  Qed.

  Lemma htrace_safe ops : forall s,
    hwf s -> Forall hop_wf ops ->
    Forall ev_safe (htrace K pstF pstU s ops) /\ hwf (hfinal K pstF pstU s ops).
  Proof.
    induction ops as [|o r IH]; intros s Hs Ho; simpl.
    - split; [constructor | exact Hs].
    - inversion Ho as [|? ? Ho1 Ho2]; subst.
      destruct (hstep_safe s o Hs Ho1) as [Hs' Hev].
      destruct (hstep K pstF pstU s o) as [s' ev] eqn:E. simpl in Hs', Hev.
      destruct (IH s' Hs' Ho2) as [Ht Hf]. split; [apply Forall_app; split; auto | exact Hf].
  Qed.
End HistoryProofs.
