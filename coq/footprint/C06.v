(* Property C06 — no safe API call reads or writes outside the memory it owns.
   PARTIAL: a FOOTPRINT MODEL.  What is proved: for every unsafe kernel, for ALL
   parameter values that pass the guards of its safe wrapper, every access of the
   kernel's footprint (FpModel.v: transcribed from the pointer arithmetic of the code)
   lies inside the buffer it addresses (extents from the dense layout model: rows *
   stride * element size, not Vec capacity) and every aligned vector access is aligned
   whenever the buffers start where their owners guarantee (matrices: 32-byte aligned
   rows; slices and stack arrays: no guarantee).  What is NOT proved: that the Rust
   code performs exactly these accesses (tied by the AddressSanitizer correspondence
   run and the translator check of the constants), allocator, compiler, data races.

   Full statement (kept for the record, not provable at this level):
     for every in-contract history of safe API calls on the real machine, every
     access of the library is inside a live allocation owned by its arguments/results.

   This file contains only statements closed by lemmas of FpProofs. *)
From Coq Require Import List ZArith Bool Lia.
From LMBase Require Import Res.
From LMDense Require Import DenseModel C19.
From LMFootprint Require Import FpModel FpProofs FpTight FpNeon FpNeonProofs FpHistory FpHistoryProofs FpComplete.
Import ListNotations.
Open Scope Z_scope.

(* ---------- layout hypotheses are those of the dense layout model (C19) ---------- *)

Theorem fp_layout_from_dense : forall es C : nat,
  (0 < es)%nat -> (0 < C)%nat -> (32 mod es = 0)%nat ->
  layout_ok (Z.of_nat es) (Z.of_nat C) (Z.of_nat (stride es C 32)) /\
  (forall r base : nat,
     Z.of_nat (row_addr base es C 32 r)
     = Z.of_nat base + Z.of_nat r * Z.of_nat (stride es C 32) * Z.of_nat es).
Proof.
  intros es C He HC Hd. split.
  - exact (dense_layout_ok es C He HC Hd).
  - intros r base. exact (dense_row_offset es C r base He Hd).
Qed.

(* ---------- stripe_avx2 ---------- *)

Theorem fp_stripe_avx2_in_bounds : forall L ost,
  0 <= L -> layout_ok 1 32 ost ->
  Forall (InBounds (ext_stripe L ost)) (fp_stripe_avx2 L ost).
Proof. intros L ost HL Hl. exact (safe_in_bounds _ _ _ (fp_stripe_avx2_safe L ost HL Hl)). Qed.

Theorem fp_stripe_avx2_aligned : forall L ost,
  0 <= L -> layout_ok 1 32 ost ->
  Forall (Aligned balign_stripe) (fp_stripe_avx2 L ost).
Proof. intros L ost HL Hl. exact (safe_aligned _ _ _ (fp_stripe_avx2_safe L ost HL Hl)). Qed.

(* the block loop of the model ends because the (repaired) condition fails *)
Theorem fp_stripe_avx2_loop_exits : forall L, 0 <= L ->
  stripe_cond false L (stripe_rows L) (32 * Z.of_nat (length (stripe_block_idx false L))) = false.
Proof. exact stripe_loop_exits. Qed.

(* with the block condition before commit c26f6ea (`i + 32 <= src_stride` only) the last
   vector load of the block reads 24 bytes past a 1000-symbol slice *)
Theorem fp_stripe_avx2_old_refuted :
  exists a, In a (fp_stripe_avx2_gen true 1000 32) /\ ~ InBounds (ext_stripe 1000 32) a /\
            a = rd B_SRC 992 32 1.
Proof.
  exists (rd B_SRC 992 32 1).
  assert (H : first_bad (ext_stripe 1000 32) balign_stripe (fp_stripe_avx2_gen true 1000 32)
              = Some (rd B_SRC 992 32 1)) by (vm_compute; reflexivity).
  destruct (bad_access_out_of_bounds _ _ _ _ H ltac:(vm_compute; reflexivity)) as [H1 H2].
  auto.
Qed.

Theorem fp_stripe_generic_safe : forall C L ost,
  0 <= L -> layout_ok 1 C ost ->
  Forall (Safe (ext_gstripe C L ost) balign_stripe) (fp_stripe_generic C L ost).
Proof. exact FpProofs.fp_stripe_generic_safe. Qed.

(* ---------- AVX2 scoring kernels ---------- *)

Theorem fp_score_f32_avx2_permute_in_bounds : forall p accs,
  sp_nonneg p -> layout_ok 1 32 (psst p) -> layout_ok 4 (pK p) (ppst p) -> layout_ok 4 32 (pdst p) ->
  wrap_score_f32_avx2_permute true p = Ok (Entered accs) ->
  Forall (InBounds (ext_score 4 p)) accs.
Proof. intros p accs H1 H2 H3 H4 H5. exact (safe_in_bounds _ _ _ (wrap_score_permute_safe p accs H1 H2 H3 H4 H5)). Qed.

Theorem fp_score_f32_avx2_permute_aligned : forall p accs,
  sp_nonneg p -> layout_ok 1 32 (psst p) -> layout_ok 4 (pK p) (ppst p) -> layout_ok 4 32 (pdst p) ->
  wrap_score_f32_avx2_permute true p = Ok (Entered accs) ->
  Forall (Aligned balign_mat_src) accs.
Proof. intros p accs H1 H2 H3 H4 H5. exact (safe_aligned _ _ _ (wrap_score_permute_safe p accs H1 H2 H3 H4 H5)). Qed.

Theorem fp_score_f32_avx2_gather_in_bounds : forall p accs,
  sp_nonneg p -> layout_ok 1 32 (psst p) -> layout_ok 4 (pK p) (ppst p) -> layout_ok 4 32 (pdst p) ->
  wrap_score_f32_avx2_gather true p = Ok (Entered accs) ->
  Forall (InBounds (ext_score 4 p)) accs.
Proof. intros p accs H1 H2 H3 H4 H5. exact (safe_in_bounds _ _ _ (wrap_score_gather_safe p accs H1 H2 H3 H4 H5)). Qed.

Theorem fp_score_f32_avx2_gather_aligned : forall p accs,
  sp_nonneg p -> layout_ok 1 32 (psst p) -> layout_ok 4 (pK p) (ppst p) -> layout_ok 4 32 (pdst p) ->
  wrap_score_f32_avx2_gather true p = Ok (Entered accs) ->
  Forall (Aligned balign_mat_src) accs.
Proof. intros p accs H1 H2 H3 H4 H5. exact (safe_aligned _ _ _ (wrap_score_gather_safe p accs H1 H2 H3 H4 H5)). Qed.

Theorem fp_score_u8_avx2_shuffle_in_bounds : forall p accs,
  sp_nonneg p -> layout_ok 1 32 (psst p) -> layout_ok 1 (pK p) (ppst p) -> layout_ok 1 32 (pdst p) ->
  wrap_score_u8_avx2 true p = Ok (Entered accs) ->
  Forall (InBounds (ext_score 1 p)) accs.
Proof. intros p accs H1 H2 H3 H4 H5. exact (safe_in_bounds _ _ _ (wrap_score_u8_safe p accs H1 H2 H3 H4 H5)). Qed.

Theorem fp_score_u8_avx2_shuffle_aligned : forall p accs,
  sp_nonneg p -> layout_ok 1 32 (psst p) -> layout_ok 1 (pK p) (ppst p) -> layout_ok 1 32 (pdst p) ->
  wrap_score_u8_avx2 true p = Ok (Entered accs) ->
  Forall (Aligned balign_mat_src) accs.
Proof. intros p accs H1 H2 H3 H4 H5. exact (safe_aligned _ _ _ (wrap_score_u8_safe p accs H1 H2 H3 H4 H5)). Qed.

(* without the range guard of commit 38882ad a row range reaching into the look-ahead rows
   (64 symbols: 2 sequence rows + 2 look-ahead rows, motif of width 3, rows 0..4) makes the
   kernel load row 4 of a 4-row matrix *)
Definition old_rows_witness : SP := mkSP 5 64 4 2 3 0 4 32 8 32.

Theorem fp_score_rows_old_refuted :
  sp_nonneg old_rows_witness /\
  wrap_score_f32_avx2 true old_rows_witness = Panic 4 /\
  exists accs a,
    wrap_score_f32_avx2 false old_rows_witness = Ok (Entered accs) /\
    In a accs /\ ~ InBounds (ext_score 4 old_rows_witness) a /\ a = rd B_SRC 128 32 32.
Proof.
  split; [unfold sp_nonneg, old_rows_witness; simpl; lia|].
  split; [vm_compute; reflexivity|].
  exists (fp_score_f32_avx2_permute old_rows_witness), (rd B_SRC 128 32 32).
  split; [vm_compute; reflexivity|].
  assert (H : first_bad (ext_score 4 old_rows_witness) balign_mat_src
                (fp_score_f32_avx2_permute old_rows_witness) = Some (rd B_SRC 128 32 32))
    by (vm_compute; reflexivity).
  destruct (bad_access_out_of_bounds _ _ _ _ H ltac:(vm_compute; reflexivity)) as [H1 H2].
  auto.
Qed.

(* ---------- SSE2 kernels ---------- *)

Theorem fp_score_sse2_in_bounds : forall C p accs,
  sp_nonneg p -> layout_ok 1 C (psst p) -> layout_ok 4 (pK p) (ppst p) -> layout_ok 4 C (pdst p) ->
  wrap_score_sse2 true C p = Ok (Entered accs) ->
  Forall (InBounds (ext_score 4 p)) accs.
Proof. intros C p accs H1 H2 H3 H4 H5. exact (safe_in_bounds _ _ _ (wrap_score_sse2_safe C p accs H1 H2 H3 H4 H5)). Qed.

Theorem fp_score_sse2_aligned : forall C p accs,
  sp_nonneg p -> layout_ok 1 C (psst p) -> layout_ok 4 (pK p) (ppst p) -> layout_ok 4 C (pdst p) ->
  wrap_score_sse2 true C p = Ok (Entered accs) ->
  Forall (Aligned balign_mat_src) accs.
Proof. intros C p accs H1 H2 H3 H4 H5. exact (safe_aligned _ _ _ (wrap_score_sse2_safe C p accs H1 H2 H3 H4 H5)). Qed.

Theorem fp_argmax_sse2_in_bounds : forall C rows maxidx st accs,
  layout_ok 4 C st -> 0 <= rows -> wrap_argmax_sse2 C rows maxidx st = Ok (Entered accs) ->
  Forall (InBounds (ext_max 4 rows st (4 * C))) accs.
Proof. intros C rows mi st accs H1 H2 H3. exact (safe_in_bounds _ _ _ (wrap_argmax_sse2_safe C rows mi st accs H1 H2 H3)). Qed.

Theorem fp_argmax_sse2_aligned : forall C rows maxidx st accs,
  layout_ok 4 C st -> 0 <= rows -> wrap_argmax_sse2 C rows maxidx st = Ok (Entered accs) ->
  Forall (Aligned balign_mat_src) accs.
Proof. intros C rows mi st accs H1 H2 H3. exact (safe_aligned _ _ _ (wrap_argmax_sse2_safe C rows mi st accs H1 H2 H3)). Qed.

(* ---------- AVX2 max / argmax kernels ---------- *)

Theorem fp_argmax_f32_avx2_safe : forall rows maxidx st accs,
  layout_ok 4 32 st -> 0 <= rows -> wrap_argmax_f32_avx2 rows maxidx st = Ok (Entered accs) ->
  Forall (InBounds (ext_max 4 rows st 128)) accs /\ Forall (Aligned balign_mat_src) accs.
Proof.
  intros rows mi st accs H1 H2 H3. pose proof (wrap_argmax_f32_avx2_safe rows mi st accs H1 H2 H3) as S.
  split; [exact (safe_in_bounds _ _ _ S) | exact (safe_aligned _ _ _ S)].
Qed.

Theorem fp_max_f32_avx2_safe : forall rows st accs,
  layout_ok 4 32 st -> 0 <= rows -> wrap_max_f32_avx2 rows st = Ok (Entered accs) ->
  Forall (InBounds (ext_max 4 rows st 32)) accs /\ Forall (Aligned balign_mat_src) accs.
Proof.
  intros rows st accs H1 H2 H3. pose proof (wrap_max_f32_avx2_safe rows st accs H1 H2 H3) as S.
  split; [exact (safe_in_bounds _ _ _ S) | exact (safe_aligned _ _ _ S)].
Qed.

Theorem fp_argmax_u8_avx2_safe : forall rows st accs,
  layout_ok 1 32 st -> 0 <= rows -> wrap_argmax_u8_avx2 rows st = Ok (Entered accs) ->
  Forall (InBounds (ext_max 1 rows st 64)) accs /\ Forall (Aligned balign_mat_src) accs.
Proof.
  intros rows st accs H1 H2 H3. pose proof (wrap_argmax_u8_avx2_safe rows st accs H1 H2 H3) as S.
  split; [exact (safe_in_bounds _ _ _ S) | exact (safe_aligned _ _ _ S)].
Qed.

Theorem fp_max_u8_avx2_safe : forall rows st accs,
  layout_ok 1 32 st -> 0 <= rows -> wrap_max_u8_avx2 rows st = Ok (Entered accs) ->
  Forall (InBounds (ext_max 1 rows st 32)) accs /\ Forall (Aligned balign_mat_src) accs.
Proof.
  intros rows st accs H1 H2 H3. pose proof (wrap_max_u8_avx2_safe rows st accs H1 H2 H3) as S.
  split; [exact (safe_in_bounds _ _ _ S) | exact (safe_aligned _ _ _ S)].
Qed.

(* ---------- encode kernels (and encode_raw: destination of exactly L bytes) ---------- *)

Theorem fp_encode_into_avx2_safe : forall L Ld accs,
  0 <= L -> wrap_encode fp_encode_into_avx2 L Ld = Ok (Entered accs) ->
  Forall (InBounds (ext_encode L Ld)) accs /\ Forall (Aligned balign_slices) accs.
Proof.
  intros L Ld accs HL H.
  pose proof (wrap_encode_safe fp_encode_into_avx2 L Ld accs
                (fun L HL => fp_encode_simd_safe 32 false L ltac:(lia) HL) HL H) as S.
  split; [exact (safe_in_bounds _ _ _ S) | exact (safe_aligned _ _ _ S)].
Qed.

Theorem fp_encode_into_sse2_safe : forall L Ld accs,
  0 <= L -> wrap_encode fp_encode_into_sse2 L Ld = Ok (Entered accs) ->
  Forall (InBounds (ext_encode L Ld)) accs /\ Forall (Aligned balign_slices) accs.
Proof.
  intros L Ld accs HL H.
  pose proof (wrap_encode_safe fp_encode_into_sse2 L Ld accs fp_encode_into_sse2_all_safe HL H) as S.
  split; [exact (safe_in_bounds _ _ _ S) | exact (safe_aligned _ _ _ S)].
Qed.

Theorem fp_encode_generic_safe : forall L Ld accs,
  0 <= L -> wrap_encode fp_encode_generic L Ld = Ok (Entered accs) ->
  Forall (InBounds (ext_encode L Ld)) accs /\ Forall (Aligned balign_slices) accs.
Proof.
  intros L Ld accs HL H.
  pose proof (wrap_encode_safe fp_encode_generic L Ld accs FpProofs.fp_encode_generic_safe HL H) as S.
  split; [exact (safe_in_bounds _ _ _ S) | exact (safe_aligned _ _ _ S)].
Qed.

(* encode_raw never panics on the length assertion and stays inside its L uninitialised bytes *)
Theorem fp_encode_raw_safe : forall L, 0 <= L ->
  wrap_encode_raw fp_encode_into_avx2 L = Ok (Entered (fp_encode_into_avx2 L)) /\
  Forall (InBounds (ext_encode L L)) (fp_encode_into_avx2 L) /\
  Forall (InBounds (ext_encode L L)) (fp_encode_into_sse2 L) /\
  Forall (InBounds (ext_encode L L)) (fp_encode_generic L).
Proof.
  intros L HL. repeat split.
  - unfold wrap_encode_raw, wrap_encode. rewrite Z.eqb_refl. reflexivity.
  - exact (safe_in_bounds _ _ _ (fp_encode_simd_safe 32 false L ltac:(lia) HL)).
  - exact (safe_in_bounds _ _ _ (fp_encode_into_sse2_all_safe L HL)).
  - exact (safe_in_bounds _ _ _ (FpProofs.fp_encode_generic_safe L HL)).
Qed.

Theorem fp_encode_loops_exit : forall L, 0 <= L ->
  enc_cond 32 false L (enc_tail_start 32 false L) = false /\
  enc_cond 16 true L (enc_tail_start 16 true L) = false.
Proof. intros L HL. split; apply enc_loop_exits; lia. Qed.

(* ---------- dense.rs / seq.rs ---------- *)

Theorem fp_from_rows_safe : forall es C st n m ragged accs,
  layout_ok es C st -> (es | 32) -> 0 <= n ->
  fp_from_rows es C st n m ragged = Ok (Entered accs) ->
  Forall (InBounds (ext_dense es st n)) accs /\ Forall (Aligned balign_dense) accs.
Proof.
  intros es C st n m ragged accs Hl He Hn H. apply fp_from_rows_entered in H. subst accs.
  pose proof (FpProofs.fp_from_rows_safe es C st n m ragged Hl He Hn) as S.
  split; [exact (safe_in_bounds _ _ _ S) | exact (safe_aligned _ _ _ S)].
Qed.

(* ... and also what it wrote before panicking on a ragged row / a lying ExactSizeIterator *)
Theorem fp_from_rows_prefix_safe : forall es C st n m ragged,
  layout_ok es C st -> (es | 32) -> 0 <= n ->
  Forall (Safe (ext_dense es st n) balign_dense) (fp_from_rows_accs es C st n m ragged).
Proof. exact FpProofs.fp_from_rows_safe. Qed.

(* every row the (repaired) from_rows exposes was written, whatever the iterator claims about its length *)
Theorem fp_from_rows_exposes_written_rows : forall es C st n m r,
  0 <= r < from_rows_rows true n m ->
  In (wr B_DST (r * st * es) (C * es) es) (fp_from_rows_accs es C st n m (-1)).
Proof.
  intros es C st n m r Hr. unfold from_rows_rows in Hr. unfold fp_from_rows_accs.
  replace ((0 <=? -1) && (-1 <? Z.min n m)) with false by reflexivity.
  apply in_map_iff. exists r. split; [reflexivity | apply In_zrange; lia].
Qed.

(* observation O1: before the repair an iterator whose len() is 4 and which yields 1 row gave a matrix of 4
   rows of which row 1 was never written *)
Theorem fp_from_rows_old_refuted :
  exists n m r, 0 <= r < from_rows_rows false n m /\
    ~ In (wr B_DST (r * 8 * 4) (5 * 4) 4) (fp_from_rows_accs 4 5 8 n m (-1)).
Proof.
  exists 4, 1, 1. split; [vm_compute; split; [discriminate | reflexivity]|].
  vm_compute. intros [H|[]]. discriminate H.
Qed.

Theorem fp_ravel_fill_safe : forall es st rows,
  0 < es -> (es | 32) -> 0 <= rows -> 0 <= st ->
  Forall (Safe (ext_dense es st rows) balign_dense) (fp_ravel es st rows) /\
  Forall (Safe (ext_dense es st rows) balign_dense) (fp_fill es st rows).
Proof.
  intros es st rows He Hd Hr Hs. split.
  - exact (fp_ravel_safe es st rows He Hd Hr Hs).
  - exact (fp_fill_safe es st rows He Hd).
Qed.

Theorem fp_sample_safe : forall C st L,
  layout_ok 1 C st -> 0 <= L ->
  Forall (Safe (ext_dense 1 st (sample_rows C L)) balign_dense) (fp_sample C st L).
Proof. exact FpProofs.fp_sample_safe. Qed.

(* ---------- NEON kernels (neon.rs; not compiled for the x86_64 host: source tie only, no sanitizer run) ---------- *)

Theorem fp_encode_into_neon_safe : forall L Ld accs,
  0 <= L -> wrap_encode fp_encode_into_neon L Ld = Ok (Entered accs) ->
  Forall (InBounds (ext_encode L Ld)) accs /\ Forall (Aligned balign_slices) accs.
Proof.
  intros L Ld accs HL H.
  pose proof (wrap_encode_safe fp_encode_into_neon L Ld accs
                (fun L HL => fp_encode_simd_safe 64 true L ltac:(lia) HL) HL H) as S.
  split; [exact (safe_in_bounds _ _ _ S) | exact (safe_aligned _ _ _ S)].
Qed.

(* the NEON scoring kernels are safe for every call their wrappers let through (the wrappers have the
   row-range guard of the x86 wrappers since commit 9cd9b52) *)
Theorem fp_score_f32_neon_safe : forall C p accs,
  sp_nonneg p -> layout16_ok 1 C (psst p) -> layout16_ok 4 (pK p) (ppst p) -> layout16_ok 4 C (pdst p) ->
  wrap_score_f32_neon true C p = Ok (Entered accs) ->
  Forall (InBounds (ext_score 4 p)) accs /\ Forall (Aligned balign_mat16) accs.
Proof.
  intros C p accs H1 H2 H3 H4 H5. pose proof (wrap_score_f32_neon_ranged_safe C p accs H1 H2 H3 H4 H5) as S.
  split; [exact (safe_in_bounds _ _ _ S) | exact (safe_aligned _ _ _ S)].
Qed.

Theorem fp_score_u8_neon_safe : forall C p accs,
  sp_nonneg p -> layout16_ok 1 C (psst p) -> layout16_ok 1 (pK p) (ppst p) -> layout16_ok 1 C (pdst p) ->
  wrap_score_u8_neon true C p = Ok (Entered accs) ->
  Forall (InBounds (ext_score 1 p)) accs /\ Forall (Aligned balign_mat16) accs.
Proof.
  intros C p accs H1 H2 H3 H4 H5. pose proof (wrap_score_u8_neon_ranged_safe C p accs H1 H2 H3 H4 H5) as S.
  split; [exact (safe_in_bounds _ _ _ S) | exact (safe_aligned _ _ _ S)].
Qed.

(* the repaired wrappers panic exactly where the old ones went out of bounds *)
Theorem fp_score_neon_guard_panics : forall C p,
  pM p <> 0 -> pM p - 1 <= pwrap p -> pM p <= pL p -> pa p < pb p -> pSR p < pb p + pM p - 1 ->
  wrap_score_f32_neon true C p = Panic 4 /\ wrap_score_u8_neon true C p = Panic 4.
Proof. intros C p H0 H1 H2 H3 H4. split; apply range_guard_panics; auto. Qed.

(* F26 (repaired in commit 9cd9b52): BEFORE that commit Neon::score_f32_rows_into / score_u8_rows_into only
   had the wrap check and the early return (ranged = false).  Every call those wrappers let through whose row
   range reached past the matrix loaded 16 bytes beyond the sequence matrix (the defect F09 repaired for
   AVX2/SSE2 in commit 38882ad): for ALL parameters *)
Theorem fp_score_neon_old_refuted : forall C p accs,
  sp_nonneg p -> 16 <= C -> 16 <= psst p -> pSR p < pb p + pM p - 1 ->
  (wrap_score_f32_neon false C p = Ok (Entered accs) -> exists a, In a accs /\ ~ InBounds (ext_score 4 p) a) /\
  (wrap_score_u8_neon false C p = Ok (Entered accs) -> exists a, In a accs /\ ~ InBounds (ext_score 1 p) a).
Proof. exact neon_unranged_oob. Qed.

(* a reachable instance: 64 symbols striped in 16 columns (4 rows), configure_wrap(2) (6 rows), a motif of
   3 rows, score_rows_into(.., 0..6, ..): the old wrapper entered the kernel, whose load of matrix row 6
   starts at the end of the 96-byte matrix; the repaired wrapper panics *)
Theorem fp_score_neon_old_witness_refuted :
  sp_nonneg neon_rows_witness /\
  layout16_ok 1 16 (psst neon_rows_witness) /\ layout16_ok 4 5 (ppst neon_rows_witness) /\
  layout16_ok 4 16 (pdst neon_rows_witness) /\
  wrap_score_f32_neon true 16 neon_rows_witness = Panic 4 /\
  exists accs a,
    wrap_score_f32_neon false 16 neon_rows_witness = Ok (Entered accs) /\
    In a accs /\ ~ InBounds (ext_score 4 neon_rows_witness) a /\ a = rd B_SRC 96 16 1.
Proof.
  split; [unfold sp_nonneg, neon_rows_witness; simpl; lia|].
  split; [unfold layout16_ok, neon_rows_witness; simpl; repeat split; lia|].
  split; [unfold layout16_ok, neon_rows_witness; simpl; repeat split; lia|].
  split; [unfold layout16_ok, neon_rows_witness; simpl; repeat split; lia|].
  split; [vm_compute; reflexivity|].
  exists (fp_score_f32_neon 16 neon_rows_witness), (rd B_SRC 96 16 1).
  split; [vm_compute; reflexivity|].
  assert (H : first_bad (ext_score 4 neon_rows_witness) balign_mat16
                (fp_score_f32_neon 16 neon_rows_witness) = Some (rd B_SRC 96 16 1))
    by (vm_compute; reflexivity).
  destruct (bad_access_out_of_bounds _ _ _ _ H ltac:(vm_compute; reflexivity)) as [H1 H2].
  auto.
Qed.

(* ---------- the guards are necessary, not only sufficient ---------- *)

(* whenever the row-range guard of the AVX2 f32 / u8 wrappers fires, the kernel entered without
   it (the wrappers before commit 38882ad) reads past the sequence matrix: for ALL parameters *)
Theorem fp_range_guard_necessary : forall p accs,
  sp_nonneg p -> 0 < psst p -> pSR p < pb p + pM p - 1 ->
  (wrap_score_f32_avx2 false p = Ok (Entered accs) -> exists a, In a accs /\ ~ InBounds (ext_score 4 p) a) /\
  (wrap_score_u8_avx2 false p = Ok (Entered accs) -> exists a, In a accs /\ ~ InBounds (ext_score 1 p) a).
Proof.
  intros p accs Hn Hs Hr. split; intros H.
  - exact (range_guard_necessary_f32 p accs Hn Hs H Hr).
  - exact (range_guard_necessary_u8 p accs Hn Hs H Hr).
Qed.

(* ... and in exactly these cases the repaired wrappers panic before touching anything *)
Theorem fp_range_guard_panics : forall p,
  pM p <> 0 -> pM p - 1 <= pwrap p -> pM p <= pL p -> pa p < pb p -> pSR p < pb p + pM p - 1 ->
  wrap_score_f32_avx2_gather true p = Panic 4 /\ wrap_score_u8_avx2 true p = Panic 4 /\
  (forall C, wrap_score_sse2 true C p = Panic 4).
Proof.
  intros p H0 H1 H2 H3 H4. repeat split; intros; apply range_guard_panics; auto.
Qed.

(* stripe_avx2: a block that the first conjunct of the loop condition admits and the second
   (added by commit c26f6ea) rejects would read past the symbol slice: for ALL lengths *)
Theorem fp_stripe_block_cond_necessary : forall L ost i,
  0 <= L -> 0 <= i ->
  stripe_cond true L (stripe_rows L) i = true ->
  stripe_cond false L (stripe_rows L) i = false ->
  In (rd B_SRC (31 * stripe_rows L + i) 32 1) (stripe_block (stripe_rows L) ost i) /\
  ~ InBounds (ext_stripe L ost) (rd B_SRC (31 * stripe_rows L + i) 32 1).
Proof. exact stripe_block_cond_necessary. Qed.

(* ---------- histories: every kernel entered along ANY sequence of safe API calls is safe ----------
   (the state records what the guards read: lengths, row counts, wrap rows; FpHistory.v)
   PARTIAL as the rest of the file: a statement about the footprint model.
   NOTE (review round 3): hwf / hop_wf only say that the components are non-negative, so this holds from ANY such
   state: it is the conjunction of the per-kernel theorems (safety relative to the guards each wrapper evaluates)
   and carries no invariant; the transitions of the history model are verified by no theorem here, only compared
   with the implementation per op by the driver (DIFF).  The inductive statement — an invariant (rows <= capacity
   for every matrix, shape of the sequence matrix) preserved by every transition, every access inside the allocation
   as it is at that step — is C06b.v: C06_histories_invariant_partial. *)
Theorem C06_histories_partial : forall K pstF pstU ops s,
  layout_ok 4 K pstF -> layout_ok 1 K pstU ->
  hwf s -> Forall hop_wf ops ->
  Forall (fun e => Forall (InBounds (ev_ext e)) (ev_accs e) /\ Forall (Aligned (ev_al e)) (ev_accs e))
         (htrace K pstF pstU s ops).
Proof.
  intros K pstF pstU ops s HF HU Hs Ho.
  destruct (htrace_safe K pstF pstU HF HU ops s Hs Ho) as [H _].
  eapply Forall_impl; [|exact H]. intros e He. split.
  - exact (safe_in_bounds _ _ _ He).
  - exact (safe_aligned _ _ _ He).
Qed.

(* ---------- the executable checker used on the implementation's parameters is sound ---------- *)

Theorem check_C06_sound : forall ext balign l,
  check_C06 ext balign l = true -> Forall (InBounds ext) l /\ Forall (Aligned balign) l.
Proof.
  intros ext balign l H. unfold check_C06 in H. pose proof (all_ok_sound ext balign l H) as S.
  split; [exact (safe_in_bounds _ _ _ S) | exact (safe_aligned _ _ _ S)].
Qed.

(* ... and complete on the model: along ANY history of safe API calls the checker accepts the footprint
   of every kernel the wrappers let run (the property theorem in executable form; PARTIAL as above) *)
Theorem C06_model_passes_partial : forall K pstF pstU ops s,
  layout_ok 4 K pstF -> layout_ok 1 K pstU ->
  hwf s -> Forall hop_wf ops ->
  Forall (fun e => check_C06 (ev_ext e) (ev_al e) (ev_accs e) = true) (htrace K pstF pstU s ops).
Proof. intros K pstF pstU ops s. exact (htrace_passes K pstF pstU ops s). Qed.

(* ---------- summary: the first-pass obligation of DESIGN 7.1 in one statement ----------
   PARTIAL with respect to property C06 (see the head of this file): it speaks of the
   footprint model of stripe_avx2 and of the three AVX2 scoring kernels. *)
Theorem C06_footprint_first_pass_partial :
  (forall L ost, 0 <= L -> layout_ok 1 32 ost ->
     Forall (Safe (ext_stripe L ost) balign_stripe) (fp_stripe_avx2 L ost)) /\
  (forall p accs,
     sp_nonneg p -> layout_ok 1 32 (psst p) -> layout_ok 4 (pK p) (ppst p) -> layout_ok 4 32 (pdst p) ->
     wrap_score_f32_avx2 true p = Ok (Entered accs) ->
     Forall (Safe (ext_score 4 p) balign_mat_src) accs) /\
  (forall p accs,
     sp_nonneg p -> layout_ok 1 32 (psst p) -> layout_ok 1 (pK p) (ppst p) -> layout_ok 1 32 (pdst p) ->
     wrap_score_u8_avx2 true p = Ok (Entered accs) ->
     Forall (Safe (ext_score 1 p) balign_mat_src) accs).
Proof.
  split; [exact fp_stripe_avx2_safe|]. split.
  - intros p accs H1 H2 H3 H4. unfold wrap_score_f32_avx2. destruct (pK p <=? 8).
    + exact (wrap_score_permute_safe p accs H1 H2 H3 H4).
    + exact (wrap_score_gather_safe p accs H1 H2 H3 H4).
  - exact wrap_score_u8_safe.
Qed.

(* ---------- non-vacuity: the guards are passable and the footprints non-empty ---------- *)

Example fp_score_nonvacuous :
  let p := mkSP 5 1000 101 69 70 0 32 32 8 32 in
  sp_nonneg p /\ layout_ok 1 32 (psst p) /\ layout_ok 4 (pK p) (ppst p) /\ layout_ok 4 32 (pdst p) /\
  exists accs, wrap_score_f32_avx2_permute true p = Ok (Entered accs) /\ length accs = 4608%nat.
Proof.
  cbv zeta. unfold sp_nonneg, layout_ok. simpl. repeat split; try lia.
  eexists. split; [reflexivity|]. vm_compute. reflexivity.
Qed.

Example fp_stripe_nonvacuous :
  stripe_block_idx false 2049 = [0] /\ stripe_block_idx true 2049 = [0; 32] /\
  all_ok (ext_stripe 2049 32) balign_stripe (fp_stripe_avx2 2049 32) = true /\
  all_ok (ext_stripe 2049 32) balign_stripe (fp_stripe_avx2_gen true 2049 32) = false.
Proof. vm_compute. repeat split; reflexivity. Qed.

Example fp_history_nonvacuous :
  let ops := [HEncode AAvx2 2049 2049; HStripe AAvx2; HMotif 7; HConfigure 6;
              HScoreF32 AAvx2 0 65; HArgmaxF32 AAvx2; HScoreU8 AAvx2 3 40; HMaxU8 AAvx2;
              HScoreF32 AAvx2 0 66; HResize 0 0; HMaxF32 AAvx2] in
  hwf h0 /\ Forall hop_wf ops /\
  map (fun e => length (ev_accs e)) (htrace 5 8 32 h0 ops) = [2179; 2145; 1170; 268; 555; 38]%nat /\
  hfinal 5 8 32 h0 ops = mkH 2049 2049 71 6 7 0 0 0.
Proof.
  cbv zeta. split; [unfold hwf, h0; simpl; lia|]. split; [repeat constructor; simpl; lia|].
  split; vm_compute; reflexivity.
Qed.

Example fp_strides_x86 :
  map (fun ec => Z.of_nat (stride (fst ec) (snd ec) 32)) [(1, 32); (4, 5); (4, 21); (4, 32); (1, 5); (1, 16); (1, 48); (4, 16); (4, 48)]%nat
  = [32; 8; 24; 32; 32; 32; 64; 16; 48].
Proof. vm_compute. reflexivity. Qed.

Check fp_stripe_avx2_in_bounds : forall L ost,
  0 <= L -> layout_ok 1 32 ost ->
  Forall (InBounds (ext_stripe L ost)) (fp_stripe_avx2 L ost).
Check fp_score_f32_avx2_permute_in_bounds : forall p accs,
  sp_nonneg p -> layout_ok 1 32 (psst p) -> layout_ok 4 (pK p) (ppst p) -> layout_ok 4 32 (pdst p) ->
  wrap_score_f32_avx2_permute true p = Ok (Entered accs) ->
  Forall (InBounds (ext_score 4 p)) accs.
Check fp_score_f32_avx2_gather_aligned : forall p accs,
  sp_nonneg p -> layout_ok 1 32 (psst p) -> layout_ok 4 (pK p) (ppst p) -> layout_ok 4 32 (pdst p) ->
  wrap_score_f32_avx2_gather true p = Ok (Entered accs) ->
  Forall (Aligned balign_mat_src) accs.
Check C06_histories_partial : forall K pstF pstU ops s,
  layout_ok 4 K pstF -> layout_ok 1 K pstU ->
  hwf s -> Forall hop_wf ops ->
  Forall (fun e => Forall (InBounds (ev_ext e)) (ev_accs e) /\ Forall (Aligned (ev_al e)) (ev_accs e))
         (htrace K pstF pstU s ops).
Check fp_range_guard_necessary : forall p accs,
  sp_nonneg p -> 0 < psst p -> pSR p < pb p + pM p - 1 ->
  (wrap_score_f32_avx2 false p = Ok (Entered accs) -> exists a, In a accs /\ ~ InBounds (ext_score 4 p) a) /\
  (wrap_score_u8_avx2 false p = Ok (Entered accs) -> exists a, In a accs /\ ~ InBounds (ext_score 1 p) a).
Check check_C06_sound : forall ext balign l,
  check_C06 ext balign l = true -> Forall (InBounds ext) l /\ Forall (Aligned balign) l.
Check C06_model_passes_partial : forall K pstF pstU ops s,
  layout_ok 4 K pstF -> layout_ok 1 K pstU ->
  hwf s -> Forall hop_wf ops ->
  Forall (fun e => check_C06 (ev_ext e) (ev_al e) (ev_accs e) = true) (htrace K pstF pstU s ops).
Check fp_score_f32_neon_safe : forall C p accs,
  sp_nonneg p -> layout16_ok 1 C (psst p) -> layout16_ok 4 (pK p) (ppst p) -> layout16_ok 4 C (pdst p) ->
  wrap_score_f32_neon true C p = Ok (Entered accs) ->
  Forall (InBounds (ext_score 4 p)) accs /\ Forall (Aligned balign_mat16) accs.
Check fp_score_neon_old_refuted : forall C p accs,
  sp_nonneg p -> 16 <= C -> 16 <= psst p -> pSR p < pb p + pM p - 1 ->
  (wrap_score_f32_neon false C p = Ok (Entered accs) -> exists a, In a accs /\ ~ InBounds (ext_score 4 p) a) /\
  (wrap_score_u8_neon false C p = Ok (Entered accs) -> exists a, In a accs /\ ~ InBounds (ext_score 1 p) a).
