(* Footprint model for property C06 (PARTIAL: a model of *which bytes* the unsafe
   code touches, not of the machine).

   For every `unsafe` kernel of lightmotif/src/pli/platform/{avx2,sse2}.rs and the
   raw-pointer / uninitialised code of dense.rs, pli/mod.rs (encode_raw) and seq.rs
   (StripedSequence::sample) this file defines, as executable functions of the
   kernel's parameters, the list of memory accesses

       (buffer, byte offset, width in bytes, is_write, required alignment)

   the kernel performs, transcribed line by line from the pointer arithmetic of the
   code (the comment in front of each definition quotes the lines), and the guards
   the SAFE wrappers evaluate before entering the kernel (`res`: `Panic n` exactly
   where the wrapper panics, `Ok Skipped` where it returns early, `Ok (Entered l)`).

   Buffer extents come from the dense layout model (LMDense): a DenseMatrix with
   `rows` rows, element size `es` and stride `st` (elements) owns rows*st*es bytes,
   its base is 32-aligned; a slice of n one-byte elements owns n bytes and has no
   alignment guarantee.  `Vec` capacity beyond `rows` is NOT owned content.

   Executable definitions only (no proofs): the model still extracts when a proof
   breaks. All quantities are Z (binary): lengths of many thousands are fine. *)
From Coq Require Import List ZArith Bool Lia.
From LMBase Require Import Res.
Import ListNotations.
Open Scope Z_scope.

(* ---------- accesses ---------- *)

Record access := mkAcc {
  abuf : nat;      (* which buffer *)
  aoff : Z;        (* byte offset from the start of the buffer *)
  awidth : Z;      (* bytes touched *)
  awrite : bool;   (* store? *)
  aalign : Z       (* alignment the instruction / dereference requires (1 = none) *)
}.

Definition B_SRC : nat := 0.   (* input: symbol/text slice, sequence matrix, scores read by max/argmax *)
Definition B_DST : nat := 1.   (* output: symbol slice, striped matrix, score matrix *)
Definition B_PSSM : nat := 2.  (* the scoring matrix (f32 or u8) *)
Definition B_LOC : nat := 3.   (* the stack array of the kernel (x / output) *)

Definition rd (b : nat) (off w al : Z) : access := mkAcc b off w false al.
Definition wr (b : nat) (off w al : Z) : access := mkAcc b off w true al.

Inductive kernel_run := Skipped | Entered (accs : list access).

(* ---------- loops ---------- *)

Fixpoint zseq (start : Z) (n : nat) : list Z :=
  match n with O => [] | S n' => start :: zseq (start + 1) n' end.

(* the Rust range a..b *)
Definition zrange (a b : Z) : list Z := zseq a (Z.to_nat (b - a)).

(* `while cond(i) { body(i); i += step }` : the values of i for which the body runs *)
Fixpoint while_idx (fuel : nat) (cond : Z -> bool) (step : Z) (i : Z) : list Z :=
  match fuel with
  | O => []
  | S f => if cond i then i :: while_idx f cond step (i + step) else []
  end.

(* ---------- executable check of one access against extents ---------- *)

(* ext b : bytes owned in buffer b;  balign b : guaranteed alignment of its base *)
Definition acc_ok (ext balign : nat -> Z) (a : access) : bool :=
  (0 <=? aoff a) && (0 <=? awidth a) && (aoff a + awidth a <=? ext (abuf a)) &&
  ((aalign a =? 1) ||
   ((0 <? aalign a) && (balign (abuf a) mod aalign a =? 0) && (aoff a mod aalign a =? 0))).

Definition all_ok (ext balign : nat -> Z) (l : list access) : bool := forallb (acc_ok ext balign) l.

(* the property checker used by the driver on access lists (C06.v: check_C06_sound) *)
Definition check_C06 (ext balign : nat -> Z) (l : list access) : bool := all_ok ext balign l.

Fixpoint first_bad (ext balign : nat -> Z) (l : list access) : option access :=
  match l with
  | [] => None
  | a :: r => if acc_ok ext balign a then first_bad ext balign r else Some a
  end.

(* matrices are 32-aligned (repr(align(32)) rows), slices and stack arrays are not *)
Definition balign_mat_src (b : nat) : Z := if Nat.eqb b B_SRC then 32 else if Nat.eqb b B_DST then 32 else if Nat.eqb b B_PSSM then 32 else 1.
Definition balign_slices (b : nat) : Z := 1.
(* stripe: source is a slice, destination a matrix *)
Definition balign_stripe (b : nat) : Z := if Nat.eqb b B_DST then 32 else 1.

(* =====================================================================
   encode_into_avx2 / encode_into_sse2   (avx2.rs l.40-99, sse2.rs l.41-103)
   seq = B_SRC (L bytes), dst = B_DST (Ld symbols of one byte)
   ===================================================================== *)

(* `while i + STRIDE <= l` (AVX2, STRIDE = 32) / `while i + STRIDE < l` (SSE2, 16) *)
Definition enc_cond (W : Z) (strict : bool) (L i : Z) : bool :=
  if strict then i + W <? L else i + W <=? L.

Definition enc_simd_idx (W : Z) (strict : bool) (L : Z) : list Z :=
  while_idx (Z.to_nat (L / W) + 1) (enc_cond W strict L) W 0.

Definition enc_tail_start (W : Z) (strict : bool) (L : Z) : Z :=
  W * Z.of_nat (length (enc_simd_idx W strict L)).

Definition fp_encode_simd (W : Z) (strict : bool) (L : Z) : list access :=
  (* let letters = _mm(256)_loadu_si..(src_ptr); _mm(256)_storeu_si..(dst_ptr, encoded);
     src_ptr = src_ptr.add(STRIDE); dst_ptr = dst_ptr.add(STRIDE); i += STRIDE *)
  flat_map (fun i => [rd B_SRC i W 1; wr B_DST i W 1]) (enc_simd_idx W strict L)
  (* error path: `for s in seq.iter() { from_ascii( *s)?; }` *)
  ++ map (fun j => rd B_SRC j 1 1) (zrange 0 L)
  (* `if i < l { g.encode_into(&seq[i..], &mut dst[i..])?; }` : dst[k] = from_ascii(seq[k]) *)
  ++ (let i := enc_tail_start W strict L in
      if i <? L then flat_map (fun j => [rd B_SRC j 1 1; wr B_DST j 1 1]) (zrange i L) else []).

Definition fp_encode_into_avx2 (L : Z) : list access := fp_encode_simd 32 false L.
(* SSE2 tests the error flag through memory: `let mut x: [u8; 16] = [0; 16];
   _mm_storeu_si128(x.as_mut_ptr() as *mut __m128i, error)` (sse2.rs l.87-88) *)
Definition fp_encode_into_sse2 (L : Z) : list access := fp_encode_simd 16 true L ++ [wr B_LOC 0 16 1].
(* default `Encode::encode_into`: `for (i, c) in seq.iter().enumerate() { dst[i] = from_ascii( *c)? }` *)
Definition fp_encode_generic (L : Z) : list access :=
  flat_map (fun j => [rd B_SRC j 1 1; wr B_DST j 1 1]) (zrange 0 L).

(* all three start with `assert_eq!(seq.len(), dst.len())` *)
Definition wrap_encode (kern : Z -> list access) (L Ld : Z) : res kernel_run :=
  if L =? Ld then Ok (Entered (kern L)) else Panic 1.

(* `Encode::encode_raw`: `Vec::with_capacity(s.len()); set_len(s.len()); encode_into(s, &mut buffer)`:
   the destination is an (uninitialised) buffer of exactly L bytes *)
Definition wrap_encode_raw (kern : Z -> list access) (L : Z) : res kernel_run := wrap_encode kern L L.

Definition ext_encode (L Ld : Z) (b : nat) : Z :=
  if Nat.eqb b B_SRC then L else if Nat.eqb b B_DST then Ld else if Nat.eqb b B_LOC then 16 else 0.

(* =====================================================================
   stripe_avx2   (avx2.rs l.546-786)
   seq = B_SRC (L bytes, a slice), matrix = B_DST (R rows of stride ost bytes)
   ===================================================================== *)

(* `src_stride = (length + 31) / 32`; `matrix.resize(src_stride)` *)
Definition stripe_rows (L : Z) : Z := (L + 31) / 32.

(* `while i + 32 <= src_stride && 0x1f * src_stride + i + 32 <= length`
   (old = true: the condition before commit c26f6ea, `i + 32 <= src_stride` only) *)
Definition stripe_cond (old : bool) (L R i : Z) : bool :=
  (i + 32 <=? R) && (old || (31 * R + i + 32 <=? L)).

Definition stripe_block_idx (old : bool) (L : Z) : list Z :=
  let R := stripe_rows L in
  while_idx (Z.to_nat (R / 32) + 1) (stripe_cond old L R) 32 0.

(* one block: `rKK = _mm256_loadu_si256(src.add(0xKK * src_stride))`, KK = 0..31,
   `_mm256_stream_si256(out.add(0xKK * out_stride), r..)`, KK = 0..31, then
   `out = out.add(0x20 * out_stride); src = src.add(0x20); i += 32`,
   hence at loop index i: src = s + i, out = matrix[0] + i * out_stride *)
Definition stripe_block (R ost i : Z) : list access :=
  map (fun k => rd B_SRC (k * R + i) 32 1) (zrange 0 32)
  ++ map (fun k => wr B_DST ((i + k) * ost) 32 32) (zrange 0 32).

(* `while i < matrix.rows() { for j in 0..32 { if j*src_stride + i < s.len()
      { matrix[i][j] = s[j*src_stride + i]; } } i += 1 }` *)
Definition stripe_tail (L R ost i0 : Z) : list access :=
  flat_map (fun i =>
    flat_map (fun j => if j * R + i <? L
                       then [rd B_SRC (j * R + i) 1 1; wr B_DST (i * ost + j) 1 1] else [])
             (zrange 0 32))
    (zrange i0 R).

(* `for k in s.len()..matrix.columns()*matrix.rows() { matrix[k % src_stride][k / src_stride] = default }` *)
Definition stripe_fill (L R ost : Z) : list access :=
  map (fun k => wr B_DST ((k mod R) * ost + k / R) 1 1) (zrange L (32 * R)).

Definition fp_stripe_avx2_gen (old : bool) (L ost : Z) : list access :=
  let R := stripe_rows L in
  if L =? 0 then []      (* `if length == 0 { return; }` *)
  else
    let idx := stripe_block_idx old L in
    flat_map (stripe_block R ost) idx
    ++ stripe_tail L R ost (32 * Z.of_nat (length idx))
    ++ stripe_fill L R ost.

Definition fp_stripe_avx2 (L ost : Z) : list access := fp_stripe_avx2_gen false L ost.

Definition ext_stripe (L ost : Z) (b : nat) : Z :=
  if Nat.eqb b B_SRC then L else if Nat.eqb b B_DST then stripe_rows L * ost else 0.

(* default `Stripe::stripe_into` (safe code, C columns): `data[i % rows][i / rows] = x` for i < L,
   then the same with the default symbol for L <= i < rows*C *)
Definition gstripe_rows (C L : Z) : Z := (L + (C - 1)) / C.
Definition fp_stripe_generic (C L ost : Z) : list access :=
  let R := gstripe_rows C L in
  flat_map (fun i => [rd B_SRC i 1 1; wr B_DST ((i mod R) * ost + i / R) 1 1]) (zrange 0 L)
  ++ map (fun i => wr B_DST ((i mod R) * ost + i / R) 1 1) (zrange L (R * C)).
Definition ext_gstripe (C L ost : Z) (b : nat) : Z :=
  if Nat.eqb b B_SRC then L else if Nat.eqb b B_DST then gstripe_rows C L * ost else 0.

(* =====================================================================
   scoring kernels
   seq matrix = B_SRC (SR rows of stride sst bytes; SR includes the wrap rows),
   pssm = B_PSSM (M rows of stride pst elements of es bytes),
   scores = B_DST (resized to b-a rows of stride dst elements of es bytes)
   ===================================================================== *)

Record SP := mkSP {
  pK : Z;      (* alphabet size A::K *)
  pL : Z;      (* seq.len() *)
  pSR : Z;     (* seq.matrix().rows() *)
  pwrap : Z;   (* seq.wrap() *)
  pM : Z;      (* pssm.rows() *)
  pa : Z;      (* rows.start *)
  pb : Z;      (* rows.end *)
  psst : Z;    (* seq.matrix().stride() *)
  ppst : Z;    (* pssm.stride() *)
  pdst : Z     (* scores.matrix().stride() *)
}.

(* the guards shared by Avx2::score_*_rows_into_* and Sse2::score_rows_into:
     if seq.wrap() < pssm.rows() - 1 { panic! }          (M = 0: the subtraction
        overflows: panic in debug builds, wraps to usize::MAX in release builds and
        the comparison then panics: a panic either way)
     if seq.len() < pssm.rows() || rows.is_empty() { scores.resize(0, 0); return; }
     if rows.end + pssm.rows() - 1 > seq.matrix().rows() { panic! }   (commit 38882ad;
        ranged = false: the wrappers before that commit)
     scores.resize(rows.len(), ..) *)
(* (the body is a thunk so that the extracted, strict OCaml code does not build the footprint
   of a call that panics or returns early) *)
Definition score_guard (ranged : bool) (p : SP) (body : unit -> list access) : res kernel_run :=
  if pM p =? 0 then Panic 2
  else if pwrap p <? pM p - 1 then Panic 3
  else if (pL p <? pM p) || (pb p <=? pa p) then Ok Skipped
  else if ranged && (pSR p <? pb p + pM p - 1) then Panic 4
  else Ok (Entered (body tt)).

(* `for i in rows { seqptr = seq.matrix()[i].as_ptr(); pssmptr = pssm[0].as_ptr();
      for _ in 0..pssm.rows() { _mm256_load_si256(seqptr); _mm256_load_ps(pssmptr);
         seqptr = seqptr.add(seq.matrix().stride()); pssmptr = pssmptr.add(pssm.stride()) }
      _mm256_stream_ps(rowptr.add(0x00|0x08|0x10|0x18), ..); rowptr = rowptr.add(data.stride()) }` *)
Definition fp_score_f32_avx2_permute (p : SP) : list access :=
  flat_map (fun i =>
    flat_map (fun j => [rd B_SRC ((i + j) * psst p) 32 32;
                        rd B_PSSM (j * ppst p * 4) 32 32]) (zrange 0 (pM p))
    ++ map (fun q => wr B_DST (((i - pa p) * pdst p + 8 * q) * 4) 32 32) (zrange 0 4))
  (zrange (pa p) (pb p)).

(* same loops; `_mm256_i32gather_ps(pssmptr, x, 4)` reads pssmptr[x] for every lane value x;
   the lanes are the zero-extended bytes of the sequence row, i.e. symbol indices < K
   (type invariant of A::Symbol, checked at run time by the harness): all x < K are listed *)
Definition fp_score_f32_avx2_gather (p : SP) : list access :=
  flat_map (fun i =>
    flat_map (fun j => rd B_SRC ((i + j) * psst p) 32 32
                       :: map (fun x => rd B_PSSM ((j * ppst p + x) * 4) 4 1) (zrange 0 (pK p)))
             (zrange 0 (pM p))
    ++ map (fun q => wr B_DST (((i - pa p) * pdst p + 8 * q) * 4) 32 32) (zrange 0 4))
  (zrange (pa p) (pb p)).

(* `_mm256_load_si256(seqptr)`; `_mm_load_si128(pssmptr as *const __m128i)`;
   `_mm256_stream_si256(rowptr, s); rowptr = rowptr.add(data.stride())` (u8 elements) *)
Definition fp_score_u8_avx2_shuffle (p : SP) : list access :=
  flat_map (fun i =>
    flat_map (fun j => [rd B_SRC ((i + j) * psst p) 32 32;
                        rd B_PSSM (j * ppst p) 16 16]) (zrange 0 (pM p))
    ++ [wr B_DST ((i - pa p) * pdst p) 32 32])
  (zrange (pa p) (pb p)).

(* `for offset in (0..C/16).map(|i| i*16) { rowptr = data[0].as_mut_ptr().add(offset);
      for i in rows { dataptr = seq.matrix()[i].as_ptr().add(offset); pssmptr = pssm[0].as_ptr();
        for _ in 0..pssm.rows() { _mm_load_si128(dataptr);
           for k in 0..K { _mm_load1_ps(pssmptr.add(k)) }   (a plain `*p` of an f32: align 4)
           dataptr = dataptr.add(seq stride); pssmptr = pssmptr.add(pssm stride) }
        _mm_stream_ps(rowptr.add(0x00|0x04|0x08|0x0c), ..); rowptr = rowptr.add(data.stride()) } }` *)
Definition fp_score_sse2 (C : Z) (p : SP) : list access :=
  flat_map (fun q =>
    flat_map (fun i =>
      flat_map (fun j => rd B_SRC ((i + j) * psst p + 16 * q) 16 16
                         :: map (fun k => rd B_PSSM ((j * ppst p + k) * 4) 4 4) (zrange 0 (pK p)))
               (zrange 0 (pM p))
      ++ map (fun t => wr B_DST (((i - pa p) * pdst p + 16 * q + 4 * t) * 4) 16 16) (zrange 0 4))
    (zrange (pa p) (pb p)))
  (zrange 0 (C / 16)).

Definition ext_score (es : Z) (p : SP) (b : nat) : Z :=
  if Nat.eqb b B_SRC then pSR p * psst p
  else if Nat.eqb b B_PSSM then pM p * ppst p * es
  else if Nat.eqb b B_DST then (pb p - pa p) * pdst p * es
  else 0.

(* Avx2::score_f32_rows_into_permute starts with `assert!(A::K::USIZE <= 8)` *)
Definition wrap_score_f32_avx2_permute (ranged : bool) (p : SP) : res kernel_run :=
  if 8 <? pK p then Panic 5 else score_guard ranged p (fun _ => fp_score_f32_avx2_permute p).
Definition wrap_score_f32_avx2_gather (ranged : bool) (p : SP) : res kernel_run :=
  score_guard ranged p (fun _ => fp_score_f32_avx2_gather p).
(* Avx2::score_f32_rows_into: `if K <= 8 { permute } else { gather }` *)
Definition wrap_score_f32_avx2 (ranged : bool) (p : SP) : res kernel_run :=
  if pK p <=? 8 then wrap_score_f32_avx2_permute ranged p else wrap_score_f32_avx2_gather ranged p.
Definition wrap_score_u8_avx2 (ranged : bool) (p : SP) : res kernel_run :=
  score_guard ranged p (fun _ => fp_score_u8_avx2_shuffle p).
Definition wrap_score_sse2 (ranged : bool) (C : Z) (p : SP) : res kernel_run :=
  score_guard ranged p (fun _ => fp_score_sse2 C p).

(* default `Score::score_rows_into` (safe code): no wrap check, every access is a checked index:
   `seq.matrix()[seq_row + j][col]` panics when seq_row + j >= rows *)
Definition wrap_score_generic (p : SP) : res kernel_run :=
  if (pL p <? pM p) || (pb p <=? pa p) then Ok Skipped
  else if (0 <? pM p) && (pSR p <? pb p + pM p - 1) then Panic 6
  else Ok (Entered []).

(* =====================================================================
   max / argmax kernels: scores matrix = B_SRC (rows rows, stride st elements)
   ===================================================================== *)

(* argmax_f32_avx2: `s1..s4 = _mm256_load_ps(dataptr.add(0x00|0x08|0x10|0x18))` then
   `for i in 0..data.rows() { r1..r4 = _mm256_load_ps(dataptr.add(..)); dataptr = dataptr.add(data.stride()) }`
   then `x: [u32; 32]`, `_mm256_storeu_si256(x[0x00|0x08|0x10|0x18..].as_mut_ptr(), p1..p4)` *)
Definition f32_row_loads (st i : Z) : list access :=
  map (fun q => rd B_SRC ((i * st + 8 * q) * 4) 32 32) (zrange 0 4).

Definition fp_argmax_f32_avx2 (rows st : Z) : list access :=
  f32_row_loads st 0
  ++ flat_map (f32_row_loads st) (zrange 0 rows)
  ++ map (fun q => wr B_LOC (8 * q * 4) 32 1) (zrange 0 4).

(* max_f32_avx2: same loads; `x: [f32; 8]`, `_mm256_storeu_ps(x.as_mut_ptr(), m)` *)
Definition fp_max_f32_avx2 (rows st : Z) : list access :=
  f32_row_loads st 0
  ++ flat_map (f32_row_loads st) (zrange 0 rows)
  ++ [wr B_LOC 0 32 1].

(* argmax_u8_avx2: `r = _mm256_load_si256(dataptr); dataptr = dataptr.add(data.stride())`;
   `x: [u16; 32]`, `_mm256_storeu_si256(x.as_mut_ptr(), q1); _mm256_storeu_si256(x[16..].as_mut_ptr(), q2)` *)
Definition fp_argmax_u8_avx2 (rows st : Z) : list access :=
  map (fun i => rd B_SRC (i * st) 32 32) (zrange 0 rows)
  ++ [wr B_LOC 0 32 1; wr B_LOC 32 32 1].

(* max_u8_avx2: same loads; `x: [u8; 32]`, `_mm256_storeu_si256(x.as_mut_ptr(), m)` *)
Definition fp_max_u8_avx2 (rows st : Z) : list access :=
  map (fun i => rd B_SRC (i * st) 32 32) (zrange 0 rows)
  ++ [wr B_LOC 0 32 1].

(* argmax_sse2: `output = GenericArray::<u32, C>::default()`;
   `for offset in .. { dataptr = data[0].as_ptr().add(offset); outptr = output.as_mut_ptr().add(offset);
      for i in 0..data.rows() { _mm_load_ps(dataptr.add(0x00|0x04|0x08|0x0c)); dataptr = dataptr.add(data.stride()) }
      _mm_storeu_si128(outptr.add(0x00|0x04|0x08|0x0c), ..) }` *)
Definition fp_argmax_sse2 (C rows st : Z) : list access :=
  flat_map (fun q =>
    flat_map (fun i => map (fun t => rd B_SRC ((i * st + 16 * q + 4 * t) * 4) 16 16) (zrange 0 4))
             (zrange 0 rows)
    ++ map (fun t => wr B_LOC ((16 * q + 4 * t) * 4) 16 1) (zrange 0 4))
  (zrange 0 (C / 16)).

Definition ext_max (es rows st loc : Z) (b : nat) : Z :=
  if Nat.eqb b B_SRC then rows * st * es else if Nat.eqb b B_LOC then loc else 0.

(* guards: `if scores.max_index() > u32::MAX { panic! } else if scores.is_empty() { None }`
   (is_empty: data.rows() == 0) *)
Definition wrap_argmax_f32_avx2 (rows maxidx st : Z) : res kernel_run :=
  if 4294967295 <? maxidx then Panic 7
  else if rows =? 0 then Ok Skipped else Ok (Entered (fp_argmax_f32_avx2 rows st)).
Definition wrap_max_f32_avx2 (rows st : Z) : res kernel_run :=
  if rows =? 0 then Ok Skipped else Ok (Entered (fp_max_f32_avx2 rows st)).
(* `if scores.matrix().rows() > u16::MAX as usize + 1 { panic! }` *)
Definition wrap_argmax_u8_avx2 (rows st : Z) : res kernel_run :=
  if 65536 <? rows then Panic 8
  else if rows =? 0 then Ok Skipped else Ok (Entered (fp_argmax_u8_avx2 rows st)).
Definition wrap_max_u8_avx2 (rows st : Z) : res kernel_run :=
  if rows =? 0 then Ok Skipped else Ok (Entered (fp_max_u8_avx2 rows st)).
Definition wrap_argmax_sse2 (C rows maxidx st : Z) : res kernel_run :=
  if 4294967295 <? maxidx then Panic 7
  else if rows =? 0 then Ok Skipped else Ok (Entered (fp_argmax_sse2 C rows st)).

(* =====================================================================
   dense.rs: uninitialized / from_rows / ravel / ravel_mut / fill; seq.rs sample
   matrix = B_DST (rows rows of stride st elements of es bytes)
   ===================================================================== *)

(* `from_rows`: `dense = uninitialized(it.len())` (reserve + set_len: rows = n, nothing written);
   `for (i, row) in it.enumerate() { dense[i].copy_from_slice(row) }` — `dense[i]` is a checked
   index (panic when the iterator yields more than it.len() rows), copy_from_slice panics on a
   row whose length is not C.  n = it.len(), m = rows yielded, ragged = index of the first row
   of the wrong length (or -1). Each good row writes C*es bytes at the start of row i. *)
Definition fp_from_rows (es C st n m ragged : Z) : res kernel_run :=
  let good := if (0 <=? ragged) && (ragged <? Z.min n m) then ragged else Z.min n m in
  let accs := map (fun i => wr B_DST (i * st * es) (C * es) es) (zrange 0 good) in
  if (0 <=? ragged) && (ragged <? Z.min n m) then Panic 9
  else if n <? m then Panic 10
  else Ok (Entered accs).
(* what the body writes before it panics (for the bounds theorem) *)
Definition fp_from_rows_accs (es C st n m ragged : Z) : list access :=
  let good := if (0 <=? ragged) && (ragged <? Z.min n m) then ragged else Z.min n m in
  map (fun i => wr B_DST (i * st * es) (C * es) es) (zrange 0 good).

(* rows() of the result when the iterator's len() is n and it yields m rows of the right width:
   the rows written (`dense.resize(written)`, repair of observation O1); before that repair: n, with the
   rows m..n-1 never written but readable through the safe Index *)
Definition from_rows_rows (repaired : bool) (n m : Z) : Z := if repaired then Z.min n m else n.

(* `ravel`/`ravel_mut`: `from_raw_parts(self.data.as_ptr() as *mut T, self.rows() * self.stride())`:
   one region; `fill`: `ravel_mut().fill(value)` writes every element of it *)
Definition fp_ravel (es st rows : Z) : list access := [rd B_DST 0 (rows * st * es) es].
Definition fp_fill (es st rows : Z) : list access :=
  map (fun e => wr B_DST (e * es) es es) (zrange 0 (rows * st)).

(* `resize`: `self.data.resize_with(rows, Default::default)`: growing from rows0 to rows1 writes a default
   row (its C cells) at every new index; shrinking writes nothing *)
Definition fp_resize (es C st rows0 rows1 : Z) : list access :=
  map (fun r => wr B_DST (r * st * es) (C * es) es) (zrange rows0 rows1).

(* `StripedSequence::sample`: `data = uninitialized((length + C - 1) / C)`;
   `for row in data.iter_mut() { for (x, y) in row.iter_mut().zip(..) { *x = symbols[y] } }`:
   every one of the C one-byte cells of every row is written (then the padding cells once more, see below) *)
Definition sample_rows (C L : Z) : Z := (L + C - 1) / C.
Definition fp_sample (C st L : Z) : list access :=
  let R := sample_rows C L in
  flat_map (fun r => map (fun c => wr B_DST (r * st + c) 1 1) (zrange 0 C)) (zrange 0 R)
  (* repair 740d563 (cells past the end of the sequence get the wildcard):
     `let rows = data.rows(); for i in length..rows * C::USIZE { data[i % rows][i / rows] = A::default_symbol(); }`
     (checked indices, safe code) *)
  ++ map (fun i => wr B_DST ((i mod R) * st + i / R) 1 1) (zrange L (R * C)).

Definition ext_dense (es st rows : Z) (b : nat) : Z :=
  if Nat.eqb b B_DST then rows * st * es else 0.

(* ---------- layout facts used as hypotheses (discharged from LMDense in FpProofs) ---------- *)

(* a DenseMatrix<T, C> with size_of::<T>() = es has stride st *)
Definition layout_ok (es C st : Z) : Prop := 0 < es /\ 0 < C /\ C <= st /\ (st * es) mod 32 = 0.

(* ---------- model of the other observable effects compared by the driver ---------- *)

(* configure_wrap(m): `if m > wrap { resize(rows + m - wrap); wrap = m }` -> (rows, wrap) *)
Definition configure_wrap_model (SR wrap m : Z) : Z * Z :=
  if wrap <? m then (SR + m - wrap, m) else (SR, wrap).
