(* The guards of the safe wrappers are not only sufficient but necessary: whenever the row-range
   guard (commit 38882ad) would have panicked, the kernel entered without it performs an access
   outside the sequence matrix; whenever the second conjunct of the stripe_avx2 block condition
   (commit c26f6ea) fails for a block the first conjunct admits, the block's last load leaves
   the symbol slice.  (For all parameters, not only the recorded witnesses.) *)
From Coq Require Import List ZArith Bool Lia.
From LMBase Require Import Res.
From LMFootprint Require Import FpModel FpProofs.
Import ListNotations.
Open Scope Z_scope.

Definition last_seq_load (p : SP) : access :=
  rd B_SRC ((pb p - 1 + (pM p - 1)) * psst p) 32 32.

Lemma last_seq_load_oob es p :
  0 < psst p -> pSR p < pb p + pM p - 1 -> ~ InBounds (ext_score es p) (last_seq_load p).
Proof.
  intros Hs Hr. unfold last_seq_load. fp_unfold. intros [_ [_ H]]. nia.
Qed.

Lemma last_seq_load_in_permute p :
  pa p < pb p -> 0 < pM p -> In (last_seq_load p) (fp_score_f32_avx2_permute p).
Proof.
  intros Hab HM. unfold fp_score_f32_avx2_permute. apply in_flat_map.
  exists (pb p - 1). split; [apply In_zrange; lia|].
  apply in_or_app. left. apply in_flat_map. exists (pM p - 1). split; [apply In_zrange; lia|].
  left. reflexivity.
Qed.

Lemma last_seq_load_in_gather p :
  pa p < pb p -> 0 < pM p -> In (last_seq_load p) (fp_score_f32_avx2_gather p).
Proof.
  intros Hab HM. unfold fp_score_f32_avx2_gather. apply in_flat_map.
  exists (pb p - 1). split; [apply In_zrange; lia|].
  apply in_or_app. left. apply in_flat_map. exists (pM p - 1). split; [apply In_zrange; lia|].
  left. reflexivity.
Qed.

Lemma last_seq_load_in_u8 p :
  pa p < pb p -> 0 < pM p -> In (last_seq_load p) (fp_score_u8_avx2_shuffle p).
Proof.
  intros Hab HM. unfold fp_score_u8_avx2_shuffle. apply in_flat_map.
  exists (pb p - 1). split; [apply In_zrange; lia|].
  apply in_or_app. left. apply in_flat_map. exists (pM p - 1). split; [apply In_zrange; lia|].
  left. reflexivity.
Qed.

(* the unguarded wrappers (ranged = false: the code before commit 38882ad) *)
Lemma unranged_entered p body accs :
  sp_nonneg p -> score_guard false p body = Ok (Entered accs) ->
  accs = body tt /\ pa p < pb p /\ 0 < pM p.
Proof.
  intros [_ [_ [_ [_ HM]]]] H. apply score_guard_entered in H.
  destruct H as [-> [H0 [_ [_ [Hab _]]]]]. repeat split; auto. lia.
Qed.

Lemma range_guard_necessary_f32 p accs :
  sp_nonneg p -> 0 < psst p ->
  wrap_score_f32_avx2 false p = Ok (Entered accs) ->
  pSR p < pb p + pM p - 1 ->
  exists a, In a accs /\ ~ InBounds (ext_score 4 p) a.
Proof.
  intros Hn Hs H Hr. exists (last_seq_load p). split; [|apply last_seq_load_oob; auto].
  unfold wrap_score_f32_avx2, wrap_score_f32_avx2_permute, wrap_score_f32_avx2_gather in H.
  destruct (pK p <=? 8).
  - destruct (8 <? pK p); [discriminate|].
    destruct (unranged_entered _ _ _ Hn H) as [-> [Hab HM]]. apply last_seq_load_in_permute; auto.
  - destruct (unranged_entered _ _ _ Hn H) as [-> [Hab HM]]. apply last_seq_load_in_gather; auto.
Qed.

Lemma range_guard_necessary_u8 p accs :
  sp_nonneg p -> 0 < psst p ->
  wrap_score_u8_avx2 false p = Ok (Entered accs) ->
  pSR p < pb p + pM p - 1 ->
  exists a, In a accs /\ ~ InBounds (ext_score 1 p) a.
Proof.
  intros Hn Hs H Hr. exists (last_seq_load p). split; [|apply last_seq_load_oob; auto].
  unfold wrap_score_u8_avx2 in H.
  destruct (unranged_entered _ _ _ Hn H) as [-> [Hab HM]]. apply last_seq_load_in_u8; auto.
Qed.

(* ... and the guarded wrapper panics in exactly these cases *)
Lemma range_guard_panics p body :
  pM p <> 0 -> pM p - 1 <= pwrap p -> pM p <= pL p -> pa p < pb p -> pSR p < pb p + pM p - 1 ->
  score_guard true p body = Panic 4.
Proof.
  intros H0 Hw HL Hab Hr. unfold score_guard.
  destruct (pM p =? 0) eqn:E0; [apply Z.eqb_eq in E0; lia|].
  destruct (pwrap p <? pM p - 1) eqn:E1; [apply Z.ltb_lt in E1; lia|].
  destruct (pL p <? pM p) eqn:E2; [apply Z.ltb_lt in E2; lia|].
  destruct (pb p <=? pa p) eqn:E3; [apply Z.leb_le in E3; lia|].
  simpl. destruct (pSR p <? pb p + pM p - 1) eqn:E4; [reflexivity | apply Z.ltb_ge in E4; lia].
Qed.

(* stripe_avx2: a block admitted by `i + 32 <= src_stride` but not by
   `0x1f * src_stride + i + 32 <= length` has its last vector load past the slice *)
Lemma stripe_block_cond_necessary L ost i :
  0 <= L -> 0 <= i ->
  stripe_cond true L (stripe_rows L) i = true ->
  stripe_cond false L (stripe_rows L) i = false ->
  let a := rd B_SRC (31 * stripe_rows L + i) 32 1 in
  In a (stripe_block (stripe_rows L) ost i) /\ ~ InBounds (ext_stripe L ost) a.
Proof.
  intros HL Hi Ho Hn a. unfold stripe_cond in Ho, Hn. cbn [orb] in Ho, Hn.
  apply andb_true_iff in Ho. destruct Ho as [Ho _]. rewrite Ho in Hn. cbn [andb] in Hn.
  apply Z.leb_gt in Hn. split.
  - unfold stripe_block. apply in_or_app. left. apply in_map_iff. exists 31. split; [reflexivity|].
    apply In_zrange. lia.
  - unfold a. fp_unfold. intros [_ [_ H]]. lia.
Qed.
