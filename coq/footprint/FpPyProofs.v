(* Lifetime and extent facts about the raw pointers of the Python module. *)
From Coq Require Import List ZArith Bool Arith Lia.
From LMFootprint Require Import FpModel FpPy.
Import ListNotations.
Open Scope Z_scope.

(* every event of a list satisfies a predicate *)
Definition all_ev (P : pev -> Prop) (l : list pev) : Prop := Forall P l.

Definition scan_ok (e : pev) : Prop := match e with EScan p s => p = true /\ s = true | _ => True end.
Definition view_owner_ok (e : pev) : Prop := match e with EView s _ _ => s = true | _ => True end.

Lemma ltb_0_succ_r a : Nat.ltb 0 (a + 1) = true.
Proof. apply Nat.ltb_lt. lia. Qed.

(* with both keep-alive fields, the cells the scanner's references point into are alive whenever it runs *)
Lemma pstep_scan_ok s o : all_ev scan_ok (snd (pstep true true s o)).
Proof.
  unfold all_ev. destruct o; simpl; try constructor.
  - destruct (Nat.ltb 0 (s_vars s)); simpl; constructor.
  - destruct (nth_error (views s) k); simpl; repeat constructor.
  - destruct (Nat.ltb 0 (s_vars s)); simpl; constructor.
  - destruct (Nat.ltb 0 (s_vars s) && Nat.ltb 0 (p_vars s) && negb (scanner s)); simpl; constructor.
  - destruct (scanner s) eqn:E; simpl; [|constructor].
    constructor; [|constructor]. unfold scan_ok, p_live, s_live, p_count, s_count. rewrite E. simpl.
    split; apply Nat.ltb_lt; lia.
Qed.

Lemma ptrace_scan_ok ops : forall s, all_ev scan_ok (ptrace true true s ops).
Proof.
  induction ops as [|o r IH]; intros s; simpl; [constructor|].
  pose proof (pstep_scan_ok s o) as H. destruct (pstep true true s o) as [s' ev]. simpl in H.
  apply Forall_app. split; [exact H | apply IH].
Qed.

(* whatever the scanner keeps, a view keeps its exporter alive *)
Lemma pstep_view_owner_ok kp ks s o : all_ev view_owner_ok (snd (pstep kp ks s o)).
Proof.
  unfold all_ev. destruct o; simpl; try constructor.
  - destruct (Nat.ltb 0 (s_vars s)); simpl; constructor.
  - destruct (nth_error (views s) k) eqn:E; simpl; [|constructor].
    constructor; [|constructor]. unfold view_owner_ok, s_live, s_count.
    assert (H : (0 < length (views s))%nat).
    { destruct (views s); [destruct k; discriminate | simpl; lia]. }
    apply Nat.ltb_lt. lia.
  - destruct (Nat.ltb 0 (s_vars s)); simpl; constructor.
  - destruct (Nat.ltb 0 (s_vars s) && Nat.ltb 0 (p_vars s) && negb (scanner s)); simpl; constructor.
  - destruct (scanner s); simpl; repeat constructor.
Qed.

Lemma ptrace_view_owner_ok kp ks ops : forall s, all_ev view_owner_ok (ptrace kp ks s ops).
Proof.
  induction ops as [|o r IH]; intros s; simpl; [constructor|].
  pose proof (pstep_view_owner_ok kp ks s o) as H. destruct (pstep kp ks s o) as [s' ev]. simpl in H.
  apply Forall_app. split; [exact H | apply IH].
Qed.

(* F24: memoryview(S); a call that configures S for a motif needing more look-ahead rows than the buffer
   has capacity for; read through the view: the view points into the previous buffer generation *)
Lemma view_stale_after_configure kp ks rows cap m :
  0 < m -> cap < rows + m ->
  ptrace kp ks (p0 rows cap) [PView; PConfigure m; PReadView 0] = [EView true 0 1].
Proof.
  intros Hm Hc. unfold ptrace, pstep, p0. simpl.
  unfold py_configure, configure_wrap_model. simpl.
  assert (E1 : (0 <? m) = true) by (apply Z.ltb_lt; lia). rewrite E1.
  assert (E2 : (cap <? rows + m - 0) = true) by (apply Z.ltb_lt; lia). rewrite E2.
  simpl. unfold s_live, s_count. simpl. reflexivity.
Qed.

(* seeded change C17/4: without the `pssm: Py<ScoringMatrix>` field the matrix cell dies with its last
   variable while the scanner still points into it *)
Lemma scanner_without_keepalive rows cap m :
  ptrace false true (p0 rows cap) [PScannerNew m; PDelPssm; PScannerNext] = [EScan false true].
Proof.
  unfold ptrace, pstep, p0. simpl. unfold py_configure, configure_wrap_model. simpl.
  destruct (0 <? m); destruct (cap <? _); simpl; reflexivity.
Qed.

(* ... with the field (the code) the same history is fine *)
Lemma scanner_with_keepalive rows cap m :
  ptrace true true (p0 rows cap) [PScannerNew m; PDelPssm; PDelSeq; PScannerNext] = [EScan true true].
Proof.
  unfold ptrace, pstep, p0. simpl. unfold py_configure, configure_wrap_model. simpl.
  destruct (0 <? m); destruct (cap <? _); simpl; reflexivity.
Qed.

(* ---------- extents: what a consumer walking the exported shape/strides can reach ---------- *)

(* StripedSequence (es = 1) and StripedScores (es = 4): shape (C, rows), strides (es, stride*es) *)
Lemma view_reach_cols_rows C rows st es :
  0 < es -> 0 < C <= st -> 0 <= rows ->
  view_reach2 C rows es (st * es) es <= rows * st * es.
Proof.
  intros He HC Hr. unfold view_reach2.
  destruct (C <=? 0) eqn:E1; [apply Z.leb_le in E1; lia|].
  destruct (rows <=? 0) eqn:E2; simpl.
  - apply Z.leb_le in E2. assert (rows = 0) by lia. subst rows. lia.
  - apply Z.leb_gt in E2. assert (H : C * es <= st * es) by nia.
    replace ((C - 1) * es + (rows - 1) * (st * es) + es) with (C * es + (rows - 1) * (st * es)) by ring.
    replace (rows * st * es) with (st * es + (rows - 1) * (st * es)) by ring. lia.
Qed.

(* ScoringMatrix: shape (rows, K), strides (stride*es, es) *)
Lemma view_reach_rows_cols rows K st es :
  0 < es -> 0 < K <= st -> 0 <= rows ->
  view_reach2 rows K (st * es) es es <= rows * st * es.
Proof.
  intros He HK Hr. unfold view_reach2.
  destruct (rows <=? 0) eqn:E1; simpl.
  - apply Z.leb_le in E1. assert (rows = 0) by lia. subst rows. lia.
  - destruct (K <=? 0) eqn:E2; [apply Z.leb_le in E2; lia|].
    apply Z.leb_gt in E1. assert (H : K * es <= st * es) by nia.
    replace ((rows - 1) * (st * es) + (K - 1) * es + es) with (K * es + (rows - 1) * (st * es)) by ring.
    replace (rows * st * es) with (st * es + (rows - 1) * (st * es)) by ring. lia.
Qed.
