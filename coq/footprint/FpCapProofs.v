(* Allocations (FpCap.v): the kernels stay inside the ALLOCATION of the sequence matrix along every history,
   whatever capacity std chose and in particular on exact allocations (clone); the software-pipelined variant
   of seeded change C06/5 is inside the allocation exactly when the Vec has a spare row. *)
From Coq Require Import List ZArith Bool Lia.
From LMBase Require Import Res.
From LMFootprint Require Import FpModel FpProofs FpHistory FpHistoryProofs FpCap.
Import ListNotations.
Open Scope Z_scope.

(* ---------- Vec-level facts ---------- *)

Lemma cb_resize_rows b n nc : cb_rows (cb_resize b n nc) = n.
Proof. unfold cb_resize. destruct (n <=? cb_cap b); reflexivity. Qed.

Lemma cb_resize_fits b n nc : cb_rows (cb_resize b n nc) <= cb_cap (cb_resize b n nc).
Proof. unfold cb_resize. destruct (n <=? cb_cap b) eqn:E; simpl; [apply Z.leb_le in E; lia | lia]. Qed.

(* a resize that fits keeps the allocation (the rows between rows() and capacity() were allocated all along) *)
Lemma cb_resize_keeps b n nc : n <= cb_cap b -> cb_cap (cb_resize b n nc) = cb_cap b.
Proof. intros H. unfold cb_resize. apply Z.leb_le in H. rewrite H. reflexivity. Qed.

(* an uninitialised resize that reserves from len keeps rows <= capacity, whatever std chooses ... *)
Lemma cb_resize_uninit_fits b n nc :
  0 <= cb_rows b <= cb_cap b -> 0 <= n ->
  cb_rows (cb_resize_uninit b n nc) <= cb_cap (cb_resize_uninit b n nc).
Proof.
  intros Hb Hn. unfold cb_resize_uninit, cb_reserve. cbn [cb_rows].
  destruct (cb_cap b <? n) eqn:E.
  - apply Z.ltb_lt in E. destruct (cb_rows b + (n - cb_rows b) <=? cb_cap b) eqn:E2; cbn [cb_cap].
    + apply Z.leb_le in E2. lia.
    + etransitivity; [|apply Z.le_max_l]. lia.
  - apply Z.ltb_ge in E. cbn [cb_cap]. lia.
Qed.

(* ... the seeded one (reserve(rows - capacity)) does not, as soon as the buffer has slack (len < capacity) and
   the request exceeds the capacity by no more than the slack: rows N, fewer, more than N *)
Lemma cb_resize_uninit_seeded_overflows b n nc :
  0 <= cb_rows b < cb_cap b -> cb_cap b < n <= cb_cap b + (cb_cap b - cb_rows b) ->
  cb_cap (cb_resize_uninit_seeded b n nc) < cb_rows (cb_resize_uninit_seeded b n nc).
Proof.
  intros Hb Hn. unfold cb_resize_uninit_seeded, cb_reserve. cbn [cb_rows].
  assert (E : (cb_cap b <? n) = true) by (apply Z.ltb_lt; lia). rewrite E.
  assert (E2 : (cb_rows b + (n - cb_cap b) <=? cb_cap b) = true) by (apply Z.leb_le; lia). rewrite E2.
  cbn [cb_cap cb_rows]. lia.
Qed.

Lemma cb_clone_exact b : cb_cap (cb_clone b) = cb_rows (cb_clone b) /\ cb_rows (cb_clone b) = cb_rows b.
Proof. split; reflexivity. Qed.

Lemma in_bounds_mono ext ext' a :
  ext (abuf a) <= ext' (abuf a) -> InBounds ext a -> InBounds ext' a.
Proof. unfold InBounds. intros H [H0 [H1 H2]]. repeat split; lia. Qed.

Lemma safe_mono ext ext' balign l :
  (forall a, In a l -> ext (abuf a) <= ext' (abuf a)) ->
  Forall (Safe ext balign) l -> Forall (Safe ext' balign) l.
Proof.
  intros Hle H. rewrite Forall_forall in *. intros a Ha. destruct (H a Ha) as [Hb Hal].
  split; [eapply in_bounds_mono; eauto | exact Hal].
Qed.

(* owned rows are inside the allocation of every matrix of a scoring call *)
Lemma ext_score_le_alloc es p scap pcap dcap b :
  0 < es -> 0 <= psst p -> 0 <= ppst p -> 0 <= pdst p ->
  pSR p <= scap -> pM p <= pcap -> pb p - pa p <= dcap ->
  ext_score es p b <= alloc_score es p scap pcap dcap b.
Proof.
  intros He Hs Hp Hd H1 H2 H3. unfold ext_score, alloc_score.
  destruct (Nat.eqb b B_SRC); [apply Z.mul_le_mono_nonneg_r; lia|].
  destruct (Nat.eqb b B_PSSM); [apply Z.mul_le_mono_nonneg_r; [lia|]; apply Z.mul_le_mono_nonneg_r; lia|].
  destruct (Nat.eqb b B_DST); [apply Z.mul_le_mono_nonneg_r; [lia|]; apply Z.mul_le_mono_nonneg_r; lia | lia].
Qed.

(* ---------- the pipelined variant (seeded change C06/5) ---------- *)

Lemma pipelined_stray_in p :
  pa p < pb p -> 0 < pM p -> In (pipelined_stray p) (fp_score_u8_avx2_pipelined p).
Proof.
  intros Hab HM. unfold fp_score_u8_avx2_pipelined, pipelined_stray. apply in_flat_map.
  exists (pb p - 1). split; [apply In_zrange; lia|].
  right. apply in_or_app. left. apply in_flat_map. exists (pM p - 1). split; [apply In_zrange; lia|].
  right. left. f_equal. f_equal. lia.
Qed.

(* the full-range call on a sequence configured for exactly this motif: the stray load is row rows() *)
Lemma pipelined_stray_not_owned p :
  0 < psst p -> pSR p <= pb p + pM p - 1 -> ~ InBounds (ext_score 1 p) (pipelined_stray p).
Proof.
  intros Hs Hr. unfold pipelined_stray. fp_unfold. intros [_ [_ H]]. nia.
Qed.

Lemma pipelined_stray_alloc p scap pcap dcap :
  sp_nonneg p -> layout_ok 1 32 (psst p) -> pa p < pb p -> pb p + pM p - 1 = pSR p ->
  (InBounds (alloc_score 1 p scap pcap dcap) (pipelined_stray p) <-> pSR p < scap).
Proof.
  intros [Ha [_ [HSR _]]] Hlay Hab Hr.
  pose proof (layout_row_bytes_ge _ _ _ Hlay) as Hst. rewrite Z.mul_1_r in Hst.
  unfold pipelined_stray, InBounds, alloc_score, rd, B_SRC. cbn [abuf aoff awidth Nat.eqb].
  replace (pb p - 1 + pM p) with (pSR p) by lia.
  split.
  - intros [_ [_ H]]. nia.
  - intros H. repeat split; nia.
Qed.

(* ---------- histories with capacity ---------- *)

Definition cinv (s : cstate) : Prop := hwf (c_h s) /\ hSR (c_h s) <= c_scap s.

Definition cop_wf (o : cop) : Prop :=
  match o with
  | CBase o _ => hop_wf o
  | CCloneSeq => True
  | CNewSeq rows L _ => 0 <= rows /\ 0 <= L
  end.

Ltac destruct_matches :=
  repeat match goal with
  | |- context [match ?x with _ => _ end] => destruct x
  end.

Section CapProofs.
  Variables K pstF pstU : Z.
  Hypothesis HF : layout_ok 4 K pstF.
  Hypothesis HU : layout_ok 1 K pstU.

  (* only striping, sampling and configuring change the row count of the sequence matrix *)
  Lemma hstep_keeps_SR s o :
    match o with
    | HStripe _ | HSample _ | HConfigure _ => True
    | _ => hSR (fst (hstep K pstF pstU s o)) = hSR s
    end.
  Proof. destruct o; try exact I; unfold hstep; destruct_matches; reflexivity. Qed.

  Lemma score_f32_event_ext s a lo hi e :
    In e (snd (hstep K pstF pstU s (HScoreF32 a lo hi))) -> ev_ext e B_SRC = hSR s * 32.
  Proof.
    unfold hstep. destruct a;
      match goal with |- context [match ?x with _ => _ end] => destruct x as [[|accs]| | |] end;
      simpl; try tauto; intros [<-|[]]; reflexivity.
  Qed.

  Lemma score_u8_event_ext s a lo hi e :
    In e (snd (hstep K pstF pstU s (HScoreU8 a lo hi))) -> ev_ext e B_SRC = hSR s * 32.
  Proof.
    unfold hstep. destruct a;
      match goal with |- context [match ?x with _ => _ end] => destruct x as [[|accs]| | |] end;
      simpl; try tauto; intros [<-|[]]; reflexivity.
  Qed.

  Lemma widen_safe scap evs (SR : Z) :
    SR <= scap ->
    (forall e, In e evs -> ev_ext e B_SRC = SR * 32) ->
    Forall ev_safe evs -> Forall ev_safe (map (widen_seq scap 32) evs).
  Proof.
    intros Hle Hext H. rewrite Forall_forall in *. intros e' He'. apply in_map_iff in He'.
    destruct He' as [e [<- He]]. specialize (H e He). specialize (Hext e He).
    unfold ev_safe, widen_seq in *. cbn [ev_ext ev_al ev_accs].
    eapply safe_mono; [|exact H]. intros a _. cbn beta.
    destruct (Nat.eqb (abuf a) B_SRC) eqn:E; [|lia].
    apply Nat.eqb_eq in E. rewrite E, Hext. lia.
  Qed.

  Lemma cstep_safe s o :
    cinv s -> cop_wf o ->
    cinv (fst (cstep K pstF pstU s o)) /\ Forall ev_safe (snd (cstep K pstF pstU s o)).
  Proof.
    intros [Hw Hc] Ho. destruct o as [o nc | | rows L nc].
    - simpl in Ho. unfold cstep.
      pose proof (hstep_safe K pstF pstU HF HU (c_h s) o Hw Ho) as [Hw' Hev].
      pose proof (hstep_keeps_SR (c_h s) o) as HSR.
      pose proof (score_f32_event_ext (c_h s)) as HeF. pose proof (score_u8_event_ext (c_h s)) as HeU.
      destruct (hstep K pstF pstU (c_h s) o) as [h' evs] eqn:E. cbn [fst snd] in *.
      destruct o; cbn [fst snd]; unfold cinv; cbn [c_h c_scap];
        try (split; [split; [exact Hw' | lia] | exact Hev]).
      + (* configure *)
        split; [split; [exact Hw'|] | exact Hev].
        pose proof (cb_resize_fits (mkCB (hSR (c_h s)) (c_scap s)) (hSR h') nc) as Hfit.
        rewrite cb_resize_rows in Hfit. exact Hfit.
      + (* f32 scoring *)
        split; [split; [exact Hw' | lia]|].
        apply (widen_safe (c_scap s) evs (hSR (c_h s))); auto.
        intros e He. apply (HeF a lo hi). rewrite E. exact He.
      + (* u8 scoring *)
        split; [split; [exact Hw' | lia]|].
        apply (widen_safe (c_scap s) evs (hSR (c_h s))); auto.
        intros e He. apply (HeU a lo hi). rewrite E. exact He.
    - (* clone *)
      simpl. split; [split; [exact Hw | simpl; lia] | constructor].
    - (* new(DenseMatrix::new(rows), L) *)
      destruct Ho as [Hr HL]. unfold cstep. destruct (rows * 32 <? L).
      + split; [split; assumption | constructor].
      + simpl. split; [|constructor]. split; [|simpl; lia].
        destruct Hw as (?&?&?&?&?&?&?&?). unfold hwf, set_seq; simpl. lia.
  Qed.

  Lemma ctrace_safe ops : forall s,
    cinv s -> Forall cop_wf ops ->
    Forall ev_safe (ctrace K pstF pstU s ops) /\ cinv (cfinal K pstF pstU s ops).
  Proof.
    induction ops as [|o r IH]; intros s Hs Ho; simpl.
    - split; [constructor | exact Hs].
    - inversion Ho as [|? ? Ho1 Ho2]; subst.
      destruct (cstep_safe s o Hs Ho1) as [Hs' Hev].
      destruct (cstep K pstF pstU s o) as [s' ev] eqn:E. simpl in Hs', Hev.
      destruct (IH s' Hs' Ho2) as [Ht Hf]. split; [apply Forall_app; split; auto | exact Hf].
  Qed.

  (* right after a clone the allocation of the sequence matrix is exact, whatever came before *)
  Lemma clone_is_exact s :
    c_scap (fst (cstep K pstF pstU s CCloneSeq)) = hSR (c_h (fst (cstep K pstF pstU s CCloneSeq))).
  Proof. reflexivity. Qed.

  (* a scoring call leaves the allocation alone *)
  Lemma score_keeps_cap s a lo hi nc :
    c_scap (fst (cstep K pstF pstU s (CBase (HScoreU8 a lo hi) nc))) = c_scap s /\
    c_scap (fst (cstep K pstF pstU s (CBase (HScoreF32 a lo hi) nc))) = c_scap s.
  Proof.
    unfold cstep. split.
    - destruct (hstep K pstF pstU (c_h s) (HScoreU8 a lo hi)); reflexivity.
    - destruct (hstep K pstF pstU (c_h s) (HScoreF32 a lo hi)); reflexivity.
  Qed.

  (* a configure_wrap that fits into the capacity does not reallocate *)
  Lemma configure_within_capacity s m nc :
    hSR (fst (hstep K pstF pstU (c_h s) (HConfigure m))) <= c_scap s ->
    c_scap (fst (cstep K pstF pstU s (CBase (HConfigure m) nc))) = c_scap s.
  Proof.
    intros H. unfold cstep. destruct (hstep K pstF pstU (c_h s) (HConfigure m)) as [h' evs]. cbn [fst] in *.
    cbn [c_scap]. rewrite cb_resize_keeps; [reflexivity | exact H].
  Qed.
End CapProofs.
