(* Allocations (FpCap.v): the kernels stay inside the ALLOCATION of the sequence matrix along every history,
   whatever capacity std chose and in particular on exact allocations (clone); the software-pipelined variant
   of seeded change C06/5 is inside the allocation exactly when the Vec has a spare row. *)
From Coq Require Import List ZArith Bool Lia.
From LMBase Require Import Res.
From LMFootprint Require Import FpModel FpProofs FpHistory FpHistoryProofs FpCap.
Import ListNotations.
Open Scope Z_scope.

(* ---------- Vec-level facts ---------- *)

Lemma cb_resize_rows b n nc : cb_rows (cb_resize b n nc) = n.
Proof. unfold cb_resize. destruct (n <=? cb_cap b); reflexivity. Qed.

Lemma cb_resize_fits b n nc : cb_rows (cb_resize b n nc) <= cb_cap (cb_resize b n nc).
Proof. unfold cb_resize. destruct (n <=? cb_cap b) eqn:E; simpl; [apply Z.leb_le in E; lia | lia]. Qed.

(* a resize that fits keeps the allocation (the rows between rows() and capacity() were allocated all along) *)
Lemma cb_resize_keeps b n nc : n <= cb_cap b -> cb_cap (cb_resize b n nc) = cb_cap b.
Proof. intros H. unfold cb_resize. apply Z.leb_le in H. rewrite H. reflexivity. Qed.

(* an uninitialised resize that reserves from len keeps rows <= capacity, whatever std chooses ... *)
Lemma cb_resize_uninit_fits b n nc :
  0 <= cb_rows b <= cb_cap b -> 0 <= n ->
  cb_rows (cb_resize_uninit b n nc) <= cb_cap (cb_resize_uninit b n nc).
Proof.
  intros Hb Hn. unfold cb_resize_uninit, cb_reserve. cbn [cb_rows].
  destruct (cb_cap b <? n) eqn:E.
  - apply Z.ltb_lt in E. destruct (cb_rows b + (n - cb_rows b) <=? cb_cap b) eqn:E2; cbn [cb_cap].
    + apply Z.leb_le in E2. lia.
    + etransitivity; [|apply Z.le_max_l]. lia.
  - apply Z.ltb_ge in E. cbn [cb_cap]. lia.
Qed.

(* ... the seeded one (reserve(rows - capacity)) does not, as soon as the buffer has slack (len < capacity) and
   the request exceeds the capacity by no more than the slack: rows N, fewer, more than N *)
Lemma cb_resize_uninit_seeded_overflows b n nc :
  0 <= cb_rows b < cb_cap b -> cb_cap b < n <= cb_cap b + (cb_cap b - cb_rows b) ->
  cb_cap (cb_resize_uninit_seeded b n nc) < cb_rows (cb_resize_uninit_seeded b n nc).
Proof.
  intros Hb Hn. unfold cb_resize_uninit_seeded, cb_reserve. cbn [cb_rows].
  assert (E : (cb_cap b <? n) = true) by (apply Z.ltb_lt; lia). rewrite E.
  assert (E2 : (cb_rows b + (n - cb_cap b) <=? cb_cap b) = true) by (apply Z.leb_le; lia). rewrite E2.
  cbn [cb_cap cb_rows]. lia.
Qed.

Lemma cb_clone_exact b : cb_cap (cb_clone b) = cb_rows (cb_clone b) /\ cb_rows (cb_clone b) = cb_rows b.
Proof. split; reflexivity. Qed.

Lemma in_bounds_mono ext ext' a :
  ext (abuf a) <= ext' (abuf a) -> InBounds ext a -> InBounds ext' a.
Proof. unfold InBounds. intros H [H0 [H1 H2]]. repeat split; lia. Qed.

Lemma safe_mono ext ext' balign l :
  (forall a, In a l -> ext (abuf a) <= ext' (abuf a)) ->
  Forall (Safe ext balign) l -> Forall (Safe ext' balign) l.
Proof.
  intros Hle H. rewrite Forall_forall in *. intros a Ha. destruct (H a Ha) as [Hb Hal].
  split; [eapply in_bounds_mono; eauto | exact Hal].
Qed.

(* owned rows are inside the allocation of every matrix of a scoring call *)
Lemma ext_score_le_alloc es p scap pcap dcap b :
  0 < es -> 0 <= psst p -> 0 <= ppst p -> 0 <= pdst p ->
  pSR p <= scap -> pM p <= pcap -> pb p - pa p <= dcap ->
  ext_score es p b <= alloc_score es p scap pcap dcap b.
Proof.
  intros He Hs Hp Hd H1 H2 H3. unfold ext_score, alloc_score.
  destruct (Nat.eqb b B_SRC); [apply Z.mul_le_mono_nonneg_r; lia|].
  destruct (Nat.eqb b B_PSSM); [apply Z.mul_le_mono_nonneg_r; [lia|]; apply Z.mul_le_mono_nonneg_r; lia|].
  destruct (Nat.eqb b B_DST); [apply Z.mul_le_mono_nonneg_r; [lia|]; apply Z.mul_le_mono_nonneg_r; lia | lia].
Qed.

(* ---------- the pipelined variant (seeded change C06/5) ---------- *)

Lemma pipelined_stray_in p :
  pa p < pb p -> 0 < pM p -> In (pipelined_stray p) (fp_score_u8_avx2_pipelined p).
Proof.
  intros Hab HM. unfold fp_score_u8_avx2_pipelined, pipelined_stray. apply in_flat_map.
  exists (pb p - 1). split; [apply In_zrange; lia|].
  right. apply in_or_app. left. apply in_flat_map. exists (pM p - 1). split; [apply In_zrange; lia|].
  right. left. f_equal. f_equal. lia.
Qed.

(* the full-range call on a sequence configured for exactly this motif: the stray load is row rows() *)
Lemma pipelined_stray_not_owned p :
  0 < psst p -> pSR p <= pb p + pM p - 1 -> ~ InBounds (ext_score 1 p) (pipelined_stray p).
Proof.
  intros Hs Hr. unfold pipelined_stray. fp_unfold. intros [_ [_ H]]. nia.
Qed.

Lemma pipelined_stray_alloc p scap pcap dcap :
  sp_nonneg p -> layout_ok 1 32 (psst p) -> pa p < pb p -> pb p + pM p - 1 = pSR p ->
  (InBounds (alloc_score 1 p scap pcap dcap) (pipelined_stray p) <-> pSR p < scap).
Proof.
  intros [Ha [_ [HSR _]]] Hlay Hab Hr.
  pose proof (layout_row_bytes_ge _ _ _ Hlay) as Hst. rewrite Z.mul_1_r in Hst.
  unfold pipelined_stray, InBounds, alloc_score, rd, B_SRC. cbn [abuf aoff awidth Nat.eqb].
  replace (pb p - 1 + pM p) with (pSR p) by lia.
  split.
  - intros [_ [_ H]]. nia.
  - intros H. repeat split; nia.
Qed.

(* ---------- totality of the guards: when the wrappers DO enter their kernel ---------- *)

Lemma score_guard_total ranged p body :
  pM p <> 0 -> pM p - 1 <= pwrap p -> pM p <= pL p -> pa p < pb p -> pb p + pM p - 1 <= pSR p ->
  score_guard ranged p body = Ok (Entered (body tt)).
Proof.
  intros H0 Hw HL Hab Hr. unfold score_guard.
  assert (E0 : (pM p =? 0) = false) by (apply Z.eqb_neq; exact H0). rewrite E0.
  assert (E1 : (pwrap p <? pM p - 1) = false) by (apply Z.ltb_ge; lia). rewrite E1.
  assert (E2 : ((pL p <? pM p) || (pb p <=? pa p)) = false).
  { apply orb_false_iff. split; [apply Z.ltb_ge | apply Z.leb_gt]; lia. }
  rewrite E2.
  assert (E3 : (pSR p <? pb p + pM p - 1) = false) by (apply Z.ltb_ge; lia). rewrite E3, andb_false_r.
  reflexivity.
Qed.

(* ---------- histories with the allocations ---------- *)

(* the sequence matrix holds the rows of the sequence and the wrap rows *)
Definition seq_shape (h : hstate) : Prop := (hL h + 31) / 32 + hwrap h <= hSR h.

(* the invariant carried along a history: usize values, every matrix inside its allocation, shape of the sequence *)
Definition cinv (s : cstate) : Prop :=
  hwf (c_h s) /\ hSR (c_h s) <= c_scap s /\ hFR (c_h s) <= c_fcap s /\ hUR (c_h s) <= c_ucap s /\
  seq_shape (c_h s).

Definition cop_wf (o : cop) : Prop :=
  match o with
  | CBase o _ => hop_wf o
  | CCloneSeq | CCloneScores => True
  | CNewSeq rows L _ => 0 <= rows /\ 0 <= L
  end.

(* an event is fine: every access inside the OWNED rows and aligned, and the owned rows inside the allocation *)
Definition cev_ok (ce : cev) : Prop :=
  ev_safe (ce_ev ce) /\ forall b, ev_ext (ce_ev ce) b <= ce_alloc ce b.

Ltac destruct_matches :=
  repeat match goal with
  | |- context [match ?x with _ => _ end] => destruct x
  end.

Lemma cap_after_holds rows0 cap rows1 nc : rows1 <= cap_after rows0 cap rows1 nc.
Proof.
  unfold cap_after. pose proof (cb_resize_fits (mkCB rows0 cap) rows1 nc) as H.
  rewrite cb_resize_rows in H. exact H.
Qed.

Lemma cap_after_same rows0 cap nc : rows0 <= cap -> cap_after rows0 cap rows0 nc = cap.
Proof. intros H. unfold cap_after. rewrite cb_resize_keeps; [reflexivity | exact H]. Qed.

Section CapProofs.
  Variables K pstF pstU : Z.
  Hypothesis HF : layout_ok 4 K pstF.
  Hypothesis HU : layout_ok 1 K pstU.

  Notation hstep' := (hstep K pstF pstU).

  (* which ops touch which part of the state *)
  Lemma hstep_frame s o :
    (match o with
     | HStripe _ | HSample _ | HConfigure _ => True
     | _ => hSR (fst (hstep' s o)) = hSR s /\ hL (fst (hstep' s o)) = hL s /\ hwrap (fst (hstep' s o)) = hwrap s
     end) /\
    (match o with HScoreF32 _ _ _ | HResize _ _ => True | _ => hFR (fst (hstep' s o)) = hFR s end) /\
    (match o with HScoreU8 _ _ _ | HResize _ _ => True | _ => hUR (fst (hstep' s o)) = hUR s end).
  Proof.
    destruct o; unfold hstep; repeat split; try exact I; destruct_matches; reflexivity.
  Qed.

  Lemma hstep_seq_shape s o : seq_shape s -> seq_shape (fst (hstep' s o)).
  Proof.
    intros Hs. pose proof (hstep_frame s o) as [Hfr _]. unfold seq_shape in *.
    destruct o; try (destruct Hfr as [-> [-> ->]]; exact Hs).
    - (* stripe *)
      destruct a; unfold hstep; cbn [fst set_seq hL hwrap hSR]; unfold gstripe_rows, stripe_rows;
        replace (32 - 1) with 31 by reflexivity; lia.
    - (* sample *)
      unfold hstep; cbn [fst set_seq hL hwrap hSR]. unfold sample_rows.
      replace (L + 32 - 1) with (L + 31) by lia. lia.
    - (* configure *)
      unfold hstep, configure_wrap_model. destruct (hwrap s <? m) eqn:E; cbn [fst set_seq hL hwrap hSR].
      + apply Z.ltb_lt in E. lia.
      + exact Hs.
  Qed.

  (* extents of the events: the matrices named by the state *)
  Lemma score_f32_event_ext s a lo hi e :
    In e (snd (hstep' s (HScoreF32 a lo hi))) ->
    ev_ext e B_SRC = hSR s * 32 /\ ev_ext e B_DST = hFR (fst (hstep' s (HScoreF32 a lo hi))) * 32 * 4.
  Proof.
    unfold hstep. destruct a;
      match goal with |- context [match ?x with _ => _ end] => destruct x as [[|accs]| | |] end;
      simpl; try tauto; intros [<-|[]]; split; reflexivity.
  Qed.

  Lemma score_u8_event_ext s a lo hi e :
    In e (snd (hstep' s (HScoreU8 a lo hi))) ->
    ev_ext e B_SRC = hSR s * 32 /\ ev_ext e B_DST = hUR (fst (hstep' s (HScoreU8 a lo hi))) * 32 * 1.
  Proof.
    unfold hstep. destruct a;
      match goal with |- context [match ?x with _ => _ end] => destruct x as [[|accs]| | |] end;
      simpl; try tauto; intros [<-|[]]; split; reflexivity.
  Qed.

  Lemma max_f32_event_ext s o e :
    (exists a, o = HArgmaxF32 a \/ o = HMaxF32 a) ->
    In e (snd (hstep' s o)) -> ev_ext e B_SRC = hFR s * 32 * 4.
  Proof.
    intros [a [->| ->]]; unfold hstep; destruct a; destruct_matches; simpl; try tauto; intros [<-|[]]; reflexivity.
  Qed.

  Lemma max_u8_event_ext s o e :
    (exists a, o = HArgmaxU8 a \/ o = HMaxU8 a) ->
    In e (snd (hstep' s o)) -> ev_ext e B_SRC = hUR s * 32 * 1.
  Proof.
    intros [a [->| ->]]; unfold hstep; destruct a; destruct_matches; simpl; try tauto; intros [<-|[]]; reflexivity.
  Qed.

  Lemma stripe_event_ext s o e :
    (exists a, o = HStripe a) \/ (exists L, o = HSample L) ->
    In e (snd (hstep' s o)) -> ev_ext e B_DST = hSR (fst (hstep' s o)) * 32.
  Proof.
    intros [[a ->]|[L ->]]; unfold hstep.
    - destruct a; simpl; intros [<-|[]]; reflexivity.
    - simpl. intros [<-|[]]. simpl. unfold ext_dense. simpl. lia.
  Qed.

  Lemma map_cev_ok (f : fp_event -> nat -> Z) evs :
    Forall ev_safe evs -> (forall e b, In e evs -> ev_ext e b <= f e b) ->
    Forall cev_ok (map (fun e => mkCE e (f e)) evs).
  Proof.
    intros Hs Hle. rewrite Forall_forall in *. intros ce Hce. apply in_map_iff in Hce.
    destruct Hce as [e [<- He]]. split; cbn [ce_ev ce_alloc]; [apply Hs; exact He | intros b; apply Hle; exact He].
  Qed.

  Lemma cstep_safe s o :
    cinv s -> cop_wf o ->
    cinv (fst (cstep K pstF pstU s o)) /\ Forall cev_ok (snd (cstep K pstF pstU s o)).
  Proof.
    intros (Hw & Hsc & Hfc & Huc & Hsh) Ho. destruct o as [o nc | | | rows L nc].
    - simpl in Ho. unfold cstep.
      pose proof (hstep_safe K pstF pstU HF HU (c_h s) o Hw Ho) as [Hw' Hev].
      pose proof (hstep_frame (c_h s) o) as (Hfr1 & Hfr2 & Hfr3).
      pose proof (hstep_seq_shape (c_h s) o Hsh) as Hsh'.
      pose proof (score_f32_event_ext (c_h s)) as HeF. pose proof (score_u8_event_ext (c_h s)) as HeU.
      pose proof (max_f32_event_ext (c_h s) o) as HmF. pose proof (max_u8_event_ext (c_h s) o) as HmU.
      pose proof (stripe_event_ext (c_h s) o) as HsE.
      destruct (hstep K pstF pstU (c_h s) o) as [h' evs] eqn:E. cbn [fst snd] in *.
      destruct o; cbn [fst snd]; unfold cinv; cbn [c_h c_scap c_fcap c_ucap].
      + (* encode *)
        destruct Hfr1 as (-> & _ & _). rewrite Hfr2, Hfr3.
        split; [refine (conj Hw' (conj _ (conj _ (conj _ Hsh')))); lia|]. apply map_cev_ok; auto. intros; lia.
      + (* stripe *)
        rewrite Hfr2, Hfr3. split; [refine (conj Hw' (conj _ (conj _ (conj _ Hsh')))); lia|].
        apply map_cev_ok; auto. intros e b He. unfold alloc_of_stripe.
        destruct (Nat.eqb b B_DST) eqn:Eb; [|lia]. apply Nat.eqb_eq in Eb. subst b.
        rewrite (HsE e (or_introl (ex_intro _ a eq_refl)) He). lia.
      + (* sample *)
        rewrite Hfr2, Hfr3. split; [refine (conj Hw' (conj _ (conj _ (conj _ Hsh')))); lia|].
        apply map_cev_ok; auto. intros e b He. unfold alloc_of_stripe.
        destruct (Nat.eqb b B_DST) eqn:Eb; [|lia]. apply Nat.eqb_eq in Eb. subst b.
        rewrite (HsE e (or_intror (ex_intro _ L eq_refl)) He). lia.
      + (* configure *)
        rewrite Hfr2, Hfr3. split; [refine (conj Hw' (conj _ (conj _ (conj _ Hsh')))); try lia; apply cap_after_holds|].
        apply map_cev_ok; auto. intros; lia.
      + (* motif *)
        destruct Hfr1 as (-> & _ & _). rewrite Hfr2, Hfr3.
        split; [refine (conj Hw' (conj _ (conj _ (conj _ Hsh')))); lia|]. apply map_cev_ok; auto. intros; lia.
      + (* f32 scoring *)
        destruct Hfr1 as (HSR & _ & _). rewrite Hfr3.
        split; [refine (conj Hw' (conj _ (conj _ (conj _ Hsh')))); try lia; apply cap_after_holds|].
        apply map_cev_ok; auto. intros e b He. unfold alloc_of_score.
        destruct (HeF a lo hi e) as [H1 H2]; [rewrite E; exact He|]. rewrite E in H2. cbn [fst] in H2.
        destruct (Nat.eqb b B_SRC) eqn:Eb.
        * apply Nat.eqb_eq in Eb. subst b. rewrite H1. lia.
        * destruct (Nat.eqb b B_DST) eqn:Eb2; [|lia]. apply Nat.eqb_eq in Eb2. subst b. rewrite H2.
          pose proof (cap_after_holds (hFR (c_h s)) (c_fcap s) (hFR h') nc). lia.
      + (* u8 scoring *)
        destruct Hfr1 as (HSR & _ & _). rewrite Hfr2.
        split; [refine (conj Hw' (conj _ (conj _ (conj _ Hsh')))); try lia; apply cap_after_holds|].
        apply map_cev_ok; auto. intros e b He. unfold alloc_of_score.
        destruct (HeU a lo hi e) as [H1 H2]; [rewrite E; exact He|]. rewrite E in H2. cbn [fst] in H2.
        destruct (Nat.eqb b B_SRC) eqn:Eb.
        * apply Nat.eqb_eq in Eb. subst b. rewrite H1. lia.
        * destruct (Nat.eqb b B_DST) eqn:Eb2; [|lia]. apply Nat.eqb_eq in Eb2. subst b. rewrite H2.
          pose proof (cap_after_holds (hUR (c_h s)) (c_ucap s) (hUR h') nc). lia.
      + (* resize *)
        destruct Hfr1 as (-> & _ & _).
        split; [refine (conj Hw' (conj _ (conj _ (conj _ Hsh')))); try lia; apply cap_after_holds|]. apply map_cev_ok; auto. intros; lia.
      + (* argmax f32 *)
        destruct Hfr1 as (-> & _ & _). rewrite Hfr2, Hfr3. split; [refine (conj Hw' (conj _ (conj _ (conj _ Hsh')))); lia|].
        apply map_cev_ok; auto. intros e b He. unfold alloc_of_max.
        destruct (Nat.eqb b B_SRC) eqn:Eb; [|lia]. apply Nat.eqb_eq in Eb. subst b.
        rewrite (HmF e (ex_intro _ a (or_introl eq_refl)) He). lia.
      + (* max f32 *)
        destruct Hfr1 as (-> & _ & _). rewrite Hfr2, Hfr3. split; [refine (conj Hw' (conj _ (conj _ (conj _ Hsh')))); lia|].
        apply map_cev_ok; auto. intros e b He. unfold alloc_of_max.
        destruct (Nat.eqb b B_SRC) eqn:Eb; [|lia]. apply Nat.eqb_eq in Eb. subst b.
        rewrite (HmF e (ex_intro _ a (or_intror eq_refl)) He). lia.
      + (* argmax u8 *)
        destruct Hfr1 as (-> & _ & _). rewrite Hfr2, Hfr3. split; [refine (conj Hw' (conj _ (conj _ (conj _ Hsh')))); lia|].
        apply map_cev_ok; auto. intros e b He. unfold alloc_of_max.
        destruct (Nat.eqb b B_SRC) eqn:Eb; [|lia]. apply Nat.eqb_eq in Eb. subst b.
        rewrite (HmU e (ex_intro _ a (or_introl eq_refl)) He). lia.
      + (* max u8 *)
        destruct Hfr1 as (-> & _ & _). rewrite Hfr2, Hfr3. split; [refine (conj Hw' (conj _ (conj _ (conj _ Hsh')))); lia|].
        apply map_cev_ok; auto. intros e b He. unfold alloc_of_max.
        destruct (Nat.eqb b B_SRC) eqn:Eb; [|lia]. apply Nat.eqb_eq in Eb. subst b.
        rewrite (HmU e (ex_intro _ a (or_intror eq_refl)) He). lia.
    - (* clone of the sequence *)
      simpl. split; [refine (conj Hw (conj _ (conj _ (conj _ Hsh)))); simpl; lia | constructor].
    - (* clone of the score matrices *)
      simpl. split; [refine (conj Hw (conj _ (conj _ (conj _ Hsh)))); simpl; lia | constructor].
    - (* new(DenseMatrix::new(rows), L) *)
      destruct Ho as [Hr HL]. unfold cstep. destruct (rows * 32 <? L) eqn:E.
      + split; [exact (conj Hw (conj Hsc (conj Hfc (conj Huc Hsh)))) | constructor].
      + apply Z.ltb_ge in E. cbn [fst snd]. split; [|constructor].
        unfold cinv. cbn [c_h c_scap c_fcap c_ucap].
        assert (Hdiv : (L + 31) / 32 < rows + 1) by (apply Z.div_lt_upper_bound; lia).
        destruct Hw as (?&?&?&?&?&?&?&?).
        refine (conj _ (conj _ (conj _ (conj _ _)))); unfold hwf, seq_shape, set_seq; simpl; lia.
  Qed.

  Lemma ctrace_safe ops : forall s,
    cinv s -> Forall cop_wf ops ->
    Forall cev_ok (ctrace K pstF pstU s ops) /\ Forall cinv (cstates K pstF pstU s ops).
  Proof.
    induction ops as [|o r IH]; intros s Hs Ho; simpl.
    - split; [constructor | constructor; [exact Hs | constructor]].
    - inversion Ho as [|? ? Ho1 Ho2]; subst.
      destruct (cstep_safe s o Hs Ho1) as [Hs' Hev].
      destruct (cstep K pstF pstU s o) as [s' ev] eqn:E. simpl in Hs', Hev.
      destruct (IH s' Hs' Ho2) as [Ht Hf]. split; [apply Forall_app; split; auto | constructor; auto].
  Qed.

  (* a sequence that was configured for the motif: the full-range call `score_into` passes every guard of the SIMD
     wrappers and enters the kernel (uses the shape invariant: the matrix holds at least one sequence row) *)
  Lemma configured_full_range_enters s :
    hwf s -> seq_shape s -> 0 < hM s -> hM s <= hL s -> hM s - 1 <= hwrap s ->
    let p := score_params K s pstU 0 (hSR s - hwrap s) in
    wrap_score_u8_avx2 true p = Ok (Entered (fp_score_u8_avx2_shuffle p)) /\
    wrap_score_sse2 true 32 (score_params K s pstF 0 (hSR s - hwrap s)) =
      Ok (Entered (fp_score_sse2 32 (score_params K s pstF 0 (hSR s - hwrap s)))).
  Proof.
    intros (HE & HL & HSR & Hw & HM & _) Hsh HM0 HML Hwr. unfold seq_shape in Hsh.
    assert (Hrows : 1 <= (hL s + 31) / 32) by (apply Z.div_le_lower_bound; lia).
    cbv zeta. split.
    - unfold wrap_score_u8_avx2. apply score_guard_total; unfold score_params; simpl; lia.
    - unfold wrap_score_sse2. apply score_guard_total; unfold score_params; simpl; lia.
  Qed.

  (* right after a clone the allocation of the sequence matrix is exact, whatever came before *)
  Lemma clone_is_exact s :
    c_scap (fst (cstep K pstF pstU s CCloneSeq)) = hSR (c_h (fst (cstep K pstF pstU s CCloneSeq))).
  Proof. reflexivity. Qed.

  (* a scoring call leaves the allocation of the sequence alone *)
  Lemma score_keeps_cap s a lo hi nc :
    c_scap (fst (cstep K pstF pstU s (CBase (HScoreU8 a lo hi) nc))) = c_scap s /\
    c_scap (fst (cstep K pstF pstU s (CBase (HScoreF32 a lo hi) nc))) = c_scap s.
  Proof.
    unfold cstep. split.
    - destruct (hstep K pstF pstU (c_h s) (HScoreU8 a lo hi)); reflexivity.
    - destruct (hstep K pstF pstU (c_h s) (HScoreF32 a lo hi)); reflexivity.
  Qed.

  (* a configure_wrap that fits into the capacity does not reallocate *)
  Lemma configure_within_capacity s m nc :
    hSR (fst (hstep K pstF pstU (c_h s) (HConfigure m))) <= c_scap s ->
    c_scap (fst (cstep K pstF pstU s (CBase (HConfigure m) nc))) = c_scap s.
  Proof.
    intros H. unfold cstep. destruct (hstep K pstF pstU (c_h s) (HConfigure m)) as [h' evs]. cbn [fst] in *.
    cbn [c_scap]. unfold cap_after. rewrite cb_resize_keeps; [reflexivity | exact H].
  Qed.
End CapProofs.
