(* Lemmas about the footprint model: loop combinators, soundness of the executable
   access check, the per-kernel bounds and alignment facts. *)
From Coq Require Import List ZArith Bool Lia Arith.
From LMBase Require Import Res.
From LMDense Require Import DenseModel DenseProofs.
From LMFootprint Require Import FpModel.
Import ListNotations.
Open Scope Z_scope.

(* ---------- what the theorems say about one access ---------- *)

Definition InBounds (ext : nat -> Z) (a : access) : Prop :=
  0 <= aoff a /\ 0 <= awidth a /\ aoff a + awidth a <= ext (abuf a).

(* whatever address the buffer starts at, as long as it has the alignment the owner
   of the buffer guarantees, the access is aligned as the instruction requires *)
Definition Aligned (balign : nat -> Z) (a : access) : Prop :=
  forall base : Z, base mod balign (abuf a) = 0 -> (base + aoff a) mod aalign a = 0.

Definition Safe (ext balign : nat -> Z) (a : access) : Prop := InBounds ext a /\ Aligned balign a.

(* ---------- loops ---------- *)

Lemma In_zseq x start n : In x (zseq start n) <-> start <= x < start + Z.of_nat n.
Proof.
  revert start; induction n as [|n IH]; intros start; simpl zseq.
  - simpl. lia.
  - rewrite Nat2Z.inj_succ. simpl. rewrite IH. lia.
Qed.

Lemma In_zrange x a b : In x (zrange a b) <-> a <= x < b.
Proof.
  unfold zrange. rewrite In_zseq.
  destruct (Z_le_gt_dec a b).
  - rewrite Z2Nat.id by lia. lia.
  - replace (Z.to_nat (b - a)) with 0%nat by lia. simpl. lia.
Qed.

Lemma zseq_length start n : length (zseq start n) = n.
Proof. revert start; induction n; intros; simpl; auto. Qed.

Lemma In_while_idx fuel cond step i x :
  In x (while_idx fuel cond step i) ->
  cond x = true /\ exists k, 0 <= k /\ x = i + step * k.
Proof.
  revert i; induction fuel as [|f IH]; intros i; simpl; [tauto|].
  destruct (cond i) eqn:E; [|simpl; tauto].
  intros [<-|H].
  - split; auto. exists 0. lia.
  - destruct (IH _ H) as [Hc [k [Hk ->]]]. split; auto. exists (k + 1). lia.
Qed.

(* the loop leaves through its condition, not because the model ran out of fuel *)
Lemma while_idx_exit fuel cond step i bound :
  0 < step ->
  (forall x, cond x = true -> x + step <= bound) ->
  bound - i < step * Z.of_nat fuel ->
  cond (i + step * Z.of_nat (length (while_idx fuel cond step i))) = false.
Proof.
  intros Hs Hb. revert i; induction fuel as [|f IH]; intros i Hf; simpl.
  - rewrite Z.mul_0_r, Z.add_0_r. destruct (cond i) eqn:E; auto.
    apply Hb in E. simpl in Hf. lia.
  - destruct (cond i) eqn:E.
    + simpl length. rewrite Nat2Z.inj_succ.
      replace (i + step * Z.succ (Z.of_nat (length (while_idx f cond step (i + step)))))
        with ((i + step) + step * Z.of_nat (length (while_idx f cond step (i + step)))) by lia.
      apply IH. rewrite Nat2Z.inj_succ in Hf. lia.
    + simpl. rewrite Z.mul_0_r, Z.add_0_r. exact E.
Qed.

Lemma while_idx_length_bound fuel cond step i bound :
  0 < step ->
  (forall x, cond x = true -> x + step <= bound) ->
  i <= bound ->
  i + step * Z.of_nat (length (while_idx fuel cond step i)) <= bound.
Proof.
  intros Hs Hb. revert i; induction fuel as [|f IH]; intros i Hi; simpl.
  - lia.
  - destruct (cond i) eqn:E; simpl length; [|lia].
    rewrite Nat2Z.inj_succ. apply Hb in E.
    specialize (IH (i + step) ltac:(lia)). lia.
Qed.

(* ---------- the executable check is sound ---------- *)

Lemma acc_ok_sound ext balign a : acc_ok ext balign a = true -> Safe ext balign a.
Proof.
  unfold acc_ok, Safe, InBounds, Aligned. intros H.
  apply andb_true_iff in H. destruct H as [H Hal].
  apply andb_true_iff in H. destruct H as [H Hb].
  apply andb_true_iff in H. destruct H as [H0 Hw].
  apply Z.leb_le in H0, Hw, Hb. split; [lia|].
  intros base Hbase. apply orb_true_iff in Hal. destruct Hal as [H1|Hal].
  - apply Z.eqb_eq in H1. rewrite H1. apply Z.mod_1_r.
  - apply andb_true_iff in Hal. destruct Hal as [Hal Ho].
    apply andb_true_iff in Hal. destruct Hal as [Hpos Hd].
    apply Z.ltb_lt in Hpos. apply Z.eqb_eq in Hd, Ho.
    apply Z.mod_divide in Hd; [|lia]. apply Z.mod_divide in Ho; [|lia].
    apply Z.mod_divide; [lia|].
    apply Z.divide_add_r; [|exact Ho].
    destruct (Z.eq_dec (balign (abuf a)) 0) as [Hz|Hz].
    + rewrite Hz in Hbase. rewrite Zmod_0_r in Hbase. subst base. apply Z.divide_0_r.
    + apply Z.mod_divide in Hbase; auto. apply Z.divide_trans with (balign (abuf a)); assumption.
Qed.

Lemma all_ok_sound ext balign l : all_ok ext balign l = true -> Forall (Safe ext balign) l.
Proof.
  unfold all_ok. rewrite forallb_forall, Forall_forall. intros H a Ha. apply acc_ok_sound; auto.
Qed.

Lemma first_bad_none ext balign l : first_bad ext balign l = None <-> all_ok ext balign l = true.
Proof.
  induction l as [|a l IH]; simpl; [tauto|].
  destruct (acc_ok ext balign a); simpl; [auto|]. split; discriminate.
Qed.

Lemma first_bad_some ext balign l a :
  first_bad ext balign l = Some a -> In a l /\ acc_ok ext balign a = false.
Proof.
  induction l as [|x l IH]; simpl; [discriminate|].
  destruct (acc_ok ext balign x) eqn:E.
  - intros H. destruct (IH H). auto.
  - intros [= <-]. auto.
Qed.

(* an access that fails the bounds part of the check is out of bounds *)
Lemma not_in_bounds ext a :
  ((0 <=? aoff a) && (0 <=? awidth a) && (aoff a + awidth a <=? ext (abuf a))) = false ->
  ~ InBounds ext a.
Proof.
  unfold InBounds. intros H [H0 [H1 H2]].
  rewrite <- Z.leb_le in H0, H1, H2. rewrite H0, H1, H2 in H. discriminate.
Qed.

(* ---------- alignment helpers ---------- *)

Lemma aligned_1 balign b off w wrt : Aligned balign (mkAcc b off w wrt 1).
Proof. intros base _. simpl. apply Z.mod_1_r. Qed.

Lemma aligned_div balign b off w wrt al :
  0 < al -> (al | balign b) -> (al | off) -> Aligned balign (mkAcc b off w wrt al).
Proof.
  intros Hal Hd Ho base Hbase. simpl in *.
  apply Z.mod_divide; [lia|]. apply Z.divide_add_r; [|exact Ho].
  destruct (Z.eq_dec (balign b) 0) as [Hz|Hz].
  - rewrite Hz, Zmod_0_r in Hbase. subst. apply Z.divide_0_r.
  - apply Z.mod_divide in Hbase; auto. apply Z.divide_trans with (balign b); assumption.
Qed.

Lemma div32_16 : (16 | 32). Proof. exists 2; reflexivity. Qed.
Lemma div32_4 : (4 | 32). Proof. exists 8; reflexivity. Qed.
Lemma div32_32 : (32 | 32). Proof. exists 1; reflexivity. Qed.
Lemma div32_1 : (1 | 32). Proof. exists 32; reflexivity. Qed.

(* stride facts: (st*es) mod 32 = 0 gives divisibility of row offsets *)
Lemma layout_div es C st : layout_ok es C st -> (32 | st * es).
Proof. intros [_ [_ [_ H]]]. apply Z.mod_divide; [lia|exact H]. Qed.

Lemma layout_row_bytes_ge es C st : layout_ok es C st -> 32 <= st * es.
Proof.
  intros [He [HC [Hle Hm]]].
  assert (0 < st * es) by nia.
  apply Z.mod_divide in Hm; [|lia]. destruct Hm as [k Hk]. nia.
Qed.

(* ---------- link to the dense layout model (LMDense) ---------- *)

(* the stride DenseMatrix::stride() reports, as modelled (and proved) in LMDense, satisfies layout_ok *)
Lemma dense_layout_ok (es C : nat) :
  (0 < es)%nat -> (0 < C)%nat -> (32 mod es = 0)%nat ->
  layout_ok (Z.of_nat es) (Z.of_nat C) (Z.of_nat (stride es C 32)).
Proof.
  intros He HC Hd.
  pose proof (stride_ge es C 32 He ltac:(lia)) as Hge.
  pose proof (stride_mod_align es C 32 He ltac:(lia) Hd) as Hm.
  unfold layout_ok. repeat split; try lia.
  rewrite <- Nat2Z.inj_mul.
  change 32 with (Z.of_nat 32). rewrite <- Nat2Z.inj_mod. rewrite Hm. reflexivity.
Qed.

(* byte offset of row r in the model = row_addr of LMDense minus the base *)
Lemma dense_row_offset (es C r base : nat) :
  (0 < es)%nat -> (32 mod es = 0)%nat ->
  Z.of_nat (row_addr base es C 32 r) = Z.of_nat base + Z.of_nat r * Z.of_nat (stride es C 32) * Z.of_nat es.
Proof.
  intros He Hd. unfold row_addr.
  rewrite <- (stride_bytes es C 32 He ltac:(lia) Hd). lia.
Qed.

(* ---------- membership destructuring ---------- *)

Ltac destr_in :=
  repeat match goal with
  | H : In _ (_ ++ _) |- _ => apply in_app_or in H; destruct H as [H|H]
  | H : In _ (flat_map _ _) |- _ =>
      let x := fresh "x" in let Hx := fresh "Hx" in
      apply in_flat_map in H; destruct H as [x [Hx H]]
  | H : In _ (map _ _) |- _ =>
      let x := fresh "x" in let Hx := fresh "Hx" in
      apply in_map_iff in H; destruct H as [x [Hx H]]; symmetry in Hx
  | H : In _ (zrange _ _) |- _ => apply In_zrange in H
  | H : In _ (_ :: _) |- _ => destruct H as [H|H]
  | H : In _ [] |- _ => destruct H
  | H : In _ (if ?c then _ else _) |- _ => let E := fresh "E" in destruct c eqn:E
  end.

Ltac bool_to_prop :=
  repeat match goal with
  | H : (_ && _) = true |- _ => apply andb_true_iff in H; destruct H
  | H : (_ || _) = false |- _ => apply orb_false_iff in H; destruct H
  | H : (_ <? _) = true |- _ => apply Z.ltb_lt in H
  | H : (_ <? _) = false |- _ => apply Z.ltb_ge in H
  | H : (_ <=? _) = true |- _ => apply Z.leb_le in H
  | H : (_ <=? _) = false |- _ => apply Z.leb_gt in H
  | H : (_ =? _) = true |- _ => apply Z.eqb_eq in H
  | H : (_ =? _) = false |- _ => apply Z.eqb_neq in H
  end.

Ltac fp_unfold :=
  unfold Safe, InBounds, ext_encode, ext_stripe, ext_gstripe, ext_score, ext_max, ext_dense,
         rd, wr, B_SRC, B_DST, B_PSSM, B_LOC;
  cbn [abuf aoff awidth aalign awrite Nat.eqb].

(* =====================================================================
   encode kernels
   ===================================================================== *)

Lemma enc_cond_bound W strict L x : enc_cond W strict L x = true -> x + W <= L.
Proof. unfold enc_cond. destruct strict; intros H; bool_to_prop; lia. Qed.

Lemma enc_simd_in W strict L x :
  0 < W -> In x (enc_simd_idx W strict L) -> 0 <= x /\ x + W <= L.
Proof.
  intros HW H. apply In_while_idx in H. destruct H as [Hc [k [Hk ->]]].
  apply enc_cond_bound in Hc. nia.
Qed.

Lemma enc_tail_start_bound W strict L : 0 < W -> 0 <= L -> 0 <= enc_tail_start W strict L <= L.
Proof.
  intros HW HL. unfold enc_tail_start, enc_simd_idx. split; [nia|].
  pose proof (while_idx_length_bound (Z.to_nat (L / W) + 1) (enc_cond W strict L) W 0 L HW
                (fun x => enc_cond_bound W strict L x) HL). lia.
Qed.

Lemma fp_encode_simd_safe W strict L :
  0 < W -> 0 <= L ->
  Forall (Safe (ext_encode L L) balign_slices) (fp_encode_simd W strict L).
Proof.
  intros HW HL. apply Forall_forall. intros a Ha. unfold fp_encode_simd in Ha. cbv zeta in Ha.
  pose proof (enc_tail_start_bound W strict L HW HL) as Ht.
  destr_in; subst;
  repeat match goal with H : In _ (enc_simd_idx _ _ _) |- _ => apply enc_simd_in in H; [|assumption] end;
  bool_to_prop;
  (split; [fp_unfold; lia | apply aligned_1]).
Qed.

Lemma fp_encode_into_sse2_all_safe L :
  0 <= L -> Forall (Safe (ext_encode L L) balign_slices) (fp_encode_into_sse2 L).
Proof.
  intros HL. unfold fp_encode_into_sse2. apply Forall_app. split.
  - apply fp_encode_simd_safe; [lia | auto].
  - constructor; [|constructor]. split; [fp_unfold; lia | apply aligned_1].
Qed.

Lemma fp_encode_generic_safe L :
  0 <= L -> Forall (Safe (ext_encode L L) balign_slices) (fp_encode_generic L).
Proof.
  intros HL. apply Forall_forall. intros a Ha. unfold fp_encode_generic in Ha.
  destr_in; subst; (split; [fp_unfold; lia | apply aligned_1]).
Qed.

(* the SIMD loop stops because its condition fails *)
Lemma enc_loop_exits W strict L :
  0 < W -> 0 <= L -> enc_cond W strict L (enc_tail_start W strict L) = false.
Proof.
  intros HW HL. unfold enc_tail_start, enc_simd_idx.
  pose proof (while_idx_exit (Z.to_nat (L / W) + 1) (enc_cond W strict L) W 0 L HW
                (fun x => enc_cond_bound W strict L x)) as H.
  rewrite Z.add_0_l in H. apply H.
  rewrite Nat2Z.inj_add, Z2Nat.id by (apply Z.div_pos; lia).
  pose proof (Z.mod_pos_bound L W HW). pose proof (Z.div_mod L W ltac:(lia)). simpl Z.of_nat. nia.
Qed.

(* =====================================================================
   stripe_avx2
   ===================================================================== *)

Lemma stripe_rows_spec L : 0 <= L -> 32 * stripe_rows L - 31 <= L <= 32 * stripe_rows L.
Proof.
  intros HL. unfold stripe_rows.
  pose proof (Z.div_mod (L + 31) 32 ltac:(lia)). pose proof (Z.mod_pos_bound (L + 31) 32 ltac:(lia)). lia.
Qed.

Lemma stripe_cond_new L R i :
  stripe_cond false L R i = true -> i + 32 <= R /\ 31 * R + i + 32 <= L.
Proof. unfold stripe_cond. intros H. bool_to_prop. simpl in *. bool_to_prop. lia. Qed.

Lemma stripe_block_in old L x :
  In x (stripe_block_idx old L) ->
  stripe_cond old L (stripe_rows L) x = true /\ 0 <= x.
Proof.
  unfold stripe_block_idx. intros H. apply In_while_idx in H.
  destruct H as [Hc [k [Hk ->]]]. split; auto. lia.
Qed.

Lemma aligned_row_store b ost r w wrt :
  (32 | ost) -> balign_stripe b = 32 -> Aligned balign_stripe (mkAcc b (r * ost) w wrt 32).
Proof.
  intros Hd Hb. apply aligned_div; [lia| rewrite Hb; apply div32_32 |].
  apply Z.divide_mul_r. exact Hd.
Qed.

Lemma fp_stripe_avx2_safe L ost :
  0 <= L -> layout_ok 1 32 ost ->
  Forall (Safe (ext_stripe L ost) balign_stripe) (fp_stripe_avx2 L ost).
Proof.
  intros HL Hlay.
  pose proof (layout_row_bytes_ge _ _ _ Hlay) as Host. rewrite Z.mul_1_r in Host.
  pose proof (layout_div _ _ _ Hlay) as Hdiv. rewrite Z.mul_1_r in Hdiv.
  pose proof (stripe_rows_spec L HL) as HR.
  apply Forall_forall. intros a Ha. unfold fp_stripe_avx2, fp_stripe_avx2_gen in Ha. cbv zeta in Ha.
  destruct (L =? 0) eqn:EL; [destruct Ha|]. bool_to_prop.
  set (R := stripe_rows L) in *.
  assert (HRpos : 0 < R) by lia.
  apply in_app_or in Ha. destruct Ha as [Ha|Ha].
  - (* the 32x32 blocks *)
    apply in_flat_map in Ha. destruct Ha as [i [Hi Ha]].
    apply stripe_block_in in Hi. destruct Hi as [Hc Hi0].
    apply stripe_cond_new in Hc. destruct Hc as [Hc1 Hc2].
    unfold stripe_block in Ha. destr_in; subst.
    + split; [fp_unfold; fold R; nia | apply aligned_1].
    + split; [fp_unfold; fold R; nia | apply aligned_row_store; auto].
  - apply in_app_or in Ha. destruct Ha as [Ha|Ha].
    + (* remaining rows, scalar *)
      unfold stripe_tail in Ha. destr_in; subst; bool_to_prop;
        (split; [fp_unfold; fold R; nia | apply aligned_1]).
    + (* fill after the end of the sequence *)
      unfold stripe_fill in Ha. destr_in; subst.
      pose proof (Z.mod_pos_bound x R HRpos).
      assert (0 <= x / R < 32).
      { split; [apply Z.div_pos; lia | apply Z.div_lt_upper_bound; lia]. }
      split; [fp_unfold; fold R; nia | apply aligned_1].
Qed.

(* the block loop stops because its condition fails (fuel is sufficient) *)
Lemma stripe_loop_exits L :
  0 <= L ->
  stripe_cond false L (stripe_rows L) (32 * Z.of_nat (length (stripe_block_idx false L))) = false.
Proof.
  intros HL. unfold stripe_block_idx. cbv zeta.
  set (R := stripe_rows L).
  pose proof (stripe_rows_spec L HL).
  pose proof (while_idx_exit (Z.to_nat (R / 32) + 1) (stripe_cond false L R) 32 0 R ltac:(lia)) as H1.
  rewrite Z.add_0_l in H1. apply H1.
  - intros x Hx. apply stripe_cond_new in Hx. lia.
  - assert (0 <= R) by (unfold R, stripe_rows; apply Z.div_pos; lia).
    rewrite Nat2Z.inj_add, Z2Nat.id by (apply Z.div_pos; lia).
    pose proof (Z.mod_pos_bound R 32 ltac:(lia)). pose proof (Z.div_mod R 32 ltac:(lia)).
    simpl Z.of_nat. lia.
Qed.

(* generic striping (safe code; every index is checked, and in range) *)
Lemma fp_stripe_generic_safe C L ost :
  0 <= L -> layout_ok 1 C ost ->
  Forall (Safe (ext_gstripe C L ost) balign_stripe) (fp_stripe_generic C L ost).
Proof.
  intros HL [_ [HC [Hle _]]].
  apply Forall_forall. intros a Ha. unfold fp_stripe_generic in Ha. cbv zeta in Ha.
  set (R := gstripe_rows C L) in *.
  assert (HR : L <= R * C /\ 0 <= R).
  { unfold R, gstripe_rows. pose proof (Z.div_mod (L + (C - 1)) C ltac:(lia)).
    pose proof (Z.mod_pos_bound (L + (C - 1)) C HC).
    split; [nia | apply Z.div_pos; lia]. }
  destruct HR as [HR1 HR0].
  assert (Hcell : forall x, 0 <= x < R * C ->
            0 <= (x mod R) * ost + x / R /\ (x mod R) * ost + x / R + 1 <= R * ost).
  { intros x Hx. assert (0 < R) by nia.
    pose proof (Z.mod_pos_bound x R ltac:(lia)).
    assert (0 <= x / R < C).
    { split; [apply Z.div_pos; lia | apply Z.div_lt_upper_bound; nia]. }
    nia. }
  destr_in; subst; try (split; [fp_unfold; lia | apply aligned_1]).
  - specialize (Hcell x ltac:(lia)). split; [fp_unfold; fold R; lia | apply aligned_1].
  - specialize (Hcell x ltac:(lia)). split; [fp_unfold; fold R; lia | apply aligned_1].
Qed.

(* =====================================================================
   scoring kernels
   ===================================================================== *)

(* all parameters are usize values *)
Definition sp_nonneg (p : SP) : Prop :=
  0 <= pa p /\ 0 <= pL p /\ 0 <= pSR p /\ 0 <= pwrap p /\ 0 <= pM p.

(* what the guards of the safe wrappers establish *)
Lemma score_guard_entered ranged p body accs :
  score_guard ranged p body = Ok (Entered accs) ->
  accs = body tt /\ pM p <> 0 /\ pM p - 1 <= pwrap p /\ pM p <= pL p /\ pa p < pb p /\
  (ranged = true -> pb p + pM p - 1 <= pSR p).
Proof.
  unfold score_guard.
  destruct (pM p =? 0) eqn:E0; [discriminate|].
  destruct (pwrap p <? pM p - 1) eqn:E1; [discriminate|].
  destruct ((pL p <? pM p) || (pb p <=? pa p)) eqn:E2; [discriminate|].
  destruct (ranged && (pSR p <? pb p + pM p - 1)) eqn:E3; [discriminate|].
  intros [= <-]. bool_to_prop. repeat split; try lia.
  intros ->. simpl in E3. bool_to_prop. lia.
Qed.

Lemma balign_mat_32 b : (b = B_SRC \/ b = B_DST \/ b = B_PSSM) -> balign_mat_src b = 32.
Proof. intros [-> | [-> | ->]]; reflexivity. Qed.

Lemma aligned_mat b off w wrt al :
  (b = B_SRC \/ b = B_DST \/ b = B_PSSM) -> 0 < al -> (al | 32) -> (al | off) ->
  Aligned balign_mat_src (mkAcc b off w wrt al).
Proof.
  intros Hb Hal H32 Ho. apply aligned_div; auto. rewrite balign_mat_32; auto.
Qed.

Ltac solve_div :=
  repeat first
    [ assumption
    | apply Z.divide_add_r
    | apply Z.divide_factor_l
    | apply Z.divide_factor_r
    | apply Z.divide_mul_r; assumption
    | apply Z.divide_mul_l; assumption ].

Lemma div_trans_32 al x : (al | 32) -> (32 | x) -> (al | x).
Proof. intros; eapply Z.divide_trans; eauto. Qed.

(* the sequence-row load shared by the three AVX2 kernels *)
Lemma seq_load_safe es p i j :
  sp_nonneg p -> layout_ok 1 32 (psst p) ->
  pa p <= i < pb p -> 0 <= j < pM p -> pb p + pM p - 1 <= pSR p ->
  Safe (ext_score es p) balign_mat_src (rd B_SRC ((i + j) * psst p) 32 32).
Proof.
  intros [Ha _] Hlay Hi Hj Hr.
  pose proof (layout_row_bytes_ge _ _ _ Hlay) as Hst. rewrite Z.mul_1_r in Hst.
  pose proof (layout_div _ _ _ Hlay) as Hd. rewrite Z.mul_1_r in Hd.
  split.
  - fp_unfold. nia.
  - apply aligned_mat; auto; [lia | apply div32_32 | apply Z.divide_mul_r; exact Hd].
Qed.

(* the four 8-float stores of one score row (f32, C = 32) *)
Lemma f32_store_safe p i q :
  sp_nonneg p -> layout_ok 4 32 (pdst p) ->
  pa p <= i < pb p -> 0 <= q < 4 ->
  Safe (ext_score 4 p) balign_mat_src (wr B_DST (((i - pa p) * pdst p + 8 * q) * 4) 32 32).
Proof.
  intros [Ha _] Hlay Hi Hq.
  destruct Hlay as [_ [_ [Hle Hm]]]. apply Z.mod_divide in Hm; [|lia].
  split.
  - fp_unfold. nia.
  - apply aligned_mat; auto; [lia | apply div32_32 |].
    replace (((i - pa p) * pdst p + 8 * q) * 4) with ((i - pa p) * (pdst p * 4) + 32 * q) by ring.
    solve_div.
Qed.

Lemma score_permute_body_safe p :
  sp_nonneg p -> layout_ok 1 32 (psst p) -> layout_ok 4 (pK p) (ppst p) -> layout_ok 4 32 (pdst p) ->
  pb p + pM p - 1 <= pSR p ->
  Forall (Safe (ext_score 4 p) balign_mat_src) (fp_score_f32_avx2_permute p).
Proof.
  intros Hnn Hs Hp Hd Hr. apply Forall_forall. intros a Ha.
  unfold fp_score_f32_avx2_permute in Ha. destr_in; subst.
  - apply seq_load_safe; auto.
  - pose proof (layout_row_bytes_ge _ _ _ Hp) as Hge. pose proof (layout_div _ _ _ Hp) as Hdv.
    split.
    + fp_unfold. nia.
    + apply aligned_mat; auto; [lia | apply div32_32 |].
      replace (x0 * ppst p * 4) with (x0 * (ppst p * 4)) by ring. solve_div.
  - apply f32_store_safe; auto.
Qed.

Lemma score_gather_body_safe p :
  sp_nonneg p -> layout_ok 1 32 (psst p) -> layout_ok 4 (pK p) (ppst p) -> layout_ok 4 32 (pdst p) ->
  pb p + pM p - 1 <= pSR p ->
  Forall (Safe (ext_score 4 p) balign_mat_src) (fp_score_f32_avx2_gather p).
Proof.
  intros Hnn Hs Hp Hd Hr. apply Forall_forall. intros a Ha.
  unfold fp_score_f32_avx2_gather in Ha. destr_in; subst.
  - apply seq_load_safe; auto.
  - destruct Hp as [_ [_ [Hle _]]].
    split; [fp_unfold; nia | apply aligned_1].
  - apply f32_store_safe; auto.
Qed.

Lemma score_u8_body_safe p :
  sp_nonneg p -> layout_ok 1 32 (psst p) -> layout_ok 1 (pK p) (ppst p) -> layout_ok 1 32 (pdst p) ->
  pb p + pM p - 1 <= pSR p ->
  Forall (Safe (ext_score 1 p) balign_mat_src) (fp_score_u8_avx2_shuffle p).
Proof.
  intros Hnn Hs Hp Hd Hr. apply Forall_forall. intros a Ha.
  unfold fp_score_u8_avx2_shuffle in Ha. destr_in; subst.
  - apply seq_load_safe; auto.
  - pose proof (layout_row_bytes_ge _ _ _ Hp) as Hge. pose proof (layout_div _ _ _ Hp) as Hdv.
    rewrite Z.mul_1_r in Hge, Hdv.
    split.
    + fp_unfold. nia.
    + apply aligned_mat; auto; [lia | apply div32_16 |].
      apply div_trans_32; [apply div32_16 | solve_div].
  - pose proof (layout_row_bytes_ge _ _ _ Hd) as Hge. pose proof (layout_div _ _ _ Hd) as Hdv.
    rewrite Z.mul_1_r in Hge, Hdv. destruct Hnn as [Ha0 _].
    split.
    + fp_unfold. nia.
    + apply aligned_mat; auto; [lia | apply div32_32 | solve_div].
Qed.

Lemma score_sse2_body_safe C p :
  sp_nonneg p -> layout_ok 1 C (psst p) -> layout_ok 4 (pK p) (ppst p) -> layout_ok 4 C (pdst p) ->
  pb p + pM p - 1 <= pSR p ->
  Forall (Safe (ext_score 4 p) balign_mat_src) (fp_score_sse2 C p).
Proof.
  intros Hnn Hs Hp Hd Hr. apply Forall_forall. intros a Ha.
  unfold fp_score_sse2 in Ha. destruct Hnn as [Ha0 _].
  assert (HC : 0 < C) by (destruct Hs as [_ [H _]]; exact H).
  assert (Hq : forall q, 0 <= q < C / 16 -> 16 * q + 16 <= C).
  { intros q Hq. pose proof (Z.div_mod C 16 ltac:(lia)). pose proof (Z.mod_pos_bound C 16 ltac:(lia)). lia. }
  destr_in; subst.
  - (* _mm_load_si128 of 16 sequence cells *)
    pose proof (layout_row_bytes_ge _ _ _ Hs) as Hge. pose proof (layout_div _ _ _ Hs) as Hdv.
    rewrite Z.mul_1_r in Hge, Hdv. destruct Hs as [_ [_ [Hle _]]].
    specialize (Hq x Hx). split.
    + fp_unfold. nia.
    + apply aligned_mat; auto; [lia | apply div32_16 |].
      apply Z.divide_add_r; [apply div_trans_32; [apply div32_16|solve_div] | apply Z.divide_factor_l].
  - (* _mm_load1_ps of one f32 of the PSSM row *)
    destruct Hp as [_ [_ [Hle _]]].
    split; [fp_unfold; nia |].
    apply aligned_mat; auto; [lia | apply div32_4 | apply Z.divide_factor_r].
  - (* _mm_stream_ps *)
    destruct Hd as [_ [_ [Hle Hm]]]. apply Z.mod_divide in Hm; [|lia].
    specialize (Hq x Hx). split.
    + fp_unfold. nia.
    + apply aligned_mat; auto; [lia | apply div32_16 |].
      replace (((x0 - pa p) * pdst p + 16 * x + 4 * x1) * 4)
        with ((x0 - pa p) * (pdst p * 4) + 16 * (4 * x + x1)) by ring.
      apply Z.divide_add_r; [apply div_trans_32; [apply div32_16|solve_div] | apply Z.divide_factor_l].
Qed.

(* =====================================================================
   max / argmax kernels
   ===================================================================== *)

Lemma f32_row_loads_safe rows st loc i :
  layout_ok 4 32 st -> 0 <= i < rows ->
  Forall (Safe (ext_max 4 rows st loc) balign_mat_src) (f32_row_loads st i).
Proof.
  intros [_ [_ [Hle Hm]]] Hi. apply Z.mod_divide in Hm; [|lia].
  apply Forall_forall. intros a Ha. unfold f32_row_loads in Ha. destr_in; subst.
  split.
  - fp_unfold. nia.
  - apply aligned_mat; auto; [lia | apply div32_32 |].
    replace ((i * st + 8 * x) * 4) with (i * (st * 4) + 32 * x) by ring. solve_div.
Qed.

Lemma loc_store_safe es rows st loc off w :
  0 <= off -> 0 <= w -> off + w <= loc ->
  Safe (ext_max es rows st loc) balign_mat_src (wr B_LOC off w 1).
Proof. intros. split; [fp_unfold; lia | apply aligned_1]. Qed.

Lemma fp_argmax_f32_avx2_safe rows st :
  layout_ok 4 32 st -> 0 < rows ->
  Forall (Safe (ext_max 4 rows st 128) balign_mat_src) (fp_argmax_f32_avx2 rows st).
Proof.
  intros Hl Hr. unfold fp_argmax_f32_avx2. rewrite !Forall_app. repeat split.
  - apply f32_row_loads_safe; auto. lia.
  - apply Forall_forall. intros a Ha. destr_in.
    pose proof (f32_row_loads_safe rows st 128 x Hl Hx) as F. rewrite Forall_forall in F. auto.
  - apply Forall_forall. intros a Ha. destr_in; subst. apply loc_store_safe; lia.
Qed.

Lemma fp_max_f32_avx2_safe rows st :
  layout_ok 4 32 st -> 0 < rows ->
  Forall (Safe (ext_max 4 rows st 32) balign_mat_src) (fp_max_f32_avx2 rows st).
Proof.
  intros Hl Hr. unfold fp_max_f32_avx2. rewrite !Forall_app. repeat split.
  - apply f32_row_loads_safe; auto. lia.
  - apply Forall_forall. intros a Ha. destr_in.
    pose proof (f32_row_loads_safe rows st 32 x Hl Hx) as F. rewrite Forall_forall in F. auto.
  - repeat constructor; fp_unfold; try lia. apply aligned_1.
Qed.

Lemma u8_row_load_safe rows st loc i :
  layout_ok 1 32 st -> 0 <= i < rows ->
  Safe (ext_max 1 rows st loc) balign_mat_src (rd B_SRC (i * st) 32 32).
Proof.
  intros Hl Hi. pose proof (layout_row_bytes_ge _ _ _ Hl) as Hge. pose proof (layout_div _ _ _ Hl) as Hdv.
  rewrite Z.mul_1_r in Hge, Hdv. split.
  - fp_unfold. nia.
  - apply aligned_mat; auto; [lia | apply div32_32 | solve_div].
Qed.

Lemma fp_argmax_u8_avx2_safe rows st :
  layout_ok 1 32 st -> 0 < rows ->
  Forall (Safe (ext_max 1 rows st 64) balign_mat_src) (fp_argmax_u8_avx2 rows st).
Proof.
  intros Hl Hr. unfold fp_argmax_u8_avx2. rewrite Forall_app. split.
  - apply Forall_forall. intros a Ha. destr_in; subst. apply u8_row_load_safe; auto.
  - repeat constructor; fp_unfold; try lia; apply aligned_1.
Qed.

Lemma fp_max_u8_avx2_safe rows st :
  layout_ok 1 32 st -> 0 < rows ->
  Forall (Safe (ext_max 1 rows st 32) balign_mat_src) (fp_max_u8_avx2 rows st).
Proof.
  intros Hl Hr. unfold fp_max_u8_avx2. rewrite Forall_app. split.
  - apply Forall_forall. intros a Ha. destr_in; subst. apply u8_row_load_safe; auto.
  - repeat constructor; fp_unfold; try lia; apply aligned_1.
Qed.

Lemma fp_argmax_sse2_safe C rows st :
  layout_ok 4 C st -> 0 < rows ->
  Forall (Safe (ext_max 4 rows st (4 * C)) balign_mat_src) (fp_argmax_sse2 C rows st).
Proof.
  intros [_ [HC [Hle Hm]]] Hr. apply Z.mod_divide in Hm; [|lia].
  assert (Hq : forall q, 0 <= q < C / 16 -> 16 * q + 16 <= C).
  { intros q Hq. pose proof (Z.div_mod C 16 ltac:(lia)). pose proof (Z.mod_pos_bound C 16 ltac:(lia)). lia. }
  apply Forall_forall. intros a Ha. unfold fp_argmax_sse2 in Ha. destr_in; subst.
  - specialize (Hq x Hx). split.
    + fp_unfold. nia.
    + apply aligned_mat; auto; [lia | apply div32_16 |].
      replace ((x0 * st + 16 * x + 4 * x1) * 4) with (x0 * (st * 4) + 16 * (4 * x + x1)) by ring.
      apply Z.divide_add_r; [apply div_trans_32; [apply div32_16|solve_div] | apply Z.divide_factor_l].
  - specialize (Hq x Hx). apply loc_store_safe; lia.
Qed.

(* =====================================================================
   dense.rs and seq.rs (sample)
   ===================================================================== *)

Definition balign_dense (b : nat) : Z := 32.

Lemma fp_from_rows_safe es C st n m ragged :
  layout_ok es C st -> (es | 32) -> 0 <= n ->
  Forall (Safe (ext_dense es st n) balign_dense) (fp_from_rows_accs es C st n m ragged).
Proof.
  intros Hl He Hn. pose proof (layout_div _ _ _ Hl) as Hdv. destruct Hl as [Hes [HC [Hle _]]].
  apply Forall_forall. intros a Ha. unfold fp_from_rows_accs in Ha. cbv zeta in Ha.
  destr_in; subst.
  assert (Hx' : 0 <= x < n).
  { destruct ((0 <=? ragged) && (ragged <? Z.min n m)) eqn:E; bool_to_prop; lia. }
  split.
  - fp_unfold.
    assert (C * es <= st * es) by nia.
    replace (x * st * es) with (x * (st * es)) by ring.
    replace (n * st * es) with (n * (st * es)) by ring.
    assert (0 <= st * es) by nia. nia.
  - apply aligned_div; [lia | exact He |].
    replace (x * st * es) with (x * (st * es)) by ring.
    apply Z.divide_mul_r. eapply Z.divide_trans; eauto.
Qed.

Lemma fp_ravel_safe es st rows :
  0 < es -> (es | 32) -> 0 <= rows -> 0 <= st ->
  Forall (Safe (ext_dense es st rows) balign_dense) (fp_ravel es st rows).
Proof.
  intros He Hd Hr Hs. repeat constructor; fp_unfold; try nia.
  apply aligned_div; [lia | exact Hd | apply Z.divide_0_r].
Qed.

Lemma fp_fill_safe es st rows :
  0 < es -> (es | 32) ->
  Forall (Safe (ext_dense es st rows) balign_dense) (fp_fill es st rows).
Proof.
  intros He Hd. apply Forall_forall. intros a Ha. unfold fp_fill in Ha. destr_in; subst.
  split.
  - fp_unfold. nia.
  - apply aligned_div; [lia | exact Hd | apply Z.divide_factor_r].
Qed.

Lemma fp_sample_safe C st L :
  layout_ok 1 C st -> 0 <= L ->
  Forall (Safe (ext_dense 1 st (sample_rows C L)) balign_dense) (fp_sample C st L).
Proof.
  intros [_ [HC [Hle _]]] HL. apply Forall_forall. intros a Ha. unfold fp_sample in Ha. cbv zeta in Ha.
  set (R := sample_rows C L) in *.
  assert (HR0 : 0 <= R) by (unfold R, sample_rows; apply Z.div_pos; lia).
  assert (Hcell : forall x, 0 <= x < R * C ->
            0 <= (x mod R) * st + x / R /\ (x mod R) * st + x / R + 1 <= R * st).
  { intros x Hx. assert (0 < R) by nia.
    pose proof (Z.mod_pos_bound x R ltac:(lia)).
    assert (0 <= x / R < C).
    { split; [apply Z.div_pos; lia | apply Z.div_lt_upper_bound; nia]. }
    nia. }
  destr_in; subst.
  - split; [fp_unfold; fold R; nia | apply aligned_1].
  - specialize (Hcell x ltac:(lia)). split; [fp_unfold; fold R; lia | apply aligned_1].
Qed.

(* =====================================================================
   the two repaired defects were real (executable witnesses)
   ===================================================================== *)

Lemma bad_access_out_of_bounds ext balign l a :
  first_bad ext balign l = Some a ->
  ((0 <=? aoff a) && (0 <=? awidth a) && (aoff a + awidth a <=? ext (abuf a))) = false ->
  In a l /\ ~ InBounds ext a.
Proof.
  intros H1 H2. apply first_bad_some in H1. destruct H1 as [Hin _]. split; auto.
  apply not_in_bounds; auto.
Qed.

(* ---------- splitting Safe ---------- *)

Lemma safe_in_bounds ext balign l : Forall (Safe ext balign) l -> Forall (InBounds ext) l.
Proof. apply Forall_impl. intros a [H _]; exact H. Qed.

Lemma safe_aligned ext balign l : Forall (Safe ext balign) l -> Forall (Aligned balign) l.
Proof. apply Forall_impl. intros a [_ H]; exact H. Qed.

(* ---------- wrappers: what is entered is safe ---------- *)

Lemma wrap_encode_safe kern L Ld accs :
  (forall L, 0 <= L -> Forall (Safe (ext_encode L L) balign_slices) (kern L)) ->
  0 <= L -> wrap_encode kern L Ld = Ok (Entered accs) ->
  Forall (Safe (ext_encode L Ld) balign_slices) accs.
Proof.
  intros Hk HL. unfold wrap_encode. destruct (L =? Ld) eqn:E; [|discriminate].
  intros [= <-]. bool_to_prop. subst Ld. auto.
Qed.

Lemma wrap_score_permute_safe p accs :
  sp_nonneg p -> layout_ok 1 32 (psst p) -> layout_ok 4 (pK p) (ppst p) -> layout_ok 4 32 (pdst p) ->
  wrap_score_f32_avx2_permute true p = Ok (Entered accs) ->
  Forall (Safe (ext_score 4 p) balign_mat_src) accs.
Proof.
  intros Hn Hs Hp Hd. unfold wrap_score_f32_avx2_permute. destruct (8 <? pK p); [discriminate|].
  intros H. apply score_guard_entered in H. destruct H as [-> [_ [_ [_ [_ Hr]]]]].
  apply score_permute_body_safe; auto.
Qed.

Lemma wrap_score_gather_safe p accs :
  sp_nonneg p -> layout_ok 1 32 (psst p) -> layout_ok 4 (pK p) (ppst p) -> layout_ok 4 32 (pdst p) ->
  wrap_score_f32_avx2_gather true p = Ok (Entered accs) ->
  Forall (Safe (ext_score 4 p) balign_mat_src) accs.
Proof.
  intros Hn Hs Hp Hd H. apply score_guard_entered in H. destruct H as [-> [_ [_ [_ [_ Hr]]]]].
  apply score_gather_body_safe; auto.
Qed.

Lemma wrap_score_u8_safe p accs :
  sp_nonneg p -> layout_ok 1 32 (psst p) -> layout_ok 1 (pK p) (ppst p) -> layout_ok 1 32 (pdst p) ->
  wrap_score_u8_avx2 true p = Ok (Entered accs) ->
  Forall (Safe (ext_score 1 p) balign_mat_src) accs.
Proof.
  intros Hn Hs Hp Hd H. apply score_guard_entered in H. destruct H as [-> [_ [_ [_ [_ Hr]]]]].
  apply score_u8_body_safe; auto.
Qed.

Lemma wrap_score_sse2_safe C p accs :
  sp_nonneg p -> layout_ok 1 C (psst p) -> layout_ok 4 (pK p) (ppst p) -> layout_ok 4 C (pdst p) ->
  wrap_score_sse2 true C p = Ok (Entered accs) ->
  Forall (Safe (ext_score 4 p) balign_mat_src) accs.
Proof.
  intros Hn Hs Hp Hd H. apply score_guard_entered in H. destruct H as [-> [_ [_ [_ [_ Hr]]]]].
  apply score_sse2_body_safe; auto.
Qed.

Lemma wrap_argmax_f32_avx2_safe rows maxidx st accs :
  layout_ok 4 32 st -> 0 <= rows -> wrap_argmax_f32_avx2 rows maxidx st = Ok (Entered accs) ->
  Forall (Safe (ext_max 4 rows st 128) balign_mat_src) accs.
Proof.
  intros Hl Hr. unfold wrap_argmax_f32_avx2. destruct (4294967295 <? maxidx); [discriminate|].
  destruct (rows =? 0) eqn:E; [discriminate|]. intros [= <-]. bool_to_prop.
  apply fp_argmax_f32_avx2_safe; auto. lia.
Qed.

Lemma wrap_max_f32_avx2_safe rows st accs :
  layout_ok 4 32 st -> 0 <= rows -> wrap_max_f32_avx2 rows st = Ok (Entered accs) ->
  Forall (Safe (ext_max 4 rows st 32) balign_mat_src) accs.
Proof.
  intros Hl Hr. unfold wrap_max_f32_avx2.
  destruct (rows =? 0) eqn:E; [discriminate|]. intros [= <-]. bool_to_prop.
  apply fp_max_f32_avx2_safe; auto. lia.
Qed.

Lemma wrap_argmax_u8_avx2_safe rows st accs :
  layout_ok 1 32 st -> 0 <= rows -> wrap_argmax_u8_avx2 rows st = Ok (Entered accs) ->
  Forall (Safe (ext_max 1 rows st 64) balign_mat_src) accs.
Proof.
  intros Hl Hr. unfold wrap_argmax_u8_avx2. destruct (65536 <? rows); [discriminate|].
  destruct (rows =? 0) eqn:E; [discriminate|]. intros [= <-]. bool_to_prop.
  apply fp_argmax_u8_avx2_safe; auto. lia.
Qed.

Lemma wrap_max_u8_avx2_safe rows st accs :
  layout_ok 1 32 st -> 0 <= rows -> wrap_max_u8_avx2 rows st = Ok (Entered accs) ->
  Forall (Safe (ext_max 1 rows st 32) balign_mat_src) accs.
Proof.
  intros Hl Hr. unfold wrap_max_u8_avx2.
  destruct (rows =? 0) eqn:E; [discriminate|]. intros [= <-]. bool_to_prop.
  apply fp_max_u8_avx2_safe; auto. lia.
Qed.

Lemma wrap_argmax_sse2_safe C rows maxidx st accs :
  layout_ok 4 C st -> 0 <= rows -> wrap_argmax_sse2 C rows maxidx st = Ok (Entered accs) ->
  Forall (Safe (ext_max 4 rows st (4 * C)) balign_mat_src) accs.
Proof.
  intros Hl Hr. unfold wrap_argmax_sse2. destruct (4294967295 <? maxidx); [discriminate|].
  destruct (rows =? 0) eqn:E; [discriminate|]. intros [= <-]. bool_to_prop.
  apply fp_argmax_sse2_safe; auto. lia.
Qed.

Lemma fp_from_rows_entered es C st n m ragged accs :
  fp_from_rows es C st n m ragged = Ok (Entered accs) -> accs = fp_from_rows_accs es C st n m ragged.
Proof.
  unfold fp_from_rows, fp_from_rows_accs. cbv zeta.
  destruct ((0 <=? ragged) && (ragged <? Z.min n m)); [discriminate|].
  destruct (n <? m); [discriminate|]. intros [= <-]. reflexivity.
Qed.
