(* C14, reader level: a file  prefix ++ utf8(record_1 ... record_n) ++ suffix  read through
   ANY chunking by the (abstract = concrete, IoAbs.v) JASPAR reader yields exactly the n
   specified records and then End -- generic in the record grammar:
     Hshape : a printed record is '>' followed by text without '>' , all scalar values;
     Hparse : the record parser applied to a printed record followed by [tail] (the next
              record's '>' or the white-space suffix) returns the specified record and [tail]. *)
From Coq Require Import List NArith Bool Arith Lia.
From LMBase Require Import Res ListX.
From LMIo Require Import IoBase IoNom IoJaspar IoPrint IoBaseProofs IoUtf8Proofs IoTokProofs IoAbs.
Import ListNotations.

Lemma read_until_found : forall d s a z, wf_stream s -> concat s = a ++ d :: z -> ~ In d a ->
  fst (read_until d s) = a ++ [d] /\ concat (snd (read_until d s)) = z.
Proof.
  intros d s a z H E Hn. pose proof (read_until_flat_spec d s H) as F.
  unfold read_until_flat in F. rewrite E in F. rewrite (split_delim_found d a z Hn) in F.
  injection F as F1 F2. auto.
Qed.

Lemma read_until_notfound : forall d s, wf_stream s -> ~ In d (concat s) ->
  fst (read_until d s) = concat s /\ snd (read_until d s) = [].
Proof.
  intros d s H Hn. pose proof (read_until_flat_spec d s H) as F.
  pose proof (read_until_wf d s H) as W.
  unfold read_until_flat in F. rewrite (split_delim_notin d _ Hn) in F.
  injection F as F1 F2. split; [auto|]. apply wf_concat_nil; auto.
Qed.

Lemma drop_while_snoc_stop : forall p l c, p c = false -> drop_while p (l ++ [c]) <> [].
Proof.
  intros p l c H. induction l as [|x l IH]; cbn.
  - rewrite H. discriminate.
  - destruct (p x); [exact IH|discriminate].
Qed.

Lemma trim_nonws_head : forall c x, is_white_space c = false -> is_nil (trim (c :: x)) = false.
Proof.
  intros c x H. unfold trim, trim_start. cbn [drop_while]. rewrite H.
  unfold trim_end. cbn [rev].
  pose proof (drop_while_snoc_stop is_white_space (rev x) c H) as D.
  destruct (drop_while is_white_space (rev x ++ [c])) as [|y l] eqn:E; [contradiction|].
  cbn [rev]. destruct (rev l); reflexivity.
Qed.

Lemma wf_suffix_ascii : forall l, wf_suffix l = true -> forallb (fun c => N.ltb c 128) l = true.
Proof.
  intros l H. unfold wf_suffix in H. rewrite forallb_forall in *. intros x Hx. specialize (H x Hx).
  apply N.ltb_lt. unfold in_range in H. apply orb_true_iff in H. destruct H as [H|H].
  - apply andb_true_iff in H. destruct H as [_ H]. apply N.leb_le in H. lia.
  - apply N.eqb_eq in H. subst. reflexivity.
Qed.

Lemma wf_suffix_ws : forall l, wf_suffix l = true -> forallb is_white_space l = true.
Proof.
  intros l H. unfold wf_suffix in H. rewrite forallb_forall in *. intros x Hx. specialize (H x Hx).
  unfold is_white_space. apply orb_true_iff in H. destruct H as [H|H]; rewrite H; cbn; [reflexivity|].
  rewrite orb_true_r. reflexivity.
Qed.

Lemma wf_suffix_no62 : forall l, wf_suffix l = true -> ~ In 62%N l.
Proof.
  intros l H Hi. unfold wf_suffix in H. rewrite forallb_forall in H. specialize (H _ Hi). discriminate.
Qed.

Lemma wf_prefix_no62 : forall l, wf_prefix l = true -> ~ In 62%N l.
Proof.
  intros l H Hi. unfold wf_prefix in H. rewrite forallb_forall in H. specialize (H _ Hi). discriminate.
Qed.

Section RT.
  Variable precord : parser (record N).
  Variable T : Type.
  Variable pr : T -> list N.
  Variable spec : T -> record N.
  Variable good : T -> Prop.

  Definition tail_ok (tail : list N) : Prop := tail = [62%N] \/ wf_suffix tail = true.

  Hypothesis Hshape : forall p, good p ->
    exists body, pr p = 62%N :: body /\ ~ In 62%N body /\ forallb is_scalar (pr p) = true.
  Hypothesis Hparse : forall p tail, good p -> tail_ok tail ->
    exists n, precord (pr p ++ tail) = POk tail n (spec p).

  (* the bytes of a record after its '>' *)
  Definition bbody (p : T) : list N := tl (utf8_encode (pr p)).

  Lemma enc_shape : forall p, good p -> utf8_encode (pr p) = 62%N :: bbody p /\ ~ In 62%N (bbody p).
  Proof.
    intros p G. destruct (Hshape p G) as [body [E [Hn _]]]. unfold bbody. rewrite E.
    rewrite utf8_encode_cons. cbn [tl]. change (utf8_encode1 62) with [62%N]. cbn [app tl]. split; [reflexivity|].
    apply utf8_encode_bytes_ge; [reflexivity|exact Hn].
  Qed.

  Lemma tail_ok_ascii : forall tail, tail_ok tail -> forallb (fun c => N.ltb c 128) tail = true.
  Proof. intros tail [->|H]; [reflexivity|apply wf_suffix_ascii; exact H]. Qed.

  (* one next() with a whole printed record pending *)
  Lemma a_core_record : forall p tail, good p -> tail_ok tail ->
    a_core precord [62%N] (bbody p ++ tail) = (tail, Ok (Some (spec p))).
  Proof.
    intros p tail G Ht. destruct (enc_shape p G) as [Ee Hn].
    destruct (Hshape p G) as [body [Ep [_ Hsc]]].
    destruct (Hparse p tail G Ht) as [n Hp].
    pose proof (tail_ok_ascii tail Ht) as Ha.
    set (r := bbody p ++ tail).
    assert (utf8_decode (62%N :: r) = Some (pr p ++ tail)) as Hd.
    { unfold r. change (62%N :: bbody p ++ tail) with ((62%N :: bbody p) ++ tail). rewrite <- Ee.
      apply utf8_decode_app; [apply utf8_decode_encode; exact Hsc|apply utf8_decode_ascii; exact Ha]. }
    assert (length (62%N :: r) = str_len (pr p) + str_len tail) as Ll.
    { rewrite <- (utf8_decode_len _ _ Hd). apply str_len_app. }
    assert (str_len (pr p) = S (length (bbody p))) as Lp.
    { rewrite <- length_utf8_encode. rewrite Ee. reflexivity. }
    unfold a_core, a_core_g. cbn [is_nil].
    assert ((if length r =? 0 then Ok [62%N] else Ok (firstn (length r + 1) ([62%N] ++ r)))
            = @Ok (list N) (62%N :: r)) as Hs.
    { destruct (length r =? 0) eqn:En.
      - apply Nat.eqb_eq in En. apply length_zero_iff_nil in En. rewrite En. reflexivity.
      - rewrite firstn_all2; [reflexivity|]. cbn [app length]. lia. }
    rewrite Hs. rewrite Hd.
    assert ((length r =? 0) && is_nil (trim (pr p ++ tail)) = false) as Hz.
    { rewrite Ep. cbn [app]. rewrite trim_nonws_head by reflexivity. apply andb_false_r. }
    rewrite Hz. rewrite Hp.
    assert (str_len tail <=? length (62%N :: r) = true) as T1 by (apply Nat.leb_le; lia).
    rewrite T1. f_equal.
    replace (length (62%N :: r) - str_len tail) with (length (62%N :: bbody p)) by (cbn [length] in *; lia).
    unfold r. change ([62%N] ++ bbody p ++ tail) with ((62%N :: bbody p) ++ tail).
    apply skipn_app_exact. reflexivity.
  Qed.

  (* End: only white space is pending and the stream is exhausted *)
  Lemma a_run_end : forall fuel suffix, wf_suffix suffix = true ->
    a_run precord (S fuel) (suffix, []) = [Ok None].
  Proof.
    intros fuel suffix H. cbn [a_run a_next snd fst read_until]. unfold a_core, a_core_g. cbn [length Nat.eqb].
    rewrite (utf8_decode_ascii suffix (wf_suffix_ascii suffix H)).
    rewrite (trim_all_ws suffix (wf_suffix_ws suffix H)). reflexivity.
  Qed.

  Definition enc_all (rs : list T) : list N := concat (map (fun q => utf8_encode (pr q)) rs).

  Lemma a_run_records : forall rs p fuel s suffix,
    good p -> Forall good rs -> wf_suffix suffix = true -> wf_stream s ->
    concat s = bbody p ++ enc_all rs ++ suffix -> length rs + 2 <= fuel ->
    a_run precord fuel ([62%N], s) = map (fun q => Ok (Some (spec q))) (p :: rs) ++ [Ok None].
  Proof.
    induction rs as [|q rs IH]; intros p fuel s suffix G Gs Hsuf Hwf Ec Hf.
    - destruct fuel as [|[|fuel]]; try (cbn in Hf; lia).
      destruct (enc_shape p G) as [Ee Hn].
      cbn [enc_all map concat app] in Ec.
      assert (~ In 62%N (concat s)) as Hn2.
      { rewrite Ec. intros Hi. apply in_app_or in Hi. destruct Hi as [Hi|Hi]; [exact (Hn Hi)|].
        exact (wf_suffix_no62 suffix Hsuf Hi). }
      destruct (read_until_notfound 62 s Hwf Hn2) as [Er Es].
      cbn [a_run]. unfold a_next. cbn [fst snd].
      destruct (read_until 62 s) as [r s']. cbn [fst snd] in Er, Es. subst r s'. rewrite Ec.
      rewrite (a_core_record p suffix G (or_intror Hsuf)). cbv beta iota.
      cbn [map app]. f_equal. exact (a_run_end fuel suffix Hsuf).
    - destruct fuel as [|fuel]; [cbn in Hf; lia|].
      inversion Gs as [|x l Gq Grs]; subst.
      destruct (enc_shape p G) as [Ee Hn]. destruct (enc_shape q Gq) as [Eq Hnq].
      assert (concat s = bbody p ++ 62%N :: (bbody q ++ enc_all rs ++ suffix)) as Ec2.
      { rewrite Ec. unfold enc_all. cbn [map concat]. rewrite Eq. rewrite <- !app_assoc. reflexivity. }
      destruct (read_until_found 62 s _ _ Hwf Ec2 Hn) as [Er Es].
      pose proof (read_until_wf 62 s Hwf) as W.
      cbn [a_run]. unfold a_next. cbn [fst snd].
      destruct (read_until 62 s) as [r s']. cbn [fst snd] in Er, Es, W. subst r.
      rewrite (a_core_record p [62%N] G (or_introl eq_refl)). cbv beta iota.
      cbn [map app]. f_equal.
      apply (IH q fuel s' suffix Gq Grs Hsuf W Es). cbn [length] in Hf. lia.
  Qed.

  Lemma enc_all_length : forall rs, Forall good rs -> length rs <= length (enc_all rs).
  Proof.
    induction rs as [|q rs IH]; intros G; [cbn; lia|]. inversion G; subst.
    unfold enc_all in *. cbn [map concat]. rewrite app_length.
    destruct (enc_shape q H1) as [E _]. rewrite E. cbn [length]. specialize (IH H2). lia.
  Qed.

  Theorem a_read_roundtrip : forall prefix rs suffix s,
    rs <> [] -> Forall good rs -> wf_prefix prefix = true -> wf_suffix suffix = true ->
    wf_stream s -> concat s = prefix ++ enc_all rs ++ suffix ->
    a_read precord s = map (fun q => Ok (Some (spec q))) rs ++ [Ok None].
  Proof.
    intros prefix rs suffix s Hne G Hpre Hsuf Hwf Ec.
    destruct rs as [|p rs]; [contradiction|]. inversion G as [|x l Gp Grs]; subst.
    destruct (enc_shape p Gp) as [Ee Hn].
    assert (concat s = prefix ++ 62%N :: (bbody p ++ enc_all rs ++ suffix)) as Ec2.
    { rewrite Ec. unfold enc_all. cbn [map concat]. rewrite Ee. rewrite <- !app_assoc. reflexivity. }
    destruct (read_until_found 62 s _ _ Hwf Ec2 (wf_prefix_no62 prefix Hpre)) as [Er Es].
    pose proof (read_until_wf 62 s Hwf) as W.
    unfold a_read, stream_bytes.
    destruct (read_until 62 s) as [r s0]. cbn [fst snd] in Er, Es, W. subst r.
    assert (skipn (length (prefix ++ [62%N]) - 1) (prefix ++ [62%N]) = [62%N]) as Hk.
    { apply skipn_app_exact. rewrite app_length. cbn. lia. }
    rewrite Hk.
    apply (a_run_records rs p _ s0 suffix Gp Grs Hsuf W Es).
    pose proof (enc_all_length rs Grs) as L. rewrite Ec2. rewrite !app_length. cbn [length].
    rewrite !app_length. lia.
  Qed.
End RT.
