(* C15 for the JASPAR / JASPAR 2016 readers: Reader::new and every next() return a record, an
   error or End -- never a panic site, never OutOfFuel -- for every byte stream and every
   chunking; a consumer that stops at the first error or End terminates (measure: unread bytes). *)
From Coq Require Import List NArith Bool Arith Lia.
From LMBase Require Import Res.
From LMIo Require Import IoBase IoNom IoJaspar IoPrint IoBaseProofs IoNomProofs IoParseProofs IoCheckProofs.
Import ListNotations.

Lemma read_until_more : forall d s, wf_stream s -> snd (read_until d s) <> [] ->
  exists p0, fst (read_until d s) = p0 ++ [d].
Proof.
  intros d s H Hne. pose proof (read_until_flat_spec d s H) as F.
  pose proof (read_until_wf d s H) as W.
  unfold read_until_flat in F. destruct (split_delim d (concat s)) as [[p q]|] eqn:E.
  - injection F as F1 F2. apply split_delim_some in E. destruct E as [_ [p0 [E _]]].
    exists p0. rewrite <- F1. exact E.
  - injection F as F1 F2. exfalso. apply Hne. apply wf_concat_nil; [exact W|]. symmetry. exact F2.
Qed.

Lemma str_len_zero : forall l, str_len l = 0 -> l = [].
Proof.
  intros [|c l] H; [reflexivity|]. cbn in H. pose proof (utf8_len_pos c). lia.
Qed.

Lemma str_len_ends_lf : forall pre, ends_lf pre -> 1 <= str_len pre.
Proof. intros pre [p0 ->]. rewrite str_len_app. cbn. lia. Qed.

Definition ok_outcome {C} (o : outcome C) : Prop :=
  match o with Panic _ | OutOfFuel => False | _ => True end.

Section JReader.
  Variable precord : parser (record N).
  Hypothesis Hp : pspec lf_spec precord.
  Hypothesis decode_last : forall Y b text, (b < 128)%N ->
    utf8_decode (Y ++ [b]) = Some text -> exists t', text = t' ++ [b].

  Definition jinv (st : jstate) : Prop :=
    wf_stream (jstream st) /\ jstart st <= length (jbuf st) /\
    (jstart st = length (jbuf st) -> jstream st = []).

  (* the unread bytes: pending part of the buffer plus what the stream still holds *)
  Definition jmu (st : jstate) : nat :=
    length (jbuf st) - jstart st + length (concat (jstream st)).

  Lemma j_next_g_total : forall guard cap st, jinv st ->
    jinv (fst (j_next_g precord false guard cap st)) /\
    ok_outcome (snd (j_next_g precord false guard cap st)) /\
    jmu (fst (j_next_g precord false guard cap st)) <= jmu st /\
    (forall r, snd (j_next_g precord false guard cap st) = Ok (Some r) ->
               jmu (fst (j_next_g precord false guard cap st)) < jmu st).
  Proof.
    intros guard cap [buf0 start stream] [Hwf [Hle Heq]]. cbn [jstream jstart jbuf] in *.
    unfold j_next_g. cbn [jstream jstart jbuf].
    pose proof (read_until_bytes 62 stream Hwf) as F1.
    pose proof (read_until_wf 62 stream Hwf) as F2.
    pose proof (read_until_nil_eof 62 stream Hwf) as F3.
    pose proof (read_until_more 62 stream Hwf) as F4.
    assert (stream = [] -> fst (read_until 62 stream) = []) as F5 by (intros ->; reflexivity).
    destruct (read_until 62 stream) as [r s']. cbn [fst snd] in *.
    set (buf := buf0 ++ r).
    assert (length buf = length buf0 + length r) as Lbuf by apply app_length.
    assert (length (concat stream) = length r + length (concat s')) as Lc.
    { rewrite <- F1, app_length. reflexivity. }
    set (st1 := {| jbuf := buf; jstart := start; jstream := s' |}).
    assert (jinv st1 /\ jmu st1 = length buf0 - start + length (concat stream)) as [I1 M1].
    { unfold jinv, jmu, st1. cbn [jstream jstart jbuf]. repeat split; try lia; try assumption.
      intros E. assert (length r = 0) as Z by lia. apply length_zero_iff_nil in Z.
      exact (proj2 (F3 Z)). }
    unfold jmu at 2 4. cbn [jstream jstart jbuf].
    (* the slice *)
    assert (exists bytes,
      (if length r =? 0
       then if start <=? length buf then Ok (skipn start buf) else Panic 31
       else if start + length r <? length buf then Ok (firstn (length r + 1) (skipn start buf))
            else if guard then (if start <=? length buf then Ok (skipn start buf) else Panic 31) else Panic 32)
      = Ok bytes /\ length bytes <= length buf - start /\
      (s' <> [] -> length bytes = length buf - start -> exists Y, bytes = Y ++ [62%N])) as [bytes [ES [Lb P3]]].
    { destruct (length r =? 0) eqn:En.
      - apply Nat.eqb_eq in En. assert (start <=? length buf = true) as T by (apply Nat.leb_le; lia).
        rewrite T. eexists. split; [reflexivity|]. rewrite skipn_length. split; [lia|].
        intros Hs. exfalso. apply Hs. apply length_zero_iff_nil in En. exact (proj2 (F3 En)).
      - apply Nat.eqb_neq in En.
        assert (start < length buf0) as Lt.
        { destruct (Nat.eq_dec start (length buf0)) as [E|E]; [|lia].
          exfalso. apply En. rewrite (F5 (Heq E)). reflexivity. }
        assert (start + length r <? length buf = true) as T by (apply Nat.ltb_lt; lia).
        rewrite T. eexists. split; [reflexivity|]. rewrite firstn_length, skipn_length. split; [lia|].
        intros Hs Hl. destruct (F4 Hs) as [p0 Ep0].
        rewrite firstn_all2 by (rewrite skipn_length; lia).
        unfold buf. rewrite Ep0. rewrite app_assoc. rewrite skipn_app.
        assert (start - length (buf0 ++ p0) = 0) as Z by (rewrite app_length; lia).
        rewrite Z. cbn [skipn]. eexists. reflexivity. }
    rewrite ES.
    destruct (utf8_decode bytes) as [text|] eqn:ED.
    2: { cbn [fst snd]. repeat split; try exact I; try apply I1; try (fold (jmu st1); lia).
         intros r0 C. discriminate. }
    destruct ((length r =? 0) && is_nil (trim text)).
    { cbn [fst snd]. repeat split; try exact I; try apply I1; try (fold (jmu st1); lia).
      intros r0 C. discriminate. }
    pose proof (Hp text) as HP.
    destruct (precord text) as [rest n' rec| | | |]; try contradiction.
    2,3: cbn [fst snd]; repeat split; try exact I; try apply I1; try (fold (jmu st1); lia);
         intros r0 C; discriminate.
    destruct HP as [pre [Et [_ e]]]. unfold lf_spec in e.
    pose proof (utf8_decode_len bytes text ED) as L1.
    assert (str_len text = str_len pre + str_len rest) as L2 by (rewrite Et; apply str_len_app).
    pose proof (str_len_ends_lf pre e) as L3.
    assert (str_len rest <=? length bytes = true) as T1 by (apply Nat.leb_le; lia).
    rewrite T1.
    set (c := length bytes - str_len rest).
    assert (1 <= c /\ c <= length bytes) as [Lc1 Lc2] by (unfold c; lia).
    assert (start + c = length buf -> s' = []) as K.
    { intros E. destruct s' as [|x s'']; [reflexivity|exfalso].
      assert (length bytes = length buf - start) as E2 by lia.
      destruct (P3 ltac:(discriminate) E2) as [Y EY].
      assert (str_len rest = 0) as Z by (unfold c in *; lia).
      apply str_len_zero in Z. subst rest. rewrite app_nil_r in Et. subst text.
      destruct e as [p0 Ep]. rewrite EY in ED.
      destruct (decode_last Y 62%N pre ltac:(reflexivity) ED) as [t' Et'].
      rewrite Ep in Et'. apply app_inj_tail in Et'. destruct Et' as [_ C]. discriminate. }
    destruct (cap / 2 <? start + c).
    - assert (start + c <=? length buf = true) as T2 by (apply Nat.leb_le; lia).
      rewrite T2. cbn [fst snd]. unfold jinv, jmu. cbn [jstream jstart jbuf].
      rewrite skipn_length.
      repeat split; try exact I; try exact F2; try lia;
        try (intros E; apply K; lia); try (intros r0 _; lia).
    - cbn [fst snd]. unfold jinv, jmu. cbn [jstream jstart jbuf].
      repeat split; try exact I; try exact F2; try lia;
        try exact K; try (intros r0 _; lia).
  Qed.

  Lemma j_next_total : forall cap st, jinv st ->
    jinv (fst (j_next precord false cap st)) /\
    ok_outcome (snd (j_next precord false cap st)) /\
    jmu (fst (j_next precord false cap st)) <= jmu st /\
    (forall r, snd (j_next precord false cap st) = Ok (Some r) ->
               jmu (fst (j_next precord false cap st)) < jmu st).
  Proof. exact (j_next_g_total GenIoAbc.gen_jaspar_slice_guard). Qed.

  (* Reader::new establishes the invariant *)
  Lemma j_new_total : forall s, wf_stream s ->
    exists st, j_new s = Ok st /\ jinv st /\ jmu st <= length (concat s).
  Proof.
    intros s H. unfold j_new.
    pose proof (read_until_bytes 62 s H) as F1.
    pose proof (read_until_wf 62 s H) as F2.
    pose proof (read_until_nil_eof 62 s H) as F3.
    destruct (read_until 62 s) as [r s']. cbn [fst snd] in *.
    eexists. split; [reflexivity|]. unfold jinv, jmu. cbn [jstream jstart jbuf].
    assert (length (concat s) = length r + length (concat s')) as Lc.
    { rewrite <- F1, app_length. reflexivity. }
    repeat split; try assumption; try lia.
    intros E. assert (length r = 0) as Z by lia. apply length_zero_iff_nil in Z. exact (proj2 (F3 Z)).
  Qed.

  (* a consumer that stops at End or at the first error: fuel > measure is enough *)
  Lemma j_run_total : forall fuel caps k st, jinv st -> jmu st < fuel ->
    Holds_c15 (j_run precord false fuel true caps k st).
  Proof.
    induction fuel as [|fuel IH]; intros caps k st Hi Hm; [lia|].
    cbn [j_run]. pose proof (j_next_total (caps k) st Hi) as [I2 [O2 [M2 M3]]].
    destruct (j_next precord false (caps k) st) as [st' o]. cbn [fst snd] in *.
    destruct o as [[r|]|e|s|]; try contradiction.
    - specialize (M3 r eq_refl).
      destruct (IH caps (S k) st' I2 ltac:(lia)) as [rs [o' [E Ho]]].
      exists (r :: rs), o'. split; [cbn; rewrite E; reflexivity|exact Ho].
    - exists [], (Ok None). split; [reflexivity|left; reflexivity].
    - exists [], (Err e). split; [reflexivity|right; eauto].
  Qed.

  (* a caller that goes on polling after errors: still no panic, whatever the number of calls *)
  Lemma j_run_no_panic : forall fuel stop caps k st, jinv st ->
    Forall ok_outcome (firstn fuel (j_run precord false (S fuel) stop caps k st)).
  Proof.
    induction fuel as [|fuel IH]; intros stop caps k st Hi; [constructor|].
    cbn [j_run]. pose proof (j_next_total (caps k) st Hi) as [I2 [O2 _]].
    destruct (j_next precord false (caps k) st) as [st' o]. cbn [fst snd] in *.
    destruct o as [[r|]|e|s|]; try contradiction.
    - cbn [firstn]. constructor; [exact I|]. apply IH. exact I2.
    - cbn [firstn]. constructor; [exact I|]. destruct fuel; constructor.
    - destruct stop.
      + cbn [firstn]. constructor; [exact I|]. destruct fuel; constructor.
      + cbn [firstn]. constructor; [exact I|]. apply IH. exact I2.
  Qed.

  Theorem j_read_total : forall caps s, wf_stream s -> Holds_c15 (j_read precord caps s).
  Proof.
    intros caps s H. unfold j_read. destruct (j_new_total s H) as [st [E [Hi Hm]]]. rewrite E.
    apply j_run_total; [exact Hi|]. unfold stream_bytes. lia.
  Qed.

  Theorem j_calls_no_panic : forall calls caps s, wf_stream s ->
    Forall ok_outcome (IoUniprobe.j_calls precord calls caps s).
  Proof.
    intros calls caps s H. unfold IoUniprobe.j_calls. destruct (j_new_total s H) as [st [E [Hi Hm]]]. rewrite E.
    apply j_run_no_panic. exact Hi.
  Qed.
End JReader.
