(* Soundness of the executable checkers of IoPrint.v (used by the OCaml driver to decide
   PROPFAIL on the implementation's observations). *)
From Coq Require Import List NArith Bool Arith Lia.
From LMBase Require Import Res.
From LMIo Require Import IoBase IoNom IoJaspar IoPrint.
Import ListNotations.

Lemma combine_forallb_eq : forall {A} (eqb : A -> A -> bool),
  (forall a b, eqb a b = true -> a = b) ->
  forall l1 l2, length l1 = length l2 ->
  forallb (fun p => eqb (fst p) (snd p)) (combine l1 l2) = true -> l1 = l2.
Proof.
  intros A eqb Hs. induction l1 as [|a l1 IH]; intros [|b l2] Hl H; cbn in *; try discriminate; [reflexivity|].
  apply andb_true_iff in H. destruct H as [H1 H2].
  f_equal; [apply Hs; exact H1|apply IH; [lia|exact H2]].
Qed.

Lemma list_eqb_sound : forall a b, list_eqb a b = true -> a = b.
Proof.
  intros a b H. unfold list_eqb in H. apply andb_true_iff in H. destruct H as [H1 H2].
  apply Nat.eqb_eq in H1. apply (combine_forallb_eq N.eqb); [intros x y; apply N.eqb_eq|exact H1|exact H2].
Qed.

Lemma list_eqb_refl : forall a, list_eqb a a = true.
Proof.
  intros a. unfold list_eqb. rewrite Nat.eqb_refl. cbn.
  induction a as [|x a IH]; cbn; [reflexivity|]. rewrite N.eqb_refl. exact IH.
Qed.

Section Sound.
  Context {C : Type}.
  Variable ceqb : C -> C -> bool.
  Hypothesis ceqb_sound : forall a b, ceqb a b = true -> a = b.

  Lemma row_eqb_sound : forall a b, row_eqb ceqb a b = true -> a = b.
  Proof.
    intros a b H. unfold row_eqb in H. apply andb_true_iff in H. destruct H as [H1 H2].
    apply Nat.eqb_eq in H1. exact (combine_forallb_eq ceqb ceqb_sound a b H1 H2).
  Qed.

  Lemma matrix_eqb_sound : forall a b, matrix_eqb ceqb a b = true -> a = b.
  Proof.
    intros a b H. unfold matrix_eqb in H. apply andb_true_iff in H. destruct H as [H1 H2].
    apply Nat.eqb_eq in H1. exact (combine_forallb_eq (row_eqb ceqb) row_eqb_sound a b H1 H2).
  Qed.

  Lemma record_eqb_sound : forall a b, record_eqb ceqb a b = true -> a = b.
  Proof.
    intros [i1 d1 m1] [i2 d2 m2] H. unfold record_eqb in H. cbn [rid rdesc rmatrix] in H.
    apply andb_true_iff in H. destruct H as [H H3]. apply andb_true_iff in H. destruct H as [H1 H2].
    apply list_eqb_sound in H1. apply matrix_eqb_sound in H3. subst.
    destruct d1 as [x|], d2 as [y|]; try discriminate; [|reflexivity].
    apply list_eqb_sound in H2. subst. reflexivity.
  Qed.

  Lemma outcome_eqb_sound : forall (a b : outcome C),
    outcome_eqb ceqb a b = true ->
    match b with Ok _ | Err _ => a = b | _ => True end.
  Proof.
    intros a b H. destruct a as [[x|]|e|s|], b as [[y|]|e'|s'|]; cbn in H; try discriminate; try exact I.
    - apply record_eqb_sound in H. subst. reflexivity.
    - reflexivity.
    - apply Nat.eqb_eq in H. subst. reflexivity.
  Qed.

  Lemma outcomes_eqb_sound_ok : forall ex,
    Forall (fun b : outcome C => match b with Ok _ | Err _ => True | _ => False end) ex ->
    forall obs, length obs = length ex ->
    forallb (fun p => outcome_eqb ceqb (fst p) (snd p)) (combine obs ex) = true -> obs = ex.
  Proof.
    induction ex as [|b ex IH]; intros F [|a obs] Hl H; cbn in *; try discriminate; [reflexivity|].
    apply andb_true_iff in H. destruct H as [Ha Hr]. inversion F; subst.
    pose proof (outcome_eqb_sound a b Ha) as S.
    f_equal; [destruct b; try contradiction; exact S|apply IH; [assumption|lia|exact Hr]].
  Qed.

  (* C14: what the checker accepts is exactly the expected records, in order, then End *)
  Theorem check_c14_sound_lemma : forall expected obs,
    check_c14 ceqb expected obs = true ->
    obs = map (fun r => Ok (Some r)) expected ++ [Ok None].
  Proof.
    intros expected obs H. unfold check_c14, outcomes_eqb in H.
    apply andb_true_iff in H. destruct H as [H1 H2]. apply Nat.eqb_eq in H1.
    apply outcomes_eqb_sound_ok; try assumption.
    apply Forall_app. split; [apply Forall_forall; intros x Hx; apply in_map_iff in Hx;
      destruct Hx as [r [<- _]]; exact I|constructor; [exact I|constructor]].
  Qed.
End Sound.

(* C15: records, then exactly one End or error; no Panic, no OutOfFuel anywhere *)
Definition Holds_c15 {C} (l : list (outcome C)) : Prop :=
  exists rs o, l = map (fun r => Ok (Some r)) rs ++ [o] /\ (o = Ok None \/ exists e, o = Err e).

Theorem check_c15_sound_lemma : forall {C} (l : list (outcome C)), check_c15 l = true -> Holds_c15 l.
Proof.
  intros C. induction l as [|o l IH]; intros H; [discriminate|].
  destruct l as [|o2 l].
  - cbn in H. exists [], o. split; [reflexivity|].
    destruct o as [[r|]|e|s|]; try discriminate; [left; reflexivity|right; eauto].
  - change (is_rec o && check_c15 (o2 :: l) = true) in H.
    apply andb_true_iff in H. destruct H as [H1 H2].
    destruct (IH H2) as [rs [o' [E Ho]]].
    destruct o as [[r|]|e|s|]; try discriminate.
    exists (r :: rs), o'. split; [cbn; rewrite E; reflexivity|exact Ho].
Qed.

Theorem check_c15_complete_lemma : forall {C} (l : list (outcome C)), Holds_c15 l -> check_c15 l = true.
Proof.
  intros C l [rs [o [-> Ho]]]. induction rs as [|r rs IH].
  - cbn. destruct Ho as [->|[e ->]]; reflexivity.
  - cbn [map app]. destruct (map (fun r0 => Ok (Some r0)) rs ++ [o]) eqn:E.
    + destruct rs; discriminate.
    + change (is_rec (Ok (Some r)) && check_c15 (r0 :: l) = true). cbn [is_rec andb]. exact IH.
Qed.

Lemma Holds_c15_no_panic : forall {C} (l : list (outcome C)), Holds_c15 l ->
  Forall (fun o => match o with Panic _ | OutOfFuel => False | _ => True end) l.
Proof.
  intros C l [rs [o [-> Ho]]]. apply Forall_app. split.
  - apply Forall_forall. intros x Hx. apply in_map_iff in Hx. destruct Hx as [r [<- _]]. exact I.
  - constructor; [|constructor]. destruct Ho as [->|[e ->]]; exact I.
Qed.
