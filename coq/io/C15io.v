(* C15 (JASPAR, JASPAR 2016, UniPROBE readers): property theorems only.
   Streams are lists of chunks (what successive fill_buf() calls deliver); [wf_stream]
   only says that no chunk is empty ([mk_stream] drops empty chunks from any chunk list),
   so every theorem quantifies over all byte strings AND all chunkings of them.
   [caps] is the arbitrary Vec::capacity() oracle of the JASPAR readers' compaction test. *)
From Coq Require Import List NArith ZArith Bool Arith.
From LMBase Require Import Res IEEE.
From LMIo Require Import IoBase IoNom IoJaspar IoUniprobe IoPrint IoBaseProofs IoCheckProofs
  IoNomProofs IoParseProofs IoUtf8Proofs IoMatrixProofs IoTotal IoTotalU.
Import ListNotations.

(* the extracted checker used for PROPFAIL is sound and complete for Holds_c15:
   records, then exactly one End or error -- no Panic, no OutOfFuel (hang) *)
Theorem check_c15_sound : forall {C} (l : list (outcome C)), check_c15 l = true -> Holds_c15 l.
Proof. exact @check_c15_sound_lemma. Qed.

Theorem check_c15_complete : forall {C} (l : list (outcome C)), Holds_c15 l -> check_c15 l = true.
Proof. exact @check_c15_complete_lemma. Qed.

(* ---------- reader_total: Reader::new + next() until End / first error ---------- *)
(* the outcome list of a consumer that stops at the first error or at End is
   records ... then one End or error: in particular it is finite with the model's fuel
   (termination: every record consumes at least one unread byte) and contains no panic *)

Theorem reader_total_jaspar : forall caps s, wf_stream s -> Holds_c15 (jaspar_read caps s).
Proof. intros caps s. exact (j_read_total (j_record false) pspec_j_record utf8_decode_last_ascii caps s). Qed.

Theorem reader_total_jaspar16 : forall A caps s,
  (forall c k, aindex A c = Some k -> k < aK A) ->
  wf_stream s -> Holds_c15 (jaspar16_read A caps s).
Proof.
  intros A caps s HA. exact (j_read_total (j16_record A) (pspec_j16_record A HA) utf8_decode_last_ascii caps s).
Qed.

Theorem reader_total_uniprobe : forall A parse_f32 s,
  (forall c k, aindex A c = Some k -> k < aK A) ->
  wf_stream s -> Holds_c15 (uniprobe_read A parse_f32 s).
Proof. intros A parse_f32 s HA. exact (uniprobe_read_total A HA parse_f32 s). Qed.

(* both alphabets of the library satisfy the side condition *)
Theorem alphabets_ok : forall A, A = Dna \/ A = Protein -> forall c k, aindex A c = Some k -> k < aK A.
Proof.
  intros A [->| ->] c k H; [exact (proj1 (wf_alphabet_dna c k H))|exact (proj1 (wf_alphabet_protein c k H))].
Qed.

(* the same for every chunk list, empty chunks included *)
Corollary reader_total_all_chunkings : forall caps parse_f32 (chunks : list (list N)),
  Holds_c15 (jaspar_read caps (mk_stream chunks)) /\
  Holds_c15 (jaspar16_read Dna caps (mk_stream chunks)) /\
  Holds_c15 (jaspar16_read Protein caps (mk_stream chunks)) /\
  Holds_c15 (uniprobe_read Dna parse_f32 (mk_stream chunks)) /\
  Holds_c15 (uniprobe_read Protein parse_f32 (mk_stream chunks)).
Proof.
  intros caps parse_f32 chunks. pose proof (mk_stream_wf chunks) as W.
  repeat split.
  - apply reader_total_jaspar; exact W.
  - apply reader_total_jaspar16; [apply alphabets_ok; auto|exact W].
  - apply reader_total_jaspar16; [apply alphabets_ok; auto|exact W].
  - apply reader_total_uniprobe; [apply alphabets_ok; auto|exact W].
  - apply reader_total_uniprobe; [apply alphabets_ok; auto|exact W].
Qed.

(* ---------- a caller that keeps polling after errors: no call ever panics ---------- *)

Theorem next_never_panics_jaspar : forall calls caps s, wf_stream s ->
  Forall ok_outcome (j_calls (j_record false) calls caps s).
Proof. intros calls caps s. exact (j_calls_no_panic (j_record false) pspec_j_record utf8_decode_last_ascii calls caps s). Qed.

Theorem next_never_panics_jaspar16 : forall A calls caps s,
  (forall c k, aindex A c = Some k -> k < aK A) -> wf_stream s ->
  Forall ok_outcome (j_calls (j16_record A) calls caps s).
Proof.
  intros A calls caps s HA.
  exact (j_calls_no_panic (j16_record A) (pspec_j16_record A HA) utf8_decode_last_ascii calls caps s).
Qed.

Theorem next_never_panics_uniprobe : forall A parse_f32 calls s,
  (forall c k, aindex A c = Some k -> k < aK A) -> wf_stream s ->
  Forall ok_outcome (uniprobe_calls A parse_f32 false calls s).
Proof. intros A parse_f32 calls s HA. exact (uniprobe_calls_no_panic A HA parse_f32 calls s). Qed.

(* the step lemma behind them: the reader invariant is kept by every next(), the number of
   unread bytes never grows and strictly decreases with every record returned *)
Theorem next_step_jaspar : forall cap st, jinv st ->
  jinv (fst (j_next (j_record false) false cap st)) /\
  ok_outcome (snd (j_next (j_record false) false cap st)) /\
  jmu (fst (j_next (j_record false) false cap st)) <= jmu st /\
  (forall r, snd (j_next (j_record false) false cap st) = Ok (Some r) ->
             jmu (fst (j_next (j_record false) false cap st)) < jmu st).
Proof. exact (j_next_total (j_record false) pspec_j_record utf8_decode_last_ascii). Qed.

Check reader_total_jaspar : forall caps s, wf_stream s -> Holds_c15 (jaspar_read caps s).
Check reader_total_uniprobe : forall A parse_f32 s,
  (forall c k, aindex A c = Some k -> k < aK A) -> wf_stream s -> Holds_c15 (uniprobe_read A parse_f32 s).

(* ---------- the unrepaired readers violate the property (F15-F17 witnesses) ---------- *)

(* F15: Reader::new on the empty input (usize underflow `0 - 1`) *)
Lemma F15_refuted : j_read_buggy (j_record false) true 3 (fun _ => 0) [] = [Panic 30].
Proof. vm_compute. reflexivity. Qed.

(* F16: JASPAR ragged rows reached unimplemented!() :  ">x\n1 2\n1\n1 2\n1 2\n" *)
Lemma F16_refuted :
  j_read (j_record true) (fun _ => 0)
    [[62;120;10; 49;32;50;10; 49;10; 49;32;50;10; 49;32;50;10]%N] = [Panic 11].
Proof. vm_compute. reflexivity. Qed.

(* F17: UniPROBE header without matrix columns indexed input[0] :  "ID\n" *)
Lemma F17_refuted :
  uniprobe_calls Dna (fun _ => None) true 1 [[73;68;10]%N] = [Panic 40].
Proof. vm_compute. reflexivity. Qed.

(* non-vacuity: the repaired readers on the same inputs, and on a real record *)
Example F15_repaired : jaspar_read (fun _ => 0) [] = [Ok None].
Proof. vm_compute. reflexivity. Qed.

Example F16_repaired :
  jaspar_read (fun _ => 0) [[62;120;10; 49;32;50;10; 49;10; 49;32;50;10; 49;32;50;10]%N] = [Err ENom].
Proof. vm_compute. reflexivity. Qed.

Example F17_repaired : uniprobe_read Dna (fun _ => None) [[73;68;10]%N] = [Err EInvalid].
Proof. vm_compute. reflexivity. Qed.

Example jaspar_record_read :
  jaspar_read (fun _ => 0) [[62;120;10]; [49;32;50;10; 51;32]; [52;10; 53;32;54;10; 55;32;56;10]]%N
  = [Ok (Some {| rid := [120%N]; rdesc := None;
                 rmatrix := [[1;3;7;5;0]; [2;4;8;6;0]]%N |}); Ok None].
Proof. vm_compute. reflexivity. Qed.
