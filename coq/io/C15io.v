(* C15 (JASPAR, JASPAR 2016, UniPROBE readers): property theorems only.
   Streams are lists of chunks (what successive fill_buf() calls deliver); [wf_stream]
   only says that no chunk is empty ([mk_stream] drops empty chunks from any chunk list),
   so every theorem quantifies over all byte strings AND all chunkings of them.
   [caps] is the arbitrary Vec::capacity() oracle of the JASPAR readers' compaction test. *)
From Coq Require Import List NArith ZArith Bool Arith.
From LMBase Require Import Res IEEE.
From LMIo Require Import IoBase IoNom IoJaspar IoUniprobe IoPrint IoBaseProofs IoCheckProofs
  IoNomProofs IoParseProofs IoUtf8Proofs IoMatrixProofs IoTotal IoTotalU.
Import ListNotations.

(* the extracted checker used for PROPFAIL is sound and complete for Holds_c15:
   records, then exactly one End or error -- no Panic, no OutOfFuel (hang) *)
Theorem check_c15_sound : forall {C} (l : list (outcome C)), check_c15 l = true -> Holds_c15 l.
Proof. exact @check_c15_sound_lemma. Qed.

Theorem check_c15_complete : forall {C} (l : list (outcome C)), Holds_c15 l -> check_c15 l = true.
Proof. exact @check_c15_complete_lemma. Qed.

(* ---------- reader_total: Reader::new + next() until End / first error ---------- *)
(* the outcome list of a consumer that stops at the first error or at End is
   records ... then one End or error: in particular it is finite with the model's fuel
   (termination: every record consumes at least one unread byte) and contains no panic *)

Theorem reader_total_jaspar : forall caps s, wf_stream s -> Holds_c15 (jaspar_read caps s).
Proof. intros caps s. exact (j_read_total (j_record false) pspec_j_record utf8_decode_last_ascii caps s). Qed.

Theorem reader_total_jaspar16 : forall A caps s,
  (forall c k, aindex A c = Some k -> k < aK A) ->
  wf_stream s -> Holds_c15 (jaspar16_read A caps s).
Proof.
  intros A caps s HA. exact (j_read_total (j16_record A) (pspec_j16_record A HA) utf8_decode_last_ascii caps s).
Qed.

Theorem reader_total_uniprobe : forall A parse_f32 s,
  (forall c k, aindex A c = Some k -> k < aK A) ->
  wf_stream s -> Holds_c15 (uniprobe_read A parse_f32 s).
Proof. intros A parse_f32 s HA. exact (uniprobe_read_total A HA parse_f32 s). Qed.

(* both alphabets of the library satisfy the side condition *)
Theorem alphabets_ok : forall A, A = Dna \/ A = Protein -> forall c k, aindex A c = Some k -> k < aK A.
Proof.
  intros A [->| ->] c k H; [exact (proj1 (wf_alphabet_dna c k H))|exact (proj1 (wf_alphabet_protein c k H))].
Qed.

(* the same for every chunk list, empty chunks included *)
Corollary reader_total_all_chunkings : forall caps parse_f32 (chunks : list (list N)),
  Holds_c15 (jaspar_read caps (mk_stream chunks)) /\
  Holds_c15 (jaspar16_read Dna caps (mk_stream chunks)) /\
  Holds_c15 (jaspar16_read Protein caps (mk_stream chunks)) /\
  Holds_c15 (uniprobe_read Dna parse_f32 (mk_stream chunks)) /\
  Holds_c15 (uniprobe_read Protein parse_f32 (mk_stream chunks)).
Proof.
  intros caps parse_f32 chunks. pose proof (mk_stream_wf chunks) as W.
  repeat split.
  - apply reader_total_jaspar; exact W.
  - apply reader_total_jaspar16; [apply alphabets_ok; auto|exact W].
  - apply reader_total_jaspar16; [apply alphabets_ok; auto|exact W].
  - apply reader_total_uniprobe; [apply alphabets_ok; auto|exact W].
  - apply reader_total_uniprobe; [apply alphabets_ok; auto|exact W].
Qed.

(* ---------- a caller that keeps polling after errors: no call ever panics ---------- *)

Theorem next_never_panics_jaspar : forall calls caps s, wf_stream s ->
  Forall ok_outcome (j_calls (j_record false) calls caps s).
Proof. intros calls caps s. exact (j_calls_no_panic (j_record false) pspec_j_record utf8_decode_last_ascii calls caps s). Qed.

Theorem next_never_panics_jaspar16 : forall A calls caps s,
  (forall c k, aindex A c = Some k -> k < aK A) -> wf_stream s ->
  Forall ok_outcome (j_calls (j16_record A) calls caps s).
Proof.
  intros A calls caps s HA.
  exact (j_calls_no_panic (j16_record A) (pspec_j16_record A HA) utf8_decode_last_ascii calls caps s).
Qed.

Theorem next_never_panics_uniprobe : forall A parse_f32 calls s,
  (forall c k, aindex A c = Some k -> k < aK A) -> wf_stream s ->
  Forall ok_outcome (uniprobe_calls A parse_f32 false calls s).
Proof. intros A parse_f32 calls s HA. exact (uniprobe_calls_no_panic A HA parse_f32 calls s). Qed.

(* the step lemma behind them: the reader invariant is kept by every next(), the number of
   unread bytes never grows and strictly decreases with every record returned *)
Theorem next_step_jaspar : forall cap st, jinv st ->
  jinv (fst (j_next (j_record false) false cap st)) /\
  ok_outcome (snd (j_next (j_record false) false cap st)) /\
  jmu (fst (j_next (j_record false) false cap st)) <= jmu st /\
  (forall r, snd (j_next (j_record false) false cap st) = Ok (Some r) ->
             jmu (fst (j_next (j_record false) false cap st)) < jmu st).
Proof. exact (j_next_total (j_record false) pspec_j_record utf8_decode_last_ascii). Qed.

Check reader_total_jaspar : forall caps s, wf_stream s -> Holds_c15 (jaspar_read caps s).
Check reader_total_uniprobe : forall A parse_f32 s,
  (forall c k, aindex A c = Some k -> k < aK A) -> wf_stream s -> Holds_c15 (uniprobe_read A parse_f32 s).

(* ---------- the unrepaired readers violate the property (F15-F17 witnesses) ---------- *)

(* F15: Reader::new on the empty input (usize underflow `0 - 1`) *)
Lemma F15_refuted : j_read_buggy (j_record false) true 3 (fun _ => 0) [] = [Panic 30].
Proof. vm_compute. reflexivity. Qed.

(* F16: JASPAR ragged rows reached unimplemented!() :  ">x\n1 2\n1\n1 2\n1 2\n" *)
Lemma F16_refuted :
  j_read (j_record true) (fun _ => 0)
    [[62;120;10; 49;32;50;10; 49;10; 49;32;50;10; 49;32;50;10]%N] = [Panic 11].
Proof. vm_compute. reflexivity. Qed.

(* F17: UniPROBE header without matrix columns indexed input[0] :  "ID\n" *)
Lemma F17_refuted :
  uniprobe_calls Dna (fun _ => None) true 1 [[73;68;10]%N] = [Panic 40].
Proof. vm_compute. reflexivity. Qed.

(* non-vacuity: the repaired readers on the same inputs, and on a real record *)
Example F15_repaired : jaspar_read (fun _ => 0) [] = [Ok None].
Proof. vm_compute. reflexivity. Qed.

Example F16_repaired :
  jaspar_read (fun _ => 0) [[62;120;10; 49;32;50;10; 49;10; 49;32;50;10; 49;32;50;10]%N] = [Err ENom].
Proof. vm_compute. reflexivity. Qed.

Example F17_repaired : uniprobe_read Dna (fun _ => None) [[73;68;10]%N] = [Err EInvalid].
Proof. vm_compute. reflexivity. Qed.

Example jaspar_record_read :
  jaspar_read (fun _ => 0) [[62;120;10]; [49;32;50;10; 51;32]; [52;10; 53;32;54;10; 55;32;56;10]]%N
  = [Ok (Some {| rid := [120%N]; rdesc := None;
                 rmatrix := [[1;3;7;5;0]; [2;4;8;6;0]]%N |}); Ok None].
Proof. vm_compute. reflexivity. Qed.

(* ================= round 3: streams whose fill_buf fails, and the polling consumer =================
   Event streams (IoErr.v): what successive fill_buf() calls deliver is a data slice, an io::Error, or
   ErrorKind::Interrupted (retried by std's read_until).  [wf_estream] only says that no data slice is
   empty.  The polling consumer (IoPoll.v) calls next() a fixed number of times WHATEVER the calls
   return: after errors (parse errors, invalid UTF-8, I/O errors) and after End as well. *)
From LMIo Require Import GenIoAbc GenIoReader IoErr IoErrUProofs IoErrJBase IoErrJLift IoPoll IoPollProofs.

(* C15 "each request ... returns a record, an error or end of input": n requests give exactly n
   outcomes, none of them a panic site or OutOfFuel -- every stream, every fault script, every n.
   The JASPAR statements hold for the reader AS THE TRANSLATOR FOUND IT (GenIoAbc: the slice guard of
   df3a2dd and the constants of `unwrap_or(U).saturating_sub(S)`): without the guard, or with U > S,
   these proofs fail (see polls_unguarded_refuted). *)
Theorem reader_polls_total_jaspar : forall n caps es, wf_estream es ->
  length (jaspar_polls_e n caps es) = n /\ Forall ok_outcome (jaspar_polls_e n caps es).
Proof.
  intros n caps es. apply (j_polls_e_new_total (j_record false) pspec_j_record). apply Nat.leb_le. reflexivity.
Qed.

Theorem reader_polls_total_jaspar16 : forall A n caps es,
  (forall c k, aindex A c = Some k -> k < aK A) -> wf_estream es ->
  length (jaspar16_polls_e A n caps es) = n /\ Forall ok_outcome (jaspar16_polls_e A n caps es).
Proof.
  intros A n caps es HA. apply (j_polls_e_new_total (j16_record A) (pspec_j16_record A HA)).
  apply Nat.leb_le. reflexivity.
Qed.

Theorem reader_polls_total_uniprobe : forall A parse_f32 n es,
  (forall c k, aindex A c = Some k -> k < aK A) -> wf_estream es ->
  length (uniprobe_polls_e A parse_f32 n es) = n /\ Forall ok_outcome (uniprobe_polls_e A parse_f32 n es).
Proof. intros A parse_f32 n es HA. exact (uniprobe_polls_e_total A HA parse_f32 n es). Qed.

(* End is final: once a request answered End every later request answers End (no record or error
   resurfaces, whatever the stream still held when a failed read_line dropped its bytes) *)
Theorem reader_end_is_final_jaspar : forall n caps es, wf_estream es ->
  forall i j, nth_error (jaspar_polls_e n caps es) i = Some (Ok None) -> i <= j ->
              j < length (jaspar_polls_e n caps es) -> nth_error (jaspar_polls_e n caps es) j = Some (Ok None).
Proof. intros n caps es H. apply end_final_sound. apply j_polls_e_new_end_final. exact H. Qed.

Theorem reader_end_is_final_jaspar16 : forall A n caps es, wf_estream es ->
  forall i j, nth_error (jaspar16_polls_e A n caps es) i = Some (Ok None) -> i <= j ->
              j < length (jaspar16_polls_e A n caps es) -> nth_error (jaspar16_polls_e A n caps es) j = Some (Ok None).
Proof. intros A n caps es H. apply end_final_sound. apply j_polls_e_new_end_final. exact H. Qed.

Theorem reader_end_is_final_uniprobe : forall A parse_f32 n es,
  (forall c k, aindex A c = Some k -> k < aK A) -> wf_estream es ->
  forall i j, nth_error (uniprobe_polls_e A parse_f32 n es) i = Some (Ok None) -> i <= j ->
              j < length (uniprobe_polls_e A parse_f32 n es) ->
              nth_error (uniprobe_polls_e A parse_f32 n es) j = Some (Ok None).
Proof.
  intros A parse_f32 n es HA H. apply end_final_sound. exact (uniprobe_polls_e_end_final A HA parse_f32 n es H).
Qed.

(* the extracted boolean the driver applies to the implementation's outcome lists means that *)
Theorem end_final_is_sound : forall {C} (l : list (outcome C)), end_final l = true ->
  forall i j, nth_error l i = Some (Ok None) -> i <= j -> j < length l -> nth_error l j = Some (Ok None).
Proof. exact @end_final_sound. Qed.

(* the consumer that stops at End / the first error terminates on failing streams too:
   records, then exactly one End or error (fuel = data bytes + 2 calls is enough) *)
Theorem reader_total_faults_jaspar : forall caps es, wf_estream es -> Holds_c15 (jaspar_read_e caps es).
Proof.
  intros caps es. apply (j_read_e_total (j_record false) pspec_j_record). apply Nat.leb_le. reflexivity.
Qed.

Theorem reader_total_faults_jaspar16 : forall A caps es,
  (forall c k, aindex A c = Some k -> k < aK A) -> wf_estream es -> Holds_c15 (jaspar16_read_e A caps es).
Proof.
  intros A caps es HA. apply (j_read_e_total (j16_record A) (pspec_j16_record A HA)). apply Nat.leb_le. reflexivity.
Qed.

Theorem reader_total_faults_uniprobe : forall A parse_f32 es,
  (forall c k, aindex A c = Some k -> k < aK A) -> wf_estream es -> Holds_c15 (uniprobe_read_e A parse_f32 es).
Proof. intros A parse_f32 es HA. exact (uniprobe_read_e_total A HA parse_f32 es). Qed.

(* the polling consumer extends the stop-at-first-error consumer: its outcomes up to and including the
   first one that is not a record are exactly those of *_read_e (the functions of reader_total_faults_*,
   and through fault_free_agree_* of the C14 round-trip theorems) *)
Theorem polls_extend_read_jaspar : forall n caps es, wf_estream es ->
  length (jaspar_read_e caps es) <= n ->
  firstn (length (jaspar_read_e caps es)) (jaspar_polls_e n caps es) = jaspar_read_e caps es.
Proof.
  intros n caps es H Hn. pose proof (reader_total_faults_jaspar caps es H) as T.
  apply holds_c15_no_fuel in T. exact (j_run_polls_prefix _ _ _ caps 0 _ n T Hn).
Qed.

Theorem polls_extend_read_jaspar16 : forall A n caps es,
  (forall c k, aindex A c = Some k -> k < aK A) -> wf_estream es ->
  length (jaspar16_read_e A caps es) <= n ->
  firstn (length (jaspar16_read_e A caps es)) (jaspar16_polls_e A n caps es) = jaspar16_read_e A caps es.
Proof.
  intros A n caps es HA H Hn. pose proof (reader_total_faults_jaspar16 A caps es HA H) as T.
  apply holds_c15_no_fuel in T. exact (j_run_polls_prefix _ _ _ caps 0 _ n T Hn).
Qed.

Theorem polls_extend_read_uniprobe : forall A parse_f32 n es,
  (forall c k, aindex A c = Some k -> k < aK A) -> wf_estream es ->
  length (uniprobe_read_e A parse_f32 es) <= n ->
  firstn (length (uniprobe_read_e A parse_f32 es)) (uniprobe_polls_e A parse_f32 n es) = uniprobe_read_e A parse_f32 es.
Proof.
  intros A parse_f32 n es HA H Hn. pose proof (reader_total_faults_uniprobe A parse_f32 es HA H) as T.
  apply holds_c15_no_fuel in T. exact (u_run_polls_prefix A parse_f32 _ _ _ n T Hn).
Qed.

(* on streams without error events the event-stream readers ARE the readers of the C14 theorems *)
Theorem fault_free_agree_jaspar : forall caps s, wf_stream s -> jaspar_read_e caps (of_stream s) = jaspar_read caps s.
Proof. exact jaspar_read_e_of_stream. Qed.

Theorem fault_free_agree_jaspar16 : forall A caps s, wf_stream s ->
  jaspar16_read_e A caps (of_stream s) = jaspar16_read A caps s.
Proof. exact jaspar16_read_e_of_stream. Qed.

Theorem fault_free_agree_uniprobe : forall A parse_f32 s,
  uniprobe_read_e A parse_f32 (of_stream s) = uniprobe_read A parse_f32 s.
Proof. exact uniprobe_read_e_of_stream. Qed.

(* chunk independence up to the first I/O error: two fault scripts with the same bytes before their
   first (non-Interrupted) error give the same outcomes, error included *)
Theorem reader_same_until_error_uniprobe : forall A parse_f32 F fuel es1 es2, same_until_error es1 es2 ->
  u_run_e A parse_f32 F fuel true (u_new_e es1) = u_run_e A parse_f32 F fuel true (u_new_e es2).
Proof. exact uniprobe_same_until_error. Qed.

Theorem reader_same_until_error_jaspar : forall U S precord fuel caps es1 es2,
  same_until_error es1 es2 -> snd (fst (read_until_e 62 es1)) = false ->
  j_run_e precord fuel true caps 0 (j_new_e U S es1) = j_run_e precord fuel true caps 0 (j_new_e U S es2).
Proof. exact jaspar_read_same_until_error. Qed.

Check reader_polls_total_jaspar : forall n caps es, wf_estream es ->
  length (jaspar_polls_e n caps es) = n /\ Forall ok_outcome (jaspar_polls_e n caps es).
Check reader_polls_total_uniprobe : forall A parse_f32 n es,
  (forall c k, aindex A c = Some k -> k < aK A) -> wf_estream es ->
  length (uniprobe_polls_e A parse_f32 n es) = n /\ Forall ok_outcome (uniprobe_polls_e A parse_f32 n es).

(* ---------- witnesses ---------- *)

(* df3a2dd: an I/O error inside Reader::new (buffer left empty, start = 0), then data: the unguarded
   `&buffer[start..=start + n]` is out of bounds on the first next() ... *)
Lemma polls_unguarded_refuted :
  jaspar_polls_e_unguarded 2 (fun _ => 0) [EvErr false; EvData [62;120;10]%N] = [Panic 32].
Proof. vm_compute. reflexivity. Qed.

(* ... the guarded reader answers a parse error: ">" alone, then ">x\n" again and again (sticky) *)
Example polls_guarded :
  jaspar_polls_e 3 (fun _ => 0) [EvErr false; EvData [62;120;10]%N] = [Err ENom; Err ENom; Err ENom].
Proof. vm_compute. reflexivity. Qed.

(* sticky parse error: `start` only moves on success; a request after the error sees the same text again *)
Example polls_sticky_error :
  jaspar_polls_e 3 (fun _ => 0) [EvData [62;120;10; 49;10]%N] = [Err ENom; Err ENom; Err ENom].
Proof. vm_compute. reflexivity. Qed.

(* an I/O error in the middle of a record: the bytes read so far stay in the buffer (Interrupted is
   invisible); the next request slices `start..=start + n` with n = the bytes of THIS call only, i.e. a
   truncated record: a parse error; the request after it (n = 0: the whole pending buffer) returns the record *)
Example polls_io_error_mid_record :
  jaspar_polls_e 4 (fun _ => 0)
    [EvData [62;120;10; 49;32]%N; EvErr true; EvData [50;10]%N; EvErr false; EvData [51;32;52;10; 53;32;54;10; 55;32;56;10]%N]
  = [Err EIo; Err ENom; Ok (Some {| rid := [120%N]; rdesc := None; rmatrix := [[1;3;7;5;0]; [2;4;8;6;0]]%N |}); Ok None].
Proof. vm_compute. reflexivity. Qed.

(* UniPROBE: a failed read_line keeps what it appended (valid UTF-8): the name "ID" survives the error *)
Example polls_uniprobe_io_error :
  uniprobe_polls_e Dna (fun _ => None) 3 [EvData [73;68]%N; EvErr false; EvData [10]%N] = [Err EIo; Err EInvalid; Ok None].
Proof. vm_compute. reflexivity. Qed.

(* AS CODED, outside C14 / C15 (observation O-IO1 of notes/io.md): JASPAR 2016, an I/O error in the middle of a
   record (">x\nA [1 2]\nC [3 4]\nG [5 6]\nT [7 8]\n", fill_buf fails after 17 bytes): the next request reads the
   remaining n = 18 bytes and slices `start..=start + n` of a buffer that already held 17 pending bytes, i.e. the
   first 19 bytes ">x\nA [1 2]\nC [3 4]\n": a complete record of the grammar -- the truncated record x (columns
   A and C only) is returned, then the rest is a sticky parse error *)
Example polls_truncated_record_after_io_error :
  let f := [62;120;10; 65;32;91;49;32;50;93;10; 67;32;91;51;32;52;93;10; 71;32;91;53;32;54;93;10; 84;32;91;55;32;56;93;10]%N in
  jaspar16_polls_e Dna 4 (fun _ => 0) [EvData (firstn 1 f); EvData (firstn 16 (skipn 1 f)); EvErr false; EvData (skipn 17 f)]
  = [Err EIo; Ok (Some {| rid := [120%N]; rdesc := None; rmatrix := [[1;3;0;0;0]; [2;4;0;0;0]]%N |}); Err ENom; Err ENom].
Proof. vm_compute. reflexivity. Qed.

(* UniPROBE, std's read_line on invalid UTF-8: the bytes of the line are consumed, the String is unchanged, the
   call fails (InvalidData): "\xff\nID\n" gives an I/O error, then the header-only record ID (invalid data), then End *)
Example polls_uniprobe_invalid_utf8_line :
  uniprobe_polls_e Dna (fun _ => None) 4 [EvData [255;10;73;68;10]%N] = [Err EIo; Err EInvalid; Ok None; Ok None].
Proof. vm_compute. reflexivity. Qed.

(* ... and in the column loop the error is returned after the name has been consumed: the record is lost *)
Example polls_uniprobe_error_in_columns :
  uniprobe_polls_e Dna (fun _ => None) 4 [EvData [73]%N; EvErr false; EvData [68;10;255;10]%N] = [Err EIo; Err EIo; Ok None; Ok None].
Proof. vm_compute. reflexivity. Qed.

(* ---------- the source still has the statement skeleton the models were written for ----------
   (GenIoReader.v is regenerated from the three mod.rs and the two parse.rs on every run: read_until's
   delimiter, the order of slice / decode / End test / parse / `start +=` / compaction, the Err arms that
   return without touching `start` or the buffer, UniPROBE's line / buffer resets, the header literals) *)
Theorem reader_skeleton_is_modelled :
  gen_jaspar_next_events = model_jaspar_next_events /\ gen_jaspar16_next_events = model_jaspar_next_events /\
  gen_jaspar_next_delim = model_jaspar_delim /\ gen_jaspar16_next_delim = model_jaspar_delim /\
  gen_uniprobe_next_events = model_uniprobe_next_events /\
  gen_jaspar_header_tag = model_header_tag /\ gen_jaspar16_header_tag = model_header_tag /\
  gen_jaspar_header_until = model_header_until /\ gen_jaspar16_header_until = model_header_until.
Proof. repeat split; reflexivity. Qed.

(* error.rs: `nom::Err::Incomplete(_) => unreachable!()` is a panic site without a counterpart in the model:
   IoNom.pres has no Incomplete result because the parsers of the three parse.rs files are built from nom's
   `complete` combinators only, which never return it.  That premise is re-read from the source on every run
   (GenIoReader.v): no `streaming` parser / `Incomplete` / `Needed` is mentioned and every nom path comes from
   bytes/character/number::complete, combinator, multi, sequence, branch or error -- or the arm no longer panics. *)
Theorem io_parsers_are_complete :
  (gen_io_parse_uses_streaming = false /\ gen_io_parse_foreign_nom_paths = 0) \/
  gen_io_error_incomplete_is_panic = false.
Proof. first [left; split; reflexivity | right; reflexivity]. Qed.

(* The capacity oracle is irrelevant for the polling consumer as well: Vec::capacity() only decides WHEN the
   buffer is compacted, and what a next() returns and leaves pending depends on the pending bytes only.  (The
   driver runs the model with an arbitrary oracle; C14io.compaction_transparent covers the stop-consumer only.) *)
From LMIo Require Import IoPollCaps.

Theorem reader_polls_capacity_independent_jaspar : forall n caps1 caps2 es,
  jaspar_polls_e n caps1 es = jaspar_polls_e n caps2 es.
Proof.
  intros n caps1 caps2 es. apply (j_polls_capacity_independent gen_jaspar_slice_guard (j_record false)).
  apply Nat.leb_le. reflexivity.
Qed.

Theorem reader_polls_capacity_independent_jaspar16 : forall A n caps1 caps2 es,
  jaspar16_polls_e A n caps1 es = jaspar16_polls_e A n caps2 es.
Proof.
  intros A n caps1 caps2 es. apply (j_polls_capacity_independent gen_jaspar_slice_guard (j16_record A)).
  apply Nat.leb_le. reflexivity.
Qed.

(* `map_res(matrix, CountMatrix::new)` of the JASPAR record parsers: the model takes CountMatrix::new as never
   failing (its row-sum test is commented out in lightmotif/src/pwm/mod.rs); re-read on every run *)
Theorem count_matrix_new_is_total : gen_count_matrix_new_can_fail = false.
Proof. reflexivity. Qed.

(* history theorem behind it: two reader objects with the same pending bytes (buffer after `start`) and the same
   stream -- whatever their buffers, offsets and capacities are after their different pasts -- answer the next
   request alike and stay related *)
Theorem reader_next_depends_on_pending_only : forall precord cap1 cap2 a b, same_pending a b ->
  snd (j_next_e precord cap1 a) = snd (j_next_e precord cap2 b) /\
  same_pending (fst (j_next_e precord cap1 a)) (fst (j_next_e precord cap2 b)).
Proof. intros precord. exact (j_next_e_g_pending gen_jaspar_slice_guard precord). Qed.

(* ErrorKind::Interrupted is invisible (std's read_until / read_line retry it; the readers have no arm for it):
   deleting every Interrupted event from a fault script changes no outcome of any sequence of requests.  A reader
   that handled Interrupted itself (returning it as an error, or dropping the bytes read so far) would not satisfy this. *)
From LMIo Require Import IoPollIntr.

Theorem reader_interrupted_invisible_jaspar : forall n caps es, wf_estream es ->
  jaspar_polls_e n caps (strip_intr es) = jaspar_polls_e n caps es.
Proof. intros n caps es. exact (j_polls_interrupted_invisible gen_jaspar_slice_guard (j_record false) _ _ n caps es). Qed.

Theorem reader_interrupted_invisible_jaspar16 : forall A n caps es, wf_estream es ->
  jaspar16_polls_e A n caps (strip_intr es) = jaspar16_polls_e A n caps es.
Proof. intros A n caps es. exact (j_polls_interrupted_invisible gen_jaspar_slice_guard (j16_record A) _ _ n caps es). Qed.

Theorem reader_interrupted_invisible_uniprobe : forall A parse_f32 n es,
  uniprobe_polls_e A parse_f32 n (strip_intr es) = uniprobe_polls_e A parse_f32 n es.
Proof. exact uniprobe_polls_interrupted_invisible. Qed.

Example interrupted_storm :
  jaspar_polls_e 3 (fun _ => 0)
    [EvErr true; EvData [62;120;10; 49;32]%N; EvErr true; EvErr true; EvData [50;10; 51;32;52;10; 53;32;54;10; 55;32;56;10]%N; EvErr true]
  = [Ok (Some {| rid := [120%N]; rdesc := None; rmatrix := [[1;3;7;5;0]; [2;4;8;6;0]]%N |}); Ok None; Ok None].
Proof. vm_compute. reflexivity. Qed.
