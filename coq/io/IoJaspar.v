(* Models of lightmotif-io/src/jaspar/{mod,parse}.rs and jaspar16/{mod,parse}.rs
   (REPAIRED tree: /repo commits dde4eff, db09aaa, 3c49808), plus the unrepaired
   (`buggy`) variants used by the `..._refuted` lemmas.  Executable definitions only. *)
From Coq Require Import List NArith Bool Arith.
From LMBase Require Import Res ListX.
From LMIo Require Import GenIoAbc IoBase IoNom.
Import ListNotations.

(* ---------- alphabets (lightmotif::abc) ---------- *)

(* Symbol::from_char followed by as_index: the first arm of from_ascii (table regenerated
   from abc.rs by translate/io_abc.py, see GenIoAbc.v) whose byte is [c], like a Rust match *)
Fixpoint assoc_index (c : N) (tbl : list (N * nat)) : option nat :=
  match tbl with
  | [] => None
  | (b, k) :: r => if N.eqb b c then Some k else assoc_index c r
  end.

Definition dna_index (c : N) : option nat := assoc_index c gen_dna_from_ascii.
Definition protein_index (c : N) : option nat := assoc_index c gen_protein_from_ascii.

(* an alphabet as seen by the parsers: K and the char -> column map *)
Record alphabet := { aK : nat; aindex : N -> option nat }.
Definition Dna : alphabet := {| aK := gen_dna_K; aindex := dna_index |}.
Definition Protein : alphabet := {| aK := gen_protein_K; aindex := protein_index |}.

(* ---------- records ---------- *)

(* C = cell type: N for counts, Z (IEEE bits) for frequencies *)
Record record (C : Type) := { rid : list N; rdesc : option (list N); rmatrix : list (list C) }.
Arguments rid {C}. Arguments rdesc {C}. Arguments rmatrix {C}. Arguments Build_record {C}.

(* ---------- DenseMatrix as a table (see coq/dense: the table level) ---------- *)

Definition new_matrix {C} (zero : C) (K rows : nat) : list (list C) := repeat (repeat zero K) rows.

(* for (i, x) in counts.enumerate() { matrix[i][idx] = x }   (len counts = rows checked before) *)
Fixpoint set_col {C} (idx : nat) (counts : list C) (m : list (list C)) : list (list C) :=
  match counts, m with
  | x :: cs, row :: rows => upd idx x row :: set_col idx cs rows
  | _, _ => m
  end.

(* ---------- header (identical in jaspar/parse.rs and jaspar16/parse.rs) ---------- *)

Definition p_header : parser (list N * option (list N)) := fun i =>
  pbind (p_preceded (p_tag [62%N]) (p_take_while (fun c => negb (is_ascii_ws c))) i) (fun i1 id =>
  pbind (p_take_until_nl i1) (fun i2 accession =>
  pbind (p_line_ending i2) (fun i3 _ =>
    let acc := trim accession in
    if is_nil acc then POk i3 0 (id, None) else POk i3 0 (id, Some acc)))).

(* ---------- JASPAR (raw) ---------- *)

Definition j_counts : parser (list N) :=
  p_preceded (p_opt p_space1) (p_separated_list0 p_space1 p_u32).

Definition j_matrix_column : parser (list N) := p_terminated j_counts p_line_ending.

(* build_matrix(GenericArray [a, c, g, t], symbols): Err(InvalidData) on rows of different
   lengths.  The column indices (as_index of the elements of `symbols` in parse::matrix) are
   the generated [map snd gen_jaspar_symbols]; today A, C, G, T in Dna ("ACTGN"): 0, 1, 3, 2. *)
Fixpoint j_build_loop (K : nat) (cols : list (list N * nat)) (m : list (list N)) : res (list (list N)) :=
  match cols with
  | [] => Ok m
  | (counts, idx) :: rest =>
      if length counts =? length m then
        if idx <? K then j_build_loop K rest (set_col idx counts m)
        else Panic 10                       (* matrix[i][s.as_index()] out of the row *)
      else Err EInvalid
  end.

Definition j_build_matrix (a c g t : list N) : res (list (list N)) :=
  j_build_loop (aK Dna) (combine [a; c; g; t] (map snd gen_jaspar_symbols))
               (new_matrix 0%N (aK Dna) (length a)).

(* parse::matrix.  [buggy = true] is the unrepaired code: unimplemented!() on ragged rows *)
Definition j_matrix (buggy : bool) : parser (list (list N)) := fun i =>
  pbind (j_matrix_column i) (fun i1 a =>
  pbind (j_matrix_column i1) (fun i2 c =>
  pbind (j_matrix_column i2) (fun i3 g =>
  pbind (j_matrix_column i3) (fun i4 t =>
    match j_build_matrix a c g t with
    | Ok m => POk i4 0 m
    | Err _ => if buggy then PPanic 11 else PErr KMapRes
    | Panic s => PPanic s
    | OutOfFuel => PFuel
    end)))).

(* CountMatrix::new never fails (it only computes the largest row sum, in usize) *)
Definition j_record (buggy : bool) : parser (record N) := fun i =>
  pbind (p_header i) (fun i1 h =>
  pbind (p_map_res (j_matrix buggy) (fun m => Ok m) i1) (fun i2 m =>
    POk i2 0 {| rid := fst h; rdesc := snd h; rmatrix := m |})).

(* ---------- JASPAR 2016 ---------- *)

Section Jaspar16.
  Variable A : alphabet.

  (* map_res(anychar, A::Symbol::from_char), result kept as the column index *)
  Definition p_symbol : parser nat := fun i =>
    pbind (p_anychar i) (fun r c =>
      match aindex A c with
      | Some k => POk r 0 k
      | None => PErr KMapRes
      end).

  Definition j16_counts : parser (list N) :=
    p_delimited
      (p_delimited p_space0 (p_tag [91%N]) p_space0)
      (p_separated_list0 p_space1 p_u32)
      (p_delimited p_space0 (p_tag [93%N]) p_space0).

  Definition j16_matrix_column : parser (nat * list N) :=
    p_terminated (p_separated_pair p_symbol p_space1 j16_counts) p_line_ending.

  (* build_matrix: duplicate symbol or inconsistent length is Err(InvalidData);
     input[0] is an index panic on an empty list (unreachable behind many1) *)
  Fixpoint j16_build_loop {C} (cols : list (nat * list C)) (done : list bool) (m : list (list C))
    : res (list (list C)) :=
    match cols with
    | [] => Ok m
    | (idx, counts) :: rest =>
        if idx <? length done then
          if nth idx done false then Err EInvalid
          else if length counts =? length m then
            if idx <? aK A then j16_build_loop rest (upd idx true done) (set_col idx counts m)
            else Panic 21
          else Err EInvalid
        else Panic 20                       (* done[s.as_index()] *)
    end.

  Definition j16_build_matrix {C} (zero : C) (cols : list (nat * list C)) : res (list (list C)) :=
    match cols with
    | [] => Panic 22                        (* input[0] *)
    | (_, c0) :: _ => j16_build_loop cols (repeat false (aK A)) (new_matrix zero (aK A) (length c0))
    end.

  Definition j16_matrix : parser (list (list N)) :=
    p_map_res (p_many1 j16_matrix_column) (j16_build_matrix 0%N).

  Definition j16_record : parser (record N) := fun i =>
    pbind (p_header i) (fun i1 h =>
    pbind (p_map_res j16_matrix (fun m => Ok m) i1) (fun i2 m =>
      POk i2 0 {| rid := fst h; rdesc := snd h; rmatrix := m |})).
End Jaspar16.

(* ---------- the Reader state machine (jaspar/mod.rs = jaspar16/mod.rs) ---------- *)

Record jstate := { jbuf : list N; jstart : nat; jstream : stream }.

(* Reader::new.  Repaired: read_until(..).unwrap_or(1).saturating_sub(1).
   (The Err arm of read_until cannot be taken: the streams modelled here never fail.) *)
Definition j_new (s : stream) : res jstate :=
  let (r, s') := read_until 62 s in
  Ok {| jbuf := r; jstart := length r - 1 (* saturating_sub *); jstream := s' |}.

(* unrepaired: `- 1` (panic in debug builds, wrap-around in release builds) *)
Definition j_new_buggy (s : stream) : res jstate :=
  let (r, s') := read_until 62 s in
  if length r =? 0 then Panic 30
  else Ok {| jbuf := r; jstart := length r - 1; jstream := s' |}.

Section Reader.
  Variable precord : parser (record N).
  (* [adv_buggy = true]: the unrepaired `self.start += n + 1 - rest.len()` *)
  Variable adv_buggy : bool.

  (* Iterator::next.  [cap] = self.buffer.capacity() at the time of the test
     `self.start > self.buffer.capacity() / 2`: an artefact of Vec growth, left
     arbitrary (see compaction_transparent). *)
  (* [guard]: the n != 0 slice is `&buffer[start..=start + n]` (false) or the guarded
     `buffer.get(start..=start + n)` falling back to `&buffer[start..]` (true); which one the
     source has is re-read on every run (GenIoAbc.gen_jaspar_slice_guard) *)
  Definition j_next_g (guard : bool) (cap : nat) (st : jstate) : jstate * res (option (record N)) :=
    let (r, s') := read_until 62 (jstream st) in
    let n := length r in
    let buf := jbuf st ++ r in
    let start := jstart st in
    let st1 := {| jbuf := buf; jstart := start; jstream := s' |} in
    let slice : res (list N) :=
      if n =? 0 then
        if start <=? length buf then Ok (skipn start buf) else Panic 31      (* &buffer[start..] *)
      else
        if start + n <? length buf then Ok (firstn (n + 1) (skipn start buf)) (* &buffer[start..=start+n] *)
        else if guard
             then (if start <=? length buf then Ok (skipn start buf) else Panic 31)
             else Panic 32 in
    match slice with
    | Panic k => (st1, Panic k)
    | Err e => (st1, Err e)
    | OutOfFuel => (st1, OutOfFuel)
    | Ok bytes =>
        match utf8_decode bytes with
        | None => (st1, Err EIo)                       (* "decoding error": io::ErrorKind::InvalidData *)
        | Some text =>
            if (n =? 0) && is_nil (trim text) then (st1, Ok None)
            else
              match precord text with
              | PErr _ | PFail _ => (st1, Err ENom)
              | PPanic k => (st1, Panic k)
              | PFuel => (st1, OutOfFuel)
              | POk rest _ rec =>
                  let consumed_total := if adv_buggy then n + 1 else length bytes in
                  if str_len rest <=? consumed_total then
                    let start' := start + (consumed_total - str_len rest) in
                    if cap / 2 <? start' then
                      (* copy_within(start.., 0); truncate(len - start); start = 0 *)
                      if start' <=? length buf
                      then ({| jbuf := skipn start' buf; jstart := 0; jstream := s' |}, Ok (Some rec))
                      else (st1, Panic 34)
                    else ({| jbuf := buf; jstart := start'; jstream := s' |}, Ok (Some rec))
                  else (st1, Panic 33)                 (* usize subtraction overflow (debug build) *)
              end
        end
    end.

  Definition j_next : nat -> jstate -> jstate * res (option (record N)) :=
    j_next_g gen_jaspar_slice_guard.

  (* what a caller sees: the outcomes of successive next() calls.  [caps k] is the
     capacity oracle of the k-th call.  Stops after End (None); with [stop_err]
     also after the first error.  At most [fuel] calls. *)
  Fixpoint j_run (fuel : nat) (stop_err : bool) (caps : nat -> nat) (k : nat) (st : jstate)
    : list (res (option (record N))) :=
    match fuel with
    | 0 => [OutOfFuel]
    | S fuel' =>
        let (st', o) := j_next (caps k) st in
        match o with
        | Ok (Some _) => o :: j_run fuel' stop_err caps (S k) st'
        | Err _ => if stop_err then [o] else o :: j_run fuel' stop_err caps (S k) st'
        | _ => [o]
        end
    end.
End Reader.

(* whole-file runs: Reader::new(stream) then next() until End or the first error;
   the fuel (bytes + 2 calls) is proved sufficient in C15 *)
Definition j_read (precord : parser (record N)) (caps : nat -> nat) (s : stream)
  : list (res (option (record N))) :=
  match j_new s with
  | Ok st => j_run precord false (S (S (length (stream_bytes s)))) true caps 0 st
  | Err e => [Err e]
  | Panic k => [Panic k]
  | OutOfFuel => [OutOfFuel]
  end.

Definition jaspar_read := j_read (j_record false).
Definition jaspar16_read (A : alphabet) := j_read (j16_record A).

(* the unrepaired readers *)
Definition j_read_buggy (precord : parser (record N)) (stop_err : bool) (calls : nat)
           (caps : nat -> nat) (s : stream) : list (res (option (record N))) :=
  match j_new_buggy s with
  | Ok st => j_run precord true calls stop_err caps 0 st
  | Err e => [Err e]
  | Panic k => [Panic k]
  | OutOfFuel => [OutOfFuel]
  end.
