(* Printer then parser, record and file level, for the general layout of IoPrintG.v (per-count blanks):
   record parsers on a printed well-formed record; shape of the printed text; reader round trip through
   the generic IoRoundtrip.a_read_roundtrip; IoPrint's one-separator style as a special case. *)
From Coq Require Import List NArith Bool Arith Lia.
From LMBase Require Import Res ListX.
From LMIo Require Import GenIoAbc IoBase IoNom IoJaspar IoPrint IoPrintG IoBaseProofs IoCheckProofs IoNomProofs IoParseProofs
  IoTokProofs IoMatrixProofs IoHeaderProofs IoLineProofs IoLineProofsG IoRecordProofs IoAbs IoRoundtrip IoC14Proofs.
Import ListNotations.

Lemma wf_style_of_g : forall r, blank1 (g_hsep r) = true -> wf_style (style_of_g r) = true.
Proof. intros r H. unfold wf_style, style_of_g. cbn [y_hsep y_lead y_sep y_sym y_tail y_post]. rewrite H. reflexivity. Qed.

(* the header line: with a description it is IoPrint's; without, any trailing blanks are trimmed away *)
Lemma header_print_g : forall r X, wf_hsep_g r = true -> wf_id (g_id r) = true -> wf_desc (g_desc r) = true ->
  exists n, p_header (print_header_g r ++ X) = POk X n (g_id r, g_desc r).
Proof.
  intros r X Hh Hid Hd. unfold wf_hsep_g in Hh. destruct (g_desc r) as [d|] eqn:Ed.
  - pose proof (header_print (style_of_g r) (src_of_g r) X (wf_style_of_g r Hh) Hid) as P.
    unfold print_header, src_of_g in P. cbn [sid sdesc] in P. rewrite Ed in P. cbn [y_hsep style_of_g] in P.
    unfold print_header_g. rewrite Ed. exact (P Hd).
  - set (cr := if g_crlf r then [13%N] else []).
    assert (Heol : eol (style_of_g r) = cr ++ [10%N]) by (unfold eol, cr, style_of_g; cbn [y_crlf]; destruct (g_crlf r); reflexivity).
    assert (Hcr_ws : forallb is_white_space cr = true) by (unfold cr; destruct (g_crlf r); reflexivity).
    assert (Hcr_nl : forallb (fun c => negb (N.eqb c 10)) cr = true) by (unfold cr; destruct (g_crlf r); reflexivity).
    assert (Hidn : forallb (fun c => negb (is_ascii_ws c)) (g_id r) = true).
    { revert Hid. unfold wf_id. apply forallb_imp. intros c H. split_andb. assumption. }
    unfold all_blank in Hh.
    destruct (header_core (g_id r) (g_hsep r ++ cr) X) as [n Hn]; auto.
    + rewrite forallb_app, Hcr_nl, andb_true_r. revert Hh. apply forallb_imp. apply blank_not_nl.
    + destruct (g_hsep r) as [|b hs].
      * cbn [app]. unfold cr. destruct (g_crlf r); eexists; eexists; (split; [reflexivity|]); reflexivity.
      * cbn [forallb] in Hh. apply andb_true_iff in Hh. destruct Hh as [Hb _].
        eexists. eexists. split; [reflexivity|]. apply blank_is_ascii_ws. exact Hb.
    + exists n.
      assert (trim (g_hsep r ++ cr) = []) as Ht.
      { apply trim_all_ws. rewrite forallb_app, Hcr_ws, andb_true_r. revert Hh. apply forallb_imp. apply blank_is_ws. }
      rewrite Ht in Hn. cbn [is_nil] in Hn. rewrite <- Hn. f_equal.
      unfold print_header_g. rewrite Ed, Heol. repeat rewrite <- app_assoc. reflexivity.
Qed.

Lemma okc_header_g : forall r, wf_hsep_g r = true -> wf_id (g_id r) = true -> wf_desc (g_desc r) = true ->
  forallb okc (g_id r ++ match g_desc r with Some d => g_hsep r ++ d | None => g_hsep r end ++ eol (style_of_g r)) = true.
Proof.
  intros r Hh Hid Hd. unfold wf_hsep_g in Hh. destruct (g_desc r) as [d|] eqn:Ed.
  - pose proof (okc_header (style_of_g r) (src_of_g r) (wf_style_of_g r Hh) Hid) as P.
    unfold src_of_g in P. cbn [sid sdesc] in P. rewrite Ed in P. exact (P Hd).
  - assert (H1 : forallb okc (g_id r) = true).
    { revert Hid. unfold wf_id. apply forallb_imp. intros c H. split_andb.
      unfold okc. apply andb_true_iff. split; assumption. }
    rewrite !forallb_app, H1, okc_eol, (okc_all_blank _ Hh). reflexivity.
Qed.

Lemma scols_of_g : forall r, scols (src_of_g r) = map (fun l => (g_sym l, map snd (g_toks l))) (g_lines r).
Proof. reflexivity. Qed.

(* ---------- JASPAR raw ---------- *)

Theorem j_record_print_g : forall r tail, wf_jaspar_g r = true ->
  exists n, j_record false (print_jaspar_g r ++ tail) = POk tail n (record_of Dna 0%N dec_value (src_of_g r)).
Proof.
  intros r tail H. unfold wf_jaspar_g in H. split_andb.
  match goal with Hl : list_eqb _ _ = true |- _ => apply list_eqb_sound in Hl; rename Hl into Hsym end.
  destruct r as [id desc hsep crlf lines]. cbn [g_id g_desc g_hsep g_lines] in *.
  destruct lines as [|la [|lc [|lg [|lt [|x lines]]]]]; try discriminate Hsym.
  cbn [map] in Hsym. injection Hsym as Ea Ec Eg Et.
  set (r := {| g_id := id; g_desc := desc; g_hsep := hsep; g_crlf := crlf; g_lines := [la; lc; lg; lt] |}) in *.
  set (a := map snd (g_toks la)). set (c := map snd (g_toks lc)).
  set (g := map snd (g_toks lg)). set (t := map snd (g_toks lt)).
  assert (scols (src_of_g r) = [(65%N, a); (67%N, c); (71%N, g); (84%N, t)]) as Esc.
  { unfold src_of_g, r. cbn [scols g_lines map]. rewrite Ea, Ec, Eg, Et. reflexivity. }
  match goal with Hw : same_width _ = true |- _ => rewrite Esc in Hw; pose proof (same_width_inv _ _ Hw) as W end.
  assert (length c = length a) as Lc by (apply (W (67%N, c)); cbn; auto).
  assert (length g = length a) as Lg by (apply (W (71%N, g)); cbn; auto).
  assert (length t = length a) as Lt by (apply (W (84%N, t)); cbn; auto).
  match goal with Hf : forallb _ _ = true |- _ => cbn [forallb] in Hf; rename Hf into Hcnt end.
  split_andb.
  unfold print_jaspar_g. change (g_lines r) with [la; lc; lg; lt]. cbn [map concat]. rewrite app_nil_r.
  repeat rewrite <- app_assoc.
  match goal with Hs : wf_hsep_g _ = true, Hi : wf_id _ = true, Hd : wf_desc _ = true |- _ =>
    destruct (header_print_g r
                (jaspar_line_g r la ++ jaspar_line_g r lc ++ jaspar_line_g r lg ++ jaspar_line_g r lt ++ tail)
                Hs Hi Hd) as [n0 E0]
  end.
  destruct (j_matrix_column_print_g r la (jaspar_line_g r lc ++ jaspar_line_g r lg ++ jaspar_line_g r lt ++ tail)
              ltac:(assumption)) as [n1 E1].
  destruct (j_matrix_column_print_g r lc (jaspar_line_g r lg ++ jaspar_line_g r lt ++ tail) ltac:(assumption)) as [n2 E2].
  destruct (j_matrix_column_print_g r lg (jaspar_line_g r lt ++ tail) ltac:(assumption)) as [n3 E3].
  destruct (j_matrix_column_print_g r lt tail ltac:(assumption)) as [n4 E4].
  fold a in E1. fold c in E2. fold g in E3. fold t in E4.
  repeat rewrite <- app_assoc in E1, E2, E3.
  unfold j_record. rewrite E0. cbn [pbind].
  unfold p_map_res, j_matrix. rewrite E1. cbn [pbind]. rewrite E2. cbn [pbind]. rewrite E3. cbn [pbind].
  rewrite E4. cbn [pbind]. rewrite (j_build_matrix_spec dec_value a c g t Lc Lg Lt).
  cbn [pbind]. eexists. unfold record_of. rewrite Esc. reflexivity.
Qed.

(* ---------- JASPAR 2016 ---------- *)

Section J16G.
  Variable A : alphabet.
  Hypothesis HA : wf_alphabet A.

  Definition col_of (l : gline) : N * list (list N) := (g_sym l, map snd (g_toks l)).

  Definition good_line (l : gline) : Prop :=
    (exists k, aindex A (g_sym l) = Some k) /\ wf_gline16 l = true.

  Lemma many1_loop_lines_g : forall r lines fuel tail cnt acc,
    Forall good_line lines -> stops A tail ->
    length (concat (map (jaspar16_line_g r) lines) ++ tail) < fuel ->
    exists n, many1_loop (j16_matrix_column A) fuel (concat (map (jaspar16_line_g r) lines) ++ tail) cnt acc
              = POk tail n (rev acc ++ parsed_cols A dec_value (map col_of lines)).
  Proof.
    intros r. induction lines as [|l lines IH]; intros fuel tail cnt acc G Hst Hf.
    - destruct fuel as [|fuel]; [lia|]. cbn [map concat app many1_loop].
      destruct (column_stops A tail Hst) as [k Ek]. rewrite Ek. eexists. cbn. rewrite app_nil_r. reflexivity.
    - destruct fuel as [|fuel]; [lia|]. inversion G as [|x ls [[k Ek] Wl] Gl]; subst.
      cbn [map concat]. rewrite <- app_assoc.
      destruct (j16_matrix_column_print_g A r l k (concat (map (jaspar16_line_g r) lines) ++ tail) Wl Ek) as [n1 E1].
      cbn [many1_loop]. rewrite E1.
      pose proof (pspec_ok _ _ _ _ _ _ (pspec_j16_matrix_column A (HA_lt A HA)) E1) as [pre [Epre [Lpre _]]].
      apply app_inv_tail in Epre. subst pre.
      assert (n1 =? 0 = false) as Z.
      { apply Nat.eqb_neq. rewrite <- Lpre. unfold jaspar16_line_g. cbn [app length]. lia. }
      rewrite Z.
      assert (length (concat (map (jaspar16_line_g r) lines) ++ tail) < fuel) as Hf2.
      { cbn [map concat] in Hf. rewrite <- app_assoc in Hf. rewrite app_length in Hf. rewrite Lpre in Hf. apply Nat.eqb_neq in Z. lia. }
      destruct (IH fuel tail (n1 + cnt) ((k, map dec_value (map snd (g_toks l))) :: acc) Gl Hst Hf2) as [n E].
      rewrite E. eexists. f_equal. cbn [rev]. rewrite <- app_assoc. cbn [app].
      unfold parsed_cols. cbn [map col_of fst snd]. rewrite Ek. reflexivity.
  Qed.

  Lemma many1_lines_g : forall r l lines tail,
    Forall good_line (l :: lines) -> stops A tail ->
    exists n, p_many1 (j16_matrix_column A) (concat (map (jaspar16_line_g r) (l :: lines)) ++ tail)
              = POk tail n (parsed_cols A dec_value (map col_of (l :: lines))).
  Proof.
    intros r l lines tail G Hst. inversion G as [|x ls [[k Ek] Wl] Gl]; subst.
    cbn [map concat]. rewrite <- app_assoc.
    destruct (j16_matrix_column_print_g A r l k (concat (map (jaspar16_line_g r) lines) ++ tail) Wl Ek) as [n1 E1].
    unfold p_many1. rewrite E1.
    destruct (many1_loop_lines_g r lines (S (length (concat (map (jaspar16_line_g r) lines) ++ tail))) tail n1
                [(k, map dec_value (map snd (g_toks l)))] Gl Hst (Nat.lt_succ_diag_r _)) as [n E].
    rewrite E. eexists. f_equal. cbn [rev app]. unfold parsed_cols. cbn [map col_of fst snd]. rewrite Ek. reflexivity.
  Qed.

  Theorem j16_record_print_g : forall r tail, wf_jaspar16_g A r = true -> stops A tail ->
    exists n, j16_record A (print_jaspar16_g r ++ tail) = POk tail n (record_of A 0%N dec_value (src_of_g r)).
  Proof.
    intros r tail H Hst. unfold wf_jaspar16_g in H. split_andb.
    match goal with Hd : distinct_cols A [] _ = true |- _ => rename Hd into Hdist end.
    match goal with Hw : same_width _ = true |- _ => rename Hw into Hsw end.
    match goal with Hf : forallb wf_gline16 _ = true |- _ => rename Hf into Hl16 end.
    destruct (g_lines r) as [|l0 lines] eqn:El; [discriminate|].
    assert (scols (src_of_g r) = map col_of (l0 :: lines)) as Esc.
    { rewrite scols_of_g, El. reflexivity. }
    assert (Forall good_line (l0 :: lines)) as G.
    { apply Forall_forall. intros l Hl. split.
      - apply (distinct_cols_index A (scols (src_of_g r)) [] Hdist (col_of l)).
        rewrite Esc. apply in_map. exact Hl.
      - rewrite forallb_forall in Hl16. exact (Hl16 l Hl). }
    unfold print_jaspar16_g. rewrite El. rewrite <- app_assoc.
    match goal with Hb : wf_hsep_g r = true, Hi : wf_id _ = true, Hd : wf_desc _ = true |- _ =>
      destruct (header_print_g r (concat (map (jaspar16_line_g r) (l0 :: lines)) ++ tail) Hb Hi Hd) as [n0 E0]
    end.
    destruct (many1_lines_g r l0 lines tail G Hst) as [n1 E1].
    unfold j16_record. rewrite E0. cbn [pbind].
    unfold p_map_res at 1. unfold j16_matrix. unfold p_map_res at 1. rewrite E1. cbn [pbind].
    rewrite <- Esc.
    rewrite (j16_build_matrix_spec A 0%N dec_value (scols (src_of_g r)) HA ltac:(rewrite Esc; discriminate) Hdist Hsw).
    cbn [pbind]. eexists. unfold record_of. reflexivity.
  Qed.
End J16G.

(* ---------- the characters of a printed record ---------- *)

Lemma okc_gseps_rest : forall bts, forallb wf_sep_tok bts = true -> forallb okc (gseps bts) = true.
Proof.
  intros bts H. unfold gseps. apply okc_concat_map. intros bt Hin.
  rewrite forallb_forall in H. destruct (wf_sep_tok_inv bt (H bt Hin)) as [Hb Ht].
  rewrite forallb_app, (okc_blank1 _ Hb), (okc_count _ Ht). reflexivity.
Qed.

Lemma okc_gtoks : forall toks, wf_gtoks toks = true -> forallb okc (gseps toks) = true.
Proof.
  intros toks H. destruct (wf_gtoks_inv toks H) as [b0 [t0 [rest [-> [Hb0 [Ht0 Hrest]]]]]].
  unfold gseps. cbn [map concat fst snd]. fold (gseps rest).
  rewrite !forallb_app, (okc_all_blank _ Hb0), (okc_count _ Ht0), (okc_gseps_rest _ Hrest). reflexivity.
Qed.

Lemma okc_jaspar_lines_g : forall r lines, forallb (fun l => wf_gtoks (g_toks l)) lines = true ->
  forallb okc (concat (map (jaspar_line_g r) lines)) = true.
Proof.
  intros r lines H. apply okc_concat_map. intros l Hin. unfold jaspar_line_g.
  rewrite forallb_forall in H. rewrite forallb_app, (okc_gtoks _ (H l Hin)), okc_eol. reflexivity.
Qed.

Lemma okc_jaspar16_lines_g : forall A r lines, wf_alphabet A ->
  (forall l, In l lines -> exists k, aindex A (g_sym l) = Some k) ->
  forallb wf_gline16 lines = true ->
  forallb okc (concat (map (jaspar16_line_g r) lines)) = true.
Proof.
  intros A r lines HA Hidx H. apply okc_concat_map. intros l Hin. unfold jaspar16_line_g.
  rewrite forallb_forall in H. specialize (H l Hin). unfold wf_gline16 in H. split_andb.
  destruct (Hidx l Hin) as [k Hk]. destruct (HA _ _ Hk) as [_ Hup].
  match goal with
  | Hg : blank1 (g_gap l) = true, Ht : all_blank (g_tail l) = true, Hp : all_blank (g_post l) = true,
    Hw : wf_gtoks (g_toks l) = true |- _ =>
      rewrite !forallb_app, (okc_gtoks _ Hw), okc_eol, (okc_blank1 _ Hg), (okc_all_blank _ Ht), (okc_all_blank _ Hp)
  end.
  cbn [forallb]. rewrite (okc_upper _ Hup). reflexivity.
Qed.

Lemma print_jaspar_g_shape : forall r, wf_jaspar_g r = true ->
  exists body, print_jaspar_g r = 62%N :: body /\ ~ In 62%N body /\ forallb is_scalar (print_jaspar_g r) = true.
Proof.
  intros r H. unfold wf_jaspar_g in H. split_andb.
  exists ((g_id r ++ match g_desc r with Some d => g_hsep r ++ d | None => g_hsep r end
           ++ eol (style_of_g r)) ++ concat (map (jaspar_line_g r) (g_lines r))).
  split; [reflexivity|].
  apply shape_from_okc. rewrite forallb_app, okc_header_g, okc_jaspar_lines_g; auto.
Qed.

Lemma print_jaspar16_g_shape : forall A r, wf_alphabet A -> wf_jaspar16_g A r = true ->
  exists body, print_jaspar16_g r = 62%N :: body /\ ~ In 62%N body /\ forallb is_scalar (print_jaspar16_g r) = true.
Proof.
  intros A r HA H. unfold wf_jaspar16_g in H. split_andb.
  exists ((g_id r ++ match g_desc r with Some d => g_hsep r ++ d | None => g_hsep r end
           ++ eol (style_of_g r)) ++ concat (map (jaspar16_line_g r) (g_lines r))).
  split; [reflexivity|].
  apply shape_from_okc. rewrite forallb_app, okc_header_g, (okc_jaspar16_lines_g A); auto.
  intros l Hl.
  match goal with Hd : distinct_cols A [] _ = true |- _ =>
    apply (distinct_cols_index A (scols (src_of_g r)) [] Hd (g_sym l, map snd (g_toks l))) end.
  rewrite scols_of_g. apply (in_map (fun l => (g_sym l, map snd (g_toks l)))). exact Hl.
Qed.

(* ---------- reader round trip ---------- *)

Lemma jaspar_g_roundtrip_lemma : forall caps prefix rs suffix s,
  rs <> [] -> forallb wf_jaspar_g rs = true -> wf_prefix prefix = true -> wf_suffix suffix = true ->
  wf_stream s -> stream_bytes s = print_file_g print_jaspar_g prefix rs suffix ->
  jaspar_read caps s = map (fun r => Ok (Some (record_of Dna 0%N dec_value (src_of_g r)))) rs ++ [Ok None].
Proof.
  intros caps prefix rs suffix s Hne Hwf Hpre Hsuf Hs Eb. unfold jaspar_read. rewrite j_read_abs.
  apply (a_read_roundtrip (j_record false) gsrc print_jaspar_g
           (fun r => record_of Dna 0%N dec_value (src_of_g r)) (fun r => wf_jaspar_g r = true)) with (prefix := prefix) (suffix := suffix);
    try assumption.
  - intros p G. exact (print_jaspar_g_shape p G).
  - intros r tail G _. exact (j_record_print_g r tail G).
  - apply forallb_Forall. exact Hwf.
  - unfold stream_bytes, print_file_g in Eb. rewrite Eb. unfold enc_all. rewrite utf8_encode_concat_map. reflexivity.
Qed.

Lemma jaspar16_g_roundtrip_lemma : forall A caps prefix rs suffix s,
  wf_alphabet A ->
  rs <> [] -> forallb (wf_jaspar16_g A) rs = true -> wf_prefix prefix = true -> wf_suffix suffix = true ->
  wf_stream s -> stream_bytes s = print_file_g print_jaspar16_g prefix rs suffix ->
  jaspar16_read A caps s = map (fun r => Ok (Some (record_of A 0%N dec_value (src_of_g r)))) rs ++ [Ok None].
Proof.
  intros A caps prefix rs suffix s HA Hne Hwf Hpre Hsuf Hs Eb. unfold jaspar16_read. rewrite j_read_abs.
  apply (a_read_roundtrip (j16_record A) gsrc print_jaspar16_g
           (fun r => record_of A 0%N dec_value (src_of_g r)) (fun r => wf_jaspar16_g A r = true)) with (prefix := prefix) (suffix := suffix);
    try assumption.
  - intros p G. exact (print_jaspar16_g_shape A p HA G).
  - intros r tail G Ht. apply (j16_record_print_g A HA r tail G).
    destruct Ht as [->|Ht]; [apply stops_62; exact HA|apply stops_suffix; assumption].
  - apply forallb_Forall. exact Hwf.
  - unfold stream_bytes, print_file_g in Eb. rewrite Eb. unfold enc_all. rewrite utf8_encode_concat_map. reflexivity.
Qed.

(* ---------- IoPrint's style (one separator per record) is a special case ---------- *)

Lemma map_snd_gtoks_of_style : forall y toks, map snd (gtoks_of_style y toks) = toks.
Proof.
  intros y [|t rest]; [reflexivity|]. cbn [gtoks_of_style map snd]. rewrite map_map. cbn [snd].
  rewrite map_id. reflexivity.
Qed.

Lemma scols_g_of_style : forall y r, scols (src_of_g (g_of_style (y, r))) = scols r.
Proof.
  intros y r. unfold src_of_g, g_of_style. cbn [scols g_lines]. rewrite map_map. cbn [g_sym g_toks].
  rewrite <- (map_id (scols r)) at 2. apply map_ext. intros [s toks]. cbn [fst snd].
  rewrite map_snd_gtoks_of_style. reflexivity.
Qed.

Lemma src_of_g_of_style : forall y r, src_of_g (g_of_style (y, r)) = r.
Proof.
  intros y r. pose proof (scols_g_of_style y r) as E. destruct r as [id desc cols].
  unfold src_of_g in *. cbn [sid sdesc scols g_of_style g_id g_desc] in *. rewrite E. reflexivity.
Qed.

Lemma print_header_of_style : forall y r, print_header y r = print_header_g (g_of_style (y, r)).
Proof.
  intros y r. unfold print_header, print_header_g, g_of_style, eol, style_of_g. cbn [g_id g_desc g_hsep g_crlf y_crlf].
  destruct (sdesc r); reflexivity.
Qed.

Lemma wf_hsep_of_style : forall y r, blank1 (y_hsep y) = true -> wf_hsep_g (g_of_style (y, r)) = true.
Proof.
  intros y r H. unfold wf_hsep_g, g_of_style. cbn [g_desc g_hsep]. destruct (sdesc r); [exact H|reflexivity].
Qed.

Lemma gseps_of_style : forall y toks, toks <> [] ->
  gseps (gtoks_of_style y toks) = y_lead y ++ join (y_sep y) toks.
Proof.
  intros y [|t rest] H; [contradiction|]. cbn [gtoks_of_style]. unfold gseps. cbn [map concat fst snd].
  rewrite join_cons, map_map. cbn [fst snd]. rewrite <- app_assoc. reflexivity.
Qed.

Lemma print_jaspar16_of_style : forall y r, (forall c, In c (scols r) -> snd c <> []) ->
  print_jaspar16 (y, r) = print_jaspar16_g (g_of_style (y, r)).
Proof.
  intros y r H. unfold print_jaspar16, print_jaspar16_g. rewrite print_header_of_style. f_equal.
  unfold g_of_style. cbn [g_lines]. rewrite map_map. f_equal. apply map_ext_in. intros c Hc.
  unfold jaspar16_line, jaspar16_line_g. cbn [g_sym g_gap g_toks g_tail g_post].
  rewrite (gseps_of_style y (snd c) (H c Hc)). rewrite <- !app_assoc. reflexivity.
Qed.

Lemma print_jaspar_of_style : forall y r, (forall c, In c (scols r) -> snd c <> []) ->
  print_jaspar (y, r) = print_jaspar_g (g_of_style (y, r)).
Proof.
  intros y r H. unfold print_jaspar, print_jaspar_g. rewrite print_header_of_style. f_equal.
  unfold g_of_style. cbn [g_lines]. rewrite map_map. f_equal. apply map_ext_in. intros c Hc.
  unfold jaspar_line, jaspar_line_g. cbn [g_toks].
  rewrite (gseps_of_style y (snd c) (H c Hc)). rewrite <- !app_assoc. reflexivity.
Qed.

Lemma wide_cols_nonempty : forall cols, same_width cols = true -> 1 <= width cols ->
  forall c, In c cols -> snd c <> [].
Proof.
  intros [|c0 cols] Hsw Hw c Hc; [destruct Hc|].
  pose proof (same_width_inv cols c0 Hsw c Hc) as L. destruct c0 as [s0 t0]. cbn [width snd] in *.
  intros E. rewrite E in L. cbn in L. lia.
Qed.

Lemma wf_gtoks_of_style : forall y toks, wf_style y = true -> toks <> [] -> forallb wf_count toks = true ->
  wf_gtoks (gtoks_of_style y toks) = true.
Proof.
  intros y [|t rest] Hy Hne Hw; [contradiction|].
  destruct (IoLineProofs.wf_style_inv y Hy) as [_ [Hlead [Hsep _]]].
  cbn [forallb] in Hw. apply andb_true_iff in Hw. destruct Hw as [Ht Hr].
  cbn [gtoks_of_style wf_gtoks]. rewrite Hlead, Ht. cbn [andb].
  rewrite forallb_forall. intros bt Hin. apply in_map_iff in Hin. destruct Hin as [x [<- Hx]].
  unfold wf_sep_tok. cbn [fst snd]. rewrite Hsep. rewrite forallb_forall in Hr. exact (Hr x Hx).
Qed.

Lemma wf_lines16_of_style : forall y cols, wf_style y = true ->
  (forall c, In c cols -> snd c <> []) -> forallb (fun c => forallb wf_count (snd c)) cols = true ->
  forallb wf_gline16 (map (fun c => {| g_sym := fst c; g_gap := y_sym y; g_toks := gtoks_of_style y (snd c);
                                       g_tail := y_tail y; g_post := y_post y |}) cols) = true.
Proof.
  intros y cols Hy Hne Hf.
  destruct (IoLineProofs.wf_style_inv y Hy) as [_ [_ [_ [Hsym [Htail Hpost]]]]].
  rewrite forallb_forall. intros l Hl. apply in_map_iff in Hl.
  destruct Hl as [c [<- Hc]]. unfold wf_gline16. cbn [g_gap g_tail g_post g_toks].
  rewrite Hsym, Htail, Hpost. cbn [andb]. apply wf_gtoks_of_style; [exact Hy|exact (Hne c Hc)|].
  rewrite forallb_forall in Hf. exact (Hf c Hc).
Qed.

Lemma wf_jaspar16_of_style : forall A p, wf_jaspar16 A p = true -> wf_jaspar16_g A (g_of_style p) = true.
Proof.
  intros A [y r] H. unfold wf_jaspar16 in H. split_andb. unfold wf_jaspar16_g.
  rewrite scols_g_of_style.
  match goal with Hy : wf_style y = true |- _ => destruct (IoLineProofs.wf_style_inv y Hy) as [Hh _]; rename Hy into Hstyle end.
  match goal with Hw : same_width _ = true, H1 : (1 <=? width _) = true |- _ =>
    pose proof (wide_cols_nonempty _ Hw (proj1 (Nat.leb_le _ _) H1)) as Hne end.
  assert (negb (is_nil (g_lines (g_of_style (y, r)))) = true) as E4.
  { destruct r as [id desc [|c cols]]; [discriminate|reflexivity]. }
  assert (forallb wf_gline16 (g_lines (g_of_style (y, r))) = true) as E8.
  { unfold g_of_style. cbn [g_lines]. apply wf_lines16_of_style; assumption. }
  change (g_id (g_of_style (y, r))) with (sid r). change (g_desc (g_of_style (y, r))) with (sdesc r).
  rewrite (wf_hsep_of_style y r Hh), E4, E8.
  repeat match goal with Hx : ?b = true |- context [?b] => rewrite Hx end. reflexivity.
Qed.

Lemma wf_jaspar_of_style : forall p, wf_jaspar p = true -> wf_jaspar_g (g_of_style p) = true.
Proof.
  intros [y r] H. unfold wf_jaspar in H. split_andb. unfold wf_jaspar_g.
  rewrite scols_g_of_style.
  match goal with Hy : wf_style y = true |- _ => destruct (IoLineProofs.wf_style_inv y Hy) as [Hh _]; rename Hy into Hstyle end.
  match goal with Hw : same_width _ = true, H1 : (1 <=? width _) = true |- _ =>
    pose proof (wide_cols_nonempty _ Hw (proj1 (Nat.leb_le _ _) H1)) as Hne end.
  assert (list_eqb (map g_sym (g_lines (g_of_style (y, r)))) (map fst gen_jaspar_symbols) = true) as E4.
  { unfold g_of_style. cbn [g_lines]. rewrite map_map. cbn [g_sym]. assumption. }
  assert (forallb (fun l => wf_gtoks (g_toks l)) (g_lines (g_of_style (y, r))) = true) as E8.
  { unfold g_of_style. cbn [g_lines]. rewrite forallb_forall. intros l Hl. apply in_map_iff in Hl.
    destruct Hl as [c [<- Hc]]. cbn [g_toks]. apply wf_gtoks_of_style; [exact Hstyle|exact (Hne c Hc)|].
    match goal with Hf : forallb (fun c => forallb wf_count (snd c)) _ = true |- _ =>
      rewrite forallb_forall in Hf; exact (Hf c Hc) end. }
  change (g_id (g_of_style (y, r))) with (sid r). change (g_desc (g_of_style (y, r))) with (sdesc r).
  rewrite (wf_hsep_of_style y r Hh), E4, E8.
  repeat match goal with Hx : ?b = true |- context [?b] => rewrite Hx end. reflexivity.
Qed.
