(* The nom 7.1.3 combinators used by jaspar/parse.rs, jaspar16/parse.rs and
   uniprobe/parse.rs, on &str inputs modelled as lists of scalar values.
   All of them are the `complete` variants (no Incomplete result can arise in
   these three grammars).  Executable definitions only.

   Result of a parser (nom::IResult):
     POk rest n a Ok((rest, a)); n = number of scalar values consumed (input.len - rest.len
                  counted in chars; proved in IoNomProofs.psound).  nom compares
                  input_len() before/after in its loop guards (O(1) on slices); the model
                  tests n = 0 instead of recomputing list lengths.
     PErr k       Err(nom::Err::Error(..))     recoverable (alt / opt / many stop on it)
     PFail k      Err(nom::Err::Failure(..))   produced by cut(), propagated by every combinator
     PPanic s     the Rust code would panic (index out of bounds, ...)
     PFuel        a fuelled loop of the model ran out of fuel (proved impossible)  *)
From Coq Require Import List NArith Bool Arith.
From LMBase Require Import Res.
From LMIo Require Import IoBase.
Import ListNotations.

Inductive pres (A : Type) : Type :=
| POk (rest : list N) (n : nat) (a : A)
| PErr (kind : nat)
| PFail (kind : nat)
| PPanic (site : nat)
| PFuel.
Arguments POk {A}. Arguments PErr {A}. Arguments PFail {A}. Arguments PPanic {A}. Arguments PFuel {A}.

Definition parser (A : Type) := list N -> pres A.

(* nom::error::ErrorKind values that can occur (documentation only: the check
   compares the kind of lightmotif_io::Error, not the nom kind) *)
Definition KTag := 1. Definition KMapRes := 2. Definition KSeparatedList := 3.
Definition KMany1 := 4. Definition KDigit := 5. Definition KSpace := 6.
Definition KTakeUntil := 7. Definition KCrLf := 8. Definition KChar := 9.
Definition KEof := 10. Definition KFloat := 11. Definition KAlt := 12.

Definition pbind {A B} (r : pres A) (k : list N -> A -> pres B) : pres B :=
  match r with
  | POk rest n a =>
      match k rest a with
      | POk rest' n' b => POk rest' (n + n') b
      | x => x
      end
  | PErr e => PErr e
  | PFail e => PFail e
  | PPanic s => PPanic s
  | PFuel => PFuel
  end.

(* ---------- elementary parsers ---------- *)

(* is [t] a prefix of [i]? returns the rest *)
Fixpoint strip_prefix (t i : list N) : option (list N) :=
  match t, i with
  | [], _ => Some i
  | x :: t', y :: i' => if N.eqb x y then strip_prefix t' i' else None
  | _ :: _, [] => None
  end.

(* bytes::complete::tag *)
Definition p_tag (t : list N) : parser (list N) := fun i =>
  match strip_prefix t i with
  | Some r => POk r (length t) t
  | None => PErr KTag
  end.

(* character::complete::char *)
Definition p_char (c : N) : parser N := fun i =>
  match i with
  | x :: r => if N.eqb x c then POk r 1 c else PErr KChar
  | [] => PErr KChar
  end.

(* character::complete::anychar *)
Definition p_anychar : parser N := fun i =>
  match i with
  | x :: r => POk r 1 x
  | [] => PErr KEof
  end.

(* bytes::complete::take_while (split_at_position_complete): never fails *)
Definition p_take_while (p : N -> bool) : parser (list N) := fun i =>
  let (a, r) := span p i in POk r (length a) a.

(* split_at_position1_complete: at least one item *)
Definition p_take_while1 (p : N -> bool) (kind : nat) : parser (list N) := fun i =>
  let (a, r) := span p i in
  match a with
  | [] => PErr kind
  | _ => POk r (length a) a
  end.

Definition p_space0 : parser (list N) := p_take_while is_blank.
Definition p_space1 : parser (list N) := p_take_while1 is_blank KSpace.
Definition p_digit1 : parser (list N) := p_take_while1 is_digit KDigit.

(* bytes::complete::take_until("\n"): up to (excluding) the first LF; an error
   when there is none *)
Definition p_take_until_nl : parser (list N) := fun i =>
  let (a, r) := span (fun c => negb (N.eqb c 10)) i in
  match r with
  | [] => PErr KTakeUntil
  | _ => POk r (length a) a
  end.

(* character::complete::line_ending: "\n" or "\r\n" *)
Definition p_line_ending : parser (list N) := fun i =>
  match i with
  | 10%N :: r => POk r 1 [10%N]
  | 13%N :: 10%N :: r => POk r 2 [13%N; 10%N]
  | _ => PErr KCrLf
  end.

(* combinator::eof: succeeds on the empty input only *)
Definition p_eof : parser (list N) := fun i =>
  match i with
  | [] => POk [] 0 []
  | _ => PErr KEof
  end.

(* character::complete::not_line_ending: up to the first CR or LF; a CR that is
   not followed by LF is an error; no line end at all returns everything *)
Definition p_not_line_ending : parser (list N) := fun i =>
  let (a, r) := span (fun c => negb (N.eqb c 13 || N.eqb c 10)) i in
  match r with
  | 13%N :: 10%N :: _ => POk r (length a) a
  | 13%N :: _ => PErr KTag
  | _ => POk r (length a) a
  end.

(* character::complete::u32: ASCII digits, checked_mul/checked_add, overflow is
   Error(Digit); no sign; value returned as N (< 2^32) *)
Definition u32_max : N := 4294967295.

Fixpoint u32_loop (acc : N) (cnt : nat) (i : list N) : pres N :=
  match i with
  | [] => match cnt with 0 => PErr KDigit | _ => POk [] cnt acc end
  | c :: r =>
      if is_digit c then
        let v := (acc * 10 + (c - 48))%N in
        if N.leb v u32_max then u32_loop v (S cnt) r else PErr KDigit
      else match cnt with 0 => PErr KDigit | _ => POk i cnt acc end
  end.

Definition p_u32 : parser N := u32_loop 0 0.

(* ---------- combinators ---------- *)

Definition p_map {A B} (f : A -> B) (p : parser A) : parser B := fun i =>
  pbind (p i) (fun r a => POk r 0 (f a)).

(* combinator::map_res: an Err of the function is Error(MapRes) at the original input *)
Definition p_map_res {A B} (p : parser A) (f : A -> res B) : parser B := fun i =>
  pbind (p i) (fun r a =>
    match f a with
    | Ok b => POk r 0 b
    | Err _ => PErr KMapRes
    | Panic s => PPanic s
    | OutOfFuel => PFuel
    end).

(* combinator::opt: Error becomes None, everything else is passed on *)
Definition p_opt {A} (p : parser A) : parser (option A) := fun i =>
  match p i with
  | POk r n a => POk r n (Some a)
  | PErr _ => POk i 0 None
  | PFail e => PFail e
  | PPanic s => PPanic s
  | PFuel => PFuel
  end.

(* combinator::cut: Error becomes Failure *)
Definition p_cut {A} (p : parser A) : parser A := fun i =>
  match p i with
  | PErr e => PFail e
  | x => x
  end.

(* branch::alt on two parsers: the second is tried only after an Error *)
Definition p_alt {A} (p q : parser A) : parser A := fun i =>
  match p i with
  | PErr _ => q i
  | x => x
  end.

Definition p_pair {A B} (p : parser A) (q : parser B) : parser (A * B) := fun i =>
  pbind (p i) (fun r a => pbind (q r) (fun r' b => POk r' 0 (a, b))).

Definition p_preceded {A B} (p : parser A) (q : parser B) : parser B := fun i =>
  pbind (p i) (fun r _ => q r).

Definition p_terminated {A B} (p : parser A) (q : parser B) : parser A := fun i =>
  pbind (p i) (fun r a => pbind (q r) (fun r' _ => POk r' 0 a)).

Definition p_delimited {A B C} (p : parser A) (q : parser B) (s : parser C) : parser B := fun i =>
  pbind (p i) (fun r _ => pbind (q r) (fun r' b => pbind (s r') (fun r'' _ => POk r'' 0 b))).

Definition p_separated_pair {A B C} (p : parser A) (sep : parser B) (q : parser C) : parser (A * C) :=
  fun i =>
  pbind (p i) (fun r a => pbind (sep r) (fun r' _ => pbind (q r') (fun r'' c => POk r'' 0 (a, c)))).

(* combinator::recognize: the consumed input slice *)
Definition p_recognize {A} (p : parser A) : parser (list N) := fun i =>
  match p i with
  | POk r n _ => POk r n (firstn n i)
  | PErr e => PErr e
  | PFail e => PFail e
  | PPanic s => PPanic s
  | PFuel => PFuel
  end.

(* multi::separated_list0(sep, f).  The loop runs on fuel (one unit per element);
   nom's own infinite-loop guard (a separator that consumes nothing is an Error)
   makes S (length input) units always enough. *)
Fixpoint sep_list0_loop {A B} (sep : parser B) (f : parser A) (fuel : nat)
         (i : list N) (cnt : nat) (acc : list A) : pres (list A) :=
  match fuel with
  | 0 => PFuel
  | S fuel' =>
      match sep i with
      | PErr _ => POk i cnt (rev acc)
      | PFail e => PFail e
      | PPanic s => PPanic s
      | PFuel => PFuel
      | POk i1 n1 _ =>
          if n1 =? 0 then PErr KSeparatedList      (* i1.input_len() == len *)
          else
            match f i1 with
            | PErr _ => POk i cnt (rev acc)
            | PFail e => PFail e
            | PPanic s => PPanic s
            | PFuel => PFuel
            | POk i2 n2 o => sep_list0_loop sep f fuel' i2 (n1 + n2 + cnt) (o :: acc)
            end
      end
  end.

Definition p_separated_list0 {A B} (sep : parser B) (f : parser A) : parser (list A) := fun i =>
  match f i with
  | PErr _ => POk i 0 []
  | PFail e => PFail e
  | PPanic s => PPanic s
  | PFuel => PFuel
  | POk i1 n o => sep_list0_loop sep f (S (length i1)) i1 n [o]
  end.

(* multi::many1(f) *)
Fixpoint many1_loop {A} (f : parser A) (fuel : nat) (i : list N) (cnt : nat) (acc : list A)
  : pres (list A) :=
  match fuel with
  | 0 => PFuel
  | S fuel' =>
      match f i with
      | PErr _ => POk i cnt (rev acc)
      | PFail e => PFail e
      | PPanic s => PPanic s
      | PFuel => PFuel
      | POk i1 n1 o =>
          if n1 =? 0 then PErr KMany1              (* i1.input_len() == len *)
          else many1_loop f fuel' i1 (n1 + cnt) (o :: acc)
      end
  end.

Definition p_many1 {A} (f : parser A) : parser (list A) := fun i =>
  match f i with
  | PErr _ => PErr KMany1
  | PFail e => PFail e
  | PPanic s => PPanic s
  | PFuel => PFuel
  | POk i1 n o => many1_loop f (S (length i1)) i1 n [o]
  end.

(* ---------- number::complete::float ---------- *)

(* ASCII lower case of a scalar value (str::to_lowercase on each char agrees with
   it on the letters n, a, i, f, t, y: checked over all scalar values by the harness
   self test `io selftest`) *)
Definition ascii_lower (c : N) : N := if in_range 65 90 c then (c + 32)%N else c.

Fixpoint strip_prefix_nocase (t i : list N) : option (list N) :=
  match t, i with
  | [], _ => Some i
  | x :: t', y :: i' => if N.eqb x (ascii_lower y) then strip_prefix_nocase t' i' else None
  | _ :: _, [] => None
  end.

(* bytes::complete::tag_no_case with a lower-case ASCII tag; returns the matched input *)
Definition p_tag_no_case (t : list N) : parser (list N) := fun i =>
  match strip_prefix_nocase t i with
  | Some r => POk r (length t) (firstn (length t) i)
  | None => PErr KTag
  end.

Definition p_sign : parser (option N) := p_opt (p_alt (p_char 43) (p_char 45)).

(* recognize_float: [+-]? (digit1 ('.' digit1?)? | '.' digit1) ([eE] [+-]? cut(digit1))? *)
Definition p_float_mantissa : parser unit :=
  p_alt
    (p_map (fun _ => tt) (p_pair p_digit1 (p_opt (p_pair (p_char 46) (p_opt p_digit1)))))
    (p_map (fun _ => tt) (p_pair (p_char 46) p_digit1)).

Definition p_float_exponent : parser unit :=
  p_map (fun _ => tt)
    (p_opt (p_pair (p_alt (p_char 101) (p_char 69)) (p_pair p_sign (p_cut p_digit1)))).

Definition p_recognize_float : parser (list N) :=
  p_recognize (p_pair p_sign (p_pair p_float_mantissa p_float_exponent)).

(* recognize_float_or_exceptions: alt((recognize_float, "nan", "inf", "infinity"))
   (case-insensitive; "inf" is tried before "infinity" and therefore always wins) *)
Definition p_recognize_float_or_exceptions : parser (list N) := fun i =>
  match p_recognize_float i with
  | PErr _ =>
      match p_tag_no_case [110; 97; 110]%N i with
      | PErr _ =>
          match p_tag_no_case [105; 110; 102]%N i with
          | PErr _ =>
              match p_tag_no_case [105; 110; 102; 105; 110; 105; 116; 121]%N i with
              | PErr _ => PErr KFloat
              | x => x
              end
          | x => x
          end
      | x => x
      end
  | PFail _ => PFail KFloat
  | x => x
  end.

Section Float.
  (* Rust's str::parse::<f32> on a recognised token; not modelled: supplied by the
     harness (trusted base), see notes/io.md *)
  Context {F : Type}.
  Variable parse_f32 : list N -> option F.

  Definition p_float : parser F := fun i =>
    pbind (p_recognize_float_or_exceptions i) (fun r tok =>
      match parse_f32 tok with
      | Some f => POk r 0 f
      | None => PErr KFloat
      end).
End Float.
