(* Specifications (pspec) of the record grammars of IoJaspar.v / IoUniprobe.v:
   no panic site is reachable, no fuel runs out, a successful record parse consumed a
   text that ends with a line feed (so it can never swallow the '>' that ends the slice
   handed over by the JASPAR readers). *)
From Coq Require Import List NArith ZArith Bool Arith Lia.
From LMBase Require Import Res ListX IEEE.
From LMIo Require Import GenIoAbc IoBase IoNom IoJaspar IoUniprobe IoNomProofs.
Import ListNotations.

Definition lf_spec {A} : list N -> A -> Prop := fun pre _ => ends_lf pre.

Lemma pspec_line_ending_after : forall {A} (Q : list N -> A -> Prop) p1 (a : A),
  (forall p2, ends_lf p2 -> Q (p1 ++ p2) a) ->
  pspec (fun p2 (_ : list N) => Q (p1 ++ p2) a) p_line_ending.
Proof.
  intros A Q p1 a H. eapply pspec_weaken; [|exact pspec_line_ending]. intros pre x e. apply H. exact e.
Qed.

(* ---------- header ---------- *)

Lemma pgood_header : pgood p_header.
Proof.
  unfold p_header, pgood.
  eapply (pspec_bind (fun _ _ => True)).
  { apply pgood_preceded; [eapply pspec_good; apply pspec_tag|eapply pspec_good; apply pspec_take_while]. }
  intros p1 id _. eapply (pspec_bind (fun _ _ => True)); [eapply pspec_good; exact pspec_take_until_nl|].
  intros p2 acc _. eapply (pspec_bind (fun _ _ => True)); [eapply pspec_good; exact pspec_line_ending|].
  intros p3 le _ r. cbn beta. destruct (is_nil (trim acc)); exists []; auto.
Qed.

(* ---------- JASPAR raw ---------- *)

Lemma pgood_space1 : pgood p_space1.
Proof. eapply pspec_good. apply pspec_take_while1. Qed.

Lemma pgood_space0 : pgood p_space0.
Proof. eapply pspec_good. apply pspec_take_while. Qed.

Lemma pgood_j_counts : pgood j_counts.
Proof.
  unfold j_counts. apply pgood_preceded; [apply pgood_opt; exact pgood_space1|].
  apply pspec_separated_list0; [exact pgood_space1|exact pspec_u32].
Qed.

Lemma pspec_j_matrix_column : pspec lf_spec j_matrix_column.
Proof.
  unfold j_matrix_column. eapply (pspec_terminated (fun _ _ => True)); [exact pgood_j_counts|].
  intros p1 a _. apply (pspec_line_ending_after lf_spec). intros p2 e. apply ends_lf_app. exact e.
Qed.

Lemma j_build_matrix_safe : forall a c g t,
  match j_build_matrix a c g t with Panic _ | OutOfFuel => False | _ => True end.
Proof.
  (* every as_index of the generated symbol array of parse::matrix is below the generated K *)
  intros a c g t. unfold j_build_matrix.
  assert (H : forallb (fun k => k <? aK Dna) (map snd GenIoAbc.gen_jaspar_symbols) = true)
    by (vm_compute; reflexivity).
  revert H. generalize (new_matrix 0%N (aK Dna) (length a)).
  generalize (map snd GenIoAbc.gen_jaspar_symbols). generalize [a; c; g; t]. generalize (aK Dna).
  intros K cs. induction cs as [|x cs IH]; intros ks m H; [exact I|].
  destruct ks as [|k ks]; [exact I|]. cbn [combine j_build_loop]. cbn [forallb] in H.
  apply andb_prop in H. destruct H as [H1 H2].
  destruct (length x =? length m); [|exact I]. rewrite H1. apply IH. exact H2.
Qed.

Lemma pspec_j_matrix : pspec lf_spec (j_matrix false).
Proof.
  unfold j_matrix. eapply (pspec_bind (fun _ _ => True)); [eapply pspec_good; exact pspec_j_matrix_column|].
  intros p1 a _. eapply (pspec_bind (fun _ _ => True)); [eapply pspec_good; exact pspec_j_matrix_column|].
  intros p2 c _. eapply (pspec_bind (fun _ _ => True)); [eapply pspec_good; exact pspec_j_matrix_column|].
  intros p3 g _. eapply (pspec_bind lf_spec); [exact pspec_j_matrix_column|].
  intros p4 t e4 r. cbn beta. pose proof (j_build_matrix_safe a c g t) as S.
  destruct (j_build_matrix a c g t); try contradiction; auto.
  exists []. repeat split; auto. unfold lf_spec. rewrite app_nil_r.
  apply ends_lf_app. apply ends_lf_app. apply ends_lf_app. exact e4.
Qed.

Lemma pspec_j_record : pspec lf_spec (j_record false).
Proof.
  unfold j_record. eapply (pspec_bind (fun _ _ => True)); [exact pgood_header|].
  intros p1 h _. eapply (pspec_bind lf_spec).
  { eapply pspec_map_res; [exact pspec_j_matrix|]. intros pre a e. exact e. }
  intros p2 m e2. apply pspec_ret. unfold lf_spec in *. rewrite app_nil_r. apply ends_lf_app. exact e2.
Qed.

(* ---------- JASPAR 2016 ---------- *)

Section J16.
  Variable A : alphabet.
  Hypothesis HA : forall c k, aindex A c = Some k -> k < aK A.

  Lemma pspec_symbol : pspec (fun _ k => k < aK A) (p_symbol A).
  Proof.
    unfold p_symbol. eapply (pspec_bind (fun pre a => pre = [a])); [exact pspec_anychar|].
    intros p1 c _ r. cbn beta. destruct (aindex A c) as [k|] eqn:E; auto.
    exists []. repeat split; auto. exact (HA c k E).
  Qed.

  Lemma pgood_j16_counts : pgood j16_counts.
  Proof.
    unfold j16_counts. eapply pspec_good. eapply (pspec_delimited (fun _ _ => True)).
    - eapply pspec_good. eapply (pspec_delimited (fun _ _ => True)); [exact pgood_space0| |exact pgood_space0].
      eapply pspec_good. apply pspec_tag.
    - apply pspec_separated_list0; [exact pgood_space1|exact pspec_u32].
    - eapply pspec_good. eapply (pspec_delimited (fun _ _ => True)); [exact pgood_space0| |exact pgood_space0].
      eapply pspec_good. apply pspec_tag.
  Qed.

  Definition col_spec {C} : list N -> nat * list C -> Prop := fun pre kc => ends_lf pre /\ fst kc < aK A.

  Lemma pspec_j16_matrix_column : pspec col_spec (j16_matrix_column A).
  Proof.
    unfold j16_matrix_column.
    eapply pspec_terminated.
    { eapply pspec_separated_pair; [exact pspec_symbol|exact pgood_space1|exact pgood_j16_counts]. }
    intros p1 a [[p0 q] _]. apply (pspec_line_ending_after col_spec). intros p2 e.
    split; [apply ends_lf_app; exact e|exact q].
  Qed.

  Lemma j16_build_loop_safe : forall {C} (cols : list (nat * list C)) done m,
    length done = aK A -> Forall (fun kc => fst kc < aK A) cols ->
    match j16_build_loop A cols done m with Panic _ | OutOfFuel => False | _ => True end.
  Proof.
    intros C. induction cols as [|[idx counts] rest IH]; intros done m Hd F; cbn [j16_build_loop]; [exact I|].
    inversion F as [|x l Hx Hl]; subst. cbn [fst] in Hx.
    assert (idx <? length done = true) as L1 by (apply Nat.ltb_lt; lia). rewrite L1.
    destruct (nth idx done false); [exact I|].
    destruct (length counts =? length m); [|exact I].
    assert (idx <? aK A = true) as L2 by (apply Nat.ltb_lt; lia). rewrite L2.
    apply IH; [rewrite upd_length; exact Hd|exact Hl].
  Qed.

  Lemma j16_build_matrix_safe : forall {C} (zero : C) cols,
    cols <> [] -> Forall (fun kc => fst kc < aK A) cols ->
    match j16_build_matrix A zero cols with Panic _ | OutOfFuel => False | _ => True end.
  Proof.
    intros C zero cols Hne F. unfold j16_build_matrix. destruct cols as [|[k0 c0] rest]; [contradiction|].
    apply j16_build_loop_safe; [apply repeat_length|exact F].
  Qed.

  Lemma pspec_j16_matrix : pspec lf_spec (j16_matrix A).
  Proof.
    unfold j16_matrix. eapply pspec_map_res.
    - apply (pspec_many1 ends_lf (fun kc : nat * list N => fst kc < aK A)); [exact ends_lf_app|].
      exact pspec_j16_matrix_column.
    - intros pre l [e [F Hne]]. pose proof (j16_build_matrix_safe 0%N l Hne F) as S.
      destruct (j16_build_matrix A 0%N l); try contradiction; auto.
  Qed.

  Lemma pspec_j16_record : pspec lf_spec (j16_record A).
  Proof.
    unfold j16_record. eapply (pspec_bind (fun _ _ => True)); [exact pgood_header|].
    intros p1 h _. eapply (pspec_bind lf_spec).
    { eapply pspec_map_res; [exact pspec_j16_matrix|]. intros pre a e. exact e. }
    intros p2 m e2. apply pspec_ret. unfold lf_spec in *. rewrite app_nil_r. apply ends_lf_app. exact e2.
  Qed.

  (* ---------- UniPROBE ---------- *)
  Variable parse_f32 : list N -> option F32.t.

  Lemma pgood_u_col_end_of : forall b, pgood (u_col_end_of b).
  Proof.
    intros [|]; unfold u_col_end_of; [apply pspec_alt; [eapply pspec_good; exact pspec_line_ending|exact pgood_eof]
                                     |eapply pspec_good; exact pspec_line_ending].
  Qed.

  Lemma pgood_u_frequencies : pspec (fun _ l => l <> []) (u_frequencies parse_f32).
  Proof.
    unfold u_frequencies. eapply pspec_weaken.
    2: { apply (pspec_many1 (fun _ => True) (fun _ : F32.t => True)); [auto|].
         eapply pspec_weaken; [|apply pgood_preceded; [apply pgood_char|apply pgood_float]]. auto. }
    intros pre l [_ [_ H]]. exact H.
  Qed.

  Lemma pspec_u_matrix_column : pspec (fun _ kc => fst kc < aK A) (u_matrix_column A parse_f32).
  Proof.
    unfold u_matrix_column. eapply pspec_terminated.
    { eapply pspec_separated_pair; [exact pspec_symbol|apply pgood_char|exact pgood_u_frequencies]. }
    intros p1 a [[p0 q] _]. eapply pspec_weaken; [|exact (pgood_u_col_end_of GenIoAbc.gen_uniprobe_col_eof)]. intros pre x _. exact q.
  Qed.

  Lemma pgood_u_id : pgood u_id.
  Proof.
    unfold u_id. apply pgood_map. apply pgood_terminated; eapply pspec_good;
      [exact pspec_not_line_ending|exact pspec_line_ending].
  Qed.

  Lemma u_build_matrix_safe : forall cols, Forall (fun kc : nat * list F32.t => fst kc < aK A) cols ->
    match u_build_matrix A false cols with Panic _ | OutOfFuel => False | _ => True end.
  Proof.
    intros cols F. unfold u_build_matrix. destruct cols as [|c rest]; [exact I|].
    apply j16_build_matrix_safe; [discriminate|exact F].
  Qed.
End J16.
