(* Printer then parser, record level: the JASPAR / JASPAR 2016 record parsers applied to a
   printed well-formed record followed by [tail] return the specified record
   (IoPrint.record_of: every cell = the token of its position in the line of its symbol,
   other columns 0) and leave [tail]. *)
From Coq Require Import List NArith Bool Arith Lia.
From LMBase Require Import Res ListX.
From LMIo Require Import IoBase IoNom IoJaspar IoPrint IoBaseProofs IoCheckProofs IoNomProofs IoParseProofs
  IoTokProofs IoMatrixProofs IoHeaderProofs IoLineProofs.
Import ListNotations.

Lemma same_width_inv : forall cols c0, same_width (c0 :: cols) = true ->
  forall c, In c (c0 :: cols) -> length (snd c) = length (snd c0).
Proof.
  intros cols [s0 t0] H c Hc. unfold same_width in H. rewrite forallb_forall in H.
  specialize (H c Hc). apply Nat.eqb_eq in H. exact H.
Qed.

(* ---------- JASPAR raw ---------- *)

Theorem j_record_print : forall y r tail, wf_jaspar (y, r) = true ->
  exists n, j_record false (print_jaspar (y, r) ++ tail) = POk tail n (record_of Dna 0%N dec_value r).
Proof.
  intros y [id desc cols] tail H. unfold wf_jaspar in H. cbn [sid sdesc scols] in H. split_andb.
  match goal with Hl : list_eqb _ _ = true |- _ => apply list_eqb_sound in Hl; rename Hl into Hsym end.
  destruct cols as [|[sa a] [|[sc c] [|[sg g] [|[st t] [|x cols]]]]]; try discriminate Hsym.
  cbn [map fst] in Hsym. injection Hsym as -> -> -> ->.
  match goal with Hw : same_width _ = true |- _ => pose proof (same_width_inv _ _ Hw) as W end.
  assert (length c = length a) as Lc by (apply (W (67%N, c)); cbn; auto).
  assert (length g = length a) as Lg by (apply (W (71%N, g)); cbn; auto).
  assert (length t = length a) as Lt by (apply (W (84%N, t)); cbn; auto).
  match goal with Hw : (1 <=? width _) = true |- _ => apply Nat.leb_le in Hw; cbn [width] in Hw; rename Hw into W1 end.
  assert (a <> [] /\ c <> [] /\ g <> [] /\ t <> []) as [Na [Nc [Ng Nt]]].
  { repeat split; intros ->; cbn in *; lia. }
  match goal with Hf : forallb _ _ = true |- _ => cbn [forallb snd] in Hf; rename Hf into Hcnt end.
  split_andb.
  unfold print_jaspar. cbn [scols map concat]. rewrite app_nil_r.
  repeat rewrite <- app_assoc.
  match goal with Hs : wf_style y = true, Hi : wf_id _ = true, Hd : wf_desc _ = true |- _ =>
    destruct (header_print y {| sid := id; sdesc := desc; scols := [(65%N, a); (67%N, c); (71%N, g); (84%N, t)] |}
                (jaspar_line y (65%N, a) ++ jaspar_line y (67%N, c) ++ jaspar_line y (71%N, g)
                 ++ jaspar_line y (84%N, t) ++ tail) Hs Hi Hd) as [n0 E0];
    destruct (j_matrix_column_print y (65%N, a)
                (jaspar_line y (67%N, c) ++ jaspar_line y (71%N, g) ++ jaspar_line y (84%N, t) ++ tail)
                Hs Na ltac:(assumption)) as [n1 E1];
    destruct (j_matrix_column_print y (67%N, c) (jaspar_line y (71%N, g) ++ jaspar_line y (84%N, t) ++ tail)
                Hs Nc ltac:(assumption)) as [n2 E2];
    destruct (j_matrix_column_print y (71%N, g) (jaspar_line y (84%N, t) ++ tail)
                Hs Ng ltac:(assumption)) as [n3 E3];
    destruct (j_matrix_column_print y (84%N, t) tail Hs Nt ltac:(assumption)) as [n4 E4]
  end.
  cbn [sid sdesc scols snd] in *. repeat rewrite <- app_assoc in E1, E2, E3.
  unfold j_record. unfold print_header in *. cbn [sid sdesc] in *.
  repeat rewrite <- app_assoc in E0. repeat rewrite <- app_assoc.
  cbn [app] in *. rewrite E0. cbn [pbind].
  unfold p_map_res, j_matrix. rewrite E1. cbn [pbind]. rewrite E2. cbn [pbind]. rewrite E3. cbn [pbind].
  rewrite E4. cbn [pbind]. rewrite (j_build_matrix_spec dec_value a c g t Lc Lg Lt).
  cbn [pbind]. eexists. unfold record_of. cbn [sid sdesc scols fst snd]. reflexivity.
Qed.

(* ---------- JASPAR 2016 ---------- *)

Section J16.
  Variable A : alphabet.
  Hypothesis HA : wf_alphabet A.

  Lemma HA_lt : forall c k, aindex A c = Some k -> k < aK A.
  Proof. intros c k H. exact (proj1 (HA c k H)). Qed.

  (* what stops many1(matrix_column): the end of the text or a character that is not a symbol *)
  Definition stops (tail : list N) : Prop :=
    match tail with [] => True | c :: _ => aindex A c = None end.

  Lemma column_stops : forall tail, stops tail -> exists k, j16_matrix_column A tail = PErr k.
  Proof.
    intros [|c r] H; unfold j16_matrix_column, p_terminated, p_separated_pair, p_symbol; cbn [pbind p_anychar].
    - eexists. reflexivity.
    - cbn in H. rewrite H. eexists. reflexivity.
  Qed.

  Definition good_col (c : N * list (list N)) : Prop :=
    (exists k, aindex A (fst c) = Some k) /\ snd c <> [] /\ forallb wf_count (snd c) = true.

  Lemma many1_loop_lines : forall y cols fuel tail cnt acc,
    wf_style y = true -> Forall good_col cols -> stops tail ->
    length (concat (map (jaspar16_line y) cols) ++ tail) < fuel ->
    exists n, many1_loop (j16_matrix_column A) fuel (concat (map (jaspar16_line y) cols) ++ tail) cnt acc
              = POk tail n (rev acc ++ parsed_cols A dec_value cols).
  Proof.
    intros y. induction cols as [|c cols IH]; intros fuel tail cnt acc Hy G Hst Hf.
    - destruct fuel as [|fuel]; [lia|]. cbn [map concat app many1_loop].
      destruct (column_stops tail Hst) as [k Ek]. rewrite Ek. eexists. cbn. rewrite app_nil_r. reflexivity.
    - destruct fuel as [|fuel]; [lia|]. inversion G as [|x l [[k Ek] [Nc Wc]] Gl]; subst.
      cbn [map concat]. rewrite <- app_assoc.
      destruct (j16_matrix_column_print A y c k (concat (map (jaspar16_line y) cols) ++ tail) Hy Ek Nc Wc) as [n1 E1].
      cbn [many1_loop]. rewrite E1.
      (* the count is the length of the line: not zero *)
      pose proof (pspec_ok _ _ _ _ _ _ (pspec_j16_matrix_column A HA_lt) E1) as [pre [Epre [Lpre _]]].
      apply app_inv_tail in Epre. subst pre.
      assert (n1 =? 0 = false) as Z.
      { apply Nat.eqb_neq. rewrite <- Lpre. unfold jaspar16_line. cbn [app length]. lia. }
      rewrite Z.
      assert (length (concat (map (jaspar16_line y) cols) ++ tail) < fuel) as Hf2.
      { cbn [map concat] in Hf. rewrite <- app_assoc in Hf. rewrite app_length in Hf. rewrite Lpre in Hf. apply Nat.eqb_neq in Z. lia. }
      destruct (IH fuel tail (n1 + cnt) ((k, map dec_value (snd c)) :: acc) Hy Gl Hst Hf2) as [n E].
      rewrite E. eexists. f_equal. cbn [rev]. rewrite <- app_assoc. cbn [app].
      unfold parsed_cols. cbn [map]. rewrite Ek. reflexivity.
  Qed.

  Lemma many1_lines : forall y c cols tail,
    wf_style y = true -> Forall good_col (c :: cols) -> stops tail ->
    exists n, p_many1 (j16_matrix_column A) (concat (map (jaspar16_line y) (c :: cols)) ++ tail)
              = POk tail n (parsed_cols A dec_value (c :: cols)).
  Proof.
    intros y c cols tail Hy G Hst. inversion G as [|x l [[k Ek] [Nc Wc]] Gl]; subst.
    cbn [map concat]. rewrite <- app_assoc.
    destruct (j16_matrix_column_print A y c k (concat (map (jaspar16_line y) cols) ++ tail) Hy Ek Nc Wc) as [n1 E1].
    unfold p_many1. rewrite E1.
    destruct (many1_loop_lines y cols (S (length (concat (map (jaspar16_line y) cols) ++ tail))) tail n1
                [(k, map dec_value (snd c))] Hy Gl Hst (Nat.lt_succ_diag_r _)) as [n E].
    rewrite E. eexists. f_equal. cbn [rev app]. unfold parsed_cols. cbn [map]. rewrite Ek. reflexivity.
  Qed.

  Theorem j16_record_print : forall y r tail, wf_jaspar16 A (y, r) = true -> stops tail ->
    exists n, j16_record A (print_jaspar16 (y, r) ++ tail) = POk tail n (record_of A 0%N dec_value r).
  Proof.
    intros y [id desc cols] tail H Hst. unfold wf_jaspar16 in H. cbn [sid sdesc scols] in H. split_andb.
    destruct cols as [|c0 cols]; [discriminate|].
    match goal with Hd : distinct_cols A [] _ = true |- _ => rename Hd into Hdist end.
    match goal with Hw : same_width _ = true |- _ => rename Hw into Hsw end.
    match goal with Hw : (1 <=? width _) = true |- _ => apply Nat.leb_le in Hw; rename Hw into W1 end.
    match goal with Hf : forallb (fun c => forallb wf_count (snd c)) _ = true |- _ => rename Hf into Hcnt end.
    assert (Forall good_col (c0 :: cols)) as G.
    { apply Forall_forall. intros c Hc. repeat split.
      - exact (distinct_cols_index A (c0 :: cols) [] Hdist c Hc).
      - pose proof (same_width_inv cols c0 Hsw c Hc) as L. destruct c0 as [s0 t0]. cbn [width snd] in *.
        intros E. rewrite E in L. cbn in L. lia.
      - rewrite forallb_forall in Hcnt. exact (Hcnt c Hc). }
    unfold print_jaspar16. cbn [scols]. rewrite <- app_assoc.
    match goal with Hs : wf_style y = true, Hi : wf_id _ = true, Hd : wf_desc _ = true |- _ =>
      destruct (header_print y {| sid := id; sdesc := desc; scols := c0 :: cols |}
                  (concat (map (jaspar16_line y) (c0 :: cols)) ++ tail) Hs Hi Hd) as [n0 E0];
      destruct (many1_lines y c0 cols tail Hs G Hst) as [n1 E1]
    end.
    unfold j16_record. rewrite E0. cbn [pbind].
    unfold p_map_res at 1. unfold j16_matrix. unfold p_map_res at 1. rewrite E1. cbn [pbind].
    rewrite (j16_build_matrix_spec A 0%N dec_value (c0 :: cols) HA ltac:(discriminate) Hdist Hsw).
    cbn [pbind]. eexists. unfold record_of. cbn [sid sdesc scols fst snd]. reflexivity.
  Qed.

  (* '>' and ASCII white space are not symbols *)
  Lemma stops_62 : stops [62%N].
  Proof.
    cbn. destruct (aindex A 62) as [k|] eqn:E; [|reflexivity].
    destruct (HA 62%N k E) as [_ R]. discriminate.
  Qed.

  Lemma stops_suffix : forall suffix, wf_suffix suffix = true -> stops suffix.
  Proof.
    intros [|c r] H; [exact I|]. cbn. cbn [wf_suffix forallb] in H. apply andb_true_iff in H. destruct H as [H _].
    destruct (aindex A c) as [k|] eqn:E; [|reflexivity].
    destruct (HA c k E) as [_ R]. exfalso.
    unfold in_range in *. apply andb_true_iff in R. destruct R as [R1 R2]. apply N.leb_le in R1, R2.
    apply orb_true_iff in H. destruct H as [H|H].
    - apply andb_true_iff in H. destruct H as [_ H]. apply N.leb_le in H. lia.
    - apply N.eqb_eq in H. lia.
  Qed.
End J16.
