(* UTF-8 encoder / decoder facts for IoBase: the encoder is a right inverse of the
   decoder on scalar values, both are morphisms for concatenation, ASCII is fixed,
   and the bytes of multi-byte sequences are >= 128 (and all bytes < 256). *)
From Coq Require Import List NArith Bool Arith Lia ZArith Zify.
From LMBase Require Import Res.
From LMIo Require Import IoBase IoBaseProofs.
Import ListNotations.

Ltac Zify.zify_post_hook ::= Z.to_euclidean_division_equations.

(* ---------- encoder: structure ---------- *)

Lemma utf8_encode_cons : forall c cs, utf8_encode (c :: cs) = utf8_encode1 c ++ utf8_encode cs.
Proof. reflexivity. Qed.

Lemma utf8_encode_app : forall a b, utf8_encode (a ++ b) = utf8_encode a ++ utf8_encode b.
Proof.
  intros a b. unfold utf8_encode. rewrite map_app, concat_app. reflexivity.
Qed.

Lemma length_utf8_encode1 : forall c, length (utf8_encode1 c) = utf8_len c.
Proof.
  intros c. unfold utf8_encode1, utf8_len.
  destruct (N.ltb c 128); [reflexivity|].
  destruct (N.ltb c 2048); [reflexivity|].
  destruct (N.ltb c 65536); reflexivity.
Qed.

Lemma length_utf8_encode : forall cs, length (utf8_encode cs) = str_len cs.
Proof.
  induction cs as [|c cs IH]; [reflexivity|].
  rewrite utf8_encode_cons, app_length, length_utf8_encode1, IH. reflexivity.
Qed.

Lemma utf8_encode_ascii : forall cs, forallb (fun c => N.ltb c 128) cs = true -> utf8_encode cs = cs.
Proof.
  induction cs as [|c cs IH]; intros H; [reflexivity|].
  cbn [forallb] in H. apply andb_true_iff in H. destruct H as [Hc Hr].
  rewrite utf8_encode_cons, (IH Hr). unfold utf8_encode1. rewrite Hc. reflexivity.
Qed.

(* ---------- decoder: one-step equations ---------- *)

Lemma utf8_decode_1 : forall b0 r,
  N.ltb b0 128 = true ->
  utf8_decode (b0 :: r) = option_map (cons b0) (utf8_decode r).
Proof.
  intros b0 r H. remember (utf8_decode r) as X. cbn [utf8_decode]. rewrite H. subst X. reflexivity.
Qed.

Lemma utf8_decode_2 : forall b0 b1 r,
  N.ltb b0 128 = false ->
  in_range 194 223 b0 = true ->
  is_cont b1 = true ->
  utf8_decode (b0 :: b1 :: r) =
  option_map (cons ((b0 - 192) * 64 + (b1 - 128))%N) (utf8_decode r).
Proof.
  intros b0 b1 r H0 H1 H2.
  change (utf8_decode (b0 :: b1 :: r)) with
    (if N.ltb b0 128 then option_map (cons b0) (utf8_decode (b1 :: r))
     else if in_range 194 223 b0 then
       if is_cont b1
       then option_map (cons ((b0 - 192) * 64 + (b1 - 128))%N) (utf8_decode r)
       else None
     else match r with
          | [] => None
          | b2 :: r2 =>
              if in_range 224 239 b0 then
                if (if N.eqb b0 224 then in_range 160 191 b1
                    else if N.eqb b0 237 then in_range 128 159 b1
                    else is_cont b1) && is_cont b2
                then option_map (cons ((b0 - 224) * 4096 + (b1 - 128) * 64 + (b2 - 128))%N)
                                (utf8_decode r2)
                else None
              else
                match r2 with
                | [] => None
                | b3 :: r3 =>
                    if in_range 240 244 b0 then
                      if (if N.eqb b0 240 then in_range 144 191 b1
                          else if N.eqb b0 244 then in_range 128 143 b1
                          else is_cont b1) && is_cont b2 && is_cont b3
                      then option_map
                             (cons ((b0 - 240) * 262144 + (b1 - 128) * 4096
                                    + (b2 - 128) * 64 + (b3 - 128))%N)
                             (utf8_decode r3)
                      else None
                    else None
                end
          end).
  rewrite H0, H1, H2. reflexivity.
Qed.

Lemma utf8_decode_3 : forall b0 b1 b2 r,
  N.ltb b0 128 = false ->
  in_range 194 223 b0 = false ->
  in_range 224 239 b0 = true ->
  (if N.eqb b0 224 then in_range 160 191 b1
   else if N.eqb b0 237 then in_range 128 159 b1
   else is_cont b1) && is_cont b2 = true ->
  utf8_decode (b0 :: b1 :: b2 :: r) =
  option_map (cons ((b0 - 224) * 4096 + (b1 - 128) * 64 + (b2 - 128))%N) (utf8_decode r).
Proof.
  intros b0 b1 b2 r H0 H1 H2 H3.
  change (utf8_decode (b0 :: b1 :: b2 :: r)) with
    (if N.ltb b0 128 then option_map (cons b0) (utf8_decode (b1 :: b2 :: r))
     else if in_range 194 223 b0 then
       if is_cont b1
       then option_map (cons ((b0 - 192) * 64 + (b1 - 128))%N) (utf8_decode (b2 :: r))
       else None
     else
       if in_range 224 239 b0 then
         if (if N.eqb b0 224 then in_range 160 191 b1
             else if N.eqb b0 237 then in_range 128 159 b1
             else is_cont b1) && is_cont b2
         then option_map (cons ((b0 - 224) * 4096 + (b1 - 128) * 64 + (b2 - 128))%N)
                         (utf8_decode r)
         else None
       else
         match r with
         | [] => None
         | b3 :: r3 =>
             if in_range 240 244 b0 then
               if (if N.eqb b0 240 then in_range 144 191 b1
                   else if N.eqb b0 244 then in_range 128 143 b1
                   else is_cont b1) && is_cont b2 && is_cont b3
               then option_map
                      (cons ((b0 - 240) * 262144 + (b1 - 128) * 4096
                             + (b2 - 128) * 64 + (b3 - 128))%N)
                      (utf8_decode r3)
               else None
             else None
         end).
  rewrite H0, H1, H2, H3. reflexivity.
Qed.

Lemma utf8_decode_4 : forall b0 b1 b2 b3 r,
  N.ltb b0 128 = false ->
  in_range 194 223 b0 = false ->
  in_range 224 239 b0 = false ->
  in_range 240 244 b0 = true ->
  (if N.eqb b0 240 then in_range 144 191 b1
   else if N.eqb b0 244 then in_range 128 143 b1
   else is_cont b1) && is_cont b2 && is_cont b3 = true ->
  utf8_decode (b0 :: b1 :: b2 :: b3 :: r) =
  option_map (cons ((b0 - 240) * 262144 + (b1 - 128) * 4096 + (b2 - 128) * 64 + (b3 - 128))%N)
             (utf8_decode r).
Proof.
  intros b0 b1 b2 b3 r H0 H1 H2 H3 H4.
  change (utf8_decode (b0 :: b1 :: b2 :: b3 :: r)) with
    (if N.ltb b0 128 then option_map (cons b0) (utf8_decode (b1 :: b2 :: b3 :: r))
     else if in_range 194 223 b0 then
       if is_cont b1
       then option_map (cons ((b0 - 192) * 64 + (b1 - 128))%N) (utf8_decode (b2 :: b3 :: r))
       else None
     else
       if in_range 224 239 b0 then
         if (if N.eqb b0 224 then in_range 160 191 b1
             else if N.eqb b0 237 then in_range 128 159 b1
             else is_cont b1) && is_cont b2
         then option_map (cons ((b0 - 224) * 4096 + (b1 - 128) * 64 + (b2 - 128))%N)
                         (utf8_decode (b3 :: r))
         else None
       else
         if in_range 240 244 b0 then
           if (if N.eqb b0 240 then in_range 144 191 b1
               else if N.eqb b0 244 then in_range 128 143 b1
               else is_cont b1) && is_cont b2 && is_cont b3
           then option_map
                  (cons ((b0 - 240) * 262144 + (b1 - 128) * 4096
                         + (b2 - 128) * 64 + (b3 - 128))%N)
                  (utf8_decode r)
           else None
         else None).
  rewrite H0, H1, H2, H3, H4. reflexivity.
Qed.

Lemma utf8_decode_ascii : forall bs, forallb (fun c => N.ltb c 128) bs = true -> utf8_decode bs = Some bs.
Proof.
  induction bs as [|b bs IH]; intros H; [reflexivity|].
  cbn [forallb] in H. apply andb_true_iff in H. destruct H as [Hb Hr].
  rewrite (utf8_decode_1 _ _ Hb), (IH Hr). reflexivity.
Qed.

(* ---------- boolean tests to propositions ---------- *)

Lemma in_range_true : forall lo hi b, (lo <= b <= hi)%N -> in_range lo hi b = true.
Proof.
  intros lo hi b [H1 H2]. unfold in_range. apply andb_true_iff. split; apply N.leb_le; assumption.
Qed.

Lemma in_range_false : forall lo hi b, (b < lo \/ hi < b)%N -> in_range lo hi b = false.
Proof.
  intros lo hi b H. unfold in_range. apply andb_false_iff.
  destruct H as [H|H]; [left|right]; apply N.leb_gt; exact H.
Qed.

Lemma in_range_iff : forall lo hi b, in_range lo hi b = true <-> (lo <= b <= hi)%N.
Proof.
  intros lo hi b. unfold in_range. rewrite andb_true_iff, !N.leb_le. tauto.
Qed.

Lemma is_scalar_iff : forall c,
  is_scalar c = true <-> (c < 55296 \/ (57344 <= c /\ c <= 1114111))%N.
Proof.
  intros c. unfold is_scalar. rewrite orb_true_iff, andb_true_iff, N.ltb_lt, !N.leb_le. tauto.
Qed.

(* ---------- decode (encode1 c ++ rest) ---------- *)

Lemma utf8_decode_encode1 : forall c rest, is_scalar c = true ->
  utf8_decode (utf8_encode1 c ++ rest) = option_map (cons c) (utf8_decode rest).
Proof.
  intros c rest Hs. apply is_scalar_iff in Hs. unfold utf8_encode1.
  destruct (N.ltb c 128) eqn:E1.
  { cbn [app]. apply utf8_decode_1. exact E1. }
  apply N.ltb_ge in E1.
  destruct (N.ltb c 2048) eqn:E2.
  { apply N.ltb_lt in E2. cbn [app].
    rewrite utf8_decode_2.
    - f_equal. f_equal. lia.
    - apply N.ltb_ge. lia.
    - apply in_range_true. lia.
    - apply in_range_true. lia. }
  apply N.ltb_ge in E2.
  destruct (N.ltb c 65536) eqn:E3.
  { apply N.ltb_lt in E3. cbn [app].
    assert (c / 4096 = c / 64 / 64)%N as Q.
    { rewrite N.div_div by lia. reflexivity. }
    rewrite Q.
    rewrite utf8_decode_3.
    - f_equal. f_equal. lia.
    - apply N.ltb_ge. lia.
    - apply in_range_false. lia.
    - apply in_range_true. lia.
    - apply andb_true_iff. split; [|apply in_range_true; lia].
      destruct (N.eqb (224 + c / 64 / 64) 224) eqn:Q1.
      + apply N.eqb_eq in Q1. apply in_range_true. lia.
      + apply N.eqb_neq in Q1.
        destruct (N.eqb (224 + c / 64 / 64) 237) eqn:Q2.
        * apply N.eqb_eq in Q2. apply in_range_true. lia.
        * apply in_range_true. lia. }
  apply N.ltb_ge in E3. cbn [app].
  assert (c / 4096 = c / 64 / 64)%N as Q.
  { rewrite N.div_div by lia. reflexivity. }
  assert (c / 262144 = c / 64 / 64 / 64)%N as Q'.
  { rewrite !N.div_div by lia. reflexivity. }
  rewrite Q, Q'.
  rewrite utf8_decode_4.
  - f_equal. f_equal. lia.
  - apply N.ltb_ge. lia.
  - apply in_range_false. lia.
  - apply in_range_false. lia.
  - apply in_range_true. lia.
  - apply andb_true_iff. split; [|apply in_range_true; lia].
    apply andb_true_iff. split; [|apply in_range_true; lia].
    destruct (N.eqb (240 + c / 64 / 64 / 64) 240) eqn:Q1.
    + apply N.eqb_eq in Q1. apply in_range_true. lia.
    + apply N.eqb_neq in Q1.
      destruct (N.eqb (240 + c / 64 / 64 / 64) 244) eqn:Q2.
      * apply N.eqb_eq in Q2. apply in_range_true. lia.
      * apply in_range_true. lia.
Qed.

Lemma utf8_decode_encode : forall cs, forallb is_scalar cs = true -> utf8_decode (utf8_encode cs) = Some cs.
Proof.
  induction cs as [|c cs IH]; intros H; [reflexivity|].
  cbn [forallb] in H. apply andb_true_iff in H. destruct H as [Hc Hr].
  rewrite utf8_encode_cons, (utf8_decode_encode1 _ _ Hc), (IH Hr). reflexivity.
Qed.

(* ---------- decoder: concatenation of well-formed sequences ---------- *)

Lemma utf8_decode_app_aux : forall n a b ca cb, length a <= n ->
  utf8_decode a = Some ca -> utf8_decode b = Some cb ->
  utf8_decode (a ++ b) = Some (ca ++ cb).
Proof.
  induction n as [|n IH]; intros a b ca cb Hn Ha Hb.
  - destruct a; [cbn in Ha; inversion Ha; subst; exact Hb|cbn in Hn; lia].
  - destruct a as [|b0 r0]; [cbn in Ha; inversion Ha; subst; exact Hb|].
    cbn [length] in Hn. cbn [utf8_decode] in Ha.
    destruct (N.ltb b0 128) eqn:E0.
    { apply option_map_some in Ha. destruct Ha as [x [Hx ->]].
      cbn [app]. rewrite (utf8_decode_1 _ _ E0).
      rewrite (IH r0 b x cb); [reflexivity|lia|exact Hx|exact Hb]. }
    destruct r0 as [|b1 r1]; [discriminate|]. cbn [length] in Hn.
    destruct (in_range 194 223 b0) eqn:E1.
    { destruct (is_cont b1) eqn:C1; [|discriminate].
      apply option_map_some in Ha. destruct Ha as [x [Hx ->]].
      cbn [app]. rewrite (utf8_decode_2 _ _ _ E0 E1 C1).
      rewrite (IH r1 b x cb); [reflexivity|lia|exact Hx|exact Hb]. }
    destruct r1 as [|b2 r2]; [discriminate|]. cbn [length] in Hn.
    destruct (in_range 224 239 b0) eqn:E2.
    { match type of Ha with (if ?c then _ else _) = _ => destruct c eqn:C end; [|discriminate].
      apply option_map_some in Ha. destruct Ha as [x [Hx ->]].
      cbn [app]. rewrite (utf8_decode_3 _ _ _ _ E0 E1 E2 C).
      rewrite (IH r2 b x cb); [reflexivity|lia|exact Hx|exact Hb]. }
    destruct r2 as [|b3 r3]; [discriminate|]. cbn [length] in Hn.
    destruct (in_range 240 244 b0) eqn:E3; [|discriminate].
    match type of Ha with (if ?c then _ else _) = _ => destruct c eqn:C end; [|discriminate].
    apply option_map_some in Ha. destruct Ha as [x [Hx ->]].
    cbn [app]. rewrite (utf8_decode_4 _ _ _ _ _ E0 E1 E2 E3 C).
    rewrite (IH r3 b x cb); [reflexivity|lia|exact Hx|exact Hb].
Qed.

Lemma utf8_decode_app : forall a b ca cb, utf8_decode a = Some ca -> utf8_decode b = Some cb ->
  utf8_decode (a ++ b) = Some (ca ++ cb).
Proof. intros a b ca cb. apply (utf8_decode_app_aux (length a)). lia. Qed.

(* ---------- the bytes of an encoding ---------- *)

Lemma utf8_encode1_ascii_byte : forall d c, (d < 128)%N -> In d (utf8_encode1 c) -> d = c.
Proof.
  intros d c Hd H. unfold utf8_encode1 in H.
  destruct (N.ltb c 128).
  { destruct H as [H|[]]. symmetry; exact H. }
  destruct (N.ltb c 2048).
  { cbn [In] in H. exfalso. lia. }
  destruct (N.ltb c 65536).
  { cbn [In] in H. exfalso. lia. }
  cbn [In] in H. exfalso. lia.
Qed.

Lemma utf8_encode_bytes_ge : forall d cs, (d < 128)%N -> ~ In d cs -> ~ In d (utf8_encode cs).
Proof.
  intros d cs Hd. induction cs as [|c cs IH]; intros Hn Hi; [exact Hi|].
  rewrite utf8_encode_cons in Hi. apply in_app_or in Hi. destruct Hi as [Hi|Hi].
  - apply Hn. left. symmetry. exact (utf8_encode1_ascii_byte d c Hd Hi).
  - apply IH; [|exact Hi]. intros H. apply Hn. right. exact H.
Qed.

Lemma utf8_encode1_bytes_lt256 : forall c, is_scalar c = true ->
  Forall (fun b => (b < 256)%N) (utf8_encode1 c).
Proof.
  intros c Hs. apply is_scalar_iff in Hs. unfold utf8_encode1.
  destruct (N.ltb c 128) eqn:E1.
  { apply N.ltb_lt in E1. repeat constructor. lia. }
  apply N.ltb_ge in E1.
  destruct (N.ltb c 2048) eqn:E2.
  { apply N.ltb_lt in E2. repeat constructor; lia. }
  apply N.ltb_ge in E2.
  destruct (N.ltb c 65536) eqn:E3.
  { apply N.ltb_lt in E3. repeat constructor; lia. }
  apply N.ltb_ge in E3. repeat constructor; lia.
Qed.

Lemma utf8_encode_bytes_lt256 : forall cs, forallb is_scalar cs = true ->
  Forall (fun b => (b < 256)%N) (utf8_encode cs).
Proof.
  induction cs as [|c cs IH]; intros H; [constructor|].
  cbn [forallb] in H. apply andb_true_iff in H. destruct H as [Hc Hr].
  rewrite utf8_encode_cons. apply Forall_app. split.
  - exact (utf8_encode1_bytes_lt256 c Hc).
  - exact (IH Hr).
Qed.

(* ---------- a trailing ASCII byte decodes to a trailing scalar value ---------- *)

Lemma is_cont_ascii_false : forall b, (b < 128)%N -> is_cont b = false.
Proof. intros b H. unfold is_cont. apply in_range_false. left. exact H. Qed.

Lemma utf8_decode_snoc_ascii_aux : forall n Y b text, length Y <= n -> (b < 128)%N ->
  utf8_decode (Y ++ [b]) = Some text ->
  exists cy, utf8_decode Y = Some cy /\ text = cy ++ [b].
Proof.
  induction n as [|n IH]; intros Y b text Hn Hb H.
  - destruct Y; [|cbn in Hn; lia]. cbn [app] in H.
    rewrite utf8_decode_1 in H by (apply N.ltb_lt; exact Hb). cbn in H. inversion H; subst.
    exists []. split; reflexivity.
  - pose proof (is_cont_ascii_false b Hb) as Cb.
    destruct Y as [|b0 r0].
    { cbn [app] in H.
      rewrite utf8_decode_1 in H by (apply N.ltb_lt; exact Hb). cbn in H. inversion H; subst.
      exists []. split; reflexivity. }
    cbn [length] in Hn. cbn [app] in H. cbn [utf8_decode] in H.
    destruct (N.ltb b0 128) eqn:E0.
    { apply option_map_some in H. destruct H as [x [Hx ->]].
      destruct (IH r0 b x ltac:(lia) Hb Hx) as [cy [Hcy ->]].
      exists (b0 :: cy). split; [|reflexivity].
      rewrite (utf8_decode_1 _ _ E0), Hcy. reflexivity. }
    destruct r0 as [|b1 r1]; cbn [app] in H.
    { rewrite Cb in H. destruct (in_range 194 223 b0); discriminate. }
    cbn [length] in Hn.
    destruct (in_range 194 223 b0) eqn:E1.
    { destruct (is_cont b1) eqn:C1; [|discriminate].
      apply option_map_some in H. destruct H as [x [Hx ->]].
      destruct (IH r1 b x ltac:(lia) Hb Hx) as [cy [Hcy ->]].
      eexists. split; [|apply app_comm_cons].
      rewrite (utf8_decode_2 _ _ _ E0 E1 C1), Hcy. reflexivity. }
    destruct r1 as [|b2 r2]; cbn [app] in H.
    { rewrite Cb, andb_false_r in H. destruct (in_range 224 239 b0); discriminate. }
    cbn [length] in Hn.
    destruct (in_range 224 239 b0) eqn:E2.
    { match type of H with (if ?c then _ else _) = _ => destruct c eqn:C end; [|discriminate].
      apply option_map_some in H. destruct H as [x [Hx ->]].
      destruct (IH r2 b x ltac:(lia) Hb Hx) as [cy [Hcy ->]].
      eexists. split; [|apply app_comm_cons].
      rewrite (utf8_decode_3 _ _ _ _ E0 E1 E2 C), Hcy. reflexivity. }
    destruct r2 as [|b3 r3]; cbn [app] in H.
    { rewrite Cb, andb_false_r in H. destruct (in_range 240 244 b0); discriminate. }
    cbn [length] in Hn.
    destruct (in_range 240 244 b0) eqn:E3; [|discriminate].
    match type of H with (if ?c then _ else _) = _ => destruct c eqn:C end; [|discriminate].
    apply option_map_some in H. destruct H as [x [Hx ->]].
    destruct (IH r3 b x ltac:(lia) Hb Hx) as [cy [Hcy ->]].
    eexists. split; [|apply app_comm_cons].
    rewrite (utf8_decode_4 _ _ _ _ _ E0 E1 E2 E3 C), Hcy. reflexivity.
Qed.

Lemma utf8_decode_snoc_ascii : forall Y b text, (b < 128)%N ->
  utf8_decode (Y ++ [b]) = Some text ->
  exists cy, utf8_decode Y = Some cy /\ text = cy ++ [b].
Proof. intros Y b text. apply (utf8_decode_snoc_ascii_aux (length Y)). lia. Qed.

Lemma utf8_decode_last_ascii : forall Y b text, (b < 128)%N ->
  utf8_decode (Y ++ [b]) = Some text -> exists t', text = t' ++ [b].
Proof.
  intros Y b text Hb H. destruct (utf8_decode_snoc_ascii Y b text Hb H) as [cy [_ E]].
  exists cy. exact E.
Qed.
