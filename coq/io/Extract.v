(* Extraction of the executable reader models, printers, specification functions
   and checkers for the correspondence check of C14 / C15.
   Only ExtrOcamlBasic is used: nat, N, Z, positive stay the extracted inductives. *)
From Coq Require Import List NArith ZArith Extraction ExtrOcamlBasic.
From LMBase Require Import Res ListX IEEE.
From LMIo Require Import IoBase IoNom IoJaspar IoUniprobe IoPrint IoPrintU IoRoundtripU IoErr IoPoll IoPrintG.

Definition n_matrix_of := @matrix_of.
Definition z_of_N := Z.of_N.

Extraction Language OCaml.
Extraction "io_model.ml"
  mk_stream utf8_decode utf8_encode
  jaspar_read jaspar16_read uniprobe_read j_calls uniprobe_calls j_record j16_record
  of_stream jaspar_read_e jaspar16_read_e jaspar_calls_e jaspar16_calls_e uniprobe_read_e uniprobe_calls_e
  jaspar_polls_e jaspar16_polls_e uniprobe_polls_e jaspar_polls_e_unguarded end_final first_nonrec
  print_jaspar_g print_jaspar16_g print_file_g wf_jaspar_g wf_jaspar16_g src_of_g g_of_style
  j_read_buggy j_new j_next
  Dna Protein
  print_jaspar print_jaspar16 print_uniprobe print_file
  wf_jaspar wf_jaspar16 wf_prefix wf_suffix wf_uniprobe wf_blank_prefix
  dec_value record_of matrix_of
  outcome_eqb outcomes_eqb check_c14 check_c15 no_panic stop_prefix
  N.eqb Z.eqb F32.of_bits F32.to_bits F32.zero.
