(* Printer-then-parser for the header line of the JASPAR formats, and the shape of
   a printed record (starts with '>', no other '>', scalar values only).  Proofs only. *)
From Coq Require Import List NArith Bool Arith Lia.
From LMBase Require Import Res ListX.
From LMIo Require Import IoBase IoNom IoJaspar IoPrint IoTokProofs IoMatrixProofs.
Import ListNotations.

Ltac split_andb :=
  repeat match goal with
         | H : (_ && _) = true |- _ => apply andb_true_iff in H; destruct H
         end.

Lemma forallb_imp {B} (p q : B -> bool) l :
  (forall x, p x = true -> q x = true) -> forallb p l = true -> forallb q l = true.
Proof.
  intros Hpq H. apply forallb_forall. intros x Hx. apply Hpq.
  rewrite forallb_forall in H. auto.
Qed.

(* ---------- inversion of the well-formedness predicates ---------- *)

Lemma wf_style_inv y : wf_style y = true ->
  blank1 (y_hsep y) = true /\ all_blank (y_lead y) = true /\ blank1 (y_sep y) = true /\
  blank1 (y_sym y) = true /\ all_blank (y_tail y) = true /\ all_blank (y_post y) = true.
Proof. unfold wf_style. intros H. split_andb. repeat split; assumption. Qed.

Lemma blank1_inv l : blank1 l = true -> l <> [] /\ all_blank l = true.
Proof.
  unfold blank1. intros H. split_andb. split; auto.
  intros ->. discriminate.
Qed.

Lemma wf_desc_inv d : wf_desc (Some d) = true ->
  forallb (fun c => is_scalar c && negb (N.eqb c 10) && negb (N.eqb c 62)) d = true /\
  match d with [] => false | c :: _ => negb (is_white_space c) end = true /\
  match rev d with [] => false | c :: _ => negb (is_white_space c) end = true.
Proof. unfold wf_desc. intros H. split_andb. repeat split; assumption. Qed.

Lemma blank_is_ascii_ws c : is_blank c = true -> is_ascii_ws c = true.
Proof.
  intros H. unfold is_blank in H. apply orb_true_iff in H.
  destruct H as [H|H]; apply N.eqb_eq in H; subst c; reflexivity.
Qed.

Lemma blank_not_nl c : is_blank c = true -> negb (N.eqb c 10) = true.
Proof.
  intros H. unfold is_blank in H. apply orb_true_iff in H.
  destruct H as [H|H]; apply N.eqb_eq in H; subst c; reflexivity.
Qed.

(* ---------- (1) the header line ---------- *)

Lemma header_core : forall id L X,
  forallb (fun c => negb (is_ascii_ws c)) id = true ->
  forallb (fun c => negb (N.eqb c 10)) L = true ->
  (exists x r, L ++ 10%N :: X = x :: r /\ is_ascii_ws x = true) ->
  exists n, p_header (62%N :: id ++ L ++ 10%N :: X)
            = POk X n (id, if is_nil (trim L) then None else Some (trim L)).
Proof.
  intros id L X Hid HL [x [r0 [Ex Hx]]].
  assert (E0 : forall rest, p_tag [62%N] (62%N :: rest) = POk rest 1 [62%N]) by reflexivity.
  assert (Hx' : (fun c => negb (is_ascii_ws c)) x = false) by (cbv beta; rewrite Hx; reflexivity).
  assert (E1 : p_take_while (fun c => negb (is_ascii_ws c)) (id ++ L ++ 10%N :: X)
               = POk (L ++ 10%N :: X) (length id) id).
  { unfold p_take_while. rewrite Ex. rewrite (span_app_stop _ id x r0 Hid Hx'). reflexivity. }
  assert (E2 : p_take_until_nl (L ++ 10%N :: X) = POk (10%N :: X) (length L) L).
  { unfold p_take_until_nl.
    rewrite (span_app_stop (fun c => negb (N.eqb c 10)) L 10%N X HL eq_refl). reflexivity. }
  assert (E3 : p_line_ending (10%N :: X) = POk X 1 [10%N]) by reflexivity.
  unfold p_header, p_preceded. rewrite E0. cbn [pbind]. rewrite E1. cbn [pbind].
  rewrite E2. cbn [pbind]. rewrite E3. cbn [pbind].
  destruct (is_nil (trim L)); eexists; reflexivity.
Qed.

Lemma header_print : forall y r X, wf_style y = true -> wf_id (sid r) = true -> wf_desc (sdesc r) = true ->
  exists n, p_header (print_header y r ++ X) = POk X n (sid r, sdesc r).
Proof.
  intros y r X Hy Hid Hd.
  set (cr := if y_crlf y then [13%N] else []).
  assert (Heol : eol y = cr ++ [10%N]) by (unfold eol, cr; destruct (y_crlf y); reflexivity).
  assert (Hcr_ws : forallb is_white_space cr = true) by (unfold cr; destruct (y_crlf y); reflexivity).
  assert (Hcr_nl : forallb (fun c => negb (N.eqb c 10)) cr = true)
    by (unfold cr; destruct (y_crlf y); reflexivity).
  assert (Hidn : forallb (fun c => negb (is_ascii_ws c)) (sid r) = true).
  { revert Hid. unfold wf_id. apply forallb_imp. intros c H. split_andb. assumption. }
  unfold print_header. rewrite Heol.
  destruct (sdesc r) as [d|].
  - destruct (wf_desc_inv d Hd) as [Hdc [Hh Ht]].
    destruct (wf_style_inv y Hy) as [Hhsep _].
    destruct (blank1_inv _ Hhsep) as [Hne Hab]. unfold all_blank in Hab.
    destruct (header_core (sid r) (y_hsep y ++ d ++ cr) X) as [n Hn]; auto.
    + rewrite !forallb_app. rewrite Hcr_nl, andb_true_r. apply andb_true_iff. split.
      * revert Hab. apply forallb_imp. apply blank_not_nl.
      * revert Hdc. apply forallb_imp. intros c H. split_andb. assumption.
    + destruct (y_hsep y) as [|b hs]; [exfalso; apply Hne; reflexivity|].
      cbn [forallb] in Hab. split_andb.
      eexists. eexists. split; [reflexivity|]. apply blank_is_ascii_ws. assumption.
    + exists n.
      assert (Htrim : trim (y_hsep y ++ d ++ cr) = d).
      { apply trim_spec; auto. revert Hab. apply forallb_imp. apply blank_is_ws. }
      rewrite Htrim in Hn.
      assert (Hnil : is_nil d = false) by (destruct d; [discriminate Hh | reflexivity]).
      rewrite Hnil in Hn. rewrite <- Hn. f_equal.
      repeat rewrite <- app_assoc. reflexivity.
  - destruct (header_core (sid r) cr X) as [n Hn]; auto.
    + unfold cr. destruct (y_crlf y); eexists; eexists; (split; [reflexivity|]); reflexivity.
    + exists n. rewrite (trim_all_ws cr Hcr_ws) in Hn. cbn [is_nil] in Hn.
      rewrite <- Hn. f_equal.
      repeat rewrite <- app_assoc. reflexivity.
Qed.

(* ---------- (2) the characters of a printed record ---------- *)

Definition okc (c : N) : bool := is_scalar c && negb (N.eqb c 62).

Lemma okc_lt c : (c < 55296)%N -> c <> 62%N -> okc c = true.
Proof.
  intros H1 H2. unfold okc, is_scalar.
  rewrite (proj2 (N.ltb_lt _ _) H1), (proj2 (N.eqb_neq _ _) H2). reflexivity.
Qed.

Lemma okc_blank c : is_blank c = true -> okc c = true.
Proof.
  intros H. unfold is_blank in H. apply orb_true_iff in H.
  destruct H as [H|H]; apply N.eqb_eq in H; subst c; reflexivity.
Qed.

Lemma okc_in_range lo hi c : (hi < 55296)%N -> (62 < lo \/ hi < 62)%N ->
  in_range lo hi c = true -> okc c = true.
Proof.
  intros Hhi Hlo H. unfold in_range in H. apply andb_true_iff in H. destruct H as [Hl Hh].
  apply N.leb_le in Hl. apply N.leb_le in Hh. apply okc_lt; lia.
Qed.

Lemma okc_digit c : is_digit c = true -> okc c = true.
Proof. unfold is_digit. apply okc_in_range; lia. Qed.

Lemma okc_upper c : in_range 65 90 c = true -> okc c = true.
Proof. apply okc_in_range; lia. Qed.

Lemma okc_eol y : forallb okc (eol y) = true.
Proof. unfold eol. destruct (y_crlf y); reflexivity. Qed.

Lemma okc_all_blank l : all_blank l = true -> forallb okc l = true.
Proof. unfold all_blank. apply forallb_imp. apply okc_blank. Qed.

Lemma okc_blank1 l : blank1 l = true -> forallb okc l = true.
Proof. intros H. apply okc_all_blank. apply (blank1_inv l H). Qed.

Lemma okc_count t : wf_count t = true -> forallb okc t = true.
Proof.
  intros H. destruct (wf_count_inv t H) as [_ [Hd _]]. revert Hd. apply forallb_imp. apply okc_digit.
Qed.

Lemma okc_concat_map {B} (f : B -> list N) l :
  (forall x, In x l -> forallb okc (f x) = true) -> forallb okc (concat (map f l)) = true.
Proof.
  induction l as [|x l IH]; intros H; [reflexivity|].
  cbn [map concat]. rewrite forallb_app, (H x (or_introl eq_refl)), IH; auto.
  intros z Hz. apply H. right. exact Hz.
Qed.

Lemma okc_join sep toks :
  forallb okc sep = true -> (forall t, In t toks -> forallb okc t = true) ->
  forallb okc (join sep toks) = true.
Proof.
  intros Hsep. induction toks as [|t r IH]; intros H; [reflexivity|].
  destruct r as [|t2 r'].
  - cbn [join]. apply H. left. reflexivity.
  - change (join sep (t :: t2 :: r')) with (t ++ sep ++ join sep (t2 :: r')).
    rewrite !forallb_app, Hsep, (H t (or_introl eq_refl)), IH; auto.
    intros z Hz. apply H. right. exact Hz.
Qed.

Lemma okc_tokens sep toks :
  blank1 sep = true -> forallb wf_count toks = true -> forallb okc (join sep toks) = true.
Proof.
  intros Hs Ht. apply okc_join; [apply okc_blank1; auto|].
  intros t Hin. apply okc_count. rewrite forallb_forall in Ht. auto.
Qed.

Lemma okc_header y r : wf_style y = true -> wf_id (sid r) = true -> wf_desc (sdesc r) = true ->
  forallb okc (sid r ++ match sdesc r with Some d => y_hsep y ++ d | None => [] end ++ eol y) = true.
Proof.
  intros Hy Hid Hd.
  assert (H1 : forallb okc (sid r) = true).
  { revert Hid. unfold wf_id. apply forallb_imp. intros c H. split_andb.
    unfold okc. apply andb_true_iff. split; assumption. }
  rewrite !forallb_app, H1, okc_eol, andb_true_r. cbn [andb].
  destruct (sdesc r) as [d|]; [|reflexivity].
  destruct (wf_desc_inv d Hd) as [Hdc _].
  destruct (wf_style_inv y Hy) as [Hhsep _].
  rewrite forallb_app, (okc_blank1 _ Hhsep). cbn [andb].
  revert Hdc. apply forallb_imp. intros c H. split_andb.
  unfold okc. apply andb_true_iff. split; assumption.
Qed.

Lemma okc_jaspar_lines y cols :
  wf_style y = true -> forallb (fun c : N * list (list N) => forallb wf_count (snd c)) cols = true ->
  forallb okc (concat (map (jaspar_line y) cols)) = true.
Proof.
  intros Hy Hc. destruct (wf_style_inv y Hy) as [_ [Hlead [Hsep _]]].
  apply okc_concat_map. intros c Hin. unfold jaspar_line.
  rewrite forallb_forall in Hc. specialize (Hc c Hin).
  rewrite !forallb_app, (okc_all_blank _ Hlead), (okc_tokens _ _ Hsep Hc), okc_eol. reflexivity.
Qed.

Lemma distinct_cols_index A cols : forall seen,
  distinct_cols A seen cols = true ->
  forall c, In c cols -> exists k, aindex A (fst c) = Some k.
Proof.
  induction cols as [|[s toks] r IH]; intros seen Hd c Hin; [destruct Hin|].
  cbn [distinct_cols] in Hd. destruct (aindex A s) as [k|] eqn:Es; [|discriminate].
  apply andb_true_iff in Hd. destruct Hd as [_ Hd].
  destruct Hin as [<-|Hin].
  - exists k. exact Es.
  - exact (IH (k :: seen) Hd c Hin).
Qed.

Lemma okc_jaspar16_lines A y cols :
  wf_alphabet A -> wf_style y = true ->
  (forall c, In c cols -> exists k, aindex A (fst c) = Some k) ->
  forallb (fun c : N * list (list N) => forallb wf_count (snd c)) cols = true ->
  forallb okc (concat (map (jaspar16_line y) cols)) = true.
Proof.
  intros HA Hy Hidx Hc.
  destruct (wf_style_inv y Hy) as [_ [Hlead [Hsep [Hsym [Htail Hpost]]]]].
  apply okc_concat_map. intros c Hin. unfold jaspar16_line.
  rewrite forallb_forall in Hc. specialize (Hc c Hin).
  destruct (Hidx c Hin) as [k Hk]. destruct (HA _ _ Hk) as [_ Hup].
  rewrite !forallb_app, (okc_all_blank _ Hlead), (okc_tokens _ _ Hsep Hc), okc_eol,
    (okc_blank1 _ Hsym), (okc_all_blank _ Htail), (okc_all_blank _ Hpost).
  cbn [forallb]. rewrite (okc_upper _ Hup). reflexivity.
Qed.

Lemma shape_from_okc body : forallb okc body = true ->
  ~ In 62%N body /\ forallb is_scalar (62%N :: body) = true.
Proof.
  intros H. split.
  - intros Hin. rewrite forallb_forall in H. specialize (H _ Hin). discriminate H.
  - cbn [forallb]. change (is_scalar 62) with true. cbn [andb].
    revert H. apply forallb_imp. intros c Hc. unfold okc in Hc.
    apply andb_true_iff in Hc. tauto.
Qed.

Lemma print_jaspar_shape : forall p, wf_jaspar p = true ->
  exists body, print_jaspar p = 62%N :: body /\ ~ In 62%N body /\ forallb is_scalar (print_jaspar p) = true.
Proof.
  intros [y r] H. unfold wf_jaspar in H. split_andb.
  exists ((sid r ++ match sdesc r with Some d => y_hsep y ++ d | None => [] end ++ eol y)
          ++ concat (map (jaspar_line y) (scols r))).
  split; [reflexivity|].
  apply shape_from_okc. rewrite forallb_app, okc_header, okc_jaspar_lines; auto.
Qed.

Lemma print_jaspar16_shape : forall A p, wf_alphabet A -> wf_jaspar16 A p = true ->
  exists body, print_jaspar16 p = 62%N :: body /\ ~ In 62%N body /\ forallb is_scalar (print_jaspar16 p) = true.
Proof.
  intros A [y r] HA H. unfold wf_jaspar16 in H. split_andb.
  exists ((sid r ++ match sdesc r with Some d => y_hsep y ++ d | None => [] end ++ eol y)
          ++ concat (map (jaspar16_line y) (scols r))).
  split; [reflexivity|].
  apply shape_from_okc. rewrite forallb_app, okc_header, (okc_jaspar16_lines A); auto.
  apply (distinct_cols_index A (scols r) []). assumption.
Qed.
