(* General layout of JASPAR (raw) / JASPAR 2016 files: every count has ITS OWN string of blanks in
   front of it, every JASPAR 2016 line its own blanks around the brackets.  Right-aligned files
   (`A  [  7266   6333   8496      0 ... ]`: tests/MA0017.3.pfm, benches/JASPAR2024.pwm, the doc
   example of jaspar/mod.rs) are instances of these printers, not of IoPrint.print_jaspar16 whose
   style has ONE separator per record; IoPrint's printers are the special case [g_of_style].
   Executable definitions only (extracted: the driver recognises a bundled file as an instance
   print_file print_jaspar16_g .. = bytes with wf_jaspar16_g and checks the records it should read). *)
From Coq Require Import List NArith ZArith Bool Arith.
From LMBase Require Import Res ListX.
From LMIo Require Import GenIoAbc IoBase IoNom IoJaspar IoPrint.
Import ListNotations.

(* one count line *)
Record gline := {
  g_sym : N;                          (* the symbol (JASPAR raw: not printed; the lines are A, C, G, T in this order) *)
  g_gap : list N;                     (* JASPAR 2016: blanks between the symbol and '[' (>= 1) *)
  g_toks : list (list N * list N);    (* (blanks before the count, count); first: >= 0 blanks, others >= 1 *)
  g_tail : list N;                    (* JASPAR 2016: blanks between the last count and ']' *)
  g_post : list N                     (* JASPAR 2016: blanks between ']' and the end of the line *)
}.

Record gsrc := {
  g_id : list N;
  g_desc : option (list N);
  g_hsep : list N;                    (* blanks after the identifier: >= 1 before a description; without description
                                         any number of trailing blanks (">ID \n" reads as ID without description) *)
  g_crlf : bool;                      (* lines end with "\r\n" *)
  g_lines : list gline
}.

(* IoPrint's style for eol (y_crlf) and, with a description, the header *)
Definition style_of_g (r : gsrc) : style :=
  {| y_crlf := g_crlf r; y_hsep := g_hsep r; y_lead := []; y_sep := [32%N]; y_sym := [32%N];
     y_tail := []; y_post := []; y_gap := 0 |}.

(* what is written, without the layout: the input of IoPrint.record_of *)
Definition src_of_g (r : gsrc) : src :=
  {| sid := g_id r; sdesc := g_desc r; scols := map (fun l => (g_sym l, map snd (g_toks l))) (g_lines r) |}.

Definition gseps (bts : list (list N * list N)) : list N := concat (map (fun bt => fst bt ++ snd bt) bts).

Definition jaspar_line_g (r : gsrc) (l : gline) : list N := gseps (g_toks l) ++ eol (style_of_g r).

Definition jaspar16_line_g (r : gsrc) (l : gline) : list N :=
  [g_sym l] ++ g_gap l ++ [91%N] ++ gseps (g_toks l) ++ g_tail l ++ [93%N] ++ g_post l ++ eol (style_of_g r).

(* '>' identifier, then blanks and the description, or only (possibly no) trailing blanks *)
Definition print_header_g (r : gsrc) : list N :=
  [62%N] ++ g_id r ++ match g_desc r with Some d => g_hsep r ++ d | None => g_hsep r end ++ eol (style_of_g r).

Definition print_jaspar_g (r : gsrc) : list N :=
  print_header_g r ++ concat (map (jaspar_line_g r) (g_lines r)).

Definition print_jaspar16_g (r : gsrc) : list N :=
  print_header_g r ++ concat (map (jaspar16_line_g r) (g_lines r)).

(* ---------- well-formedness ---------- *)

Definition wf_sep_tok (bt : list N * list N) : bool := blank1 (fst bt) && wf_count (snd bt).

Definition wf_gtoks (toks : list (list N * list N)) : bool :=
  match toks with
  | [] => false
  | (b0, t0) :: rest => all_blank b0 && wf_count t0 && forallb wf_sep_tok rest
  end.

Definition wf_hsep_g (r : gsrc) : bool :=
  match g_desc r with Some _ => blank1 (g_hsep r) | None => all_blank (g_hsep r) end.

Definition wf_jaspar_g (r : gsrc) : bool :=
  wf_hsep_g r && wf_id (g_id r) && wf_desc (g_desc r)
  && list_eqb (map g_sym (g_lines r)) (map fst gen_jaspar_symbols)
  && same_width (scols (src_of_g r)) && (1 <=? width (scols (src_of_g r)))
  && forallb (fun l => wf_gtoks (g_toks l)) (g_lines r).

Definition wf_gline16 (l : gline) : bool :=
  blank1 (g_gap l) && all_blank (g_tail l) && all_blank (g_post l) && wf_gtoks (g_toks l).

Definition wf_jaspar16_g (A : alphabet) (r : gsrc) : bool :=
  wf_hsep_g r && wf_id (g_id r) && wf_desc (g_desc r)
  && negb (is_nil (g_lines r)) && distinct_cols A [] (scols (src_of_g r))
  && same_width (scols (src_of_g r)) && (1 <=? width (scols (src_of_g r)))
  && forallb wf_gline16 (g_lines r).

(* ---------- IoPrint's one-separator style is the special case ---------- *)

Definition gtoks_of_style (y : style) (toks : list (list N)) : list (list N * list N) :=
  match toks with
  | [] => []
  | t :: rest => (y_lead y, t) :: map (fun x => (y_sep y, x)) rest
  end.

Definition g_of_style (p : style * src) : gsrc :=
  let (y, r) := p in
  {| g_id := sid r; g_desc := sdesc r; g_hsep := match sdesc r with Some _ => y_hsep y | None => [] end;
     g_crlf := y_crlf y;
     g_lines := map (fun c => {| g_sym := fst c; g_gap := y_sym y; g_toks := gtoks_of_style y (snd c);
                                g_tail := y_tail y; g_post := y_post y |}) (scols r) |}.

(* a whole file (IoPrint.print_file for any record type) *)
Definition print_file_g {T} (pr : T -> list N) (prefix : list N) (rs : list T) (suffix : list N) : list N :=
  prefix ++ utf8_encode (concat (map pr rs)) ++ suffix.
