(* Streams with real I/O errors (C15): what successive fill_buf() calls deliver is a list of
   EVENTS -- a non-empty slice of data, or an io::Error.  std's read_until retries
   ErrorKind::Interrupted and returns every other error to its caller AFTER having appended
   (and consumed) the bytes it had already seen in this call; read_line = append_to_string
   keeps those bytes in the String when they are valid UTF-8 and drops them otherwise.
   The readers of lightmotif-io over such streams: the `Err(e) => Some(Err(Error::from(e)))`
   arms and `read_until(..).unwrap_or(U).saturating_sub(S)` of Reader::new.
   Executable definitions only (extracted); the error-free readers of IoJaspar.v /
   IoUniprobe.v are the restriction of these to streams without error events (IoErrProofs.v). *)
From Coq Require Import List NArith ZArith Bool Arith.
From LMBase Require Import Res ListX IEEE.
From LMIo Require Import GenIoAbc IoBase IoNom IoJaspar IoUniprobe.
Import ListNotations.

Inductive event : Type :=
| EvData (c : list N)            (* fill_buf() = Ok(c), c non-empty *)
| EvErr (interrupted : bool).    (* fill_buf() = Err(e); interrupted: e.kind() == Interrupted *)

Definition estream := list event.

Definition of_stream (s : stream) : estream := map EvData s.

Definition wf_estream (es : estream) : Prop :=
  Forall (fun ev => match ev with EvData c => c <> [] | EvErr _ => True end) es.

Fixpoint data_bytes (es : estream) : list N :=
  match es with
  | [] => []
  | EvData c :: r => c ++ data_bytes r
  | EvErr _ :: r => data_bytes r
  end.

(* std::io::read_until: (bytes appended to the caller's buffer, did it return Err, what is left) *)
Fixpoint read_until_e (d : N) (es : estream) : list N * bool * estream :=
  match es with
  | [] => ([], false, [])
  | EvErr true :: es' => read_until_e d es'           (* Interrupted: `continue` *)
  | EvErr false :: es' => ([], true, es')
  | EvData c :: es' =>
      match c with
      | [] => ([], false, es')
      | _ =>
          match split_delim d c with
          | Some (p, q) => (p, false, match q with [] => es' | _ => EvData q :: es' end)
          | None => let '(r, e, es'') := read_until_e d es' in (c ++ r, e, es'')
          end
      end
  end.

(* BufRead::read_line: RLOk n chars | RLErr chars -- the chars are appended to the String in
   both cases (an Err after valid UTF-8 data keeps the data; invalid UTF-8 appends nothing) *)
Inductive rl_res : Type :=
| RLOk (n : nat) (cs : list N)
| RLErr (cs : list N).

Definition read_line_e (es : estream) : rl_res * estream :=
  let '(bs, e, es') := read_until_e 10 es in
  match utf8_decode bs with
  | Some cs => if e then (RLErr cs, es') else (RLOk (length bs) cs, es')
  | None => (RLErr [], es')
  end.

(* ---------- JASPAR / JASPAR 2016 ---------- *)

Record jstate_e := { ebuf : list N; estart : nat; estr : estream }.

(* Reader::new: read_until(b'>', &mut buffer).unwrap_or(U).saturating_sub(S) *)
Definition j_new_e (U S : nat) (es : estream) : jstate_e :=
  let '(r, e, es') := read_until_e 62 es in
  {| ebuf := r; estart := (if e then U else length r) - S; estr := es' |}.

(* a stream (without errors) on which read_until 62 returns exactly [r], and leaves something
   behind iff [more] *)
Definition replay_stream (r : list N) (more : bool) : stream :=
  mk_stream [r] ++ (if more then [[62%N]] else []).

(* Iterator::next: the Err(e) arm returns the error and keeps what was appended; the Ok(n) arm
   is IoJaspar.j_next (repaired code) on the bytes this call appended *)
Definition j_next_e_g (guard : bool) (precord : parser (record N)) (cap : nat) (st : jstate_e)
  : jstate_e * res (option (record N)) :=
  let '(r, e, es') := read_until_e 62 (estr st) in
  if e then ({| ebuf := ebuf st ++ r; estart := estart st; estr := es' |}, Err EIo)
  else
    let (st', o) := j_next_g precord false guard cap
                      {| jbuf := ebuf st; jstart := estart st;
                         jstream := replay_stream r (negb (is_nil es')) |} in
    ({| ebuf := jbuf st'; estart := jstart st'; estr := es' |}, o).

Fixpoint j_run_e_g (guard : bool) (precord : parser (record N)) (fuel : nat) (stop_err : bool)
         (caps : nat -> nat) (k : nat) (st : jstate_e) : list (res (option (record N))) :=
  match fuel with
  | 0 => [OutOfFuel]
  | S fuel' =>
      let (st', o) := j_next_e_g guard precord (caps k) st in
      match o with
      | Ok (Some _) => o :: j_run_e_g guard precord fuel' stop_err caps (S k) st'
      | Err _ => if stop_err then [o] else o :: j_run_e_g guard precord fuel' stop_err caps (S k) st'
      | _ => [o]
      end
  end.

(* Reader::new then next() until End or the first error *)
Definition j_read_e_g (guard : bool) (U S : nat) (precord : parser (record N)) (caps : nat -> nat)
           (es : estream) : list (res (option (record N))) :=
  j_run_e_g guard precord (Datatypes.S (Datatypes.S (length (data_bytes es)))) true caps 0 (j_new_e U S es).

(* the first [calls] outcomes of a caller that goes on after errors *)
Definition j_calls_e_g (guard : bool) (U S : nat) (precord : parser (record N)) (calls : nat)
           (caps : nat -> nat) (es : estream) : list (res (option (record N))) :=
  firstn calls (j_run_e_g guard precord (Datatypes.S calls) false caps 0 (j_new_e U S es)).

(* the readers as they are in the source (constants re-read on every run) *)
Definition j_next_e := j_next_e_g gen_jaspar_slice_guard.
Definition j_run_e := j_run_e_g gen_jaspar_slice_guard.
Definition j_read_e := j_read_e_g gen_jaspar_slice_guard.
Definition j_calls_e := j_calls_e_g gen_jaspar_slice_guard.

Definition jaspar_read_e := j_read_e gen_jaspar_new_unwrap_or gen_jaspar_new_sub (j_record false).
Definition jaspar16_read_e (A : alphabet) :=
  j_read_e gen_jaspar16_new_unwrap_or gen_jaspar16_new_sub (j16_record A).
Definition jaspar_calls_e := j_calls_e gen_jaspar_new_unwrap_or gen_jaspar_new_sub (j_record false).
Definition jaspar16_calls_e (A : alphabet) :=
  j_calls_e gen_jaspar16_new_unwrap_or gen_jaspar16_new_sub (j16_record A).

(* ---------- UniPROBE ---------- *)

Section UniprobeE.
  Variable A : alphabet.
  Variable parse_f32 : list N -> option F32.t.

  Record ustate_e := { xbuf : list N; xline : bool; xstr : estream }.

  Definition u_new_e (es : estream) : ustate_e := {| xbuf := []; xline := false; xstr := es |}.

  Inductive fill_res_e : Type :=
  | XLine (buf : list N) (s : estream)
  | XEof (buf : list N) (s : estream)
  | XErr (buf : list N) (s : estream)      (* read_line returned Err; buf holds what it appended *)
  | XFuel.

  (* while !self.line { read_line(&mut self.buffer) ... } *)
  Fixpoint u_fill_e (fuel : nat) (buf : list N) (s : estream) : fill_res_e :=
    match fuel with
    | 0 => XFuel
    | S fuel' =>
        match read_line_e s with
        | (RLOk 0 _, s') => XEof buf s'
        | (RLOk _ cs, s') =>
            let buf' := buf ++ cs in
            if is_nil (trim buf') then u_fill_e fuel' [] s'
            else XLine buf' s'
        | (RLErr cs, s') => XErr (buf ++ cs) s'
        end
    end.

  Inductive cols_res_e : Type :=
  | YDone (cols : list (nat * list F32.t)) (buf : list N) (line : bool) (s : estream)
  | YErr (buf : list N) (s : estream)
  | YPanic (site : nat)
  | YFuel.

  Fixpoint u_columns_e (F : nat) (fuel : nat) (buf : list N) (line : bool) (s : estream)
           (acc : list (nat * list F32.t)) : cols_res_e :=
    match fuel with
    | 0 => YFuel
    | S fuel' =>
        let filled := if line then XLine buf s else u_fill_e F buf s in
        match filled with
        | XFuel => YFuel
        | XErr b s' => YErr b s'
        | XLine b s' =>
            match u_matrix_column A parse_f32 b with
            | POk _ _ col => u_columns_e F fuel' [] false s' (col :: acc)
            | PErr _ | PFail _ => YDone (rev acc) b true s'
            | PPanic k => YPanic k
            | PFuel => YFuel
            end
        | XEof b s' =>
            match u_matrix_column A parse_f32 b with
            | POk _ _ col => u_columns_e F fuel' [] false s' (col :: acc)
            | PErr _ | PFail _ => YDone (rev acc) b false s'
            | PPanic k => YPanic k
            | PFuel => YFuel
            end
        end
    end.

  Definition u_next_e (F : nat) (st : ustate_e) : ustate_e * res (option (record F32.t)) :=
    let filled :=
      if xline st then XLine (xbuf st) (xstr st)
      else u_fill_e F (xbuf st) (xstr st) in
    match filled with
    | XFuel => (st, OutOfFuel)
    | XErr b s => ({| xbuf := b; xline := false; xstr := s |}, Err EIo)
    | XEof b s => ({| xbuf := b; xline := false; xstr := s |}, Ok None)
    | XLine b s =>
        match u_id b with
        | PErr _ | PFail _ => ({| xbuf := b; xline := true; xstr := s |}, Err ENom)
        | PPanic k => (st, Panic k)
        | PFuel => (st, OutOfFuel)
        | POk _ _ id =>
            match u_columns_e F F [] false s [] with
            | YFuel => (st, OutOfFuel)
            | YPanic k => (st, Panic k)
            | YErr b' s' => ({| xbuf := b'; xline := false; xstr := s' |}, Err EIo)
            | YDone cols b' line' s' =>
                let st' := {| xbuf := b'; xline := line'; xstr := s' |} in
                match u_build_matrix A false cols with
                | Err e => (st', Err e)
                | Panic k => (st', Panic k)
                | OutOfFuel => (st', OutOfFuel)
                | Ok m =>
                    match freq_new m with
                    | Ok m' => (st', Ok (Some {| rid := id; rdesc := None; rmatrix := m' |}))
                    | Err e => (st', Err e)
                    | Panic k => (st', Panic k)
                    | OutOfFuel => (st', OutOfFuel)
                    end
                end
            end
        end
    end.

  Fixpoint u_run_e (F : nat) (fuel : nat) (stop_err : bool) (st : ustate_e)
    : list (res (option (record F32.t))) :=
    match fuel with
    | 0 => [OutOfFuel]
    | S fuel' =>
        let (st', o) := u_next_e F st in
        match o with
        | Ok (Some _) => o :: u_run_e F fuel' stop_err st'
        | Err _ => if stop_err then [o] else o :: u_run_e F fuel' stop_err st'
        | _ => [o]
        end
    end.

  (* more than the number of data bytes (error events never make a loop run longer: an
     Interrupted one is skipped inside read_until, any other one ends the call) *)
  Definition read_fuel_e (es : estream) : nat := S (S (S (length (data_bytes es)))).

  Definition uniprobe_read_e (es : estream) : list (res (option (record F32.t))) :=
    u_run_e (read_fuel_e es) (read_fuel_e es) true (u_new_e es).

  Definition uniprobe_calls_e (calls : nat) (es : estream) : list (res (option (record F32.t))) :=
    firstn calls (u_run_e (read_fuel_e es) (S calls) false (u_new_e es)).
End UniprobeE.
