(* "Printer then parser" at the level of one count line: the line parsers of
   jaspar/parse.rs and jaspar16/parse.rs read back what jaspar_line /
   jaspar16_line print. *)
From Coq Require Import List NArith Bool Arith Lia.
From LMIo Require Import IoBase IoNom IoJaspar IoPrint IoBaseProofs IoTokProofs.
Import ListNotations.

(* ---------- sequencing helpers ---------- *)

Lemma pbind_ok : forall {A B} (p : pres A) (k : list N -> A -> pres B) r1 n1 a r2 n2 b,
  p = POk r1 n1 a -> k r1 a = POk r2 n2 b -> pbind p k = POk r2 (n1 + n2) b.
Proof. intros A B p k r1 n1 a r2 n2 b H1 H2. subst p. cbn [pbind]. rewrite H2. reflexivity. Qed.

Lemma preceded_ok : forall {A B} (p : parser A) (q : parser B) i r1 n1 a r2 n2 b,
  p i = POk r1 n1 a -> q r1 = POk r2 n2 b -> exists n, p_preceded p q i = POk r2 n b.
Proof.
  intros A B p q i r1 n1 a r2 n2 b H1 H2. unfold p_preceded.
  rewrite H1. cbn [pbind]. rewrite H2. eexists; reflexivity.
Qed.

Lemma terminated_ok : forall {A B} (p : parser A) (q : parser B) i r1 n1 a r2 n2 b,
  p i = POk r1 n1 a -> q r1 = POk r2 n2 b -> exists n, p_terminated p q i = POk r2 n a.
Proof.
  intros A B p q i r1 n1 a r2 n2 b H1 H2. unfold p_terminated.
  rewrite H1. cbn [pbind]. rewrite H2. eexists; reflexivity.
Qed.

Lemma delimited_ok : forall {A B C} (p : parser A) (q : parser B) (s : parser C)
    i r1 n1 a r2 n2 b r3 n3 c,
  p i = POk r1 n1 a -> q r1 = POk r2 n2 b -> s r2 = POk r3 n3 c ->
  exists n, p_delimited p q s i = POk r3 n b.
Proof.
  intros A B C p q s i r1 n1 a r2 n2 b r3 n3 c H1 H2 H3. unfold p_delimited.
  rewrite H1. cbn [pbind]. rewrite H2. cbn [pbind]. rewrite H3. eexists; reflexivity.
Qed.

Lemma separated_pair_ok : forall {A B C} (p : parser A) (q : parser B) (s : parser C)
    i r1 n1 a r2 n2 b r3 n3 c,
  p i = POk r1 n1 a -> q r1 = POk r2 n2 b -> s r2 = POk r3 n3 c ->
  exists n, p_separated_pair p q s i = POk r3 n (a, c).
Proof.
  intros A B C p q s i r1 n1 a r2 n2 b r3 n3 c H1 H2 H3. unfold p_separated_pair.
  rewrite H1. cbn [pbind]. rewrite H2. cbn [pbind]. rewrite H3. eexists; reflexivity.
Qed.

(* ---------- small lexical facts ---------- *)

Lemma blank_not_digit : forall c, is_blank c = true -> is_digit c = false.
Proof.
  intros c H. destruct (is_digit c) eqn:E; [|reflexivity].
  apply digit_not_blank in E. congruence.
Qed.

Lemma space0_none : forall x r, is_blank x = false -> p_space0 (x :: r) = POk (x :: r) 0 [].
Proof.
  intros x r Hx. unfold p_space0, p_take_while. rewrite (span_stop is_blank x r Hx). reflexivity.
Qed.

(* p_space0 in front of a non-blank, whatever (possibly empty) run of blanks comes first *)
Lemma space0_ok : forall b x r, all_blank b = true -> is_blank x = false ->
  p_space0 (b ++ x :: r) = POk (x :: r) (length b) b.
Proof. exact space0_blanks. Qed.

Lemma blank1_inv : forall b, blank1 b = true -> exists c b', b = c :: b' /\ is_blank c = true /\ all_blank b = true.
Proof.
  intros b H. unfold blank1 in H. apply andb_true_iff in H. destruct H as [Hn Ha].
  destruct b as [|c b']; [discriminate Hn|].
  exists c, b'. split; [reflexivity|]. split; [|exact Ha].
  unfold all_blank in Ha. cbn [forallb] in Ha. apply andb_true_iff in Ha. tauto.
Qed.

Lemma opt_space1_ok : forall b x r, all_blank b = true -> is_blank x = false ->
  exists n o, p_opt p_space1 (b ++ x :: r) = POk (x :: r) n o.
Proof.
  intros b x r Hb Hx. unfold p_opt. destruct b as [|c b'].
  - cbn [app]. destruct (space1_fail x r Hx) as [k Hk]. rewrite Hk. eexists; eexists; reflexivity.
  - assert (H1 : blank1 (c :: b') = true).
    { unfold blank1. rewrite Hb. reflexivity. }
    rewrite (space1_blanks (c :: b') x r H1 Hx). eexists; eexists; reflexivity.
Qed.

Lemma tag1_ok : forall ch r, p_tag [ch] (ch :: r) = POk r 1 [ch].
Proof.
  intros ch r. unfold p_tag. cbn [strip_prefix]. rewrite N.eqb_refl. reflexivity.
Qed.

(* delimited(space0, tag(ch), space0) *)
Lemma delim_tag_ok : forall a ch b x r,
  all_blank a = true -> is_blank ch = false -> all_blank b = true -> is_blank x = false ->
  exists n, p_delimited p_space0 (p_tag [ch]) p_space0 (a ++ ch :: b ++ x :: r) = POk (x :: r) n [ch].
Proof.
  intros a ch b x r Ha Hch Hb Hx.
  exact (delimited_ok p_space0 (p_tag [ch]) p_space0 _ _ _ _ _ _ _ _ _ _
           (space0_blanks a ch (b ++ x :: r) Ha Hch)
           (tag1_ok ch (b ++ x :: r))
           (space0_blanks b x r Hb Hx)).
Qed.

(* ---------- join ---------- *)

Definition seps (sep : list N) (ts : list (list N)) : list N := concat (map (fun x => sep ++ x) ts).

Lemma join_cons : forall sep t ts, join sep (t :: ts) = t ++ concat (map (fun x => sep ++ x) ts).
Proof.
  intros sep t ts. revert t. induction ts as [|t' ts IH]; intros t.
  - cbn [join map concat]. rewrite app_nil_r. reflexivity.
  - change (join sep (t :: t' :: ts)) with (t ++ sep ++ join sep (t' :: ts)).
    rewrite IH. cbn [map concat]. rewrite <- app_assoc. reflexivity.
Qed.

Lemma join_head : forall sep toks, toks <> [] -> forallb wf_count toks = true ->
  exists c r, join sep toks = c :: r /\ is_digit c = true.
Proof.
  intros sep toks Hne Hw. destruct toks as [|t ts]; [exfalso; apply Hne; reflexivity|].
  cbn [forallb] in Hw. apply andb_true_iff in Hw. destruct Hw as [Ht _].
  destruct (wf_count_head t Ht) as [c [r [E Hc]]]. subst t.
  rewrite join_cons. cbn [app]. eexists; eexists; split; [reflexivity|exact Hc].
Qed.

(* what follows a token: the next separator, the trailing blanks or the stop
   character; never a digit *)
Lemma rest_head : forall sep ts bl e Y,
  blank1 sep = true -> all_blank bl = true -> is_digit e = false ->
  exists x r, seps sep ts ++ bl ++ e :: Y = x :: r /\ is_digit x = false.
Proof.
  intros sep ts bl e Y Hs Hb He.
  destruct ts as [|t ts].
  - unfold seps. cbn [map concat app]. destruct bl as [|b bl'].
    + cbn [app]. eexists; eexists; split; [reflexivity|exact He].
    + cbn [app]. eexists; eexists; split; [reflexivity|].
      apply blank_not_digit. unfold all_blank in Hb. cbn [forallb] in Hb.
      apply andb_true_iff in Hb. tauto.
  - destruct (blank1_inv sep Hs) as [c [s' [E [Hc _]]]]. subst sep.
    unfold seps. cbn [map concat app]. eexists; eexists; split; [reflexivity|].
    apply blank_not_digit. exact Hc.
Qed.

(* ---------- separated_list0(space1, u32) on printed tokens ---------- *)

Lemma sep_loop_tokens : forall ts fuel sep bl e Y cnt acc,
  forallb wf_count ts = true -> blank1 sep = true -> all_blank bl = true ->
  is_blank e = false -> is_digit e = false ->
  length (seps sep ts ++ bl ++ e :: Y) < fuel ->
  exists n, sep_list0_loop p_space1 p_u32 fuel (seps sep ts ++ bl ++ e :: Y) cnt acc
            = POk (bl ++ e :: Y) n (rev acc ++ map dec_value ts).
Proof.
  induction ts as [|t ts IH]; intros fuel sep bl e Y cnt acc Hw Hs Hb Heb Hed Hf.
  - destruct fuel as [|fuel]; [inversion Hf|].
    unfold seps. cbn [map concat app]. cbn [sep_list0_loop].
    rewrite app_nil_r.
    destruct bl as [|b bl'].
    + cbn [app]. destruct (space1_fail e Y Heb) as [k Hk]. rewrite Hk.
      eexists; reflexivity.
    + assert (H1 : blank1 (b :: bl') = true).
      { unfold blank1. rewrite Hb. reflexivity. }
      rewrite (space1_blanks (b :: bl') e Y H1 Heb).
      cbn [length Nat.eqb].
      destruct (u32_not_digit e Y Hed) as [k Hk]. rewrite Hk.
      eexists; reflexivity.
  - destruct fuel as [|fuel]; [inversion Hf|].
    cbn [forallb] in Hw. apply andb_true_iff in Hw. destruct Hw as [Ht Hw].
    destruct (wf_count_head t Ht) as [c [tr [Et Hc]]].
    destruct (blank1_inv sep Hs) as [s0 [s' [Es [_ Hsa]]]].
    destruct (rest_head sep ts bl e Y Hs Hb Hed) as [x [r [ER Hx]]].
    assert (Ein : seps sep (t :: ts) ++ bl ++ e :: Y = sep ++ c :: (tr ++ x :: r)).
    { unfold seps. cbn [map concat]. fold (seps sep ts).
      rewrite <- !app_assoc. rewrite ER. rewrite Et. reflexivity. }
    rewrite Ein in Hf |- *.
    cbn [sep_list0_loop].
    rewrite (space1_blanks sep c (tr ++ x :: r) Hs (digit_not_blank c Hc)).
    assert (Hl : (length sep =? 0) = false).
    { rewrite Es. reflexivity. }
    rewrite Hl.
    change (c :: tr ++ x :: r) with ((c :: tr) ++ x :: r). rewrite <- Et.
    rewrite (u32_token t x r Ht Hx).
    rewrite <- ER.
    assert (Hf' : length (seps sep ts ++ bl ++ e :: Y) < fuel).
    { rewrite ER. cbn [length]. rewrite app_length in Hf. rewrite Es in Hf. cbn [length] in Hf.
      rewrite app_length in Hf. cbn [length] in Hf. lia. }
    destruct (IH fuel sep bl e Y (length sep + length t + cnt) (dec_value t :: acc)
                 Hw Hs Hb Heb Hed Hf') as [n Hn].
    rewrite Hn. exists n. cbn [rev map]. rewrite <- app_assoc. reflexivity.
Qed.

Lemma sep_list_tokens : forall toks sep bl e Y,
  toks <> [] -> forallb wf_count toks = true -> blank1 sep = true -> all_blank bl = true ->
  is_blank e = false -> is_digit e = false ->
  exists n, p_separated_list0 p_space1 p_u32 (join sep toks ++ bl ++ e :: Y)
            = POk (bl ++ e :: Y) n (map dec_value toks).
Proof.
  intros toks sep bl e Y Hne Hw Hs Hb Heb Hed.
  destruct toks as [|t ts]; [exfalso; apply Hne; reflexivity|].
  cbn [forallb] in Hw. apply andb_true_iff in Hw. destruct Hw as [Ht Hw].
  rewrite join_cons. fold (seps sep ts). rewrite <- app_assoc.
  destruct (rest_head sep ts bl e Y Hs Hb Hed) as [x [r [ER Hx]]].
  unfold p_separated_list0. rewrite ER.
  rewrite (u32_token t x r Ht Hx). rewrite <- ER.
  destruct (sep_loop_tokens ts (S (length (seps sep ts ++ bl ++ e :: Y))) sep bl e Y
              (length t) [dec_value t] Hw Hs Hb Heb Hed (Nat.lt_succ_diag_r _)) as [n Hn].
  rewrite Hn. exists n. reflexivity.
Qed.

(* ---------- line ending ---------- *)

Lemma line_ending_eol : forall y X, exists n le, p_line_ending (eol y ++ X) = POk X n le.
Proof.
  intros y X. unfold eol. destruct (y_crlf y); cbn [app]; eexists; eexists; reflexivity.
Qed.

Lemma eol_head : forall y X, exists e Y, eol y ++ X = e :: Y /\ is_blank e = false /\ is_digit e = false.
Proof.
  intros y X. unfold eol. destruct (y_crlf y); cbn [app];
    eexists; eexists; (split; [reflexivity|split; reflexivity]).
Qed.

(* ---------- wf_style ---------- *)

Lemma wf_style_inv : forall y, wf_style y = true ->
  blank1 (y_hsep y) = true /\ all_blank (y_lead y) = true /\ blank1 (y_sep y) = true /\
  blank1 (y_sym y) = true /\ all_blank (y_tail y) = true /\ all_blank (y_post y) = true.
Proof.
  intros y H. unfold wf_style in H.
  apply andb_true_iff in H. destruct H as [H H6].
  apply andb_true_iff in H. destruct H as [H H5].
  apply andb_true_iff in H. destruct H as [H H4].
  apply andb_true_iff in H. destruct H as [H H3].
  apply andb_true_iff in H. destruct H as [H1 H2].
  repeat split; assumption.
Qed.

(* ---------- JASPAR (raw) count line ---------- *)

Lemma j_counts_print : forall lead sep toks bl e Y,
  all_blank lead = true -> toks <> [] -> forallb wf_count toks = true -> blank1 sep = true ->
  all_blank bl = true -> is_blank e = false -> is_digit e = false ->
  exists n, j_counts (lead ++ join sep toks ++ bl ++ e :: Y) = POk (bl ++ e :: Y) n (map dec_value toks).
Proof.
  intros lead sep toks bl e Y Hl Hne Hw Hs Hb Heb Hed.
  destruct (sep_list_tokens toks sep bl e Y Hne Hw Hs Hb Heb Hed) as [n2 H2].
  destruct (join_head sep toks Hne Hw) as [c [r [Ej Hc]]].
  unfold j_counts.
  rewrite Ej in H2 |- *. cbn [app] in H2 |- *.
  destruct (opt_space1_ok lead c (r ++ bl ++ e :: Y) Hl (digit_not_blank c Hc)) as [n1 [o H1]].
  exact (preceded_ok (p_opt p_space1) (p_separated_list0 p_space1 p_u32) _ _ _ _ _ _ _ H1 H2).
Qed.

Lemma j_matrix_column_print : forall y (c : N * list (list N)) X,
  wf_style y = true -> snd c <> [] -> forallb wf_count (snd c) = true ->
  exists n, j_matrix_column (jaspar_line y c ++ X) = POk X n (map dec_value (snd c)).
Proof.
  intros y c X Hy Hne Hw.
  destruct (wf_style_inv y Hy) as [_ [Hlead [Hsep _]]].
  destruct (eol_head y X) as [e [Y [Ee [Heb Hed]]]].
  destruct (line_ending_eol y X) as [n2 [le H2]].
  destruct (j_counts_print (y_lead y) (y_sep y) (snd c) [] e Y Hlead Hne Hw Hsep
              eq_refl Heb Hed) as [n1 H1].
  cbn [app] in H1.
  unfold jaspar_line. rewrite <- !app_assoc. rewrite Ee.
  rewrite Ee in H2.
  unfold j_matrix_column.
  exact (terminated_ok j_counts p_line_ending _ _ _ _ _ _ _ H1 H2).
Qed.

(* ---------- JASPAR 2016 count line ---------- *)

Lemma j16_counts_print : forall lead sep toks tail post x r,
  all_blank lead = true -> toks <> [] -> forallb wf_count toks = true -> blank1 sep = true ->
  all_blank tail = true -> all_blank post = true -> is_blank x = false ->
  exists n, j16_counts (91%N :: lead ++ join sep toks ++ tail ++ 93%N :: post ++ x :: r)
            = POk (x :: r) n (map dec_value toks).
Proof.
  intros lead sep toks tail post x r Hl Hne Hw Hs Ht Hp Hx.
  destruct (join_head sep toks Hne Hw) as [c [jr [Ej Hc]]].
  destruct (sep_list_tokens toks sep tail 93%N (post ++ x :: r) Hne Hw Hs Ht eq_refl eq_refl)
    as [n2 H2].
  destruct (delim_tag_ok [] 91%N lead c (jr ++ tail ++ 93%N :: post ++ x :: r)
              eq_refl eq_refl Hl (digit_not_blank c Hc)) as [n1 H1].
  destruct (delim_tag_ok tail 93%N post x r Ht eq_refl Hp Hx) as [n3 H3].
  cbn [app] in H1.
  rewrite Ej in H2 |- *. cbn [app] in H2 |- *.
  unfold j16_counts.
  exact (delimited_ok _ _ _ _ _ _ _ _ _ _ _ _ _ H1 H2 H3).
Qed.

Lemma symbol_ok : forall A s k r, aindex A s = Some k -> p_symbol A (s :: r) = POk r (1 + 0) k.
Proof.
  intros A s k r H. unfold p_symbol, p_anychar. cbn [pbind]. rewrite H. reflexivity.
Qed.

Lemma j16_matrix_column_print : forall A y (c : N * list (list N)) k X,
  wf_style y = true -> aindex A (fst c) = Some k -> snd c <> [] -> forallb wf_count (snd c) = true ->
  exists n, j16_matrix_column A (jaspar16_line y c ++ X) = POk X n (k, map dec_value (snd c)).
Proof.
  intros A y c k X Hy Hk Hne Hw.
  destruct (wf_style_inv y Hy) as [_ [Hlead [Hsep [Hsym [Htail Hpost]]]]].
  destruct (eol_head y X) as [e [Y [Ee [Heb _]]]].
  destruct (line_ending_eol y X) as [n4 [le H4]].
  destruct (j16_counts_print (y_lead y) (y_sep y) (snd c) (y_tail y) (y_post y) e Y
              Hlead Hne Hw Hsep Htail Hpost Heb) as [n3 H3].
  pose proof (space1_blanks (y_sym y) 91%N
                (y_lead y ++ join (y_sep y) (snd c) ++ y_tail y ++ 93%N :: y_post y ++ e :: Y)
                Hsym eq_refl) as H2.
  pose proof (symbol_ok A (fst c) k
                (y_sym y ++ 91%N :: y_lead y ++ join (y_sep y) (snd c) ++ y_tail y
                   ++ 93%N :: y_post y ++ e :: Y) Hk) as H1.
  destruct (separated_pair_ok (p_symbol A) p_space1 j16_counts _ _ _ _ _ _ _ _ _ _ H1 H2 H3)
    as [n123 H123].
  rewrite Ee in H4.
  unfold jaspar16_line. rewrite <- !app_assoc. cbn [app]. rewrite Ee.
  unfold j16_matrix_column.
  exact (terminated_ok _ p_line_ending _ _ _ _ _ _ _ H123 H4).
Qed.
