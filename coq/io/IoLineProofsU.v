(* "Printer then parser" at the level of one UniPROBE line: nom's float recogniser
   on float tokens (the whole decimal grammar of IoPrintU.wf_dec), many1(preceded(tab, float)), the column line and
   the name line. *)
From Coq Require Import List NArith ZArith Bool Arith Lia.
From LMBase Require Import Res ListX IEEE.
From LMIo Require Import GenIoAbc IoBase IoNom IoJaspar IoUniprobe IoPrint IoPrintU
     IoBaseProofs IoNomProofs IoTokProofs IoLineProofs.
Import ListNotations.

(* ---------- sequencing helpers with exact counts ---------- *)

Lemma pair_ok : forall {A B} (p : parser A) (q : parser B) i r1 n1 a r2 n2 b,
  p i = POk r1 n1 a -> q r1 = POk r2 n2 b -> p_pair p q i = POk r2 (n1 + (n2 + 0)) (a, b).
Proof.
  intros A B p q i r1 n1 a r2 n2 b H1 H2. unfold p_pair.
  rewrite H1. cbn [pbind]. rewrite H2. reflexivity.
Qed.

Lemma pair_err : forall {A B} (p : parser A) (q : parser B) i k,
  p i = PErr k -> p_pair p q i = PErr k.
Proof. intros A B p q i k H. unfold p_pair. rewrite H. reflexivity. Qed.

Lemma map_tt_ok : forall {A} (p : parser A) i r n a,
  p i = POk r n a -> p_map (fun _ : A => tt) p i = POk r (n + 0) tt.
Proof. intros A p i r n a H. unfold p_map. rewrite H. reflexivity. Qed.

Lemma map_ok : forall {A B} (f : A -> B) (p : parser A) i r n a,
  p i = POk r n a -> p_map f p i = POk r (n + 0) (f a).
Proof. intros A B f p i r n a H. unfold p_map. rewrite H. reflexivity. Qed.

Lemma opt_ok : forall {A} (p : parser A) i r n a, p i = POk r n a -> p_opt p i = POk r n (Some a).
Proof. intros A p i r n a H. unfold p_opt. rewrite H. reflexivity. Qed.

Lemma opt_err : forall {A} (p : parser A) i k, p i = PErr k -> p_opt p i = POk i 0 None.
Proof. intros A p i k H. unfold p_opt. rewrite H. reflexivity. Qed.

Lemma alt_ok1 : forall {A} (p q : parser A) i r n a, p i = POk r n a -> p_alt p q i = POk r n a.
Proof. intros A p q i r n a H. unfold p_alt. rewrite H. reflexivity. Qed.

Lemma alt_err : forall {A} (p q : parser A) i k, p i = PErr k -> p_alt p q i = q i.
Proof. intros A p q i k H. unfold p_alt. rewrite H. reflexivity. Qed.

Lemma char_ok : forall c r, p_char c (c :: r) = POk r 1 c.
Proof. intros c r. unfold p_char. rewrite N.eqb_refl. reflexivity. Qed.

Lemma char_fail : forall c x r, x <> c -> p_char c (x :: r) = PErr KChar.
Proof.
  intros c x r H. unfold p_char. destruct (N.eqb x c) eqn:E; [|reflexivity].
  apply N.eqb_eq in E. contradiction.
Qed.

(* ---------- digit1 ---------- *)

Lemma digit1_ok : forall d a y s, is_digit d = true -> forallb is_digit a = true -> is_digit y = false ->
  p_digit1 ((d :: a) ++ y :: s) = POk (y :: s) (length (d :: a)) (d :: a).
Proof.
  intros d a y s Hd Ha Hy. unfold p_digit1, p_take_while1.
  assert (H : forallb is_digit (d :: a) = true).
  { cbn [forallb]. rewrite Hd, Ha. reflexivity. }
  rewrite (span_app_stop is_digit (d :: a) y s H Hy). reflexivity.
Qed.

Lemma opt_digit1_ok : forall b x r, forallb is_digit b = true -> is_digit x = false ->
  exists n o, p_opt p_digit1 (b ++ x :: r) = POk (x :: r) n o.
Proof.
  intros b x r Hb Hx. destruct b as [|d b].
  - cbn [app]. eexists; eexists. apply (opt_err p_digit1 (x :: r) KDigit).
    unfold p_digit1, p_take_while1. rewrite (span_stop is_digit x r Hx). reflexivity.
  - cbn [forallb] in Hb. apply andb_true_iff in Hb. destruct Hb as [Hd Hb].
    eexists; eexists. apply opt_ok. exact (digit1_ok d b x r Hd Hb Hx).
Qed.

Lemma map_err : forall {A B} (f : A -> B) (p : parser A) i k, p i = PErr k -> p_map f p i = PErr k.
Proof. intros A B f p i k H. unfold p_map. rewrite H. reflexivity. Qed.

Lemma alt_ok2 : forall {A} (p q : parser A) i k r n a,
  p i = PErr k -> q i = POk r n a -> p_alt p q i = POk r n a.
Proof. intros A p q i k r n a H1 H2. unfold p_alt. rewrite H1. exact H2. Qed.

Lemma cut_ok : forall {A} (p : parser A) i r n a, p i = POk r n a -> p_cut p i = POk r n a.
Proof. intros A p i r n a H. unfold p_cut. rewrite H. reflexivity. Qed.

(* ---------- float tokens: SIGN? (DIGITS ('.' DIGITS?)? | '.' DIGITS) ([eE] SIGN? DIGITS)? ---------- *)

Definition sign_part (S : list N) : Prop := S = [] \/ exists s, S = [s] /\ is_sign s = true.

Definition mant_part (M : list N) : Prop :=
  exists d a, is_digit d = true /\ forallb is_digit a = true /\
    (M = d :: a \/
     (exists b, forallb is_digit b = true /\ M = (d :: a) ++ 46%N :: b) \/
     M = 46%N :: d :: a).

Definition exp_part (E : list N) : Prop :=
  E = [] \/
  exists c S d ds, (c = 101%N \/ c = 69%N) /\ sign_part S /\ is_digit d = true /\
                   forallb is_digit ds = true /\ E = c :: S ++ d :: ds.

Lemma strip_sign_inv : forall t, exists S, sign_part S /\ t = S ++ strip_sign t.
Proof.
  intros t. destruct t as [|c r].
  - exists []. split; [left; reflexivity|reflexivity].
  - unfold strip_sign. destruct (is_sign c) eqn:E.
    + exists [c]. split; [right; exists c; auto|reflexivity].
    + exists []. split; [left; reflexivity|reflexivity].
Qed.

Lemma wf_mant_inv : forall l r, wf_mant l = Some r -> exists M, mant_part M /\ l = M ++ r.
Proof.
  intros l r H. unfold wf_mant in H.
  pose proof (span_split is_digit l) as Es. pose proof (span_fst_all is_digit l) as Ha.
  revert H Es Ha. destruct (span is_digit l) as [a rr]. cbn [fst snd]. intros H Es Ha.
  destruct a as [|d a].
  - destruct rr as [|c r']; [discriminate H|].
    destruct (N.eqb c 46) eqn:Ec; [|discriminate H]. apply N.eqb_eq in Ec. subst c.
    pose proof (span_split is_digit r') as Es'. pose proof (span_fst_all is_digit r') as Hb.
    revert H Es' Hb. destruct (span is_digit r') as [b r'']. cbn [fst snd]. intros H Es' Hb.
    destruct b as [|d b]; [discriminate H|]. inversion H. subst r''.
    cbn [forallb] in Hb. apply andb_true_iff in Hb. destruct Hb as [Hd Hb].
    exists (46%N :: d :: b). split.
    + exists d, b. split; [exact Hd|]. split; [exact Hb|]. right. right. reflexivity.
    + rewrite Es. rewrite Es'. reflexivity.
  - cbn [forallb] in Ha. apply andb_true_iff in Ha. destruct Ha as [Hd Ha].
    destruct rr as [|c r'].
    + inversion H. subst r. exists (d :: a). split; [|exact Es].
      exists d, a. split; [exact Hd|]. split; [exact Ha|]. left. reflexivity.
    + destruct (N.eqb c 46) eqn:Ec.
      * apply N.eqb_eq in Ec. subst c. inversion H.
        exists ((d :: a) ++ 46%N :: fst (span is_digit r')). split.
        -- exists d, a. split; [exact Hd|]. split; [exact Ha|]. right. left.
           exists (fst (span is_digit r')). split; [apply span_fst_all|reflexivity].
        -- rewrite Es. rewrite <- app_assoc. cbn [app].
           rewrite <- (span_split is_digit r'). reflexivity.
      * inversion H. subst r. exists (d :: a). split; [|exact Es].
        exists d, a. split; [exact Hd|]. split; [exact Ha|]. left. reflexivity.
Qed.

Lemma wf_exp_inv : forall E, wf_exp E = true -> exp_part E.
Proof.
  intros E H. destruct E as [|c r]; [left; reflexivity|]. right.
  unfold wf_exp in H.
  apply andb_true_iff in H. destruct H as [H H3].
  apply andb_true_iff in H. destruct H as [H1 H2].
  destruct (strip_sign_inv r) as [S [HS Er]].
  remember (strip_sign r) as sr eqn:Esr.
  destruct sr as [|d ds]; [discriminate H2|].
  cbn [forallb] in H3. apply andb_true_iff in H3. destruct H3 as [Hd Hds].
  exists c, S, d, ds. split.
  - apply orb_true_iff in H1. destruct H1 as [H1|H1]; apply N.eqb_eq in H1; auto.
  - split; [exact HS|]. split; [exact Hd|]. split; [exact Hds|]. rewrite Er. reflexivity.
Qed.

Lemma wf_dec_inv : forall t, wf_dec t = true ->
  exists S M E, sign_part S /\ mant_part M /\ exp_part E /\ t = S ++ M ++ E.
Proof.
  intros t H. unfold wf_dec in H.
  destruct (strip_sign_inv t) as [S [HS Et]].
  destruct (wf_mant (strip_sign t)) as [r0|] eqn:Em; [|discriminate H].
  destruct (wf_mant_inv _ _ Em) as [M [HM El]].
  exists S, M, r0. split; [exact HS|]. split; [exact HM|]. split; [exact (wf_exp_inv r0 H)|].
  rewrite <- El. exact Et.
Qed.

Lemma digit_not : forall d, is_digit d = true -> d <> 43%N /\ d <> 45%N /\ d <> 46%N.
Proof.
  intros d H. repeat split; intros E; subst d; discriminate H.
Qed.

Lemma mant_head : forall M, mant_part M -> exists c l, M = c :: l /\ c <> 43%N /\ c <> 45%N.
Proof.
  intros M [d [a [Hd [Ha [E|[[b [Hb E]]|E]]]]]]; subst M.
  - destruct (digit_not d Hd) as [H1 [H2 _]]. eexists; eexists. split; [reflexivity|]. auto.
  - destruct (digit_not d Hd) as [H1 [H2 _]]. cbn [app]. eexists; eexists. split; [reflexivity|]. auto.
  - eexists; eexists. split; [reflexivity|]. split; discriminate.
Qed.

Lemma sign_ok : forall S c l, sign_part S -> c <> 43%N -> c <> 45%N ->
  exists n o, p_sign (S ++ c :: l) = POk (c :: l) n o.
Proof.
  intros S c l [E|[s [E Hs]]] H43 H45; subst S; cbn [app].
  - eexists; eexists. unfold p_sign. apply (opt_err _ _ KChar).
    rewrite (alt_err _ _ _ _ (char_fail 43 c l H43)). exact (char_fail 45 c l H45).
  - unfold is_sign in Hs. apply orb_true_iff in Hs.
    destruct Hs as [Hs|Hs]; apply N.eqb_eq in Hs; subst s.
    + eexists; eexists. unfold p_sign. eapply opt_ok. eapply alt_ok1. apply char_ok.
    + eexists; eexists. unfold p_sign. eapply opt_ok. eapply alt_ok2; [|apply char_ok].
      apply char_fail. discriminate.
Qed.

Lemma exponent_none : forall x r, x <> 101%N -> x <> 69%N ->
  p_float_exponent (x :: r) = POk (x :: r) (0 + 0) tt.
Proof.
  intros x r H1 H2. unfold p_float_exponent. eapply map_tt_ok.
  apply (opt_err _ _ KChar). apply pair_err.
  rewrite (alt_err _ _ _ _ (char_fail 101 x r H1)). exact (char_fail 69 x r H2).
Qed.

Lemma exponent_ok : forall E x r, exp_part E -> is_digit x = false -> x <> 101%N -> x <> 69%N ->
  exists n, p_float_exponent (E ++ x :: r) = POk (x :: r) n tt.
Proof.
  intros E x r [HE|[c [S [d [ds [Hc [HS [Hd [Hds HE]]]]]]]]] Hx H101 H69; subst E.
  - cbn [app]. eexists. apply exponent_none; assumption.
  - cbn [app]. rewrite <- app_assoc. cbn [app].
    assert (Halt : p_alt (p_char 101) (p_char 69) (c :: S ++ d :: ds ++ x :: r)
                   = POk (S ++ d :: ds ++ x :: r) 1 c).
    { destruct Hc; subst c.
      - apply alt_ok1. apply char_ok.
      - eapply alt_ok2; [|apply char_ok]. apply char_fail. discriminate. }
    destruct (digit_not d Hd) as [H43 [H45 _]].
    destruct (sign_ok S d (ds ++ x :: r) HS H43 H45) as [ns [o Hs]].
    assert (Hcut : p_cut p_digit1 (d :: ds ++ x :: r) = POk (x :: r) (length (d :: ds)) (d :: ds)).
    { apply cut_ok. exact (digit1_ok d ds x r Hd Hds Hx). }
    eexists. unfold p_float_exponent. eapply map_tt_ok. eapply opt_ok.
    exact (pair_ok _ _ _ _ _ _ _ _ _ Halt (pair_ok _ _ _ _ _ _ _ _ _ Hs Hcut)).
Qed.

Lemma exp_head : forall E x r, exp_part E -> is_digit x = false -> x <> 46%N ->
  exists y s, E ++ x :: r = y :: s /\ is_digit y = false /\ y <> 46%N.
Proof.
  intros E x r [HE|[c [S [d [ds [Hc [_ [_ [_ HE]]]]]]]]] Hx H46; subst E.
  - cbn [app]. eexists; eexists. split; [reflexivity|]. auto.
  - cbn [app]. eexists; eexists. split; [reflexivity|].
    destruct Hc; subst c; (split; [reflexivity|discriminate]).
Qed.

Lemma mantissa_ok : forall M y s, mant_part M -> is_digit y = false -> y <> 46%N ->
  exists n, p_float_mantissa (M ++ y :: s) = POk (y :: s) n tt.
Proof.
  intros M y s [d [a [Hd [Ha [E|[[b [Hb E]]|E]]]]]] Hy H46; subst M.
  - pose proof (digit1_ok d a y s Hd Ha Hy) as Hd1.
    assert (Ho : p_opt (p_pair (p_char 46) (p_opt p_digit1)) (y :: s) = POk (y :: s) 0 None).
    { apply (opt_err _ _ KChar). apply pair_err. exact (char_fail 46 y s H46). }
    unfold p_float_mantissa. eexists. apply alt_ok1. eapply map_tt_ok.
    exact (pair_ok _ _ _ _ _ _ _ _ _ Hd1 Ho).
  - rewrite <- app_assoc. change ((46%N :: b) ++ y :: s) with (46%N :: (b ++ y :: s)).
    pose proof (digit1_ok d a 46%N (b ++ y :: s) Hd Ha eq_refl) as Hd1.
    destruct (opt_digit1_ok b y s Hb Hy) as [n2 [o Hod]].
    pose proof (pair_ok _ _ _ _ _ _ _ _ _ (char_ok 46 (b ++ y :: s)) Hod) as Hp.
    pose proof (opt_ok _ _ _ _ _ Hp) as Ho.
    unfold p_float_mantissa. eexists. apply alt_ok1. eapply map_tt_ok.
    exact (pair_ok _ _ _ _ _ _ _ _ _ Hd1 Ho).
  - change ((46%N :: d :: a) ++ y :: s) with (46%N :: (d :: a) ++ y :: s).
    unfold p_float_mantissa. eexists. eapply alt_ok2.
    + apply map_err. apply pair_err. unfold p_digit1, p_take_while1.
      rewrite (span_stop is_digit 46%N ((d :: a) ++ y :: s) eq_refl). reflexivity.
    + eapply map_tt_ok.
      exact (pair_ok _ _ _ _ _ _ _ _ _ (char_ok 46 ((d :: a) ++ y :: s)) (digit1_ok d a y s Hd Ha Hy)).
Qed.

Lemma float_inner : forall t x r, wf_dec t = true ->
  is_digit x = false -> x <> 46%N -> x <> 101%N -> x <> 69%N ->
  exists n v, p_pair p_sign (p_pair p_float_mantissa p_float_exponent) (t ++ x :: r) = POk (x :: r) n v.
Proof.
  intros t x r Hw Hx H46 H101 H69.
  destruct (wf_dec_inv t Hw) as [S [M [E [HS [HM [HE Et]]]]]]. subst t.
  destruct (exp_head E x r HE Hx H46) as [y [s [Ey [Hy Hy46]]]].
  destruct (exponent_ok E x r HE Hx H101 H69) as [ne He]. rewrite Ey in He.
  destruct (mantissa_ok M y s HM Hy Hy46) as [nm Hm].
  destruct (mant_head M HM) as [c [l [EM [H43 H45]]]]. subst M.
  destruct (sign_ok S c (l ++ y :: s) HS H43 H45) as [ns [o Hs]].
  rewrite <- !app_assoc. rewrite Ey.
  eexists; eexists.
  exact (pair_ok _ _ _ _ _ _ _ _ _ Hs (pair_ok _ _ _ _ _ _ _ _ _ Hm He)).
Qed.

(* every char of a token is a digit, a sign, a dot or e/E *)
Definition tokc (c : N) : bool :=
  is_digit c || N.eqb c 43 || N.eqb c 45 || N.eqb c 46 || N.eqb c 101 || N.eqb c 69.

Lemma forallb_impl0 : forall (p q : N -> bool) l,
  (forall c, p c = true -> q c = true) -> forallb p l = true -> forallb q l = true.
Proof.
  intros p q l Hpq. induction l as [|c l IH]; intros H; [reflexivity|].
  cbn [forallb] in *. apply andb_true_iff in H. destruct H as [Hc H].
  rewrite (Hpq c Hc), (IH H). reflexivity.
Qed.

Lemma digit_tokc : forall c, is_digit c = true -> tokc c = true.
Proof. intros c H. unfold tokc. rewrite H. reflexivity. Qed.

Lemma digits_tokc : forall a, forallb is_digit a = true -> forallb tokc a = true.
Proof. intros a. apply forallb_impl0. exact digit_tokc. Qed.

Lemma sign_tokc : forall S, sign_part S -> forallb tokc S = true.
Proof.
  intros S [E|[s [E Hs]]]; subst S; [reflexivity|].
  unfold is_sign in Hs. apply orb_true_iff in Hs.
  destruct Hs as [Hs|Hs]; apply N.eqb_eq in Hs; subst s; reflexivity.
Qed.

Lemma mant_tokc : forall M, mant_part M -> forallb tokc M = true.
Proof.
  intros M [d [a [Hd [Ha [E|[[b [Hb E]]|E]]]]]]; subst M.
  - cbn [forallb]. rewrite (digit_tokc d Hd), (digits_tokc a Ha). reflexivity.
  - rewrite forallb_app. cbn [forallb].
    rewrite (digit_tokc d Hd), (digits_tokc a Ha), (digits_tokc b Hb). reflexivity.
  - cbn [forallb]. rewrite (digit_tokc d Hd), (digits_tokc a Ha). reflexivity.
Qed.

Lemma exp_tokc : forall E, exp_part E -> forallb tokc E = true.
Proof.
  intros E [HE|[c [S [d [ds [Hc [HS [Hd [Hds HE]]]]]]]]]; subst E; [reflexivity|].
  cbn [forallb]. rewrite forallb_app. cbn [forallb].
  rewrite (sign_tokc S HS), (digit_tokc d Hd), (digits_tokc ds Hds).
  destruct Hc; subst c; reflexivity.
Qed.

Lemma wf_dec_chars : forall t, wf_dec t = true ->
  forallb (fun c => is_digit c || N.eqb c 43 || N.eqb c 45 || N.eqb c 46 || N.eqb c 101 || N.eqb c 69) t = true.
Proof.
  intros t Hw. change (forallb tokc t = true).
  destruct (wf_dec_inv t Hw) as [S [M [E [HS [HM [HE Et]]]]]]. subst t.
  rewrite !forallb_app. rewrite (sign_tokc S HS), (mant_tokc M HM), (exp_tokc E HE). reflexivity.
Qed.

(* nom's float recogniser on a float token followed by a char that cannot continue it *)
Lemma float_token : forall t x r, wf_dec t = true ->
  is_digit x = false -> x <> 46%N -> x <> 101%N -> x <> 69%N ->
  p_recognize_float_or_exceptions (t ++ x :: r) = POk (x :: r) (length t) t.
Proof.
  intros t x r Hw Hx H46 H101 H69.
  destruct (float_inner t x r Hw Hx H46 H101 H69) as [n [v H]].
  assert (Hr : p_recognize_float_or_exceptions (t ++ x :: r)
               = POk (x :: r) n (firstn n (t ++ x :: r))).
  { unfold p_recognize_float_or_exceptions, p_recognize_float, p_recognize. rewrite H. reflexivity. }
  destruct (pspec_ok _ _ _ _ _ _ pspec_recognize_float_or_exceptions Hr) as [pre [E [L Q]]].
  cbn beta in Q. apply app_inv_tail in E.
  rewrite Hr. rewrite Q. rewrite <- L. rewrite <- E. reflexivity.
Qed.

Lemma wf_ftok_inv : forall parse_f32 t, wf_ftok parse_f32 t = true ->
  wf_dec t = true /\ parse_f32 t = Some (fvalue parse_f32 t).
Proof.
  intros parse_f32 t H. unfold wf_ftok in H. apply andb_true_iff in H. destruct H as [Hd Hp].
  split; [exact Hd|]. unfold fvalue. destruct (parse_f32 t); [reflexivity|discriminate Hp].
Qed.

Lemma float_parse_token : forall parse_f32 t x r, wf_ftok parse_f32 t = true ->
  is_digit x = false -> x <> 46%N -> x <> 101%N -> x <> 69%N ->
  exists n, p_float parse_f32 (t ++ x :: r) = POk (x :: r) n (fvalue parse_f32 t).
Proof.
  intros parse_f32 t x r Hw Hx H46 H101 H69.
  destruct (wf_ftok_inv parse_f32 t Hw) as [Hd Hp].
  unfold p_float. rewrite (float_token t x r Hd Hx H46 H101 H69). cbn [pbind].
  rewrite Hp. eexists; reflexivity.
Qed.

(* ---------- many1(preceded(tab, float)) ---------- *)

Definition tabs (ts : list (list N)) : list N := concat (map (fun t => 9%N :: t) ts).

(* what may follow a printed frequency token *)
Definition fstop (x : N) : Prop := x = 9%N \/ x = 13%N \/ x = 10%N.

Lemma fstop_ok : forall x, fstop x -> is_digit x = false /\ x <> 46%N /\ x <> 101%N /\ x <> 69%N.
Proof.
  intros x [H|[H|H]]; subst x; (split; [reflexivity|]); (split; [discriminate|]);
    split; discriminate.
Qed.

Lemma el_ok : forall parse_f32 t x r, wf_ftok parse_f32 t = true -> fstop x ->
  exists n, p_preceded (p_char 9) (p_float parse_f32) (9%N :: t ++ x :: r)
            = POk (x :: r) (S n) (fvalue parse_f32 t).
Proof.
  intros parse_f32 t x r Hw Hs. destruct (fstop_ok x Hs) as [Hx [H46 [H101 H69]]].
  destruct (float_parse_token parse_f32 t x r Hw Hx H46 H101 H69) as [n Hn].
  exists n. unfold p_preceded. rewrite char_ok. cbn [pbind]. rewrite Hn. reflexivity.
Qed.

Lemma el_fail : forall (parse_f32 : list N -> option F32.t) e Y, (e = 13%N \/ e = 10%N) ->
  p_preceded (p_char 9) (p_float parse_f32) (e :: Y) = PErr KChar.
Proof.
  intros parse_f32 e Y He. unfold p_preceded.
  assert (H9 : e <> 9%N) by (destruct He; subst e; discriminate).
  rewrite (char_fail 9 e Y H9). reflexivity.
Qed.

Lemma tabs_head : forall ts e Y, (e = 13%N \/ e = 10%N) ->
  exists x r, tabs ts ++ e :: Y = x :: r /\ fstop x.
Proof.
  intros ts e Y He. destruct ts as [|t ts].
  - unfold tabs. cbn [map concat app]. eexists; eexists; split; [reflexivity|].
    unfold fstop. tauto.
  - unfold tabs. cbn [map concat app]. eexists; eexists; split; [reflexivity|].
    left. reflexivity.
Qed.

Lemma tabs_cons : forall t ts, tabs (t :: ts) = 9%N :: t ++ tabs ts.
Proof. intros t ts. reflexivity. Qed.

Lemma many1_loop_tokens : forall parse_f32 ts fuel e Y cnt acc,
  forallb (wf_ftok parse_f32) ts = true -> (e = 13%N \/ e = 10%N) ->
  length (tabs ts ++ e :: Y) < fuel ->
  exists n, many1_loop (p_preceded (p_char 9) (p_float parse_f32)) fuel (tabs ts ++ e :: Y) cnt acc
            = POk (e :: Y) n (rev acc ++ map (fvalue parse_f32) ts).
Proof.
  intros parse_f32. induction ts as [|t ts IH]; intros fuel e Y cnt acc Hw He Hf.
  - destruct fuel as [|fuel]; [inversion Hf|].
    unfold tabs. cbn [map concat app]. cbn [many1_loop].
    rewrite (el_fail parse_f32 e Y He). rewrite app_nil_r. eexists; reflexivity.
  - destruct fuel as [|fuel]; [inversion Hf|].
    cbn [forallb] in Hw. apply andb_true_iff in Hw. destruct Hw as [Ht Hw].
    destruct (tabs_head ts e Y He) as [x [r [ER Hx]]].
    assert (Ein : tabs (t :: ts) ++ e :: Y = 9%N :: t ++ x :: r).
    { rewrite tabs_cons. cbn [app]. rewrite <- app_assoc. rewrite ER. reflexivity. }
    rewrite Ein in Hf |- *.
    cbn [many1_loop].
    destruct (el_ok parse_f32 t x r Ht Hx) as [n1 H1]. rewrite H1.
    cbn [Nat.eqb].
    rewrite <- ER.
    assert (Hf' : length (tabs ts ++ e :: Y) < fuel).
    { rewrite ER. cbn [length] in Hf |- *. rewrite app_length in Hf. cbn [length] in Hf. lia. }
    destruct (IH fuel e Y (S n1 + cnt) (fvalue parse_f32 t :: acc) Hw He Hf') as [n Hn].
    rewrite Hn. exists n. cbn [rev map]. rewrite <- app_assoc. reflexivity.
Qed.

Lemma u_frequencies_print : forall parse_f32 toks e Y, toks <> [] -> forallb (wf_ftok parse_f32) toks = true ->
  (e = 13%N \/ e = 10%N) ->
  exists n, u_frequencies parse_f32 (concat (map (fun t => 9%N :: t) toks) ++ e :: Y)
            = POk (e :: Y) n (map (fvalue parse_f32) toks).
Proof.
  intros parse_f32 toks e Y Hne Hw He.
  change (concat (map (fun t => 9%N :: t) toks)) with (tabs toks).
  destruct toks as [|t ts]; [exfalso; apply Hne; reflexivity|].
  cbn [forallb] in Hw. apply andb_true_iff in Hw. destruct Hw as [Ht Hw].
  destruct (tabs_head ts e Y He) as [x [r [ER Hx]]].
  assert (Ein : tabs (t :: ts) ++ e :: Y = 9%N :: t ++ x :: r).
  { rewrite tabs_cons. cbn [app]. rewrite <- app_assoc. rewrite ER. reflexivity. }
  rewrite Ein. unfold u_frequencies, p_many1.
  destruct (el_ok parse_f32 t x r Ht Hx) as [n1 H1]. rewrite H1.
  rewrite <- ER.
  destruct (many1_loop_tokens parse_f32 ts (S (length (tabs ts ++ e :: Y))) e Y (S n1)
              [fvalue parse_f32 t] Hw He (Nat.lt_succ_diag_r _)) as [n Hn].
  rewrite Hn. exists n. reflexivity.
Qed.

(* ---------- the column line ---------- *)

Lemma eol_head2 : forall y X, exists e Y, eol y ++ X = e :: Y /\ (e = 13%N \/ e = 10%N).
Proof.
  intros y X. unfold eol. destruct (y_crlf y); cbn [app]; eexists; eexists;
    (split; [reflexivity|]); [left|right]; reflexivity.
Qed.

Lemma u_matrix_column_print : forall A parse_f32 y (c : N * list (list N)) k X,
  aindex A (fst c) = Some k -> snd c <> [] -> forallb (wf_ftok parse_f32) (snd c) = true ->
  exists n, u_matrix_column A parse_f32 (uniprobe_line y c ++ X) = POk X n (k, map (fvalue parse_f32) (snd c)).
Proof.
  intros A parse_f32 y c k X Hk Hne Hw.
  destruct (eol_head2 y X) as [e [Y [Ee He]]].
  destruct (line_ending_eol y X) as [n4 [le H4]]. rewrite Ee in H4.
  destruct (u_frequencies_print parse_f32 (snd c) e Y Hne Hw He) as [n3 H3].
  pose proof (char_ok 58 (concat (map (fun t => 9%N :: t) (snd c)) ++ e :: Y)) as H2.
  pose proof (symbol_ok A (fst c) k
                (58%N :: concat (map (fun t => 9%N :: t) (snd c)) ++ e :: Y) Hk) as H1.
  destruct (separated_pair_ok (p_symbol A) (p_char 58) (u_frequencies parse_f32)
              _ _ _ _ _ _ _ _ _ _ H1 H2 H3) as [n123 H123].
  unfold uniprobe_line. rewrite <- !app_assoc. cbn [app]. rewrite Ee.
  unfold u_matrix_column.
  assert (u_col_end (e :: Y) = POk X n4 le) as H4'.
  { unfold u_col_end, u_col_end_of. destruct gen_uniprobe_col_eof; [unfold p_alt; rewrite H4; reflexivity|exact H4]. }
  exact (terminated_ok _ u_col_end _ _ _ _ _ _ _ H123 H4').
Qed.

(* ---------- the name line ---------- *)

Lemma forallb_impl : forall (p q : N -> bool) l,
  (forall c, p c = true -> q c = true) -> forallb p l = true -> forallb q l = true.
Proof.
  intros p q l Hpq. induction l as [|c l IH]; intros H; [reflexivity|].
  cbn [forallb] in *. apply andb_true_iff in H. destruct H as [Hc H].
  rewrite (Hpq c Hc), (IH H). reflexivity.
Qed.

Lemma wf_name_inv : forall A l, wf_name A l = true ->
  forallb (fun c => negb (N.eqb c 13 || N.eqb c 10)) l = true /\
  match l with [] => false | c :: _ => negb (is_white_space c) end = true /\
  match rev l with [] => false | c :: _ => negb (is_white_space c) end = true /\
  match l with
  | c :: 58%N :: _ => match aindex A c with Some _ => true | None => false end
  | _ => false
  end = false.
Proof.
  intros A l H. unfold wf_name in H.
  apply andb_true_iff in H. destruct H as [H H4].
  apply andb_true_iff in H. destruct H as [H H3].
  apply andb_true_iff in H. destruct H as [H1 H2].
  apply negb_true_iff in H4.
  split; [|split; [exact H2|split; [exact H3|exact H4]]].
  revert H1. apply forallb_impl. intros c Hc.
  destruct (is_scalar c), (N.eqb c 10), (N.eqb c 13); cbn in Hc; try discriminate Hc; reflexivity.
Qed.

Lemma not_line_ending_eol : forall l y,
  forallb (fun c => negb (N.eqb c 13 || N.eqb c 10)) l = true ->
  p_not_line_ending (l ++ eol y) = POk (eol y) (length l) l.
Proof.
  intros l y H. unfold p_not_line_ending, eol. destruct (y_crlf y).
  - rewrite (span_app_stop _ l 13%N [10%N] H eq_refl). reflexivity.
  - rewrite (span_app_stop _ l 10%N [] H eq_refl). reflexivity.
Qed.

Lemma u_id_print : forall A l y, wf_name A l = true -> exists n, u_id (l ++ eol y) = POk [] n l.
Proof.
  intros A l y Hw. destruct (wf_name_inv A l Hw) as [H1 [H2 [H3 _]]].
  pose proof (not_line_ending_eol l y H1) as Hn.
  destruct (line_ending_eol y []) as [n2 [le H4]]. rewrite app_nil_r in H4.
  destruct (terminated_ok p_not_line_ending p_line_ending _ _ _ _ _ _ _ Hn H4) as [n Ht].
  pose proof (trim_spec [] l [] eq_refl eq_refl H2 H3) as T.
  cbn [app] in T. rewrite app_nil_r in T.
  unfold u_id. rewrite (map_ok trim _ _ _ _ _ Ht). rewrite T. eexists; reflexivity.
Qed.

Lemma name_not_column : forall A parse_f32 l y, wf_name A l = true ->
  exists k, u_matrix_column A parse_f32 (l ++ eol y) = PErr k.
Proof.
  intros A parse_f32 l y Hw. destruct (wf_name_inv A l Hw) as [_ [H2 [_ H4]]].
  destruct l as [|c rest]; [discriminate H2|].
  unfold u_matrix_column, p_terminated, p_separated_pair, p_symbol, p_anychar.
  cbn [app pbind].
  destruct (aindex A c) as [k|] eqn:Ek; [|eexists; reflexivity]. cbn [pbind].
  assert (Hc : exists k', p_char 58 (rest ++ eol y) = PErr k').
  { destruct rest as [|c2 rest'].
    - cbn [app]. unfold eol. destruct (y_crlf y); eexists; reflexivity.
    - cbn [app]. exists KChar. apply char_fail. intros E. subst c2.
      cbn in H4. try rewrite Ek in H4. discriminate H4. }
  destruct Hc as [k' Hc]. rewrite Hc. eexists; reflexivity.
Qed.

Lemma empty_not_column : forall A parse_f32, exists k, u_matrix_column A parse_f32 [] = PErr k.
Proof. intros A parse_f32. eexists. reflexivity. Qed.
