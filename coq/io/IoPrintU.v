(* Well-formedness predicate (boolean) of UniPROBE records for the C14 round trip.
   Proof-side definitions only (not extracted). *)
From Coq Require Import List NArith ZArith Bool Arith.
From LMBase Require Import Res ListX IEEE.
From LMIo Require Import IoBase IoNom IoJaspar IoUniprobe IoPrint.
Import ListNotations.

(* a float token of the round-trip theorem: nom's decimal float grammar
     SIGN? ( DIGITS ('.' DIGITS?)? | '.' DIGITS ) ( [eE] SIGN? DIGITS )?     with DIGITS = one or more digits
   (nan / inf spellings are left out: a row containing them never passes FrequencyMatrix::new) *)
Definition is_sign (c : N) : bool := N.eqb c 43 || N.eqb c 45.
Definition strip_sign (l : list N) : list N :=
  match l with c :: r => if is_sign c then r else l | [] => [] end.

(* the mantissa; returns what follows it *)
Definition wf_mant (l : list N) : option (list N) :=
  let (a, r) := span is_digit l in
  match a with
  | _ :: _ => match r with
              | c :: r' => if N.eqb c 46 then Some (snd (span is_digit r')) else Some r
              | [] => Some []
              end
  | [] => match r with
          | c :: r' => if N.eqb c 46
                       then let (b, r'') := span is_digit r' in
                            match b with [] => None | _ :: _ => Some r'' end
                       else None
          | [] => None
          end
  end.

(* the optional exponent, up to the end of the token *)
Definition wf_exp (l : list N) : bool :=
  match l with
  | [] => true
  | c :: r => (N.eqb c 101 || N.eqb c 69)
              && negb (is_nil (strip_sign r)) && forallb is_digit (strip_sign r)
  end.

Definition wf_dec (t : list N) : bool :=
  match wf_mant (strip_sign t) with Some r => wf_exp r | None => false end.

Section U.
  Variable A : alphabet.
  Variable parse_f32 : list N -> option F32.t.

  (* the cell value of a token *)
  Definition fvalue (t : list N) : F32.t :=
    match parse_f32 t with Some v => v | None => F32.zero end.

  Definition wf_ftok (t : list N) : bool :=
    wf_dec t && match parse_f32 t with Some _ => true | None => false end.

  (* a name: scalar values, no CR / LF, does not start or end with white space (so it is
     non-blank and trim leaves it unchanged), and does not look like a matrix column "S:..." *)
  Definition wf_name (l : list N) : bool :=
    forallb (fun c => is_scalar c && negb (N.eqb c 10) && negb (N.eqb c 13)) l
    && match l with [] => false | c :: _ => negb (is_white_space c) end
    && match rev l with [] => false | c :: _ => negb (is_white_space c) end
    && negb (match l with
             | c :: 58%N :: _ => match aindex A c with Some _ => true | None => false end
             | _ => false
             end).

  Definition wf_uniprobe (p : style * src) : bool :=
    let (y, r) := p in
    wf_name (sid r)
    && match sdesc r with None => true | Some _ => false end
    && negb (is_nil (scols r)) && distinct_cols A [] (scols r)
    && same_width (scols r) && (1 <=? width (scols r))
    && forallb (fun c => forallb wf_ftok (snd c)) (scols r)
    && forallb (row_ok) (matrix_of A F32.zero fvalue (scols r)).
End U.
