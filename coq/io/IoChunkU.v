(* The UniPROBE reader does not depend on the chunking of its stream (it touches the
   stream only through read_line). *)
From Coq Require Import List NArith ZArith Bool Arith Lia.
From LMBase Require Import Res ListX IEEE.
From LMIo Require Import IoBase IoNom IoJaspar IoUniprobe IoBaseProofs.
Import ListNotations.

Definition srel (s1 s2 : stream) : Prop := wf_stream s1 /\ wf_stream s2 /\ concat s1 = concat s2.

Lemma read_line_rel : forall s1 s2, srel s1 s2 ->
  fst (read_line s1) = fst (read_line s2) /\ srel (snd (read_line s1)) (snd (read_line s2)).
Proof.
  intros s1 s2 [H1 [H2 E]]. destruct (read_line_chunk_independent_lemma s1 s2 H1 H2 E) as [A B].
  split; [exact A|]. split; [apply read_line_wf; exact H1|]. split; [apply read_line_wf; exact H2|exact B].
Qed.

Lemma read_fuel_rel : forall s1 s2, srel s1 s2 -> read_fuel s1 = read_fuel s2.
Proof. intros s1 s2 [_ [_ E]]. unfold read_fuel, stream_bytes. rewrite E. reflexivity. Qed.

Definition fill_rel (a b : fill_res) : Prop :=
  match a, b with
  | FLine b1 s1, FLine b2 s2 => b1 = b2 /\ srel s1 s2
  | FEof b1 s1, FEof b2 s2 => b1 = b2 /\ srel s1 s2
  | FErr b1 s1, FErr b2 s2 => b1 = b2 /\ srel s1 s2
  | FFuel, FFuel => True
  | _, _ => False
  end.

Lemma u_fill_rel : forall fuel buf s1 s2, srel s1 s2 -> fill_rel (u_fill fuel buf s1) (u_fill fuel buf s2).
Proof.
  induction fuel as [|fuel IH]; intros buf s1 s2 R; [exact I|].
  cbn [u_fill]. destruct (read_line_rel s1 s2 R) as [Eo R'].
  destruct (read_line s1) as [o1 t1]. destruct (read_line s2) as [o2 t2]. cbn [fst snd] in *. subst o2.
  destruct o1 as [[n cs]|e|k|]; try (split; [reflexivity|exact R']).
  destruct n as [|n]; [split; [reflexivity|exact R']|].
  destruct (is_nil (trim (buf ++ cs))); [apply IH; exact R'|split; [reflexivity|exact R']].
Qed.

Section U.
  Variable A : alphabet.
  Variable parse_f32 : list N -> option F32.t.

  Definition cols_rel (a b : cols_res) : Prop :=
    match a, b with
    | CDone c1 b1 l1 s1, CDone c2 b2 l2 s2 => c1 = c2 /\ b1 = b2 /\ l1 = l2 /\ srel s1 s2
    | CErr b1 s1, CErr b2 s2 => b1 = b2 /\ srel s1 s2
    | CPanic k1, CPanic k2 => k1 = k2
    | CFuel, CFuel => True
    | _, _ => False
    end.

  Lemma u_columns_rel : forall F0 fuel buf line s1 s2 acc, srel s1 s2 ->
    cols_rel (u_columns A parse_f32 F0 fuel buf line s1 acc) (u_columns A parse_f32 F0 fuel buf line s2 acc).
  Proof.
    intros F0. induction fuel as [|fuel IH]; intros buf line s1 s2 acc R; [exact I|].
    cbn [u_columns].
    assert (fill_rel (if line then FLine buf s1 else u_fill F0 buf s1)
                     (if line then FLine buf s2 else u_fill F0 buf s2)) as F.
    { destruct line; [split; [reflexivity|exact R]|]. apply u_fill_rel. exact R. }
    destruct (if line then FLine buf s1 else u_fill F0 buf s1) as [b1 t1|b1 t1|b1 t1|];
      destruct (if line then FLine buf s2 else u_fill F0 buf s2) as [b2 t2|b2 t2|b2 t2|];
      try contradiction; try exact I; destruct F as [<- R'].
    - destruct (u_matrix_column A parse_f32 b1); try reflexivity; try exact I;
        [apply IH; exact R'|repeat split; try reflexivity; apply R'|repeat split; try reflexivity; apply R'].
    - destruct (u_matrix_column A parse_f32 b1); try reflexivity; try exact I;
        [apply IH; exact R'|repeat split; try reflexivity; apply R'|repeat split; try reflexivity; apply R'].
    - split; [reflexivity|exact R'].
  Qed.

  Definition urel (a b : ustate) : Prop := ubuf a = ubuf b /\ uline a = uline b /\ srel (ustream a) (ustream b).

  Ltac fin_rel := solve [cbn [fst snd]; split; [reflexivity|]; unfold urel, srel in *; cbn [ubuf uline ustream];
                         repeat split; try reflexivity; try tauto].

  Lemma u_next_rel : forall F0 buggy st1 st2, urel st1 st2 ->
    snd (u_next A parse_f32 F0 buggy st1) = snd (u_next A parse_f32 F0 buggy st2) /\
    urel (fst (u_next A parse_f32 F0 buggy st1)) (fst (u_next A parse_f32 F0 buggy st2)).
  Proof.
    intros F0 buggy [buf line s1] [buf2 line2 s2] [Eb [El R]]. cbn [ubuf uline ustream] in *. subst buf2 line2.
    unfold u_next. cbn [ubuf uline ustream].
    assert (fill_rel (if line then FLine buf s1 else u_fill F0 buf s1)
                     (if line then FLine buf s2 else u_fill F0 buf s2)) as F.
    { destruct line; [split; [reflexivity|exact R]|]. apply u_fill_rel. exact R. }
    destruct (if line then FLine buf s1 else u_fill F0 buf s1) as [b1 t1|b1 t1|b1 t1|];
      destruct (if line then FLine buf s2 else u_fill F0 buf s2) as [b2 t2|b2 t2|b2 t2|];
      try contradiction.
    2,3: destruct F as [<- R']; fin_rel.
    2: fin_rel.
    destruct F as [<- R'].
    destruct (u_id b1) as [rest n id| | | |]; try fin_rel.
    pose proof (u_columns_rel F0 F0 [] false t1 t2 [] R') as C.
    destruct (u_columns A parse_f32 F0 F0 [] false t1 []) as [c1 bb1 l1 u1|bb1 u1|k1|];
      destruct (u_columns A parse_f32 F0 F0 [] false t2 []) as [c2 bb2 l2 u2|bb2 u2|k2|];
      try contradiction.
    - destruct C as [<- [<- [<- R'']]].
      destruct (u_build_matrix A buggy c1) as [m|e|k|]; try fin_rel.
      destruct (freq_new m); fin_rel.
    - destruct C as [<- R'']. fin_rel.
    - cbn in C. subst k2. fin_rel.
    - fin_rel.
  Qed.

  Lemma u_run_rel : forall F0 buggy fuel stop st1 st2, urel st1 st2 ->
    u_run A parse_f32 F0 buggy fuel stop st1 = u_run A parse_f32 F0 buggy fuel stop st2.
  Proof.
    intros F0 buggy. induction fuel as [|fuel IH]; intros stop st1 st2 R; [reflexivity|].
    cbn [u_run]. destruct (u_next_rel F0 buggy st1 st2 R) as [Eo R'].
    destruct (u_next A parse_f32 F0 buggy st1) as [st1' o1]. destruct (u_next A parse_f32 F0 buggy st2) as [st2' o2].
    cbn [fst snd] in *. subst o2.
    destruct o1 as [[r|]|e|k|]; try reflexivity.
    - f_equal. apply IH. exact R'.
    - destruct stop; [reflexivity|]. f_equal. apply IH. exact R'.
  Qed.

  Theorem uniprobe_read_chunk : forall s1 s2, wf_stream s1 -> wf_stream s2 -> concat s1 = concat s2 ->
    uniprobe_read A parse_f32 s1 = uniprobe_read A parse_f32 s2.
  Proof.
    intros s1 s2 H1 H2 E. unfold uniprobe_read.
    rewrite (read_fuel_rel s1 s2 (conj H1 (conj H2 E))).
    apply u_run_rel. unfold urel, u_new. cbn. repeat split; assumption.
  Qed.
End U.
