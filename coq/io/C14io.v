(* C14 (JASPAR, JASPAR 2016, UniPROBE readers): property theorems only.
   Streams are lists of chunks (what successive fill_buf() calls deliver); [wf_stream] only
   says that no chunk is empty, so "forall s, wf_stream s -> stream_bytes s = file -> ..." is
   "for every chunking of the file".  [caps] is the arbitrary Vec::capacity() oracle that
   decides when the JASPAR readers compact their buffer. *)
From Coq Require Import List NArith ZArith Bool Arith.
From LMBase Require Import Res IEEE.
From LMIo Require Import IoBase IoNom IoJaspar IoUniprobe IoPrint IoBaseProofs IoCheckProofs
  IoMatrixProofs IoAbs IoChunkU IoC14Proofs IoPrintU IoRoundtripU IoC14ProofsU.
Import ListNotations.

(* ---------- the "schedules" quantifier ---------- *)

(* std's read_until / read_line over ANY two chunkings of the same bytes return the same
   bytes and leave the same bytes unread (induction on the chunk list) *)
Theorem read_until_chunk_independent : forall d s1 s2,
  wf_stream s1 -> wf_stream s2 -> stream_bytes s1 = stream_bytes s2 ->
  fst (read_until d s1) = fst (read_until d s2) /\
  stream_bytes (snd (read_until d s1)) = stream_bytes (snd (read_until d s2)).
Proof. exact read_until_chunk_independent_lemma. Qed.

Theorem read_line_chunk_independent : forall s1 s2,
  wf_stream s1 -> wf_stream s2 -> stream_bytes s1 = stream_bytes s2 ->
  fst (read_line s1) = fst (read_line s2) /\
  stream_bytes (snd (read_line s1)) = stream_bytes (snd (read_line s2)).
Proof. exact read_line_chunk_independent_lemma. Qed.

(* whole readers, ANY input (well-formed or not): the outcome list of Reader::new + next()...
   depends on the bytes only, not on the chunking and not on the capacity oracle *)
Theorem reader_chunk_independent_jaspar : forall caps1 caps2 s1 s2,
  wf_stream s1 -> wf_stream s2 -> stream_bytes s1 = stream_bytes s2 ->
  jaspar_read caps1 s1 = jaspar_read caps2 s2.
Proof. exact (j_read_chunk_independent_lemma (j_record false)). Qed.

Theorem reader_chunk_independent_jaspar16 : forall A caps1 caps2 s1 s2,
  wf_stream s1 -> wf_stream s2 -> stream_bytes s1 = stream_bytes s2 ->
  jaspar16_read A caps1 s1 = jaspar16_read A caps2 s2.
Proof. intros A. exact (j_read_chunk_independent_lemma (j16_record A)). Qed.

Theorem reader_chunk_independent_uniprobe : forall A parse_f32 s1 s2,
  wf_stream s1 -> wf_stream s2 -> stream_bytes s1 = stream_bytes s2 ->
  uniprobe_read A parse_f32 s1 = uniprobe_read A parse_f32 s2.
Proof. exact uniprobe_read_chunk. Qed.

(* buffer compaction (copy_within / truncate / start = 0) is invisible: the reader's answers do
   not depend on when it happens *)
Theorem compaction_transparent : forall precord caps1 caps2 s,
  j_read precord caps1 s = j_read precord caps2 s.
Proof. exact compaction_transparent_lemma. Qed.

(* ---------- reader_roundtrip ---------- *)
(* any non-empty list of well-formed records (boolean predicate wf_jaspar / wf_jaspar16: every
   layout freedom of IoPrint.style, any count < 2^32 with leading zeros, optional description,
   JASPAR16 symbol lines in any order and any subset), written with any bytes without '>' before
   the first record and any ASCII white space after the last, read through any chunking and any
   compaction schedule, yields exactly those records, in order, then End. *)

Theorem reader_roundtrip_jaspar : forall caps prefix rs suffix s,
  rs <> [] -> forallb wf_jaspar rs = true -> wf_prefix prefix = true -> wf_suffix suffix = true ->
  wf_stream s -> stream_bytes s = print_file print_jaspar prefix rs suffix ->
  jaspar_read caps s = map (fun p => Ok (Some (record_of Dna 0%N dec_value (snd p)))) rs ++ [Ok None].
Proof. exact jaspar_roundtrip_lemma. Qed.

Theorem reader_roundtrip_jaspar16 : forall A caps prefix rs suffix s,
  wf_alphabet A ->
  rs <> [] -> forallb (wf_jaspar16 A) rs = true -> wf_prefix prefix = true -> wf_suffix suffix = true ->
  wf_stream s -> stream_bytes s = print_file print_jaspar16 prefix rs suffix ->
  jaspar16_read A caps s = map (fun p => Ok (Some (record_of A 0%N dec_value (snd p)))) rs ++ [Ok None].
Proof. exact jaspar16_roundtrip_lemma. Qed.

(* the empty record list: a file of white space only (in particular the empty file) is End at once *)
Theorem reader_roundtrip_no_record : forall precord caps suffix s,
  wf_suffix suffix = true -> wf_stream s -> stream_bytes s = suffix ->
  j_read precord caps s = [Ok None].
Proof. exact j_read_blank_file_lemma. Qed.

Theorem alphabets_wf : wf_alphabet Dna /\ wf_alphabet Protein.
Proof. split; [exact wf_alphabet_dna|exact wf_alphabet_protein]. Qed.

(* what record_of means: row i of the loaded matrix holds, in column k, the value of the i-th
   token of the line whose symbol has index k, and zero where no line names that symbol *)
Theorem record_matrix_cells : forall {V} (A : alphabet) (zero : V) value cols i,
  i < width cols ->
  nth i (matrix_of A zero value cols) [] = map (fun k => cell_of A zero value cols i k) (seq 0 (aK A)).
Proof. exact @matrix_of_nth. Qed.

(* UniPROBE: every list (possibly empty) of records meeting IoPrintU.wf_uniprobe: names = any text
   without CR/LF that trim leaves unchanged and that does not look like a column line; symbol
   lines in any order and any subset; frequency tokens of nom's decimal float grammar
   SIGN? (DIGITS ('.' DIGITS?)? | '.' DIGITS) ([eE] SIGN? DIGITS)? for which the oracle parse_f32
   (= Rust's str::parse::<f32>, trusted) returns a value; any number of empty lines after each
   record; LF or CRLF; rows passing FrequencyMatrix::new's tolerance test (computed in binary32).
   [prefix]: any white-space-only complete lines before the first record (wf_blank_prefix);
   [suffix]: any ASCII white space after the last record, with or without a final newline.
   Not in the theorem (correspondence check only): nan/inf spellings (such rows never pass the
   tolerance test). *)
Theorem reader_roundtrip_uniprobe : forall A parse_f32 prefix rs suffix s,
  wf_alphabet A -> wf_blank_prefix prefix = true -> wf_suffix suffix = true ->
  forallb (wf_uniprobe A parse_f32) rs = true ->
  wf_stream s -> stream_bytes s = print_file print_uniprobe prefix rs suffix ->
  uniprobe_read A parse_f32 s
  = map (fun p => Ok (Some (record_of A F32.zero (fvalue parse_f32) (snd p)))) rs ++ [Ok None].
Proof. exact uniprobe_roundtrip_lemma. Qed.

(* the extracted checker used for PROPFAIL is sound *)
Theorem check_c14_sound : forall {C} (ceqb : C -> C -> bool),
  (forall a b, ceqb a b = true -> a = b) ->
  forall expected obs, check_c14 ceqb expected obs = true ->
  obs = map (fun r => Ok (Some r)) expected ++ [Ok None].
Proof. exact @check_c14_sound_lemma. Qed.

Check reader_roundtrip_jaspar : forall caps prefix rs suffix s,
  rs <> [] -> forallb wf_jaspar rs = true -> wf_prefix prefix = true -> wf_suffix suffix = true ->
  wf_stream s -> stream_bytes s = print_file print_jaspar prefix rs suffix ->
  jaspar_read caps s = map (fun p => Ok (Some (record_of Dna 0%N dec_value (snd p)))) rs ++ [Ok None].
Check reader_roundtrip_jaspar16 : forall A caps prefix rs suffix s,
  wf_alphabet A ->
  rs <> [] -> forallb (wf_jaspar16 A) rs = true -> wf_prefix prefix = true -> wf_suffix suffix = true ->
  wf_stream s -> stream_bytes s = print_file print_jaspar16 prefix rs suffix ->
  jaspar16_read A caps s = map (fun p => Ok (Some (record_of A 0%N dec_value (snd p)))) rs ++ [Ok None].
Check compaction_transparent : forall precord caps1 caps2 s, j_read precord caps1 s = j_read precord caps2 s.

(* ---------- non-vacuity ---------- *)

Definition ex_style : style :=
  {| y_crlf := true; y_hsep := [9]%N; y_lead := [32]%N; y_sep := [32; 32]%N; y_sym := [32]%N;
     y_tail := [32]%N; y_post := []; y_gap := 0 |}.
(* ">MA1 x y"  A: 1 20 / C: 03 4 / G: 5 6 / T: 4294967295 0 *)
Definition ex_rec : src :=
  {| sid := [77; 65; 49]%N; sdesc := Some [120; 32; 121]%N;
     scols := [(65, [[49]; [50; 48]]); (67, [[48; 51]; [52]]); (71, [[53]; [54]]);
               (84, [[52;50;57;52;57;54;55;50;57;53]; [48]])]%N |}.
(* JASPAR 2016: lines T and A only, in that order *)
Definition ex_rec16 : src :=
  {| sid := [77; 65; 49]%N; sdesc := None; scols := [(84, [[55]; [56]]); (65, [[49]; [50]])]%N |}.

Example wf_examples :
  wf_jaspar (ex_style, ex_rec) = true /\ wf_jaspar16 Dna (ex_style, ex_rec16) = true /\
  wf_prefix [35; 10]%N = true /\ wf_suffix [10; 32]%N = true.
Proof. vm_compute. repeat split. Qed.

(* the theorem's conclusion evaluated: two records, a 3-byte chunking, compaction at every call *)
Example roundtrip_instance :
  let file := print_file print_jaspar [35; 10]%N [(ex_style, ex_rec); (ex_style, ex_rec)] [10; 32]%N in
  jaspar_read (fun _ => 0) (mk_stream (chunk_sizes (repeat 3 (length file)) file))
  = [Ok (Some (record_of Dna 0%N dec_value ex_rec)); Ok (Some (record_of Dna 0%N dec_value ex_rec)); Ok None]
  /\ rmatrix (record_of Dna 0%N dec_value ex_rec) = [[1; 3; 4294967295; 5; 0]; [20; 4; 0; 6; 0]]%N.
Proof. vm_compute. split; reflexivity. Qed.

Example roundtrip_instance16 :
  let file := print_file print_jaspar16 [] [(ex_style, ex_rec16)] [] in
  jaspar16_read Dna (fun _ => 1000) (mk_stream (chunk_sizes (repeat 1 (length file)) file))
  = [Ok (Some (record_of Dna 0%N dec_value ex_rec16)); Ok None]
  /\ rmatrix (record_of Dna 0%N dec_value ex_rec16) = [[1; 0; 7; 0; 0]; [2; 0; 8; 0; 0]]%N.
Proof. vm_compute. split; reflexivity. Qed.

(* UniPROBE: name "M 1", lines T and A with +7.5e-1 / 0.25, one empty line after the record *)
Definition ex_oracle (t : list N) : option F32.t :=
  if list_eqb t [43; 55; 46; 53; 101; 45; 49]%N then Some (F32.of_bits 1061158912)  (* "+7.5e-1" *)
  else if list_eqb t [48; 46; 50; 53]%N then Some (F32.of_bits 1048576000)  (* "0.25" *)
  else None.
Definition ex_ustyle : style :=
  {| y_crlf := false; y_hsep := []; y_lead := []; y_sep := []; y_sym := []; y_tail := []; y_post := []; y_gap := 1 |}.
Definition ex_urec : src :=
  {| sid := [77; 32; 49]%N; sdesc := None;
     scols := [(84, [[43; 55; 46; 53; 101; 45; 49]; [48; 46; 50; 53]]);
               (65, [[48; 46; 50; 53]; [43; 55; 46; 53; 101; 45; 49]])]%N |}.

Example wf_uniprobe_example :
  wf_uniprobe Dna ex_oracle (ex_ustyle, ex_urec) = true /\ wf_blank_prefix [10; 32; 9; 13; 10]%N = true.
Proof. vm_compute. split; reflexivity. Qed.

Example roundtrip_instance_uniprobe :
  let file := print_file print_uniprobe [10; 32; 9; 13; 10]%N [(ex_ustyle, ex_urec); (ex_ustyle, ex_urec)] [32; 10; 9]%N in
  uniprobe_read Dna ex_oracle (mk_stream (chunk_sizes (repeat 2 (length file)) file))
  = [Ok (Some (record_of Dna F32.zero (fvalue ex_oracle) ex_urec));
     Ok (Some (record_of Dna F32.zero (fvalue ex_oracle) ex_urec)); Ok None].
Proof. vm_compute. reflexivity. Qed.

(* two different chunkings of the same bytes *)
Example chunkings_exist :
  wf_stream [[1;2]; [62;3]]%N /\ wf_stream [[1]; [2;62]; [3]]%N /\
  stream_bytes [[1;2]; [62;3]]%N = stream_bytes [[1]; [2;62]; [3]]%N /\
  read_until 62 [[1;2]; [62;3]]%N = ([1;2;62]%N, [[3]]%N).
Proof. repeat split; repeat constructor; discriminate. Qed.

(* ================= round 3: general layout (every count has its own blanks) =================
   IoPrint's style has ONE separator string per record, so right-aligned files such as
   tests/MA0017.3.pfm, benches/JASPAR2024.pwm or the doc example of jaspar/mod.rs
   ("A  [  7266   6333   8496      0 ... ]") are not instances of print_jaspar16 for any style.
   IoPrintG.v: each count carries the blanks in front of it (first: any number, others: at least one),
   each JASPAR 2016 line its own blanks around '[' and ']'.  Same conclusion as reader_roundtrip_*:
   any chunking, any compaction schedule, exactly the written records then End.  The driver
   recognises every bundled file as such an instance (extracted print_file_g / wf_jaspar16_g) and
   compares what was read with the records of this theorem. *)
From LMIo Require Import IoPrintG IoLineProofsG IoRecordProofsG.

Theorem reader_roundtrip_jaspar_general : forall caps prefix rs suffix s,
  rs <> [] -> forallb wf_jaspar_g rs = true -> wf_prefix prefix = true -> wf_suffix suffix = true ->
  wf_stream s -> stream_bytes s = print_file_g print_jaspar_g prefix rs suffix ->
  jaspar_read caps s = map (fun r => Ok (Some (record_of Dna 0%N dec_value (src_of_g r)))) rs ++ [Ok None].
Proof. exact jaspar_g_roundtrip_lemma. Qed.

Theorem reader_roundtrip_jaspar16_general : forall A caps prefix rs suffix s,
  wf_alphabet A ->
  rs <> [] -> forallb (wf_jaspar16_g A) rs = true -> wf_prefix prefix = true -> wf_suffix suffix = true ->
  wf_stream s -> stream_bytes s = print_file_g print_jaspar16_g prefix rs suffix ->
  jaspar16_read A caps s = map (fun r => Ok (Some (record_of A 0%N dec_value (src_of_g r)))) rs ++ [Ok None].
Proof. exact jaspar16_g_roundtrip_lemma. Qed.

(* the one-separator style of reader_roundtrip_jaspar / _jaspar16 is the special case g_of_style:
   same text, well-formed, same expected record *)
Theorem style_layout_is_special_case_jaspar16 : forall A p, wf_jaspar16 A p = true ->
  wf_jaspar16_g A (g_of_style p) = true /\ print_jaspar16 p = print_jaspar16_g (g_of_style p) /\
  src_of_g (g_of_style p) = snd p.
Proof.
  intros A [y r] H. split; [exact (wf_jaspar16_of_style A (y, r) H)|]. split; [|exact (src_of_g_of_style y r)].
  apply print_jaspar16_of_style. unfold wf_jaspar16 in H.
  repeat (apply andb_true_iff in H; destruct H as [H ?]).
  apply wide_cols_nonempty; [assumption|apply Nat.leb_le; assumption].
Qed.

Theorem style_layout_is_special_case_jaspar : forall p, wf_jaspar p = true ->
  wf_jaspar_g (g_of_style p) = true /\ print_jaspar p = print_jaspar_g (g_of_style p) /\
  src_of_g (g_of_style p) = snd p.
Proof.
  intros [y r] H. split; [exact (wf_jaspar_of_style (y, r) H)|]. split; [|exact (src_of_g_of_style y r)].
  apply print_jaspar_of_style. unfold wf_jaspar in H.
  repeat (apply andb_true_iff in H; destruct H as [H ?]).
  apply wide_cols_nonempty; [assumption|apply Nat.leb_le; assumption].
Qed.

(* non-vacuity: the first record of benches/JASPAR2024.pwm (three of its columns) with its right-aligned layout *)
Definition ex_general_record : gsrc :=
  let b := fun k => repeat 32%N k in
  let l := fun s (ts : list (nat * list N)) =>
             {| g_sym := s; g_gap := b 2; g_toks := map (fun kt => (b (fst kt), snd kt)) ts; g_tail := b 1; g_post := [] |} in
  {| g_id := [77;65;48;48;48;52;46;49]%N; g_desc := Some [65;114;110;116]%N; g_hsep := [9%N]; g_crlf := false;
     g_lines := [l 65%N [(5, [52%N]); (5, [49;57]%N); (6, [48%N])]; l 67%N [(4, [49;54]%N); (6, [48%N]); (5, [50;48]%N)];
                 l 71%N [(5, [48%N]); (6, [49%N]); (6, [48%N])]; l 84%N [(5, [48%N]); (6, [48%N]); (6, [48%N])]] |}.

Example general_layout_wf : wf_jaspar16_g Dna ex_general_record = true.
Proof. vm_compute. reflexivity. Qed.

Example general_layout_instance :
  jaspar16_read Dna (fun _ => 0) [print_file_g print_jaspar16_g [] [ex_general_record] []]
  = [Ok (Some {| rid := [77;65;48;48;48;52;46;49]%N; rdesc := Some [65;114;110;116]%N;
                 rmatrix := [[4;16;0;0;0]; [19;0;0;1;0]; [0;20;0;0;0]]%N |}); Ok None].
Proof. vm_compute. reflexivity. Qed.

(* blanks after an identifier without description (">x \t\n" reads as x, no description): printable since
   g_hsep is then the trailing blanks *)
Example general_layout_trailing_blanks :
  let r := {| g_id := [120%N]; g_desc := None; g_hsep := [32;9]%N; g_crlf := true;
              g_lines := map (fun s => {| g_sym := s; g_gap := [32%N]; g_toks := [([], [55%N])]; g_tail := []; g_post := [] |})
                             [65;67;71;84]%N |} in
  wf_jaspar16_g Dna r = true /\
  jaspar16_read Dna (fun _ => 0) [print_file_g print_jaspar16_g [] [r] []]
  = [Ok (Some {| rid := [120%N]; rdesc := None; rmatrix := [[7;7;7;7;0]]%N |}); Ok None].
Proof. vm_compute. split; reflexivity. Qed.

(* ================= round 3: the consumer that keeps asking after End =================
   A well-formed file read through ANY chunking by a consumer that makes n > (number of records)
   requests: exactly the written records, in order, then End at every further request -- nothing
   resurfaces after End.  [jaspar_polls_e] etc. are the polling consumers of IoPoll.v over event
   streams; [of_stream s] is the stream s without error events. *)
From LMIo Require Import GenIoAbc IoParseProofs IoErr IoErrUProofs IoErrJBase IoErrJLift IoPoll IoPollProofs.

Theorem reader_roundtrip_polls_jaspar : forall n caps prefix rs suffix s,
  rs <> [] -> forallb wf_jaspar rs = true -> wf_prefix prefix = true -> wf_suffix suffix = true ->
  wf_stream s -> stream_bytes s = print_file print_jaspar prefix rs suffix -> length rs < n ->
  jaspar_polls_e n caps (of_stream s)
  = map (fun p => Ok (Some (record_of Dna 0%N dec_value (snd p)))) rs ++ repeat (Ok None) (n - length rs).
Proof.
  intros n caps prefix rs suffix s Hne Hwf Hp Hs W E Hn.
  pose proof (reader_roundtrip_jaspar caps prefix rs suffix s Hne Hwf Hp Hs W E) as R.
  rewrite <- (jaspar_read_e_of_stream caps s W) in R.
  rewrite <- (map_map (fun p => record_of Dna 0%N dec_value (snd p)) (fun r => Ok (Some r))) in R |- *.
  rewrite <- (map_length (fun p => record_of Dna 0%N dec_value (snd p)) rs) in Hn |- *.
  apply (j_polls_records_then_end (j_record false) pspec_j_record); try assumption.
  - apply Nat.leb_le. reflexivity.
  - apply wf_of_stream. exact W.
Qed.

Theorem reader_roundtrip_polls_jaspar16 : forall A n caps prefix rs suffix s,
  wf_alphabet A ->
  rs <> [] -> forallb (wf_jaspar16 A) rs = true -> wf_prefix prefix = true -> wf_suffix suffix = true ->
  wf_stream s -> stream_bytes s = print_file print_jaspar16 prefix rs suffix -> length rs < n ->
  jaspar16_polls_e A n caps (of_stream s)
  = map (fun p => Ok (Some (record_of A 0%N dec_value (snd p)))) rs ++ repeat (Ok None) (n - length rs).
Proof.
  intros A n caps prefix rs suffix s HA Hne Hwf Hp Hs W E Hn.
  pose proof (reader_roundtrip_jaspar16 A caps prefix rs suffix s HA Hne Hwf Hp Hs W E) as R.
  rewrite <- (jaspar16_read_e_of_stream A caps s W) in R.
  rewrite <- (map_map (fun p => record_of A 0%N dec_value (snd p)) (fun r => Ok (Some r))) in R |- *.
  rewrite <- (map_length (fun p => record_of A 0%N dec_value (snd p)) rs) in Hn |- *.
  apply (j_polls_records_then_end (j16_record A) (pspec_j16_record A (fun c k H => proj1 (HA c k H)))); try assumption.
  - apply Nat.leb_le. reflexivity.
  - apply wf_of_stream. exact W.
Qed.

Theorem reader_roundtrip_polls_uniprobe : forall A parse_f32 n prefix rs suffix s,
  wf_alphabet A -> wf_blank_prefix prefix = true -> wf_suffix suffix = true ->
  forallb (wf_uniprobe A parse_f32) rs = true ->
  wf_stream s -> stream_bytes s = print_file print_uniprobe prefix rs suffix -> length rs < n ->
  uniprobe_polls_e A parse_f32 n (of_stream s)
  = map (fun p => Ok (Some (record_of A F32.zero (fvalue parse_f32) (snd p)))) rs ++ repeat (Ok None) (n - length rs).
Proof.
  intros A parse_f32 n prefix rs suffix s HA Hp Hs Hwf W E Hn.
  pose proof (reader_roundtrip_uniprobe A parse_f32 prefix rs suffix s HA Hp Hs Hwf W E) as R.
  rewrite <- (uniprobe_read_e_of_stream A parse_f32 s) in R.
  rewrite <- (map_map (fun p => record_of A F32.zero (fvalue parse_f32) (snd p)) (fun r => Ok (Some r))) in R |- *.
  rewrite <- (map_length (fun p => record_of A F32.zero (fvalue parse_f32) (snd p)) rs) in Hn |- *.
  apply (uniprobe_polls_records_then_end A (fun c k H => proj1 (HA c k H)) parse_f32); try assumption.
  apply wf_of_stream. exact W.
Qed.

Check reader_roundtrip_polls_jaspar : forall n caps prefix rs suffix s,
  rs <> [] -> forallb wf_jaspar rs = true -> wf_prefix prefix = true -> wf_suffix suffix = true ->
  wf_stream s -> stream_bytes s = print_file print_jaspar prefix rs suffix -> length rs < n ->
  jaspar_polls_e n caps (of_stream s)
  = map (fun p => Ok (Some (record_of Dna 0%N dec_value (snd p)))) rs ++ repeat (Ok None) (n - length rs).

(* the consumer that keeps asking after End, general layout *)
Theorem reader_roundtrip_polls_jaspar16_general : forall A n caps prefix rs suffix s,
  wf_alphabet A ->
  rs <> [] -> forallb (wf_jaspar16_g A) rs = true -> wf_prefix prefix = true -> wf_suffix suffix = true ->
  wf_stream s -> stream_bytes s = print_file_g print_jaspar16_g prefix rs suffix -> length rs < n ->
  jaspar16_polls_e A n caps (of_stream s)
  = map (fun r => Ok (Some (record_of A 0%N dec_value (src_of_g r)))) rs ++ repeat (Ok None) (n - length rs).
Proof.
  intros A n caps prefix rs suffix s HA Hne Hwf Hp Hs W E Hn.
  pose proof (reader_roundtrip_jaspar16_general A caps prefix rs suffix s HA Hne Hwf Hp Hs W E) as R.
  rewrite <- (jaspar16_read_e_of_stream A caps s W) in R.
  rewrite <- (map_map (fun r => record_of A 0%N dec_value (src_of_g r)) (fun r => Ok (Some r))) in R |- *.
  rewrite <- (map_length (fun r => record_of A 0%N dec_value (src_of_g r)) rs) in Hn |- *.
  apply (j_polls_records_then_end (j16_record A) (pspec_j16_record A (fun c k H => proj1 (HA c k H)))); try assumption.
  - apply Nat.leb_le. reflexivity.
  - apply wf_of_stream. exact W.
Qed.

Theorem reader_roundtrip_polls_jaspar_general : forall n caps prefix rs suffix s,
  rs <> [] -> forallb wf_jaspar_g rs = true -> wf_prefix prefix = true -> wf_suffix suffix = true ->
  wf_stream s -> stream_bytes s = print_file_g print_jaspar_g prefix rs suffix -> length rs < n ->
  jaspar_polls_e n caps (of_stream s)
  = map (fun r => Ok (Some (record_of Dna 0%N dec_value (src_of_g r)))) rs ++ repeat (Ok None) (n - length rs).
Proof.
  intros n caps prefix rs suffix s Hne Hwf Hp Hs W E Hn.
  pose proof (reader_roundtrip_jaspar_general caps prefix rs suffix s Hne Hwf Hp Hs W E) as R.
  rewrite <- (jaspar_read_e_of_stream caps s W) in R.
  rewrite <- (map_map (fun r => record_of Dna 0%N dec_value (src_of_g r)) (fun r => Ok (Some r))) in R |- *.
  rewrite <- (map_length (fun r => record_of Dna 0%N dec_value (src_of_g r)) rs) in Hn |- *.
  apply (j_polls_records_then_end (j_record false) pspec_j_record); try assumption.
  - apply Nat.leb_le. reflexivity.
  - apply wf_of_stream. exact W.
Qed.

(* "the result is the same whatever the sizes of the chunks", for the polling consumer and for ANY input (also
   malformed ones: the requests after a parse or decoding error and after End included) *)
From LMIo Require Import IoPollChunk.

Theorem reader_polls_chunk_independent_jaspar : forall n caps s1 s2,
  wf_stream s1 -> wf_stream s2 -> stream_bytes s1 = stream_bytes s2 ->
  jaspar_polls_e n caps (of_stream s1) = jaspar_polls_e n caps (of_stream s2).
Proof. intros n caps s1 s2. exact (j_polls_chunk_independent gen_jaspar_slice_guard (j_record false) _ _ n caps s1 s2). Qed.

Theorem reader_polls_chunk_independent_jaspar16 : forall A n caps s1 s2,
  wf_stream s1 -> wf_stream s2 -> stream_bytes s1 = stream_bytes s2 ->
  jaspar16_polls_e A n caps (of_stream s1) = jaspar16_polls_e A n caps (of_stream s2).
Proof. intros A n caps s1 s2. exact (j_polls_chunk_independent gen_jaspar_slice_guard (j16_record A) _ _ n caps s1 s2). Qed.

Theorem reader_polls_chunk_independent_uniprobe : forall A parse_f32 n s1 s2,
  wf_stream s1 -> wf_stream s2 -> stream_bytes s1 = stream_bytes s2 ->
  uniprobe_polls_e A parse_f32 n (of_stream s1) = uniprobe_polls_e A parse_f32 n (of_stream s2).
Proof. exact uniprobe_polls_chunk_independent. Qed.
